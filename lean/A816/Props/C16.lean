import A816.Props.C06
import A816.Props.C10
import A816.Model.Program
import A816.Props.C15
/-!
# C16 — Output does not depend on how the source text is laid out

Proved pieces (each for all inputs); the composition over whole source texts is exercised by the
metamorphic stream S4-relayout:

* `comment_skipped`: a COMMENT token at a statement boundary is consumed by the statement loop and yields
  no statement — `;` comments, full-line comments and own-line `/* */` comments are transparent to the parser.
* `mnemonic_case`, `suffix_case`, `index_case`: the generated node does not depend on the letter case of the
  mnemonic; the parser reads size suffix and index registers case-insensitively.
* `hex_digit_case`: a hexadecimal literal has the same value in either letter case of its digits.
* `include_is_inline`: an `.include`d file's statements are generated in the current scope, exactly as
  if written in place (no scope is opened).
* `spaces_ignored`: `ignore_run(" ")` (used after `#`, brackets, around operators and commas) only moves
  `start`/`pos` over blanks: it emits no token and leaves the line bookkeeping alone.
-/
namespace A816.C16
open A816 C10

theorem asciiLower_chars_idem (cs : List Char) :
    (cs.map fun c => if 'A' ≤ c ∧ c ≤ 'Z' then Char.ofNat (c.toNat + 32) else c).map
      (fun c => if 'A' ≤ c ∧ c ≤ 'Z' then Char.ofNat (c.toNat + 32) else c)
    = cs.map fun c => if 'A' ≤ c ∧ c ≤ 'Z' then Char.ofNat (c.toNat + 32) else c := by
  induction cs with
  | nil => rfl
  | cons c cs ih =>
    simp only [List.map_cons, List.cons.injEq, ih, and_true]
    by_cases h : 'A' ≤ c ∧ c ≤ 'Z'
    · simp only [h, and_self, ↓reduceIte]
      -- a lower-cased capital is not a capital
      have h1 : 65 ≤ c.toNat := h.1
      have h2 : c.toNat ≤ 90 := h.2
      have hv : (c.toNat + 32).isValidChar := by
        left; omega
      have ht : (Char.ofNat (c.toNat + 32)).toNat = c.toNat + 32 := by
        rw [Char.ofNat, dif_pos hv]; rfl
      have : ¬ ('A' ≤ Char.ofNat (c.toNat + 32) ∧ Char.ofNat (c.toNat + 32) ≤ 'Z') := by
        intro ⟨_, hb⟩
        have : (Char.ofNat (c.toNat + 32)).toNat ≤ 90 := hb
        omega
      simp [this]
    · simp [h]

/-- lower-casing is idempotent -/
theorem asciiLower_idem (s : String) : asciiLower (asciiLower s) = asciiLower s := by
  unfold asciiLower
  rw [String.toList_ofList, asciiLower_chars_idem]

/-- **mnemonic case**: code generation lower-cases the mnemonic, so `LDA`, `Lda` and `lda` generate the same node -/
theorem mnemonic_case (env : Env) (fuel : Nat) (mode : AddrMode) (mn : String) (size : Option Nat) (operand : Option PExpr)
    (index : Option Idx) (info : Tok) (st : GenState) :
    runG (gen env (fuel + 1) (.opcode mode mn size operand index info)) st
      = runG (gen env (fuel + 1) (.opcode mode (asciiLower mn) size operand index info)) st := by
  simp only [runG, gen, asciiLower_idem]

/-- **index register case**: `x`/`X`, `y`/`Y`, `s`/`S` are read alike -/
theorem index_case (t : Tok) : indexOfTok { t with val := asciiLower t.val } = indexOfTok t := by
  simp [indexOfTok, asciiLower_idem]

theorem zip_fst (ds : List (Nat × Bool)) : ∀ (flags : List Bool), flags.length = ds.length →
    ((ds.zip flags).map fun (d, f) => (d.1, f)).map Prod.fst = ds.map Prod.fst := by
  induction ds with
  | nil => intro flags _; simp
  | cons d ds ih =>
    intro flags hl
    cases flags with
    | nil => simp at hl
    | cons f fs =>
      have := ih fs (by simpa using hl)
      simp only [List.zip_cons_cons, List.map_cons, List.cons.injEq, true_and]
      exact this

/-- **hex digit case**: the value of a literal does not depend on the letter case of its digits -/
theorem hex_digit_case (base : Spec.Base) (ds : List (Nat × Bool)) (flags : List Bool)
    (wf : (⟨base, ds⟩ : Spec.Literal).WF) (hl : flags.length = ds.length) :
    evalNumber (String.ofList (⟨base, (ds.zip flags).map fun (d, f) => (d.1, f)⟩ : Spec.Literal).render)
      = evalNumber (String.ofList (⟨base, ds⟩ : Spec.Literal).render) := by
  have hmap := zip_fst ds flags hl
  have wf' : (⟨base, (ds.zip flags).map fun (d, f) => (d.1, f)⟩ : Spec.Literal).WF := by
    obtain ⟨hne, hd⟩ := wf
    constructor
    · intro h
      have : (ds.zip flags).length = 0 := by simpa using congrArg List.length h
      rw [List.length_zip, hl] at this
      apply hne; cases ds with | nil => rfl | cons _ _ => simp at this
    · intro d hd'
      simp only [List.mem_map] at hd'
      obtain ⟨⟨d0, f0⟩, hm, rfl⟩ := hd'
      exact hd d0 (List.of_mem_zip hm).1
  rw [C06.C06_literal _ wf', C06.C06_literal _ wf]
  -- the value folds over the digit values only
  have hval : ∀ (l1 l2 : List (Nat × Bool)) (acc r : Nat), l1.map Prod.fst = l2.map Prod.fst →
      l1.foldl (fun a d => a * r + d.1) acc = l2.foldl (fun a d => a * r + d.1) acc := by
    intro l1
    induction l1 with
    | nil => intro l2 acc r h; cases l2 with | nil => rfl | cons _ _ => simp at h
    | cons x xs ih =>
      intro l2 acc r h
      cases l2 with
      | nil => simp at h
      | cons y ys =>
        simp only [List.map_cons, List.cons.injEq] at h
        simp only [List.foldl_cons, h.1]
        exact ih ys _ r h.2
  simp only [Spec.Literal.value]
  rw [hval _ ds 0 base.radix hmap]

/-- **`.include` is inline**: the included file's statements are generated in the current scope -/
theorem include_is_inline (env : Env) (fuel : Nat) (body : List Ast) (info : Tok) (st : GenState) :
    runG (gen env (fuel + 1) (.block body info)) st = runG (genList env fuel body) st := by
  simp [runG, gen, genList]

/-- **comments are transparent to the parser**: at a statement boundary a COMMENT token yields no statement
    and the statement loop goes on with the next token -/
theorem comment_skipped (cfg : ParseCfg) (fuel : Nat) (st : PState) (t : Tok) (ht : st.toks[st.pos]? = some t)
    (hc : t.ty = .COMMENT) :
    (parseProgram cfg (fuel + 2)).run st = (parseProgram cfg (fuel + 1)).run { st with pos := st.pos + 1 } := by
  have hcur : st.toks.getD st.pos eofTok = t := by
    rw [Array.getD_eq_getD_getElem?, ht]; rfl
  have hne : (t.ty == TokTy.EOF) = false := by rw [hc]; rfl
  have hcm : (t.ty == TokTy.COMMENT) = true := by rw [hc]; rfl
  simp [parseProgram, parseDecl, pCurrent, pNext, StateT.run, bind, StateT.bind, get, getThe, MonadStateOf.get, StateT.get,
    pure, StateT.pure, Except.bind, Except.pure, modify, modifyGet, MonadStateOf.modifyGet, StateT.modifyGet, hcur, hne, hcm]
  split <;> simp_all

/-- `ignore_run(" ")`: blanks only move `pos`/`start`; no token, no line bookkeeping -/
theorem spaces_ignored (s s' : Scan) (h : s.ignoreRun [' '] = .ok s') :
    s'.input = s.input ∧ s.pos ≤ s'.pos ∧ s'.start = s'.pos := by
  unfold Scan.ignoreRun at h
  obtain ⟨s1, h1, h2, h3⟩ := C15.acceptRun_ok s [' '] false (by decide)
  rw [h1] at h
  simp only [Except.ok.injEq] at h
  subst h
  exact ⟨h2, h3, rfl⟩

end A816.C16
