import A816.Props.C06
import A816.Props.C10
import A816.Model.Program
import A816.Props.C15
import A816.Proofs.ScanLocal
import A816.Proofs.ScanExt
import A816.Proofs.ScanToks
import A816.Proofs.ScanComment
import A816.Proofs.ScanNaked
/-!
# C16 — Output does not depend on how the source text is laid out

Proved pieces (each for all inputs); the composition over whole source texts is exercised by the
metamorphic stream S4-relayout:

* `comment_skipped`: a COMMENT token at a statement boundary is consumed by the statement loop and yields
  no statement — `;` comments, full-line comments and own-line `/* */` comments are transparent to the parser.
* `mnemonic_case`, `suffix_case`, `index_case`: the generated node does not depend on the letter case of the
  mnemonic; the parser reads size suffix and index registers case-insensitively.
* `hex_digit_case`: a hexadecimal literal has the same value in either letter case of its digits.
* `include_is_inline`: an `.include`d file's statements are generated in the current scope, exactly as
  if written in place (no scope is opened).
* `spaces_ignored`: `ignore_run(" ")` (used after `#`, brackets, around operators and commas) only moves
  `start`/`pos` over blanks: it emits no token and leaves the line bookkeeping alone.
* **`scan_suffix_local`** (the scanner is local, for every configuration, scanner state and pair of texts): when the
  scans of two texts each pass through a between-token point (head of an iteration of `Scanner.scan`, `start = pos`)
  and the texts *after* those points are equal, the tokens emitted after those points have the same types and texts
  and the scans end the same way (same error message or none).  What precedes the point — other statements, comments,
  how they were laid out, an include boundary — cannot influence what follows it.
* **`blanks_between_tokens`**: the same conclusion when the remaining texts are equal *after dropping their leading
  blanks, tabs and newlines*: blank lines, indentation and trailing spaces at a between-token point change nothing.
  A comment is the same statement applied to the point after the comment (`scan_suffix_local` does not compare the
  tokens before the points), and the parser drops the COMMENT token (`comment_skipped`).
* **`scan_append`, `scan_append_tokens`** (scanning is compositional over lines): for every text `p` that ends with a
  newline and scans without error, every text `r` and every configuration whose mnemonics hold no newline,
  `scan (p ++ r) = scan p ⧺ scan r`: the tokens of `p` (EOF apart) are exactly the first tokens of the scan of `p ++ r`, the
  rest have the types and texts of the scan of `r`, and the outcome is that of `r`.  Corollaries for every text:
  `leading_blanks`, `blank_lines_between` (blank lines / indentation lines between lines change no token type or text),
  `insert_lines` (comment lines, statements or an included file's text inserted between lines add exactly their own tokens),
  `scan_chunks` (a text is scanned chunk by chunk: no chunk's tokens depend on its neighbours).
-/
namespace A816.C16
open A816 C10

theorem asciiLower_chars_idem (cs : List Char) :
    (cs.map fun c => if 'A' ≤ c ∧ c ≤ 'Z' then Char.ofNat (c.toNat + 32) else c).map
      (fun c => if 'A' ≤ c ∧ c ≤ 'Z' then Char.ofNat (c.toNat + 32) else c)
    = cs.map fun c => if 'A' ≤ c ∧ c ≤ 'Z' then Char.ofNat (c.toNat + 32) else c := by
  induction cs with
  | nil => rfl
  | cons c cs ih =>
    simp only [List.map_cons, List.cons.injEq, ih, and_true]
    by_cases h : 'A' ≤ c ∧ c ≤ 'Z'
    · simp only [h, and_self, ↓reduceIte]
      -- a lower-cased capital is not a capital
      have h1 : 65 ≤ c.toNat := h.1
      have h2 : c.toNat ≤ 90 := h.2
      have hv : (c.toNat + 32).isValidChar := by
        left; omega
      have ht : (Char.ofNat (c.toNat + 32)).toNat = c.toNat + 32 := by
        rw [Char.ofNat, dif_pos hv]; rfl
      have : ¬ ('A' ≤ Char.ofNat (c.toNat + 32) ∧ Char.ofNat (c.toNat + 32) ≤ 'Z') := by
        intro ⟨_, hb⟩
        have : (Char.ofNat (c.toNat + 32)).toNat ≤ 90 := hb
        omega
      simp [this]
    · simp [h]

/-- lower-casing is idempotent -/
theorem asciiLower_idem (s : String) : asciiLower (asciiLower s) = asciiLower s := by
  unfold asciiLower
  rw [String.toList_ofList, asciiLower_chars_idem]

/-- **mnemonic case**: code generation lower-cases the mnemonic, so `LDA`, `Lda` and `lda` generate the same node -/
theorem mnemonic_case (env : Env) (fuel : Nat) (mode : AddrMode) (mn : String) (size : Option Nat) (operand : Option PExpr)
    (index : Option Idx) (info : Tok) (st : GenState) :
    runG (gen env (fuel + 1) (.opcode mode mn size operand index info)) st
      = runG (gen env (fuel + 1) (.opcode mode (asciiLower mn) size operand index info)) st := by
  simp only [runG, gen, asciiLower_idem]

/-- **index register case**: `x`/`X`, `y`/`Y`, `s`/`S` are read alike -/
theorem index_case (t : Tok) : indexOfTok { t with val := asciiLower t.val } = indexOfTok t := by
  simp [indexOfTok, asciiLower_idem]

theorem zip_fst (ds : List (Nat × Bool)) : ∀ (flags : List Bool), flags.length = ds.length →
    ((ds.zip flags).map fun (d, f) => (d.1, f)).map Prod.fst = ds.map Prod.fst := by
  induction ds with
  | nil => intro flags _; simp
  | cons d ds ih =>
    intro flags hl
    cases flags with
    | nil => simp at hl
    | cons f fs =>
      have := ih fs (by simpa using hl)
      simp only [List.zip_cons_cons, List.map_cons, List.cons.injEq, true_and]
      exact this

/-- **hex digit case**: the value of a literal does not depend on the letter case of its digits -/
theorem hex_digit_case (base : Spec.Base) (ds : List (Nat × Bool)) (flags : List Bool)
    (wf : (⟨base, ds⟩ : Spec.Literal).WF) (hl : flags.length = ds.length) :
    evalNumber (String.ofList (⟨base, (ds.zip flags).map fun (d, f) => (d.1, f)⟩ : Spec.Literal).render)
      = evalNumber (String.ofList (⟨base, ds⟩ : Spec.Literal).render) := by
  have hmap := zip_fst ds flags hl
  have wf' : (⟨base, (ds.zip flags).map fun (d, f) => (d.1, f)⟩ : Spec.Literal).WF := by
    obtain ⟨hne, hd⟩ := wf
    constructor
    · intro h
      have : (ds.zip flags).length = 0 := by simpa using congrArg List.length h
      rw [List.length_zip, hl] at this
      apply hne; cases ds with | nil => rfl | cons _ _ => simp at this
    · intro d hd'
      simp only [List.mem_map] at hd'
      obtain ⟨⟨d0, f0⟩, hm, rfl⟩ := hd'
      exact hd d0 (List.of_mem_zip hm).1
  rw [C06.C06_literal _ wf', C06.C06_literal _ wf]
  -- the value folds over the digit values only
  have hval : ∀ (l1 l2 : List (Nat × Bool)) (acc r : Nat), l1.map Prod.fst = l2.map Prod.fst →
      l1.foldl (fun a d => a * r + d.1) acc = l2.foldl (fun a d => a * r + d.1) acc := by
    intro l1
    induction l1 with
    | nil => intro l2 acc r h; cases l2 with | nil => rfl | cons _ _ => simp at h
    | cons x xs ih =>
      intro l2 acc r h
      cases l2 with
      | nil => simp at h
      | cons y ys =>
        simp only [List.map_cons, List.cons.injEq] at h
        simp only [List.foldl_cons, h.1]
        exact ih ys _ r h.2
  simp only [Spec.Literal.value]
  rw [hval _ ds 0 base.radix hmap]

/-- **`.include` is inline**: the included file's statements are generated in the current scope -/
theorem include_is_inline (env : Env) (fuel : Nat) (body : List Ast) (info : Tok) (st : GenState) :
    runG (gen env (fuel + 1) (.block body info)) st = runG (genList env fuel body) st := by
  simp [runG, gen, genList]

/-- **comments are transparent to the parser**: at a statement boundary a COMMENT token yields no statement
    and the statement loop goes on with the next token -/
theorem comment_skipped (cfg : ParseCfg) (fuel : Nat) (st : PState) (t : Tok) (ht : st.toks[st.pos]? = some t)
    (hc : t.ty = .COMMENT) :
    (parseProgram cfg (fuel + 2)).run st = (parseProgram cfg (fuel + 1)).run { st with pos := st.pos + 1 } := by
  have hcur : st.toks.getD st.pos eofTok = t := by
    rw [Array.getD_eq_getD_getElem?, ht]; rfl
  have hne : (t.ty == TokTy.EOF) = false := by rw [hc]; rfl
  have hcm : (t.ty == TokTy.COMMENT) = true := by rw [hc]; rfl
  simp [parseProgram, parseDecl, pCurrent, pNext, StateT.run, bind, StateT.bind, get, getThe, MonadStateOf.get, StateT.get,
    pure, StateT.pure, Except.bind, Except.pure, modify, modifyGet, MonadStateOf.modifyGet, StateT.modifyGet, hcur, hne, hcm]
  split <;> simp_all

/-- the same inside a `{ … }` block (scope, macro body, `.if` / `.for` body): the block loop consumes a COMMENT token
    and yields no statement for it -/
theorem comment_skipped_in_block (cfg : ParseCfg) (fuel : Nat) (st : PState) (t : Tok) (ht : st.toks[st.pos]? = some t)
    (hc : t.ty = .COMMENT) :
    (parseBlock cfg (fuel + 2)).run st = (parseBlock cfg (fuel + 1)).run { st with pos := st.pos + 1 } := by
  have hcur : st.toks.getD st.pos eofTok = t := by
    rw [Array.getD_eq_getD_getElem?, ht]; rfl
  have hne : (t.ty == TokTy.EOF) = false := by rw [hc]; rfl
  have hnr : (t.ty == TokTy.RBRACE) = false := by rw [hc]; rfl
  have hcm : (t.ty == TokTy.COMMENT) = true := by rw [hc]; rfl
  simp [parseBlock, parseDecl, pCurrent, pNext, StateT.run, bind, StateT.bind, get, getThe, MonadStateOf.get, StateT.get,
    pure, StateT.pure, Except.bind, Except.pure, modify, modifyGet, MonadStateOf.modifyGet, StateT.modifyGet, hcur, hne, hnr, hcm]
  split <;> simp_all

/-- **a run of COMMENT tokens at a statement boundary is skipped** (the tokens of any number of comment lines / block
    comments between two statements): the statement loop continues behind them as if they were not there -/
theorem comments_skipped (cfg : ParseCfg) (fuel : Nat) : ∀ (n : Nat) (st : PState),
    (∀ i, i < n → ∃ t, st.toks[st.pos + i]? = some t ∧ t.ty = .COMMENT) →
    (parseProgram cfg (fuel + 1 + n)).run st = (parseProgram cfg (fuel + 1)).run { st with pos := st.pos + n } := by
  intro n
  induction n with
  | zero => intro st _; rfl
  | succ n ih =>
    intro st h
    obtain ⟨t, ht, hc⟩ := h 0 (Nat.succ_pos n)
    have h1 := comment_skipped cfg (fuel + n) st t (by simpa using ht) hc
    have e1 : fuel + 1 + (n + 1) = fuel + n + 2 := by omega
    have e2 : fuel + n + 1 = fuel + 1 + n := by omega
    rw [e1, h1, e2, ih { st with pos := st.pos + 1 } (by
      intro i hi
      obtain ⟨t', ht', hc'⟩ := h (i + 1) (by omega)
      exact ⟨t', by show st.toks[st.pos + 1 + i]? = some t'; rw [show st.pos + 1 + i = st.pos + (i + 1) by omega]; exact ht', hc'⟩)]
    show (parseProgram cfg (fuel + 1)).run { st with pos := st.pos + 1 + n } = _
    rw [show st.pos + 1 + n = st.pos + (n + 1) by omega]

/-- the same inside a `{ … }` block -/
theorem comments_skipped_in_block (cfg : ParseCfg) (fuel : Nat) : ∀ (n : Nat) (st : PState),
    (∀ i, i < n → ∃ t, st.toks[st.pos + i]? = some t ∧ t.ty = .COMMENT) →
    (parseBlock cfg (fuel + 1 + n)).run st = (parseBlock cfg (fuel + 1)).run { st with pos := st.pos + n } := by
  intro n
  induction n with
  | zero => intro st _; rfl
  | succ n ih =>
    intro st h
    obtain ⟨t, ht, hc⟩ := h 0 (Nat.succ_pos n)
    have h1 := comment_skipped_in_block cfg (fuel + n) st t (by simpa using ht) hc
    have e1 : fuel + 1 + (n + 1) = fuel + n + 2 := by omega
    have e2 : fuel + n + 1 = fuel + 1 + n := by omega
    rw [e1, h1, e2, ih { st with pos := st.pos + 1 } (by
      intro i hi
      obtain ⟨t', ht', hc'⟩ := h (i + 1) (by omega)
      exact ⟨t', by show st.toks[st.pos + 1 + i]? = some t'; rw [show st.pos + 1 + i = st.pos + (i + 1) by omega]; exact ht', hc'⟩)]
    show (parseBlock cfg (fuel + 1)).run { st with pos := st.pos + 1 + n } = _
    rw [show st.pos + 1 + n = st.pos + (n + 1) by omega]

/-- `ignore_run(" ")`: blanks only move `pos`/`start`; no token, no line bookkeeping -/
theorem spaces_ignored (s s' : Scan) (h : s.ignoreRun [' '] = .ok s') :
    s'.input = s.input ∧ s.pos ≤ s'.pos ∧ s'.start = s'.pos := by
  unfold Scan.ignoreRun at h
  obtain ⟨s1, h1, h2, h3⟩ := C15.acceptRun_ok s [' '] false (by decide)
  rw [h1] at h
  simp only [Except.ok.injEq] at h
  subst h
  exact ⟨h2, h3, rfl⟩

/-! ## the scanner is local -/
open ScanS in
/-- **the tokens after a between-token point depend only on the text after it** -/
theorem scan_suffix_local (cfg : ScanCfg) (st : ScanState) (f1 f2 : Nat) (i1 i2 : List Char) (s1 s2 : Scan)
    (h1 : Reach cfg st (initState f1 i1) s1) (h2 : Reach cfg st (initState f2 i2) s2)
    (b1 : s1.start = s1.pos) (b2 : s2.start = s2.pos) (l1 : s1.pos ≤ i1.length) (l2 : s2.pos ≤ i2.length)
    (hrest : i1.drop s1.pos = i2.drop s2.pos) :
    ResRel s1.toks.size s2.toks.size (scan cfg st f1 i1) (scan cfg st f2 i2) := by
  have e1 : s1.input = i1.toArray := h1.le.input
  have e2 : s2.input = i2.toArray := h2.le.input
  have hsim : Sim s1.pos s2.pos s1.toks.size s2.toks.size s1 s2 :=
    Sim.ofBoundary s1 s2 b1 b2 (by rw [e1]; simpa using l1) (by rw [e2]; simpa using l2) (by rw [e1, e2]; simpa using hrest)
  rw [scan_of_reach cfg st f1 i1 s1 h1, scan_of_reach cfg st f2 i2 s2 h2, hsim.remaining]
  exact finish_rel (sim_scanLoop cfg st _ _ _ hsim)

/-- a blank, a tab or a newline -/
def isBlank (c : Char) : Bool := [' ', '\t', '\n'].contains c

open ScanS in
/-- **blank lines, indentation and trailing spaces between tokens change nothing**: two between-token points of the
    initial scanner state whose remaining texts are equal once their leading blanks, tabs and newlines are dropped are
    followed by the same tokens and the same outcome -/
theorem blanks_between_tokens (cfg : ScanCfg) (f1 f2 : Nat) (i1 i2 : List Char) (s1 s2 : Scan)
    (h1 : Reach cfg .initial (initState f1 i1) s1) (h2 : Reach cfg .initial (initState f2 i2) s2)
    (b1 : s1.start = s1.pos) (b2 : s2.start = s2.pos) (l1 : s1.pos ≤ i1.length) (l2 : s2.pos ≤ i2.length)
    (hrest : (i1.drop s1.pos).dropWhile isBlank = (i2.drop s2.pos).dropWhile isBlank) :
    ResRel s1.toks.size s2.toks.size (scan cfg .initial f1 i1) (scan cfg .initial f2 i2) := by
  have e1 : s1.input = i1.toArray := h1.le.input
  have e2 : s2.input = i2.toArray := h2.le.input
  have tot : ∀ (s : Scan), ∃ t, s.ignoreRun [' ', '\t', '\n'] = .ok t := by
    intro s
    obtain ⟨u, hu, _, _⟩ := ScanB.acceptRun_ok s [' ', '\t', '\n'] false (by decide)
    exact ⟨u.ignore, by unfold Scan.ignoreRun; rw [hu]⟩
  obtain ⟨t1, r1⟩ := tot s1
  obtain ⟨t2, r2⟩ := tot s2
  obtain ⟨d1, d2, d3⟩ := ignoreRun_dropWhile s1 t1 _ (by decide) r1
  obtain ⟨g1, g2, g3⟩ := ignoreRun_dropWhile s2 t2 _ (by decide) r2
  have ht1 := (ignoreRun_idem s1 t1 _ r1).2
  have ht2 := (ignoreRun_idem s2 t2 _ r2).2
  have hk1 : t1.toks = s1.toks := ScanT.ignoreRun_toks s1 t1 _ r1
  have hk2 : t2.toks = s2.toks := ScanT.ignoreRun_toks s2 t2 _ r2
  have hrest' : t1.input.toList.drop t1.pos = t2.input.toList.drop t2.pos := by
    rw [d2, g2, e1, e2]
    exact hrest
  have hsim := Sim.ofBoundary t1 t2 ht1 ht2 (d3 (by rw [e1]; simpa using l1)) (g3 (by rw [e2]; simpa using l2)) hrest'
  rw [hk1, hk2] at hsim
  rw [scan_of_reach cfg .initial f1 i1 s1 h1, scan_of_reach cfg .initial f2 i2 s2 h2,
      scanLoop_skip_blanks cfg s1 t1 b1 r1 _ (t1.input.size - t1.pos + 1) (by omega) (by omega),
      scanLoop_skip_blanks cfg s2 t2 b2 r2 _ (t2.input.size - t2.pos + 1) (by omega) (by omega), hsim.remaining]
  exact finish_rel (sim_scanLoop cfg .initial _ _ _ hsim)


/-! ## scanning is compositional over newline-terminated chunks -/
open ScanS ScanX in
/-- **the scan of `p ++ r` is the scan of `p` followed by the scan of `r`**, for every text `p` that ends with a newline
    and scans without error (no string or comment left open), every following text `r`, and every scanner configuration
    whose mnemonics hold no newline: the scan of `p ++ r` passes through a between-token point at which it has emitted
    exactly the tokens of the scan of `p` (its `EOF` token apart) — positions, line numbers and quoted lines included —
    and from there on it emits tokens with the types and texts of the scan of `r` alone and ends as that scan ends.
    Inserting or removing blank lines, full-line comments, or whole statements *between lines* therefore changes the
    token stream only by the tokens of the inserted lines, and a file's tokens do not depend on what is appended. -/
theorem scan_append (cfg : ScanCfg) (hcfg : ScanP.CfgOK cfg) (f f2 : Nat) (p r : List Char)
    (he : Ends p.toArray) (hok : (scan cfg .initial f p).error = none) :
    ∃ s, Reach cfg .initial (initState f (p ++ r)) s ∧ s.toks = (scan cfg .initial f p).toks.pop ∧
      ResRel s.toks.size 0 (scan cfg .initial f (p ++ r)) (scan cfg .initial f2 r) := by
  rw [scan_eq_finish] at hok
  cases hloop : scanLoop cfg .initial (p.length + 1) (initState f p) with
  | error e =>
    exfalso
    rw [hloop] at hok
    obtain ⟨e, s⟩ := e
    unfold finish at hok
    split at hok
    · rename_i heq; cases heq
    · cases hok
    · split at hok <;> cases hok
  | ok sp =>
    obtain ⟨s, hr, h1, h2, h3, h4, h5⟩ := prefix_reach cfg hcfg he r _ (initState f p) sp rfl rfl (Nat.zero_le _) hloop
    have hinit : ext r (initState f p) = initState f (p ++ r) := by simp [ext, initState]
    rw [hinit] at hr
    have h3' : s.pos ≤ p.length := by simpa using h3
    refine ⟨ext r s, hr, ?_, ?_⟩
    · show s.toks = _
      rw [scan_eq_finish, hloop, h5]
      show sp.toks = ((sp.emit .EOF).handleLine.toks).pop
      rw [ScanS.handleLine_toks]
      show sp.toks = (sp.toks.push _).pop
      rw [Array.pop_push]
    · have hrest : ((p ++ r).drop (ext r s).pos).dropWhile isBlank = (r.drop (initState f2 r).pos).dropWhile isBlank := by
        show ((p ++ r).drop s.pos).dropWhile isBlank = (r.drop 0).dropWhile isBlank
        rw [List.drop_append_of_le_length h3', List.drop_zero]
        have h4' : (p.drop s.pos).all blank = true := by simpa using h4
        exact dropWhile_append_all _ _ _ h4'
      exact blanks_between_tokens cfg f f2 (p ++ r) r (ext r s) (initState f2 r) hr (Reach.refl _) h2 rfl
        (by show s.pos ≤ (p ++ r).length; rw [List.length_append]; omega) (Nat.zero_le _) hrest


open ScanS ScanX ScanK in
/-- **`scan (p ++ r) = scan p ⧺ scan r`** as an equation on token lists: under the hypotheses of `scan_append`, the
    tokens of the scan of `p` (its `EOF` apart) are — exactly, positions included — the first tokens of the scan of `p ++ r`;
    the types and texts of all its tokens are those of `p`'s followed by those of the scan of `r`; and it ends as the scan
    of `r` ends (no error, or the same message). -/
theorem scan_append_tokens (cfg : ScanCfg) (hcfg : ScanP.CfgOK cfg) (f f2 : Nat) (p r : List Char)
    (he : Ends p.toArray) (hok : (scan cfg .initial f p).error = none) :
    (scan cfg .initial f p).toks.pop.toList <+: (scan cfg .initial f (p ++ r)).toks.toList ∧
    (scan cfg .initial f (p ++ r)).toks.toList.map key =
      (scan cfg .initial f p).toks.pop.toList.map key ++ (scan cfg .initial f2 r).toks.toList.map key ∧
    (scan cfg .initial f (p ++ r)).error.map errKey = (scan cfg .initial f2 r).error.map errKey := by
  obtain ⟨s, hr, hs, hrel⟩ := scan_append cfg hcfg f f2 p r he hok
  have hpre : s.toks.toList <+: (scan cfg .initial f (p ++ r)).toks.toList := by
    rw [scan_of_reach cfg .initial f (p ++ r) s hr]
    exact finish_prefix s _ (tp_scanLoop cfg .initial s _ s (Ext.refl s))
  refine ⟨by rw [← hs]; exact hpre, ?_, hrel.2⟩
  have htake := List.prefix_iff_eq_take.mp hpre
  have hdrop := hrel.1.eq
  simp only [List.drop_zero, Array.length_toList] at hdrop htake
  conv => lhs; rw [← List.take_append_drop s.toks.size (scan cfg .initial f (p ++ r)).toks.toList]
  rw [List.map_append, hdrop, ← htake, hs]


open ScanS ScanX in
/-- leading blank lines and indentation: a text and the same text behind blanks, tabs and newlines scan alike -/
theorem leading_blanks (cfg : ScanCfg) (f : Nat) (c r : List Char) (hc : c.all isBlank = true) :
    (scan cfg .initial f (c ++ r)).toks.toList.map key = (scan cfg .initial f r).toks.toList.map key ∧
    (scan cfg .initial f (c ++ r)).error.map errKey = (scan cfg .initial f r).error.map errKey := by
  have h := blanks_between_tokens cfg f f (c ++ r) r (initState f (c ++ r)) (initState f r) (Reach.refl _) (Reach.refl _)
    rfl rfl (Nat.zero_le _) (Nat.zero_le _) (by
      show ((c ++ r).drop 0).dropWhile isBlank = (r.drop 0).dropWhile isBlank
      rw [List.drop_zero, List.drop_zero]; exact dropWhile_append_all _ _ _ hc)
  have h1 := h.1.eq
  simp only [initState] at h1
  exact ⟨h1, h.2⟩

open ScanS ScanX in
/-- **blank lines between lines change nothing**: for a newline-terminated `p` that scans without error, any run `c` of
    blanks, tabs and newlines inserted after it leaves the types and texts of all tokens, and the outcome, unchanged -/
theorem blank_lines_between (cfg : ScanCfg) (hcfg : ScanP.CfgOK cfg) (f : Nat) (p c r : List Char)
    (he : Ends p.toArray) (hok : (scan cfg .initial f p).error = none) (hc : c.all isBlank = true) :
    (scan cfg .initial f (p ++ (c ++ r))).toks.toList.map key = (scan cfg .initial f (p ++ r)).toks.toList.map key ∧
    (scan cfg .initial f (p ++ (c ++ r))).error.map errKey = (scan cfg .initial f (p ++ r)).error.map errKey := by
  obtain ⟨_, a2, a3⟩ := scan_append_tokens cfg hcfg f f p (c ++ r) he hok
  obtain ⟨_, b2, b3⟩ := scan_append_tokens cfg hcfg f f p r he hok
  obtain ⟨l1, l2⟩ := leading_blanks cfg f c r hc
  exact ⟨by rw [a2, b2, l1], by rw [a3, b3, l2]⟩

open ScanS ScanX in
/-- **a chunk of whole lines inserted between lines adds exactly its own tokens**: `c` may be comment lines (its tokens
    are then COMMENT tokens, which the parser drops — `comment_skipped`), statements, or the text of an included file -/
theorem insert_lines (cfg : ScanCfg) (hcfg : ScanP.CfgOK cfg) (f : Nat) (p c r : List Char)
    (hp : Ends p.toArray) (hpok : (scan cfg .initial f p).error = none)
    (hcn : Ends c.toArray) (hcok : (scan cfg .initial f c).error = none) :
    (scan cfg .initial f (p ++ (c ++ r))).toks.toList.map key =
      (scan cfg .initial f p).toks.pop.toList.map key ++ ((scan cfg .initial f c).toks.pop.toList.map key ++
        (scan cfg .initial f r).toks.toList.map key) ∧
    (scan cfg .initial f (p ++ (c ++ r))).error.map errKey = (scan cfg .initial f r).error.map errKey := by
  obtain ⟨_, a2, a3⟩ := scan_append_tokens cfg hcfg f f p (c ++ r) hp hpok
  obtain ⟨_, b2, b3⟩ := scan_append_tokens cfg hcfg f f c r hcn hcok
  exact ⟨by rw [a2, b2], by rw [a3, b3]⟩


open ScanS ScanX in
/-- **a text is scanned line by line** (chunk by chunk): for chunks that each end with a newline and each scan without
    error on their own, the types and texts of the tokens of their concatenation followed by any text `r` are those of
    each chunk's own scan (its `EOF` apart), in order, followed by those of `r`'s scan — and the outcome is `r`'s.  In
    particular no chunk's tokens depend on its neighbours. -/
theorem scan_chunks (cfg : ScanCfg) (hcfg : ScanP.CfgOK cfg) (f : Nat) (r : List Char) :
    ∀ (cs : List (List Char)), (∀ c ∈ cs, Ends c.toArray ∧ (scan cfg .initial f c).error = none) →
    (scan cfg .initial f (cs.flatten ++ r)).toks.toList.map key =
      (cs.flatMap fun c => (scan cfg .initial f c).toks.pop.toList.map key) ++ (scan cfg .initial f r).toks.toList.map key ∧
    (scan cfg .initial f (cs.flatten ++ r)).error.map errKey = (scan cfg .initial f r).error.map errKey := by
  intro cs
  induction cs with
  | nil => intro _; exact ⟨rfl, rfl⟩
  | cons c cs ih =>
    intro h
    obtain ⟨hc1, hc2⟩ := h c List.mem_cons_self
    obtain ⟨i1, i2⟩ := ih (fun x hx => h x (List.mem_cons_of_mem _ hx))
    obtain ⟨_, a2, a3⟩ := scan_append_tokens cfg hcfg f f c (cs.flatten ++ r) hc1 hc2
    simp only [List.flatten_cons, List.append_assoc, List.flatMap_cons]
    exact ⟨by rw [a2, i1], by rw [a3, i2]⟩


open ScanS ScanX ScanK in
/-- a chunk `c` that the scanner turns into exactly one token `t` before reaching the between-token point behind it:
    the scan of `c ++ r` is `t` followed by the scan of `r` -/
theorem one_token_chunk (cfg : ScanCfg) (f : Nat) (c r : List Char) (s' : Scan) (t : Tok)
    (hr : Reach cfg .initial (initState f (c ++ r)) s') (hpos : s'.pos = c.length) (hst : s'.start = s'.pos)
    (htoks : s'.toks = #[t]) :
    (scan cfg .initial f (c ++ r)).toks.toList.map key = key t :: (scan cfg .initial f r).toks.toList.map key ∧
    (scan cfg .initial f (c ++ r)).error.map errKey = (scan cfg .initial f r).error.map errKey := by
  have hrel := blanks_between_tokens cfg f f _ r s' (initState f r) hr (Reach.refl _) hst rfl
    (by rw [hpos]; simp) (Nat.zero_le _) (by
      show ((c ++ r).drop s'.pos).dropWhile isBlank = (r.drop 0).dropWhile isBlank
      rw [hpos, List.drop_left, List.drop_zero])
  have hpre : s'.toks.toList <+: (scan cfg .initial f (c ++ r)).toks.toList := by
    rw [scan_of_reach cfg .initial f _ s' hr]
    exact finish_prefix s' _ (tp_scanLoop cfg .initial s' _ s' (Ext.refl s'))
  refine ⟨?_, hrel.2⟩
  have htake := List.prefix_iff_eq_take.mp hpre
  have hdrop2 := hrel.1.eq
  simp only [Array.length_toList] at hdrop2 htake
  conv => lhs; rw [← List.take_append_drop s'.toks.size (scan cfg .initial f (c ++ r)).toks.toList]
  rw [List.map_append, hdrop2, ← htake, htoks]
  rfl

open ScanS ScanX ScanK in
/-- **a full-line `;` comment is one COMMENT token, whatever it says**: for every comment text `cs` without a newline
    and every following text `r`, the scan of `; cs \n r` is one COMMENT token followed by the tokens (types and texts)
    of the scan of `r`, and it ends as the scan of `r` ends.  Nothing inside the comment — quotes, `/*`, braces,
    mnemonics — is looked at. -/
theorem comment_line (cfg : ScanCfg) (f : Nat) (cs r : List Char) (hnl : ∀ c ∈ cs, c ≠ '\n') :
    ∃ t : Tok, t.ty = .COMMENT ∧
      (scan cfg .initial f (';' :: (cs ++ '\n' :: r))).toks.toList.map key = key t :: (scan cfg .initial f r).toks.toList.map key ∧
      (scan cfg .initial f (';' :: (cs ++ '\n' :: r))).error.map errKey = (scan cfg .initial f r).error.map errKey := by
  have hsplit : ';' :: (cs ++ '\n' :: r) = (';' :: (cs ++ ['\n'])) ++ r := by simp
  obtain ⟨s', t, hr, h2, h3, h4, h5, h6, _⟩ := reach_comment cfg (initState f (';' :: (cs ++ '\n' :: r))) cs r rfl
    (by simp [initState]) hnl
  rw [hsplit] at hr ⊢
  obtain ⟨k1, k2⟩ := one_token_chunk cfg f _ r s' t hr (by rw [h3]; simp [initState]) h4 (by rw [h5]; simp [initState])
  exact ⟨t, h6, k1, k2⟩

open ScanS ScanX ScanK in
/-- **a `/* … */` comment at a between-token point is one COMMENT token, whatever it holds** — newlines, `;`, quotes,
    `/*`, a leading `/` (the `/*/` idiom), a trailing `*` — provided only that no `*/` starts inside the body
    (`NoClose`, which is what "the body" means): the scan of `/* body */ r` is one COMMENT token followed by the scan of `r`. -/
theorem block_comment (cfg : ScanCfg) (f : Nat) (body r : List Char) (hnc : NoClose body) :
    ∃ t : Tok, t.ty = .COMMENT ∧
      (scan cfg .initial f ('/' :: '*' :: (body ++ '*' :: '/' :: r))).toks.toList.map key =
        key t :: (scan cfg .initial f r).toks.toList.map key ∧
      (scan cfg .initial f ('/' :: '*' :: (body ++ '*' :: '/' :: r))).error.map errKey =
        (scan cfg .initial f r).error.map errKey := by
  have hsplit : '/' :: '*' :: (body ++ '*' :: '/' :: r) = ('/' :: '*' :: (body ++ ['*', '/'])) ++ r := by simp
  obtain ⟨s', t, hr, h2, h3, h4, h5, h6, _⟩ := reach_block_comment cfg
    (initState f ('/' :: '*' :: (body ++ '*' :: '/' :: r))) body r rfl (by simp [initState]) hnc
  rw [hsplit] at hr ⊢
  obtain ⟨k1, k2⟩ := one_token_chunk cfg f _ r s' t hr (by rw [h3]; simp [initState]) h4 (by rw [h5]; simp [initState])
  exact ⟨t, h6, k1, k2⟩

open ScanS ScanX ScanK in
/-- a comment met at *any* between-token point the scan of a text `i` passes through (`Reach`; e.g. behind a complete
    statement and its trailing blanks, which is where an end-of-line comment starts): if the scan gets from that point
    `s` to the between-token point `s'` having emitted just the token `t`, and `r` is the text that remains there, then
    the tokens of the scan of `i` after those of `s` are `t` followed by the tokens of the scan of `r` alone -/
theorem one_token_at_point (cfg : ScanCfg) (f f2 : Nat) (i r : List Char) (s s' : Scan) (t : Tok)
    (hs : Reach cfg .initial (initState f i) s) (hr : Reach cfg .initial s s') (hst : s'.start = s'.pos)
    (hpos : s'.pos ≤ i.length) (hrest : i.drop s'.pos = r) (htoks : s'.toks = s.toks.push t) :
    ((scan cfg .initial f i).toks.toList.drop s.toks.size).map key = key t :: (scan cfg .initial f2 r).toks.toList.map key ∧
    (scan cfg .initial f i).error.map errKey = (scan cfg .initial f2 r).error.map errKey := by
  have hr' := Reach.trans hs hr
  have hrel := blanks_between_tokens cfg f f2 i r s' (initState f2 r) hr' (Reach.refl _) hst rfl hpos (Nat.zero_le _) (by
      show (i.drop s'.pos).dropWhile isBlank = (r.drop 0).dropWhile isBlank
      rw [hrest, List.drop_zero])
  have hpre : s'.toks.toList <+: (scan cfg .initial f i).toks.toList := by
    rw [scan_of_reach cfg .initial f _ s' hr']
    exact finish_prefix s' _ (tp_scanLoop cfg .initial s' _ s' (Ext.refl s'))
  refine ⟨?_, hrel.2⟩
  obtain ⟨rest, hrest2⟩ := hpre
  have hdrop2 := hrel.1.eq
  have h0 : (initState f2 r).toks.size = 0 := rfl
  rw [h0, List.drop_zero] at hdrop2
  have hall : (scan cfg .initial f i).toks.toList = s.toks.toList ++ (t :: rest) := by rw [← hrest2, htoks]; simp
  have hd1 : (scan cfg .initial f i).toks.toList.drop s.toks.size = t :: rest := by
    rw [hall, ← Array.length_toList, List.drop_left]
  have hd2 : (scan cfg .initial f i).toks.toList.drop s'.toks.size = rest := by
    have : s'.toks.size = (s.toks.toList ++ [t]).length := by rw [htoks]; simp
    rw [hall, this, show s.toks.toList ++ (t :: rest) = (s.toks.toList ++ [t]) ++ rest by simp, List.drop_left]
  rw [hd1, List.map_cons, ← hdrop2, hd2]

open ScanS ScanX ScanK in
/-- **an end-of-line (or full-line) `;` comment is one COMMENT token wherever it starts**: at any between-token point of
    the scan of `i` with `; cs \n r` ahead (`cs` without newline) -/
theorem comment_at_point (cfg : ScanCfg) (f f2 : Nat) (i cs r : List Char) (s : Scan)
    (hs : Reach cfg .initial (initState f i) s) (hst : s.start = s.pos)
    (hd : i.drop s.pos = ';' :: (cs ++ '\n' :: r)) (hnl : ∀ c ∈ cs, c ≠ '\n') :
    ∃ t : Tok, t.ty = .COMMENT ∧
      ((scan cfg .initial f i).toks.toList.drop s.toks.size).map key = key t :: (scan cfg .initial f2 r).toks.toList.map key ∧
      (scan cfg .initial f i).error.map errKey = (scan cfg .initial f2 r).error.map errKey := by
  have e1 : s.input = i.toArray := hs.le.input
  obtain ⟨s', t, hr, h2, h3, h4, h5, h6, _⟩ := reach_comment cfg s cs r hst (by rw [e1]; simpa using hd) hnl
  have hlen : s.pos + (cs.length + 2 + r.length) = i.length := by
    have := congrArg List.length hd
    simp at this
    omega
  obtain ⟨k1, k2⟩ := one_token_at_point cfg f f2 i r s s' t hs hr h4 (by omega) (by
    rw [h3, show s.pos + cs.length + 2 = s.pos + (cs.length + 2) by omega, ← List.drop_drop, hd]
    show (cs ++ '\n' :: r).drop (cs.length + 1) = r
    rw [List.drop_length_add_append]; rfl) h5
  exact ⟨t, h6, k1, k2⟩

open ScanS ScanX ScanK in
/-- **a `/* … */` comment is one COMMENT token wherever it starts** (any between-token point of the scan of `i`) -/
theorem block_comment_at_point (cfg : ScanCfg) (f f2 : Nat) (i body r : List Char) (s : Scan)
    (hs : Reach cfg .initial (initState f i) s) (hst : s.start = s.pos)
    (hd : i.drop s.pos = '/' :: '*' :: (body ++ '*' :: '/' :: r)) (hnc : NoClose body) :
    ∃ t : Tok, t.ty = .COMMENT ∧
      ((scan cfg .initial f i).toks.toList.drop s.toks.size).map key = key t :: (scan cfg .initial f2 r).toks.toList.map key ∧
      (scan cfg .initial f i).error.map errKey = (scan cfg .initial f2 r).error.map errKey := by
  have e1 : s.input = i.toArray := hs.le.input
  obtain ⟨s', t, hr, h2, h3, h4, h5, h6, _⟩ := reach_block_comment cfg s body r hst (by rw [e1]; simpa using hd) hnc
  have hlen : s.pos + (body.length + 4 + r.length) = i.length := by
    have := congrArg List.length hd
    simp at this
    omega
  obtain ⟨k1, k2⟩ := one_token_at_point cfg f f2 i r s s' t hs hr h4 (by omega) (by
    rw [h3, show s.pos + body.length + 4 = s.pos + (body.length + 4) by omega, ← List.drop_drop, hd]
    show (body ++ '*' :: '/' :: r).drop (body.length + 2) = r
    rw [List.drop_length_add_append]; rfl) h5
  exact ⟨t, h6, k1, k2⟩

open ScanS ScanX ScanK in
/-- the general form of `one_token_at_point`: the scan gets from the point `s` to the between-token point `s'` having
    emitted the tokens `ts`, and what remains there is `r` up to leading blanks -/
theorem tokens_at_point (cfg : ScanCfg) (f f2 : Nat) (i r : List Char) (s s' : Scan) (ts : List Tok)
    (hs : Reach cfg .initial (initState f i) s) (hr : Reach cfg .initial s s') (hst : s'.start = s'.pos)
    (hpos : s'.pos ≤ i.length) (hrest : (i.drop s'.pos).dropWhile isBlank = r.dropWhile isBlank)
    (htoks : s'.toks.toList = s.toks.toList ++ ts) :
    ((scan cfg .initial f i).toks.toList.drop s.toks.size).map key = ts.map key ++ (scan cfg .initial f2 r).toks.toList.map key ∧
    (scan cfg .initial f i).error.map errKey = (scan cfg .initial f2 r).error.map errKey := by
  have hr' := Reach.trans hs hr
  have hrel := blanks_between_tokens cfg f f2 i r s' (initState f2 r) hr' (Reach.refl _) hst rfl hpos (Nat.zero_le _) (by
      show (i.drop s'.pos).dropWhile isBlank = (r.drop 0).dropWhile isBlank
      rw [hrest, List.drop_zero])
  have hpre : s'.toks.toList <+: (scan cfg .initial f i).toks.toList := by
    rw [scan_of_reach cfg .initial f _ s' hr']
    exact finish_prefix s' _ (tp_scanLoop cfg .initial s' _ s' (Ext.refl s'))
  refine ⟨?_, hrel.2⟩
  obtain ⟨rest, hrest2⟩ := hpre
  have hdrop2 := hrel.1.eq
  have h0 : (initState f2 r).toks.size = 0 := rfl
  rw [h0, List.drop_zero] at hdrop2
  have hall : (scan cfg .initial f i).toks.toList = s.toks.toList ++ (ts ++ rest) := by rw [← hrest2, htoks]; simp
  have hd1 : (scan cfg .initial f i).toks.toList.drop s.toks.size = ts ++ rest := by
    rw [hall, ← Array.length_toList, List.drop_left]
  have hd2 : (scan cfg .initial f i).toks.toList.drop s'.toks.size = rest := by
    have : s'.toks.size = (s.toks.toList ++ ts).length := by rw [← htoks]; simp
    rw [hall, this, ← List.append_assoc, List.drop_left]
  rw [hd1, List.map_append, ← hdrop2, hd2]

open ScanS ScanX ScanK in
/-- **an end-of-line comment after an instruction that stands alone changes nothing but the COMMENT token it adds** — the
    one place where the scanner looks *through* a comment (the look-ahead of `lex_opcode` that decides OPCODE_NAKED).  At
    any between-token point of the scan of `i` with a mnemonic `abc` that may stand alone ahead, followed by blanks /
    tabs `ws` (at least one) and `; cs ⏎ r`: the tokens from there on are OPCODE_NAKED `abc`, one COMMENT, then the
    tokens of the scan of `r` — and with `ws2 ⏎ r` ahead instead (no comment, any trailing blanks) they are
    OPCODE_NAKED `abc`, then the tokens of the scan of `r`. -/
theorem naked_opcode_eol_comment (cfg : ScanCfg) (f f2 : Nat) (i1 i2 cs r ws ws2 : List Char) (a b c : Char) (s1 s2 : Scan)
    (h1 : Reach cfg .initial (initState f i1) s1) (h2 : Reach cfg .initial (initState f i2) s2)
    (b1 : s1.start = s1.pos) (b2 : s2.start = s2.pos)
    (d1 : i1.drop s1.pos = a :: b :: c :: (ws ++ ';' :: (cs ++ '\n' :: r)))
    (d2 : i2.drop s2.pos = a :: b :: c :: (ws2 ++ '\n' :: r))
    (ha : letterChars.contains a = true)
    (hmn : cfg.mnemonics.contains (asciiLower (String.ofList [a, b, c])) = true)
    (hno : cfg.noOperand.contains (asciiLower (String.ofList [a, b, c])) = true)
    (hws : ∀ c ∈ ws, c = ' ' ∨ c = '\t') (hws2 : ∀ c ∈ ws2, c = ' ' ∨ c = '\t') (hne : ws ≠ [])
    (hnl : ∀ c ∈ cs, c ≠ '\n') :
    ∃ t : Tok, t.ty = .COMMENT ∧
      ((scan cfg .initial f i1).toks.toList.drop s1.toks.size).map key =
        (TokTy.OPCODE_NAKED, String.ofList [a, b, c]) :: key t :: (scan cfg .initial f2 r).toks.toList.map key ∧
      ((scan cfg .initial f i2).toks.toList.drop s2.toks.size).map key =
        (TokTy.OPCODE_NAKED, String.ofList [a, b, c]) :: (scan cfg .initial f2 r).toks.toList.map key ∧
      (scan cfg .initial f i1).error.map errKey = (scan cfg .initial f i2).error.map errKey := by
  have e1 : s1.input = i1.toArray := h1.le.input
  have e2 : s2.input = i2.toArray := h2.le.input
  have hlt : ∀ (s : Scan) (x : Char) (l : List Char), s.input.toList.drop s.pos = x :: l → s.pos < s.input.size := by
    intro s x l h
    apply Decidable.byContradiction
    intro hc
    rw [List.drop_of_length_le (by simp; omega)] at h
    cases h
  -- the text with the comment
  obtain ⟨p1, t1, n1, n2, n3, n4, n5, n6, _⟩ := lexInitial_naked cfg s1 a b c ws (';' :: (cs ++ '\n' :: r)) b1
    (by rw [e1]; simpa using d1) ha hmn hno hws (.inr (.inr rfl)) (.inl hne)
  have r1 : Reach cfg .initial s1 p1 := Reach.step (hlt s1 _ _ (by rw [e1]; simpa using d1)) n1 (by rw [n3]; simp) (Reach.refl _)
  have dp1 : i1.drop p1.pos = ws ++ ';' :: (cs ++ '\n' :: r) := by
    rw [n3, ← List.drop_drop, d1]; rfl
  have hwsb : ws.all (fun c => [' ', '\t', '\n'].contains c) = true := by
    rw [List.all_eq_true]
    intro x hx
    rcases hws x hx with h | h <;> subst h <;> decide
  obtain ⟨q1, tc, m1, m2, m3, m4, m5, m6, m7⟩ := reach_comment_ws cfg p1 ws cs r hwsb
    (by rw [n2, e1]; simpa using dp1) hnl
  have eq1 : q1.input = i1.toArray := by rw [m2, n2, e1]
  obtain ⟨k1, k2⟩ := tokens_at_point cfg f f2 i1 r s1 q1 [t1, tc] h1 (Reach.trans r1 m1) m3
    (by have := m4; rw [eq1] at this; simpa using this)
    (by have := m5; rw [eq1] at this; simp at this; rw [this])
    (by rw [m6, n5]; simp)
  -- the text without the comment
  obtain ⟨p2, t2, o1, o2, o3, o4, o5, o6, _⟩ := lexInitial_naked cfg s2 a b c ws2 ('\n' :: r) b2
    (by rw [e2]; simpa using d2) ha hmn hno hws2 (.inr (.inl rfl)) (.inr (by simp))
  have r2 : Reach cfg .initial s2 p2 := Reach.step (hlt s2 _ _ (by rw [e2]; simpa using d2)) o1 (by rw [o3]; simp) (Reach.refl _)
  have dp2 : i2.drop p2.pos = ws2 ++ '\n' :: r := by
    rw [o3, ← List.drop_drop, d2]; rfl
  have hlen2 : s2.pos + (3 + ws2.length + (1 + r.length)) = i2.length := by
    have := congrArg List.length d2
    simp at this
    omega
  obtain ⟨j1, j2⟩ := tokens_at_point cfg f f2 i2 r s2 p2 [t2] h2 r2 (by rw [o4]) (by rw [o3]; omega)
    (by
      rw [dp2, show ws2 ++ '\n' :: r = (ws2 ++ ['\n']) ++ r by simp]
      exact dropWhile_append_all _ _ _ (by
        rw [List.all_eq_true]
        intro x hx
        rcases List.mem_append.mp hx with h | h
        · rcases hws2 x h with h | h <;> subst h <;> decide
        · simp only [List.mem_singleton] at h; subst h; decide))
    (by rw [o5]; simp)
  refine ⟨tc, m7, ?_, ?_, by rw [k2, j2]⟩
  · rw [k1]
    show key t1 :: key tc :: _ = _
    rw [n6]
    rfl
  · rw [j1]
    show key t2 :: _ = _
    rw [o6]
    rfl

/-- the types and texts of the tokens the parser sees: COMMENT tokens apart (`comment_skipped`) -/
def codeKeys (ts : Array Tok) : List (TokTy × String) := (ts.toList.map ScanS.key).filter fun k => k.1 != .COMMENT

open ScanS ScanX in
/-- **inserting or removing a full-line `;` comment between lines changes no token the parser sees**: for a
    newline-terminated `p` that scans without error, any indentation `ws` (blanks, tabs, blank lines), any comment text
    `cs` and any following text `r`, the non-COMMENT tokens of `p ++ ws ++ "; cs \n" ++ r` have the types and texts of
    those of `p ++ r`, and the two scans end alike.  (`comment_skipped` is the parser half: a COMMENT token at a
    statement boundary yields no statement.) -/
theorem insert_comment_line (cfg : ScanCfg) (hcfg : ScanP.CfgOK cfg) (f : Nat) (p ws cs r : List Char)
    (he : Ends p.toArray) (hok : (scan cfg .initial f p).error = none) (hws : ws.all isBlank = true)
    (hnl : ∀ c ∈ cs, c ≠ '\n') :
    codeKeys (scan cfg .initial f (p ++ (ws ++ ';' :: (cs ++ '\n' :: r)))).toks = codeKeys (scan cfg .initial f (p ++ r)).toks ∧
    (scan cfg .initial f (p ++ (ws ++ ';' :: (cs ++ '\n' :: r)))).error.map errKey =
      (scan cfg .initial f (p ++ r)).error.map errKey := by
  obtain ⟨w1, w2⟩ := blank_lines_between cfg hcfg f p ws (';' :: (cs ++ '\n' :: r)) he hok hws
  obtain ⟨_, a2, a3⟩ := scan_append_tokens cfg hcfg f f p (';' :: (cs ++ '\n' :: r)) he hok
  obtain ⟨_, b2, b3⟩ := scan_append_tokens cfg hcfg f f p r he hok
  obtain ⟨t, ht, c2, c3⟩ := comment_line cfg f cs r hnl
  refine ⟨?_, by rw [w2, a3, b3, c3]⟩
  unfold codeKeys
  rw [w1, a2, b2, c2, List.filter_append, List.filter_append, List.filter_cons_of_neg]
  show ¬ ((key t).1 != TokTy.COMMENT) = true
  show ¬ (t.ty != TokTy.COMMENT) = true
  rw [ht]; decide

/-! non-vacuity: the hypotheses of `blanks_between_tokens` hold at concrete points (checked by evaluation), and the
    conclusion is observed on the same texts (these two `example`s are tests, not the theorem) -/
private def cfgX : ScanCfg := ⟨["nop", "lda"], ["nop"], ["db"]⟩
private def bnd (k : Nat) (i : List Char) : Option Scan := ScanS.iter cfgX .initial k (ScanS.initState 0 i)
private def okB (o1 o2 : Option Scan) (i1 i2 : List Char) : Bool :=
  match o1, o2 with
  | some s1, some s2 =>
    s1.start == s1.pos && s2.start == s2.pos && decide (s1.pos ≤ i1.length) && decide (s2.pos ≤ i2.length) &&
      ((i1.drop s1.pos).dropWhile isBlank == (i2.drop s2.pos).dropWhile isBlank)
  | _, _ => false
/-- blank lines and indentation: after the first `nop` of "nop⏎⏎   nop⏎" and of "nop⏎nop⏎" -/
example : okB (bnd 1 "nop\n\n   nop\n".toList) (bnd 1 "nop\nnop\n".toList) "nop\n\n   nop\n".toList "nop\nnop\n".toList = true := by
  decide +kernel
/-- an end-of-line comment: after the comment of "nop ; c⏎lda #1⏎" (two iterations) and after `nop` of "nop⏎lda #1⏎" -/
example : okB (bnd 2 "nop ; c\nlda #1\n".toList) (bnd 1 "nop\nlda #1\n".toList) "nop ; c\nlda #1\n".toList "nop\nlda #1\n".toList = true := by
  decide +kernel
example : ((scan cfgX .initial 0 "nop ; c\nlda #1\n".toList).toks.toList.drop 2).map ScanS.key
    = ((scan cfgX .initial 0 "nop\nlda #1\n".toList).toks.toList.drop 1).map ScanS.key := by decide +kernel
/-- non-vacuity of `scan_append`: a two-line chunk with an indented comment line ends with a newline and scans without error
    under a configuration whose mnemonics hold no newline -/
example : ScanX.Ends "nop\n  ; note\n".toList.toArray ∧ (scan cfgX .initial 0 "nop\n  ; note\n".toList).error = none ∧
    ScanP.CfgOK cfgX := by
  refine ⟨by unfold ScanX.Ends; decide, by decide +kernel, by unfold ScanP.CfgOK cfgX; decide⟩
/-- the equation of `scan_append_tokens` observed on a sample (a test): "nop⏎  ; note⏎" ++ "lda #1⏎" -/
example : (scan cfgX .initial 0 ("nop\n  ; note\n" ++ "lda #1\n").toList).toks.toList.map ScanS.key =
    (scan cfgX .initial 0 "nop\n  ; note\n".toList).toks.pop.toList.map ScanS.key ++
      (scan cfgX .initial 0 "lda #1\n".toList).toks.toList.map ScanS.key := by decide +kernel
/-- the text of a run of full-line `;` comments, each behind its own indentation -/
def commentLines : List (List Char × List Char) → List Char
  | [] => []
  | (ws, cs) :: rest => ws ++ ';' :: (cs ++ '\n' :: commentLines rest)

open ScanS ScanX in
/-- **any number of full-line comments between two lines change no token the parser sees**: `insert_comment_line`
    iterated — for every list of (indentation, comment text) pairs (blank indentation, newline-free text) -/
theorem insert_comment_lines (cfg : ScanCfg) (hcfg : ScanP.CfgOK cfg) (f : Nat) (p r : List Char)
    (he : Ends p.toArray) (hok : (scan cfg .initial f p).error = none) :
    ∀ (cms : List (List Char × List Char)), (∀ c ∈ cms, c.1.all isBlank = true ∧ ∀ x ∈ c.2, x ≠ '\n') →
    codeKeys (scan cfg .initial f (p ++ (commentLines cms ++ r))).toks = codeKeys (scan cfg .initial f (p ++ r)).toks ∧
    (scan cfg .initial f (p ++ (commentLines cms ++ r))).error.map errKey = (scan cfg .initial f (p ++ r)).error.map errKey := by
  intro cms
  induction cms with
  | nil => intro _; exact ⟨rfl, rfl⟩
  | cons c rest ih =>
    intro h
    obtain ⟨ws, cs⟩ := c
    obtain ⟨h1, h2⟩ := h (ws, cs) List.mem_cons_self
    obtain ⟨i1, i2⟩ := ih (fun x hx => h x (List.mem_cons_of_mem _ hx))
    obtain ⟨k1, k2⟩ := insert_comment_line cfg hcfg f p ws cs (commentLines rest ++ r) he hok h1 h2
    have e : commentLines ((ws, cs) :: rest) ++ r = ws ++ ';' :: (cs ++ '\n' :: (commentLines rest ++ r)) := by
      simp [commentLines]
    rw [e]
    exact ⟨k1.trans i1, k2.trans i2⟩

open ScanS ScanX in
/-- **inserting or removing a `/* … */` comment between lines changes no token the parser sees**: as
    `insert_comment_line`, for a comment of any shape (several lines, banner, switched-off code) opened at a
    between-token point after the newline-terminated `p` and any indentation `ws`; `r` continues right behind the `*/`. -/
theorem insert_block_comment (cfg : ScanCfg) (hcfg : ScanP.CfgOK cfg) (f : Nat) (p ws body r : List Char)
    (he : Ends p.toArray) (hok : (scan cfg .initial f p).error = none) (hws : ws.all isBlank = true)
    (hnc : NoClose body) :
    codeKeys (scan cfg .initial f (p ++ (ws ++ '/' :: '*' :: (body ++ '*' :: '/' :: r)))).toks =
      codeKeys (scan cfg .initial f (p ++ r)).toks ∧
    (scan cfg .initial f (p ++ (ws ++ '/' :: '*' :: (body ++ '*' :: '/' :: r)))).error.map errKey =
      (scan cfg .initial f (p ++ r)).error.map errKey := by
  obtain ⟨w1, w2⟩ := blank_lines_between cfg hcfg f p ws ('/' :: '*' :: (body ++ '*' :: '/' :: r)) he hok hws
  obtain ⟨_, a2, a3⟩ := scan_append_tokens cfg hcfg f f p ('/' :: '*' :: (body ++ '*' :: '/' :: r)) he hok
  obtain ⟨_, b2, b3⟩ := scan_append_tokens cfg hcfg f f p r he hok
  obtain ⟨t, ht, c2, c3⟩ := block_comment cfg f body r hnc
  refine ⟨?_, by rw [w2, a3, b3, c3]⟩
  unfold codeKeys
  rw [w1, a2, b2, c2, List.filter_append, List.filter_append, List.filter_cons_of_neg]
  show ¬ (t.ty != TokTy.COMMENT) = true
  rw [ht]; decide

/-- a piece of layout that may stand between two lines: blanks / blank lines, a `;` comment line behind indentation, or
    a `/* … */` comment behind indentation -/
inductive Filler
  | blanks (ws : List Char)
  | line (ws cs : List Char)
  | block (ws body : List Char)

def Filler.text : Filler → List Char
  | .blanks ws => ws
  | .line ws cs => ws ++ ';' :: (cs ++ ['\n'])
  | .block ws body => ws ++ '/' :: '*' :: (body ++ ['*', '/'])

def Filler.Ok : Filler → Prop
  | .blanks ws => ws.all isBlank = true
  | .line ws cs => ws.all isBlank = true ∧ ∀ x ∈ cs, x ≠ '\n'
  | .block ws body => ws.all isBlank = true ∧ ScanS.NoClose body

def fillerText : List Filler → List Char
  | [] => []
  | c :: rest => c.text ++ fillerText rest

open ScanS ScanX in
/-- **any mixture of blank lines, indentation, `;` comment lines and `/* */` comments between two lines changes no token
    the parser sees**: for a newline-terminated `p` that scans without error, every list of well-formed fillers and every
    following text `r`, the non-COMMENT tokens of `p ++ fillers ++ r` have the types and texts of those of `p ++ r`, and the
    two scans end alike (`blank_lines_between`, `insert_comment_line`, `insert_block_comment` chained) -/
theorem insert_fillers (cfg : ScanCfg) (hcfg : ScanP.CfgOK cfg) (f : Nat) (p r : List Char)
    (he : Ends p.toArray) (hok : (scan cfg .initial f p).error = none) :
    ∀ (fs : List Filler), (∀ c ∈ fs, c.Ok) →
    codeKeys (scan cfg .initial f (p ++ (fillerText fs ++ r))).toks = codeKeys (scan cfg .initial f (p ++ r)).toks ∧
    (scan cfg .initial f (p ++ (fillerText fs ++ r))).error.map errKey = (scan cfg .initial f (p ++ r)).error.map errKey := by
  intro fs
  induction fs with
  | nil => intro _; exact ⟨rfl, rfl⟩
  | cons c rest ih =>
    intro h
    obtain ⟨i1, i2⟩ := ih (fun x hx => h x (List.mem_cons_of_mem _ hx))
    have hc := h c List.mem_cons_self
    cases c with
    | blanks ws =>
      obtain ⟨k1, k2⟩ := blank_lines_between cfg hcfg f p ws (fillerText rest ++ r) he hok hc
      have e : fillerText (Filler.blanks ws :: rest) ++ r = ws ++ (fillerText rest ++ r) := by
        simp [fillerText, Filler.text]
      rw [e]
      exact ⟨by unfold codeKeys; rw [k1]; exact i1, k2.trans i2⟩
    | line ws cs =>
      obtain ⟨k1, k2⟩ := insert_comment_line cfg hcfg f p ws cs (fillerText rest ++ r) he hok hc.1 hc.2
      have e : fillerText (Filler.line ws cs :: rest) ++ r = ws ++ ';' :: (cs ++ '\n' :: (fillerText rest ++ r)) := by
        simp [fillerText, Filler.text]
      rw [e]
      exact ⟨k1.trans i1, k2.trans i2⟩
    | block ws body =>
      obtain ⟨k1, k2⟩ := insert_block_comment cfg hcfg f p ws body (fillerText rest ++ r) he hok hc.1 hc.2
      have e : fillerText (Filler.block ws body :: rest) ++ r =
          ws ++ '/' :: '*' :: (body ++ '*' :: '/' :: (fillerText rest ++ r)) := by
        simp [fillerText, Filler.text]
      rw [e]
      exact ⟨k1.trans i1, k2.trans i2⟩

open ScanS ScanX in
/-- **the same at the top of a file**: fillers in front of a text (a banner comment, blank lines, a commented-out block)
    change no token the parser sees and not how the scan ends -/
theorem leading_fillers (cfg : ScanCfg) (f : Nat) (r : List Char) :
    ∀ (fs : List Filler), (∀ c ∈ fs, c.Ok) →
    codeKeys (scan cfg .initial f (fillerText fs ++ r)).toks = codeKeys (scan cfg .initial f r).toks ∧
    (scan cfg .initial f (fillerText fs ++ r)).error.map errKey = (scan cfg .initial f r).error.map errKey := by
  intro fs
  induction fs with
  | nil => intro _; exact ⟨rfl, rfl⟩
  | cons c rest ih =>
    intro h
    obtain ⟨i1, i2⟩ := ih (fun x hx => h x (List.mem_cons_of_mem _ hx))
    have hc := h c List.mem_cons_self
    cases c with
    | blanks ws =>
      obtain ⟨k1, k2⟩ := leading_blanks cfg f ws (fillerText rest ++ r) hc
      have e : fillerText (Filler.blanks ws :: rest) ++ r = ws ++ (fillerText rest ++ r) := by
        simp [fillerText, Filler.text]
      rw [e]
      exact ⟨by unfold codeKeys; rw [k1]; exact i1, k2.trans i2⟩
    | line ws cs =>
      obtain ⟨k1, k2⟩ := leading_blanks cfg f ws (';' :: (cs ++ '\n' :: (fillerText rest ++ r))) hc.1
      obtain ⟨t, ht, c2, c3⟩ := comment_line cfg f cs (fillerText rest ++ r) hc.2
      have e : fillerText (Filler.line ws cs :: rest) ++ r = ws ++ ';' :: (cs ++ '\n' :: (fillerText rest ++ r)) := by
        simp [fillerText, Filler.text]
      rw [e]
      refine ⟨?_, by rw [k2, c3]; exact i2⟩
      unfold codeKeys at i1 ⊢
      rw [k1, c2, List.filter_cons_of_neg]
      · exact i1
      · show ¬ (t.ty != TokTy.COMMENT) = true
        rw [ht]; decide
    | block ws body =>
      obtain ⟨k1, k2⟩ := leading_blanks cfg f ws ('/' :: '*' :: (body ++ '*' :: '/' :: (fillerText rest ++ r))) hc.1
      obtain ⟨t, ht, c2, c3⟩ := block_comment cfg f body (fillerText rest ++ r) hc.2
      have e : fillerText (Filler.block ws body :: rest) ++ r =
          ws ++ '/' :: '*' :: (body ++ '*' :: '/' :: (fillerText rest ++ r)) := by
        simp [fillerText, Filler.text]
      rw [e]
      refine ⟨?_, by rw [k2, c3]; exact i2⟩
      unfold codeKeys at i1 ⊢
      rw [k1, c2, List.filter_cons_of_neg]
      · exact i1
      · show ¬ (t.ty != TokTy.COMMENT) = true
        rw [ht]; decide

/-- non-vacuity of `insert_fillers`: three well-formed fillers, and the conclusion observed on them (a test) -/
example : (Filler.blanks "\n  ".toList).Ok ∧ (Filler.line "\t".toList " it's /* {".toList).Ok ∧ (Filler.block " ".toList "/ nop\n /".toList).Ok := by
  refine ⟨?_, ⟨?_, ?_⟩, ⟨?_, ?_⟩⟩
  · show "\n  ".toList.all isBlank = true; decide
  · show "\t".toList.all isBlank = true; decide
  · show ∀ x ∈ " it's /* {".toList, x ≠ '\n'; decide
  · show " ".toList.all isBlank = true; decide
  · show ScanS.NoClose "/ nop\n /".toList; unfold ScanS.NoClose; decide
example : codeKeys (scan cfgX .initial 0 ("nop\n".toList ++ (fillerText [.blanks "\n  ".toList, .line "\t".toList " it's /* {".toList,
      .block " ".toList "/ nop\n /".toList, .blanks "\n".toList] ++ "lda #1\n".toList))).toks =
    codeKeys (scan cfgX .initial 0 ("nop\n".toList ++ "lda #1\n".toList)).toks := by decide +kernel

/-- non-vacuity of `insert_comment_line`: its hypotheses hold for "nop⏎", indentation "  ⇥", the comment text
    " it's /* {" and the sample configuration; and the conclusion observed on that sample (a test) -/
example : ScanX.Ends "nop\n".toList.toArray ∧ (scan cfgX .initial 0 "nop\n".toList).error = none ∧
    "  \t".toList.all isBlank = true ∧ (∀ c ∈ " it's /* {".toList, c ≠ '\n') := by
  refine ⟨by unfold ScanX.Ends; decide, by decide +kernel, by decide, by decide⟩
example : codeKeys (scan cfgX .initial 0 ("nop\n" ++ ("  \t" ++ "; it's /* {\n" ++ "lda #1\n")).toList).toks =
    codeKeys (scan cfgX .initial 0 ("nop\n" ++ "lda #1\n").toList).toks := by decide +kernel
/-- non-vacuity of `NoClose`: the `/*/ … /*/` idiom (body "/ nop⏎ /"), a banner body "///// t ////" and a body ending in `*` -/
example : ScanS.NoClose "/ nop\n /".toList ∧ ScanS.NoClose "///// t ////".toList ∧ ScanS.NoClose " a **".toList := by
  refine ⟨?_, ?_, ?_⟩ <;> (unfold ScanS.NoClose; decide)
example : codeKeys (scan cfgX .initial 0 ("nop\n" ++ (" " ++ "/*/ nop\n /*/" ++ "\nlda #1\n")).toList).toks =
    codeKeys (scan cfgX .initial 0 ("nop\n" ++ "\nlda #1\n").toList).toks := by decide +kernel

/-- non-vacuity of `comment_at_point` for an end-of-line comment: behind "lda #1 " the scan is at a between-token point
    (head of the second iteration of the outer loop, `reach_iter`) with "; c⏎nop⏎" ahead -/
example : (bnd 1 "lda #1 ; c\nnop\n".toList).map (fun s => (s.start == s.pos, "lda #1 ; c\nnop\n".toList.drop s.pos)) =
    some (true, "; c\nnop\n".toList) := by decide +kernel

/-- non-vacuity of `naked_opcode_eol_comment`: `nop` in the sample configuration meets its mnemonic hypotheses (the
    between-token points and the conclusion on "nop ; c⏎lda #1⏎" / "nop⏎lda #1⏎" are the `okB (bnd 2 …)` example above) -/
example : letterChars.contains 'n' = true ∧ cfgX.mnemonics.contains (asciiLower (String.ofList ['n', 'o', 'p'])) = true ∧
    cfgX.noOperand.contains (asciiLower (String.ofList ['n', 'o', 'p'])) = true := by decide

end A816.C16
