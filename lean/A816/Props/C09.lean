import A816.Props.C10
/-!
# C09 — Macro application equals the body inlined with parameters bound

On the code-generation model (`generate_macro_application`, `generate_code_lookup`), for every macro
definition and every argument list:

* `macro_is_block`: applying a macro generates `scopeEnter`, then the deferred bindings, then the
  nodes of the body generated inside a fresh scope whose parameters are bound to the argument values
  **evaluated in the caller's scope before the new scope exists** (F09 repair), then `scopePop` —
  the shape of a `{ … }` block with the parameters defined first.
* `code_arg_spliced`: `{{p}}` generates the nodes of the block bound to `p`, in the current scope.
* `undefined_macro_fails`, `too_few_args_fails`, `not_code_fails`.
-/
namespace A816.C09
open A816 C10

/-- applying an undefined macro fails (`KeyError`) -/
theorem undefined_macro_fails (env : Env) (fuel : Nat) (name : String) (args : List MArg) (i : Tok) (st : GenState)
    (h : alookup name st.macros = none) :
    runG (gen env (fuel + 1) (.macroApply name args i)) st = .error .key := by
  simp [runG, gen, liftOpt, StateT.run, bind, StateT.bind, get, getThe, MonadStateOf.get, StateT.get, h, throw,
    throwThe, MonadExceptOf.throw, StateT.lift, liftM, monadLift, MonadLift.monadLift, Except.bind, pure, StateT.pure,
    Except.pure, Except.map, Functor.map]

/-- `{{p}}` splices the block bound to `p` in the current scope -/
theorem code_arg_spliced (env : Env) (fuel : Nat) (name : String) (i : Tok) (st : GenState) (body : List Ast)
    (h : st.r.valueFor name = .code body) :
    runG (gen env (fuel + 1) (.codeLookup name i)) st = runG (genList env fuel body) st := by
  simp [runG, gen, StateT.run, bind, StateT.bind, get, getThe, MonadStateOf.get, StateT.get, pure, StateT.pure,
    Except.bind, Except.pure, h, genList]

/-- `{{p}}` of an integer symbol is an error; of an undefined name too -/
theorem not_code_fails (env : Env) (fuel : Nat) (name : String) (i : Tok) (st : GenState) (v : Int)
    (h : st.r.valueFor name = .int v) :
    runG (gen env (fuel + 1) (.codeLookup name i)) st = .error (nodeErr "not-a-code-block" i) := by
  simp [runG, gen, StateT.run, bind, StateT.bind, get, getThe, MonadStateOf.get, StateT.get, h, throw,
    throwThe, MonadExceptOf.throw, StateT.lift, liftM, monadLift, MonadLift.monadLift, Except.bind, pure, StateT.pure,
    Except.pure, Except.map, Functor.map]

theorem undefined_code_fails (env : Env) (fuel : Nat) (name : String) (i : Tok) (st : GenState)
    (h : st.r.valueFor name = .undefined) :
    runG (gen env (fuel + 1) (.codeLookup name i)) st = .error (.symbolNotDefined name) := by
  simp [runG, gen, StateT.run, bind, StateT.bind, get, getThe, MonadStateOf.get, StateT.get, h, throw,
    throwThe, MonadExceptOf.throw, StateT.lift, liftM, monadLift, MonadLift.monadLift, Except.bind, pure, StateT.pure,
    Except.pure, Except.map, Functor.map]

/-- a macro definition only records the macro; nothing is generated -/
theorem macro_def_records (env : Env) (fuel : Nat) (name : String) (ps : List String) (body : List Ast) (i : Tok)
    (st : GenState) :
    runG (gen env (fuel + 1) (.macro name ps body i)) st
      = .ok ([], { st with macros := ainsert name ⟨ps, body⟩ st.macros }) := by
  simp [runG, gen, StateT.run, bind, StateT.bind, modify, modifyGet, MonadStateOf.modifyGet, StateT.modifyGet, pure,
    StateT.pure, Except.bind, Except.pure]

/-- **macro application = block with parameters bound**: the arguments are evaluated by `bindArgs` in
    the *caller's* resolver `st.r` (before any scope is opened); then a fresh scope is opened and
    entered, the evaluated parameters are bound in it, the body is generated inside, and the scope is
    left: `scopeEnter :: deferred bindings ++ body ++ [scopePop]`. -/
theorem macro_is_block (env : Env) (fuel : Nat) (name : String) (args : List MArg) (i : Tok) (st : GenState)
    (md : MacroDef) (hm : alookup name st.macros = some md) (bound : List (String × Bound))
    (hb : bindArgs env st.r md.params args = .ok bound) :
    runG (gen env (fuel + 1) (.macroApply name args i)) st =
      runG (withScope .plain (fun r => bindParams r bound) (deferredNodes bound) (genList env fuel md.body)) st := by
  simp [runG, gen, genList, liftOpt, StateT.run, bind, StateT.bind, get, getThe, MonadStateOf.get, StateT.get, hm, hb,
    pure, StateT.pure, Except.bind, Except.pure]

/-- a plain block `{ … }` has the same shape with nothing bound -/
theorem block_is_scope (env : Env) (fuel : Nat) (body : List Ast) (i : Tok) (st : GenState) :
    runG (gen env (fuel + 1) (.compound body i)) st = runG (withScope .plain id [] (genList env fuel body)) st := by
  simp [runG, gen, genList]

/-- supplying too few arguments fails (`IndexError`), whatever the arguments are -/
theorem too_few_args_fails (env : Env) (r : Resolver) (params : List String) (args : List MArg)
    (h : args.length < params.length) : ∃ e, bindArgs env r params args = .error e := by
  induction params generalizing args with
  | nil => simp at h
  | cons p ps ih =>
    cases args with
    | nil => exact ⟨.index, rfl⟩
    | cons a as =>
      have hl : as.length < ps.length := by simpa using h
      obtain ⟨e, he⟩ := ih as hl
      unfold bindArgs
      cases a with
      | block b info => simp [he]
      | expr ex =>
        cases hv : evalP env r ex with
        | ok v => simp [he, hv]
        | error er =>
          cases er <;> simp [he, hv]

theorem too_few_args_fails_gen (env : Env) (fuel : Nat) (name : String) (args : List MArg) (i : Tok) (st : GenState)
    (md : MacroDef) (hm : alookup name st.macros = some md) (h : args.length < md.params.length) :
    ∃ e, runG (gen env (fuel + 1) (.macroApply name args i)) st = .error e := by
  obtain ⟨e, he⟩ := too_few_args_fails env st.r md.params args h
  refine ⟨e, ?_⟩
  simp [runG, gen, liftOpt, StateT.run, bind, StateT.bind, get, getThe, MonadStateOf.get, StateT.get, hm, he,
    pure, StateT.pure, Except.bind, Except.pure, throw, throwThe, MonadExceptOf.throw, StateT.lift, liftM, monadLift,
    MonadLift.monadLift]

/-- an argument is bound to its value **at the call site**: `bindArgs` only reads the caller's resolver -/
theorem arg_value_at_call_site (env : Env) (r : Resolver) (p : String) (ps : List String) (e : PExpr) (as : List MArg)
    (v : Int) (hv : evalP env r e = .ok v) (rest : List (String × Bound)) (hr : bindArgs env r ps as = .ok rest) :
    bindArgs env r (p :: ps) (.expr e :: as) = .ok ((p, .int v) :: rest) := by
  simp [bindArgs, hv, hr]

/-- an argument that names a label defined later is deferred: it becomes an `ArgumentNode` of the macro scope -/
theorem deferred_arg (env : Env) (r : Resolver) (p : String) (ps : List String) (e : PExpr) (as : List MArg)
    (x : String) (hv : evalP env r e = .error (.symbolNotDefined x)) (rest : List (String × Bound))
    (hr : bindArgs env r ps as = .ok rest) :
    bindArgs env r (p :: ps) (.expr e :: as) = .ok ((p, .deferred e) :: rest) ∧
    deferredNodes ((p, Bound.deferred e) :: rest) = Node.argSymbol p e :: deferredNodes rest := by
  simp [bindArgs, hv, hr, deferredNodes]

/-- **a deferred argument is evaluated at the call site too** (repair of the known finding C09-deferred-capture): when the
    passes reach the `ArgumentNode` inside the application's scope, its expression is evaluated with the *parent* of that
    scope current — the scope the macro was applied in — and the parameter is bound in the application's scope; the
    parameters already bound in the application's scope cannot capture names of the argument -/
theorem deferred_arg_at_call_site (env : Env) (r : Resolver) (pc : Address) (p : String) (e : PExpr) (par : Nat) (v : Int)
    (hp : r.cur.parent = some par)
    (hv : evalP env { r with current := par } e = .ok v) :
    pcAfter env (.argSymbol p e) r pc = .ok (r.addSymbol p v, pc) := by
  simp [pcAfter, hp, hv]

end A816.C09
