import A816.Proofs.ExprMain
import A816.Proofs.ExprClassify
import A816.Gen.Tables
import A816.Proofs.ExprSpaces
/-!
# C06 — Expressions evaluate to their conventional integer value

`eval_expression` (shunting-yard into a queue, then queue evaluation, with the operator table
regenerated from `/repo`) returns, for the token list of **every** well-formed tree of any depth,
the value the conventional reading of that tree has (`Spec.eval`): precedence, left-to-right
association, parentheses, prefix operators, unbounded integers, `~` within 8/16/32 bits, literals
in the three bases and either letter case.
-/
namespace A816.C06
open A816 Spec

/-- the regenerated `OPERATOR_PRECEDENCE` as a lookup function -/
def genPrec : PrecTable := fun s => alookup s Gen.operatorPrecedence

/-- The regenerated table ranks the seven binary operators in the conventional order, above the
    rank (2) of a prefix operator.  Kernel-checked against whatever `/repo` defines now. -/
def genPrecOK : PrecOK genPrec where
  P := fun o => (genPrec o.sym).getD 0
  hP := by intro o; cases o <;> decide +kernel
  gt2 := by intro o; cases o <;> decide +kernel
  mono := by intro o o'; cases o <;> cases o' <;> decide +kernel

/-- **C06 (value)**: for every well-formed expression tree whose value is defined, evaluating its
    printed token list with the code's algorithm and table yields exactly that value. -/
theorem C06_value (env : String → Option Int) (e : Expr) (wf : e.WF) (v : Int)
    (hv : Spec.eval env e = some v) :
    evalTokens genPrec (lookOf env) (printNodes e) = .ok v :=
  evalTokens_print genPrecOK env e wf v hv

/-- The two-phase algorithm agrees with the fused evaluation for *any* token list (not only printed trees). -/
theorem C06_fuse (look : String → Look) (ts : List ENode) (vs : List Int) (stack : List ENode) (v : Int)
    (rest : List Int) (h : frun look genPrec ([], []) ts = .ok (vs, stack))
    (hflush : rpnRun look vs stack = .ok (v :: rest)) : evalTokens genPrec look ts = .ok v :=
  fuse look genPrec ts vs stack v rest h hflush

/-- Literals: decimal, `0x` hexadecimal in either letter case, `0b` binary read back to their value. -/
theorem C06_literal (l : Literal) (wf : l.WF) : evalNumber (String.ofList l.render) = some (l.value : Int) :=
  evalNumber_render l wf

/-- `~v` is the complement within the smallest of 8/16/32 bits that holds `v` (also for negative `v`). -/
theorem C06_invert (v : Int) : pyInvert v = Spec.invert v := pyInvert_eq v

/-- An undefined name makes the evaluation fail with `SymbolNotDefined` of that name — it is never
    given a value (the single-identifier case; `.if` relies on it). -/
theorem C06_undefined_name (env : String → Option Int) (x : String) (h : env x = none) :
    evalTokens genPrec (lookOf env) [.term .identifier x] = .error (.symbolNotDefined x) := by
  simp [evalTokens, shuntingYard, syRun, syStep, evalRPN, rpnRun, applyNode, lookOf, h]

/-- **C06 (classification)**: wherever the token stream continues with the printout of an expression tree and
    then anything that is not an operator, `parse_expression` returns exactly the node list of that tree —
    `-`/`~` in operand position as prefix operators, all others binary — and consumes exactly the printout.
    The parser state before it (hence the context: operand, directive, definition, macro argument, condition,
    loop bound) plays no part. -/
theorem C06_classify (cfg : ParseCfg) (e : Expr) (fuel : Nat) (st : PState)
    (hm : Classify.Matches st st.pos (printNodes e)) (hfuel : (printNodes e).length < fuel)
    (hf : (st.toks.getD (st.pos + (printNodes e).length) eofTok).ty ≠ .OPERATOR) :
    parseExpr cfg fuel st =
      .ok (⟨printNodes e, st.toks.getD st.pos eofTok⟩, Classify.adv st (printNodes e).length) :=
  Classify.parseExpr_print cfg e fuel st hm hfuel hf

/-- **C06 (tokens to value)**: parsing the printout of a well-formed tree and evaluating what the parser
    returned yields the tree's conventional value, in every parser state. -/
theorem C06_parse_value (cfg : ParseCfg) (env : String → Option Int) (e : Expr) (wf : e.WF) (v : Int)
    (hv : Spec.eval env e = some v) (fuel : Nat) (st : PState)
    (hm : Classify.Matches st st.pos (printNodes e)) (hfuel : (printNodes e).length < fuel)
    (hf : (st.toks.getD (st.pos + (printNodes e).length) eofTok).ty ≠ .OPERATOR) :
    ∃ pe st', parseExpr cfg fuel st = .ok (pe, st') ∧ st'.pos = st.pos + (printNodes e).length ∧
      evalTokens genPrec (lookOf env) pe.nodes = .ok v :=
  ⟨_, _, C06_classify cfg e fuel st hm hfuel hf, rfl, C06_value env e wf v hv⟩

/-! ## non-vacuity: concrete well-formed trees (checked by kernel evaluation through the real table) -/

private def d (n : Nat) : Expr := .num ⟨.dec, [(n, false)]⟩
private def env0 : String → Option Int := fun x => if x == "a" then some 5 else none

-- 2*3+4<<1&7 = ((2*3+4)<<1)&7 = 20&7 = 4
example : (evalTokens genPrec (lookOf env0)
    (printNodes (.bin .band (.bin .shl (.bin .add (.bin .mul (d 2) (d 3)) (d 4)) (d 1)) (d 7)))).toOption = some 4 := by
  decide +kernel
example : (Expr.bin .band (.bin .shl (.bin .add (.bin .mul (d 2) (d 3)) (d 4)) (d 1)) (d 7)).WF := by
  simp [Expr.WF, Expr.level, BOp.level, d, Literal.WF, Base.radix]
-- 5-3-1 = 1 (left to right), -2*3 = -6, ~0xFFFF = 0, 1 + ~-2 = 2, a*(1+2) = 15
example : (evalTokens genPrec (lookOf env0) (printNodes (.bin .sub (.bin .sub (d 5) (d 3)) (d 1)))).toOption = some 1 := by
  decide +kernel
example : (evalTokens genPrec (lookOf env0) (printNodes (.bin .mul (.un .neg (d 2)) (d 3)))).toOption = some (-6) := by
  decide +kernel
example : (evalTokens genPrec (lookOf env0)
    (printNodes (.un .inv (.num ⟨.hex, [(15, true), (15, false), (15, true), (15, false)]⟩)))).toOption = some 0 := by
  decide +kernel
example : (evalTokens genPrec (lookOf env0) (printNodes (.bin .add (d 1) (.un .inv (.un .neg (d 2)))))).toOption = some 2 := by
  decide +kernel
example : (evalTokens genPrec (lookOf env0)
    (printNodes (.bin .mul (.var "a") (.paren (.bin .add (d 1) (d 2)))))).toOption = some 15 := by
  decide +kernel

-- the hypotheses of `C06_classify` are met by a concrete token stream: `- 2 * ( a + 3 ) ,`
private def tk (ty : TokTy) (v : String) : Tok := { eofTok with ty := ty, val := v }
private def st0 : PState :=
  { (default : PState) with
    toks := #[tk .OPERATOR "-", tk .NUMBER "2", tk .OPERATOR "*", tk .LPAREN "(", tk .IDENTIFIER "a", tk .OPERATOR "+",
             tk .NUMBER "3", tk .RPAREN ")", tk .COMMA ","], pos := 0 }
private def e0 : Expr := .un .neg (.bin .mul (d 2) (.paren (.bin .add (.var "a") (d 3))))
example : Classify.Matches st0 st0.pos (printNodes e0) := by
  intro i hi
  have hi' : i < 8 := hi
  match i, hi' with
  | 0, _ | 1, _ | 2, _ | 3, _ | 4, _ | 5, _ | 6, _ | 7, _ => decide +kernel +revert
example : (st0.toks.getD (st0.pos + (printNodes e0).length) eofTok).ty ≠ .OPERATOR := by decide +kernel

/-- boundary values of `~` (tests of `pyInvert`, the operand widths 8 / 16 / 32 bits chosen by `bit_length`; negative
    operands are complemented in the width of their magnitude) -/
example : pyInvert 0 = some 255 ∧ pyInvert 255 = some 0 ∧ pyInvert 256 = some 65279 ∧ pyInvert 65535 = some 0 ∧
    pyInvert 65536 = some 4294901759 ∧ pyInvert (-1) = some 0 ∧ pyInvert (-256) = some 255 ∧ pyInvert (-512) = some 511 ∧
    pyInvert (-300) = some 299 ∧ pyInvert 4294967296 = none := by decide +kernel

/-! ## spacing -/
open ScanS in
/-- **blanks between the tokens of an expression do not change what is scanned** (C06 "spacing does not change the result",
    at the level of the expression scanner `lex_expression`, which `eval_expression_str` and every operand use): from two
    between-token points (`start = pos`) whose remaining texts are equal once their leading blanks are dropped, the rest of
    `lex_expression` emits tokens of the same types and texts and ends alike.  With `C06_value` (the value is a function
    of the token types and texts) equal remaining tokens give equal values. -/
theorem spacing_between_tokens (s1 s2 : Scan) (b1 : s1.start = s1.pos) (b2 : s2.start = s2.pos)
    (l1 : s1.pos ≤ s1.input.size) (l2 : s2.pos ≤ s2.input.size)
    (hrest : (s1.input.toList.drop s1.pos).dropWhile (fun c => [' '].contains c) =
      (s2.input.toList.drop s2.pos).dropWhile (fun c => [' '].contains c)) :
    ∃ A B, RelR A B s1.toks.size s2.toks.size (lexExpression s1) (lexExpression s2) :=
  expr_spaces s1 s2 b1 b2 l1 l2 hrest

/-- non-vacuity, and the conclusion observed (a test): "   1+2" and "1+2" from their first character -/
example : (("   1+2".toList.drop 0).dropWhile fun c => [' '].contains c) = (("1+2".toList.drop 0).dropWhile fun c => [' '].contains c) := by
  decide
example : (scan ⟨[], [], []⟩ .expression 0 "   1 +  2".toList).toks.toList.map ScanS.key
    = (scan ⟨[], [], []⟩ .expression 0 "1+2".toList).toks.toList.map ScanS.key := by decide +kernel


end A816.C06
