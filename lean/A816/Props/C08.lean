import A816.Model.Resolver
import A816.Proofs.LabelScopes
import A816.Proofs.Unrelated
import A816.Proofs.UnrelatedPass
import A816.Proofs.Replay
/-!
# C08 — Names resolve lexically; scopes isolate; named scopes export

On the resolver model (`Scope.value_for`, `Resolver.restore_scope`), for every scope array in which
each scope's parent was created before it (`ParentLt`, which scope creation maintains):

* `valueFor_here` / `valueFor_outward` / `valueFor_root`: a name refers to its definition in the
  innermost enclosing scope that defines it, falling back outward, finally to the top level.
* `isolation`: changing the symbols of a scope that is not the current scope or one of its ancestors
  (a sibling, an inner scope, any unrelated scope) does not change what any name resolves to.
* `export_named`: leaving a named scope `n` with exports makes every symbol `k` of `n` available in
  the enclosing scope as `n.k` with the same value; other bindings of the enclosing scope are untouched.
* `appendScope_lexical`: a scope is created as a child of the scope current at that point.
* **`replay_consistent`** (with `Proofs/Replay.lean`): for *every* AST and nesting budget, the node list
  produced by code generation replays the scope structure it created: a traversal that starts in the
  scope generation started in enters, at every `ScopeNode`, the scope appended for that construct (a
  child of the scope the construct stands in), is back in the enclosing scope after the matching
  `PopScopeNode`, ends where it started having entered every new scope exactly once, and never runs out
  of scopes (`IndexError`) or of parents (`RuntimeError`) — for every later extension of the scope list.
  `scope_body_in_child`: the body of a block / named scope / macro application / loop iteration is
  traversed with the new child scope current.  `label_pass_follows_replay`, `emission_follows_replay`:
  the passes of `Program.resolve_labels` and `Program.emit` move through the scopes exactly as that
  replay does.  Together with `valueFor_*` this is "names resolve lexically" across the three passes.
-/
namespace A816.C08
open A816 Resolver

/-- every scope's parent was created before it -/
def ParentLt (r : Resolver) : Prop :=
  ∀ i p, (r.scopeAt i).parent = some p → p < i

def defines (s : ScopeRec) (name : String) : Bool :=
  (alookup name s.symbols).isSome || (alookup name s.codeSymbols).isSome

/-- enough fuel: the walk from scope `i` needs at most `i + 1` steps -/
theorem valueForAux_fuel (r : Resolver) (h : ParentLt r) (name : String) :
    ∀ (i f : Nat), i + 1 ≤ f → valueForAux r.scopes name f i = valueForAux r.scopes name (i + 1) i := by
  intro i
  induction i using Nat.strongRecOn with
  | _ i ih =>
    intro f hf
    obtain ⟨g, rfl⟩ : ∃ g, f = g + 1 := ⟨f - 1, by omega⟩
    unfold valueForAux
    cases hp : (r.scopes.getD i default).parent with
    | none => rfl
    | some p =>
      simp only
      have hlt := h i p hp
      by_cases hd : ((alookup name (r.scopes.getD i default).symbols).isSome || (alookup name (r.scopes.getD i default).codeSymbols).isSome) = true
      · rw [if_pos hd, if_pos hd]
      · rw [if_neg hd, if_neg hd, ih p hlt g (by omega), ih p hlt i (by omega)]

/-- current scope index is a scope; fuel `size + 1` is enough when `current < size` -/
def CurOk (r : Resolver) : Prop := r.current < r.scopes.size

theorem valueFor_eq (r : Resolver) (h : ParentLt r) (hc : CurOk r) (name : String) :
    r.valueFor name = valueForAux r.scopes name (r.current + 1) r.current := by
  unfold valueFor
  exact valueForAux_fuel r h name r.current _ (by unfold CurOk at hc; omega)

/-- **innermost wins**: a name defined in the current scope resolves to that definition,
    whatever enclosing scopes define -/
theorem valueFor_here (r : Resolver) (h : ParentLt r) (hc : CurOk r) (name : String)
    (hd : defines r.cur name = true) : r.valueFor name = getItem r.cur name := by
  rw [valueFor_eq r h hc]
  unfold valueForAux
  have hd' : ((alookup name (r.scopes.getD r.current default).symbols).isSome || (alookup name (r.scopes.getD r.current default).codeSymbols).isSome) = true := hd
  cases hp : (r.scopes.getD r.current default).parent with
  | none => rfl
  | some p => show (if _ then _ else _) = _; rw [if_pos hd']; rfl

/-- **falls back outward**: a name the current scope does not define resolves as it does in the parent scope -/
theorem valueFor_outward (r : Resolver) (h : ParentLt r) (hc : CurOk r) (name : String) (p : Nat)
    (hp : r.cur.parent = some p) (hd : defines r.cur name = false) :
    r.valueFor name = ({ r with current := p } : Resolver).valueFor name := by
  have hlt : p < r.current := h r.current p hp
  rw [valueFor_eq r h hc]
  have hc' : CurOk ({ r with current := p } : Resolver) := by unfold CurOk at *; simp; omega
  have h' : ParentLt ({ r with current := p } : Resolver) := h
  rw [valueFor_eq _ h' hc']
  conv => lhs; unfold valueForAux
  have hp' : (r.scopes.getD r.current default).parent = some p := hp
  have hd' : ((alookup name (r.scopes.getD r.current default).symbols).isSome || (alookup name (r.scopes.getD r.current default).codeSymbols).isSome) = false := hd
  rw [hp']
  show (if _ then _ else _) = _
  rw [if_neg (by rw [hd']; simp)]
  exact valueForAux_fuel r h name p r.current (by omega)

/-- at the top level a name resolves to the top-level definition (or is undefined) -/
theorem valueFor_root (r : Resolver) (h : ParentLt r) (hc : CurOk r) (name : String) (hp : r.cur.parent = none) :
    r.valueFor name = getItem r.cur name := by
  rw [valueFor_eq r h hc]
  unfold valueForAux
  have hp' : (r.scopes.getD r.current default).parent = none := hp
  rw [hp']; rfl

/-- `j` is the scope `i` or one of its ancestors -/
inductive IsAncestor (r : Resolver) (j : Nat) : Nat → Prop
  | self : IsAncestor r j j
  | up (i p : Nat) : (r.scopeAt i).parent = some p → IsAncestor r j p → IsAncestor r j i

/-- the walk only reads the scopes on the ancestor chain -/
theorem valueForAux_congr (r : Resolver) (scopes' : Array ScopeRec) (name : String) (j : Nat)
    (hsame : ∀ i, i ≠ j → scopes'.getD i default = r.scopes.getD i default) :
    ∀ (f i : Nat), ¬ IsAncestor r j i → valueForAux scopes' name f i = valueForAux r.scopes name f i := by
  intro f
  induction f with
  | zero => intro i _; rfl
  | succ f ih =>
    intro i hna
    have hij : i ≠ j := fun c => hna (c ▸ IsAncestor.self)
    unfold valueForAux
    rw [hsame i hij]
    cases hp : (r.scopes.getD i default).parent with
    | none => rfl
    | some p =>
      simp only
      have hnp : ¬ IsAncestor r j p := fun c => hna (IsAncestor.up i p hp c)
      rw [ih p hnp]

/-- **isolation**: redefining anything inside a scope that is neither the current scope nor one of
    its ancestors (a sibling, a nested scope, an unrelated scope) changes no lookup -/
theorem isolation (r : Resolver) (j : Nat) (f : ScopeRec → ScopeRec)
    (hna : ¬ IsAncestor r j r.current) (name : String) :
    ({ r with scopes := r.scopes.modify j f } : Resolver).valueFor name = r.valueFor name := by
  unfold valueFor
  have hsize : (r.scopes.modify j f).size = r.scopes.size := by simp
  show valueForAux (r.scopes.modify j f) name ((r.scopes.modify j f).size + 1) r.current = _
  rw [hsize]
  apply valueForAux_congr r _ name j
  · intro i hij
    have : ¬ (j = i) := fun c => hij c.symm
    simp [Array.getD_eq_getD_getElem?, Array.getElem?_modify, this]
  · exact hna

/-- symbols after merging the exports `name.k = v` of a scope's symbols into a dict -/
def exported (name : String) (syms : List (String × Int)) (into : List (String × Int)) : List (String × Int) :=
  syms.foldl (fun acc (k, v) => ainsert (name ++ "." ++ k) v acc) into

theorem alookup_ainsert_self {β} (k : String) (v : β) (l : List (String × β)) : alookup k (ainsert k v l) = some v := by
  induction l with
  | nil => simp [ainsert, alookup]
  | cons hd tl ih =>
    obtain ⟨k', v'⟩ := hd
    unfold ainsert
    by_cases h : (k' == k) = true
    · simp [h, alookup]
    · simp [h, alookup, ih]

theorem alookup_ainsert_other {β} (k k2 : String) (v : β) (l : List (String × β)) (hne : k2 ≠ k) :
    alookup k2 (ainsert k v l) = alookup k2 l := by
  induction l with
  | nil => simp [ainsert, alookup, hne.symm]
  | cons hd tl ih =>
    obtain ⟨k', v'⟩ := hd
    unfold ainsert
    by_cases h : (k' == k) = true
    · have hk : k' = k := by simpa using h
      subst hk
      have : (k' == k2) = false := by simpa using hne.symm
      simp [h, alookup, this]
    · simp only [h, Bool.false_eq_true, ↓reduceIte, alookup]
      split
      · rfl
      · exact ih

/-- names that are not of the form `name.k` for a symbol `k` of the scope keep their binding -/
theorem exported_other (name : String) (syms into : List (String × Int)) (x : String)
    (hx : ∀ k v, (k, v) ∈ syms → x ≠ name ++ "." ++ k) : alookup x (exported name syms into) = alookup x into := by
  unfold exported
  induction syms generalizing into with
  | nil => rfl
  | cons kv rest ih =>
    obtain ⟨k, v⟩ := kv
    simp only [List.foldl_cons]
    rw [ih _ (fun k' v' hm => hx k' v' (List.mem_cons_of_mem _ hm))]
    exact alookup_ainsert_other _ _ _ _ (hx k v (by simp))

/-- the last definition of `k` in the scope is what `name.k` gets -/
theorem exported_last (name : String) (syms into : List (String × Int)) (k : String) (v : Int)
    (pre post : List (String × Int)) (hs : syms = pre ++ (k, v) :: post)
    (hlast : ∀ k' v', (k', v') ∈ post → name ++ "." ++ k' ≠ name ++ "." ++ k) :
    alookup (name ++ "." ++ k) (exported name syms into) = some v := by
  subst hs
  unfold exported
  rw [List.foldl_append, List.foldl_cons]
  have := exported_other name post (ainsert (name ++ "." ++ k) v (List.foldl (fun acc x => ainsert (name ++ "." ++ x.1) x.2 acc) into pre))
    (name ++ "." ++ k) (fun k' v' hm => (hlast k' v' hm).symm)
  unfold exported at this
  rw [this]
  exact alookup_ainsert_self _ _ _

/-- **named scopes export**: `restore_scope(exports=True)` on a named scope returns to the parent, whose
    symbols now contain the exports; nothing else about any scope changes. -/
theorem export_named (r r' : Resolver) (name : String) (p : Nat) (hk : r.cur.kind = .named name)
    (hp : r.cur.parent = some p) (h : r.restoreScope true = some r') :
    r'.current = p ∧
    r'.scopes = r.scopes.modify p (fun ps => { ps with symbols := exported name r.cur.symbols ps.symbols }) := by
  unfold restoreScope at h
  simp only [hp, hk, Option.some.injEq] at h
  subst h
  exact ⟨rfl, rfl⟩

/-- leaving any scope without exports (emission pass, and code generation) only changes the current scope -/
theorem restore_plain (r r' : Resolver) (p : Nat) (hp : r.cur.parent = some p) (h : r.restoreScope false = some r') :
    r' = { r with current := p } := by
  unfold restoreScope at h
  simp only [hp, Option.some.injEq] at h
  exact h.symm

/-- **scopes nest lexically**: a new scope is a child of the scope that is current when it is created,
    and creating it keeps `ParentLt` -/
theorem appendScope_lexical (r : Resolver) (kind : ScopeKind) (hc : CurOk r) (h : ParentLt r)
    (hall : ∀ i, r.scopes.size ≤ i → (r.scopeAt i).parent = none) :
    ((r.appendScope kind).scopeAt r.scopes.size).parent = some r.current ∧ ParentLt (r.appendScope kind) := by
  constructor
  · simp [appendScope, scopeAt]
  · intro i p hp
    by_cases hi : i < r.scopes.size
    · have : (r.appendScope kind).scopeAt i = r.scopeAt i := by
        simp [appendScope, scopeAt, Array.getElem?_push, Nat.ne_of_lt hi]
      rw [this] at hp
      exact h i p hp
    · by_cases hi2 : i = r.scopes.size
      · subst hi2
        simp [appendScope, scopeAt] at hp
        unfold CurOk at hc; omega
      · have : (r.appendScope kind).scopeAt i = default := by
          have : ¬ i < r.scopes.size + 1 := by omega
          simp [appendScope, scopeAt, Array.getElem?_push, hi2, Array.getElem?_eq_none (by omega : r.scopes.size ≤ i)]
        rw [this] at hp
        cases hp

/-! ### positional replay = lexical nesting -/

open Replay in
/-- **C08 (replay consistency)**: code generation of any statement list, from any state in which every
    scope created so far has been entered, yields a node list whose positional replay (from the scope
    and the scope count generation started with) ends in the same scope with every new scope entered,
    whatever scopes are appended later; parents of existing scopes never change. -/
theorem replay_consistent (env : Env) (fuel : Nat) (asts : List Ast) (st st' : GenState) (nodes : List Node)
    (hinv : GenInv st) (h : (genList env fuel asts).run st = .ok (nodes, st')) :
    GenInv st' ∧ st'.r.current = st.r.current ∧ Agrees st.r.scopes st'.r.scopes ∧
    ∀ ext, Agrees st'.r.scopes ext →
      replay ext nodes st.r.current st.r.lastUsed = some (st.r.current, st'.r.lastUsed) := by
  have p := genList_post env fuel asts st nodes st' hinv h
  exact ⟨p.inv hinv, p.cur, p.agrees, p.replays⟩

open Replay in
/-- the state `Program` starts code generation in satisfies the invariant: one root scope, current, entered -/
theorem init_genInv (r : Resolver) (macros : List (String × MacroDef)) (fs : FS)
    (hs : r.scopes.size = 1) (hc : r.current = 0) (hl : r.lastUsed = 0) : GenInv ⟨r, macros, fs⟩ :=
  ⟨by show r.lastUsed + 1 = r.scopes.size; rw [hl, hs], by show r.current < r.scopes.size; rw [hc, hs]; exact Nat.one_pos⟩

open Replay in
/-- **a scope construct's body is traversed in its own child scope**: for a block `{ … }` generated in scope `c`
    when `k` scopes exist, the node list is `ScopeNode :: body ++ [PopScopeNode]`; the replay enters scope `k`,
    whose parent is `c`, traverses the body there, and returns to `c`. -/
theorem scope_body_in_child (env : Env) (fuel : Nat) (body : List Ast) (i : Tok) (st st' : GenState) (nodes : List Node)
    (hinv : GenInv st) (h : (gen env (fuel + 1) (.compound body i)).run st = .ok (nodes, st')) :
    ∃ inner, nodes = Node.scopeEnter :: inner ++ [Node.scopePop] ∧
      (st'.r.scopes.getD st.r.scopes.size default).parent = some st.r.current ∧
      ∀ ext, Agrees st'.r.scopes ext →
        replay ext inner st.r.scopes.size st.r.scopes.size = some (st.r.scopes.size, st'.r.lastUsed) := by
  have hw : RunsTo (withScope .plain id [] (genListWith (gen env fuel) body)) st nodes st' := by
    unfold gen at h; exact h
  unfold withScope at hw
  simp only [runsTo_bind, runsTo_modR, runsTo_gUseNext, runsTo_gRestore, runsTo_pure] at hw
  obtain ⟨_, st1, e1, _, st2, ⟨r2, hr2, e2⟩, _, st3, e3, inner, st4, hb, _, st5, ⟨r5, hr5, e5⟩, hn, hst⟩ := hw
  subst e1 e2 e3 e5
  obtain ⟨hsz, hag1, hpar, hc1, hl1⟩ := appendScope_spec st.r .plain
  obtain ⟨hlt, hs2, hc2, hl2⟩ := useNextScope_spec _ _ hr2
  simp only at hlt hs2 hc2 hl2
  rw [hl1] at hc2 hl2
  have hnew := hinv.last
  have hinv3 : GenInv { st with r := id r2 } :=
    ⟨by show r2.lastUsed + 1 = r2.scopes.size; rw [hl2, hs2, hsz, hnew],
     by show r2.current < r2.scopes.size; rw [hc2, hs2, hsz, hnew]; omega⟩
  have pb := genListWith_post _ (gen_good env fuel) body _ inner st4 hinv3 hb
  obtain ⟨p, hp, hs5, hc5, hl5⟩ := restoreScope_spec _ _ hr5
  refine ⟨inner, by rw [hn]; simp, ?_, ?_⟩
  · rw [hst]; show (r5.scopes.getD st.r.scopes.size default).parent = _
    rw [hs5, pb.agrees.2 _ (by show st.r.scopes.size < r2.scopes.size; rw [hs2, hsz]; omega)]
    show (r2.scopes.getD st.r.scopes.size default).parent = _
    rw [hs2]; exact hpar
  · intro ext hext
    have hext4 : Agrees st4.r.scopes ext := by
      rw [hst] at hext; show Agrees st4.r.scopes ext
      have : r5.scopes = st4.r.scopes := hs5
      rw [← this]; exact hext
    have hr := pb.replays ext hext4
    have e1 : ({ st with r := id r2 } : GenState).r.current = st.r.scopes.size := by show r2.current = _; rw [hc2, hnew]
    have e2 : ({ st with r := id r2 } : GenState).r.lastUsed = st.r.scopes.size := by show r2.lastUsed = _; rw [hl2, hnew]
    rw [e1, e2] at hr
    rw [hr, hst]; show some (st.r.scopes.size, st4.r.lastUsed) = some (st.r.scopes.size, r5.lastUsed)
    rw [hl5]

open Replay in
/-- **the label pass and the symbol pass follow the replay** (`skip` = the node classes a pass leaves out,
    never a scope marker) -/
theorem label_pass_follows_replay (env : Env) (skip : Node → Bool) (hskip : ∀ n, skip n = true → Node.isScopeMark n = false)
    (nodes : List Node) (r r' : Resolver) (pc pc' : Address) (h : passLoop env skip nodes r pc = .ok (r', pc')) :
    replay r.scopes nodes r.current r.lastUsed = some (r'.current, r'.lastUsed) :=
  (passLoop_replay env skip hskip nodes r r' pc pc' h).1

open Replay in
/-- the two `skip` predicates of `Program.resolve_labels` qualify -/
theorem pass_skips_no_scope_marker : (∀ n, Node.isSymbol n = true → Replay.Node.isScopeMark n = false) ∧
    (∀ n, Node.isLabelOrBinary n = true → Replay.Node.isScopeMark n = false) := by
  constructor <;> (intro n hn; cases n <;> first | rfl | (simp [Node.isSymbol, Node.isLabelOrBinary] at hn))

open Replay in
/-- **emission follows the replay**, one node at a time -/
theorem emission_follows_replay (env : Env) (n : Node) (r r' : Resolver) (bs : List Nat)
    (h : emitNode env n r = .ok (r', bs)) :
    replay r.scopes [n] r.current r.lastUsed = some (r'.current, r'.lastUsed) :=
  (emitNode_replay env n r r' bs h).1

/-- non-vacuity: `{ a: } { a: }` generated from the root creates scopes 1 and 2, both children of the root, and the
    replay of the node list from (0, 0) ends at (0, 2) -/
example :
    let root : ScopeRec := { kind := .plain, parent := none }
    let nodes := [Node.scopeEnter, .label "a", .scopePop, .scopeEnter, .label "a", .scopePop]
    Replay.replay #[root, { kind := .plain, parent := some 0 }, { kind := .plain, parent := some 0 }] nodes 0 0 = some (0, 2) := by
  decide

open LabelCheck LabelScopes in
/-- **isolation through a whole pass**: whatever node list a pass (label pass or symbol pass) traverses, moving between
    scopes as the markers say, the `labels` and (dot-free) `symbols` entries of scope `k` change only under names written by
    nodes that are visited *while `k` is the current scope* — definitions made in any other scope (sibling, inner, outer)
    never touch them; leaving a named scope adds only `scope.name` keys to its parent. -/
theorem pass_scope_isolation (env : Env) (skip : Node → Bool) (hskip : ∀ n, skip n = true → isMarker n = false)
    (S : Array ScopeRec) (hS : ParentsOk S) (k : Nat) (ns : List Node) (r r' : Resolver) (pc pc' : Address)
    (hag : Replay.Agrees S r.scopes) (hsz : r.scopes.size = S.size) (hc : r.current < S.size)
    (h : passLoop env skip ns r pc = .ok (r', pc')) (x : String) :
    (x ∉ namesIn labelNames skip S k ns r.current r.lastUsed →
      alookup x (r'.scopeAt k).labels = alookup x (r.scopeAt k).labels) ∧
    (x ∉ namesIn symNames skip S k ns r.current r.lastUsed → NoDot x →
      alookup x (r'.scopeAt k).symbols = alookup x (r.scopeAt k).symbols) ∧
    (r'.scopeAt k).codeSymbols = (r.scopeAt k).codeSymbols := by
  obtain ⟨kk, _, _, _, _⟩ := passLoop_keepsAt env skip hskip S hS k ns r r' pc pc' hag hsz hc h
  exact ⟨kk.labels x, kk.symbols x, kk.code⟩

/-- non-vacuity: in `{ a: } a:` the node list visits the inner `a` in scope 1 and the outer `a` in scope 0: the names
    written in scope 1 along the replay from the root are exactly `["a"]` (the inner one), those written in scope 0 `["a"]`
    (the outer one) -/
example :
    let S : Array ScopeRec := #[{ kind := .plain, parent := none }, { kind := .plain, parent := some 0 }]
    let ns := [Node.scopeEnter, .label "a", .scopePop, .label "a", .label "b"]
    LabelScopes.namesIn LabelCheck.labelNames Node.isSymbol S 1 ns 0 0 = ["a"] ∧
    LabelScopes.namesIn LabelCheck.labelNames Node.isSymbol S 0 ns 0 0 = ["a", "b"] := by
  decide

/-! ## an unrelated definition -/
open Unrel in
/-- **an unrelated definition changes no lookup**: one more symbol — or label — named `z`, added to any scope `k`, changes the
    lookup of no other name `n ≠ z`, started from any scope `c` (inside or outside `k`, an ancestor, a descendant, a sibling) -/
theorem unrelated_definition_lookup (r : Resolver) (k : Nat) (z : String) (v : Int) (n : String) (hn : n ≠ z) (c : Nat) :
    ({ withSymbol r k z v with current := c } : Resolver).valueFor n = ({ r with current := c } : Resolver).valueFor n ∧
    ({ withLabel r k z v with current := c } : Resolver).valueFor n = ({ r with current := c } : Resolver).valueFor n :=
  ⟨valueFor_withSymbol r k z v n hn c, valueFor_withLabel r k z v n hn c⟩

open Unrel in
/-- **… and the value of no expression that does not mention it**: every expression in which `z` does not occur as an
    identifier evaluates — or fails — exactly as before, whatever scope it is evaluated in -/
theorem unrelated_definition_eval (env : Env) (r : Resolver) (k : Nat) (z : String) (v : Int) (e : PExpr)
    (hz : ENode.term .identifier z ∉ e.nodes) (c : Nat) :
    evalP env ({ withSymbol r k z v with current := c } : Resolver) e = evalP env ({ r with current := c } : Resolver) e ∧
    evalP env ({ withLabel r k z v with current := c } : Resolver) e = evalP env ({ r with current := c } : Resolver) e := by
  have hne : ∀ n, ENode.term .identifier n ∈ e.nodes → n ≠ z := fun n hn hx => hz (by rw [← hx]; exact hn)
  constructor
  · unfold evalP
    apply evalTokens_congr
    intro n hn
    unfold Resolver.look
    rw [(unrelated_definition_lookup r k z v n (hne n hn) c).1]
  · unfold evalP
    apply evalTokens_congr
    intro n hn
    unfold Resolver.look
    rw [(unrelated_definition_lookup r k z v n (hne n hn) c).2]


/-- the names a definition of `z` goes by once named scopes have exported it: `z`, `s.z`, `t.s.z`, … -/
def Qual (z n : String) : Prop := n = z ∨ ∃ p, n = p ++ "." ++ z

theorem qual_closed (z : String) : ∀ s n, Qual z n → Qual z (s ++ "." ++ n) := by
  intro s n h
  rcases h with rfl | ⟨p, rfl⟩
  · exact Or.inr ⟨s, rfl⟩
  · exact Or.inr ⟨s ++ "." ++ p, by simp [String.append_assoc]⟩

open Unrel in
/-- **adding an unrelated definition does not change the output**: for every node list `a ++ b` none of whose nodes
    mentions `z` or a qualified form of it (`FreeN (Qual z)`: no expression names `z`, `s.z`, …; no label / included binary
    is called so), every position in it, every value `v` and every resolver state (any nesting of blocks, macro
    applications, loop iterations and *named scopes* around that position; each scope's symbol table holding a name once, as
    a `dict` does), the node list with one more definition `z = v` inserted there gives the writer exactly the same
    `write_block` calls — or raises the same exception — as the node list without it.  `Unrel.output` is what
    `Program.resolve_labels` followed by `Program.emit` hands to the writer (the tail of `Model/Program.assemble`). -/
theorem unrelated_definition_output (env : Env) (z : String) (v : Int) (a b : List Node)
    (hf : ∀ n ∈ a ++ b, FreeN (Qual z) n) (r : Resolver)
    (hk : ∀ i, NodupKeys (r.scopes.getD i default).symbols) :
    output env (a ++ Node.symbolConst z v :: b) r = output env (a ++ b) r :=
  output_insert (qual_closed z) env z (Or.inl rfl) v a b hf r hk

open Unrel in
/-- **… and an unrelated label can only make the assembly fail, never change its output**: with one more *label* `z:`
    inserted anywhere (same hypotheses), the writer gets exactly the same `write_block` calls, or the assembly raises — the
    label's own emission-time check ("label moved / hidden", C02) being the only new thing that can fail -/
theorem unrelated_label_output (env : Env) (z : String) (a b : List Node)
    (hf : ∀ n ∈ a ++ b, FreeN (Qual z) n) (r : Resolver)
    (hk : ∀ i, NodupKeys (r.scopes.getD i default).symbols) :
    output env (a ++ Node.label z :: b) r = output env (a ++ b) r ∨ ∃ e, output env (a ++ Node.label z :: b) r = .error e :=
  output_insert_label (qual_closed z) env z (Or.inl rfl) a b hf r hk

/-- non-vacuity: nodes that do not mention `z`; the symbol tables a fresh resolver starts with hold no name twice -/
example : Unrel.FreeN (Qual "z") (Node.ascii "hi") ∧ Unrel.FreeN (Qual "z") Node.scopeEnter ∧
    Unrel.NodupKeys ([] : List (String × Int)) ∧ Unrel.NodupKeys (ainsert "a" 1 (ainsert "b" 2 ([] : List (String × Int)))) :=
  ⟨trivial, trivial, List.nodup_nil, Unrel.nodup_ainsert _ _ _ (Unrel.nodup_ainsert _ _ _ List.nodup_nil)⟩

end A816.C08
