import A816.Proofs.Mapping
import A816.Gen.Tables
/-!
# C04 — Address mapping: offsets, mirrors and address advance obey the bus laws

Property theorems only (helper lemmas live in `Proofs/Mapping.lean`).
All statements are for every address and every increment (no bound); the built-in buses are the
ones regenerated from `/repo` (`Gen.lowRomBus`, `Gen.highRomBus`) and are inspected completely by
kernel evaluation.
-/
namespace A816.C04
open A816 Spec

/-- Every bank a bus looks up belongs to the bank range of the mapping it is looked up to. -/
def BusWF (bus : BusCfg) : Prop :=
  ∀ b m, bus.mappingForBank b = some m → m.lo ≤ b ∧ b ≤ m.hi

/-- executable version of `BusWF` over the finitely many keys of the lookup dict -/
def busWFb (bus : BusCfg) : Bool :=
  bus.lookup.all fun (b, ident) =>
    match alookup ident bus.mappings with
    | some m => decide (m.lo ≤ b ∧ b ≤ m.hi)
    | none => true

theorem alookup_mem {α β} [BEq α] [LawfulBEq α] {k : α} {v : β} {l : List (α × β)}
    (h : alookup k l = some v) : (k, v) ∈ l := by
  induction l with
  | nil => simp [alookup] at h
  | cons hd tl ih =>
    obtain ⟨k', v'⟩ := hd
    unfold alookup at h
    split at h
    · rename_i heq
      have : k' = k := by simpa using heq
      cases h; subst this; simp
    · exact List.mem_cons_of_mem _ (ih h)

theorem busWF_of_b (bus : BusCfg) (h : busWFb bus = true) : BusWF bus := by
  intro b m hm
  unfold BusCfg.mappingForBank at hm
  split at hm
  · cases hm
  · rename_i ident hid
    have hmem := alookup_mem hid
    unfold busWFb at h
    rw [List.all_eq_true] at h
    have := h _ hmem
    simp only [hm] at this
    simpa using this

/-! ## 1. translation: ROM offset formula, RAM, unmapped -/

/-- A ROM logical address translates to `(bank − first bank of its range) × bank size + position in the window`. -/
theorem phys_formula (bus : BusCfg) (wf : BusWF bus) (v : Int) (A : Address)
    (hmk : Address.mk? bus v = some A) (hrom : A.mapping.RomWF) (hwin : inWindow A.mapping.mask A.logical) :
    A.physical = some ((Spec.offset A.mapping.range A.logical : Nat) : Int) := by
  obtain ⟨hwf, hbus, _⟩ := Address.mk?_wf hmk
  unfold Address.WF at hwf
  rw [hbus, shr16] at hwf
  have := (wf _ _ hwf).1
  exact Mapping.physicalAddress_eq_offset _ hrom _ this hwin

/-- RAM banks have no file offset. -/
theorem ram_none (A : Address) (h : A.mapping.ram = true) : A.physical = none :=
  Mapping.physicalAddress_ram _ h _

/-- Unmapped banks (and negative addresses) are rejected. -/
theorem unmapped_rejected (bus : BusCfg) (v : Int)
    (h : v < 0 ∨ bus.mappingForBank (v.toNat >>> 16) = none) : Address.mk? bus v = none := by
  unfold Address.mk?
  rcases h with h | h
  · simp [h]
  · split
    · rfl
    · simp [h]

/-- A mirror bank translates to the same offset as its primary bank: the offset depends only on the
    distance of the bank from the first bank of its own range. -/
theorem mirror_same (p q : Mapping) (hp : p.RomWF) (hq : q.RomWF) (hmask : p.mask = q.mask)
    (a : Nat) (hlo : p.lo ≤ bankOf a) (hwin : inWindow p.mask a) :
    q.physicalAddress (a - p.lo * 0x10000 + q.lo * 0x10000) = p.physicalAddress a := by
  have hlo' : p.lo * 0x10000 ≤ a := by unfold bankOf at hlo; omega
  rw [Mapping.physicalAddress_eq_offset p hp a hlo hwin,
      Mapping.physicalAddress_eq_offset q hq]
  · congr 2
    unfold Spec.offset Mapping.range bankOf inBank windowStart at *
    simp only [hmask]
    have e1 : (a - p.lo * 65536 + q.lo * 65536) / 65536 - q.lo = a / 65536 - p.lo := by omega
    have e2 : (a - p.lo * 65536 + q.lo * 65536) % 65536 = a % 65536 := by omega
    rw [e1, e2]
  · unfold bankOf at *; omega
  · unfold inWindow inBank windowStart at *; rw [← hmask]; omega

/-! ## 2. advancing an address -/

/-- Advancing a ROM address by `n` yields the address whose file offset is `n` larger, looked up to
    the same mapping (hence the same primary/mirror range) and inside the bank window — provided the
    bank reached is still looked up to that mapping ("stays inside the mapped range"). -/
theorem add_rom (A : Address) (hA : A.WF) (hrom : A.mapping.RomWF) (p n : Nat)
    (hp : A.physical = some (p : Int))
    (hstay : A.bus.mappingForBank ((Spec.address A.mapping.range (p + n)) >>> 16) = some A.mapping) :
    ∃ A', A.add n = some A' ∧ A'.WF ∧ A'.bus = A.bus ∧ A'.mapping = A.mapping ∧
      A'.logical = Spec.address A.mapping.range (p + n) ∧
      A'.physical = some ((p + n : Nat) : Int) ∧ inWindow A.mapping.mask A'.logical := by
  unfold Address.WF at hA
  unfold Address.physical at hp
  have hmask := hrom.2
  have hm0 : A.mapping.mask ≠ 0 := by rcases hmask with h | h <;> omega
  have hla := Mapping.logicalAddress_eq_address A.mapping hmask (p + n)
  have hoa := Spec.offset_address A.mapping.range hmask (p + n)
  refine ⟨⟨A.bus, Spec.address A.mapping.range (p + n), A.mapping⟩, ?_, ?_, rfl, rfl, rfl, ?_, hoa.2.2⟩
  · unfold Address.add
    simp only [hA, hp, hm0, ↓reduceIte]
    have : ¬ ((p : Int) + (n : Int) < 0) := by omega
    simp only [this, ↓reduceIte]
    have e : ((p : Int) + (n : Int)).toNat = p + n := by omega
    rw [e, hla]
    unfold Address.mk?
    have : ¬ (((Spec.address A.mapping.range (p + n) : Nat) : Int) < 0) := by omega
    simp only [this, ↓reduceIte, Int.toNat_natCast, hstay]
  · simpa [Address.WF] using hstay
  · show A.mapping.physicalAddress _ = _
    rw [Mapping.physicalAddress_eq_offset A.mapping hrom _ (by rw [hoa.2.1]; exact Nat.le_add_right _ _) hoa.2.2, hoa.1]

/-- For RAM, advancing adds `n` to the logical address. -/
theorem add_ram (A : Address) (hA : A.WF) (hram : A.mapping.ram = true) (n : Nat) (m' : Mapping)
    (hstay : A.bus.mappingForBank ((A.logical + n) >>> 16) = some m') :
    A.add n = some ⟨A.bus, A.logical + n, m'⟩ := by
  unfold Address.WF at hA
  unfold Address.add
  simp only [hA, Mapping.physicalAddress_ram _ hram]
  unfold Address.mk?
  have : ¬ (((A.logical : Int) + (n : Int)) < 0) := by omega
  have e : ((A.logical : Int) + (n : Int)).toNat = A.logical + n := by omega
  simp only [this, ↓reduceIte, e, hstay]

/-- Advancing by 0 is the identity on in-window ROM addresses. -/
theorem add_zero (A : Address) (hA : A.WF) (wf : BusWF A.bus) (hrom : A.mapping.RomWF)
    (hwin : inWindow A.mapping.mask A.logical) :
    (A.add 0).map Address.logical = some A.logical := by
  unfold Address.WF at hA
  have hlo : A.mapping.lo ≤ bankOf A.logical := by
    have := (wf _ _ hA).1; rwa [shr16] at this
  have hp : A.physical = some ((Spec.offset A.mapping.range A.logical : Nat) : Int) :=
    Mapping.physicalAddress_eq_offset _ hrom _ hlo hwin
  have hback := Spec.address_offset A.mapping.range hrom.2 A.logical hlo hwin
  have hstay : A.bus.mappingForBank ((Spec.address A.mapping.range (Spec.offset A.mapping.range A.logical + 0)) >>> 16) = some A.mapping := by
    rw [Nat.add_zero, hback]; exact hA
  obtain ⟨A', h1, _, _, _, h5, _⟩ := add_rom A hA hrom _ 0 hp hstay
  rw [h1]; simp [h5, hback]

/-- ... and gives back the very same address object (bus, cached mapping and value). -/
theorem add_zero_same (A : Address) (hA : A.WF) (wf : BusWF A.bus) (hrom : A.mapping.RomWF)
    (hwin : inWindow A.mapping.mask A.logical) : A.add 0 = some A := by
  have hA' := hA
  unfold Address.WF at hA
  have hlo : A.mapping.lo ≤ bankOf A.logical := by
    have := (wf _ _ hA).1; rwa [shr16] at this
  have hp : A.physical = some ((Spec.offset A.mapping.range A.logical : Nat) : Int) :=
    Mapping.physicalAddress_eq_offset _ hrom _ hlo hwin
  have hback := Spec.address_offset A.mapping.range hrom.2 A.logical hlo hwin
  have hstay : A.bus.mappingForBank ((Spec.address A.mapping.range (Spec.offset A.mapping.range A.logical + 0)) >>> 16) = some A.mapping := by
    rw [Nat.add_zero, hback]; exact hA
  obtain ⟨A', h1, _, h3, h4, h5, _⟩ := add_rom A hA' hrom _ 0 hp hstay
  rw [h1]
  congr 1
  obtain ⟨b, l, m⟩ := A
  obtain ⟨b', l', m'⟩ := A'
  simp only at h3 h4 h5 hback
  simp only [Nat.add_zero, hback] at h5
  subst h3 h4 h5
  rfl

/-- a RAM address advanced by 0 is itself -/
theorem add_zero_ram (A : Address) (hA : A.WF) (hram : A.mapping.ram = true) : A.add 0 = some A := by
  have := add_ram A hA hram 0 A.mapping (by simpa [Address.WF] using hA)
  simpa using this

/-- Advancing by `m` then by `n` equals advancing by `m + n` (both steps staying in the mapped range). -/
theorem add_add (A : Address) (hA : A.WF) (hrom : A.mapping.RomWF) (p m n : Nat)
    (hp : A.physical = some (p : Int))
    (hstay1 : A.bus.mappingForBank ((Spec.address A.mapping.range (p + m)) >>> 16) = some A.mapping)
    (hstay2 : A.bus.mappingForBank ((Spec.address A.mapping.range (p + m + n)) >>> 16) = some A.mapping) :
    ((A.add m).bind (·.add n)).map Address.logical = (A.add (m + n)).map Address.logical := by
  obtain ⟨A1, h1, w1, b1, m1, _, p1, _⟩ := add_rom A hA hrom p m hp hstay1
  have hrom1 : A1.mapping.RomWF := by rw [m1]; exact hrom
  have hstay2' : A1.bus.mappingForBank ((Spec.address A1.mapping.range (p + m + n)) >>> 16) = some A1.mapping := by
    rw [b1, m1]; exact hstay2
  obtain ⟨A2, h2, _, _, _, l2, _, _⟩ := add_rom A1 w1 hrom1 (p + m) n p1 hstay2'
  have hstay3 : A.bus.mappingForBank ((Spec.address A.mapping.range (p + (m + n))) >>> 16) = some A.mapping := by
    rw [← Nat.add_assoc]; exact hstay2
  obtain ⟨A3, h3, _, _, _, l3, _, _⟩ := add_rom A hA hrom p (m + n) hp hstay3
  rw [h1, h3]; simp only [Option.bind_some, Option.map_some, h2, l2, l3, m1, Nat.add_assoc]

/-! ## 3. the built-in buses (regenerated from the code) -/

theorem low_wf : BusWF Gen.lowRomBus := busWF_of_b _ (by decide +kernel)
theorem high_wf : BusWF Gen.highRomBus := busWF_of_b _ (by decide +kernel)

/-- all mappings of a bus are either RAM or ROM with one of the two window sizes; a `<id>_mirror`
    mapping has the same size and kind as `<id>` and covers no more banks -/
def mappingsOk (bus : BusCfg) : Bool :=
  bus.mappings.all fun (ident, m) =>
    (m.ram || m.mask == 0x8000 || m.mask == 0x10000) && m.lo ≤ m.hi &&
    (match alookup (ident ++ "_mirror") bus.mappings with
     | some q => q.mask == m.mask && q.ram == m.ram && decide (q.hi - q.lo ≤ m.hi - m.lo)
     | none => true)

theorem low_mappings_ok : mappingsOk Gen.lowRomBus = true := by decide +kernel
theorem high_mappings_ok : mappingsOk Gen.highRomBus = true := by decide +kernel

/-- LoROM uses 32 KiB windows, HiROM whole banks (every ROM mapping of the built-in buses). -/
theorem low_is_32k : Gen.lowRomBus.mappings.all (fun (_, m) => m.ram || m.mask == 0x8000) = true := by
  decide +kernel
theorem high_is_64k : Gen.highRomBus.mappings.all (fun (_, m) => m.ram || m.mask == 0x10000) = true := by
  decide +kernel

/-- SNES work RAM (banks 7E–7F) is RAM on both built-in buses: no file offset. -/
theorem builtin_wram :
    ([Gen.lowRomBus, Gen.highRomBus].all fun bus => Spec.wramBanks.all fun b =>
      match bus.mappingForBank b with | some m => m.ram | none => false) = true := by decide +kernel

/-- The built-in buses are frozen (`.map` cannot edit them). -/
theorem builtin_frozen : Gen.lowRomBus.editable = false ∧ Gen.highRomBus.editable = false := by
  decide +kernel

/-- Every bank of the 24-bit space is classified on each built-in bus exactly as the SNES memory map of
    `Spec.loRomBank` / `Spec.hiRomBank` says (pinned to what the assembler supports today). -/
def kindOf : Option Mapping → Option BankKind
  | none => none
  | some m => if m.ram then some .ram else some (.rom m.range)
def expectLow (b : Nat) : Option Mapping :=
  if b ≤ 0x6F then some ⟨0x00, 0x6F, 0x8000, false⟩
  else if 0x7E ≤ b ∧ b ≤ 0x7F then some ⟨0x7E, 0x7F, 0x10000, true⟩
  else if 0x80 ≤ b ∧ b ≤ 0xCF then some ⟨0x80, 0xCF, 0x8000, false⟩
  else none
def expectHigh (b : Nat) : Option Mapping :=
  if 0x40 ≤ b ∧ b ≤ 0x7D then some ⟨0x40, 0x7F, 0x10000, false⟩
  else if 0x7E ≤ b ∧ b ≤ 0x7F then some ⟨0x7E, 0x7F, 0x10000, true⟩
  else if 0xC0 ≤ b ∧ b ≤ 0xFF then some ⟨0xC0, 0xFF, 0x10000, false⟩
  else none

theorem low_kinds : (List.range 300).all (fun b => kindOf (Gen.lowRomBus.mappingForBank b) == Spec.loRomBank b) = true := by
  decide +kernel
theorem high_kinds : (List.range 300).all (fun b => kindOf (Gen.highRomBus.mappingForBank b) == Spec.hiRomBank b) = true := by
  decide +kernel
theorem low_banks : (List.range 300).all (fun b => Gen.lowRomBus.mappingForBank b == expectLow b) = true := by
  decide +kernel
theorem high_banks : (List.range 300).all (fun b => Gen.highRomBus.mappingForBank b == expectHigh b) = true := by
  decide +kernel

/-! ## non-vacuity: the hypotheses are met by concrete addresses (the repository's own test values) -/

example : busPhys Gen.lowRomBus 0x12FFFF = some (some 0x097FFF) := by decide +kernel
example : busAdd Gen.lowRomBus 0x12FFFF 1 = some 0x138000 := by decide +kernel
example : busPhys Gen.lowRomBus 0x138000 = some (some 0x098000) := by decide +kernel
example : busPhys Gen.lowRomBus 0x928000 = busPhys Gen.lowRomBus 0x128000 := by decide +kernel
example : busPhys Gen.lowRomBus 0x7E0000 = some none := by decide +kernel
example : busPhys Gen.lowRomBus 0x700000 = none := by decide +kernel
example : busPhys Gen.highRomBus 0xC00000 = some (some 0) := by decide +kernel
example : (⟨0x00, 0x6F, 0x8000, false⟩ : Mapping).RomWF := by decide

end A816.C04
