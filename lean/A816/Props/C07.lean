import A816.Model.Codegen
import A816.Proofs.Cpu
/-!
# C07 — Data directives emit the exact little-endian bytes of their values

For every directive kind, every list and every integer value (negative = two's complement, wider
than the field = truncated): the bytes of `.db/.dw/.dl/.pointer` are the little-endian bytes of
`value mod 256^w` (w = 1, 2, 3, 3), one group per listed expression, in order; `.ascii` emits the
ASCII code points of the text; `.incbin` emits the file verbatim and defines its start and size
symbols; each occupies exactly its emitted size in the address layout.
-/
namespace A816.C07
open A816

/-- width of a data directive -/
def widthOf (kind : String) : Nat := if kind == "db" then 1 else if kind == "dw" then 2 else 3

theorem leBytes_length (w v : Nat) : (leBytes w v).length = w := by
  induction w generalizing v with
  | zero => rfl
  | succ w ih => simp [leBytes, ih]

/-- little-endian decoding recovers the value modulo 256^w -/
theorem leBytes_decode (w v : Nat) : decodeLE (leBytes w v) = v % 256 ^ w := by
  induction w generalizing v with
  | zero => simp [leBytes, decodeLE, Nat.mod_one]
  | succ w ih =>
    simp only [leBytes, decodeLE, ih]
    rw [Nat.pow_succ, Nat.mul_comm (256 ^ w) 256, Nat.mod_mul]

theorem leBytes_lt (w v : Nat) : ∀ b ∈ leBytes w v, b < 256 := by
  induction w generalizing v with
  | zero => simp [leBytes]
  | succ w ih =>
    intro b hb
    simp only [leBytes, List.mem_cons] at hb
    rcases hb with rfl | hb
    · omega
    · exact ih _ b hb

/-- **one data item**: its bytes are the little-endian truncation of its value, for every value;
    the resolver is untouched. -/
theorem data_bytes (env : Env) (w : Nat) (e : PExpr) (info : Tok) (r r' : Resolver) (bs : List Nat)
    (h : emitNode env (.data w e info) r = .ok (r', bs)) :
    r' = r ∧ ∃ v : Int, getValue env r e info = .ok v ∧ bs = leBytes w (v % ((256 ^ w : Nat) : Int)).toNat ∧
      decodeLE bs = (v % ((256 ^ w : Nat) : Int)).toNat := by
  unfold emitNode at h
  cases hv : getValue env r e info with
  | error er => simp [hv] at h
  | ok v =>
    simp only [hv, Except.ok.injEq, Prod.mk.injEq] at h
    obtain ⟨rfl, rfl⟩ := h
    refine ⟨rfl, v, rfl, rfl, ?_⟩
    rw [leBytes_decode]
    have hpos : (0 : Int) < ((256 ^ w : Nat) : Int) := by
      have : 0 < 256 ^ w := Nat.pow_pos (by decide)
      omega
    have h1 := Int.emod_nonneg v (Int.ne_of_gt hpos)
    have h2 := Int.emod_lt_of_pos v hpos
    apply Nat.mod_eq_of_lt
    omega

/-- negative values are emitted in two's complement: `-1` as a word is `FF FF` -/
example : leBytes 2 ((-1 : Int) % ((256 ^ 2 : Nat) : Int)).toNat = [0xFF, 0xFF] := by decide
example : leBytes 3 ((0x12345678 : Int) % ((256 ^ 3 : Nat) : Int)).toNat = [0x78, 0x56, 0x34] := by decide

/-- **layout**: a data item occupies exactly its width: the label pass advances the address by `w`
    (`Address + w`) and emission produces `w` bytes. -/
theorem data_size_agree (env : Env) (w : Nat) (e : PExpr) (info : Tok) (r r1 r2 : Resolver) (pc pc' : Address)
    (bs : List Nat) (hp : pcAfter env (.data w e info) r pc = .ok (r1, pc'))
    (he : emitNode env (.data w e info) r2 = .ok (r2, bs)) :
    r1 = r ∧ pc.add w = some pc' ∧ bs.length = w := by
  unfold pcAfter at hp
  unfold addrAdd at hp
  cases ha : pc.add w with
  | none => simp [ha, Except.map] at hp
  | some a =>
    simp only [ha, Except.map, Except.ok.injEq, Prod.mk.injEq] at hp
    obtain ⟨h1, h2⟩ := hp
    obtain ⟨_, v, _, hb, _⟩ := data_bytes env w e info r2 r2 bs he
    exact ⟨h1.symm, by rw [h2], by rw [hb, leBytes_length]⟩

/-- **`.ascii`**: the ASCII code points of the text, in order (non-ASCII characters are dropped, as
    `encode("ascii", errors="ignore")` does); the same list gives its size in the layout. -/
theorem ascii_bytes (env : Env) (s : String) (r : Resolver) :
    emitNode env (.ascii s) r = .ok (r, (s.toList.filter fun c => c.toNat < 128).map Char.toNat) := rfl

theorem ascii_size_agree (env : Env) (s : String) (r r1 : Resolver) (pc pc' : Address)
    (hp : pcAfter env (.ascii s) r pc = .ok (r1, pc')) :
    r1 = r ∧ pc.add (asciiBytes s).length = some pc' := by
  unfold pcAfter addrAdd at hp
  cases ha : pc.add (asciiBytes s).length with
  | none => simp [ha, Except.map] at hp
  | some a =>
    simp only [ha, Except.map, Except.ok.injEq, Prod.mk.injEq] at hp
    exact ⟨hp.1.symm, by rw [hp.2]⟩

/-- **`.incbin`**: the file's bytes verbatim (when the start symbol still sits at its address) … -/
theorem incbin_bytes (env : Env) (content : List Nat) (base : String) (r r' : Resolver) (bs : List Nat)
    (h : emitNode env (.binary content base) r = .ok (r', bs)) : r' = r ∧ bs = content := by
  unfold emitNode at h
  cases hc : checkLabel r base r.reloc with
  | error e => simp [hc, Except.map] at h
  | ok u =>
    simp only [hc, Except.map, Except.ok.injEq, Prod.mk.injEq] at h
    exact ⟨h.1.symm, h.2.symm⟩

/-- … and the label pass defines `<name>` = start address, `<name>__size` = length, advancing by the length. -/
theorem incbin_symbols (env : Env) (content : List Nat) (base : String) (r r1 : Resolver) (pc pc' : Address)
    (h : pcAfter env (.binary content base) r pc = .ok (r1, pc')) :
    pc.add content.length = some pc' ∧
    r1 = (r.addLabel base pc.logical).addSymbol (base ++ "__size") content.length := by
  unfold pcAfter addrAdd at h
  cases ha : pc.add content.length with
  | none => simp [ha] at h
  | some a =>
    simp only [ha, Except.ok.injEq, Prod.mk.injEq] at h
    exact ⟨by rw [h.2], h.1.symm⟩

/-- code generation: one data node per listed expression, in order, all of the directive's width
    (`.pointer` = `.dl`). -/
theorem gen_data (env : Env) (fuel : Nat) (kind : String) (es : List PExpr) (info : Tok) (st : GenState) :
    (gen env (fuel + 1) (.data kind es info)).run st
      = .ok (es.map (fun e => Node.data (widthOf kind) e info), st) := by
  simp [gen, widthOf, StateT.run, pure, StateT.pure, Except.pure]

example : widthOf "db" = 1 ∧ widthOf "dw" = 2 ∧ widthOf "dl" = 3 ∧ widthOf "pointer" = 3 := by decide

end A816.C07
