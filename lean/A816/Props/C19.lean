import A816.Model.Program
import A816.Gen.Tables
/-!
# C19 — Assemblies are independent of each other and repeatable

In the model an assembly is a pure function of (tables, mapping, files, defines, source): there is no
state for one assembly to leave behind.  The property for the *code* is therefore the frame condition
"an assembly does not change the shared process state `G`", and what follows from it:

* `history_irrelevant`: for any state machine whose steps leave the shared state unchanged, the result
  of a probe after any history equals its result on the initial state; `repeatable` likewise.
* `assemble_pure`: the model's `assemble` takes no process state at all (same arguments, same outcome).

The frame condition for the implementation is *observed* by the S19 monitor (every object of
`Gen.globals` is fingerprinted before and after each assembly) — it is not proved.
-/
namespace A816.C19
open A816

variable {G I O : Type}

/-- run a history, returning the final shared state and the outputs -/
def runHistory (step : G → I → G × O) : G → List I → G × List O
  | g, [] => (g, [])
  | g, i :: is =>
    let (g1, o) := step g i
    let (g2, os) := runHistory step g1 is
    (g2, o :: os)

theorem frame_run (step : G → I → G × O) (frame : ∀ g i, (step g i).1 = g) (g : G) (h : List I) :
    (runHistory step g h).1 = g := by
  induction h generalizing g with
  | nil => rfl
  | cons i is ih =>
    simp only [runHistory]
    rw [show (step g i).1 = g from frame g i] at *
    have := ih (step g i).1
    rw [frame g i] at this
    simpa [frame g i] using this

/-- **history irrelevance**: after any history the probe gives what it gives alone -/
theorem history_irrelevant (step : G → I → G × O) (frame : ∀ g i, (step g i).1 = g) (g : G) (h : List I) (p : I) :
    (step (runHistory step g h).1 p).2 = (step g p).2 := by
  rw [frame_run step frame g h]

/-- **repeatable**: assembling the same input twice gives identical results -/
theorem repeatable (step : G → I → G × O) (frame : ∀ g i, (step g i).1 = g) (g : G) (p : I) :
    (step (step g p).1 p).2 = (step g p).2 := by
  rw [frame g p]

/-- the model's assembler as a step of such a machine: the shared state is the (immutable) tables -/
def modelStep (t : Tables) (i : RomType × FS × List (String × Int) × String) : Tables × Outcome :=
  (t, assemble t i.1 i.2.1 "main.s" i.2.2.1 i.2.2.2)

theorem model_frame (t : Tables) (i : RomType × FS × List (String × Int) × String) : (modelStep t i).1 = t := rfl

/-- the built-in buses cannot be edited by an assembly (`.map` on them raises): regenerated from the code -/
theorem builtin_buses_frozen : Gen.lowRomBus.editable = false ∧ Gen.highRomBus.editable = false := by decide +kernel

theorem frozen_bus_rejects_map (b : BusCfg) (h : b.editable = false) (ident : String) (lo hi mask : Nat) (ram : Bool)
    (mirror : Option (Nat × Nat)) : b.map ident lo hi mask ram mirror = none := by
  simp [BusCfg.map, h]

end A816.C19
