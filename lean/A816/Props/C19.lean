import A816.Model.Program
import A816.Gen.Tables
import A816.Proofs.LabelScopesEmit
/-!
# C19 — Assemblies are independent of each other and repeatable

In the model an assembly is a pure function of (tables, mapping, files, defines, source): there is no
state for one assembly to leave behind.  The property for the *code* is therefore the frame condition
"an assembly does not change the shared process state `G`", and what follows from it:

* `history_irrelevant`: for any state machine whose steps leave the shared state unchanged, the result
  of a probe after any history equals its result on the initial state; `repeatable` likewise.
* `assemble_pure`: the model's `assemble` takes no process state at all (same arguments, same outcome).

The frame condition for the implementation is *observed* by the S19 monitor (every object of
`Gen.globals` is fingerprinted before and after each assembly) — it is not proved.
-/
namespace A816.C19
open A816

variable {G I O : Type}

/-- run a history, returning the final shared state and the outputs -/
def runHistory (step : G → I → G × O) : G → List I → G × List O
  | g, [] => (g, [])
  | g, i :: is =>
    let (g1, o) := step g i
    let (g2, os) := runHistory step g1 is
    (g2, o :: os)

theorem frame_run (step : G → I → G × O) (frame : ∀ g i, (step g i).1 = g) (g : G) (h : List I) :
    (runHistory step g h).1 = g := by
  induction h generalizing g with
  | nil => rfl
  | cons i is ih =>
    simp only [runHistory]
    rw [show (step g i).1 = g from frame g i] at *
    have := ih (step g i).1
    rw [frame g i] at this
    simpa [frame g i] using this

/-- **history irrelevance**: after any history the probe gives what it gives alone -/
theorem history_irrelevant (step : G → I → G × O) (frame : ∀ g i, (step g i).1 = g) (g : G) (h : List I) (p : I) :
    (step (runHistory step g h).1 p).2 = (step g p).2 := by
  rw [frame_run step frame g h]

/-- **repeatable**: assembling the same input twice gives identical results -/
theorem repeatable (step : G → I → G × O) (frame : ∀ g i, (step g i).1 = g) (g : G) (p : I) :
    (step (step g p).1 p).2 = (step g p).2 := by
  rw [frame g p]

/-- the model's assembler as a step of such a machine: the shared state is the (immutable) tables -/
def modelStep (t : Tables) (i : RomType × FS × List (String × Int) × String) : Tables × Outcome :=
  (t, assemble t i.1 i.2.1 "main.s" i.2.2.1 i.2.2.2)

theorem model_frame (t : Tables) (i : RomType × FS × List (String × Int) × String) : (modelStep t i).1 = t := rfl

/-- the built-in buses cannot be edited by an assembly (`.map` on them raises): regenerated from the code -/
theorem builtin_buses_frozen : Gen.lowRomBus.editable = false ∧ Gen.highRomBus.editable = false := by decide +kernel

theorem frozen_bus_rejects_map (b : BusCfg) (h : b.editable = false) (ident : String) (lo hi mask : Nat) (ram : Bool)
    (mirror : Option (Nat × Nat)) : b.map ident lo hi mask ram mirror = none := by
  simp [BusCfg.map, h]

/-! ## emission is repeatable on one resolver

`Program.emit` moves the resolver's position (`pc`, `reloc_address`) and replays the scopes (`current_scope`,
`last_used_scope`); it changes nothing else — no symbol, label or table of any scope, no bus.  Putting the four
position fields back therefore gives back exactly the resolver the emission started from, and a second emission of the
same node list writes the same blocks (what `resolver_reset()` + `emit` does for a tool that writes two files from one
resolved program; `resolver_reset` restores three of the four fields, the fourth is set by the program's first `*=`). -/

/-- `r'` is `r` up to the four position fields -/
def PosOnly (r r' : Resolver) : Prop :=
  r' = { r with pc := r'.pc, reloc := r'.reloc, current := r'.current, lastUsed := r'.lastUsed }

theorem PosOnly.refl (r : Resolver) : PosOnly r r := by cases r; rfl

theorem PosOnly.trans {a b c : Resolver} (h1 : PosOnly a b) (h2 : PosOnly b c) : PosOnly a c := by
  unfold PosOnly at *
  rw [h2, h1]

theorem posOnly_setPosition (r r' : Resolver) (v : Int) (h : r.setPosition v = some r') : PosOnly r r' := by
  unfold Resolver.setPosition at h
  split at h
  · cases h
  · split at h
    · cases h
    · simp only [Option.some.injEq] at h
      subst h
      cases r; rfl

theorem posOnly_useNextScope (r r' : Resolver) (h : r.useNextScope = some r') : PosOnly r r' := by
  unfold Resolver.useNextScope at h
  split at h
  · simp only [Option.some.injEq] at h; subst h; cases r; rfl
  · cases h

theorem posOnly_restoreScope (r r' : Resolver) (h : r.restoreScope false = some r') : PosOnly r r' := by
  unfold Resolver.restoreScope at h
  simp only [] at h
  split at h
  · cases h
  · simp only [Option.some.injEq] at h; subst h; cases r; rfl

/-- what a node's `emit` leaves of the resolver: everything but the position -/
theorem emitNode_posOnly (env : Env) (n : Node) (r r' : Resolver) (bs : List Nat) (h : emitNode env n r = .ok (r', bs)) :
    PosOnly r r' := by
  have keep : ∀ {α} (x : Except Err α) (f : α → Resolver × List Nat), (∀ a, (f a).1 = r) → x.map f = .ok (r', bs) → PosOnly r r' := by
    intro α x f hf hx
    cases x with
    | error e => cases hx
    | ok a =>
      simp only [Except.map, Except.ok.injEq] at hx
      have h2 := hf a
      rw [hx] at h2
      have h3 : r' = r := h2
      rw [h3]; exact PosOnly.refl _
  cases n with
  | label name => exact keep _ _ (fun _ => rfl) h
  | symbol _ _ => simp only [emitNode, Except.ok.injEq, Prod.mk.injEq] at h; rw [← h.1]; exact PosOnly.refl _
  | argSymbol _ _ => simp only [emitNode, Except.ok.injEq, Prod.mk.injEq] at h; rw [← h.1]; exact PosOnly.refl _
  | symbolConst _ _ => simp only [emitNode, Except.ok.injEq, Prod.mk.injEq] at h; rw [← h.1]; exact PosOnly.refl _
  | binary content base => exact keep _ _ (fun _ => rfl) h
  | includeIps _ => simp only [emitNode, Except.ok.injEq, Prod.mk.injEq] at h; rw [← h.1]; exact PosOnly.refl _
  | table => simp only [emitNode, Except.ok.injEq, Prod.mk.injEq] at h; rw [← h.1]; exact PosOnly.refl _
  | ascii _ => simp only [emitNode, Except.ok.injEq, Prod.mk.injEq] at h; rw [← h.1]; exact PosOnly.refl _
  | text s tbl info => exact keep _ _ (fun _ => rfl) h
  | scopeEnter =>
    simp only [emitNode] at h
    split at h
    · rename_i r2 hr2
      simp only [Except.ok.injEq, Prod.mk.injEq] at h
      rw [← h.1]; exact posOnly_useNextScope r r2 hr2
    · cases h
  | scopePop =>
    simp only [emitNode] at h
    split at h
    · rename_i r2 hr2
      simp only [Except.ok.injEq, Prod.mk.injEq] at h
      rw [← h.1]; exact posOnly_restoreScope r r2 hr2
    · cases h
  | codePos e info =>
    simp only [emitNode] at h
    split at h
    · cases h
    · split at h
      · rename_i r2 hr2
        simp only [Except.ok.injEq, Prod.mk.injEq] at h
        rw [← h.1]; exact posOnly_setPosition r r2 _ hr2
      · cases h
  | reloc e info =>
    simp only [emitNode] at h
    split at h
    · cases h
    · split at h
      · rename_i r2 hr2
        simp only [Except.ok.injEq, Prod.mk.injEq] at h
        rw [← h.1]; exact posOnly_setPosition r r2 _ hr2
      · cases h
  | data w e info =>
    simp only [emitNode] at h
    split at h
    · cases h
    · simp only [Except.ok.injEq, Prod.mk.injEq] at h; rw [← h.1]; exact PosOnly.refl _
  | opcode mn size mode index value info =>
    have hr : r' = r := by
      simp only [emitNode] at h
      repeat' split at h
      all_goals first
        | (cases h; done)
        | (cases h; rfl)
        | (simp only [Except.map] at h; split at h <;> first | (cases h; done) | (cases h; rfl) | (simp only [Except.ok.injEq, Prod.mk.injEq] at h; exact h.1.symm))
        | (simp only [Except.ok.injEq, Prod.mk.injEq] at h; exact h.1.symm)
    rw [hr]; exact PosOnly.refl _

theorem emitStep_posOnly (env : Env) (n : Node) (st st' : EmitState) (h : emitStep env n st = .ok st') :
    PosOnly st.r st'.r := by
  obtain ⟨r1, bs, hem, hrest⟩ := emitStep_spec env n st st' h
  have p1 := emitNode_posOnly env n st.r r1 bs hem
  cases bs with
  | nil => rw [hrest.2.1 rfl]; exact p1
  | cons b t =>
    obtain ⟨a', _, hr⟩ := hrest.2.2.1 (by simp)
    rw [hr]
    refine PosOnly.trans p1 ?_
    unfold PosOnly
    rfl

theorem emitLoop_posOnly (env : Env) : ∀ (ns : List Node) (st st' : EmitState), emitLoop env ns st = .ok st' →
    PosOnly st.r st'.r := by
  intro ns
  induction ns with
  | nil => intro st st' h; simp only [emitLoop, Except.ok.injEq] at h; rw [← h]; exact PosOnly.refl _
  | cons n ns ih =>
    intro st st' h
    simp only [emitLoop] at h
    split at h
    · cases h
    · rename_i st1 h1
      exact PosOnly.trans (emitStep_posOnly env n st st1 h1) (ih st1 st' h)

/-- **a second emission repeats the first**: after emitting a node list, the resolver with its four position fields put
    back is the resolver the emission started from — no scope, symbol, label, table or bus was touched — so emitting
    the same node list again from it gives the same writes, the same trace and the same final state (or the same error) -/
theorem second_emission_repeats (env : Env) (ns : List Node) (st st' : EmitState) (h : emitLoop env ns st = .ok st') :
    emitLoop env ns { st with r := { st'.r with pc := st.r.pc, reloc := st.r.reloc, current := st.r.current, lastUsed := st.r.lastUsed } } = .ok st' := by
  have hp := emitLoop_posOnly env ns st st' h
  have : ({ st'.r with pc := st.r.pc, reloc := st.r.reloc, current := st.r.current, lastUsed := st.r.lastUsed } : Resolver) = st.r := by
    unfold PosOnly at hp
    rw [hp]
  rw [this]
  exact h

/-! ### …and `resolver_reset()` is enough when the program starts with `*=` -/

/-- forget the ghost trace -/
def noTrace (s : EmitState) : EmitState := { s with trace := [] }

/-- the ghost trace never influences anything else: one step -/
theorem emitStep_noTrace (env : Env) (n : Node) (st : EmitState) :
    (emitStep env n st).map noTrace = (emitStep env n (noTrace st)).map noTrace := by
  unfold emitStep
  simp only [noTrace]
  cases emitNode env n st.r with
  | error e => rfl
  | ok p =>
    obtain ⟨r1, bs⟩ := p
    simp only []
    by_cases hb : bs.isEmpty = true
    · simp only [hb, ↓reduceIte]
      cases hc : n.isCodePos <;> cases hbl : st.block.isEmpty <;> cases n <;> simp_all [noTrace, Except.map, Node.isCodePos]
    · simp only [hb]
      cases addrAdd r1.reloc bs.length with
      | error e => rfl
      | ok a' =>
        simp only []
        cases hc : n.isCodePos <;> cases hbl : (st.block ++ bs).isEmpty <;> cases n <;> simp_all [noTrace, Except.map, Node.isCodePos]

theorem emitLoop_noTrace (env : Env) : ∀ (ns : List Node) (st : EmitState),
    (emitLoop env ns st).map noTrace = (emitLoop env ns (noTrace st)).map noTrace := by
  intro ns
  induction ns with
  | nil => intro st; simp [emitLoop, Except.map, noTrace]
  | cons n ns ih =>
    intro st
    have hs := emitStep_noTrace env n st
    simp only [emitLoop]
    cases h1 : emitStep env n st with
    | error e =>
      rw [h1] at hs
      cases h2 : emitStep env n (noTrace st) with
      | error e2 => rw [h2] at hs; simp only [Except.map, Except.error.injEq] at hs; subst hs; rfl
      | ok s2 => rw [h2] at hs; simp [Except.map] at hs
    | ok s1 =>
      rw [h1] at hs
      cases h2 : emitStep env n (noTrace st) with
      | error e2 => rw [h2] at hs; simp [Except.map] at hs
      | ok s2 =>
        rw [h2] at hs
        simp only [Except.map, Except.ok.injEq] at hs
        simp only []
        rw [ih s1, ih s2, hs]

/-- a `*=` does not look at where the resolver was: with an empty current block, the step from a resolver whose run
    address is anything gives the same state (ghost trace apart) -/
theorem emitStep_codePos_reloc (env : Env) (e : PExpr) (info : Tok) (st : EmitState) (x : Address) (hb : st.block = []) :
    (emitStep env (.codePos e info) { st with r := { st.r with reloc := x } }).map noTrace =
      (emitStep env (.codePos e info) st).map noTrace := by
  have hv : getValue env { st.r with reloc := x } e info = getValue env st.r e info := rfl
  unfold emitStep
  simp only [emitNode, hv]
  cases getValue env st.r e info with
  | error er => rfl
  | ok v =>
    simp only []
    have hsp : Resolver.setPosition { st.r with reloc := x } v = st.r.setPosition v := by
      unfold Resolver.setPosition
      have hg : Resolver.getBus { st.r with reloc := x } = st.r.getBus := rfl
      rw [hg]
    rw [hsp]
    cases st.r.setPosition v with
    | none => rfl
    | some r1 =>
      simp [noTrace, Except.map, Node.isCodePos, hb]

/-- **`resolver_reset()` then `emit` repeats the emission of a program that starts with `*=`**: for every node list
    that begins with a position node, emitted from a reset resolver (`pc`, `current_scope`, `last_used_scope` at their
    initial values) with no open block: emitting it again after `resolver_reset()` — which leaves the run address where
    the first emission ended — gives the same `write_block` calls, the same final resolver, the same open block (the
    ghost trace apart), or fails the same way. -/
theorem second_emission_after_reset (env : Env) (e : PExpr) (info : Tok) (ns : List Node) (st st' : EmitState)
    (h : emitLoop env (.codePos e info :: ns) st = .ok st')
    (h0 : st.r.pc = 0 ∧ st.r.current = 0 ∧ st.r.lastUsed = 0) (hb : st.block = []) :
    (emitLoop env (.codePos e info :: ns) { st with r := resolverReset st'.r }).map noTrace = .ok (noTrace st') := by
  have hp := emitLoop_posOnly env _ st st' h
  have hr : resolverReset st'.r = { st.r with reloc := st'.r.reloc } := by
    unfold PosOnly at hp
    rw [hp]
    unfold resolverReset
    obtain ⟨h1, h2, h3⟩ := h0
    cases hst : st.r
    rw [hst] at h1 h2 h3
    simp only at h1 h2 h3
    subst h1 h2 h3
    rfl
  rw [hr]
  have hstep := emitStep_codePos_reloc env e info st st'.r.reloc hb
  simp only [emitLoop] at h ⊢
  cases h1 : emitStep env (.codePos e info) st with
  | error er => rw [h1] at h; cases h
  | ok s1 =>
    rw [h1] at h hstep
    simp only [] at h
    cases h2 : emitStep env (.codePos e info) { st with r := { st.r with reloc := st'.r.reloc } } with
    | error er => rw [h2] at hstep; simp [Except.map] at hstep
    | ok s2 =>
      rw [h2] at hstep
      simp only [Except.map, Except.ok.injEq] at hstep
      simp only []
      rw [emitLoop_noTrace env ns s2, hstep, ← emitLoop_noTrace env ns s1, h]
      rfl

/-- non-vacuity: an emission that returns and really moves position fields (a scope entered and left) -/
example : ((emitLoop (⟨fun _ => none, []⟩ : Env) [.scopeEnter, .scopePop]
      { (default : EmitState) with r := { (default : Resolver) with scopes := #[{ kind := .plain, parent := none }, { kind := .plain, parent := some 0 }] } }).toOption.map
        fun s => (s.r.lastUsed, s.r.current)) = some (1, 0) := by decide +kernel

end A816.C19
