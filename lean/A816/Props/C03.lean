import A816.Proofs.Emit
import A816.Props.C04
/-!
# C03 — Output holds exactly the emitted bytes at their mapped ROM offsets

On the model of `Program.emit` (every node list, every resolver state):

* `writes_are_trace`: the blocks handed to the writer for the program's own bytes, flattened, are exactly
  the bytes emitted by the statements, in source order, each node's bytes contiguous at the storage
  offset current when it was emitted — nothing else is written.
* `star_eq_moves_both`: `*=` closes the pending block and restarts at the mapped offset of its target,
  which also becomes the run address.  `at_eq_moves_logical_only`: `@=` changes the run address only;
  the pending block and its offset are untouched, so following code is stored contiguously.
* `sync_step`: while no `@=` intervenes, "storage offset = mapped offset of the run address" is kept by
  every byte-emitting statement (bank crossing included: C04 `add_rom`).
-/
namespace A816.C03
open A816

/-- **Exactly the emitted bytes, contiguous, in order, at the storage offsets.** -/
theorem writes_are_trace (env : Env) (nodes : List Node) (r : Resolver) (st : EmitState)
    (h : emitAll env nodes r = .ok st) : flatW st.own = traceFlat st.trace := by
  unfold emitAll at h
  cases hl : emitLoop env nodes ⟨r, [], r.pc, [], [], []⟩ with
  | error e => simp [hl] at h
  | ok s =>
    simp only [hl, Except.ok.injEq] at h
    have hinv : WritesInv s := emitLoop_writesInv env nodes _ s hl (by simp [WritesInv, flatW, placed, traceFlat])
    unfold WritesInv at hinv
    by_cases hb : s.block.isEmpty = true
    · simp only [hb, ↓reduceIte] at h
      subst h
      have : s.block = [] := by simpa using hb
      rw [← hinv, flatW_append, this]; simp [flatW, placed]
    · simp only [hb, Bool.false_eq_true, ↓reduceIte] at h
      subst h
      exact hinv

/-- each trace record is one node: its run address, its storage offset, its bytes -/
theorem trace_records (env : Env) (n : Node) (st st' : EmitState) (h : emitStep env n st = .ok st') :
    ∃ bs, st'.trace = st.trace ++ [⟨st.r.reloc.logical, st.blockAddr + st.block.length, bs⟩] ∧
      ∃ r1, emitNode env n st.r = .ok (r1, bs) := by
  obtain ⟨r1, bs, h1, h2, _⟩ := emitStep_spec env n st st' h
  exact ⟨bs, h2, r1, h1⟩

theorem setPosition_spec (r r' : Resolver) (v : Int) (h : r.setPosition v = some r') :
    ∃ bus a, r.getBus = some bus ∧ Address.mk? bus v = some a ∧ r'.reloc = a ∧
      (∀ p, a.physical = some p → r'.pc = p) ∧ (a.physical = none → r'.pc = r.pc) ∧
      r'.scopes = r.scopes ∧ r'.current = r.current := by
  unfold Resolver.setPosition at h
  cases hb : r.getBus with
  | none => simp [hb] at h
  | some bus =>
    simp only [hb] at h
    cases ha : Address.mk? bus v with
    | none => simp [ha] at h
    | some a =>
      simp only [ha, Option.some.injEq] at h
      subst h
      refine ⟨bus, a, rfl, ha, rfl, ?_, ?_, rfl, rfl⟩
      · intro p hp; simp [hp]
      · intro hp; simp [hp]

/-- **`*=` moves both**: the pending block is handed to the writer (if non-empty), a new block starts at
    `resolver.pc`, the run address is the target, and when the target is ROM-mapped `resolver.pc` — hence
    the new block's offset — is the target's mapped offset. -/
theorem star_eq_moves_both (env : Env) (e : PExpr) (info : Tok) (st st' : EmitState)
    (h : emitStep env (.codePos e info) st = .ok st') :
    ∃ v : Int, getValue env st.r e info = .ok v ∧ (st'.r.reloc.logical : Int) = v ∧
      st'.block = [] ∧ st'.blockAddr = st'.r.pc ∧
      (∀ p, st'.r.reloc.physical = some p → st'.blockAddr = p) ∧
      st'.own = (if st.block.isEmpty then st.own else st.own ++ [(st.blockAddr, st.block)]) := by
  obtain ⟨r1, bs, hem, _, hnil, _, _, hc⟩ := emitStep_spec env _ st st' h
  unfold emitNode at hem
  cases hv : getValue env st.r e info with
  | error er => simp [hv] at hem
  | ok v =>
    simp only [hv] at hem
    cases hs : st.r.setPosition v with
    | none => simp [hs] at hem
    | some r' =>
      simp only [hs, Except.ok.injEq, Prod.mk.injEq] at hem
      obtain ⟨rfl, rfl⟩ := hem
      obtain ⟨bus, a, _, hmk, hrel, hpc, _, _, _⟩ := setPosition_spec _ _ _ hs
      obtain ⟨hb, ha, ho⟩ := hc rfl
      have hr : st'.r = r' := hnil rfl
      obtain ⟨_, _, hlog⟩ := Address.mk?_wf hmk
      refine ⟨v, rfl, ?_, hb, ha, ?_, ?_⟩
      · rw [hr, hrel]; exact hlog
      · intro p hp
        rw [ha, hr]
        rw [hr, hrel] at hp
        exact hpc p hp
      · simpa using ho

/-- **`@=` moves the run address only**: pending block, its offset and the blocks already handed over
    are unchanged; the run address is the target. -/
theorem at_eq_moves_logical_only (env : Env) (e : PExpr) (info : Tok) (st st' : EmitState)
    (h : emitStep env (.reloc e info) st = .ok st') :
    ∃ v : Int, getValue env st.r e info = .ok v ∧ (st'.r.reloc.logical : Int) = v ∧
      st'.block = st.block ∧ st'.blockAddr = st.blockAddr ∧ st'.own = st.own := by
  obtain ⟨r1, bs, hem, _, hnil, _, hnc, _⟩ := emitStep_spec env _ st st' h
  unfold emitNode at hem
  cases hv : getValue env st.r e info with
  | error er => simp [hv] at hem
  | ok v =>
    simp only [hv] at hem
    cases hs : st.r.setPosition v with
    | none => simp [hs] at hem
    | some r' =>
      simp only [hs, Except.ok.injEq, Prod.mk.injEq] at hem
      obtain ⟨rfl, rfl⟩ := hem
      obtain ⟨bus, a, _, hmk, hrel, _, _, _, _⟩ := setPosition_spec _ _ _ hs
      obtain ⟨hb, ha, ho⟩ := hnc rfl
      have hr : st'.r = r' := hnil rfl
      obtain ⟨_, _, hlog⟩ := Address.mk?_wf hmk
      exact ⟨v, rfl, by rw [hr, hrel]; exact hlog, by simpa using hb, ha, ho⟩

/-- "the pending bytes end at the mapped offset of the run address" -/
def Sync (st : EmitState) : Prop :=
  st.r.reloc.physical = some (st.blockAddr + (st.block.length : Int))

/-- right after `*=` to a ROM-mapped target the invariant holds -/
theorem sync_after_star_eq (env : Env) (e : PExpr) (info : Tok) (st st' : EmitState)
    (h : emitStep env (.codePos e info) st = .ok st') (p : Int) (hp : st'.r.reloc.physical = some p) : Sync st' := by
  obtain ⟨v, _, _, hb, _, hpp, _⟩ := star_eq_moves_both env e info st st' h
  unfold Sync
  rw [hb, hpp p hp, hp]; simp

/-- **contiguity across statements and banks**: a statement that emits bytes and is neither `*=` nor `@=`
    keeps the invariant, provided the advance stays in the mapped range (C04 `add_rom`): the next
    statement's bytes go to the mapped offset of *its* run address, also when the run address wrapped
    to the next bank's window start. -/
theorem sync_step (env : Env) (n : Node) (st st' : EmitState) (h : emitStep env n st = .ok st')
    (hn : n.isCodePos = false) (r1 : Resolver) (bs : List Nat) (hem : emitNode env n st.r = .ok (r1, bs))
    (hbs : bs ≠ []) (hsame : r1.reloc = st.r.reloc)
    (hwf : st.r.reloc.WF) (hrom : st.r.reloc.mapping.RomWF) (p : Nat)
    (hsync : st.r.reloc.physical = some (p : Int)) (hp : (p : Int) = st.blockAddr + st.block.length)
    (hstay : st.r.reloc.bus.mappingForBank ((Spec.address st.r.reloc.mapping.range (p + bs.length)) >>> 16)
        = some st.r.reloc.mapping) :
    Sync st' := by
  obtain ⟨r1', bs', hem', _, _, hne, hnc, _⟩ := emitStep_spec env n st st' h
  rw [hem] at hem'
  simp only [Except.ok.injEq, Prod.mk.injEq] at hem'
  obtain ⟨rfl, rfl⟩ := hem'
  obtain ⟨a', ha', hr'⟩ := hne hbs
  obtain ⟨hb, hba, _⟩ := hnc hn
  obtain ⟨A', hadd, _, _, _, _, hphys, _⟩ := C04.add_rom st.r.reloc hwf hrom p bs.length hsync hstay
  rw [hsame, hadd] at ha'
  cases ha'
  unfold Sync
  rw [hr', hb, hba]
  simp only [List.length_append]
  rw [hphys]
  congr 1
  push_cast
  omega

end A816.C03
