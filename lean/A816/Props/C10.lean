import A816.Model.Codegen
/-!
# C10 — Conditional and loop directives equal the hand-expanded program

On the code-generation model (`generate_if`, `generate_for`), for every condition, every bound and
every body:

* `.if` generates exactly the nodes of its first block when the condition evaluates to non-zero
  (negative included), exactly those of its else block — or nothing — when it evaluates to zero or
  when the evaluation raises `SymbolNotDefined` / `KeyError` (an undefined name counts as false);
  the chosen block is generated in the current scope (no scope is opened), i.e. as if its
  statements were written in place.  Any other evaluation error propagates (the directive never
  silently picks a branch).
* `.for v := a, b` generates, for `k = a, a+1, …, b−1` in that order, a fresh internal scope
  (`scopeEnter … scopePop`) that first binds `v = k` and then holds the nodes of the body; nothing
  when `b ≤ a`.
-/
namespace A816.C10
open A816

/-- run a generator from a state -/
abbrev runG {α} (m : GM α) (st : GenState) : Except Err (α × GenState) := m.run st

theorem if_true (env : Env) (fuel : Nat) (c : PExpr) (t : List Ast) (e : Option (List Ast)) (i : Tok)
    (st : GenState) (v : Int) (hv : evalP env st.r c = .ok v) (hne : v ≠ 0) :
    runG (gen env (fuel + 1) (.ifNode c t e i)) st = runG (genList env fuel t) st := by
  have hb : (v != 0) = true := by simpa using hne
  simp [runG, gen, genList, StateT.run, bind, StateT.bind, get, getThe, MonadStateOf.get, StateT.get, pure, StateT.pure,
    Except.bind, Except.pure, hv, hb]

theorem if_false (env : Env) (fuel : Nat) (c : PExpr) (t : List Ast) (e : Option (List Ast)) (i : Tok)
    (st : GenState) (hv : evalP env st.r c = .ok 0) :
    runG (gen env (fuel + 1) (.ifNode c t e i)) st =
      match e with
      | some eb => runG (genList env fuel eb) st
      | none => .ok ([], st) := by
  cases e <;>
  simp [runG, gen, genList, StateT.run, bind, StateT.bind, get, getThe, MonadStateOf.get, StateT.get, pure, StateT.pure,
    Except.bind, Except.pure, hv]

/-- an undefined name in the condition counts as false -/
theorem if_undefined (env : Env) (fuel : Nat) (c : PExpr) (t : List Ast) (e : Option (List Ast)) (i : Tok)
    (st : GenState) (hv : (∃ x, evalP env st.r c = .error (.symbolNotDefined x)) ∨ evalP env st.r c = .error .key) :
    runG (gen env (fuel + 1) (.ifNode c t e i)) st =
      match e with
      | some eb => runG (genList env fuel eb) st
      | none => .ok ([], st) := by
  rcases hv with ⟨x, hv⟩ | hv <;> cases e <;>
  simp [runG, gen, genList, StateT.run, bind, StateT.bind, get, getThe, MonadStateOf.get, StateT.get, pure, StateT.pure,
    Except.bind, Except.pure, hv]

/-- every other evaluation error propagates: the directive does not pick a branch -/
theorem if_error_propagates (env : Env) (fuel : Nat) (c : PExpr) (t : List Ast) (e : Option (List Ast)) (i : Tok)
    (st : GenState) (er : Err) (hv : evalP env st.r c = .error er) (h1 : er ≠ .key)
    (h2 : ∀ x, er ≠ .symbolNotDefined x) :
    runG (gen env (fuel + 1) (.ifNode c t e i)) st = .error er := by
  cases er <;>
  simp_all [runG, gen, StateT.run, bind, StateT.bind, get, getThe, MonadStateOf.get, StateT.get, pure, StateT.pure,
    Except.bind, Except.pure, throw, throwThe, MonadExceptOf.throw, StateT.lift, liftM, monadLift, MonadLift.monadLift]

/-- one loop iteration: a fresh internal scope, entered, that binds the variable and holds the body -/
def iteration (env : Env) (fuel : Nat) (sym : String) (body : List Ast) (k : Int) : GM (List Node) :=
  iterationWith (gen env fuel) sym body k

/-- shape of one iteration -/
theorem iteration_shape (env : Env) (fuel : Nat) (sym : String) (body : List Ast) (k : Int) (st st' : GenState)
    (ns : List Node) (h : runG (iteration env fuel sym body k) st = .ok (ns, st')) :
    ∃ inner, ns = Node.scopeEnter :: Node.symbolConst sym k :: inner ++ [Node.scopePop] := by
  simp only [runG, iteration, iterationWith, StateT.run, bind, StateT.bind, pure, StateT.pure, Except.bind, Except.pure] at h
  cases h1 : modR (fun r => r.appendScope .internal) st with
  | error e => simp [h1] at h
  | ok p1 =>
    simp only [h1] at h
    cases h2 : gUseNext p1.2 with
    | error e => simp [h2] at h
    | ok p2 =>
      simp only [h2] at h
      cases h3 : genListWith (gen env fuel) body p2.2 with
      | error e => simp [h3] at h
      | ok p3 =>
        simp only [h3] at h
        cases h4 : gRestore false p3.2 with
        | error e => simp [h4] at h
        | ok p4 =>
          simp only [h4, Except.ok.injEq, Prod.mk.injEq] at h
          exact ⟨p3.1, h.1.symm⟩

/-- **`.for` unrolls**: both bounds are evaluated in the current scope; then one iteration for each
    `k = a, a+1, …, b−1` in increasing order (none when `b ≤ a`), concatenated -/
theorem for_unrolls (env : Env) (fuel : Nat) (sym : String) (lo hi : PExpr) (body : List Ast) (i : Tok)
    (st : GenState) (a b : Int) (ha : evalP env st.r lo = .ok a) (hb : evalP env st.r hi = .ok b) :
    runG (gen env (fuel + 1) (.forNode sym lo hi body i)) st =
      runG (do
        let parts ← (List.range (b - a).toNat).mapM fun (j : Nat) => iteration env fuel sym body (a + (j : Nat))
        pure parts.flatten) st := by
  simp [runG, gen, gEval, iteration, StateT.run, bind, StateT.bind, get, getThe, MonadStateOf.get, StateT.get, pure,
    StateT.pure, Except.bind, Except.pure, ha, hb]

theorem for_count_zero (a b : Int) (h : b ≤ a) : (b - a).toNat = 0 := by omega
theorem for_count_eq (a b : Int) (h : a ≤ b) : ((b - a).toNat : Int) = b - a := by omega

/-- nothing at all is generated when `b ≤ a` -/
theorem for_empty (env : Env) (fuel : Nat) (sym : String) (lo hi : PExpr) (body : List Ast) (i : Tok)
    (st : GenState) (a b : Int) (ha : evalP env st.r lo = .ok a) (hb : evalP env st.r hi = .ok b) (hle : b ≤ a) :
    runG (gen env (fuel + 1) (.forNode sym lo hi body i)) st = .ok ([], st) := by
  rw [for_unrolls env fuel sym lo hi body i st a b ha hb, for_count_zero a b hle]
  simp [runG, StateT.run, bind, StateT.bind, pure, StateT.pure, Except.bind, Except.pure]

end A816.C10
