import A816.Model.Table
import A816.Spec.Table
/-!
# C18 — Table-encoded text follows the table (longest match) and occupies its emitted size

For **every** table and **every** string: the descending search of `Table.to_bytes`, bounded by
`min(len(text), max_text_length)`, finds exactly the longest table text that is a prefix of what
remains (`tryLen_longest`), hence `to_bytes` is the reference longest-match encoder
(`toBytes_is_encode`).  The size the directive is given in the address layout is `len(to_bytes(text))`
by construction (`AbstractTextNode.pc_after`), see C02.

**Decode round trip** (`roundtrip`): over a table whose codes are unique, non-empty, prefix-free and without
`ignore` suffixes (`Decodable`), `to_text` of the concatenated codes of any sequence of entries returns the
concatenation of their texts — the descending byte-length search finds exactly the code that was emitted,
because any longer matching code would have that code as a proper prefix.

**Composition** (`toBytesAux_entries`, `decode_encode`, `C18_roundtrip_file`): what `to_bytes` emits for a string
without `[` *is* the concatenated codes of a sequence of table entries whose texts are the string minus the characters
that start no entry; hence `to_text (to_bytes s) = s` for every string whose characters are each a table text, over every
table file with unique, non-empty, prefix-free codes — whichever longer entries the encoder matched on the way.
-/
namespace A816.C18
open A816 Spec.Table

def linesOf (es : List TblEntry) : List Line := es.map fun e => (e.text, e.code)

theorem codeOf_lines (es : List TblEntry) (text : List Char) :
    codeOf (linesOf es) text = tblLookup es text := by
  unfold codeOf tblLookup linesOf
  rw [← List.map_reverse]
  induction es.reverse with
  | nil => simp
  | cons e r ih =>
    simp only [List.map_cons, List.find?_cons]
    by_cases h : (e.text == text) = true
    · simp [h]
    · simp only [h]
      exact ih

/-- the reference descending search is correct: it returns the longest matching prefix length ≤ k -/
theorem longestFrom_spec (tbl : List Line) (s : List Char) (k : Nat) (hk : k ≤ s.length) :
    (∀ c n, longestFrom tbl s k = some (c, n) →
        1 ≤ n ∧ n ≤ k ∧ codeOf tbl (s.take n) = some c ∧ ∀ m, n < m → m ≤ k → codeOf tbl (s.take m) = none) ∧
    (longestFrom tbl s k = none → ∀ m, 1 ≤ m → m ≤ k → codeOf tbl (s.take m) = none) := by
  induction k with
  | zero => simp [longestFrom]; intro m h1 h2; omega
  | succ k ih =>
    obtain ⟨ih1, ih2⟩ := ih (by omega)
    unfold longestFrom
    cases hc : codeOf tbl (s.take (k + 1)) with
    | some c =>
      refine ⟨?_, by simp⟩
      intro c' n h
      simp only [Option.some.injEq, Prod.mk.injEq] at h
      obtain ⟨rfl, rfl⟩ := h
      exact ⟨by omega, by omega, hc, fun m h1 h2 => by omega⟩
    | none =>
      refine ⟨?_, ?_⟩
      · intro c n h
        obtain ⟨a, b, c', d⟩ := ih1 c n h
        refine ⟨a, by omega, c', ?_⟩
        intro m h1 h2
        by_cases hm : m = k + 1
        · subst hm; exact hc
        · exact d m h1 (by omega)
      · intro h m h1 h2
        by_cases hm : m = k + 1
        · subst hm; exact hc
        · exact ih2 h m h1 (by omega)

/-- `Spec.longest` satisfies its declarative specification -/
theorem longest_isLongest (tbl : List Line) (s : List Char) :
    (∀ c n, longest tbl s = some (c, n) → IsLongest tbl s n c) ∧ (longest tbl s = none → NoMatch tbl s) := by
  obtain ⟨h1, h2⟩ := longestFrom_spec tbl s s.length (Nat.le_refl _)
  refine ⟨?_, h2⟩
  intro c n h
  obtain ⟨a, b, c', d⟩ := h1 c n h
  exact ⟨a, b, c', d⟩

/-- Searching from any bound that covers every table text gives the same answer as searching from
    the full length: texts longer than `maxLen` do not exist, and slices beyond the end repeat the whole rest. -/
theorem tryLen_eq_longestFrom (es : List TblEntry) (rem : List Char) (k : Nat) :
    tryLen es rem k = longestFrom (linesOf es) rem k := by
  induction k with
  | zero => rfl
  | succ k ih =>
    unfold tryLen longestFrom
    rw [codeOf_lines]
    cases tblLookup es (rem.take (k + 1)) <;> simp [ih]

theorem tblLookup_len (es : List TblEntry) (text : List Char) (c : List Nat) (h : tblLookup es text = some c) :
    text.length ≤ (es.map (·.text.length)).foldl max 0 := by
  unfold tblLookup at h
  simp only [Option.map_eq_some_iff] at h
  obtain ⟨e, he, _⟩ := h
  have hmem : e ∈ es := by
    have := List.mem_of_find?_eq_some he
    simpa using this
  have htext : e.text = text := by
    have := List.find?_some he
    simpa using this
  rw [← htext]
  have key : ∀ (l : List Nat) (init x : Nat), x ∈ l → x ≤ l.foldl max init := by
    intro l
    induction l with
    | nil => intro init x h; simp at h
    | cons a l ih =>
      intro init x h
      simp only [List.foldl_cons]
      rcases List.mem_cons.mp h with rfl | h
      · have mono : ∀ (l : List Nat) (i : Nat), i ≤ l.foldl max i := by
          intro l; induction l with
          | nil => intro i; simp
          | cons b l ih2 => intro i; simp only [List.foldl_cons]; exact Nat.le_trans (Nat.le_max_left i b) (ih2 _)
        exact Nat.le_trans (Nat.le_max_right init x) (mono l _)
      · exact ih _ _ h
  exact key _ 0 _ (List.mem_map_of_mem hmem)

/-- going down from a larger bound to `k` finds nothing new when nothing longer than `k` can match -/
theorem longestFrom_shrink (tbl : List Line) (s : List Char) (k j : Nat)
    (hnone : ∀ m, k < m → m ≤ k + j → codeOf tbl (s.take m) = none) :
    longestFrom tbl s (k + j) = longestFrom tbl s k := by
  induction j with
  | zero => rfl
  | succ j ih =>
    have : k + (j + 1) = (k + j) + 1 := by omega
    rw [this]
    conv => lhs; unfold longestFrom
    rw [hnone (k + j + 1) (by omega) (by omega)]
    exact ih (fun m h1 h2 => hnone m h1 (by omega))

/-- what a match does to the walk: the code emitted and the string that remains -/
def eff (s : List Char) (r : Option (List Nat × Nat)) : Option (List Nat × List Char) :=
  r.map fun (c, n) => (c, s.drop n)

/-- slices beyond the end of the string are the whole string: searching from a bound past the end has
    the same effect as searching from the end -/
theorem longestFrom_over (tbl : List Line) (s : List Char) (hne : s ≠ []) (j : Nat) :
    eff s (longestFrom tbl s (s.length + j)) = eff s (longestFrom tbl s s.length) := by
  induction j with
  | zero => rfl
  | succ j ih =>
    have : s.length + (j + 1) = (s.length + j) + 1 := by omega
    rw [this]
    conv => lhs; unfold longestFrom
    have htake : s.take (s.length + j + 1) = s := List.take_of_length_le (by omega)
    rw [htake]
    cases hc : codeOf tbl s with
    | none => exact ih
    | some c =>
      -- the whole rest is a key: the search from the end finds it at once (or the string is empty)
      cases hs : s with
      | nil => exact absurd hs hne
      | cons a r =>
        have hl : s.length = r.length + 1 := by rw [hs]; rfl
        rw [← hs]
        simp only [eff, Option.map_some]
        rw [hl]
        unfold longestFrom
        have : s.take (r.length + 1) = s := List.take_of_length_le (by omega)
        rw [this, hc]
        simp only [Option.map_some, Option.some.injEq, Prod.mk.injEq, true_and]
        rw [List.drop_of_length_le (by omega), List.drop_of_length_le (by omega)]

/-- **The search of `to_bytes` is the longest match** on the remainder, for any remainder of the text
    (same code emitted, same string left). -/
theorem tryLen_longest (t : Tbl) (textLen : Nat) (rem : List Char)
    (hmax : t.maxTextLen = (t.entries.map (·.text.length)).foldl max 0) (hlen : rem.length ≤ textLen)
    (hne : rem ≠ []) :
    eff rem (tryLen t.entries rem (min textLen t.maxTextLen)) = eff rem (longest (linesOf t.entries) rem) := by
  rw [tryLen_eq_longestFrom]
  unfold longest
  by_cases hcase : rem.length ≤ t.maxTextLen
  · -- the bound reaches past the end of the remainder
    obtain ⟨j, hj⟩ : ∃ j, min textLen t.maxTextLen = rem.length + j := ⟨min textLen t.maxTextLen - rem.length, by omega⟩
    rw [hj]; exact longestFrom_over _ _ hne _
  · -- the bound is max_text_length: no longer slice can be a table text
    have hk : min textLen t.maxTextLen = t.maxTextLen := by omega
    obtain ⟨j, hj⟩ : ∃ j, rem.length = t.maxTextLen + j := ⟨rem.length - t.maxTextLen, by omega⟩
    rw [hk]
    conv => rhs; rw [hj]
    congr 1
    symm
    apply longestFrom_shrink
    intro m h1 h2
    rw [codeOf_lines]
    cases hl : tblLookup t.entries (rem.take m) with
    | none => rfl
    | some c =>
      exfalso
      have h3 := tblLookup_len _ _ _ hl
      rw [List.length_take] at h3
      have hM : t.maxTextLen = (t.entries.map (·.text.length)).foldl max 0 := hmax
      omega

/-- `mkTable` computes `max_text_length` as the theorem assumes -/
theorem mkTable_max (lines : List (List Char)) (t : Tbl) (h : mkTable lines = .ok t) :
    t.maxTextLen = (t.entries.map (·.text.length)).foldl max 0 := by
  unfold mkTable at h
  split at h
  · cases h
  · cases h
  · cases h; rfl

theorem spanHex_eq (cs : List Char) :
    (spanChars isHexChar cs).1.filterMap digitVal = (takeHex cs).1 ∧ (spanChars isHexChar cs).2 = (takeHex cs).2 ∧
    ((spanChars isHexChar cs).1.isEmpty = (takeHex cs).1.isEmpty) ∧
    (spanChars isHexChar cs).1.length = (takeHex cs).1.length := by
  induction cs with
  | nil => simp [spanChars, takeHex]
  | cons c cs ih =>
    have hv : Spec.Table.hexVal c = digitVal c := rfl
    unfold spanChars takeHex
    cases hd : digitVal c with
    | none => simp [isHexChar, hd, hv]
    | some d =>
      obtain ⟨i1, i2, i3, i4⟩ := ih
      simp [isHexChar, hd, hv, i1, i2, i4]

theorem parseDigits_hex (cs : List Char) (acc : Nat) (hall : ∀ c ∈ cs, isHexChar c = true) :
    parseDigits 16 cs acc = some ((cs.filterMap digitVal).foldl (fun a d => a * 16 + d) acc) := by
  induction cs generalizing acc with
  | nil => simp [parseDigits]
  | cons c cs ih =>
    have hc := hall c (by simp)
    unfold isHexChar at hc
    cases hd : digitVal c with
    | none => simp [hd] at hc
    | some d =>
      have hlt : d < 16 := by
        unfold digitVal at hd
        split at hd
        · rename_i h; cases hd; have := h.2; have : c.toNat ≤ 57 := this; omega
        · split at hd
          · rename_i h; cases hd; have : c.toNat ≤ 102 := h.2; omega
          · split at hd
            · rename_i h; cases hd; have : c.toNat ≤ 70 := h.2; omega
            · cases hd
      simp only [parseDigits, hd, hlt, ↓reduceIte, List.filterMap_cons, List.foldl_cons]
      exact ih _ (fun x hx => hall x (List.mem_cons_of_mem _ hx))

theorem spanChars_all (p : Char → Bool) (cs : List Char) : ∀ c ∈ (spanChars p cs).1, p c = true := by
  induction cs with
  | nil => simp [spanChars]
  | cons c cs ih =>
    unfold spanChars
    by_cases h : p c = true
    · simp only [h, ↓reduceIte]; intro x hx
      rcases List.mem_cons.mp hx with rfl | hx
      · exact h
      · exact ih x hx
    · simp [h]

/-- the hand-written recogniser of `joker_regex` is the reference escape -/
theorem jokerMatch_eq_escape (rem : List Char) : jokerMatch rem = escape rem := by
  unfold jokerMatch escape
  by_cases h3 : rem.take 3 = ['[', '0', 'x']
  · simp only [h3, ↓reduceIte]
    obtain ⟨h1, h2, h3', h4⟩ := spanHex_eq (rem.drop 3)
    have hall := spanChars_all isHexChar (rem.drop 3)
    rw [h3', h2]
    by_cases he : (takeHex (rem.drop 3)).1.isEmpty = true
    · simp [he]
    · simp only [he, Bool.false_eq_true, ↓reduceIte]
      by_cases hb : (takeHex (rem.drop 3)).2.head? = some ']'
      · simp only [hb, ↓reduceIte, parseDigits_hex _ 0 hall, h1, h4, Option.map_some]
      · simp [hb]
  · simp [h3]

theorem tryLen_pos (es : List TblEntry) (rem : List Char) (k : Nat) (c : List Nat) (n : Nat)
    (h : tryLen es rem k = some (c, n)) : 1 ≤ n := by
  induction k with
  | zero => simp [tryLen] at h
  | succ k ih =>
    unfold tryLen at h
    cases hl : tblLookup es (rem.take (k + 1)) with
    | some c' => simp [hl] at h; omega
    | none => simp only [hl] at h; exact ih h

theorem toOption_cons (x : Except Err (List Nat)) (v : Nat) :
    (match x with | .error e => (.error e : Except Err (List Nat)) | .ok r => .ok (v :: r)).toOption
      = x.toOption.map (fun r => v :: r) := by
  cases x <;> rfl
theorem toOption_append (x : Except Err (List Nat)) (pre : List Nat) :
    (match x with | .error e => (.error e : Except Err (List Nat)) | .ok r => .ok (pre ++ r)).toOption
      = x.toOption.map (fun r => pre ++ r) := by
  cases x <;> rfl

/-- **`to_bytes` is the reference longest-match encoder**, for every table and every string. -/
theorem toBytesAux_is_encode (t : Tbl) (textLen : Nat)
    (hmax : t.maxTextLen = (t.entries.map (·.text.length)).foldl max 0) (fuel : Nat) :
    ∀ (rem : List Char), rem.length ≤ textLen → rem.length ≤ fuel →
      (toBytesAux t textLen fuel rem).toOption = encode (linesOf t.entries) fuel rem := by
  induction fuel with
  | zero =>
    intro rem _ h0
    have : rem = [] := by cases rem <;> simp_all
    subst this; simp [toBytesAux, encode, Except.toOption]
  | succ f ih =>
    intro rem hlen hf
    unfold toBytesAux encode
    by_cases he : rem.isEmpty = true
    · simp [he, Except.toOption]
    · simp only [he, Bool.false_eq_true, ↓reduceIte]
      have hne : rem ≠ [] := by intro h; subst h; simp at he
      have hpos : 0 < rem.length := List.length_pos_iff.mpr hne
      rw [← jokerMatch_eq_escape]
      cases hj : jokerMatch rem with
      | some vn =>
        obtain ⟨v, n⟩ := vn
        simp only
        by_cases hv : v > 255
        · simp [hv, Except.toOption]
        · simp only [hv, ↓reduceIte]
          have hn : 1 ≤ n := by
            unfold jokerMatch at hj
            split at hj
            · simp only at hj
              split at hj
              · cases hj
              · split at hj
                · simp only [Option.map_eq_some_iff, Prod.mk.injEq] at hj
                  obtain ⟨_, _, _, h⟩ := hj; omega
                · cases hj
            · cases hj
          have ihd := ih (rem.drop n) (by rw [List.length_drop]; omega) (by rw [List.length_drop]; omega)
          cases hx : toBytesAux t textLen f (rem.drop n) with
          | error e => rw [hx] at ihd; simp only [Except.toOption] at ihd ⊢; rw [← ihd]; rfl
          | ok r => rw [hx] at ihd; simp only [Except.toOption] at ihd ⊢; rw [← ihd]; rfl
      | none =>
        simp only
        have hl := tryLen_longest t textLen rem hmax hlen hne
        cases ht : tryLen t.entries rem (min textLen t.maxTextLen) with
        | some ci =>
          obtain ⟨code, i⟩ := ci
          have hi := tryLen_pos _ _ _ _ _ ht
          cases hlg : longest (linesOf t.entries) rem with
          | none => rw [ht, hlg] at hl; simp [eff] at hl
          | some cn =>
            obtain ⟨code', n'⟩ := cn
            rw [ht, hlg] at hl
            simp only [eff, Option.map_some, Option.some.injEq, Prod.mk.injEq] at hl
            obtain ⟨hc, hd⟩ := hl
            simp only
            have ihd := ih (rem.drop i) (by rw [List.length_drop]; omega) (by rw [List.length_drop]; omega)
            rw [← hc, ← hd]
            cases hx : toBytesAux t textLen f (rem.drop i) with
            | error e => rw [hx] at ihd; simp only [Except.toOption] at ihd ⊢; rw [← ihd]; rfl
            | ok r => rw [hx] at ihd; simp only [Except.toOption] at ihd ⊢; rw [← ihd]; rfl
        | none =>
          cases hlg : longest (linesOf t.entries) rem with
          | some cn => rw [ht, hlg] at hl; simp [eff] at hl
          | none =>
            simp only
            exact ih _ (by rw [List.length_drop]; omega) (by rw [List.length_drop]; omega)

/-- **C18 (encoding)**: `Table.to_bytes(text)` = reference longest-match encoding of `text`. -/
theorem toBytes_is_encode (lines : List (List Char)) (t : Tbl) (h : mkTable lines = .ok t) (text : List Char) :
    (t.toBytes text).toOption = encode (linesOf t.entries) text.length text := by
  unfold Tbl.toBytes
  exact toBytesAux_is_encode t text.length (mkTable_max lines t h) text.length text (Nat.le_refl _) (Nat.le_refl _)

/-- termination of `to_bytes`: the length of the text is enough fuel (every iteration consumes a character) -/
theorem toBytes_fuel (t : Tbl) (textLen fuel : Nat) :
    ∀ (rem : List Char), rem.length ≤ fuel → toBytesAux t textLen fuel rem ≠ .error .outOfFuel := by
  induction fuel with
  | zero =>
    intro rem h
    have : rem = [] := by cases rem <;> simp_all
    subst this; simp [toBytesAux]
  | succ f ih =>
    intro rem h
    unfold toBytesAux
    by_cases he : rem.isEmpty = true
    · simp [he]
    · simp only [he, Bool.false_eq_true, ↓reduceIte]
      have hne : rem ≠ [] := by intro h; subst h; simp at he
      have hpos : 0 < rem.length := List.length_pos_iff.mpr hne
      cases hj : jokerMatch rem with
      | some vn =>
        obtain ⟨v, n⟩ := vn
        simp only
        by_cases hv : v > 255
        · simp [hv]
        · simp only [hv, ↓reduceIte]
          have hn : 1 ≤ n := by
            unfold jokerMatch at hj
            split at hj
            · simp only at hj
              split at hj
              · cases hj
              · split at hj
                · simp only [Option.map_eq_some_iff, Prod.mk.injEq] at hj
                  obtain ⟨_, _, _, h⟩ := hj; omega
                · cases hj
            · cases hj
          have := ih (rem.drop n) (by rw [List.length_drop]; omega)
          cases hr : toBytesAux t textLen f (rem.drop n) with
          | error e => simp only; intro hc; cases hc; exact this hr
          | ok r => simp
      | none =>
        simp only
        cases ht : tryLen t.entries rem (min textLen t.maxTextLen) with
        | some ci =>
          obtain ⟨code, i⟩ := ci
          have hi := tryLen_pos _ _ _ _ _ ht
          simp only
          have := ih (rem.drop i) (by rw [List.length_drop]; omega)
          cases hr : toBytesAux t textLen f (rem.drop i) with
          | error e => simp only; intro hc; cases hc; exact this hr
          | ok r => simp
        | none =>
          simp only
          exact ih _ (by rw [List.length_drop]; omega)

/-! non-vacuity: table a=01, b=02, ab=03 encodes "aab" as 01 03; escape and unknown characters -/
private def tAB : List (List Char) := ["01=a\n".toList, "02=b\n".toList, "03=ab\n".toList]
example : (mkTable tAB).toOption.map (fun t => (t.toBytes "aab".toList).toOption) = some (some [1, 3]) := by
  decide +kernel
example : (mkTable tAB).toOption.map (fun t => (t.toBytes "a[0xFe]zab".toList).toOption)
    = some (some [1, 0xFE, 3]) := by decide +kernel
example : encode (linesOf [⟨['a'], [1], none⟩, ⟨['a', 'b'], [3], none⟩]) 3 "aab".toList = some [1, 3] := by
  decide +kernel

/-- a table whose codes can be decoded unambiguously: no `ignore` suffixes, no empty code, the codes identify
    their entry, no code is a proper prefix of another, and `maxCodeLen` covers every code (as `mkTable` computes it) -/
structure Decodable (t : Tbl) : Prop where
  noIgnore : ∀ e ∈ t.entries, e.ignore = none
  nonEmpty : ∀ e ∈ t.entries, e.code ≠ []
  unique : ∀ e1 ∈ t.entries, ∀ e2 ∈ t.entries, e1.code = e2.code → e1 = e2
  prefixFree : ∀ e1 ∈ t.entries, ∀ e2 ∈ t.entries, e1.code <+: e2.code → e1.code = e2.code
  maxLen : ∀ e ∈ t.entries, e.code.length ≤ t.maxCodeLen

theorem tblInvLookup_some (es : List TblEntry) (c : List Nat) (e : TblEntry) (h : tblInvLookup es c = some e) :
    e ∈ es ∧ e.code = c := by
  unfold tblInvLookup at h
  have hm := List.mem_of_find?_eq_some h
  have hp := List.find?_some h
  exact ⟨by simpa using hm, by simpa using hp⟩

theorem tblInvLookup_none (es : List TblEntry) (c : List Nat) (h : tblInvLookup es c = none) :
    ∀ e ∈ es, e.code ≠ c := by
  unfold tblInvLookup at h
  rw [List.find?_eq_none] at h
  intro e he hc
  exact h e (by simpa using he) (by simpa using hc)

theorem tblInvLookup_mem (es : List TblEntry) (e : TblEntry) (he : e ∈ es) : ∃ e', tblInvLookup es e.code = some e' := by
  cases h : tblInvLookup es e.code with
  | some e' => exact ⟨e', rfl⟩
  | none => exact absurd rfl (tblInvLookup_none es e.code h e he)

/-- the downward loop finds the match at length `n` when nothing longer matches -/
theorem tryLenBytes_found (es : List TblEntry) (rem : List Nat) (n : Nat) (e0 : TblEntry) (hn : 0 < n)
    (h0 : tblInvLookup es (rem.take n) = some e0) :
    ∀ k, n ≤ k → (∀ j, n < j → j ≤ k → tblInvLookup es (rem.take j) = none) → tryLenBytes es rem k = some (e0, n) := by
  intro k
  induction k with
  | zero => intro hk; omega
  | succ k ih =>
    intro hk hnone
    unfold tryLenBytes
    by_cases heq : n = k + 1
    · subst heq; rw [h0]
    · have hlt : n < k + 1 := by omega
      rw [hnone (k + 1) hlt (Nat.le_refl _)]
      exact ih (by omega) (fun j hj hjk => hnone j hj (by omega))

/-- **decode round trip**: over a decodable table, decoding the concatenated codes of any sequence of entries
    returns the concatenation of their texts -/
theorem roundtrip_aux (t : Tbl) (hd : Decodable t) : ∀ (seq : List TblEntry), (∀ e ∈ seq, e ∈ t.entries) →
    ∀ fuel, (seq.flatMap (·.code)).length ≤ fuel → toTextAux t fuel (seq.flatMap (·.code)) = .ok (seq.flatMap (·.text)) := by
  intro seq
  induction seq with
  | nil =>
    intro _ fuel _
    cases fuel <;> simp [toTextAux]
  | cons e rest ih =>
    intro hmem fuel hfuel
    have he : e ∈ t.entries := hmem e List.mem_cons_self
    have hne := hd.nonEmpty e he
    simp only [List.flatMap_cons] at hfuel ⊢
    generalize hrest : rest.flatMap (·.code) = tail at hfuel ⊢
    have hlenpos : 0 < e.code.length := List.length_pos_iff.mpr hne
    cases fuel with
    | zero => simp only [List.length_append] at hfuel; omega
    | succ fuel =>
      obtain ⟨b, cs, hcode⟩ := List.exists_cons_of_ne_nil hne
      have hrem : e.code ++ tail = b :: (cs ++ tail) := by rw [hcode]; rfl
      unfold toTextAux
      rw [hrem]
      simp only
      rw [← hrem]
      -- the longest prefix of the remaining bytes that is a code is `e.code`
      have htake : (e.code ++ tail).take e.code.length = e.code := by simp
      obtain ⟨e', he'⟩ := tblInvLookup_mem t.entries e he
      have hfound : tblInvLookup t.entries ((e.code ++ tail).take e.code.length) = some e' := by rw [htake]; exact he'
      have he'eq : e' = e := by
        obtain ⟨hm, hc⟩ := tblInvLookup_some _ _ _ he'
        exact hd.unique e' hm e he hc
      have hlonger : ∀ j, e.code.length < j → j ≤ min (e.code ++ tail).length t.maxCodeLen →
          tblInvLookup t.entries ((e.code ++ tail).take j) = none := by
        intro j hj hjk
        cases hx : tblInvLookup t.entries ((e.code ++ tail).take j) with
        | none => rfl
        | some x =>
          exfalso
          obtain ⟨hxm, hxc⟩ := tblInvLookup_some _ _ _ hx
          have hjlen : j ≤ (e.code ++ tail).length := by omega
          have hxlen : x.code.length = j := by rw [hxc, List.length_take]; omega
          have hpre : e.code <+: x.code := by
            rw [hxc]
            have h1 : e.code <+: e.code ++ tail := List.prefix_append _ _
            have h2 : (e.code ++ tail).take j <+: e.code ++ tail := List.take_prefix _ _
            exact List.prefix_of_prefix_length_le h1 h2 (by rw [List.length_take]; omega)
          have := hd.prefixFree e he x hxm hpre
          rw [this] at hj; omega
      have hk : e.code.length ≤ min (e.code ++ tail).length t.maxCodeLen := by
        have := hd.maxLen e he
        simp only [List.length_append]; omega
      rw [tryLenBytes_found t.entries (e.code ++ tail) e.code.length e' hlenpos hfound _ hk hlonger]
      simp only
      rw [he'eq, hd.noIgnore e he]
      simp only
      have hdrop : (e.code ++ tail).drop e.code.length = tail := by simp
      rw [hdrop, ← hrest]
      rw [ih (fun x hx => hmem x (List.mem_cons_of_mem _ hx)) fuel (by rw [hrest]; simp only [List.length_append] at hfuel; omega)]

theorem roundtrip (t : Tbl) (hd : Decodable t) (seq : List TblEntry) (hmem : ∀ e ∈ seq, e ∈ t.entries) :
    t.toText (seq.flatMap (·.code)) = .ok (seq.flatMap (·.text)) :=
  roundtrip_aux t hd seq hmem _ (Nat.le_refl _)


/-- non-vacuity: the table `01=a 02=b 0304=ab` is decodable, and the bytes of `a, ab, b` decode to `aabb` -/
example :
    let es : List TblEntry := [⟨['a'], [1], none⟩, ⟨['b'], [2], none⟩, ⟨['a', 'b'], [3, 4], none⟩]
    (Tbl.toText ⟨es, 2, 2⟩ [1, 3, 4, 2]).toOption = some ['a', 'a', 'b', 'b'] := by decide


/-- a successful table lookup comes from an entry of the table -/
theorem tblLookup_entry (es : List TblEntry) (text : List Char) (c : List Nat) (h : tblLookup es text = some c) :
    ∃ e ∈ es, e.text = text ∧ e.code = c := by
  unfold tblLookup at h
  simp only [Option.map_eq_some_iff] at h
  obtain ⟨e, he, hc⟩ := h
  have hmem : e ∈ es := by
    have := List.mem_of_find?_eq_some he
    simpa using this
  have htext : e.text = text := by
    have := List.find?_some he
    simpa using this
  exact ⟨e, hmem, htext, hc⟩

/-- what the descending search returns is a table key -/
theorem tryLen_found (es : List TblEntry) (rem : List Char) (k : Nat) (c : List Nat) (n : Nat)
    (h : tryLen es rem k = some (c, n)) : tblLookup es (rem.take n) = some c := by
  induction k with
  | zero => simp [tryLen] at h
  | succ k ih =>
    unfold tryLen at h
    cases hl : tblLookup es (rem.take (k + 1)) with
    | some c' =>
      simp only [hl, Option.some.injEq, Prod.mk.injEq] at h
      obtain ⟨rfl, rfl⟩ := h; exact hl
    | none => simp only [hl] at h; exact ih h

/-- the descending search finds something as soon as the first character alone is a key -/
theorem tryLen_some (es : List TblEntry) (rem : List Char) (k : Nat) (hk : 1 ≤ k)
    (h1 : (tblLookup es (rem.take 1)).isSome) : (tryLen es rem k).isSome := by
  induction k with
  | zero => omega
  | succ k ih =>
    unfold tryLen
    cases hl : tblLookup es (rem.take (k + 1)) with
    | some c' => simp
    | none =>
      simp only
      by_cases hk0 : k = 0
      · subst hk0; rw [hl] at h1; simp at h1
      · exact ih (by omega)

theorem jokerMatch_none (rem : List Char) (h : '[' ∉ rem) : jokerMatch rem = none := by
  unfold jokerMatch
  split
  · rename_i h3
    exfalso
    cases rem with
    | nil => simp at h3
    | cons a r =>
      cases r with
      | nil => simp at h3
      | cons b r2 =>
        cases r2 with
        | nil => simp at h3
        | cons c r3 =>
          simp only [List.take_succ_cons, List.take_zero, List.cons.injEq, and_true] at h3
          exact h (by rw [h3.1]; exact List.mem_cons_self)
  · rfl

theorem foldl_max_ge (l : List Nat) : ∀ (init x : Nat), x ∈ l → x ≤ l.foldl max init := by
  induction l with
  | nil => intro init x h; simp at h
  | cons a l ih =>
    intro init x h
    simp only [List.foldl_cons]
    rcases List.mem_cons.mp h with rfl | h
    · have mono : ∀ (l : List Nat) (i : Nat), i ≤ l.foldl max i := by
        intro l; induction l with
        | nil => intro i; simp
        | cons b l ih2 => intro i; simp only [List.foldl_cons]; exact Nat.le_trans (Nat.le_max_left i b) (ih2 _)
      exact Nat.le_trans (Nat.le_max_right init x) (mono l _)
    · exact ih _ _ h

/-- **what `to_bytes` emits is the codes of a sequence of table entries** (for strings without the `[` of a
    raw-byte escape): the texts of those entries are what is left of the string when the characters that start no
    entry are dropped, and the whole string when each of its characters is itself a table text. -/
theorem toBytesAux_entries (t : Tbl) (textLen : Nat) : ∀ (fuel : Nat) (rem : List Char), '[' ∉ rem →
    rem.length ≤ fuel →
    ∃ seq : List TblEntry, (∀ e ∈ seq, e ∈ t.entries) ∧ toBytesAux t textLen fuel rem = .ok (seq.flatMap (·.code)) ∧
      (seq.flatMap (·.text)).Sublist rem ∧
      ((∀ c ∈ rem, (tblLookup t.entries [c]).isSome) → 1 ≤ min textLen t.maxTextLen → seq.flatMap (·.text) = rem) := by
  intro fuel
  induction fuel with
  | zero =>
    intro rem _ h0
    have : rem = [] := by cases rem <;> simp_all
    subst this
    exact ⟨[], by simp, by simp [toBytesAux], by simp, by simp⟩
  | succ f ih =>
    intro rem hb hf
    unfold toBytesAux
    by_cases he : rem.isEmpty = true
    · have : rem = [] := by cases rem <;> simp_all
      subst this
      exact ⟨[], by simp, by simp, by simp, by simp⟩
    · simp only [he, Bool.false_eq_true, ↓reduceIte]
      have hne : rem ≠ [] := by intro h; subst h; simp at he
      rw [jokerMatch_none rem hb]
      simp only
      cases ht : tryLen t.entries rem (min textLen t.maxTextLen) with
      | some ci =>
        obtain ⟨code, i⟩ := ci
        have hi := tryLen_pos _ _ _ _ _ ht
        obtain ⟨e, hem, hetext, hecode⟩ := tblLookup_entry _ _ _ (tryLen_found _ _ _ _ _ ht)
        have hbd : '[' ∉ rem.drop i := fun h => hb (List.mem_of_mem_drop h)
        have hposlen : 0 < rem.length := List.length_pos_iff.mpr hne
        obtain ⟨seq, hmem, hok, hsub, hall⟩ := ih (rem.drop i) hbd (by rw [List.length_drop]; omega)
        refine ⟨e :: seq, ?_, ?_, ?_, ?_⟩
        · intro x hx
          rcases List.mem_cons.mp hx with rfl | hx
          · exact hem
          · exact hmem x hx
        · simp only [hok, List.flatMap_cons, hecode]
        · simp only [List.flatMap_cons, hetext]
          conv => rhs; rw [← List.take_append_drop i rem]
          exact List.Sublist.append (List.Sublist.refl _) hsub
        · intro hc hk
          simp only [List.flatMap_cons, hetext]
          rw [hall (fun c hcm => hc c (List.mem_of_mem_drop hcm)) hk]
          exact List.take_append_drop i rem
      | none =>
        simp only
        have hbd : '[' ∉ rem.drop 1 := fun h => hb (List.mem_of_mem_drop h)
        have hposlen : 0 < rem.length := List.length_pos_iff.mpr hne
        obtain ⟨seq, hmem, hok, hsub, _⟩ := ih (rem.drop 1) hbd (by rw [List.length_drop]; omega)
        refine ⟨seq, hmem, hok, hsub.trans (List.drop_sublist 1 rem), ?_⟩
        intro hc hk
        exfalso
        obtain ⟨a, r, rfl⟩ := List.exists_cons_of_ne_nil hne
        have h1 : (tblLookup t.entries ((a :: r).take 1)).isSome := by
          simpa using hc a List.mem_cons_self
        have := tryLen_some t.entries (a :: r) _ hk h1
        rw [ht] at this; simp at this

/-- **C18 round trip, composed**: over a decodable table (as `mkTable` builds it), a string without `[` in
    which every character is itself a table text is returned unchanged by `to_text (to_bytes s)` — whatever longer
    entries the table also has, and whichever of them the longest-match encoder picked. -/
theorem decode_encode (t : Tbl) (hd : Decodable t)
    (hmax : t.maxTextLen = (t.entries.map (·.text.length)).foldl max 0) (text : List Char)
    (hb : '[' ∉ text) (hc : ∀ c ∈ text, (tblLookup t.entries [c]).isSome) :
    ∃ bytes, t.toBytes text = .ok bytes ∧ t.toText bytes = .ok text := by
  obtain ⟨seq, hmem, hok, hsub, hall⟩ := toBytesAux_entries t text.length text.length text hb (Nat.le_refl _)
  refine ⟨seq.flatMap (·.code), by unfold Tbl.toBytes; exact hok, ?_⟩
  rw [roundtrip t hd seq hmem]
  cases text with
  | nil =>
    rw [List.sublist_nil.mp hsub]
  | cons a r =>
    have h1 : 1 ≤ min (a :: r).length t.maxTextLen := by
      have hs := hc a List.mem_cons_self
      cases hl : tblLookup t.entries [a] with
      | none => rw [hl] at hs; simp at hs
      | some c =>
        have := tblLookup_len _ _ _ hl
        rw [← hmax] at this
        simp only [List.length_cons, List.length_nil] at this ⊢
        omega
    rw [hall hc h1]

/-- a string over the single-character texts of a decodable table, decoded after encoding, in general: the
    characters that start no entry are lost, nothing else changes (`Sublist`) -/
theorem decode_encode_sublist (t : Tbl) (hd : Decodable t) (text : List Char) (hb : '[' ∉ text) :
    ∃ bytes out, t.toBytes text = .ok bytes ∧ t.toText bytes = .ok out ∧ out.Sublist text := by
  obtain ⟨seq, hmem, hok, hsub, _⟩ := toBytesAux_entries t text.length text.length text hb (Nat.le_refl _)
  exact ⟨seq.flatMap (·.code), seq.flatMap (·.text), by unfold Tbl.toBytes; exact hok, roundtrip t hd seq hmem, hsub⟩

/-- the table `mkTable` builds from a file is `Decodable` as soon as its entries are: `max_code_length` is computed
    so that it covers every code -/
theorem mkTable_decodable (lines : List (List Char)) (t : Tbl) (h : mkTable lines = .ok t)
    (noIgnore : ∀ e ∈ t.entries, e.ignore = none) (nonEmpty : ∀ e ∈ t.entries, e.code ≠ [])
    (unique : ∀ e1 ∈ t.entries, ∀ e2 ∈ t.entries, e1.code = e2.code → e1 = e2)
    (prefixFree : ∀ e1 ∈ t.entries, ∀ e2 ∈ t.entries, e1.code <+: e2.code → e1.code = e2.code) : Decodable t := by
  refine ⟨noIgnore, nonEmpty, unique, prefixFree, ?_⟩
  have hmc : t.maxCodeLen = (t.entries.map (·.code.length)).foldl max 0 := by
    unfold mkTable at h
    split at h
    · cases h
    · cases h
    · cases h; rfl
  intro e he
  rw [hmc]
  exact foldl_max_ge _ 0 _ (List.mem_map_of_mem he)

/-- **C18 (round trip from the table file)**: for a table file that loads, whose entries have unique, non-empty,
    prefix-free codes and no `ignore` suffix, every string without `[` whose characters are each a table text
    satisfies `to_text(to_bytes(s)) = s`. -/
theorem C18_roundtrip_file (lines : List (List Char)) (t : Tbl) (h : mkTable lines = .ok t)
    (noIgnore : ∀ e ∈ t.entries, e.ignore = none) (nonEmpty : ∀ e ∈ t.entries, e.code ≠ [])
    (unique : ∀ e1 ∈ t.entries, ∀ e2 ∈ t.entries, e1.code = e2.code → e1 = e2)
    (prefixFree : ∀ e1 ∈ t.entries, ∀ e2 ∈ t.entries, e1.code <+: e2.code → e1.code = e2.code)
    (text : List Char) (hb : '[' ∉ text) (hc : ∀ c ∈ text, (tblLookup t.entries [c]).isSome) :
    ∃ bytes, t.toBytes text = .ok bytes ∧ t.toText bytes = .ok text :=
  decode_encode t (mkTable_decodable lines t h noIgnore nonEmpty unique prefixFree) (mkTable_max lines t h) text hb hc

/-! non-vacuity: the table file `01=a 02=b 0304=ab` loads, and "aabb" is encoded as 01 03 04 02 and decoded back -/
private def tABfile : List (List Char) := ["01=a\n".toList, "02=b\n".toList, "0304=ab\n".toList]
example : (mkTable tABfile).toOption.map (fun t => ((t.toBytes "aabb".toList).toOption,
      ((t.toBytes "aabb".toList).toOption.map fun b => (t.toText b).toOption)))
    = some (some [1, 3, 4, 2], some (some "aabb".toList)) := by decide +kernel
example : (mkTable tABfile).toOption.map (fun t => "aabb".toList.all fun c => (tblLookup t.entries [c]).isSome) = some true := by
  decide +kernel

end A816.C18
