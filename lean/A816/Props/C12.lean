import A816.Model.Front
import A816.Props.C11
import A816.Gen.Tables
/-!
# C12 — File and command-line front ends agree with the in-memory assembler

The front ends are modelled as decision logic over an abstract core `asm` (any function from mapping,
defines and source to blocks); the OS layer is exercised by the stream S8-front only.

* `ips_front` / `sfc_front`: the IPS file is the IPS writer applied to the core's blocks under the selected
  mapping, copier flag and defines; the SFC image is `sfcImage` of the same blocks.
* `copier_shift`: the copier header shifts every IPS record offset by exactly 0x200 (C11 `expected`).
* `sfc_is_ips_applied`: the SFC image is the IPS patch (without copier header) applied to an empty image.
* `plan_*`: `-f`, `-m`, `--copier-header`, `-D` select writer, mapping, shift and constants as documented;
  the three mappings have a bus in the regenerated `BUS_MAPPING`.
* `symbol_line_*`: format of the exported symbol file.
-/
namespace A816.C12
open A816 Spec.Ips

/-- an abstract core: mapping, defines, source ↦ blocks or failure -/
abbrev Core := RomType → List (String × Int) → String → Except Err (List (Int × List Nat))

def frontIps (asm : Core) (a : CliArgs) (src : String) : Except Err (List Nat) :=
  match (planOf a).rom with
  | none => .error .key
  | some rom =>
    match asm rom (planOf a).defines src with
    | .error e => .error e
    | .ok blocks => ipsFile (planOf a).copier blocks

def frontSfc (asm : Core) (a : CliArgs) (src : String) : Except Err (List Nat) :=
  match (planOf a).rom with
  | none => .error .key
  | some rom =>
    match asm rom (planOf a).defines src with
    | .error e => .error e
    | .ok blocks => .ok (sfcImage blocks)

/-- **IPS front end** = IPS writer ∘ in-memory assembler, for every core and every option combination -/
theorem ips_front (asm : Core) (a : CliArgs) (src : String) (rom : RomType) (hr : romOfMapping a.mapping = some rom)
    (blocks : List (Int × List Nat)) (hb : asm rom a.defines src = .ok blocks) :
    frontIps asm a src = ipsFile (a.copier && a.format == "ips") blocks := by
  simp [frontIps, planOf, hr, hb]

theorem sfc_front (asm : Core) (a : CliArgs) (src : String) (rom : RomType) (hr : romOfMapping a.mapping = some rom)
    (blocks : List (Int × List Nat)) (hb : asm rom a.defines src = .ok blocks) :
    frontSfc asm a src = .ok (sfcImage blocks) := by
  simp [frontSfc, planOf, hr, hb]

/-- the mapping option is honoured by both formats (F12c), the copier flag only by IPS -/
theorem plan_mapping (a : CliArgs) : (planOf a).rom = romOfMapping a.mapping := rfl
theorem plan_format (a : CliArgs) : (planOf a).sfc = (a.format != "ips") := rfl
theorem plan_defines (a : CliArgs) : (planOf a).defines = a.defines := rfl
theorem plan_copier_sfc (a : CliArgs) (h : a.format ≠ "ips") : (planOf a).copier = false := by
  simp [planOf, h]

/-- every documented mapping name selects a ROM type that has a bus (F12b) -/
theorem mappings_have_bus :
    (["low", "low2", "high"].all fun m =>
      match romOfMapping m with
      | some r => (alookup r.name Gen.busMapping).isSome
      | none => false) = true := by decide +kernel

/-- **copier header**: every expected record offset moves by exactly 0x200, nothing else changes -/
theorem copier_shift (addr : Int) (block : List Nat) :
    C11.expected true [(addr, block)] = C11.expected false [(addr + 0x200, block)] := by
  simp [C11.expected, shiftOf]

/-- **SFC = IPS applied to an empty image**: the records of the IPS file of a write sequence, applied in
    order to the empty image, write exactly the blocks at their addresses (later writes win) — the same
    sparse image `sfcImage` materialises. -/
theorem sfc_is_ips_applied (blocks : List (Int × List Nat)) (file : List Nat) (h : ipsFile false blocks = .ok file) :
    ∃ recs, Spec.Ips.parse file = some recs ∧
      apply (fun _ => none) recs = C11.directWrites false (fun _ => none) blocks := by
  obtain ⟨_, hp⟩ := C11.write_parses false blocks file h
  exact ⟨_, hp, C11.apply_is_writes false blocks _⟩

/-- symbol file: bank and offset of a label value -/
theorem symbol_line_fields (name : String) (v : Int) :
    symbolLine name v = hexPad 2 ((v / 65536) % 256).toNat ++ ":" ++ hexPad 4 (v % 65536).toNat ++ " " ++ name := rfl

example : symbolLine "start" 0x018000 = " 1:8000 start" := by decide +kernel
example : symbolFile [("a", 0x008000), ("b", 0x7E0010)] = "[labels]\n 0:8000 a\n7e:  10 b\n" := by decide +kernel

/-! ## which labels the symbol file lists (`Resolver.get_all_labels`) -/

/-- **every label defined outside loop iterations is listed**: a label of a scope that is not a loop-iteration scope -/
theorem label_listed (r : Resolver) (k : Nat) (hk : k < r.scopes.size) (hin : (r.scopeAt k).kind ≠ .internal)
    (n : String) (v : Int) (h : (n, v) ∈ (r.scopeAt k).labels) : (n, v) ∈ r.allLabels := by
  unfold Resolver.allLabels
  rw [List.mem_flatMap]
  have hs : r.scopeAt k = r.scopes[k] := by
    unfold Resolver.scopeAt
    rw [Array.getD_eq_getD_getElem?, Array.getElem?_eq_getElem hk]; rfl
  refine ⟨r.scopes[k], by simp, ?_⟩
  rw [hs] at hin h
  have : (r.scopes[k].kind == ScopeKind.internal) = false := by simpa using hin
  rw [this]
  exact h

/-- **nothing else is listed**: every listed (name, value) is a label of a scope that is not a loop iteration -/
theorem listed_is_label (r : Resolver) (n : String) (v : Int) (h : (n, v) ∈ r.allLabels) :
    ∃ k, k < r.scopes.size ∧ (r.scopeAt k).kind ≠ .internal ∧ (n, v) ∈ (r.scopeAt k).labels := by
  unfold Resolver.allLabels at h
  rw [List.mem_flatMap] at h
  obtain ⟨s, hs, hm⟩ := h
  obtain ⟨k, hk, rfl⟩ := List.getElem_of_mem hs
  have hk' : k < r.scopes.size := by simpa using hk
  have hsk : r.scopeAt k = r.scopes.toList[k] := by
    unfold Resolver.scopeAt
    rw [Array.getD_eq_getD_getElem?, Array.getElem?_eq_getElem hk']; simp
  refine ⟨k, hk', ?_, ?_⟩
  · rw [hsk]
    intro hc
    rw [hc] at hm
    simp at hm
  · rw [hsk]
    split at hm
    · cases hm
    · exact hm

/-- labels of one scope with pairwise different names: a (name, value) pair occurs at most once -/
theorem count_pair_le_one : ∀ (l : List (String × Int)), (l.map Prod.fst).Nodup → ∀ (n : String) (v : Int),
    l.count (n, v) = if (n, v) ∈ l then 1 else 0 := by
  intro l
  induction l with
  | nil => intro _ n v; simp
  | cons a l ih =>
    intro hnd n v
    simp only [List.map_cons, List.nodup_cons] at hnd
    rw [List.count_cons, ih hnd.2 n v]
    by_cases ha : a = (n, v)
    · subst ha
      have : (n, v) ∉ l := fun hm => hnd.1 (List.mem_map_of_mem (f := Prod.fst) hm)
      simp [this]
    · have h1 : (a == (n, v)) = false := by simpa using ha
      have h2 : ((n, v) ∈ a :: l) ↔ (n, v) ∈ l := by
        simp only [List.mem_cons]
        constructor
        · rintro (h | h)
          · exact absurd h.symm ha
          · exact h
        · exact Or.inr
      simp only [h1, Bool.false_eq_true, ↓reduceIte, Nat.add_zero]
      by_cases hm : (n, v) ∈ l
      · rw [if_pos hm, if_pos (h2.mpr hm)]
      · rw [if_neg hm, if_neg (fun h => hm (h2.mp h))]

/-- **each definition once**: when the labels of every scope have pairwise different names (a scope defines a name once:
    a second definition is refused, C02), the number of lines for a (name, value) pair is the number of non-iteration
    scopes that define that label with that value — one line per definition, none for loop iterations -/
theorem listed_once (scopes : List ScopeRec) (hnd : ∀ s ∈ scopes, (s.labels.map Prod.fst).Nodup) (n : String) (v : Int) :
    (scopes.flatMap fun s => if s.kind == .internal then [] else s.labels).count (n, v) =
      (scopes.filter fun s => s.kind != .internal && decide ((n, v) ∈ s.labels)).length := by
  induction scopes with
  | nil => rfl
  | cons s ss ih =>
    rw [List.flatMap_cons, List.count_append, ih (fun x hx => hnd x (List.mem_cons_of_mem _ hx)), List.filter_cons]
    by_cases hk : s.kind = .internal
    · simp [hk]
    · have h1 : (s.kind == ScopeKind.internal) = false := by simpa using hk
      have h2 : (s.kind != ScopeKind.internal) = true := by simp [bne, h1]
      rw [h1, h2]
      simp only [Bool.false_eq_true, ↓reduceIte, Bool.true_and]
      rw [count_pair_le_one s.labels (hnd s List.mem_cons_self) n v]
      by_cases hm : (n, v) ∈ s.labels
      · simp [hm]; omega
      · simp [hm]

theorem all_labels_once (r : Resolver) (hnd : ∀ s ∈ r.scopes.toList, (s.labels.map Prod.fst).Nodup) (n : String) (v : Int) :
    r.allLabels.count (n, v) =
      (r.scopes.toList.filter fun s => s.kind != .internal && decide ((n, v) ∈ s.labels)).length :=
  listed_once r.scopes.toList hnd n v

/-- the file: the header, then one line per listed label in scope order, each with the bank and offset of the value -/
theorem symbol_file_lines (labels : List (String × Int)) :
    symbolFile labels = "[labels]\n" ++ String.join (labels.map fun p => symbolLine p.1 p.2 ++ "\n") := rfl

/-- non-vacuity / a test: two scopes defining `l` (one of them a loop iteration) and a named scope -/
example : (Resolver.allLabels { (default : Resolver) with scopes := #[
    { kind := .plain, parent := none, labels := [("l", 0x8000), ("m", 0x8002)] },
    { kind := .internal, parent := some 0, labels := [("l", 0x8004)] },
    { kind := .named "s", parent := some 0, labels := [("l", 0x8006)] }] }) =
  [("l", 0x8000), ("m", 0x8002), ("l", 0x8006)] := by decide +kernel

end A816.C12
