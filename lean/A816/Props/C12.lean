import A816.Model.Front
import A816.Props.C11
import A816.Gen.Tables
/-!
# C12 — File and command-line front ends agree with the in-memory assembler

The front ends are modelled as decision logic over an abstract core `asm` (any function from mapping,
defines and source to blocks); the OS layer is exercised by the stream S8-front only.

* `ips_front` / `sfc_front`: the IPS file is the IPS writer applied to the core's blocks under the selected
  mapping, copier flag and defines; the SFC image is `sfcImage` of the same blocks.
* `copier_shift`: the copier header shifts every IPS record offset by exactly 0x200 (C11 `expected`).
* `sfc_is_ips_applied`: the SFC image is the IPS patch (without copier header) applied to an empty image.
* `plan_*`: `-f`, `-m`, `--copier-header`, `-D` select writer, mapping, shift and constants as documented;
  the three mappings have a bus in the regenerated `BUS_MAPPING`.
* `symbol_line_*`: format of the exported symbol file.
-/
namespace A816.C12
open A816 Spec.Ips

/-- an abstract core: mapping, defines, source ↦ blocks or failure -/
abbrev Core := RomType → List (String × Int) → String → Except Err (List (Int × List Nat))

def frontIps (asm : Core) (a : CliArgs) (src : String) : Except Err (List Nat) :=
  match (planOf a).rom with
  | none => .error .key
  | some rom =>
    match asm rom (planOf a).defines src with
    | .error e => .error e
    | .ok blocks => ipsFile (planOf a).copier blocks

def frontSfc (asm : Core) (a : CliArgs) (src : String) : Except Err (List Nat) :=
  match (planOf a).rom with
  | none => .error .key
  | some rom =>
    match asm rom (planOf a).defines src with
    | .error e => .error e
    | .ok blocks => .ok (sfcImage blocks)

/-- **IPS front end** = IPS writer ∘ in-memory assembler, for every core and every option combination -/
theorem ips_front (asm : Core) (a : CliArgs) (src : String) (rom : RomType) (hr : romOfMapping a.mapping = some rom)
    (blocks : List (Int × List Nat)) (hb : asm rom a.defines src = .ok blocks) :
    frontIps asm a src = ipsFile (a.copier && a.format == "ips") blocks := by
  simp [frontIps, planOf, hr, hb]

theorem sfc_front (asm : Core) (a : CliArgs) (src : String) (rom : RomType) (hr : romOfMapping a.mapping = some rom)
    (blocks : List (Int × List Nat)) (hb : asm rom a.defines src = .ok blocks) :
    frontSfc asm a src = .ok (sfcImage blocks) := by
  simp [frontSfc, planOf, hr, hb]

/-- the mapping option is honoured by both formats (F12c), the copier flag only by IPS -/
theorem plan_mapping (a : CliArgs) : (planOf a).rom = romOfMapping a.mapping := rfl
theorem plan_format (a : CliArgs) : (planOf a).sfc = (a.format != "ips") := rfl
theorem plan_defines (a : CliArgs) : (planOf a).defines = a.defines := rfl
theorem plan_copier_sfc (a : CliArgs) (h : a.format ≠ "ips") : (planOf a).copier = false := by
  simp [planOf, h]

/-- every documented mapping name selects a ROM type that has a bus (F12b) -/
theorem mappings_have_bus :
    (["low", "low2", "high"].all fun m =>
      match romOfMapping m with
      | some r => (alookup r.name Gen.busMapping).isSome
      | none => false) = true := by decide +kernel

/-- **copier header**: every expected record offset moves by exactly 0x200, nothing else changes -/
theorem copier_shift (addr : Int) (block : List Nat) :
    C11.expected true [(addr, block)] = C11.expected false [(addr + 0x200, block)] := by
  simp [C11.expected, shiftOf]

/-- **SFC = IPS applied to an empty image**: the records of the IPS file of a write sequence, applied in
    order to the empty image, write exactly the blocks at their addresses (later writes win) — the same
    sparse image `sfcImage` materialises. -/
theorem sfc_is_ips_applied (blocks : List (Int × List Nat)) (file : List Nat) (h : ipsFile false blocks = .ok file) :
    ∃ recs, Spec.Ips.parse file = some recs ∧
      apply (fun _ => none) recs = C11.directWrites false (fun _ => none) blocks := by
  obtain ⟨_, hp⟩ := C11.write_parses false blocks file h
  exact ⟨_, hp, C11.apply_is_writes false blocks _⟩

/-- symbol file: bank and offset of a label value -/
theorem symbol_line_fields (name : String) (v : Int) :
    symbolLine name v = hexPad 2 ((v / 65536) % 256).toNat ++ ":" ++ hexPad 4 (v % 65536).toNat ++ " " ++ name := rfl

example : symbolLine "start" 0x018000 = " 1:8000 start" := by decide +kernel
example : symbolFile [("a", 0x008000), ("b", 0x7E0010)] = "[labels]\n 0:8000 a\n7e:  10 b\n" := by decide +kernel

end A816.C12
