import A816.Props.C04
import A816.Model.Legacy
/-!
# C20 — Legacy address conversions agree with the assembler's mapping

For every ROM offset in range (no sampling: the proofs are arithmetic, the bus facts come from the
regenerated `Gen.lowRomBus` / `Gen.highRomBus` through `C04.low_banks` / `C04.high_banks`).
-/
namespace A816.C20
open A816 Spec

theorem all_range {p : Nat → Bool} {n : Nat} (h : (List.range n).all p = true) (b : Nat) (hb : b < n) :
    p b = true := by
  rw [List.all_eq_true] at h
  exact h b (List.mem_range.mpr hb)

theorem low_bank (b : Nat) (hb : b < 300) : Gen.lowRomBus.mappingForBank b = C04.expectLow b := by
  have := all_range C04.low_banks b hb
  simpa using this
theorem high_bank (b : Nat) (hb : b < 300) : Gen.highRomBus.mappingForBank b = C04.expectHigh b := by
  have := all_range C04.high_banks b hb
  simpa using this

theorem romToSnes_low (off : Nat) :
    romToSnes off .low_rom = Spec.address ⟨0x00, 0x6F, 0x8000⟩ off := by
  simp only [romToSnes, Spec.address, windowStart]
  rw [shl16_or _ _ (by omega)]; omega
theorem romToSnes_low2 (off : Nat) :
    romToSnes off .low_rom_2 = Spec.address ⟨0x80, 0xCF, 0x8000⟩ off := by
  simp only [romToSnes, Spec.address, windowStart]
  rw [shl16_or _ _ (by omega)]; omega
theorem romToSnes_high (off : Nat) :
    romToSnes off .high_rom = Spec.address ⟨0xC0, 0xFF, 0x10000⟩ off := by
  simp only [romToSnes, Spec.address, windowStart]; omega

/-- generic step: the textbook address of `off` in a ROM range is looked up to that range's mapping ⇒ its
    mapped file offset is `off`. -/
theorem phys_of_address (bus : BusCfg) (m : Mapping) (wf : m.RomWF) (off : Nat)
    (hlk : bus.mappingForBank (m.lo + off / m.mask) = some m) :
    busPhys bus (Spec.address m.range off) = some (some (off : Int)) := by
  have hoa := Spec.offset_address m.range wf.2 off
  unfold busPhys Address.mk?
  have : ¬ (((Spec.address m.range off : Nat) : Int) < 0) := by omega
  simp only [this, ↓reduceIte, Int.toNat_natCast, shr16]
  have hb : Spec.address m.range off / 65536 = m.lo + off / m.mask := hoa.2.1
  rw [hb, hlk]
  simp only [Option.map_some, Address.physical]
  rw [Mapping.physicalAddress_eq_offset m wf _ (by rw [show bankOf _ = _ from hoa.2.1]; exact Nat.le_add_right _ _) hoa.2.2, hoa.1]

/-- LoROM (banks from 0x00): `rom_to_snes` gives the address whose mapped file offset is `off`,
    and `snes_to_rom` maps it back — for every offset of the 3.5 MiB the LoROM bus covers. -/
theorem low (off : Nat) (h : off < 0x380000) :
    busPhys Gen.lowRomBus (romToSnes off .low_rom) = some (some (off : Int)) ∧
    snesToRom (romToSnes off .low_rom) = off ∧ romToSnes off .low_rom / 0x10000 = off / 0x8000 := by
  refine ⟨?_, ?_, ?_⟩
  · rw [romToSnes_low]
    have hb : off / 0x8000 ≤ 0x6F := by omega
    have := phys_of_address Gen.lowRomBus ⟨0x00, 0x6F, 0x8000, false⟩ (by decide) off
      (by rw [show (0 + off / 0x8000) = off / 0x8000 by omega, low_bank _ (by omega)]; simp [C04.expectLow, hb])
    simpa [Mapping.range] using this
  · rw [romToSnes_low]
    simp only [snesToRom, Spec.address, windowStart]
    have h1 : ¬ ((0 + off / 32768) * 65536 + (65536 - 32768 + off % 32768) ≥ 0xC00000) := by omega
    have h2 : ¬ ((0 + off / 32768) * 65536 + (65536 - 32768 + off % 32768) ≥ 0x808000) := by omega
    simp only [h1, h2, ↓reduceIte, shr16]
    have e : (0x7FFF : Nat) = 2^15 - 1 := by decide
    rw [e, Nat.and_two_pow_sub_one_eq_mod]; omega
  · rw [romToSnes_low]; simp only [Spec.address, windowStart]; omega

/-- second LoROM variant (banks from 0x80): mapped offset for every offset the mirror range covers;
    `snes_to_rom` maps it back below 0x200000 (above, its banks coincide with HiROM's). -/
theorem low2 (off : Nat) (h : off < 0x280000) :
    busPhys Gen.lowRomBus (romToSnes off .low_rom_2) = some (some (off : Int)) ∧
    romToSnes off .low_rom_2 / 0x10000 = 0x80 + off / 0x8000 ∧
    (off < 0x200000 → snesToRom (romToSnes off .low_rom_2) = off) := by
  refine ⟨?_, ?_, ?_⟩
  · rw [romToSnes_low2]
    have hb : 0x80 + off / 0x8000 ≤ 0xCF := by omega
    have := phys_of_address Gen.lowRomBus ⟨0x80, 0xCF, 0x8000, false⟩ (by decide) off
      (by
        show Gen.lowRomBus.mappingForBank (0x80 + off / 0x8000) = _
        rw [low_bank _ (by omega)]
        have h1 : ¬ (0x80 + off / 0x8000 ≤ 0x6F) := by omega
        have h2 : ¬ (0x7E ≤ 0x80 + off / 0x8000 ∧ 0x80 + off / 0x8000 ≤ 0x7F) := by omega
        simp [C04.expectLow, h1, h2, hb])
    simpa [Mapping.range] using this
  · rw [romToSnes_low2]; simp only [Spec.address, windowStart]; omega
  · intro h2
    rw [romToSnes_low2]
    simp only [snesToRom, Spec.address, windowStart]
    have h1 : ¬ ((0x80 + off / 32768) * 65536 + (65536 - 32768 + off % 32768) ≥ 0xC00000) := by omega
    have h3 : (0x80 + off / 32768) * 65536 + (65536 - 32768 + off % 32768) ≥ 0x808000 := by omega
    simp only [h1, h3, ↓reduceIte, shr16]
    have e : (0x7FFF : Nat) = 2^15 - 1 := by decide
    rw [e, Nat.and_two_pow_sub_one_eq_mod]; omega

/-- HiROM (banks from 0xC0): the whole 4 MiB space. -/
theorem high (off : Nat) (h : off < 0x400000) :
    busPhys Gen.highRomBus (romToSnes off .high_rom) = some (some (off : Int)) ∧
    snesToRom (romToSnes off .high_rom) = off ∧ romToSnes off .high_rom / 0x10000 = 0xC0 + off / 0x10000 := by
  refine ⟨?_, ?_, ?_⟩
  · rw [romToSnes_high]
    have hb : 0xC0 + off / 0x10000 ≤ 0xFF := by omega
    have := phys_of_address Gen.highRomBus ⟨0xC0, 0xFF, 0x10000, false⟩ (by decide) off
      (by
        show Gen.highRomBus.mappingForBank (0xC0 + off / 0x10000) = _
        rw [high_bank _ (by omega)]
        have h1 : ¬ (0x40 ≤ 0xC0 + off / 0x10000 ∧ 0xC0 + off / 0x10000 ≤ 0x7D) := by omega
        have h2 : ¬ (0x7E ≤ 0xC0 + off / 0x10000 ∧ 0xC0 + off / 0x10000 ≤ 0x7F) := by omega
        simp [C04.expectHigh, h1, h2, hb])
    simpa [Mapping.range] using this
  · simp only [snesToRom, romToSnes]
    have : off + 0xC00000 ≥ 0xC00000 := by omega
    simp only [this, ↓reduceIte]; omega
  · simp only [romToSnes]; omega

/-- `long_low_rom_pointer(base)(p)` is the little-endian 3-byte LoROM address of offset `base + p`. -/
theorem long_ptr (base p : Nat) (h : base + p < 0x380000) :
    longLowRomPointer base p = some (leBytes 3 (romToSnes (p + base) .low_rom)) := by
  unfold longLowRomPointer
  have hb : romToSnes (p + base) .low_rom < 0x700000 := by
    rw [romToSnes_low]; simp only [Spec.address, windowStart]; omega
  generalize romToSnes (p + base) .low_rom = a at *
  have e : (0xFFFF : Nat) = 2^16 - 1 := by decide
  simp only [e, Nat.and_two_pow_sub_one_eq_mod, shr16]
  unfold packHBle packHle packB leBytes leBytes leBytes leBytes
  have h1 : (0 : Int) ≤ ((a % 2 ^ 16 : Nat) : Int) ∧ ((a % 2 ^ 16 : Nat) : Int) ≤ 65535 := by omega
  have h2 : (0 : Int) ≤ ((a / 65536 : Nat) : Int) ∧ ((a / 65536 : Nat) : Int) ≤ 255 := by omega
  simp only [h1, h2, and_self, ↓reduceIte, Int.toNat_natCast, List.cons_append, List.nil_append,
    Option.some.injEq, List.cons.injEq, and_true]
  omega

/-- `base_relative_16bits_pointer_formula(base)` decodes a little-endian 16-bit value and adds base. -/
theorem rel16 (base : Int) (lo hi : Nat) (rest : List Nat) :
    baseRelative16 base (lo :: hi :: rest) = some ((lo : Int) + 256 * (hi : Int) + base) := by
  simp only [baseRelative16, Nat.shiftLeft_eq, Option.some.injEq]; omega

/-! non-vacuity (the repository's own test vectors) -/
example : romToSnes 0x7FFF .low_rom = 0x00FFFF := by decide
example : romToSnes 0x8000 .low_rom_2 = 0x818000 := by decide
example : snesToRom 0x818000 = 0x8000 := by decide
example : longLowRomPointer 0x08C000 12 = some [0x0C, 0xC0, 0x11] := by decide +kernel
example : baseRelative16 0x10000 [0x10, 0x20] = some 0x12010 := by decide

end A816.C20
