import A816.Model.Program
import A816.Props.C18
import A816.Proofs.ScanTotal
import A816.Proofs.ParseFuel
import A816.Model.OpsParse
/-!
# C15 — Every input terminates

Every Python `while` loop of the scanner is modelled with a fuel computed from the remaining input;
`Err.outOfFuel` means *the Python loop would not terminate*.  Termination is the family of theorems
"`outOfFuel` is unreachable".  Proved here, for every input and every scanner state:

* **`scan_terminates`** (whole scanner): for every configuration, both initial states and every input text,
  `Scanner.scan` returns tokens or raises a `ScannerException` — `outOfFuel` is unreachable.  It is
  assembled from a post-condition proved for every scanner primitive and every state function
  (`Proofs/ScanTotal.lean`): the input is unchanged, `pos` never decreases, no loop runs out of its fuel,
  and a state call that emitted a token or returned normally with a different `pos` strictly advanced
  `pos` (so the outer loop runs at most `len(input)` times: `scan_state_calls_le`).
* `acceptRun_terminates`: `accept_run(candidates, negate)` terminates whenever the loop does not accept
  at end of input — which is the case for every call site of the code (`acceptRun_sites`), including
  the negated run `"\n\0"` that `lex_opcode` and the error handler use (the `"\0"` sentinel matters).
* `lineComment_terminates`, `blockComment_terminates` (after the F15 repair), `quoted_terminates`:
  the three hand-written loops consume one character per iteration and stop at end of input.
* `scanLoop_progress`: one iteration of the loop of `Scanner.scan` either fails or strictly advances
  `pos` or emits a token (the no-progress guard of the second F15 repair) — the outer loop is bounded.
* the table encoder (`C18.toBytes_fuel`), the IPS reader and writer (fuel = length) terminate; code
  generation is structurally recursive on the nesting budget, loops run their evaluated count.

The basic lemmas live in `Proofs/ScanBasic.lean` (namespace `ScanB`) and are restated here under their
names.

* **`parse_terminates`** (whole parser, `Proofs/ParseFuel.lean`): for every token array, when no source file can
  be included, `parse_initial` with `2·|tokens| + 6` fuel returns or raises a real exception — every loop and
  every recursion of `parser_states.py` is bounded by the number of tokens left; `parse_decl_consumes` is the
  progress fact behind it (a successful `parse_decl` consumed at least one token of the array), and
  `parseSource_terminates` composes it with `scan_terminates` for a whole source text.  With includable files
  the nesting of `.include` is bounded by the fuel only (a file that includes itself ends in Python's
  `RecursionError`); that part stays with the streams.
-/
namespace A816.C15
open A816 Scan ScanB

theorem next_pos_lt (s : Scan) (h : s.pos < s.input.size) : (s.next).1.pos = s.pos + 1 :=
  ScanB.next_pos_lt s h

theorem next_pos_ge (s : Scan) (h : ¬ s.pos < s.input.size) : (s.next).1 = s ∧ (s.next).2 = none :=
  ScanB.next_pos_ge s h

theorem next_some_iff (s : Scan) : (s.next).2 = none ↔ ¬ s.pos < s.input.size :=
  ScanB.next_some_iff s

theorem peek_eof (s : Scan) (h : ¬ s.pos < s.input.size) : s.peek = '\x00' :=
  ScanB.peek_eof s h

theorem accept_eof (s : Scan) (cands : List Char) (negate : Bool) (h : ¬ s.pos < s.input.size) :
    (s.accept cands negate).2 = eofAccepts cands negate :=
  ScanB.accept_eof s cands negate h

theorem accept_step (s : Scan) (cands : List Char) (negate : Bool) :
    (s.accept cands negate).1.input = s.input ∧
    ((s.accept cands negate).2 = true → s.pos < s.input.size → (s.accept cands negate).1.pos = s.pos + 1) ∧
    s.pos ≤ (s.accept cands negate).1.pos :=
  ScanB.accept_step s cands negate

/-- **`accept_run` terminates** when it does not accept at end of input: the fuel `len − pos + 1` suffices,
    the input is unchanged and `pos` only grows. -/
theorem acceptRun_terminates (cands : List Char) (negate : Bool) (he : eofAccepts cands negate = false) :
    ∀ (n : Nat) (s : Scan), s.input.size - s.pos ≤ n →
      ∃ s', acceptRunAux cands negate n s = some s' ∧ s'.input = s.input ∧ s.pos ≤ s'.pos :=
  ScanB.acceptRun_terminates cands negate he

theorem acceptRun_ok (s : Scan) (cands : List Char) (negate : Bool) (he : eofAccepts cands negate = false) :
    ∃ s', s.acceptRun cands negate = .ok s' ∧ s'.input = s.input ∧ s.pos ≤ s'.pos :=
  ScanB.acceptRun_ok s cands negate he

/-- every `accept_run` call site of the code satisfies the condition (kernel-checked on the literal
    candidate strings of the model) -/
theorem acceptRun_sites :
    eofAccepts identChars false = false ∧ eofAccepts digitChars false = false ∧
    eofAccepts [' '] false = false ∧ eofAccepts [' ', '\t'] false = false ∧ eofAccepts [' ', '\t', '\n'] false = false ∧
    eofAccepts (chars "01") false = false ∧ eofAccepts (chars "012345678") false = false ∧
    eofAccepts (chars "0123456789ABCDEFabcdef") false = false ∧
    eofAccepts (chars "abcdefghijklmnopqrstuvwxyz_") false = false ∧
    eofAccepts ['\n', '\x00'] true = false :=
  ScanB.acceptRun_sites

/-- `;` comment loop: stops at the newline or at end of input -/
theorem lineComment_terminates : ∀ (n : Nat) (s : Scan), s.input.size - s.pos < n →
    ∃ s', lineCommentLoop n s = .ok s' ∧ s'.input = s.input ∧ s.pos ≤ s'.pos :=
  ScanB.lineComment_terminates

theorem acceptPrefix_step (s : Scan) (pre : List Char) :
    (s.acceptPrefix pre).1.input = s.input ∧ s.pos ≤ (s.acceptPrefix pre).1.pos :=
  ScanB.acceptPrefix_step s pre

/-- `/* … */` loop (F15 repair): every iteration consumes a character or ends; end of input raises the error
    built when the comment was opened -/
theorem blockComment_terminates (posErr : Err) : ∀ (n : Nat) (s : Scan), s.input.size - s.pos < n →
    (∃ s', blockCommentLoop posErr n s = .ok s' ∧ s'.input = s.input ∧ s.pos ≤ s'.pos) ∨
    (∃ s', blockCommentLoop posErr n s = .error (posErr, s')) :=
  ScanB.blockComment_terminates posErr

/-- quoted-string loop: every iteration consumes at least one character; newline / end of input raise -/
theorem quoted_terminates (posErr : Err) : ∀ (n : Nat) (s : Scan) (c : Option Char),
    s.input.size - s.pos + 1 < n →
    (∃ s', quotedLoop posErr n s c = .ok s') ∨ (∃ s', quotedLoop posErr n s c = .error (posErr, s')) :=
  ScanB.quoted_terminates posErr

/-- **the outer loop is bounded**: an iteration of the loop of `Scanner.scan` whose state function returns
    either made progress (consumed input or emitted a token) and the loop continues with one iteration less,
    or (no-progress guard of the second F15 repair) raises — it is never repeated on the same state. -/
theorem scanLoop_progress (cfg : ScanCfg) (st : ScanState) (n : Nat) (s s' : Scan) (h : s.pos < s.input.size)
    (hr : runState cfg st s = .ok s') (hprog : ¬ (s'.pos = s.pos ∧ s'.toks.size = s.toks.size)) :
    scanLoop cfg st (n + 1) s = scanLoop cfg st n s' :=
  ScanB.scanLoop_progress cfg st n s s' h hr hprog

theorem scanLoop_no_progress_raises (cfg : ScanCfg) (st : ScanState) (n : Nat) (s s' : Scan) (h : s.pos < s.input.size)
    (hr : runState cfg st s = .ok s') (hprog : s'.pos = s.pos ∧ s'.toks.size = s.toks.size) :
    scanLoop cfg st (n + 1) s =
      .error (((s'.next).1).err ("Invalid Input " ++ ((s'.next).1).slice ((s'.next).1).start ((s'.next).1).input.size), (s'.next).1) :=
  ScanB.scanLoop_no_progress_raises cfg st n s s' h hr hprog

/-- the loop would *not* terminate for a negated run whose candidates lack the `"\0"` sentinel: the
    model exhibits Python's non-termination (this is why `lex_opcode` spells the set `"\n\0"`) -/
example : (({ input := "ab".toList.toArray } : Scan).acceptRun ['\n'] true).toOption = none := by decide

/-- **C15 (scanner): every input terminates.**  For every scanner configuration (mnemonic / keyword
    tables), both lexing states (`lex_initial` for sources, `lex_expression` for `-D` values and
    `eval_expression_str`), every file index and every text, `Scanner.scan` returns its tokens or raises a
    `ScannerException`: the model never answers `outOfFuel`, i.e. no loop of `scanner.py` /
    `scanner_states.py` runs forever and the outer loop calls a state function at most `len(input)` times. -/
theorem scan_terminates (cfg : ScanCfg) (st : ScanState) (file : Nat) (input : List Char) :
    (scan cfg st file input).error ≠ some .outOfFuel :=
  ScanT.scan_total cfg st file input

/-- every state function either raises a real exception or returns a later state of the same input, and a
    return with `pos` unchanged has emitted nothing (so the no-progress guard fires only when nothing happened) -/
theorem state_call_progress (cfg : ScanCfg) (st : ScanState) (s s' : Scan) (h : runState cfg st s = .ok s') :
    s'.input = s.input ∧ s.pos ≤ s'.pos ∧ (s'.pos = s.pos → s'.toks.size = s.toks.size) := by
  have hp := ScanT.prog_runState cfg st s
  rw [h] at hp
  exact ⟨hp.1.input, hp.1.pos, hp.2⟩

theorem state_call_no_fuel (cfg : ScanCfg) (st : ScanState) (s s' : Scan) (e : Err)
    (h : runState cfg st s = .error (e, s')) : e ≠ .outOfFuel := by
  have hp := ScanT.prog_runState cfg st s
  rw [h] at hp
  exact hp

/-- non-vacuity: inputs that used to hang (`/*` before 6bef315, `1 $ 2` before ab4c2d0) now raise -/
example : (scan ⟨["lda"], [], []⟩ .initial 0 "/* never closed".toList).error = some (.scan "Unterminated Comment" 0 0) := by
  decide +kernel
example : ((scan ⟨[], [], []⟩ .expression 0 "1 $ 2".toList).error.map Err.tag) = some "ScannerException" := by
  decide +kernel


/-- **C15 (parser)**: for every token array and every parser configuration, with no includable source file,
    `parse_initial` started anywhere in the array with `2·(tokens left) + 6` fuel never answers `outOfFuel`:
    no loop or recursion of the parser runs more often than there are tokens left. -/
theorem parse_terminates (cfg : ParseCfg) (toks : Array Tok) (fs : FS) (hfs : fs.text = []) (pos fuel : Nat)
    (hf : 2 * (toks.size - pos) + 6 ≤ fuel) :
    (parseProgram cfg fuel).run ⟨toks, pos, fs⟩ ≠ .error .outOfFuel :=
  ((ParseFuel.all cfg toks fs hfs fuel).prog pos hf).no_fuel

/-- a successful `parse_decl` leaves the token array alone and consumed at least one token that lies inside it
    (what makes `while p.current().type != EOF: parse_decl(p)` and the block loop terminate) -/
theorem parse_decl_consumes (cfg : ParseCfg) (toks : Array Tok) (fs : FS) (hfs : fs.text = []) (pos fuel : Nat)
    (hf : 2 * (toks.size - pos) + 5 ≤ fuel) (a : Option Ast) (st' : PState)
    (h : (parseDecl cfg fuel).run ⟨toks, pos, fs⟩ = .ok (a, st')) :
    st'.toks = toks ∧ st'.fs = fs ∧ pos < st'.pos ∧ pos < toks.size := by
  obtain ⟨p', rfl, h1, h2⟩ := ((ParseFuel.all cfg toks fs hfs fuel).decl pos hf).post h
  exact ⟨rfl, rfl, h1, h2⟩

/-- an expression, when one is parsed, consumed at least one token; the opcode and keyword parsers too -/
theorem parse_expr_consumes (cfg : ParseCfg) (toks : Array Tok) (fs : FS) (hfs : fs.text = []) (pos fuel : Nat)
    (hf : 2 * (toks.size - pos) + 2 ≤ fuel) (a : PExpr) (st' : PState)
    (h : (parseExpr cfg fuel).run ⟨toks, pos, fs⟩ = .ok (a, st')) :
    st'.toks = toks ∧ st'.fs = fs ∧ pos < st'.pos ∧ pos < toks.size := by
  obtain ⟨p', rfl, h1, h2⟩ := ((ParseFuel.all cfg toks fs hfs fuel).expr pos hf).post h
  exact ⟨rfl, rfl, h1, h2⟩

/-- scanning and parsing a whole source text that cannot include other sources terminates -/
theorem parseSource_terminates (bins : List (String × List Nat)) (src : String) :
    Ops.parseSource ⟨[], bins⟩ src ≠ .error .outOfFuel := by
  unfold Ops.parseSource
  have hs := scan_terminates Ops.genScanCfg .initial 0 src.toList
  generalize scan Ops.genScanCfg .initial 0 src.toList = r at hs
  dsimp only
  split
  · rename_i e he
    intro h
    injection h with h
    rw [h] at he
    exact hs he
  · have hp := parse_terminates Ops.genParseCfg r.toks ⟨[], bins⟩ rfl 0 (4 * (r.toks.size + 0) + 64) (by omega)
    have h0 : (List.foldl (fun a (x : String × String) => a + x.2.length) 0 ([] : List (String × String))) = 0 := rfl
    split
    · intro h; cases h
    · rename_i e he
      intro h
      injection h with h
      rw [h] at he
      exact hp he

/-- non-vacuity: a deeply nested block and a long operator chain parse with the stated fuel -/
example : ((Ops.parseSource ⟨[], []⟩ "{\n{\n{\n{\nlda #1+2*(3-(4))\n}\n}\n}\n}\n").toOption.map List.length) = some 1 := by
  decide +kernel

/-- code generation is total for every nesting budget: with budget 0 it stops with `RecursionError` -/
theorem gen_budget_exhausted (env : Env) (a : Ast) (st : GenState) : (gen env 0 a).run st = .error .recursion := rfl

theorem ipsHeader_ne_fuel (copier : Bool) (addr : Int) (n : Nat) : ipsHeader copier addr n ≠ .error .outOfFuel := by
  intro h
  unfold ipsHeader at h
  by_cases hc : (if copier = true then addr + 0x200 else addr) = 0x454F46
  · simp [hc] at h
  · simp only [hc, ↓reduceIte] at h
    split at h <;> simp at h

/-- the IPS writer's split loop never runs out of its fuel `len / 0xFFFF + 1` -/
theorem ipsWrite_fuel (copier : Bool) : ∀ (fuel : Nat) (addr : Int) (block : List Nat), block.length ≤ fuel * 0xFFFF →
    ipsWriteBlockAux copier fuel addr block ≠ .error .outOfFuel := by
  intro fuel
  induction fuel with
  | zero =>
    intro addr block h
    have : block = [] := by cases block <;> simp_all
    subst this; simp [ipsWriteBlockAux]
  | succ f ih =>
    intro addr block h
    unfold ipsWriteBlockAux
    by_cases hb : block = []
    · simp [hb]
    · simp only [hb, ↓reduceIte]
      have hpos : 0 < block.length := List.length_pos_iff.mpr hb
      cases hh : ipsHeader copier addr (min 0xFFFF block.length) with
      | error e =>
        simp only
        intro hc; cases hc
        exact ipsHeader_ne_fuel _ _ _ hh
      | ok hd =>
        simp only
        have := ih (addr + ↑(min 0xFFFF block.length)) (block.drop (min 0xFFFF block.length)) (by rw [List.length_drop]; omega)
        cases hr : ipsWriteBlockAux copier f (addr + ↑(min 0xFFFF block.length)) (block.drop (min 0xFFFF block.length)) with
        | error e => simp only; intro hc; cases hc; exact this hr
        | ok r => simp

end A816.C15
