import A816.Proofs.Ips
/-!
# C11 — IPS output is well formed and patches exactly the written blocks

For **every** sequence of `(address, bytes)` writes (any lengths, any addresses, copier header on or off):
if the writer succeeds, the file is `PATCH` ++ records ++ `EOF`, the standard reader reads exactly the
expected records (each block cut into consecutive slices of 1…65535 bytes at consecutive offsets,
shifted by 0x200 with the copier header), applying them writes exactly each block's bytes at its
address in write order, an empty block contributes nothing, and offsets IPS cannot represent
(negative, ≥ 2^24, or reading as `EOF`) are refused.
-/
namespace A816.C11
open A816 Spec.Ips

/-- the records a write sequence must become -/
def expected (copier : Bool) : List (Int × List Nat) → List Record
  | [] => []
  | (addr, block) :: rest =>
    chunks (block.length / 0xFFFF + 1) (addr + shiftOf copier).toNat block ++ expected copier rest

/-! ### reader fuel: any sufficient fuel gives the same answer; the file length is sufficient -/

theorem parseRecords_mono (f : Nat) : ∀ (bs : List Nat) (r : List Record) (f' : Nat),
    parseRecords f bs = some r → f ≤ f' → parseRecords f' bs = some r := by
  induction f with
  | zero => intro bs r f' h; simp [parseRecords] at h
  | succ f ih =>
    intro bs r f' h hle
    obtain ⟨g, rfl⟩ : ∃ g, f' = g + 1 := ⟨f' - 1, by omega⟩
    unfold parseRecords at h ⊢
    by_cases he : bs.take 3 = eof
    · simpa [he] using h
    · simp only [he, ↓reduceIte] at h ⊢
      match bs, h with
      | a :: b :: c :: hh :: l :: rest, h =>
        simp only at h ⊢
        by_cases hz : hh * 256 + l = 0
        · simp only [hz, ↓reduceIte] at h ⊢
          match rest, h with
          | ch :: cl :: v :: rest', h =>
            simp only [Option.map_eq_some_iff] at h ⊢
            obtain ⟨rs, h1, h2⟩ := h
            exact ⟨rs, ih _ _ g h1 (by omega), h2⟩
        · simp only [hz, ↓reduceIte] at h ⊢
          by_cases hl : rest.length < hh * 256 + l
          · simp [hl] at h
          · simp only [hl, ↓reduceIte, Option.map_eq_some_iff] at h ⊢
            obtain ⟨rs, h1, h2⟩ := h
            exact ⟨rs, ih _ _ g h1 (by omega), h2⟩

theorem parseRecords_fuel (f : Nat) : ∀ (bs : List Nat) (r : List Record),
    parseRecords f bs = some r → parseRecords (bs.length + 1) bs = some r := by
  induction f with
  | zero => intro bs r h; simp [parseRecords] at h
  | succ f ih =>
    intro bs r h
    unfold parseRecords at h ⊢
    by_cases he : bs.take 3 = eof
    · simpa [he] using h
    · simp only [he, ↓reduceIte] at h ⊢
      match bs, h with
      | a :: b :: c :: hh :: l :: rest, h =>
        simp only at h ⊢
        by_cases hz : hh * 256 + l = 0
        · simp only [hz, ↓reduceIte] at h ⊢
          match rest, h with
          | ch :: cl :: v :: rest', h =>
            simp only [Option.map_eq_some_iff] at h ⊢
            obtain ⟨rs, h1, h2⟩ := h
            refine ⟨rs, ?_, h2⟩
            exact parseRecords_mono _ _ _ _ (ih _ _ h1) (by simp only [List.length_cons]; omega)
        · simp only [hz, ↓reduceIte] at h ⊢
          by_cases hl : rest.length < hh * 256 + l
          · simp [hl] at h
          · simp only [hl, ↓reduceIte, Option.map_eq_some_iff] at h ⊢
            obtain ⟨rs, h1, h2⟩ := h
            refine ⟨rs, ?_, h2⟩
            exact parseRecords_mono _ _ _ _ (ih _ _ h1) (by simp only [List.length_cons, List.length_drop]; omega)

/-- `∃ fuel` form of reading -/
def Reads (bs : List Nat) (recs : List Record) : Prop := ∃ f, parseRecords f bs = some recs

theorem reads_block (copier : Bool) (addr : Int) (block tail out : List Nat) (rs : List Record)
    (hw : ipsWriteBlock copier addr block = .ok out) (ht : Reads tail rs) :
    Reads (out ++ tail) (chunks (block.length / 0xFFFF + 1) (addr + shiftOf copier).toNat block ++ rs) := by
  obtain ⟨f, hf⟩ := ht
  unfold ipsWriteBlock at hw
  let fuel := block.length / 0xFFFF + 1
  obtain ⟨a, ha, hp⟩ := writeBlock_parse copier fuel addr block tail out (fuel + f) hw (by omega)
  have hlen := chunks_length_le fuel a block
  have hchunks : chunks fuel a block = chunks fuel (addr + shiftOf copier).toNat block := by
    by_cases hb : block = []
    · subst hb; simp [fuel, chunks]
    · have := ha hb
      have : a = (addr + shiftOf copier).toNat := by omega
      rw [this]
  refine ⟨fuel + f + 1, ?_⟩
  rw [hp, parseRecords_mono f tail rs _ hf (by omega)]
  simp [hchunks, fuel]

theorem reads_blocks (copier : Bool) (blocks : List (Int × List Nat)) (body : List Nat)
    (hw : ipsWriteBlocks copier blocks = .ok body) : Reads (body ++ ipsEof) (expected copier blocks) := by
  induction blocks generalizing body with
  | nil =>
    simp only [ipsWriteBlocks, Except.ok.injEq] at hw
    subst hw
    exact ⟨1, by simp [parseRecords, ipsEof, eof, expected]⟩
  | cons b rest ih =>
    obtain ⟨addr, block⟩ := b
    unfold ipsWriteBlocks at hw
    cases h1 : ipsWriteBlock copier addr block with
    | error e => simp [h1] at hw
    | ok o1 =>
      cases h2 : ipsWriteBlocks copier rest with
      | error e => simp [h1, h2] at hw
      | ok o2 =>
        simp only [h1, h2, Except.ok.injEq] at hw
        subst hw
        have := reads_block copier addr block (o2 ++ ipsEof) o1 _ h1 (ih o2 h2)
        simpa [expected, List.append_assoc] using this

/-- **C11 (well-formed, reads back)**: the file is `PATCH` ++ body ++ `EOF` and a standard reader
    reads exactly the expected records. -/
theorem write_parses (copier : Bool) (blocks : List (Int × List Nat)) (file : List Nat)
    (h : ipsFile copier blocks = .ok file) :
    (∃ body, file = magic ++ body ++ eof) ∧ Spec.Ips.parse file = some (expected copier blocks) := by
  unfold ipsFile at h
  cases hb : ipsWriteBlocks copier blocks with
  | error e => simp [hb] at h
  | ok body =>
    simp only [hb, Except.ok.injEq] at h
    subst h
    refine ⟨⟨body, rfl⟩, ?_⟩
    obtain ⟨f, hf⟩ := reads_blocks copier blocks body hb
    unfold Spec.Ips.parse
    have h5 : (ipsMagic ++ body ++ ipsEof).take 5 = magic := by simp [ipsMagic, magic]
    have hd : (ipsMagic ++ body ++ ipsEof).drop 5 = body ++ ipsEof := by simp [ipsMagic]
    rw [if_pos h5, hd]
    have := parseRecords_fuel f _ _ hf
    exact parseRecords_mono _ _ _ _ this (by simp [ipsMagic] <;> omega)

/-! ### the records tile each block: sizes 1…65535, consecutive offsets, data = the block -/

theorem chunks_sizes (fuel a : Nat) (block : List Nat) :
    ∀ r ∈ chunks fuel a block, 1 ≤ r.data.length ∧ r.data.length ≤ 65535 := by
  induction fuel generalizing a block with
  | zero => simp [chunks]
  | succ f ih =>
    intro r hr
    unfold chunks at hr
    by_cases hb : block = []
    · simp [hb] at hr
    · simp only [hb, ↓reduceIte, List.mem_cons] at hr
      rcases hr with rfl | hr
      · have : 0 < block.length := List.length_pos_iff.mpr hb
        simp only [List.length_take]; omega
      · exact ih _ _ r hr

theorem writeAt_split (img : Image) (a n : Nat) (data : List Nat) (hn : n ≤ data.length) :
    writeAt (writeAt img a (data.take n)) (a + n) (data.drop n) = writeAt img a data := by
  funext k
  unfold writeAt
  simp only [List.length_take, List.length_drop]
  have hmin : min n data.length = n := by omega
  rw [hmin]
  by_cases h1 : a + n ≤ k ∧ k < a + n + (data.length - n)
  · have h2 : a ≤ k ∧ k < a + data.length := by omega
    simp only [h1, and_self, ↓reduceIte, h2, List.getElem?_drop]
    congr 1; omega
  · simp only [h1, ↓reduceIte]
    by_cases h3 : a ≤ k ∧ k < a + n
    · have h2 : a ≤ k ∧ k < a + data.length := by omega
      simp only [h3, and_self, ↓reduceIte, h2, List.getElem?_take]
      have : k - a < n := by omega
      simp [this]
    · have h2 : ¬ (a ≤ k ∧ k < a + data.length) := by omega
      simp [h3, h2]

theorem writeAt_nil (img : Image) (a : Nat) : writeAt img a [] = img := by
  funext k; unfold writeAt; simp; intro h1 h2; omega

/-- **Applying the records of a block writes exactly the block at its offset** (any length). -/
theorem apply_chunks (fuel a : Nat) (block : List Nat) (img : Image) (rest : List Record)
    (hf : block.length ≤ fuel * 0xFFFF) :
    apply img (chunks fuel a block ++ rest) = apply (writeAt img a block) rest := by
  induction fuel generalizing a block img with
  | zero =>
    have : block = [] := by cases block <;> simp_all
    subst this; simp [chunks, writeAt_nil]
  | succ f ih =>
    unfold chunks
    by_cases hb : block = []
    · subst hb; simp [writeAt_nil]
    · simp only [hb, ↓reduceIte, List.cons_append, apply]
      rw [ih _ _ _ (by rw [List.length_drop]; omega)]
      rw [writeAt_split img a _ block (by omega)]

/-- the direct effect of a write sequence on an image (offsets shifted by the copier header) -/
def directWrites (copier : Bool) (img : Image) : List (Int × List Nat) → Image
  | [] => img
  | (addr, block) :: rest => directWrites copier (writeAt img (addr + shiftOf copier).toNat block) rest

/-- **C11 (patch effect)**: applying the file with a standard patcher writes exactly each block's
    bytes at its address (+0x200 with the copier header), in write order, and nothing else. -/
theorem apply_is_writes (copier : Bool) (blocks : List (Int × List Nat)) (img : Image) :
    apply img (expected copier blocks) = directWrites copier img blocks := by
  induction blocks generalizing img with
  | nil => simp [expected, apply, directWrites]
  | cons b rest ih =>
    obtain ⟨addr, block⟩ := b
    simp only [expected, directWrites]
    rw [apply_chunks _ _ _ _ _ (by
      have := Nat.div_add_mod block.length 0xFFFF
      have := Nat.mod_lt block.length (show 0xFFFF > 0 by decide)
      rw [Nat.add_mul]; omega)]
    exact ih _

/-- An empty block changes nothing: it produces no record. -/
theorem empty_block_noop (copier : Bool) (addr : Int) : ipsWriteBlock copier addr [] = .ok [] := by
  simp [ipsWriteBlock, ipsWriteBlockAux]

/-- Offsets IPS cannot represent are refused, never wrapped: a non-empty block whose (shifted) address
    is negative, ≥ 2^24, or the `EOF` marker value makes the write fail. -/
theorem unrepresentable_refused (copier : Bool) (addr : Int) (block : List Nat) (hb : block ≠ [])
    (h : addr + shiftOf copier < 0 ∨ 16777216 ≤ addr + shiftOf copier ∨ addr + shiftOf copier = 0x454F46) :
    ∃ e, ipsWriteBlock copier addr block = .error e := by
  cases hw : ipsWriteBlock copier addr block with
  | error e => exact ⟨e, rfl⟩
  | ok out =>
    exfalso
    unfold ipsWriteBlock ipsWriteBlockAux at hw
    simp only [hb, ↓reduceIte] at hw
    cases hh : ipsHeader copier addr (min 0xFFFF block.length) with
    | error e => simp [hh] at hw
    | ok hd =>
      obtain ⟨a, ha1, ha2, ha3, _⟩ := ipsHeader_ok copier addr _ hd (by omega) hh
      omega

/-! non-vacuity: the repository's own test vector, and a split block -/
example : (ipsFile false [(0x8000, [1, 2, 3])]).toOption
    = some (ipsMagic ++ [0x00, 0x80, 0x00, 0x00, 0x03, 1, 2, 3] ++ ipsEof) := by decide +kernel
example : (ipsFile true [(0x454D46, [1])]).toOption = none := by decide +kernel

end A816.C11
