import A816.Proofs.Ips
/-!
# C13 — Including an IPS patch reproduces that patch's effect, shifted by delta

For **every** byte string: if it is a well-formed IPS patch (`Spec.Ips.parse` accepts it: plain and
run-length records, any sizes) the `.include_ips` reader hands the writer exactly the patch's
records, in order, each at its offset plus `delta`, byte for byte (run-length records expanded);
if it is not well formed (no `PATCH`, truncated record, no `EOF`) the reader raises.
-/
namespace A816.C13
open A816 Spec.Ips

def shifted (delta : Int) (recs : List Record) : List (Int × List Nat) :=
  recs.map fun r => ((r.offset : Int) + delta, r.data)

theorem read_records (delta : Int) (fuel : Nat) : ∀ (bs : List Nat),
    (∀ recs, parseRecords fuel bs = some recs → ipsReadRecords delta fuel bs = .ok (shifted delta recs)) ∧
    (parseRecords fuel bs = none → ∃ e, ipsReadRecords delta fuel bs = .error e) := by
  induction fuel with
  | zero => intro bs; simp [parseRecords, ipsReadRecords]
  | succ f ih =>
    intro bs
    unfold parseRecords ipsReadRecords
    by_cases he : bs.take 3 = eof
    · have heq : eof = ipsEof := rfl
      rw [heq] at he
      simp [he, shifted, ← heq]
    · have he' : ¬ bs.take 3 = ipsEof := he
      simp only [he, he', ↓reduceIte]
      match bs with
      | [] => simp
      | [_] => simp
      | [_, _] => simp
      | [_, _, _] => simp
      | [_, _, _, _] => simp
      | a :: b :: c :: h :: l :: rest =>
        simp only [List.take_succ_cons, List.take_zero, List.length_cons, List.length_nil, ne_eq,
          not_true_eq_false, ↓reduceIte, List.drop_succ_cons, List.drop_zero, List.getElem!_cons_zero,
          List.getElem!_cons_succ]
        by_cases hz : h * 256 + l = 0
        · simp only [hz, ↓reduceIte]
          match rest with
          | [] => simp
          | [_] => simp
          | [_, _] => simp
          | ch :: cl :: v :: rest' =>
            simp only [List.take_succ_cons, List.take_zero, List.length_cons, List.length_nil, ne_eq,
              not_true_eq_false, ↓reduceIte, List.drop_succ_cons, List.drop_zero, List.getElem!_cons_zero,
              List.getElem!_cons_succ]
            obtain ⟨ih1, ih2⟩ := ih rest'
            constructor
            · intro recs hr
              simp only [Option.map_eq_some_iff] at hr
              obtain ⟨rs, h1, h2⟩ := hr
              rw [ih1 rs h1, ← h2]
              simp [shifted]
            · intro hn
              simp only [Option.map_eq_none_iff] at hn
              obtain ⟨e, he⟩ := ih2 hn
              exact ⟨e, by rw [he]⟩
        · simp only [hz, ↓reduceIte]
          by_cases hl : rest.length < h * 256 + l
          · have : ¬ (min (h * 256 + l) rest.length = h * 256 + l) := by omega
            simp [hl, this]
          · have : (List.take (h * 256 + l) rest).length = h * 256 + l := by
              rw [List.length_take]; omega
            simp only [hl, ↓reduceIte, this, not_true_eq_false]
            obtain ⟨ih1, ih2⟩ := ih (rest.drop (h * 256 + l))
            constructor
            · intro recs hr
              simp only [Option.map_eq_some_iff] at hr
              obtain ⟨rs, h1, h2⟩ := hr
              rw [ih1 rs h1, ← h2]
              simp [shifted]
            · intro hn
              simp only [Option.map_eq_none_iff] at hn
              obtain ⟨e, he⟩ := ih2 hn
              exact ⟨e, by rw [he]⟩

/-- **C13 (effect)**: a well-formed patch is reproduced record by record, shifted by `delta`. -/
theorem include_is_shifted_patch (file : List Nat) (delta : Int) (recs : List Record)
    (h : Spec.Ips.parse file = some recs) : ipsReadInclude file delta = .ok (shifted delta recs) := by
  unfold Spec.Ips.parse at h
  unfold ipsReadInclude
  by_cases hm : file.take 5 = magic
  · have hm' : ¬ (file.take 5 ≠ ipsMagic) := by
      have : magic = ipsMagic := rfl
      rw [this] at hm; simpa using hm
    simp only [hm, ↓reduceIte] at h
    simp only [hm', ↓reduceIte]
    exact (read_records delta _ _).1 recs h
  · simp [hm] at h

/-- **C13 (rejection)**: a file that is not a well-formed patch is rejected. -/
theorem malformed_rejected (file : List Nat) (delta : Int) (h : Spec.Ips.parse file = none) :
    ∃ e, ipsReadInclude file delta = .error e := by
  unfold Spec.Ips.parse at h
  unfold ipsReadInclude
  by_cases hm : file.take 5 = magic
  · have hm' : ¬ (file.take 5 ≠ ipsMagic) := by
      have : magic = ipsMagic := rfl
      rw [this] at hm; simpa using hm
    simp only [hm, ↓reduceIte] at h
    simp only [hm', ↓reduceIte]
    exact (read_records delta _ _).2 h
  · have hm' : file.take 5 ≠ ipsMagic := hm
    exact ⟨.runtime, by simp [hm']⟩

/-- round trip with the writer: including a file the IPS writer produced yields the writer's own
    records (so `.include_ips` of an assembled patch reproduces the assembly, shifted). -/
theorem include_of_written (copier : Bool) (blocks : List (Int × List Nat)) (file : List Nat) (delta : Int)
    (_h : ipsFile copier blocks = .ok file) (recs : List Record) (hp : Spec.Ips.parse file = some recs) :
    ipsReadInclude file delta = .ok (shifted delta recs) :=
  include_is_shifted_patch file delta recs hp

/-! non-vacuity: a plain record, a run-length record, a truncated file -/
example : (ipsReadInclude (ipsMagic ++ [0, 0x80, 0, 0, 2, 0xAA, 0xBB] ++ [0, 0x90, 0, 0, 0, 0, 3, 0x55] ++ ipsEof) 0x10).toOption
    = some [(0x8010, [0xAA, 0xBB]), (0x9010, [0x55, 0x55, 0x55])] := by decide +kernel
example : (ipsReadInclude (ipsMagic ++ [0, 0x80, 0, 0, 2, 0xAA] ++ ipsEof) 0).toOption = none := by decide +kernel
example : Spec.Ips.parse (ipsMagic ++ [0, 0x80, 0, 0, 2, 0xAA, 0xBB] ++ ipsEof) = some [⟨0x8000, [0xAA, 0xBB]⟩] := by
  decide +kernel

end A816.C13
