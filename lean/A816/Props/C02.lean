import A816.Props.C07
import A816.Props.C03
import A816.Props.C05
import A816.Proofs.LabelCheck
import A816.Proofs.LabelScopesBin
/-!
# C02 — Every label equals the address where the next byte is really emitted

On the model of the passes (after the F02 repair):

* `C02_labels`: whenever emission of a node list succeeds, every label node — and every `.incbin` node,
  whose start symbol is position-derived — was emitted at a run address equal to the value the label
  pass gave that name in the scope current at that point.  When the two cannot agree the emission fails
  (`label_moved_fails`) instead of producing shifted addresses.
* `next_byte_at_label`: the bytes emitted after a label (up to the next `*=`/`@=`) start exactly at that
  run address: a zero-length statement does not move the run address.
* `*_size_agree`: the size a statement is given while labels are resolved equals the number of bytes it
  emits, for every statement kind (data, `.ascii`, `.text`, `.incbin`, implied / relative / sized
  instructions with a suffix, and instructions with an inferred width **when the operand has the same
  value in both passes** — the only way the two can differ, which is what the check above catches).
-/
namespace A816.C02
open A816

/-- what the label check establishes for a node, in the resolver state it is emitted in: the label pass gave
    the name the run address, and the name *evaluates* to that address there -/
def LabelAt (n : Node) (r : Resolver) : Prop :=
  match n with
  | .label name => alookup name r.cur.labels = some (r.reloc.logical : Int) ∧ r.look name = .int (r.reloc.logical : Int)
  | .binary _ base => alookup base r.cur.labels = some (r.reloc.logical : Int) ∧ r.look base = .int (r.reloc.logical : Int)
  | _ => True

theorem checkLabel_ok (r : Resolver) (name : String) (a : Address) (h : checkLabel r name a = .ok ()) :
    alookup name r.cur.labels = some (a.logical : Int) ∧ r.look name = .int (a.logical : Int) := by
  unfold checkLabel at h
  split at h
  · rename_i hl
    refine ⟨hl, ?_⟩
    unfold Resolver.look
    split at h
    · rename_i v hv
      split at h
      · rename_i he; rw [hv, he]
      · cases h
    · cases h
  · cases h

theorem emitNode_labelAt (env : Env) (n : Node) (r r1 : Resolver) (bs : List Nat)
    (h : emitNode env n r = .ok (r1, bs)) : LabelAt n r := by
  cases n <;> simp only [LabelAt]
  case label name =>
    unfold emitNode at h
    cases hc : checkLabel r name r.reloc with
    | error e => simp [hc, Except.map] at h
    | ok u => exact checkLabel_ok r name r.reloc hc
  case binary content base =>
    unfold emitNode at h
    cases hc : checkLabel r base r.reloc with
    | error e => simp [hc, Except.map] at h
    | ok u => exact checkLabel_ok r base r.reloc hc

/-- **C02 (labels)**: if a node list is emitted successfully, then at every label / incbin node the
    run address (recorded in the trace) equals the value the name has in the current scope. -/
theorem C02_labels (env : Env) (pre : List Node) (n : Node) (post : List Node) (st st' : EmitState)
    (h : emitLoop env (pre ++ n :: post) st = .ok st') :
    ∃ s1 s2, emitLoop env pre st = .ok s1 ∧ emitStep env n s1 = .ok s2 ∧ LabelAt n s1.r ∧
      ∃ bs, s2.trace = s1.trace ++ [⟨s1.r.reloc.logical, s1.blockAddr + s1.block.length, bs⟩] := by
  obtain ⟨s1, s2, h1, h2, _⟩ := emitLoop_split env pre n post st st' h
  obtain ⟨r1, bs, hem, htr, _⟩ := emitStep_spec env n s1 s2 h2
  exact ⟨s1, s2, h1, h2, emitNode_labelAt env n s1.r r1 bs hem, bs, htr⟩

/-- **a label evaluates to its address**: in the state a label node is emitted in, an expression that is
    just the label's name evaluates to the run address (`LabelAt` unfolded for the evaluator's lookup). -/
theorem label_evaluates (env : Env) (name : String) (r r1 : Resolver) (bs : List Nat)
    (h : emitNode env (.label name) r = .ok (r1, bs)) : r.look name = .int (r.reloc.logical : Int) :=
  (emitNode_labelAt env (.label name) r r1 bs h).2

/-- a label hidden by a `=` symbol / block parameter of the same name in its scope fails too -/
theorem label_hidden_fails (env : Env) (name : String) (r : Resolver)
    (h : r.look name ≠ .int (r.reloc.logical : Int)) : ∃ e, emitNode env (.label name) r = .error e := by
  cases hr : emitNode env (.label name) r with
  | error e => exact ⟨e, rfl⟩
  | ok p => obtain ⟨r1, bs⟩ := p; exact absurd (label_evaluates env name r r1 bs hr) h

/-- **fails instead of shifting**: a label whose resolved value differs from the run address makes the
    emission fail with a `NodeError`. -/
theorem label_moved_fails (env : Env) (name : String) (r : Resolver)
    (h : alookup name r.cur.labels ≠ some (r.reloc.logical : Int)) :
    emitNode env (.label name) r = .error (.node "label-moved" (-1)) := by
  simp [emitNode, checkLabel, h, Except.map]

/-- a statement that emits nothing and is not a position directive leaves the run address where it is:
    the first byte emitted after a label is placed at the label's address -/
theorem next_byte_at_label (env : Env) (n : Node) (st st' : EmitState) (h : emitStep env n st = .ok st')
    (r1 : Resolver) (hem : emitNode env n st.r = .ok (r1, [])) (hsame : r1.reloc = st.r.reloc) :
    st'.r.reloc = st.r.reloc ∧ (n.isCodePos = false → st'.blockAddr + st'.block.length = st.blockAddr + st.block.length) := by
  obtain ⟨r1', bs, hem', _, hnil, _, hnc, _⟩ := emitStep_spec env n st st' h
  rw [hem] at hem'
  simp only [Except.ok.injEq, Prod.mk.injEq] at hem'
  obtain ⟨rfl, rfl⟩ := hem'
  refine ⟨by rw [hnil rfl, hsame], ?_⟩
  intro hn
  obtain ⟨hb, ha, _⟩ := hnc hn
  rw [hb, ha]; simp

/-- the label pass records the run address: `pc_after` of a label stores the current address -/
theorem label_pass_value (env : Env) (name : String) (r r1 : Resolver) (pc pc' : Address)
    (h : pcAfter env (.label name) r pc = .ok (r1, pc')) : pc' = pc ∧ r1 = r.addLabel name pc.logical := by
  simp only [pcAfter, Except.ok.injEq, Prod.mk.injEq] at h
  exact ⟨h.2.symm, h.1.symm⟩

/-! ### sizes agree, statement kind by statement kind -/

/-- sized instruction with an explicit suffix: `1 + w` in both passes -/
theorem sized_suffix_size_agree (e : OpEntry) (w : Nat) (v : Int) (bs : List Nat) (hk : e.kind = .sized)
    (hw : w = 1 ∨ w = 2 ∨ w = 3) (h : emitEntry e (some w) (some v) = .ok bs) :
    supposedLength e (some w) (some v) = .ok bs.length := by
  unfold emitEntry at h
  unfold supposedLength
  simp only [hk, guessSize] at h ⊢
  cases hb : opcodeByte e w with
  | none => simp [hb] at h
  | some op =>
    simp only [hb] at h
    cases hp : packB (op : Int) with
    | none => simp [hp] at h
    | some b =>
      cases hv : emitValue w v with
      | none => simp [hp, hv] at h
      | some vb =>
        simp only [hp, hv, Except.ok.injEq] at h
        subst h
        have hbl : b.length = 1 := by
          unfold packB at hp; split at hp
          · cases hp; rfl
          · cases hp
        have hvl : vb.length = w := by
          obtain ⟨hvb, _⟩ := emitValue_le w v vb hw hv
          rw [hvb, C07.leBytes_length]
        simp [hbl, hvl] <;> omega

/-- sized instruction with an inferred width: both passes agree when the operand evaluates to the
    same value in both (the width is a function of the value) -/
theorem sized_inferred_size_agree (e : OpEntry) (v : Int) (bs : List Nat) (hk : e.kind = .sized)
    (h : emitEntry e none (some v) = .ok bs) : supposedLength e none (some v) = .ok bs.length := by
  unfold emitEntry at h
  unfold supposedLength
  simp only [hk, guessSize] at h ⊢
  have hw := operandSize_range v
  generalize operandSize v = w at h hw ⊢
  cases hb : opcodeByte e w with
  | none => simp [hb] at h
  | some op =>
    simp only [hb] at h
    cases hp : packB (op : Int) with
    | none => simp [hp] at h
    | some b =>
      cases hv : emitValue w v with
      | none => simp [hp, hv] at h
      | some vb =>
        simp only [hp, hv, Except.ok.injEq] at h
        subst h
        have hbl : b.length = 1 := by
          unfold packB at hp; split at hp
          · cases hp; rfl
          · cases hp
        have hvl : vb.length = w := by
          obtain ⟨hvb, _⟩ := emitValue_le w v vb hw hv
          rw [hvb, C07.leBytes_length]
        simp [hbl, hvl] <;> omega

/-- implied instruction: one byte in both passes -/
theorem implied_size_agree (e : OpEntry) (sfx : Option Nat) (bs : List Nat) (hk : e.kind = .implied)
    (h : emitEntry e sfx none = .ok bs) : supposedLength e sfx none = .ok bs.length := by
  unfold emitEntry at h
  unfold supposedLength
  simp only [hk] at h ⊢
  cases hb : opcodeByte e 1 with
  | none => simp [hb] at h
  | some op =>
    simp only [hb] at h
    unfold packB at h
    by_cases hop : (0 : Int) ≤ (op : Int) ∧ (op : Int) ≤ 255
    · simp only [hop, and_self, ↓reduceIte, Except.ok.injEq] at h; subst h; rfl
    · have : ¬ ((op : Int) ≤ 255) := by omega
      simp [this] at h

/-- relative branch: two bytes in both passes -/
theorem relative_size_agree (r : Resolver) (e : OpEntry) (v : Int) (bs : List Nat)
    (h : emitRelative r e v = .ok bs) : bs.length = 2 := by
  obtain ⟨_, _, _, _, _, _, _, _, _, _, _, _, hbs⟩ := C05.C05_encode r e v bs h
  rw [hbs]; rfl

/-- `.text`: the same table encoding gives the size and the bytes -/
theorem text_size_agree (env : Env) (s : String) (tbl : Option Tbl) (info : Tok) (r r1 r2 : Resolver) (pc pc' : Address)
    (bs : List Nat) (hp : pcAfter env (.text s tbl info) r pc = .ok (r1, pc'))
    (he : emitNode env (.text s tbl info) r2 = .ok (r2, bs)) : pc.add bs.length = some pc' := by
  unfold pcAfter at hp
  unfold emitNode at he
  cases ht : textBytes s tbl info with
  | error e => simp [ht, Except.map] at he
  | ok tb =>
    simp only [ht, Except.map, Except.ok.injEq, Prod.mk.injEq] at he hp
    obtain ⟨_, rfl⟩ := he
    unfold addrAdd at hp
    cases ha : pc.add tb.length with
    | none => simp [ha] at hp
    | some a => simp only [ha, Except.ok.injEq, Prod.mk.injEq] at hp; rw [hp.2]


/-! ### the two passes walk the same addresses (whole node lists)

`Program.resolve_labels` gives every statement an address by adding up sizes (`pc_after`); `Program.emit`
gives it the address reached by adding up emitted bytes.  `Agree` names the only ways a single node can make the
two differ — an operand whose *inferred* width differs between the passes, a `*=` / `@=` whose target evaluates
differently, a zero-length statement at an address that advancing by 0 would move (an address below its bank
window) — and `pass_addresses_agree` shows that these are the only ways: whenever every node of a list
satisfies `Agree` in the states the two passes reach it in, both passes reach every node at the same address. -/

/-- emission advances the run address by the emitted bytes (not at all for an empty emission) -/
def advance (a : Address) (bs : List Nat) : Except Err Address :=
  if bs.isEmpty then .ok a else addrAdd a bs.length

/-- the per-node side conditions (see above); `rp` / `re` are the resolver states of the label pass and of
    emission at that node, `pc` the address the label pass reached it at -/
def Agree (env : Env) (n : Node) (rp re : Resolver) (pc : Address) : Prop :=
  match n with
  | .opcode _ (some w) _ _ _ _ => w = 1 ∨ w = 2 ∨ w = 3
  | .opcode _ none _ _ (some ve) info =>
      ∀ v1 v2, getValue env rp ve info = .ok v1 → getValue env re ve info = .ok v2 → operandSize v1 = operandSize v2
  | .codePos e info | .reloc e info =>
      rp.getBus = re.getBus ∧ ∀ v1 v2, getValue env rp e info = .ok v1 → getValue env re e info = .ok v2 → v1 = v2
  | .data w _ _ => w = 0 → addrAdd pc 0 = .ok pc
  | .ascii s => asciiBytes s = [] → addrAdd pc 0 = .ok pc
  | .text s tbl info => textBytes s tbl info = .ok [] → addrAdd pc 0 = .ok pc
  | .binary content _ => content = [] → addrAdd pc 0 = .ok pc
  | _ => True

theorem advance_of_len (pc pc' : Address) (bs : List Nat) (h : addrAdd pc bs.length = .ok pc')
    (hz : bs = [] → addrAdd pc 0 = .ok pc) : advance pc bs = .ok pc' := by
  unfold advance
  cases bs with
  | nil =>
    have := hz rfl
    simp only [List.length_nil] at h
    rw [this] at h
    simp only [List.isEmpty_nil, ↓reduceIte]
    exact h
  | cons b t => simpa using h

theorem useNextScope_reloc (r r' : Resolver) (h : r.useNextScope = some r') : r'.reloc = r.reloc := by
  unfold Resolver.useNextScope at h
  split at h
  · cases h; rfl
  · cases h

theorem restoreScope_reloc (r r' : Resolver) (b : Bool) (h : r.restoreScope b = some r') : r'.reloc = r.reloc := by
  unfold Resolver.restoreScope at h
  simp only [Resolver.cur, Resolver.scopeAt] at h
  split at h
  · cases h
  · simp only [Option.some.injEq] at h
    split at h <;> (rw [← h])

theorem setPosition_reloc (r r' : Resolver) (v : Int) (h : r.setPosition v = some r') :
    ∃ bus a, r.getBus = some bus ∧ Address.mk? bus v = some a ∧ r'.reloc = a := by
  unfold Resolver.setPosition at h
  split at h
  · cases h
  · rename_i bus hb
    split at h
    · cases h
    · rename_i a ha
      cases h
      exact ⟨bus, a, hb, ha, rfl⟩

theorem wrap_ok (x : Except Err (List Nat)) (info : Tok) (re re' : Resolver) (bs : List Nat)
    (h : (match x with
          | .error (.node msg _) => Except.error (nodeErr msg info)
          | .error er => Except.error er
          | .ok b => Except.ok (re, b)) = Except.ok (re', bs)) : x = .ok bs ∧ re' = re := by
  cases x with
  | error er => cases er <;> simp at h
  | ok b =>
    simp only [Except.ok.injEq, Prod.mk.injEq] at h
    exact ⟨by rw [h.2], h.1.symm⟩

/-- **sizes agree, node by node**: if the label pass gives a node the address `pc` and moves on to `pc'`, and
    emission of the same node at the same address yields `bs`, then advancing by `bs` arrives at `pc'` too. -/
theorem node_size_agree (env : Env) (n : Node) (rp rp' re re' : Resolver) (pc pc' : Address) (bs : List Nat)
    (hreloc : re.reloc = pc) (hag : Agree env n rp re pc)
    (hp : pcAfter env n rp pc = .ok (rp', pc')) (he : emitNode env n re = .ok (re', bs)) :
    advance re'.reloc bs = .ok pc' := by
  cases n with
  | label name =>
    simp only [pcAfter, Except.ok.injEq, Prod.mk.injEq] at hp
    unfold emitNode at he
    cases hc : checkLabel re name re.reloc with
    | error e => simp [hc, Except.map] at he
    | ok u =>
      simp only [hc, Except.map, Except.ok.injEq, Prod.mk.injEq] at he
      obtain ⟨rfl, rfl⟩ := he
      simp [advance, hreloc, hp.2]
  | symbol name e =>
    unfold pcAfter at hp
    cases hv : evalP env rp e with
    | error er => simp [hv] at hp
    | ok v =>
      simp only [hv, Except.ok.injEq, Prod.mk.injEq] at hp
      simp only [emitNode, Except.ok.injEq, Prod.mk.injEq] at he
      obtain ⟨rfl, rfl⟩ := he
      simp [advance, hreloc, hp.2]
  | argSymbol name e =>
    unfold pcAfter at hp
    cases hpar : rp.cur.parent with
    | none => simp [hpar] at hp
    | some par =>
      simp only [hpar] at hp
      cases hv : evalP env { rp with current := par } e with
      | error er => simp [hv] at hp
      | ok v =>
        simp only [hv, Except.ok.injEq, Prod.mk.injEq] at hp
        simp only [emitNode, Except.ok.injEq, Prod.mk.injEq] at he
        obtain ⟨rfl, rfl⟩ := he
        simp [advance, hreloc, hp.2]
  | symbolConst name v =>
    simp only [pcAfter, Except.ok.injEq, Prod.mk.injEq] at hp
    simp only [emitNode, Except.ok.injEq, Prod.mk.injEq] at he
    obtain ⟨rfl, rfl⟩ := he
    simp [advance, hreloc, hp.2]
  | binary content base =>
    unfold pcAfter at hp
    cases ha : addrAdd pc content.length with
    | error er => simp [ha] at hp
    | ok a =>
      simp only [ha, Except.ok.injEq, Prod.mk.injEq] at hp
      unfold emitNode at he
      cases hc : checkLabel re base re.reloc with
      | error e => simp [hc, Except.map] at he
      | ok u =>
        simp only [hc, Except.map, Except.ok.injEq, Prod.mk.injEq] at he
        obtain ⟨rfl, rfl⟩ := he
        rw [hreloc, ← hp.2]
        exact advance_of_len pc a content ha hag
  | data w e info =>
    unfold pcAfter at hp
    cases ha : addrAdd pc w with
    | error er => simp [ha, Except.map] at hp
    | ok a =>
      simp only [ha, Except.map, Except.ok.injEq, Prod.mk.injEq] at hp
      unfold emitNode at he
      cases hv : getValue env re e info with
      | error er => simp [hv] at he
      | ok v =>
        simp only [hv, Except.ok.injEq, Prod.mk.injEq] at he
        obtain ⟨rfl, rfl⟩ := he
        rw [hreloc, ← hp.2]
        apply advance_of_len
        · rw [C07.leBytes_length]; exact ha
        · intro hnil
          have hl := congrArg List.length hnil
          rw [C07.leBytes_length] at hl
          exact hag (by simpa using hl)
  | opcode mn size mode index value info =>
    unfold pcAfter at hp
    unfold emitNode at he
    cases hem : opcodeEmitter env mn mode index info with
    | error er => simp [hem] at hp
    | ok e =>
      simp only [hem] at hp he
      cases hk : e.kind with
      | implied =>
        simp only [hk] at hp he
        cases hb : emitEntry e size none with
        | error er => simp [hb, Except.map] at he
        | ok b =>
          simp only [hb, Except.map, Except.ok.injEq, Prod.mk.injEq] at he
          obtain ⟨rfl, rfl⟩ := he
          have hl := implied_size_agree e size b hk hb
          simp only [supposedLength, hk, Except.ok.injEq] at hl
          cases ha : addrAdd pc 1 with
          | error er => simp [ha, Except.map] at hp
          | ok a =>
            simp only [ha, Except.map, Except.ok.injEq, Prod.mk.injEq] at hp
            rw [hreloc, ← hp.2]
            apply advance_of_len
            · rw [← hl]; exact ha
            · intro hnil; rw [hnil] at hl; simp only [List.length_nil] at hl; omega
      | relative =>
        simp only [hk] at hp he
        cases value with
        | none => simp at he
        | some ve =>
          simp only at he
          cases hv : getValue env re ve info with
          | error er => simp [hv] at he
          | ok v =>
            simp only [hv] at he
            cases hb : emitRelative re e v with
            | error er => simp [hb, Except.map] at he
            | ok b =>
              simp only [hb, Except.map, Except.ok.injEq, Prod.mk.injEq] at he
              obtain ⟨rfl, rfl⟩ := he
              have hl := relative_size_agree re e v b hb
              cases ha : addrAdd pc 2 with
              | error er => simp [ha, Except.map] at hp
              | ok a =>
                simp only [ha, Except.map, Except.ok.injEq, Prod.mk.injEq] at hp
                rw [hreloc, ← hp.2]
                apply advance_of_len
                · rw [hl]; exact ha
                · intro hnil; rw [hnil] at hl; simp only [List.length_nil] at hl; omega
      | sized =>
        simp only [hk] at hp he
        cases value with
        | none => simp at he
        | some ve =>
          simp only at he hp
          cases size with
          | some w =>
            simp only at hp he
            have hw : w = 1 ∨ w = 2 ∨ w = 3 := hag
            split at he
            · cases he
            · cases hv : getValue env re ve info with
              | error er => simp [hv] at he
              | ok v =>
                simp only [hv] at he
                obtain ⟨hb, rfl⟩ := wrap_ok _ info re re' bs he
                (
                  have hl := sized_suffix_size_agree e w v bs hk hw hb
                  simp only [supposedLength, hk, guessSize, Except.ok.injEq] at hl
                  cases ha : addrAdd pc (1 + w) with
                  | error er => simp [ha, Except.map] at hp
                  | ok a =>
                    simp only [ha, Except.map, Except.ok.injEq, Prod.mk.injEq] at hp
                    rw [hreloc, ← hp.2]
                    apply advance_of_len
                    · rw [← hl]; exact ha
                    · intro hnil; rw [hnil] at hl; simp only [List.length_nil] at hl; omega)
          | none =>
            simp only at hp he
            cases hv1 : getValue env rp ve info with
            | error er => simp [hv1] at hp
            | ok v1 =>
              simp only [hv1] at hp
              cases hv : getValue env re ve info with
              | error er => simp [hv] at he
              | ok v =>
                simp only [hv, Bool.false_eq_true, ↓reduceIte] at he
                obtain ⟨hb, rfl⟩ := wrap_ok _ info re re' bs he
                (
                  have hl := sized_inferred_size_agree e v bs hk hb
                  simp only [supposedLength, hk, guessSize, Except.ok.injEq] at hl
                  have hsame : operandSize v1 = operandSize v := hag v1 v hv1 hv
                  cases ha : addrAdd pc (1 + operandSize v1) with
                  | error er => simp [ha, Except.map] at hp
                  | ok a =>
                    simp only [ha, Except.map, Except.ok.injEq, Prod.mk.injEq] at hp
                    rw [hreloc, ← hp.2]
                    apply advance_of_len
                    · rw [← hl, ← hsame]; exact ha
                    · intro hnil; rw [hnil] at hl; simp only [List.length_nil] at hl; omega)
  | codePos e info =>
    unfold pcAfter at hp
    unfold emitNode at he
    obtain ⟨hbus, hval⟩ := hag
    cases hv1 : getValue env rp e info with
    | error er => simp [hv1] at hp
    | ok v1 =>
      cases hv : getValue env re e info with
      | error er => simp [hv] at he
      | ok v =>
        simp only [hv1] at hp
        simp only [hv] at he
        cases hs : re.setPosition v with
        | none => simp [hs] at he
        | some r2 =>
          simp only [hs, Except.ok.injEq, Prod.mk.injEq] at he
          obtain ⟨rfl, rfl⟩ := he
          obtain ⟨bus, a, hb, ha, hr⟩ := setPosition_reloc re r2 v hs
          have hvv := hval v1 v hv1 hv
          rw [hbus, hb] at hp
          simp only [hvv, ha, Except.ok.injEq, Prod.mk.injEq] at hp
          simp [advance, hr, hp.2]
  | reloc e info =>
    unfold pcAfter at hp
    unfold emitNode at he
    obtain ⟨hbus, hval⟩ := hag
    cases hv1 : getValue env rp e info with
    | error er => simp [hv1] at hp
    | ok v1 =>
      cases hv : getValue env re e info with
      | error er => simp [hv] at he
      | ok v =>
        simp only [hv1] at hp
        simp only [hv] at he
        cases hs : re.setPosition v with
        | none => simp [hs] at he
        | some r2 =>
          simp only [hs, Except.ok.injEq, Prod.mk.injEq] at he
          obtain ⟨rfl, rfl⟩ := he
          obtain ⟨bus, a, hb, ha, hr⟩ := setPosition_reloc re r2 v hs
          have hvv := hval v1 v hv1 hv
          rw [hbus, hb] at hp
          simp only [hvv, ha, Except.ok.injEq, Prod.mk.injEq] at hp
          simp [advance, hr, hp.2]
  | includeIps blocks =>
    simp only [pcAfter, Except.ok.injEq, Prod.mk.injEq] at hp
    simp only [emitNode, Except.ok.injEq, Prod.mk.injEq] at he
    obtain ⟨rfl, rfl⟩ := he
    simp [advance, hreloc, hp.2]
  | scopeEnter =>
    unfold pcAfter at hp
    unfold emitNode at he
    cases h1 : rp.useNextScope with
    | none => simp [h1] at hp
    | some r1 =>
      cases h2 : re.useNextScope with
      | none => simp [h2] at he
      | some r2 =>
        simp only [h1, Except.ok.injEq, Prod.mk.injEq] at hp
        simp only [h2, Except.ok.injEq, Prod.mk.injEq] at he
        obtain ⟨rfl, rfl⟩ := he
        simp [advance, useNextScope_reloc re r2 h2, hreloc, hp.2]
  | scopePop =>
    unfold pcAfter at hp
    unfold emitNode at he
    cases h1 : rp.restoreScope true with
    | none => simp [h1] at hp
    | some r1 =>
      cases h2 : re.restoreScope false with
      | none => simp [h2] at he
      | some r2 =>
        simp only [h1, Except.ok.injEq, Prod.mk.injEq] at hp
        simp only [h2, Except.ok.injEq, Prod.mk.injEq] at he
        obtain ⟨rfl, rfl⟩ := he
        simp [advance, restoreScope_reloc re r2 false h2, hreloc, hp.2]
  | table =>
    simp only [pcAfter, Except.ok.injEq, Prod.mk.injEq] at hp
    simp only [emitNode, Except.ok.injEq, Prod.mk.injEq] at he
    obtain ⟨rfl, rfl⟩ := he
    simp [advance, hreloc, hp.2]
  | text s tbl info =>
    unfold pcAfter at hp
    unfold emitNode at he
    cases ht : textBytes s tbl info with
    | error er => simp [ht] at hp
    | ok tb =>
      simp only [ht, Except.map, Except.ok.injEq, Prod.mk.injEq] at he hp
      obtain ⟨rfl, rfl⟩ := he
      cases ha : addrAdd pc tb.length with
      | error er => simp [ha] at hp
      | ok a =>
        simp only [ha, Except.ok.injEq, Prod.mk.injEq] at hp
        rw [hreloc, ← hp.2]
        apply advance_of_len _ _ _ ha
        intro hnil
        exact hag (by rw [ht, hnil])
  | ascii s =>
    unfold pcAfter at hp
    simp only [emitNode, Except.ok.injEq, Prod.mk.injEq] at he
    obtain ⟨rfl, rfl⟩ := he
    cases ha : addrAdd pc (asciiBytes s).length with
    | error er => simp [ha, Except.map] at hp
    | ok a =>
      simp only [ha, Except.map, Except.ok.injEq, Prod.mk.injEq] at hp
      rw [hreloc, ← hp.2]
      exact advance_of_len _ _ _ ha hag

/-- after one iteration of the emission loop the run address is the one emission advanced to -/
theorem emitStep_reloc (env : Env) (n : Node) (st st' : EmitState) (h : emitStep env n st = .ok st') :
    ∃ r1 bs, emitNode env n st.r = .ok (r1, bs) ∧ advance r1.reloc bs = .ok st'.r.reloc := by
  obtain ⟨r1, bs, hem, _, hnil, hne, _, _⟩ := emitStep_spec env n st st' h
  refine ⟨r1, bs, hem, ?_⟩
  unfold advance
  cases bs with
  | nil => simp [hnil rfl]
  | cons b t =>
    obtain ⟨a', ha, hst⟩ := hne (by simp)
    simp only [List.isEmpty_cons, Bool.false_eq_true, ↓reduceIte, addrAdd, ha, hst]

/-- the side conditions along the two runs over a node list (the label pass skips `=` symbols) -/
def AgreeAll (env : Env) : List Node → Resolver → Address → EmitState → Prop
  | [], _, _, _ => True
  | n :: ns, rp, pc, st =>
    (n.isSymbol = false → Agree env n rp st.r pc) ∧
    ∀ rp' pc' st', (if n.isSymbol then (rp', pc') = (rp, pc) else pcAfter env n rp pc = .ok (rp', pc')) →
      emitStep env n st = .ok st' → AgreeAll env ns rp' pc' st'

/-- **the passes agree on every address**: label resolution (first loop of `resolve_labels`) and emission,
    started at the same address on the same node list, end at the same address — and (`pass_address_at`) reach
    every node at the same address — provided each node satisfies `Agree` where the passes meet it. -/
theorem pass_addresses_agree (env : Env) : ∀ (ns : List Node) (rp rp' : Resolver) (pc pc' : Address) (st st' : EmitState),
    st.r.reloc = pc → AgreeAll env ns rp pc st →
    passLoop env Node.isSymbol ns rp pc = .ok (rp', pc') → emitLoop env ns st = .ok st' → st'.r.reloc = pc' := by
  intro ns
  induction ns with
  | nil =>
    intro rp rp' pc pc' st st' hr _ hp he
    simp only [passLoop, Except.ok.injEq, Prod.mk.injEq] at hp
    simp only [emitLoop, Except.ok.injEq] at he
    rw [← he, hr, hp.2]
  | cons n ns ih =>
    intro rp rp' pc pc' st st' hr hag hp he
    obtain ⟨hn, hrest⟩ := hag
    simp only [emitLoop] at he
    cases hs : emitStep env n st with
    | error e => simp [hs] at he
    | ok s1 =>
      simp only [hs] at he
      obtain ⟨r1, bs, hem, hadv⟩ := emitStep_reloc env n st s1 hs
      simp only [passLoop] at hp
      by_cases hsym : n.isSymbol = true
      · simp only [hsym, ↓reduceIte] at hp
        have hs1 : s1.r.reloc = pc := by
          cases n <;> simp [Node.isSymbol] at hsym
          all_goals
            simp only [emitNode, Except.ok.injEq, Prod.mk.injEq] at hem
            obtain ⟨rfl, rfl⟩ := hem
            simp only [advance, List.isEmpty_nil, ↓reduceIte, Except.ok.injEq] at hadv
            rw [← hadv, hr]
        exact ih rp rp' pc pc' s1 st' hs1 (hrest rp pc s1 (by simp [hsym]) hs) hp he
      · have hsym' : n.isSymbol = false := by simpa using hsym
        simp only [hsym', Bool.false_eq_true, ↓reduceIte] at hp
        cases hpa : pcAfter env n rp pc with
        | error e => simp [hpa] at hp
        | ok q =>
          obtain ⟨rp1, pc1⟩ := q
          simp only [hpa] at hp
          have h1 := node_size_agree env n rp rp1 st.r r1 pc pc1 bs hr (hn hsym') hpa hem
          rw [hadv] at h1
          have hs1 : s1.r.reloc = pc1 := by simpa using h1
          exact ih rp1 rp' pc1 pc' s1 st' hs1 (hrest rp1 pc1 s1 (by simp [hsym', hpa]) hs) hp he

theorem passLoop_split (env : Env) (skip : Node → Bool) (pre : List Node) (n : Node) (post : List Node) :
    ∀ (r r' : Resolver) (pc pc' : Address), passLoop env skip (pre ++ n :: post) r pc = .ok (r', pc') →
    ∃ r1 pc1, passLoop env skip pre r pc = .ok (r1, pc1) ∧ passLoop env skip (n :: post) r1 pc1 = .ok (r', pc') := by
  induction pre with
  | nil => intro r r' pc pc' h; exact ⟨r, pc, rfl, h⟩
  | cons m ms ih =>
    intro r r' pc pc' h
    simp only [List.cons_append, passLoop] at h ⊢
    by_cases hs : skip m = true
    · simp only [hs, ↓reduceIte] at h ⊢
      exact ih r r' pc pc' h
    · simp only [hs, Bool.false_eq_true, ↓reduceIte] at h ⊢
      cases hp : pcAfter env m r pc with
      | error e => simp [hp] at h
      | ok q =>
        obtain ⟨r1, pc1⟩ := q
        simp only [hp] at h ⊢
        exact ih r1 r' pc1 pc' h

theorem agreeAll_prefix (env : Env) : ∀ (pre post : List Node) (rp : Resolver) (pc : Address) (st : EmitState),
    AgreeAll env (pre ++ post) rp pc st → AgreeAll env pre rp pc st := by
  intro pre
  induction pre with
  | nil => intro post rp pc st _; trivial
  | cons m ms ih =>
    intro post rp pc st h
    simp only [List.cons_append, AgreeAll] at h ⊢
    exact ⟨h.1, fun rp' pc' st' h1 h2 => ih post rp' pc' st' (h.2 rp' pc' st' h1 h2)⟩

/-- **every statement is reached at the same address by both passes**: the address the label pass hands to
    the node at any position of the list is the run address emission has when it reaches that node — in
    particular the value a label is given is the address at which the bytes after it are assembled. -/
theorem pass_address_at (env : Env) (pre : List Node) (n : Node) (post : List Node)
    (rp rp' : Resolver) (pc pc' : Address) (st st' : EmitState)
    (hr : st.r.reloc = pc) (hag : AgreeAll env (pre ++ n :: post) rp pc st)
    (hp : passLoop env Node.isSymbol (pre ++ n :: post) rp pc = .ok (rp', pc'))
    (he : emitLoop env (pre ++ n :: post) st = .ok st') :
    ∃ r1 pc1 s1, passLoop env Node.isSymbol pre rp pc = .ok (r1, pc1) ∧ emitLoop env pre st = .ok s1 ∧
      s1.r.reloc = pc1 := by
  obtain ⟨r1, pc1, hp1, _⟩ := passLoop_split env Node.isSymbol pre n post rp rp' pc pc' hp
  obtain ⟨s1, s2, he1, _, _⟩ := emitLoop_split env pre n post st st' he
  exact ⟨r1, pc1, s1, hp1, he1,
    pass_addresses_agree env pre rp r1 pc pc1 st s1 hr (agreeAll_prefix env pre (n :: post) rp pc st hag) hp1 he1⟩

/-- a label node therefore records, in the label pass, exactly the address emission later checks it against -/
theorem label_value_is_run_address (env : Env) (pre : List Node) (name : String) (post : List Node)
    (rp rp' : Resolver) (pc pc' : Address) (st st' : EmitState)
    (hr : st.r.reloc = pc) (hag : AgreeAll env (pre ++ .label name :: post) rp pc st)
    (hp : passLoop env Node.isSymbol (pre ++ .label name :: post) rp pc = .ok (rp', pc'))
    (he : emitLoop env (pre ++ .label name :: post) st = .ok st') :
    ∃ r1 pc1 s1, passLoop env Node.isSymbol pre rp pc = .ok (r1, pc1) ∧ emitLoop env pre st = .ok s1 ∧
      pcAfter env (.label name) r1 pc1 = .ok (r1.addLabel name s1.r.reloc.logical, pc1) := by
  obtain ⟨r1, pc1, s1, h1, h2, h3⟩ := pass_address_at env pre (.label name) post rp rp' pc pc' st st' hr hag hp he
  exact ⟨r1, pc1, s1, h1, h2, by simp [pcAfter, h3]⟩

/-- the zero-length side condition of `Agree` holds at every in-window ROM address and every RAM address -/
theorem zero_ok_rom (A : Address) (hA : A.WF) (wf : C04.BusWF A.bus) (hrom : A.mapping.RomWF)
    (hwin : Spec.inWindow A.mapping.mask A.logical) : addrAdd A 0 = .ok A := by
  simp [addrAdd, C04.add_zero_same A hA wf hrom hwin]

theorem zero_ok_ram (A : Address) (hA : A.WF) (hram : A.mapping.ram = true) : addrAdd A 0 = .ok A := by
  simp [addrAdd, C04.add_zero_ram A hA hram]

/-- nodes whose size is fixed by the node itself need no side condition at all -/
example (env : Env) (rp re : Resolver) (pc : Address) (info : Tok) (e : PExpr) :
    Agree env (.data 2 e info) rp re pc ∧ Agree env (.label "l") rp re pc ∧ Agree env .scopeEnter rp re pc ∧
    Agree env (.opcode "lda" (some 2) .direct none (some e) info) rp re pc := by
  refine ⟨?_, trivial, trivial, Or.inr (Or.inl rfl)⟩
  intro h; cases h

/-! ### no spurious rejection (programs without nested scopes)

The emission-time check of a label (`_check_label_address`, fix 9c644c7 / cb74936) must never fire on a program whose
sizes agree.  For node lists without scope markers — flat programs: no blocks, macros, loops or named scopes — this is
proved outright: if the passes agree on every node (`AgreeAll`), the label's name is defined by no later label / `.incbin`
and by no `=` symbol of the list, and is not a code-block parameter, then the check of that label succeeds.  (With nested
scopes the same argument needs the replay of `Proofs/Replay.lean` to identify the scope each node is visited in; that
composition is not done here and stays with the streams.) -/

theorem emitLoop_scopes (env : Env) : ∀ (ns : List Node) (st st' : EmitState), LabelCheck.Flat ns →
    emitLoop env ns st = .ok st' → st'.r.scopes = st.r.scopes ∧ st'.r.current = st.r.current := by
  intro ns
  induction ns with
  | nil => intro st st' _ h; simp only [emitLoop, Except.ok.injEq] at h; rw [← h]; exact ⟨rfl, rfl⟩
  | cons n ns ih =>
    intro st st' hf h
    obtain ⟨hm, hf'⟩ := hf.cons
    simp only [emitLoop] at h
    cases hs : emitStep env n st with
    | error e => simp [hs] at h
    | ok s1 =>
      simp only [hs] at h
      obtain ⟨r1, bs, hem, _, hnil, hne, _, _⟩ := emitStep_spec env n st s1 hs
      obtain ⟨h1, h2⟩ := LabelCheck.emitNode_scopes env n st.r r1 bs hm hem
      obtain ⟨i1, i2⟩ := ih s1 st' hf' h
      have hs1 : s1.r.scopes = r1.scopes ∧ s1.r.current = r1.current := by
        cases bs with
        | nil => rw [hnil rfl]; exact ⟨rfl, rfl⟩
        | cons b t =>
          obtain ⟨a', _, hst⟩ := hne (by simp)
          rw [hst]; exact ⟨rfl, rfl⟩
      exact ⟨by rw [i1, hs1.1, h1], by rw [i2, hs1.2, h2]⟩

theorem cur_resolverReset (r : Resolver) (h : r.current = 0) : (resolverReset r).cur = r.cur := by
  unfold resolverReset Resolver.cur Resolver.scopeAt
  simp [h]

open LabelCheck in
/-- **the label check never fires on a flat program whose passes agree** -/
theorem no_spurious_rejection_flat (env : Env) (pre : List Node) (name : String) (post : List Node) (r rL : Resolver)
    (hflat : Flat (pre ++ .label name :: post))
    (hroot : r.current = 0) (hsize : 0 < r.scopes.size) (hpar : r.cur.parent = none)
    (hcode : alookup name r.cur.codeSymbols = none)
    (hfresh1 : name ∉ (post.filter fun n => !Node.isSymbol n).flatMap symNames)
    (hfresh2 : name ∉ ((pre ++ .label name :: post).filter fun n => !Node.isLabelOrBinary n).flatMap symNames)
    (hres : resolveLabels env (pre ++ .label name :: post) r = .ok rL)
    (hag : AgreeAll env (pre ++ .label name :: post) { r with lastUsed := 0 } r.reloc ⟨rL, [], rL.pc, [], [], []⟩)
    (s1 : EmitState) (hemit : emitLoop env pre ⟨rL, [], rL.pc, [], [], []⟩ = .ok s1) :
    checkLabel s1.r name s1.r.reloc = .ok () := by
  unfold resolveLabels at hres
  simp only at hres
  cases hp1 : passLoop env Node.isSymbol (pre ++ .label name :: post) { r with lastUsed := 0 } r.reloc with
  | error e => simp [hp1] at hres
  | ok q1 =>
    obtain ⟨r1, pcA⟩ := q1
    simp only [hp1] at hres
    cases hp2 : passLoop env Node.isLabelOrBinary (pre ++ .label name :: post) (resolverReset r1) (resolverReset r1).reloc with
    | error e => simp [hp2] at hres
    | ok q2 =>
      obtain ⟨r2, pcB⟩ := q2
      simp only [hp2, Except.ok.injEq] at hres
      -- pass 1
      have hc0 : ({ r with lastUsed := 0 } : Resolver).current < ({ r with lastUsed := 0 } : Resolver).scopes.size := by
        show r.current < r.scopes.size; rw [hroot]; exact hsize
      obtain ⟨rA, pc1, hpre, hl1, hs1, hcur1, hsz1, hcode1, hpar1⟩ :=
        pass1_label env pre name post { r with lastUsed := 0 } r1 r.reloc pcA hflat hc0 hfresh1 hp1
      have hcur1' : r1.current = 0 := by rw [hcur1]; exact hroot
      -- pass 2
      have hcR : (resolverReset r1).cur = r1.cur := cur_resolverReset r1 hcur1'
      have hc1 : (resolverReset r1).current < (resolverReset r1).scopes.size := by
        show 0 < r1.scopes.size; rw [hsz1]; exact hsize
      have k2 := passLoop_keeps env Node.isLabelOrBinary _ (resolverReset r1) r2 _ pcB hflat hc1 hp2
      rw [no_labelNames_in_pass2] at k2
      have hcur2 : r2.current = 0 := by rw [k2.cur]; rfl
      have hL : (resolverReset r2).cur = r2.cur := cur_resolverReset r2 hcur2
      -- emission of the prefix
      obtain ⟨hfpre, _⟩ := hflat.append
      obtain ⟨hsc, hcu⟩ := emitLoop_scopes env pre _ s1 hfpre hemit
      have hcurS : s1.r.cur = rL.cur := by
        unfold Resolver.cur Resolver.scopeAt; rw [hsc, hcu]
      have hrLcur : rL.cur = r2.cur := by rw [← hres]; exact hL
      -- the address
      have hrel0 : (⟨rL, [], rL.pc, [], [], []⟩ : EmitState).r.reloc = r.reloc := by
        show rL.reloc = r.reloc
        rw [← hres]
        show r2.reloc = r.reloc
        rw [k2.reloc]
        show r1.reloc = r.reloc
        have k1 := passLoop_keeps env Node.isSymbol _ { r with lastUsed := 0 } r1 r.reloc pcA hflat hc0 hp1
        rw [k1.reloc]
      have haddr := pass_addresses_agree env pre { r with lastUsed := 0 } rA r.reloc pc1 _ s1 hrel0
        (agreeAll_prefix env pre (.label name :: post) _ _ _ hag) hpre hemit
      -- the check
      have hlab : alookup name s1.r.cur.labels = some (s1.r.reloc.logical : Int) := by
        rw [hcurS, hrLcur, k2.labels name (by simp), hcR, hl1, haddr]
      have hsym : alookup name s1.r.cur.symbols = some (s1.r.reloc.logical : Int) := by
        rw [hcurS, hrLcur, k2.symbols name hfresh2, hcR, hs1, haddr]
      have hcd : alookup name s1.r.cur.codeSymbols = none := by
        rw [hcurS, hrLcur, k2.code, hcR, hcode1]; exact hcode
      have hpr : s1.r.cur.parent = none := by
        rw [hcurS, hrLcur, k2.parent, hcR, hpar1]; exact hpar
      unfold checkLabel
      simp only [hlab, ↓reduceIte]
      have hv : s1.r.valueFor name = .int (s1.r.reloc.logical : Int) := by
        unfold Resolver.valueFor
        simp only [Resolver.valueForAux]
        have e1 : (s1.r.scopes.getD s1.r.current default) = s1.r.cur := rfl
        rw [e1, hpr]
        simp only [Resolver.getItem, hcd, hsym]
      rw [hv]
      simp

/-- the side conditions on names are decidable and met by an ordinary flat program: `a: .ascii 'x' / v = … / b:` -/
example : LabelCheck.Flat [Node.label "a", .ascii "x", .symbolConst "v" 1, .label "b"] ∧
    "a" ∉ ([Node.ascii "x", .symbolConst "v" 1, .label "b"].filter fun n => !Node.isSymbol n).flatMap LabelCheck.symNames ∧
    "a" ∉ ([Node.label "a", .ascii "x", .symbolConst "v" 1, .label "b"].filter fun n => !Node.isLabelOrBinary n).flatMap LabelCheck.symNames := by
  refine ⟨?_, by decide, by decide⟩
  intro n hn
  simp only [List.mem_cons, List.not_mem_nil, or_false] at hn
  rcases hn with rfl | rfl | rfl | rfl <;> rfl


/-! ### no spurious rejection (any nesting of scopes) -/

open LabelCheck LabelScopes Replay in
/-- the part of the argument that does not depend on the kind of the defining node `n` (a label or an `.incbin`) -/
theorem check_core (env : Env) (pre : List Node) (n : Node) (name : String) (post : List Node) (r rL : Resolver)
    (hroot : r.current = 0) (hsize : 0 < r.scopes.size) (hS : ParentsOk r.scopes)
    (c l : Nat) (hcl : replay r.scopes pre 0 0 = some (c, l))
    (hdot : NoDot name)
    (hcode : alookup name (r.scopeAt c).codeSymbols = none)
    (hfresh1 : name ∉ namesIn symNames Node.isSymbol r.scopes c post c l)
    (hfresh2 : name ∉ namesIn symNames Node.isLabelOrBinary r.scopes c (pre ++ n :: post) 0 0)
    (hpass1 : ∀ (r1 : Resolver) (pcA : Address),
      passLoop env Node.isSymbol (pre ++ n :: post) { r with lastUsed := 0 } r.reloc = .ok (r1, pcA) →
      ∃ rA pc1, passLoop env Node.isSymbol pre { r with lastUsed := 0 } r.reloc = .ok (rA, pc1) ∧ rA.current < r.scopes.size ∧
        replay r.scopes pre r.current 0 = some (rA.current, rA.lastUsed) ∧
        (NoDot name → name ∉ namesIn symNames Node.isSymbol r.scopes rA.current post rA.current rA.lastUsed →
          alookup name (r1.scopeAt rA.current).labels = some (pc1.logical : Int) ∧
          alookup name (r1.scopeAt rA.current).symbols = some (pc1.logical : Int)) ∧
        (r1.scopeAt rA.current).codeSymbols = (r.scopeAt rA.current).codeSymbols ∧
        Agrees r.scopes r1.scopes ∧ r1.scopes.size = r.scopes.size)
    (hres : resolveLabels env (pre ++ n :: post) r = .ok rL)
    (hag : AgreeAll env (pre ++ n :: post) { r with lastUsed := 0 } r.reloc ⟨rL, [], rL.pc, [], [], []⟩)
    (s1 : EmitState) (hemit : emitLoop env pre ⟨rL, [], rL.pc, [], [], []⟩ = .ok s1) :
    checkLabel s1.r name s1.r.reloc = .ok () := by
  unfold resolveLabels at hres
  simp only at hres
  cases hp1 : passLoop env Node.isSymbol (pre ++ n :: post) { r with lastUsed := 0 } r.reloc with
  | error e => simp [hp1] at hres
  | ok q1 =>
    obtain ⟨r1, pcA⟩ := q1
    simp only [hp1] at hres
    cases hp2 : passLoop env Node.isLabelOrBinary (pre ++ n :: post) (resolverReset r1) (resolverReset r1).reloc with
    | error e => simp [hp2] at hres
    | ok q2 =>
      obtain ⟨r2, pcB⟩ := q2
      simp only [hp2, Except.ok.injEq] at hres
      -- pass 1
      have hc0 : ({ r with lastUsed := 0 } : Resolver).current < r.scopes.size := by
        show r.current < r.scopes.size; rw [hroot]; exact hsize
      obtain ⟨rA, pc1, hpre, hcA, hrepA', hlab, hcodeA, hag1, hsz1⟩ := hpass1 r1 pcA hp1
      rw [hroot, hcl] at hrepA'
      simp only [Option.some.injEq, Prod.mk.injEq] at hrepA'
      obtain ⟨hcA', hlA'⟩ := hrepA'
      rw [← hcA', ← hlA'] at hlab
      rw [← hcA'] at hcodeA
      obtain ⟨hl1, hs1⟩ := hlab hdot hfresh1
      -- pass 2
      have hc1 : (resolverReset r1).current < r.scopes.size := by show 0 < r.scopes.size; exact hsize
      obtain ⟨k2, hag2, hsz2, _, hrel2⟩ := passLoop_keepsAt env Node.isLabelOrBinary isLabelOrBinary_not_marker r.scopes hS c _
        (resolverReset r1) r2 _ pcB hag1 hsz1 hc1 hp2
      obtain ⟨_, _, _, _, hrel1⟩ := passLoop_keepsAt env Node.isSymbol isSymbol_not_marker r.scopes hS c _
        { r with lastUsed := 0 } r1 r.reloc pcA (Agrees.refl _) rfl hc0 hp1
      rw [no_labelNames_pass2] at k2
      have hfresh2' : name ∉ namesIn symNames Node.isLabelOrBinary r.scopes c (pre ++ n :: post)
          (resolverReset r1).current (resolverReset r1).lastUsed := hfresh2
      -- emission of the prefix
      obtain ⟨hsc, hrepE⟩ := emitLoop_scopes_replay env pre _ s1 hemit
      have hrLsc : rL.scopes = r2.scopes := by rw [← hres]; rfl
      have hrepE' : replay r.scopes pre 0 0 = some (s1.r.current, s1.r.lastUsed) := by
        have e : replay rL.scopes pre 0 0 = some (s1.r.current, s1.r.lastUsed) := by
          have h0 : rL.current = 0 ∧ rL.lastUsed = 0 := by rw [← hres]; exact ⟨rfl, rfl⟩
          have := hrepE
          simp only [h0.1, h0.2] at this
          exact this
        rw [hrLsc] at e
        rw [← replay_congr r.scopes r2.scopes hag2 hsz2 pre]; exact e
      rw [hcl] at hrepE'
      simp only [Option.some.injEq, Prod.mk.injEq] at hrepE'
      have hcS : s1.r.current = c := hrepE'.1.symm
      have hcurS : s1.r.cur = r2.scopeAt c := by
        unfold Resolver.cur Resolver.scopeAt; rw [hsc, hrLsc, hcS]
      -- the address
      have hrel0 : (⟨rL, [], rL.pc, [], [], []⟩ : EmitState).r.reloc = r.reloc := by
        show rL.reloc = r.reloc
        rw [← hres]
        show r2.reloc = r.reloc
        rw [hrel2]; exact hrel1
      have haddr := pass_addresses_agree env pre { r with lastUsed := 0 } rA r.reloc pc1 _ s1 hrel0
        (agreeAll_prefix env pre (n :: post) _ _ _ hag) hpre hemit
      have hR : (resolverReset r1).scopeAt c = r1.scopeAt c := rfl
      have hlabF : alookup name s1.r.cur.labels = some (s1.r.reloc.logical : Int) := by
        rw [hcurS, k2.labels name (by simp), hR, hl1, haddr]
      have hsymF : alookup name s1.r.cur.symbols = some (s1.r.reloc.logical : Int) := by
        rw [hcurS, k2.symbols name hfresh2' hdot, hR, hs1, haddr]
      have hcdF : alookup name s1.r.cur.codeSymbols = none := by
        rw [hcurS, k2.code, hR, hcodeA]; exact hcode
      unfold checkLabel
      simp only [hlabF, ↓reduceIte]
      have hv : s1.r.valueFor name = .int (s1.r.reloc.logical : Int) := by
        unfold Resolver.valueFor
        simp only [Resolver.valueForAux]
        have e1 : (s1.r.scopes.getD s1.r.current default) = s1.r.cur := rfl
        rw [e1]
        cases hpp : s1.r.cur.parent with
        | none => simp only [Resolver.getItem, hcdF, hsymF]
        | some p => simp only [hsymF, Option.isSome_some, Bool.true_or, ↓reduceIte, Resolver.getItem, hcdF]
      rw [hv]
      simp

open LabelCheck LabelScopes Replay in
/-- **the label check never fires on a program whose passes agree** (any nesting of blocks, macros, loops, named
    scopes): let a label node stand after the prefix `pre` of a node list; `(c, l)` is where the positional replay of
    `pre` from the root arrives, i.e. the scope the label is visited in.  If the passes agree on every node (`AgreeAll`),
    the name contains no `.`, no later node visited in scope `c` defines it, no `=` symbol visited in scope `c`
    defines it, and it is not a code-block parameter of scope `c`, then the emission-time check of the label succeeds. -/
theorem no_spurious_rejection (env : Env) (pre : List Node) (name : String) (post : List Node) (r rL : Resolver)
    (hroot : r.current = 0) (hsize : 0 < r.scopes.size) (hS : ParentsOk r.scopes)
    (c l : Nat) (hcl : replay r.scopes pre 0 0 = some (c, l))
    (hdot : NoDot name)
    (hcode : alookup name (r.scopeAt c).codeSymbols = none)
    (hfresh1 : name ∉ namesIn symNames Node.isSymbol r.scopes c post c l)
    (hfresh2 : name ∉ namesIn symNames Node.isLabelOrBinary r.scopes c (pre ++ .label name :: post) 0 0)
    (hres : resolveLabels env (pre ++ .label name :: post) r = .ok rL)
    (hag : AgreeAll env (pre ++ .label name :: post) { r with lastUsed := 0 } r.reloc ⟨rL, [], rL.pc, [], [], []⟩)
    (s1 : EmitState) (hemit : emitLoop env pre ⟨rL, [], rL.pc, [], [], []⟩ = .ok s1) :
    checkLabel s1.r name s1.r.reloc = .ok () :=
  check_core env pre (.label name) name post r rL hroot hsize hS c l hcl hdot hcode hfresh1 hfresh2
    (fun r1 pcA hp1 => pass1_label_scoped env r.scopes hS pre name post { r with lastUsed := 0 } r1 r.reloc pcA (Agrees.refl _) rfl
      (by show r.current < r.scopes.size; rw [hroot]; exact hsize) hp1)
    hres hag s1 hemit

open LabelCheck LabelScopes Replay in
/-- the same for the start symbol of an `.incbin` (the other position-derived symbol the check guards) -/
theorem no_spurious_rejection_incbin (env : Env) (pre : List Node) (content : List Nat) (base : String) (post : List Node) (r rL : Resolver)
    (hroot : r.current = 0) (hsize : 0 < r.scopes.size) (hS : ParentsOk r.scopes)
    (c l : Nat) (hcl : replay r.scopes pre 0 0 = some (c, l))
    (hdot : NoDot base)
    (hcode : alookup base (r.scopeAt c).codeSymbols = none)
    (hfresh1 : base ∉ namesIn symNames Node.isSymbol r.scopes c post c l)
    (hfresh2 : base ∉ namesIn symNames Node.isLabelOrBinary r.scopes c (pre ++ .binary content base :: post) 0 0)
    (hres : resolveLabels env (pre ++ .binary content base :: post) r = .ok rL)
    (hag : AgreeAll env (pre ++ .binary content base :: post) { r with lastUsed := 0 } r.reloc ⟨rL, [], rL.pc, [], [], []⟩)
    (s1 : EmitState) (hemit : emitLoop env pre ⟨rL, [], rL.pc, [], [], []⟩ = .ok s1) :
    checkLabel s1.r base s1.r.reloc = .ok () :=
  check_core env pre (.binary content base) base post r rL hroot hsize hS c l hcl hdot hcode hfresh1 hfresh2
    (fun r1 pcA hp1 => pass1_binary_scoped env r.scopes hS pre content base post { r with lastUsed := 0 } r1 r.reloc pcA (Agrees.refl _) rfl
      (by show r.current < r.scopes.size; rw [hroot]; exact hsize) hp1)
    hres hag s1 hemit

open A816 LabelCheck LabelScopes Replay in
/-- the side conditions distinguish scopes: in `{ a: } a:` the inner `a` (visited in scope 1) is not disturbed by the outer
    `a` (visited in scope 0), and the replay of the prefix `[ScopeNode]` from the root arrives in scope 1 -/
example :
    let S : Array ScopeRec := #[{ kind := .plain, parent := none }, { kind := .plain, parent := some 0 }]
    replay S [Node.scopeEnter] 0 0 = some (1, 1) ∧ ParentsOk S ∧ NoDot "a" ∧
    "a" ∉ namesIn symNames Node.isSymbol S 1 [Node.scopePop, .label "a"] 1 1 ∧
    "a" ∉ namesIn symNames Node.isLabelOrBinary S 1 [Node.scopeEnter, .label "a", .scopePop, .label "a"] 0 0 := by
  refine ⟨by decide, ?_, by unfold NoDot; decide, by decide, by decide⟩
  intro i p h
  match i with
  | 0 => simp at h
  | 1 =>
    have : p = 0 := by simpa using h.symm
    subst this; decide
  | (n + 2) =>
    have : ¬ (n + 2 < 2) := by omega
    simp [Array.getD, this] at h
    cases h
end A816.C02
