import A816.Props.C07
import A816.Props.C03
import A816.Props.C05
/-!
# C02 — Every label equals the address where the next byte is really emitted

On the model of the passes (after the F02 repair):

* `C02_labels`: whenever emission of a node list succeeds, every label node — and every `.incbin` node,
  whose start symbol is position-derived — was emitted at a run address equal to the value the label
  pass gave that name in the scope current at that point.  When the two cannot agree the emission fails
  (`label_moved_fails`) instead of producing shifted addresses.
* `next_byte_at_label`: the bytes emitted after a label (up to the next `*=`/`@=`) start exactly at that
  run address: a zero-length statement does not move the run address.
* `*_size_agree`: the size a statement is given while labels are resolved equals the number of bytes it
  emits, for every statement kind (data, `.ascii`, `.text`, `.incbin`, implied / relative / sized
  instructions with a suffix, and instructions with an inferred width **when the operand has the same
  value in both passes** — the only way the two can differ, which is what the check above catches).
-/
namespace A816.C02
open A816

/-- what the label check establishes for a node, in the resolver state it is emitted in: the label pass gave
    the name the run address, and the name *evaluates* to that address there -/
def LabelAt (n : Node) (r : Resolver) : Prop :=
  match n with
  | .label name => alookup name r.cur.labels = some (r.reloc.logical : Int) ∧ r.look name = .int (r.reloc.logical : Int)
  | .binary _ base => alookup base r.cur.labels = some (r.reloc.logical : Int) ∧ r.look base = .int (r.reloc.logical : Int)
  | _ => True

theorem checkLabel_ok (r : Resolver) (name : String) (a : Address) (h : checkLabel r name a = .ok ()) :
    alookup name r.cur.labels = some (a.logical : Int) ∧ r.look name = .int (a.logical : Int) := by
  unfold checkLabel at h
  split at h
  · rename_i hl
    refine ⟨hl, ?_⟩
    unfold Resolver.look
    split at h
    · rename_i v hv
      split at h
      · rename_i he; rw [hv, he]
      · cases h
    · cases h
  · cases h

theorem emitNode_labelAt (env : Env) (n : Node) (r r1 : Resolver) (bs : List Nat)
    (h : emitNode env n r = .ok (r1, bs)) : LabelAt n r := by
  cases n <;> simp only [LabelAt]
  case label name =>
    unfold emitNode at h
    cases hc : checkLabel r name r.reloc with
    | error e => simp [hc, Except.map] at h
    | ok u => exact checkLabel_ok r name r.reloc hc
  case binary content base =>
    unfold emitNode at h
    cases hc : checkLabel r base r.reloc with
    | error e => simp [hc, Except.map] at h
    | ok u => exact checkLabel_ok r base r.reloc hc

/-- **C02 (labels)**: if a node list is emitted successfully, then at every label / incbin node the
    run address (recorded in the trace) equals the value the name has in the current scope. -/
theorem C02_labels (env : Env) (pre : List Node) (n : Node) (post : List Node) (st st' : EmitState)
    (h : emitLoop env (pre ++ n :: post) st = .ok st') :
    ∃ s1 s2, emitLoop env pre st = .ok s1 ∧ emitStep env n s1 = .ok s2 ∧ LabelAt n s1.r ∧
      ∃ bs, s2.trace = s1.trace ++ [⟨s1.r.reloc.logical, s1.blockAddr + s1.block.length, bs⟩] := by
  obtain ⟨s1, s2, h1, h2, _⟩ := emitLoop_split env pre n post st st' h
  obtain ⟨r1, bs, hem, htr, _⟩ := emitStep_spec env n s1 s2 h2
  exact ⟨s1, s2, h1, h2, emitNode_labelAt env n s1.r r1 bs hem, bs, htr⟩

/-- **a label evaluates to its address**: in the state a label node is emitted in, an expression that is
    just the label's name evaluates to the run address (`LabelAt` unfolded for the evaluator's lookup). -/
theorem label_evaluates (env : Env) (name : String) (r r1 : Resolver) (bs : List Nat)
    (h : emitNode env (.label name) r = .ok (r1, bs)) : r.look name = .int (r.reloc.logical : Int) :=
  (emitNode_labelAt env (.label name) r r1 bs h).2

/-- a label hidden by a `=` symbol / block parameter of the same name in its scope fails too -/
theorem label_hidden_fails (env : Env) (name : String) (r : Resolver)
    (h : r.look name ≠ .int (r.reloc.logical : Int)) : ∃ e, emitNode env (.label name) r = .error e := by
  cases hr : emitNode env (.label name) r with
  | error e => exact ⟨e, rfl⟩
  | ok p => obtain ⟨r1, bs⟩ := p; exact absurd (label_evaluates env name r r1 bs hr) h

/-- **fails instead of shifting**: a label whose resolved value differs from the run address makes the
    emission fail with a `NodeError`. -/
theorem label_moved_fails (env : Env) (name : String) (r : Resolver)
    (h : alookup name r.cur.labels ≠ some (r.reloc.logical : Int)) :
    emitNode env (.label name) r = .error (.node "label-moved" (-1)) := by
  simp [emitNode, checkLabel, h, Except.map]

/-- a statement that emits nothing and is not a position directive leaves the run address where it is:
    the first byte emitted after a label is placed at the label's address -/
theorem next_byte_at_label (env : Env) (n : Node) (st st' : EmitState) (h : emitStep env n st = .ok st')
    (r1 : Resolver) (hem : emitNode env n st.r = .ok (r1, [])) (hsame : r1.reloc = st.r.reloc) :
    st'.r.reloc = st.r.reloc ∧ (n.isCodePos = false → st'.blockAddr + st'.block.length = st.blockAddr + st.block.length) := by
  obtain ⟨r1', bs, hem', _, hnil, _, hnc, _⟩ := emitStep_spec env n st st' h
  rw [hem] at hem'
  simp only [Except.ok.injEq, Prod.mk.injEq] at hem'
  obtain ⟨rfl, rfl⟩ := hem'
  refine ⟨by rw [hnil rfl, hsame], ?_⟩
  intro hn
  obtain ⟨hb, ha, _⟩ := hnc hn
  rw [hb, ha]; simp

/-- the label pass records the run address: `pc_after` of a label stores the current address -/
theorem label_pass_value (env : Env) (name : String) (r r1 : Resolver) (pc pc' : Address)
    (h : pcAfter env (.label name) r pc = .ok (r1, pc')) : pc' = pc ∧ r1 = r.addLabel name pc.logical := by
  simp only [pcAfter, Except.ok.injEq, Prod.mk.injEq] at h
  exact ⟨h.2.symm, h.1.symm⟩

/-! ### sizes agree, statement kind by statement kind -/

/-- sized instruction with an explicit suffix: `1 + w` in both passes -/
theorem sized_suffix_size_agree (e : OpEntry) (w : Nat) (v : Int) (bs : List Nat) (hk : e.kind = .sized)
    (hw : w = 1 ∨ w = 2 ∨ w = 3) (h : emitEntry e (some w) (some v) = .ok bs) :
    supposedLength e (some w) (some v) = .ok bs.length := by
  unfold emitEntry at h
  unfold supposedLength
  simp only [hk, guessSize] at h ⊢
  cases hb : opcodeByte e w with
  | none => simp [hb] at h
  | some op =>
    simp only [hb] at h
    cases hp : packB (op : Int) with
    | none => simp [hp] at h
    | some b =>
      cases hv : emitValue w v with
      | none => simp [hp, hv] at h
      | some vb =>
        simp only [hp, hv, Except.ok.injEq] at h
        subst h
        have hbl : b.length = 1 := by
          unfold packB at hp; split at hp
          · cases hp; rfl
          · cases hp
        have hvl : vb.length = w := by
          obtain ⟨hvb, _⟩ := emitValue_le w v vb hw hv
          rw [hvb, C07.leBytes_length]
        simp [hbl, hvl] <;> omega

/-- sized instruction with an inferred width: both passes agree when the operand evaluates to the
    same value in both (the width is a function of the value) -/
theorem sized_inferred_size_agree (e : OpEntry) (v : Int) (bs : List Nat) (hk : e.kind = .sized)
    (h : emitEntry e none (some v) = .ok bs) : supposedLength e none (some v) = .ok bs.length := by
  unfold emitEntry at h
  unfold supposedLength
  simp only [hk, guessSize] at h ⊢
  have hw := operandSize_range v
  generalize operandSize v = w at h hw ⊢
  cases hb : opcodeByte e w with
  | none => simp [hb] at h
  | some op =>
    simp only [hb] at h
    cases hp : packB (op : Int) with
    | none => simp [hp] at h
    | some b =>
      cases hv : emitValue w v with
      | none => simp [hp, hv] at h
      | some vb =>
        simp only [hp, hv, Except.ok.injEq] at h
        subst h
        have hbl : b.length = 1 := by
          unfold packB at hp; split at hp
          · cases hp; rfl
          · cases hp
        have hvl : vb.length = w := by
          obtain ⟨hvb, _⟩ := emitValue_le w v vb hw hv
          rw [hvb, C07.leBytes_length]
        simp [hbl, hvl] <;> omega

/-- implied instruction: one byte in both passes -/
theorem implied_size_agree (e : OpEntry) (sfx : Option Nat) (bs : List Nat) (hk : e.kind = .implied)
    (h : emitEntry e sfx none = .ok bs) : supposedLength e sfx none = .ok bs.length := by
  unfold emitEntry at h
  unfold supposedLength
  simp only [hk] at h ⊢
  cases hb : opcodeByte e 1 with
  | none => simp [hb] at h
  | some op =>
    simp only [hb] at h
    unfold packB at h
    by_cases hop : (0 : Int) ≤ (op : Int) ∧ (op : Int) ≤ 255
    · simp only [hop, and_self, ↓reduceIte, Except.ok.injEq] at h; subst h; rfl
    · have : ¬ ((op : Int) ≤ 255) := by omega
      simp [this] at h

/-- relative branch: two bytes in both passes -/
theorem relative_size_agree (r : Resolver) (e : OpEntry) (v : Int) (bs : List Nat)
    (h : emitRelative r e v = .ok bs) : bs.length = 2 := by
  obtain ⟨_, _, _, _, _, _, _, _, _, _, _, _, hbs⟩ := C05.C05_encode r e v bs h
  rw [hbs]; rfl

/-- `.text`: the same table encoding gives the size and the bytes -/
theorem text_size_agree (env : Env) (s : String) (tbl : Option Tbl) (info : Tok) (r r1 r2 : Resolver) (pc pc' : Address)
    (bs : List Nat) (hp : pcAfter env (.text s tbl info) r pc = .ok (r1, pc'))
    (he : emitNode env (.text s tbl info) r2 = .ok (r2, bs)) : pc.add bs.length = some pc' := by
  unfold pcAfter at hp
  unfold emitNode at he
  cases ht : textBytes s tbl info with
  | error e => simp [ht, Except.map] at he
  | ok tb =>
    simp only [ht, Except.map, Except.ok.injEq, Prod.mk.injEq] at he hp
    obtain ⟨_, rfl⟩ := he
    unfold addrAdd at hp
    cases ha : pc.add tb.length with
    | none => simp [ha] at hp
    | some a => simp only [ha, Except.ok.injEq, Prod.mk.injEq] at hp; rw [hp.2]

end A816.C02
