import A816.Model.Front
/-!
# C14 — A failed assembly is never reported as success

Decision logic of the four entry points over the outcome classes of the core (after the F14
repair), by exhaustive case analysis: the caller sees success **exactly when** the core assembled
the source, success is announced only then, and a failure always reaches the caller (error message,
exception, or non-zero status).  `coreClassOf` ties the classes to the pipeline model: class `ok`
means `assemble` returned the writes of every statement (C03 `writes_are_trace`).
-/
namespace A816.C14
open A816

/-- **C14**: for every entry point and every outcome of the core: success ⟺ the core succeeded -/
theorem success_iff_ok (e : Entry) (c : CoreClass) : isSuccess (report e c) = true ↔ c = .ok := by
  cases e <;> cases c <;> decide

/-- success is announced ("Success !") only when the core succeeded -/
theorem announce_only_ok (e : Entry) (c : CoreClass) (h : announces (report e c) = true) : c = .ok := by
  cases e <;> cases c <;> revert h <;> decide

/-- a failure reaches the caller: the string API returns a message or raises; the file APIs return a
    non-zero status or raise; the command line exits with a non-zero status -/
theorem failure_reaches_caller (e : Entry) (c : CoreClass) (h : c ≠ .ok) :
    match report e c with
    | .none_ => False
    | .message => True
    | .raised => e ≠ .cli
    | .status code _ => code ≠ 0 := by
  cases e <;> cases c <;> simp_all [report, withEmitter] <;> decide

/-- the command line's exit status: 0, 255 (= −1) or 1 (uncaught exception) -/
theorem cli_status (c : CoreClass) :
    report .cli c = .status 0 true ∨ report .cli c = .status 255 false ∨ report .cli c = .status 1 false := by
  cases c <;> decide

/-- the core's class is `ok` exactly when the pipeline returned an output -/
theorem ok_iff_output (o : Outcome) : coreClassOf o = .ok ↔ ∃ w l t r, o = .ok w l t r := by
  cases o with
  | ok w l t r => simp [coreClassOf]
  | errorString k f l c q => simp [coreClassOf]
  | raised e => cases e <;> simp [coreClassOf]

end A816.C14
