import A816.Props.C03
/-!
# C05 — Relative branches encode the true displacement or are rejected

On the model of `RelativeJumpOpcode.emit` (every resolver state, every target value):

* `C05_encode`: an accepted branch is its opcode followed by the two's-complement byte of
  `mapped offset(target) − resolver.pc − 2`, and that number lies in −128 … 127 — a displacement is
  never truncated or wrapped.
* `pcSync_*`: `resolver.pc` is the mapped offset of the run address whenever the run address is
  ROM-mapped (after `*=`, after `@=`, kept by emission) — so the displacement is taken from the run
  address in effect, not from the storage offset.
* `same_bank_displacement`: for a run address and a target in the window of the same bank the
  difference of mapped offsets is the difference of the addresses: displacement = target − (branch + 2).
* `C05_source_ram_rejected`, `C05_target_ram_rejected`, `C05_out_of_range_rejected`.
-/
namespace A816.C05
open A816 Spec

/-- `resolver.pc` tracks the mapped offset of the run address -/
def PcSync (r : Resolver) : Prop := ∀ p, r.reloc.physical = some p → r.pc = p

theorem pcSync_setPosition (r r' : Resolver) (v : Int) (h : r.setPosition v = some r') : PcSync r' := by
  obtain ⟨_, a, _, _, hrel, hpc, _, _, _⟩ := C03.setPosition_spec r r' v h
  intro p hp
  rw [hrel] at hp
  exact hpc p hp

/-- both position directives (`*=` and `@=`) re-establish the invariant -/
theorem pcSync_after_position (env : Env) (n : Node) (e : PExpr) (info : Tok) (hn : n = .codePos e info ∨ n = .reloc e info)
    (st st' : EmitState) (h : emitStep env n st = .ok st') : PcSync st'.r := by
  obtain ⟨r1, bs, hem, _, hnil, _, _, _⟩ := emitStep_spec env n st st' h
  rcases hn with rfl | rfl <;>
  · unfold emitNode at hem
    cases hv : getValue env st.r e info with
    | error er => simp [hv] at hem
    | ok v =>
      simp only [hv] at hem
      cases hs : st.r.setPosition v with
      | none => simp [hs] at hem
      | some r' =>
        simp only [hs, Except.ok.injEq, Prod.mk.injEq] at hem
        obtain ⟨rfl, rfl⟩ := hem
        rw [hnil rfl]
        exact pcSync_setPosition _ _ _ hs

/-- emission keeps it (advance inside the mapped range) -/
theorem pcSync_emit (env : Env) (n : Node) (st st' : EmitState) (h : emitStep env n st = .ok st')
    (r1 : Resolver) (bs : List Nat) (hem : emitNode env n st.r = .ok (r1, bs)) (hbs : bs ≠ [])
    (hsame : r1.reloc = st.r.reloc ∧ r1.pc = st.r.pc) (hsync : PcSync st.r)
    (hwf : st.r.reloc.WF) (hrom : st.r.reloc.mapping.RomWF) (p : Nat) (hp : st.r.reloc.physical = some (p : Int))
    (hstay : st.r.reloc.bus.mappingForBank ((Spec.address st.r.reloc.mapping.range (p + bs.length)) >>> 16)
        = some st.r.reloc.mapping) :
    PcSync st'.r := by
  obtain ⟨r1', bs', hem', _, _, hne, _, _⟩ := emitStep_spec env n st st' h
  rw [hem] at hem'
  simp only [Except.ok.injEq, Prod.mk.injEq] at hem'
  obtain ⟨rfl, rfl⟩ := hem'
  obtain ⟨a', ha', hr'⟩ := hne hbs
  obtain ⟨A', hadd, _, _, _, _, hphys, _⟩ := C04.add_rom st.r.reloc hwf hrom p bs.length hp hstay
  rw [hsame.1, hadd] at ha'
  cases ha'
  intro q hq
  rw [hr'] at hq ⊢
  simp only at hq ⊢
  rw [hphys] at hq
  cases hq
  rw [hsame.2, hsync p hp]
  push_cast; rfl

/-- **C05 (encoding)**: an accepted branch = opcode, then the signed byte of `offset(target) − pc − 2`,
    which is within −128 … 127; with `PcSync` that is `offset(target) − offset(run address) − 2`. -/
theorem C05_encode (r : Resolver) (e : OpEntry) (v : Int) (bs : List Nat) (h : emitRelative r e v = .ok bs) :
    ∃ (pr : Int) (bus : BusCfg) (dest : Address) (pd : Int) (op : Nat),
      r.reloc.physical = some pr ∧ r.getBus = some bus ∧ Address.mk? bus v = some dest ∧ dest.physical = some pd ∧
      opcodeByte e 1 = some op ∧ -128 ≤ pd - r.pc - 2 ∧ pd - r.pc - 2 ≤ 127 ∧
      bs = [op, ((pd - r.pc - 2) % 256).toNat] := by
  unfold emitRelative at h
  cases h1 : r.reloc.physical with
  | none => simp [h1] at h
  | some pr =>
    simp only [h1] at h
    cases h2 : r.getBus with
    | none => simp [h2] at h
    | some bus =>
      simp only [h2] at h
      cases h3 : Address.mk? bus v with
      | none => simp [h3] at h
      | some dest =>
        simp only [h3] at h
        cases h4 : dest.physical with
        | none => simp [h4] at h
        | some pd =>
          simp only [h4] at h
          cases h5 : opcodeByte e 1 with
          | none => simp [h5] at h
          | some op =>
            simp only [h5] at h
            unfold packB packSb at h
            by_cases hop : (0 : Int) ≤ (op : Int) ∧ (op : Int) ≤ 255
            · by_cases hd : -128 ≤ pd - r.pc - 2 ∧ pd - r.pc - 2 ≤ 127
              · simp only [hop, hd, and_self, ↓reduceIte, Int.toNat_natCast, List.cons_append, List.nil_append,
                  Except.ok.injEq] at h
                exact ⟨pr, bus, dest, pd, op, rfl, rfl, h3, h4, rfl, hd.1, hd.2, h.symm⟩
              · simp [hop, hd] at h
            · have hop' : ¬ ((op : Int) ≤ 255) := by omega
              simp [hop'] at h

/-- **never truncated**: a displacement outside −128 … 127 is rejected. -/
theorem C05_out_of_range_rejected (r : Resolver) (e : OpEntry) (v : Int) (bus : BusCfg) (dest : Address) (pd : Int)
    (hb : r.getBus = some bus) (hd : Address.mk? bus v = some dest) (hp : dest.physical = some pd)
    (hr : pd - r.pc - 2 < -128 ∨ 127 < pd - r.pc - 2) : ∃ err, emitRelative r e v = .error err := by
  cases h : emitRelative r e v with
  | error er => exact ⟨er, rfl⟩
  | ok bs =>
    obtain ⟨_, bus', dest', pd', _, _, hb', hd', hp', _, l, u, _⟩ := C05_encode r e v bs h
    rw [hb] at hb'; cases hb'
    rw [hd] at hd'; cases hd'
    rw [hp] at hp'; cases hp'
    omega

/-- a branch whose run address lies in RAM-mapped space is rejected (F05 repair) -/
theorem C05_source_ram_rejected (r : Resolver) (e : OpEntry) (v : Int) (h : r.reloc.physical = none) :
    emitRelative r e v = .error .runtime := by
  simp [emitRelative, h]

/-- a branch whose target lies in RAM-mapped space is rejected -/
theorem C05_target_ram_rejected (r : Resolver) (e : OpEntry) (v : Int) (pr : Int) (bus : BusCfg) (dest : Address)
    (h1 : r.reloc.physical = some pr) (h2 : r.getBus = some bus) (h3 : Address.mk? bus v = some dest)
    (h4 : dest.physical = none) : emitRelative r e v = .error .runtime := by
  simp [emitRelative, h1, h2, h3, h4]

/-- **the displacement is target − (branch address + 2)**: inside the window of one bank of one mapped
    range, the difference of the mapped offsets is the difference of the addresses. -/
theorem same_bank_displacement (rg : Spec.Range) (hs : rg.size = 0x8000 ∨ rg.size = 0x10000) (a t : Nat)
    (hbank : bankOf a = bankOf t) (hlo : rg.first ≤ bankOf a) (ha : inWindow rg.size a) (ht : inWindow rg.size t) :
    (Spec.offset rg t : Int) - (Spec.offset rg a : Int) - 2 = (t : Int) - ((a : Int) + 2) := by
  unfold Spec.offset bankOf inBank inWindow windowStart inBank at *
  rcases hs with h | h <;> simp only [h] at * <;> omega

/-! non-vacuity: the repository's own short-jump test (`bra` back to the start of the bank) -/
example : (Spec.offset ⟨0, 0x6F, 0x8000⟩ 0x008000 : Int) - (Spec.offset ⟨0, 0x6F, 0x8000⟩ 0x008004 : Int) - 2 = -6 := by
  decide

end A816.C05
