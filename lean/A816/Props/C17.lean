import A816.Props.C15
import A816.Proofs.ScanPos
import A816.Model.OpsScan
/-!
# C17 — Errors point at the statement that caused them

* **`scan_positions`** (whole scanner, `Proofs/ScanPos.lean`): for every source text, every token the scanner
  emits (other than comments, which may span lines and carry no errors) has the true zero-based (line, column)
  of an index of the input, and every `ScannerException` it raises is located at a true position — the
  bookkeeping invariant, "the pending token text holds no newline" and the token list are carried through every
  primitive and every state function.  `generated_mnemonics_ok` discharges its only hypothesis (no mnemonic
  contains a newline) for the regenerated tables.  The proof exposed a genuine defect — an unterminated `/*`
  comment was reported at the last line of the file (repo fix d57caa4).
* `next_inv`: the scanner's line bookkeeping is an invariant of `next()`: `current_line` is the number
  of newlines before `pos`, `line_offset` the index just after the last of them.
* `position_is_truePos`: the position a token is emitted with — and the position a `ScannerException` is
  raised with (`Scan.err` uses the same pair) — is the true (line, column) of `start`, whenever no newline
  lies between `start` and `pos`.  It depends only on the input before `start`
  (`truePos_prefix`): what precedes the statement (comments, blank lines, blocks …) cannot shift it
  other than by its own newlines.
* `node_error_line`: a `NodeError` raised for an undefined symbol carries the file and line of the
  statement's first token (`file_info`), in the label pass and at emission alike.

The definitions (`countNl`, `afterLastNl`, `truePos`, `Inv`, `NoNl`) live in `Proofs/ScanPosBasic.lean`
(namespace `ScanP`); the basic lemmas are restated here under their names.
-/
namespace A816.C17
open A816 Scan C15 ScanP

theorem afterLastNl_le (a : Array Char) (n : Nat) : afterLastNl a n ≤ n :=
  ScanP.afterLastNl_le a n

theorem countNl_succ (a : Array Char) (n : Nat) (c : Char) (h : a[n]? = some c) :
    countNl a (n + 1) = countNl a n + (if c = '\n' then 1 else 0) :=
  ScanP.countNl_succ a n c h

/-- **line bookkeeping is an invariant of `next()`** -/
theorem next_inv (s : Scan) (h : Inv s) : Inv (s.next).1 :=
  ScanP.next_inv s h

/-- the invariant holds initially -/
theorem init_inv (input : Array Char) (file : Nat) : Inv { input := input, file := file } :=
  ScanP.init_inv input file

theorem countNl_noNl (a : Array Char) (i : Nat) : ∀ (d : Nat), NoNl a i (i + d) → i + d ≤ a.size →
    countNl a (i + d) = countNl a i ∧ afterLastNl a (i + d) = afterLastNl a i :=
  ScanP.countNl_noNl a i

/-- **positions are true positions**: with the invariant at `pos`, and no newline between `start` and
    `pos`, the pair (`current_line`, `start − line_offset`) that `emit` and every `ScannerException` use is the
    true (line, column) of `start`. -/
theorem position_is_truePos (s : Scan) (h : Inv s) (hsp : s.start ≤ s.pos) (hps : s.pos ≤ s.input.size)
    (hn : NoNl s.input s.start s.pos) :
    ((s.curLine, (s.start : Int) - (s.lineOffset : Int)) : Nat × Int) = truePos s.input s.start :=
  ScanP.position_is_truePos s h hsp hps hn

/-- the token `emit` appends carries exactly that pair, and so does the error built by `Scan.err` -/
theorem emit_position (s : Scan) (ty : TokTy) :
    ((s.emit ty).toks.back?).map (fun t => (t.line, t.col)) = some ((s.curLine : Int), (s.start : Int) - (s.lineOffset : Int)) :=
  ScanP.emit_position s ty

theorem err_position (s : Scan) (msg : String) :
    s.err msg = .scan msg (s.curLine : Int) ((s.start : Int) - (s.lineOffset : Int)) :=
  ScanP.err_position s msg

/-- the true position of an index depends only on the text before it -/
theorem truePos_prefix (a b : Array Char) (i : Nat) (h : ∀ k, k < i → a[k]? = b[k]?) (ha : i ≤ a.size) (hb : i ≤ b.size) :
    truePos a i = truePos b i :=
  ScanP.truePos_prefix a b i h ha hb

/-- the regenerated mnemonic table contains no newline character (the hypothesis of `scan_positions`) -/
theorem generated_mnemonics_ok : ScanP.CfgOK Ops.genScanCfg := by
  intro m hm c hc hx
  subst hx
  have : (Ops.genScanCfg.mnemonics.all fun m => !m.toList.contains '\n') = true := by decide +kernel
  rw [List.all_eq_true] at this
  have := this m hm
  simp at this
  exact this hc

/-- **C17 (scanner)**: for the regenerated tables and every source text — every token of a successful scan (comments
    excepted) and every lexical error carries the true zero-based (line, column) of an index of the text. -/
theorem scan_positions (file : Nat) (input : List Char) :
    ((scan Ops.genScanCfg .initial file input).error = none →
      ∀ t ∈ (scan Ops.genScanCfg .initial file input).toks.toList, ScanP.TokOK input.toArray t) ∧
    (∀ msg l c, (scan Ops.genScanCfg .initial file input).error = some (.scan msg l c) →
      ∃ i, l = ((truePos input.toArray i).1 : Int) ∧ c = (truePos input.toArray i).2) :=
  ScanP.scan_positions Ops.genScanCfg generated_mnemonics_ok file input

/-- … and the position reported for an error does not depend on what precedes it other than through the text itself:
    `truePos` of an index is a function of the text before it (`truePos_prefix`). -/
theorem scan_error_position (file : Nat) (input : List Char) (msg : String) (l c : Int)
    (h : (scan Ops.genScanCfg .initial file input).error = some (.scan msg l c)) :
    ∃ i, l = ((truePos input.toArray i).1 : Int) ∧ c = (truePos input.toArray i).2 :=
  (scan_positions file input).2 msg l c h

/-- **NodeError carries the statement's position**: an undefined symbol in an operand or a data
    directive is reported at the file and line of the statement's `file_info` token -/
theorem node_error_line (env : Env) (r : Resolver) (e : PExpr) (info : Tok) (x : String) (hp : info.hasPos = true)
    (h : evalP env r e = .error (.symbolNotDefined x)) :
    getValue env r e info = .error (.nodeAt "undefined" info.file info.line) := by
  simp [getValue, h, nodeErr, hp]

/-- … for data directives at emission -/
theorem data_error_line (env : Env) (w : Nat) (e : PExpr) (info : Tok) (r : Resolver) (x : String) (hp : info.hasPos = true)
    (h : evalP env r e = .error (.symbolNotDefined x)) :
    emitNode env (.data w e info) r = .error (.nodeAt "undefined" info.file info.line) := by
  simp [emitNode, node_error_line env r e info x hp h]

/-! non-vacuity: position of the `q` in `nop⏎lda.q` is line 1, column 4 -/
example : truePos "nop\nlda.q".toList.toArray 8 = (1, 4) := by decide

end A816.C17
