import A816.Proofs.Cpu
import A816.Proofs.ParseOpcode
import A816.Model.Nodes
import A816.Model.OpsParse
import A816.Gen.Tables
import A816.Spec.Supported
/-!
# C01 — Accepted instructions encode exactly as the 65c816 ISA defines

* `table_sound`: every leaf of the opcode table regenerated from `/repo` carries, for every operand
  width it supports, the opcode byte the 65c816 matrix (`Spec/ISA.lean`) gives for that mnemonic in
  the addressing shape the table position denotes — checked by kernel evaluation of the whole table.
* `syntax_sound`: the parser's addressing-mode decision agrees with the standard reading of the
  operand syntax on all 192 syntax records (kernel evaluation); malformed index combinations are errors.
* `C01_sound`: for every mnemonic, syntax, suffix and operand value (unbounded): if the statement is
  accepted, the bytes are the ISA opcode of the denoted shape at the width given by the width rule,
  followed by the value truncated to that width, little-endian, and nothing else.  Contrapositive:
  a combination the ISA does not define is rejected.
* `supported_kept`: every combination of the frozen supported set still assembles.
* `C01_parse_shape` / `C01_parse_naked`: the *parser model* reads every accepted operand shape — written around the
  printout of any expression tree, with or without a size suffix and an outer index register — as the instruction
  with exactly the addressing mode and index `modeOfSyntax` gives for the shape; `C01_emit_is_encode` /
  `C01_node_sound`: the bytes the *emission pass* produces for that instruction node are those of `encodeInstr`,
  hence the ISA encoding.  Together: the statements above are about what the pipeline model does with a source
  instruction, not only about the decision table.
-/
namespace A816.C01
open A816 Spec

/-- may the mnemonic's immediate operand be 16 bits wide (kept opaque to `simp`) -/
def isMx (mn : String) : Bool := mxImmediate.contains mn

def isIndexedMode : AddrMode → Bool
  | .direct_indexed | .indirect_indexed | .indirect_indexed_long | .dp_or_sr_indirect_indexed
  | .stack_indexed_indirect_indexed => true
  | _ => false

/-- the addressing shape a table position (`AddressingMode`, index key) denotes at width `w` -/
def shapeOfMode (mx : Bool) (mode : AddrMode) (idx : Option Idx) (w : Nat) : Option Shape :=
  match mode, idx with
  | .none, none => if w = 0 then some .imp else none
  | .immediate, none => if w = 1 then some .imm else if w = 2 && mx then some .imm else none
  | .direct, none => if w = 1 then some .dp else if w = 2 then some .abs else if w = 3 then some .long else none
  | .direct_indexed, some .x => if w = 1 then some .dpx else if w = 2 then some .absx else if w = 3 then some .longx else none
  | .direct_indexed, some .y => if w = 1 then some .dpy else if w = 2 then some .absy else none
  | .direct_indexed, some .s => if w = 1 then some .sr else none
  | .indirect, none => if w = 1 then some .ind else if w = 2 then some .absind else none
  | .indirect_indexed, some .y => if w = 1 then some .indy else none
  | .indirect_long, none => if w = 1 then some .indl else if w = 2 then some .absindl else none
  | .indirect_indexed_long, some .y => if w = 1 then some .indly else none
  | .dp_or_sr_indirect_indexed, some .x => if w = 1 then some .indx else if w = 2 then some .absindx else none
  | .stack_indexed_indirect_indexed, some .y => if w = 1 then some .sry else none
  | _, _ => none

/-- one table leaf is right: structure, byte range, and every opcode byte is the ISA's -/
def entryOk (e : OpEntry) : Bool :=
  (e.index.isSome == isIndexedMode e.mode) &&
  (e.bytes.all fun b => match b with | some op => decide (op ≤ 255) | none => true) &&
  (match e.kind with
   | .implied => e.mode == .none && e.bytes.length == 1 && (opcodeByte e 1).isSome && opcodeByte e 1 == isaFor e.mn .imp
   | .relative => e.mode == .direct && e.bytes.length == 1 && (opcodeByte e 1).isSome && opcodeByte e 1 == isa e.mn .rel
   | .sized => e.mode != .none && decide (e.bytes.length ≤ 3) &&
       [1, 2, 3].all fun w =>
         match opcodeByte e w with
         | none => true
         | some op => (shapeOfMode (isMx e.mn) e.mode e.index w).bind (isaFor e.mn) == some op)

/-- **Every entry of the regenerated opcode table agrees with the 65c816 matrix.** -/
theorem table_sound : Gen.opcodeTable.all entryOk = true := by decide +kernel

def allIdx : List (Option Idx) := [none, some .x, some .y, some .s]
def allSyntax : List Syntax :=
  [false, true].flatMap fun op => [false, true].flatMap fun imm =>
    [Bracket.none, .paren, .square].flatMap fun br => allIdx.flatMap fun i => allIdx.map fun o => ⟨op, imm, br, i, o⟩

theorem mem_allSyntax (syn : Syntax) : syn ∈ allSyntax := by
  obtain ⟨op, imm, br, i, o⟩ := syn
  cases op <;> cases imm <;> cases br <;>
    (rcases i with _ | i <;> try cases i) <;> (rcases o with _ | o <;> try cases o) <;> decide

/-- what `syntax_sound` checks for one syntax record (a record without operand carries no other mark) -/
def syntaxOk (syn : Syntax) : Bool :=
  if !syn.operand && (syn.imm || syn.bracket != .none || syn.inner.isSome) then true else
  match modeOfSyntax Gen.indexMap syn with
  | .error _ => true
  | .ok (mode, idx) =>
    (idx.isSome == isIndexedMode mode) && ((mode == .none) == !syn.operand) &&
    [false, true].all fun mx => [0, 1, 2, 3].all fun w =>
      shapeOfMode mx mode idx w == shapeOfMx mx syn w

theorem syntax_all : allSyntax.all syntaxOk = true := by decide +kernel

/-- **The parser's mode decision is the standard reading of the operand syntax.** -/
theorem syntax_sound (syn : Syntax) (mode : AddrMode) (idx : Option Idx)
    (hclean : syn.operand = false → syn.imm = false ∧ syn.bracket = .none ∧ syn.inner = none)
    (h : modeOfSyntax Gen.indexMap syn = .ok (mode, idx)) (mx : Bool) (w : Nat) (hw : w ≤ 3) :
    shapeOfMode mx mode idx w = shapeOfMx mx syn w ∧ idx.isSome = isIndexedMode mode ∧
      (mode = .none ↔ syn.operand = false) := by
  have hall := syntax_all
  rw [List.all_eq_true] at hall
  have := hall syn (mem_allSyntax syn)
  unfold syntaxOk at this
  have hdirty : (!syn.operand && (syn.imm || syn.bracket != .none || syn.inner.isSome)) = false := by
    cases hop : syn.operand with
    | true => simp
    | false => obtain ⟨a, b, c⟩ := hclean hop; simp [a, b, c]
  rw [hdirty, h] at this
  simp only [Bool.false_eq_true, ↓reduceIte, Bool.and_eq_true, beq_iff_eq, List.all_eq_true] at this
  obtain ⟨⟨h1, h2⟩, h3⟩ := this
  have hmx : mx ∈ [false, true] := by cases mx <;> simp
  have hwm : w ∈ [0, 1, 2, 3] := by
    have : w = 0 ∨ w = 1 ∨ w = 2 ∨ w = 3 := by omega
    rcases this with r | r | r | r <;> subst r <;> simp
  have h4 := h3 mx hmx w hwm
  refine ⟨h4, h1, ?_⟩
  · constructor
    · intro hm; subst hm; simpa using h2
    · intro ho; simpa [ho] using h2

/-! ### one accepted instruction -/

theorem mem_all {α} {p : α → Bool} {l : List α} (h : l.all p = true) {a : α} (ha : a ∈ l) : p a = true := by
  rw [List.all_eq_true] at h; exact h a ha

theorem opcodeByte_le (e : OpEntry) (hok : entryOk e = true) (w op : Nat) (h : opcodeByte e w = some op) :
    op ≤ 255 := by
  unfold entryOk at hok
  simp only [Bool.and_eq_true] at hok
  have hb := hok.1.2
  unfold opcodeByte at h
  split at h
  · cases h
  · rename_i hw
    cases hget : e.bytes[w - 1]? with
    | none => simp [hget] at h
    | some b =>
      cases b with
      | none => simp [hget] at h
      | some x =>
        simp only [hget, Option.join] at h
        have hx : x = op := by simpa using h
        have hmem : (some x) ∈ e.bytes := List.mem_of_getElem? hget
        have := mem_all hb hmem
        simp at this; omega

/-- **C01 (soundness)**. An accepted instruction statement emits exactly: the 65c816 opcode of the
    mnemonic in the shape its operand syntax denotes at width `w`, then the operand value truncated to
    `w` bytes in little-endian order; `w` obeys the width rule (suffix, else smallest width holding the
    non-negative value); a lone mnemonic emits the single implied/accumulator opcode. -/
theorem C01_sound (mn : String) (syn : Syntax) (sfx : Option Nat) (v : Int) (bs : List Nat)
    (hclean : syn.operand = false → syn.imm = false ∧ syn.bracket = .none ∧ syn.inner = none)
    (hsfx : sfx = none ∨ sfx = some 1 ∨ sfx = some 2 ∨ sfx = some 3)
    (hv : sfx = none → 0 ≤ v)
    (h : encodeInstr Gen.opcodeTable Gen.indexMap mn syn sfx v = .ok bs) :
    ∃ w sh op, shapeOf mn syn w = some sh ∧ isaFor mn sh = some op ∧
      ((syn.operand = false ∧ w = 0 ∧ bs = [op]) ∨
       (syn.operand = true ∧ widthRule sfx v w ∧ bs = op :: leBytes w (v % ((256 ^ w : Nat) : Int)).toNat)) := by
  unfold encodeInstr at h
  cases hm : modeOfSyntax Gen.indexMap syn with
  | error e => simp [hm] at h
  | ok r =>
    obtain ⟨mode, idx⟩ := r
    simp only [hm] at h
    cases hf : findEmitter Gen.opcodeTable mn mode idx with
    | error e => simp [hf] at h
    | ok e =>
      simp only [hf] at h
      obtain ⟨hmem, hmn, hmode, hidx⟩ := findEmitter_spec _ _ _ _ _ hf
      have hok : entryOk e = true := mem_all table_sound hmem
      have hok' := hok
      unfold entryOk at hok'
      simp only [Bool.and_eq_true, beq_iff_eq] at hok'
      obtain ⟨⟨hix, _⟩, hkind⟩ := hok'
      -- the index the table leaf is keyed by is the index the syntax gave
      have hsyn0 := syntax_sound syn mode idx hclean hm
      have hidx' : e.index = idx := by
        rcases hidx with hnone | hsame
        · have h1 := (hsyn0 false 0 (by omega)).2.1
          rw [hnone, hmode] at hix
          simp only [Option.isSome_none] at hix
          rw [← hix] at h1
          cases idx with
          | none => exact hnone
          | some _ => simp at h1
        · exact hsame
      unfold emitEntry at h
      cases hk : e.kind with
      | relative => simp [hk] at h
      | implied =>
        simp only [hk] at h hkind
        simp only [Bool.and_eq_true, beq_iff_eq] at hkind
        obtain ⟨⟨⟨hmode0, _⟩, hsome⟩, hisa⟩ := hkind
        have hop0 : syn.operand = false := ((hsyn0 false 0 (by omega)).2.2).mp (by rw [← hmode, hmode0])
        cases hb : opcodeByte e 1 with
        | none => simp [hb] at hsome
        | some op =>
          simp only [hb] at h hisa
          have hle := opcodeByte_le e hok 1 op hb
          have hp : packB (op : Int) = some [op] := by
            unfold packB; simp; omega
          simp only [hp, Except.ok.injEq] at h
          refine ⟨0, .imp, op, ?_, ?_, Or.inl ⟨hop0, rfl, h.symm⟩⟩
          · unfold shapeOf shapeOfMx; simp [hop0]
          · rw [← hmn]; exact hisa.symm
      | sized =>
        simp only [hk] at h hkind
        simp only [Bool.and_eq_true, bne_iff_ne, ne_eq, decide_eq_true_eq, List.all_eq_true] at hkind
        obtain ⟨⟨hmodeN, _⟩, hbytes⟩ := hkind
        have hop1 : syn.operand = true := by
          cases hso : syn.operand with
          | true => rfl
          | false =>
            have := ((hsyn0 false 0 (by omega)).2.2).mpr hso
            rw [← hmode] at this; exact absurd this hmodeN
        simp only [hop1, ↓reduceIte] at h
        generalize hw : guessSize sfx v = w at h
        have hwr : w = 1 ∨ w = 2 ∨ w = 3 := by
          unfold guessSize at hw
          rcases hsfx with s | s | s | s <;> subst s <;> simp only at hw
          · rw [← hw]; exact operandSize_range v
          · exact Or.inl hw.symm
          · exact Or.inr (Or.inl hw.symm)
          · exact Or.inr (Or.inr hw.symm)
        cases hb : opcodeByte e w with
        | none => simp [hb] at h
        | some op =>
          simp only [hb] at h
          have hle := opcodeByte_le e hok w op hb
          have hp : packB (op : Int) = some [op] := by
            unfold packB; simp; omega
          cases hev : emitValue w v with
          | none => simp [hp, hev] at h
          | some vb =>
            simp only [hp, hev, Except.ok.injEq, List.cons_append, List.nil_append] at h
            obtain ⟨hvb, hv3⟩ := emitValue_le w v vb hwr hev
            have hwm : w ∈ [1, 2, 3] := by rcases hwr with r | r | r <;> subst r <;> simp
            have hshape := hbytes w hwm
            simp only [hb, beq_iff_eq] at hshape
            cases hsh : shapeOfMode (isMx e.mn) e.mode e.index w with
            | none => simp [hsh] at hshape
            | some sh =>
              simp only [hsh, Option.bind_some] at hshape
              have hs := (hsyn0 (isMx e.mn) w (by omega)).1
              rw [hmode, hidx'] at hsh
              rw [hs] at hsh
              refine ⟨w, sh, op, ?_, ?_, Or.inr ⟨hop1, ?_, ?_⟩⟩
              · unfold shapeOf; rw [← hmn]; exact hsh
              · rw [← hmn]; exact hshape
              · -- width rule
                unfold widthRule
                unfold guessSize at hw
                rcases hsfx with s | s | s | s <;> subst s <;> simp only at hw ⊢
                · have h0 := hv rfl
                  obtain ⟨a, b, c⟩ := operandSize_nonneg v h0
                  refine ⟨h0, ?_⟩
                  by_cases c1 : v < 256
                  · exact Or.inl ⟨by rw [← hw]; exact a c1, c1⟩
                  · by_cases c2 : v < 65536
                    · exact Or.inr (Or.inl ⟨by rw [← hw]; exact b (by omega) c2, by omega, c2⟩)
                    · have w3 : w = 3 := by rw [← hw]; exact c (by omega)
                      exact Or.inr (Or.inr ⟨w3, by omega, (hv3 w3).2⟩)
                · exact hw.symm
                · exact hw.symm
                · exact hw.symm
              · rw [← h, hvb]

/-- **C01 (rejection)**: a mnemonic / operand-shape / width combination the 65c816 does not define is
    rejected (contrapositive of `C01_sound`). -/
theorem C01_rejects (mn : String) (syn : Syntax) (sfx : Option Nat) (v : Int)
    (hclean : syn.operand = false → syn.imm = false ∧ syn.bracket = .none ∧ syn.inner = none)
    (hsfx : sfx = none ∨ sfx = some 1 ∨ sfx = some 2 ∨ sfx = some 3) (hv : sfx = none → 0 ≤ v)
    (hundef : ∀ w sh, shapeOf mn syn w = some sh → isaFor mn sh = none) :
    ∃ err, encodeInstr Gen.opcodeTable Gen.indexMap mn syn sfx v = .error err := by
  cases h : encodeInstr Gen.opcodeTable Gen.indexMap mn syn sfx v with
  | error e => exact ⟨e, rfl⟩
  | ok bs =>
    obtain ⟨w, sh, op, h1, h2, _⟩ := C01_sound mn syn sfx v bs hclean hsfx hv h
    rw [hundef w sh h1] at h2; cases h2

/-! non-vacuity -/
example : (encodeInstr Gen.opcodeTable Gen.indexMap "lda" ⟨true, true, .none, none, none⟩ none 0x1234).toOption
    = some [0xA9, 0x34, 0x12] := by decide +kernel
example : (encodeInstr Gen.opcodeTable Gen.indexMap "ora" ⟨true, true, .none, none, none⟩ none 0x1234).toOption
    = some [0x09, 0x34, 0x12] := by decide +kernel
example : (encodeInstr Gen.opcodeTable Gen.indexMap "lda" ⟨true, false, .paren, some .s, some .y⟩ none 0x10).toOption
    = some [0xB3, 0x10] := by decide +kernel
example : (encodeInstr Gen.opcodeTable Gen.indexMap "lda" ⟨true, false, .paren, some .x, some .y⟩ none 0x10).toOption
    = none := by decide +kernel
example : (encodeInstr Gen.opcodeTable Gen.indexMap "jmp" ⟨true, false, .none, none, none⟩ (some 3) 0x123456).toOption
    = some [0x5C, 0x56, 0x34, 0x12] := by decide +kernel
example : (encodeInstr Gen.opcodeTable Gen.indexMap "inc" ⟨false, false, .none, none, none⟩ none 0).toOption
    = some [0x1A] := by decide +kernel
example : (encodeInstr Gen.opcodeTable Gen.indexMap "sta" ⟨true, false, .none, none, some .x⟩ (some 3) (-1)).toOption
    = none := by decide +kernel

end A816.C01

namespace A816.C01
open A816 Spec

/-- the table still has, for a supported combination, a leaf with that opcode at that width, and the
    ISA agrees with the recorded opcode -/
def supportedOk (s : Supported) : Bool :=
  match modeOfSyntax Gen.indexMap s.syn with
  | .error _ => false
  | .ok (mode, idx) =>
    match findEmitter Gen.opcodeTable s.mn mode idx with
    | .error _ => false
    | .ok e =>
      if s.relative then e.kind == .relative && opcodeByte e 1 == some s.op && isa s.mn .rel == some s.op
      else if s.w = 0 then e.kind == .implied && opcodeByte e 1 == some s.op && !s.syn.operand
      else e.kind == .sized && opcodeByte e s.w == some s.op && s.syn.operand && decide (1 ≤ s.w ∧ s.w ≤ 3) &&
        ((shapeOf s.mn s.syn s.w).bind (isaFor s.mn) == some s.op)

theorem supported_all : Spec.supported.all supportedOk = true := by decide +kernel

theorem supported_count : Spec.supported.length = 227 := by decide +kernel

/-- **C01 (supported set kept)**: every combination of the frozen supported set still assembles, to
    the ISA opcode followed by the truncated little-endian value, for every operand value that fits
    the width (any value for 1 and 2 bytes with a suffix; 0 … 2^24−1 for 3 bytes). -/
theorem supported_kept (s : Supported) (hs : s ∈ Spec.supported) (hrel : s.relative = false) (hw : s.w ≠ 0)
    (v : Int) (hfit : s.w = 3 → 0 ≤ v ∧ v < 16777216) :
    encodeInstr Gen.opcodeTable Gen.indexMap s.mn s.syn (some s.w) v
      = .ok (s.op :: leBytes s.w (v % ((256 ^ s.w : Nat) : Int)).toNat) := by
  have hok := mem_all supported_all hs
  unfold supportedOk at hok
  unfold encodeInstr
  cases hm : modeOfSyntax Gen.indexMap s.syn with
  | error e => simp [hm] at hok
  | ok r =>
    obtain ⟨mode, idx⟩ := r
    simp only [hm] at hok ⊢
    cases hf : findEmitter Gen.opcodeTable s.mn mode idx with
    | error e => simp [hf] at hok
    | ok e =>
      simp only [hf, hrel, Bool.false_eq_true, ↓reduceIte, hw, Bool.and_eq_true, beq_iff_eq,
        decide_eq_true_eq] at hok ⊢
      obtain ⟨⟨⟨⟨hk, hb⟩, hop⟩, hw13⟩, _⟩ := hok
      obtain ⟨hmem, _, _, _⟩ := findEmitter_spec _ _ _ _ _ hf
      have hle := opcodeByte_le e (mem_all table_sound hmem) s.w s.op hb
      have hp : packB (s.op : Int) = some [s.op] := by unfold packB; simp; omega
      unfold emitEntry
      simp only [hk, hop, ↓reduceIte, guessSize, hb, hp]
      have hwr : s.w = 1 ∨ s.w = 2 ∨ s.w = 3 := by omega
      have hev : emitValue s.w v = some (leBytes s.w (v % ((256 ^ s.w : Nat) : Int)).toNat) := by
        rcases hwr with r | r | r
        · rw [r]; simp only [emitValue, ↓reduceIte, packB]
          have : 0 ≤ v % 256 ∧ v % 256 ≤ 255 := by omega
          simp only [this, and_self, ↓reduceIte, Option.some.injEq, leBytes, List.cons.injEq, and_true]
          have e : ((256 ^ 1 : Nat) : Int) = 256 := by decide
          rw [e]; omega
        · rw [r]; simp only [emitValue, show (2 : Nat) ≠ 1 by decide, ↓reduceIte, packHle]
          have : 0 ≤ v % 65536 ∧ v % 65536 ≤ 65535 := by omega
          have e : ((256 ^ 2 : Nat) : Int) = 65536 := by decide
          simp only [this, and_self, ↓reduceIte, Option.some.injEq, leBytes, List.cons.injEq, and_true, e]
          refine ⟨?_, ?_⟩ <;> first | trivial | omega
        · obtain ⟨h0, h1⟩ := hfit r
          rw [r]; simp only [emitValue, show (3 : Nat) ≠ 1 by decide, show (3 : Nat) ≠ 2 by decide, ↓reduceIte,
            packHBle, packHle, packB]
          have a : 0 ≤ v % 65536 ∧ v % 65536 ≤ 65535 := by omega
          have b : 0 ≤ v / 65536 ∧ v / 65536 ≤ 255 := by omega
          have e : ((256 ^ 3 : Nat) : Int) = 16777216 := by decide
          simp only [a, b, and_self, ↓reduceIte, List.cons_append, List.nil_append, Option.some.injEq, leBytes,
            List.cons.injEq, and_true, e]
          refine ⟨?_, ?_, ?_⟩ <;> first | trivial | omega
      simp [hev]

/-! ## from tokens to bytes: the parser and the emission pass implement the decision table -/

open ParseOp Classify in
/-- **the parser reads every accepted shape as the table says** (see `Proofs/ParseOpcode.lean`): for every parser
    configuration, expression tree `e`, operand shape `syn` the decision table accepts, optional size suffix and
    parser state whose tokens from the current position on spell
    `mnemonic [.size] shape(e) [,index]`, `parse_opcode` returns the instruction with the mode and index register of
    `modeOfSyntax`, the written size, and the node list of `e` as operand, and stops right behind it. -/
theorem C01_parse_shape (cfg : ParseCfg) (syn : Syntax) (e : Expr) (fuel : Nat) (st : PState)
    (ks : Nat) (size : Option String)
    (hopc : (tokAt st st.pos).ty = .OPCODE) (hoperand : syn.operand = true)
    (hsize : (ks = 1 ∧ (tokAt st (st.pos + 1)).ty = .OPCODE_SIZE ∧ size = some (asciiLower (tokAt st (st.pos + 1)).val)) ∨
             (ks = 0 ∧ (tokAt st (st.pos + 1)).ty ≠ .OPCODE_SIZE ∧ size = none))
    (hsp : Spells st (st.pos + (1 + ks)) (operandPieces syn (printNodes e) ++ idxPiece syn.outer))
    (hfollow : (tokAt st (st.pos + (1 + ks) + pwidth (operandPieces syn (printNodes e) ++ idxPiece syn.outer))).ty ≠ .OPERATOR)
    (hnoidx : syn.outer = none →
      (tokAt st (st.pos + (1 + ks) + pwidth (operandPieces syn (printNodes e)))).ty ≠ .ADDRESSING_MODE_INDEX)
    (hplain : syn.imm = false → syn.bracket = .none → (tokAt st (st.pos + (1 + ks))).ty ≠ .LPAREN)
    (hfuel : (printNodes e).length + 1 < fuel)
    (mode : AddrMode) (idx : Option Idx) (hmode : modeOfSyntax cfg.indexMap syn = .ok (mode, idx)) :
    ∃ first, parseOpcode cfg (fuel + 1) st =
      .ok (.opcode mode (tokAt st st.pos).val (sizeOfSuffix size) (some ⟨printNodes e, first⟩) idx (tokAt st st.pos),
           adv st (1 + ks + pwidth (operandPieces syn (printNodes e) ++ idxPiece syn.outer))) :=
  parseOpcode_shape cfg syn e fuel st ks size hopc hoperand hsize hsp hfollow hnoidx hplain hfuel mode idx hmode

open ParseOp Classify in
/-- a mnemonic standing alone (no `#`, bracket or index after it) is the implied / accumulator form -/
theorem C01_parse_naked (cfg : ParseCfg) (fuel : Nat) (st : PState)
    (hopc : (tokAt st st.pos).ty = .OPCODE_NAKED)
    (h0 : (tokAt st (st.pos + 1)).ty ≠ .OPCODE_SIZE) (h1 : (tokAt st (st.pos + 1)).ty ≠ .SHARP)
    (h2 : (tokAt st (st.pos + 1)).ty ≠ .LPAREN) (h3 : (tokAt st (st.pos + 1)).ty ≠ .LBRAKET)
    (h4 : (tokAt st (st.pos + 1)).ty ≠ .ADDRESSING_MODE_INDEX) :
    parseOpcode cfg (fuel + 1 + 1) st =
      .ok (.opcode .none (tokAt st st.pos).val none none none (tokAt st st.pos), adv st 1) ∧
    modeOfSyntax cfg.indexMap ⟨false, false, .none, none, none⟩ = .ok (.none, none) := by
  refine ⟨?_, rfl⟩
  have hm0 : (if ((tokAt st st.pos).ty == TokTy.OPCODE_NAKED) = true then AddrMode.none else AddrMode.direct) = AddrMode.none := by
    rw [hopc]; rfl
  have hne : (tokAt st st.pos).ty ≠ .OPCODE := by rw [hopc]; intro h; cases h
  have hop := parseOperand_none cfg fuel .none (tokAt st st.pos) st 1 hne h1 h2 h3
  have := parseOpcode_spec cfg (fuel + 1) st 0 none (Or.inr ⟨rfl, h0, rfl⟩) .none none none 0
    (by rw [hm0]; exact hop) .none none 0 (Or.inr ⟨rfl, h4, rfl, rfl⟩)
  rw [this]
  rfl

/-- **the emission pass encodes as `encodeInstr` does**: for an instruction node whose mode and index are the
    decision table's reading of its written shape, whatever the emission pass emits (for the non-branch kinds) is what
    `encodeInstr` gives for the mnemonic, shape, suffix and operand value. -/
theorem C01_emit_is_encode (env : Env) (im : List (AddrMode × AddrMode)) (mn : String) (syn : Syntax) (size : Option Nat)
    (mode : AddrMode) (idx : Option Idx) (hm : modeOfSyntax im syn = .ok (mode, idx)) (hoperand : syn.operand = true)
    (ve : PExpr) (info : Tok) (r r' : Resolver) (v : Int) (hv : getValue env r ve info = .ok v) (bs : List Nat)
    (hrel : ∀ e, findEmitter env.opcodes mn mode idx = .ok e → e.kind ≠ .relative)
    (h : emitNode env (.opcode mn size mode idx (some ve) info) r = .ok (r', bs)) :
    encodeInstr env.opcodes im mn syn size v = .ok bs := by
  unfold encodeInstr
  simp only [hm, hoperand, ↓reduceIte]
  simp only [emitNode] at h
  cases hf : findEmitter env.opcodes mn mode idx with
  | error er =>
    exfalso
    simp only [opcodeEmitter, hf] at h
    cases er <;> simp at h
  | ok e =>
    have hoe : opcodeEmitter env mn mode idx info = .ok e := by unfold opcodeEmitter; rw [hf]
    simp only [hoe] at h ⊢
    cases hk : e.kind with
    | relative => exact absurd hk (hrel e hf)
    | implied =>
      simp only [hk] at h
      cases hb : emitEntry e size none with
      | error er => simp [hb, Except.map] at h
      | ok b =>
        simp only [hb, Except.map, Except.ok.injEq, Prod.mk.injEq] at h
        rw [← h.2]
        unfold emitEntry at hb ⊢
        simp only [hk] at hb ⊢
        exact hb
    | sized =>
      simp only [hk] at h
      have key : ∀ (x : Except Err (List Nat)),
          (match x with
            | .error (.node msg _) => Except.error (nodeErr msg info)
            | .error er => Except.error er
            | .ok b => Except.ok (r, b)) = Except.ok (r', bs) → x = .ok bs := by
        intro x hx
        cases x with
        | error er => cases er <;> simp at hx
        | ok b => simp only [Except.ok.injEq, Prod.mk.injEq] at hx; rw [hx.2]
      cases size with
      | none =>
        simp only [Bool.false_eq_true, ↓reduceIte, hv] at h
        exact key _ h
      | some w =>
        simp only at h
        by_cases hb : (opcodeByte e w).isNone = true
        · simp [hb] at h
        · simp only [hb, Bool.false_eq_true, ↓reduceIte, hv] at h
          exact key _ h

/-- **instruction nodes encode as the ISA defines**: `C01_sound` read on the emission pass — whatever bytes are
    emitted for an instruction node (non-branch) whose mode / index are the table's reading of shape `syn` are the
    ISA opcode for that mnemonic in the shape `syn` denotes at the ruled width, followed by the truncated operand. -/
theorem C01_node_sound (prec : PrecTable) (mn : String) (syn : Syntax) (size : Option Nat)
    (mode : AddrMode) (idx : Option Idx) (hm : modeOfSyntax Gen.indexMap syn = .ok (mode, idx)) (hoperand : syn.operand = true)
    (ve : PExpr) (info : Tok) (r r' : Resolver) (v : Int) (hv : getValue ⟨prec, Gen.opcodeTable⟩ r ve info = .ok v) (bs : List Nat)
    (hrel : ∀ e, findEmitter Gen.opcodeTable mn mode idx = .ok e → e.kind ≠ .relative)
    (hsfx : size = none ∨ size = some 1 ∨ size = some 2 ∨ size = some 3) (hpos : size = none → 0 ≤ v)
    (h : emitNode ⟨prec, Gen.opcodeTable⟩ (.opcode mn size mode idx (some ve) info) r = .ok (r', bs)) :
    ∃ w sh op, shapeOf mn syn w = some sh ∧ isaFor mn sh = some op ∧ widthRule size v w ∧
      bs = op :: leBytes w (v % ((256 ^ w : Nat) : Int)).toNat := by
  have henc := C01_emit_is_encode ⟨prec, Gen.opcodeTable⟩ Gen.indexMap mn syn size mode idx hm hoperand ve info r r' v hv bs hrel h
  obtain ⟨w, sh, op, h1, h2, h3⟩ := C01_sound mn syn size v bs (fun hf => by rw [hoperand] at hf; cases hf) hsfx hpos henc
  rcases h3 with ⟨hf, _⟩ | ⟨_, hw, hb⟩
  · rw [hoperand] at hf; cases hf
  · exact ⟨w, sh, op, h1, h2, hw, hb⟩

/-! non-vacuity: `lda.w (0x10,s),y` as the scanner tokenises it meets the hypotheses of `C01_parse_shape`, and the
    decision table reads that shape as stack-relative indirect indexed -/
section
open ParseOp Classify
private def tk (ty : TokTy) (v : String) : Tok := { eofTok with ty := ty, val := v }
private def stEx : PState :=
  { (default : PState) with
    toks := #[tk .OPCODE "lda", tk .OPCODE_SIZE "W", tk .LPAREN "(", tk .NUMBER "0x10", tk .ADDRESSING_MODE_INDEX "s",
              tk .RPAREN ")", tk .ADDRESSING_MODE_INDEX "Y", tk .EOF ""], pos := 0 }
private def synEx : Syntax := ⟨true, false, .paren, some .s, some .y⟩
private def eEx : Expr := .num ⟨.hex, [(1, false), (0, false)]⟩

example : ∃ first, parseOpcode Ops.genParseCfg 8 stEx =
    .ok (.opcode .stack_indexed_indirect_indexed "lda" (some 2) (some ⟨printNodes eEx, first⟩) (some .y) (tk .OPCODE "lda"),
         adv stEx 7) := by
  have hm : modeOfSyntax Ops.genParseCfg.indexMap synEx = .ok (.stack_indexed_indirect_indexed, some .y) := by rfl
  have hsp : Spells stEx (stEx.pos + (1 + 1)) (operandPieces synEx (printNodes eEx) ++ idxPiece synEx.outer) := by
    refine ⟨by decide +kernel, ⟨?_, by decide +kernel, by decide +kernel, by decide +kernel, by decide +kernel, by decide +kernel, trivial⟩⟩
    intro i hi
    have hi' : i < 1 := hi
    match i, hi' with
    | 0, _ => decide +kernel +revert
  have := C01_parse_shape Ops.genParseCfg synEx eEx 7 stEx 1 (some "w") (by decide +kernel) rfl
    (Or.inl ⟨rfl, by decide +kernel, by decide +kernel⟩) hsp (by decide +kernel) (fun h => by cases h) (fun _ h => by cases h)
    (by decide +kernel) _ _ hm
  exact this
end

end A816.C01
