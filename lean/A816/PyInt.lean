/-!
# Python `int` bit operations on unbounded, possibly negative integers

These definitions are the meaning given to Python's `&` and `|` on ints (infinite two's complement)
for both the model and the reference semantics; they are validated against CPython by the
`land` / `lor` correspondence ops (stream S0).
-/
namespace A816

def intLand : Int → Int → Int
  | .ofNat a, .ofNat b => Int.ofNat (a &&& b)
  | .ofNat a, .negSucc b => Int.ofNat (Nat.bitwise (fun x y => x && !y) a b)
  | .negSucc a, .ofNat b => Int.ofNat (Nat.bitwise (fun x y => !x && y) a b)
  | .negSucc a, .negSucc b => .negSucc (a ||| b)
def intLor : Int → Int → Int
  | .ofNat a, .ofNat b => Int.ofNat (a ||| b)
  | .ofNat a, .negSucc b => .negSucc (Nat.bitwise (fun x y => !x && y) a b)
  | .negSucc a, .ofNat b => .negSucc (Nat.bitwise (fun x y => x && !y) a b)
  | .negSucc a, .negSucc b => .negSucc (a &&& b)


end A816
