import A816.PyInt
/-!
# Spec — what an expression means (independent of the model)

Trees with the conventional levels: prefix `-` `~` bind tightest, then `*`, then `+ -`, then
`<< >>`, then `&`, then `|`; left to right within a level; parentheses override; unbounded
integers; `~v` is the complement of `v` within the smallest of 8, 16 or 32 bits that holds `v`.
-/
namespace A816.Spec

inductive BOp | mul | add | sub | shl | shr | band | bor
  deriving DecidableEq, Repr, Inhabited
inductive UOp | neg | inv
  deriving DecidableEq, Repr, Inhabited

/-- conventional binding level (smaller binds tighter); prefix operators are level 1, atoms 0 -/
def BOp.level : BOp → Nat
  | .mul => 2 | .add => 3 | .sub => 3 | .shl => 4 | .shr => 4 | .band => 5 | .bor => 6

def BOp.sym : BOp → String
  | .mul => "*" | .add => "+" | .sub => "-" | .shl => "<<" | .shr => ">>" | .band => "&" | .bor => "|"
def UOp.sym : UOp → String
  | .neg => "-" | .inv => "~"

inductive Base | dec | hex | bin
  deriving DecidableEq, Repr, Inhabited
def Base.radix : Base → Nat | .dec => 10 | .hex => 16 | .bin => 2
def Base.pre : Base → List Char | .dec => [] | .hex => ['0', 'x'] | .bin => ['0', 'b']

/-- a literal: base and digits (most significant first), each with a letter-case flag -/
structure Literal where
  base : Base
  digits : List (Nat × Bool)
  deriving DecidableEq, Repr, Inhabited

def Literal.WF (l : Literal) : Prop := l.digits ≠ [] ∧ ∀ d ∈ l.digits, d.1 < l.base.radix
def Literal.value (l : Literal) : Nat := l.digits.foldl (fun acc d => acc * l.base.radix + d.1) 0

def digitChar (d : Nat) (upper : Bool) : Char :=
  if d < 10 then Char.ofNat (48 + d) else if upper then Char.ofNat (55 + d) else Char.ofNat (87 + d)
def Literal.render (l : Literal) : List Char := l.base.pre ++ l.digits.map (fun d => digitChar d.1 d.2)

inductive Expr
  | num (l : Literal)
  | var (name : String)
  | un (o : UOp) (e : Expr)
  | bin (o : BOp) (l r : Expr)
  | paren (e : Expr)
  deriving Repr, Inhabited

/-- complement within the smallest of 8/16/32 bits that holds (the magnitude of) `v` -/
def invert (v : Int) : Option Int :=
  if v.natAbs < 2 ^ 8 then some ((-v - 1) % 2 ^ 8)
  else if v.natAbs < 2 ^ 16 then some ((-v - 1) % 2 ^ 16)
  else if v.natAbs < 2 ^ 32 then some ((-v - 1) % 2 ^ 32)
  else none

def UOp.app : UOp → Int → Option Int
  | .neg, a => some (-a)
  | .inv, a => invert a

def BOp.app : BOp → Int → Int → Option Int
  | .mul, a, b => some (a * b)
  | .add, a, b => some (a + b)
  | .sub, a, b => some (a - b)
  | .shl, a, b => if b < 0 then none else some (a * ((2 ^ b.toNat : Nat) : Int))
  | .shr, a, b => if b < 0 then none else some (a / ((2 ^ b.toNat : Nat) : Int))
  | .band, a, b => some (intLand a b)
  | .bor, a, b => some (intLor a b)

/-- value of a tree; `none` = no value (undefined name, `~` beyond 32 bits, negative shift count) -/
def eval (env : String → Option Int) : Expr → Option Int
  | .num l => some l.value
  | .var x => env x
  | .un o e => (eval env e).bind o.app
  | .bin o l r => (eval env l).bind fun a => (eval env r).bind fun b => o.app a b
  | .paren e => eval env e

def Expr.level : Expr → Nat
  | .num _ => 0 | .var _ => 0 | .paren _ => 0 | .un _ _ => 1 | .bin o _ _ => o.level

/-- the tree is the conventional reading of its own printout (no parenthesis is implied) -/
def Expr.WF : Expr → Prop
  | .num l => l.WF
  | .var _ => True
  | .paren e => e.WF
  | .un _ e => e.WF ∧ e.level ≤ 1
  | .bin o l r => l.WF ∧ r.WF ∧ l.level ≤ o.level ∧ r.level < o.level

end A816.Spec
