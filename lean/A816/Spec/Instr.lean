import A816.Spec.ISA
import A816.Model.Types
/-!
# Spec — the standard reading of a816 operand syntax (DESIGN.md Appendix F)

Which 65c816 addressing shape an operand syntax denotes at a given operand width; every other
combination is undefined and must be rejected.  Imports `Model.Types` only for the shared `Syntax` record.
-/
namespace A816.Spec
open A816

/-- instructions whose immediate operand is 8 or 16 bits wide depending on the M/X flags -/
def mxImmediate : List String :=
  ["ora", "and", "eor", "adc", "bit", "lda", "cmp", "sbc", "ldx", "ldy", "cpx", "cpy"]

def branches : List String := ["bcc", "bcs", "beq", "bmi", "bne", "bpl", "bra", "bvc", "bvs"]

/-- shape denoted by operand syntax `syn` at operand width `w`; `mx` says whether the mnemonic's
    immediate operand may be 16 bits wide -/
def shapeOfMx (mx : Bool) (syn : Syntax) (w : Nat) : Option Shape :=
  if !syn.operand then (if w = 0 then some .imp else none) else
  match syn.imm, syn.bracket, syn.inner, syn.outer with
  | true, .none, none, none =>
    if w = 1 then some .imm else if w = 2 && mx then some .imm else none
  | false, .none, none, none =>
    if w = 1 then some .dp else if w = 2 then some .abs else if w = 3 then some .long else none
  | false, .none, none, some i =>
    if i == Idx.x then (if w = 1 then some .dpx else if w = 2 then some .absx else if w = 3 then some .longx else none)
    else if i == Idx.y then (if w = 1 then some .dpy else if w = 2 then some .absy else none)
    else if i == Idx.s then (if w = 1 then some .sr else none)
    else none
  | false, .paren, none, none => if w = 1 then some .ind else if w = 2 then some .absind else none
  | false, .paren, none, some i => if i == Idx.y && w = 1 then some .indy else none
  | false, .square, none, none => if w = 1 then some .indl else if w = 2 then some .absindl else none
  | false, .square, none, some i => if i == Idx.y && w = 1 then some .indly else none
  | false, .paren, some i, none =>
    if i == Idx.x then (if w = 1 then some .indx else if w = 2 then some .absindx else none) else none
  | false, .paren, some i, some o => if i == Idx.s && o == Idx.y && w = 1 then some .sry else none
  | _, _, _, _ => none

/-- shape denoted by operand syntax `syn` at operand width `w` for mnemonic `mn` -/
def shapeOf (mn : String) (syn : Syntax) (w : Nat) : Option Shape := shapeOfMx (mxImmediate.contains mn) syn w

/-- opcode of mnemonic `mn` in `shape` under a816's conventions: a lone mnemonic is the implied or the
    accumulator form; `jmp.l` / `jsr.l` are JML / JSL; `jmp [abs]` is JML. -/
def isaFor (mn : String) (sh : Shape) : Option Nat :=
  match isa mn sh with
  | some b => some b
  | none =>
    if sh == .imp then isa mn .acc
    else if mn == "jmp" && sh == .long then isa "jml" .long
    else if mn == "jsr" && sh == .long then isa "jsl" .long
    else if mn == "jmp" && sh == .absindl then isa "jml" .absindl
    else none

/-- The width rule: the explicit suffix, else the smallest of 1, 2, 3 bytes holding the non-negative value. -/
def widthRule (sfx : Option Nat) (v : Int) (w : Nat) : Prop :=
  match sfx with
  | some s => w = s
  | none => 0 ≤ v ∧ ((w = 1 ∧ v < 256) ∨ (w = 2 ∧ 256 ≤ v ∧ v < 65536) ∨ (w = 3 ∧ 65536 ≤ v ∧ v < 16777216))

end A816.Spec
