/-!
# Spec — table-encoded text (independent of the model)

A table is a list of `(text, code)` lines; a later line for the same text replaces an earlier one.
Encoding walks the string: `[0xNN]` emits the raw byte `NN`; otherwise the **longest** table text
that is a prefix of what remains is replaced by its code; a character that starts no table text is skipped.
-/
namespace A816.Spec.Table

abbrev Line := List Char × List Nat

/-- code of a text: the last line defining it -/
def codeOf (tbl : List Line) (text : List Char) : Option (List Nat) :=
  (tbl.reverse.find? fun l => l.1 == text).map (·.2)

/-- `n` is the length of the longest table text that is a non-empty prefix of `s`, with code `code` -/
def IsLongest (tbl : List Line) (s : List Char) (n : Nat) (code : List Nat) : Prop :=
  1 ≤ n ∧ n ≤ s.length ∧ codeOf tbl (s.take n) = some code ∧
  ∀ m, n < m → m ≤ s.length → codeOf tbl (s.take m) = none

/-- no table text is a non-empty prefix of `s` -/
def NoMatch (tbl : List Line) (s : List Char) : Prop :=
  ∀ m, 1 ≤ m → m ≤ s.length → codeOf tbl (s.take m) = none

/-- executable longest match: try lengths `k, k-1, …, 1` -/
def longestFrom (tbl : List Line) (s : List Char) : Nat → Option (List Nat × Nat)
  | 0 => none
  | k+1 =>
    match codeOf tbl (s.take (k+1)) with
    | some c => some (c, k+1)
    | none => longestFrom tbl s k

def longest (tbl : List Line) (s : List Char) : Option (List Nat × Nat) := longestFrom tbl s s.length

def hexVal (c : Char) : Option Nat :=
  if '0' ≤ c ∧ c ≤ '9' then some (c.toNat - 48)
  else if 'a' ≤ c ∧ c ≤ 'f' then some (c.toNat - 87)
  else if 'A' ≤ c ∧ c ≤ 'F' then some (c.toNat - 55)
  else none

def takeHex : List Char → List Nat × List Char
  | [] => ([], [])
  | c :: cs => match hexVal c with
    | some d => let (a, b) := takeHex cs; (d :: a, b)
    | none => ([], c :: cs)

/-- the `[0xNN]` escape at the start of `s`: (value, number of characters) -/
def escape (s : List Char) : Option (Nat × Nat) :=
  if s.take 3 = ['[', '0', 'x'] then
    let th := takeHex (s.drop 3)
    if th.1.isEmpty then none
    else if th.2.head? = some ']' then some (th.1.foldl (fun a d => a * 16 + d) 0, th.1.length + 4)
    else none
  else none

/-- reference encoder (fuel = length of the string); `none` = an escape above 0xFF -/
def encode (tbl : List Line) : Nat → List Char → Option (List Nat)
  | 0, _ => some []
  | fuel+1, s =>
    if s.isEmpty then some [] else
    match escape s with
    | some (v, n) => if v > 255 then none else (encode tbl fuel (s.drop n)).map (v :: ·)
    | none =>
      match longest tbl s with
      | some (code, n) => (encode tbl fuel (s.drop n)).map (code ++ ·)
      | none => encode tbl fuel (s.drop 1)

/-- the texts of the entries matched while encoding `s` (escapes contribute nothing), in order -/
def matched (tbl : List Line) : Nat → List Char → List Char
  | 0, _ => []
  | fuel+1, s =>
    if s.isEmpty then [] else
    match escape s with
    | some (_, n) => matched tbl fuel (s.drop n)
    | none =>
      match longest tbl s with
      | some (_, n) => s.take n ++ matched tbl fuel (s.drop n)
      | none => matched tbl fuel (s.drop 1)

end A816.Spec.Table
