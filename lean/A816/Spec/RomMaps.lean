/-!
# Spec — what an address mapping means (independent of the model)

A mapped range covers banks `first … last`, each bank contributing a window of `size` bytes at the
top of the bank (`size = 0x8000`: LoROM-style 32 KiB windows `0x8000–0xFFFF`; `size = 0x10000`:
HiROM-style whole banks).  The file offset of an address is
`(bank − first) · size + position inside the window`.
-/
namespace A816.Spec

structure Range where
  first : Nat
  last : Nat
  size : Nat
  deriving DecidableEq, Repr

def windowStart (size : Nat) : Nat := 0x10000 - size
def bankOf (a : Nat) : Nat := a / 0x10000
def inBank (a : Nat) : Nat := a % 0x10000

def inWindow (size a : Nat) : Prop := windowStart size ≤ inBank a
instance (size a : Nat) : Decidable (inWindow size a) := by unfold inWindow; infer_instance

/-- textbook file offset of logical address `a` in range `r` -/
def offset (r : Range) (a : Nat) : Nat :=
  (bankOf a - r.first) * r.size + (inBank a - windowStart r.size)

/-- textbook logical address of file offset `p` in range `r` -/
def address (r : Range) (p : Nat) : Nat :=
  (r.first + p / r.size) * 0x10000 + (windowStart r.size + p % r.size)

/-- SNES hardware fact used by C04: banks 7E and 7F are work RAM. -/
def wramBanks : List Nat := [0x7E, 0x7F]

/-- What a bank is on a memory map: ROM in a range, RAM, or (none) unmapped. -/
inductive BankKind
  | rom (r : Range)
  | ram
  deriving DecidableEq, Repr

/-- The SNES LoROM map as the assembler supports it today: 00–6F ROM (32 KiB windows, first bank 00),
    80–CF its mirror (first bank 80), 7E–7F work RAM, everything else unmapped. -/
def loRomBank (b : Nat) : Option BankKind :=
  if b ≤ 0x6F then some (.rom ⟨0x00, 0x6F, 0x8000⟩)
  else if 0x7E ≤ b ∧ b ≤ 0x7F then some .ram
  else if 0x80 ≤ b ∧ b ≤ 0xCF then some (.rom ⟨0x80, 0xCF, 0x8000⟩)
  else none

/-- HiROM: 40–7D ROM (whole banks, first bank 40), C0–FF its mirror (first bank C0), 7E–7F work RAM. -/
def hiRomBank (b : Nat) : Option BankKind :=
  if 0x40 ≤ b ∧ b ≤ 0x7D then some (.rom ⟨0x40, 0x7F, 0x10000⟩)
  else if 0x7E ≤ b ∧ b ≤ 0x7F then some .ram
  else if 0xC0 ≤ b ∧ b ≤ 0xFF then some (.rom ⟨0xC0, 0xFF, 0x10000⟩)
  else none

/-- translation of a logical address on a memory map: `none` = rejected, `some none` = RAM (no file
    offset), `some (some p)` = file offset `p`. Only meaningful for in-window addresses. -/
def phys (banks : Nat → Option BankKind) (a : Int) : Option (Option Nat) :=
  if a < 0 then none else
  match banks (bankOf a.toNat) with
  | none => none
  | some .ram => some none
  | some (.rom r) => some (some (offset r a.toNat))

end A816.Spec
