/-!
# Spec — the IPS patch format (independent of the model)

`PATCH`, then records, then `EOF`.  A record is a 3-byte big-endian offset, a 2-byte big-endian
size and `size` data bytes; size 0 announces a run-length record (2-byte big-endian run length,
1 value byte).  A patcher stops at the first record position that reads `EOF`.
-/
namespace A816.Spec.Ips

def magic : List Nat := [0x50, 0x41, 0x54, 0x43, 0x48]   -- "PATCH"
def eof : List Nat := [0x45, 0x4F, 0x46]                  -- "EOF"

/-- one patch record with run-length records expanded -/
structure Record where
  offset : Nat
  data : List Nat
  deriving DecidableEq, Repr

/-- records of a patch body (after `PATCH`); `none` = malformed (truncated record, no `EOF`).
    Bytes after the `EOF` marker are not looked at. -/
def parseRecords : Nat → List Nat → Option (List Record)
  | 0, _ => none
  | fuel+1, bs =>
    if bs.take 3 = eof then some [] else
    match bs with
    | a :: b :: c :: h :: l :: rest =>
      let size := h * 256 + l
      if size = 0 then
        match rest with
        | ch :: cl :: v :: rest' =>
          (parseRecords fuel rest').map fun rs => ⟨a * 65536 + b * 256 + c, List.replicate (ch * 256 + cl) v⟩ :: rs
        | _ => none
      else if rest.length < size then none
      else (parseRecords fuel (rest.drop size)).map fun rs => ⟨a * 65536 + b * 256 + c, rest.take size⟩ :: rs
    | _ => none

/-- a whole patch file -/
def parse (file : List Nat) : Option (List Record) :=
  if file.take 5 = magic then parseRecords (file.length + 1) (file.drop 5) else none

/-- a sparse image: offset ↦ byte -/
abbrev Image := Nat → Option Nat

def writeAt (img : Image) (offset : Nat) (data : List Nat) : Image :=
  fun k => if offset ≤ k ∧ k < offset + data.length then data[k - offset]? else img k

/-- what a standard patcher does with the records, in order -/
def apply (img : Image) : List Record → Image
  | [] => img
  | r :: rs => apply (writeAt img r.offset r.data) rs

end A816.Spec.Ips
