import A816.Proofs.Unrelated
/-!
# An unrelated definition does not change the output (helper lemmas for C08)

`Z` is a set of names closed under qualification (`Z n → Z (s ++ "." ++ n)`: what a definition of `z` becomes when named
scopes export it).  `RZ Z r r'`: the resolvers differ only in what their scopes hold for names in `Z` (entries of `symbols` /
`labels`).  Every pass step and every emission step of a node that mentions no name of `Z` takes `RZ`-related resolvers to
the same outcome: the same error, or the same address / bytes and `RZ`-related resolvers — including leaving a named
scope, whose exports are compared key by key (`fold_congr`; the symbol lists hold each key once).
-/
namespace A816.Unrel
open A816 Resolver

/-- the keys of an association list are pairwise different (dict semantics: `ainsert` replaces in place) -/
def NodupKeys {β} (l : List (String × β)) : Prop := (l.map Prod.fst).Nodup

/-- scope records that differ only in the entries of `symbols` and `labels` for names in `Z` -/
structure SameZ (Z : String → Prop) (a b : ScopeRec) : Prop where
  kind : a.kind = b.kind
  parent : a.parent = b.parent
  code : a.codeSymbols = b.codeSymbols
  table : a.table = b.table
  syms : ∀ n, ¬ Z n → alookup n a.symbols = alookup n b.symbols
  labs : ∀ n, ¬ Z n → alookup n a.labels = alookup n b.labels
  nda : NodupKeys a.symbols
  ndb : NodupKeys b.symbols

theorem SameZ.sameBut {Z : String → Prop} {a b : ScopeRec} (h : SameZ Z a b) : SameBut Z a b := ⟨h.parent, h.code, h.syms⟩

/-- resolvers that differ only in what their scopes hold for names in `Z` -/
structure RZ (Z : String → Prop) (r r' : Resolver) : Prop where
  eq : ∃ sc, r' = { r with scopes := sc }
  size : r'.scopes.size = r.scopes.size
  sc : ∀ i, SameZ Z (r.scopes.getD i default) (r'.scopes.getD i default)

variable {Z : String → Prop}

theorem RZ.current {r r' : Resolver} (h : RZ Z r r') : r'.current = r.current := by
  obtain ⟨sc, rfl⟩ := h.eq; rfl
theorem RZ.lastUsed {r r' : Resolver} (h : RZ Z r r') : r'.lastUsed = r.lastUsed := by
  obtain ⟨sc, rfl⟩ := h.eq; rfl
theorem RZ.pc {r r' : Resolver} (h : RZ Z r r') : r'.pc = r.pc := by
  obtain ⟨sc, rfl⟩ := h.eq; rfl
theorem RZ.reloc {r r' : Resolver} (h : RZ Z r r') : r'.reloc = r.reloc := by
  obtain ⟨sc, rfl⟩ := h.eq; rfl
theorem RZ.getBus {r r' : Resolver} (h : RZ Z r r') : r'.getBus = r.getBus := by
  obtain ⟨sc, rfl⟩ := h.eq; rfl

theorem RZ.cur {r r' : Resolver} (h : RZ Z r r') : SameZ Z r.cur r'.cur := by
  unfold Resolver.cur Resolver.scopeAt
  rw [h.current]; exact h.sc _

theorem RZ.valueFor {r r' : Resolver} (h : RZ Z r r') (n : String) (hn : ¬ Z n) : r'.valueFor n = r.valueFor n := by
  unfold Resolver.valueFor
  rw [h.size, h.current]
  exact (valueForAux_sameBut Z n hn _ _ (fun i => (h.sc i).sameBut) _ _).symm

theorem RZ.look {r r' : Resolver} (h : RZ Z r r') (n : String) (hn : ¬ Z n) : r'.look n = r.look n := by
  unfold Resolver.look; rw [h.valueFor n hn]

/-- moving to another current scope keeps the relation -/
theorem RZ.withCurrent {r r' : Resolver} (h : RZ Z r r') (c : Nat) :
    RZ Z { r with current := c } { r' with current := c } := by
  obtain ⟨sc, rfl⟩ := h.eq
  exact ⟨⟨sc, rfl⟩, h.size, h.sc⟩

/-- no name of `Z` occurs as an identifier of the expression -/
def FreeE (Z : String → Prop) (e : PExpr) : Prop := ∀ n, ENode.term .identifier n ∈ e.nodes → ¬ Z n

theorem RZ.evalP {r r' : Resolver} (h : RZ Z r r') (env : Env) (e : PExpr) (hz : FreeE Z e) :
    evalP env r' e = evalP env r e := by
  unfold A816.evalP
  apply evalTokens_congr
  intro n hn
  exact h.look n (hz n hn)

theorem RZ.getValue {r r' : Resolver} (h : RZ Z r r') (env : Env) (e : PExpr) (info : Tok) (hz : FreeE Z e) :
    getValue env r' e info = getValue env r e info := by
  unfold A816.getValue; rw [h.evalP env e hz]

theorem alookup_ainsert_self {β} (k : String) (v : β) (l : List (String × β)) : alookup k (ainsert k v l) = some v := by
  induction l with
  | nil => simp [ainsert, alookup]
  | cons a rest ih =>
    obtain ⟨ka, va⟩ := a
    simp only [ainsert]
    by_cases hka : (ka == k) = true
    · rw [if_pos hka]; simp [alookup, hka]
    · rw [if_neg hka]; simp only [alookup, hka]; exact ih

theorem alookup_ainsert_congr {β} (k : String) (v : β) (l l' : List (String × β)) (n : String)
    (h : alookup n l = alookup n l') : alookup n (ainsert k v l) = alookup n (ainsert k v l') := by
  by_cases hnk : n = k
  · subst hnk; rw [alookup_ainsert_self, alookup_ainsert_self]
  · rw [alookup_ainsert_ne' k n v l hnk, alookup_ainsert_ne' k n v l' hnk, h]

/-! ### association lists with pairwise different keys; the exports of a named scope -/

theorem alookup_isSome_iff {β} (k : String) (l : List (String × β)) : (alookup k l).isSome = true ↔ k ∈ l.map Prod.fst := by
  induction l with
  | nil => simp [alookup]
  | cons a rest ih =>
    obtain ⟨ka, va⟩ := a
    simp only [alookup, List.map_cons, List.mem_cons]
    by_cases hk : (ka == k) = true
    · have : ka = k := by simpa using hk
      simp [hk, this]
    · have : ¬ k = ka := fun e => hk (by simp [e])
      simp only [hk, Bool.false_eq_true, ↓reduceIte, ih, this, false_or]

theorem keys_ainsert {β} (k : String) (v : β) (l : List (String × β)) :
    (ainsert k v l).map Prod.fst = if (alookup k l).isSome then l.map Prod.fst else l.map Prod.fst ++ [k] := by
  induction l with
  | nil => simp [ainsert, alookup]
  | cons a rest ih =>
    obtain ⟨ka, va⟩ := a
    simp only [ainsert, alookup]
    by_cases hk : (ka == k) = true
    · simp [hk]
    · simp only [hk, Bool.false_eq_true, ↓reduceIte, List.map_cons, ih]
      split <;> simp

theorem nodup_ainsert {β} (k : String) (v : β) (l : List (String × β)) (h : NodupKeys l) : NodupKeys (ainsert k v l) := by
  unfold NodupKeys at h ⊢
  rw [keys_ainsert]
  split
  · exact h
  · rename_i hn
    have : k ∉ l.map Prod.fst := fun hm => hn ((alookup_isSome_iff k l).mpr hm)
    exact List.nodup_append.mpr ⟨h, by simp, fun a ha b hb => by
      simp only [List.mem_singleton] at hb; subst hb; intro e; subst e; exact this ha⟩

theorem dotted_inj (a k1 k2 : String) (h : a ++ "." ++ k1 = a ++ "." ++ k2) : k1 = k2 := by
  have := congrArg String.toList h
  simp only [String.toList_append, List.append_assoc] at this
  exact String.toList_inj.mp (List.append_cancel_left (List.append_cancel_left this))

/-- `restore_scope(exports=True)`: the symbols of the scope that is left, written under qualified keys -/
def exportFold (name : String) (src acc : List (String × Int)) : List (String × Int) :=
  src.foldl (fun acc (kv : String × Int) => ainsert (name ++ "." ++ kv.1) kv.2 acc) acc

theorem exportFold_other (name m : String) : ∀ (l acc : List (String × Int)),
    (∀ k ∈ l.map Prod.fst, name ++ "." ++ k ≠ m) → alookup m (exportFold name l acc) = alookup m acc := by
  intro l
  induction l with
  | nil => intro acc _; rfl
  | cons kv rest ih =>
    intro acc h
    unfold exportFold
    simp only [List.foldl_cons]
    have := ih (ainsert (name ++ "." ++ kv.1) kv.2 acc) (fun k hk => h k (by simp only [List.map_cons, List.mem_cons]; exact Or.inr hk))
    unfold exportFold at this
    rw [this]
    exact alookup_ainsert_ne' _ m _ _ (fun e => h kv.1 (by simp) e.symm)

theorem exportFold_hit (name : String) : ∀ (l acc : List (String × Int)) (k : String) (v : Int), NodupKeys l →
    alookup k l = some v → alookup (name ++ "." ++ k) (exportFold name l acc) = some v := by
  intro l
  induction l with
  | nil => intro acc k v _ h; simp [alookup] at h
  | cons kv rest ih =>
    intro acc k v hn h
    obtain ⟨k0, v0⟩ := kv
    unfold NodupKeys at hn
    simp only [List.map_cons, List.nodup_cons] at hn
    unfold exportFold
    simp only [List.foldl_cons]
    simp only [alookup] at h
    by_cases hk : (k0 == k) = true
    · have e : k0 = k := by simpa using hk
      simp only [hk, ↓reduceIte, Option.some.injEq] at h
      subst e; subst h
      have := exportFold_other name (name ++ "." ++ k0) rest (ainsert (name ++ "." ++ k0) v0 acc)
        (fun k' hk' e' => hn.1 (by rw [dotted_inj name k' k0 e'] at hk'; exact hk'))
      unfold exportFold at this
      rw [this]
      exact alookup_ainsert_self _ _ _
    · simp only [hk, Bool.false_eq_true, ↓reduceIte] at h
      have := ih (ainsert (name ++ "." ++ k0) v0 acc) k v hn.2 h
      unfold exportFold at this
      exact this

theorem nodup_exportFold (name : String) : ∀ (l acc : List (String × Int)), NodupKeys acc → NodupKeys (exportFold name l acc) := by
  intro l
  induction l with
  | nil => intro acc h; exact h
  | cons kv rest ih =>
    intro acc h
    unfold exportFold
    simp only [List.foldl_cons]
    exact ih _ (nodup_ainsert _ _ _ h)

/-- the exports of two scopes that agree off `Z`, written into two lists that agree off `Z`, agree off `Z` -/
theorem exportFold_congr (hZ : ∀ s n, Z n → Z (s ++ "." ++ n)) (name : String) (l l' acc acc' : List (String × Int))
    (hn : NodupKeys l) (hn' : NodupKeys l') (hl : ∀ k, ¬ Z k → alookup k l = alookup k l')
    (ha : ∀ m, ¬ Z m → alookup m acc = alookup m acc') :
    ∀ m, ¬ Z m → alookup m (exportFold name l acc) = alookup m (exportFold name l' acc') := by
  intro m hm
  by_cases hex : ∃ k ∈ l.map Prod.fst, name ++ "." ++ k = m
  · obtain ⟨k, hk, rfl⟩ := hex
    have hzk : ¬ Z k := fun hz => hm (hZ name k hz)
    have hs := (alookup_isSome_iff k l).mpr hk
    cases hv : alookup k l with
    | none => rw [hv] at hs; cases hs
    | some v =>
      rw [exportFold_hit name l acc k v hn hv, exportFold_hit name l' acc' k v hn' (by rw [← hl k hzk]; exact hv)]
  · have h1 : ∀ k ∈ l.map Prod.fst, name ++ "." ++ k ≠ m := fun k hk e => hex ⟨k, hk, e⟩
    have h2 : ∀ k ∈ l'.map Prod.fst, name ++ "." ++ k ≠ m := by
      intro k hk e
      have hzk : ¬ Z k := fun hz => hm (by rw [← e]; exact hZ name k hz)
      have : (alookup k l).isSome = true := by rw [hl k hzk]; exact (alookup_isSome_iff k l').mpr hk
      exact hex ⟨k, (alookup_isSome_iff k l).mp this, e⟩
    rw [exportFold_other name m l acc h1, exportFold_other name m l' acc' h2, ha m hm]

theorem getD_modify' (a : Array ScopeRec) (p k : Nat) (f : ScopeRec → ScopeRec) :
    (a.modify p f).getD k default = (if p = k ∧ k < a.size then f (a.getD k default) else a.getD k default) := by
  simp only [Array.getD_eq_getD_getElem?, Array.getElem?_modify]
  by_cases hpk : p = k
  · subst hpk
    simp only [↓reduceIte, true_and]
    by_cases hlt : p < a.size
    · simp [hlt]
    · simp [hlt]
  · simp [hpk]

/-- modifying the current scope by functions that respect `SameZ` -/
theorem RZ.modifyCur {r r' : Resolver} (h : RZ Z r r') (f : ScopeRec → ScopeRec)
    (hf : ∀ a b, SameZ Z a b → SameZ Z (f a) (f b)) : RZ Z (r.modifyCur f) (r'.modifyCur f) := by
  obtain ⟨sc, rfl⟩ := h.eq
  refine ⟨⟨sc.modify r.current f, rfl⟩, by simp [Resolver.modifyCur]; exact h.size, ?_⟩
  intro i
  show SameZ Z ((r.scopes.modify r.current f).getD i default) ((sc.modify r.current f).getD i default)
  rw [getD_modify', getD_modify']
  have hs : sc.size = r.scopes.size := h.size
  by_cases hc : r.current = i ∧ i < r.scopes.size
  · rw [if_pos hc, if_pos ⟨hc.1, by rw [hs]; exact hc.2⟩]
    exact hf _ _ (h.sc i)
  · rw [if_neg hc, if_neg (fun x => hc ⟨x.1, by rw [← hs]; exact x.2⟩)]
    exact h.sc i

theorem RZ.addSymbol {r r' : Resolver} (h : RZ Z r r') (n : String) (v : Int) : RZ Z (r.addSymbol n v) (r'.addSymbol n v) := by
  unfold Resolver.addSymbol
  apply h.modifyCur
  intro a b hab
  exact ⟨hab.kind, hab.parent, hab.code, hab.table, fun m hm => alookup_ainsert_congr n v _ _ m (hab.syms m hm), hab.labs,
    nodup_ainsert _ _ _ hab.nda, nodup_ainsert _ _ _ hab.ndb⟩

theorem RZ.addLabel {r r' : Resolver} (h : RZ Z r r') (n : String) (v : Int) : RZ Z (r.addLabel n v) (r'.addLabel n v) := by
  unfold Resolver.addLabel
  apply h.modifyCur
  intro a b hab
  exact ⟨hab.kind, hab.parent, hab.code, hab.table, fun m hm => alookup_ainsert_congr n v _ _ m (hab.syms m hm),
    fun m hm => alookup_ainsert_congr n v _ _ m (hab.labs m hm), nodup_ainsert _ _ _ hab.nda, nodup_ainsert _ _ _ hab.ndb⟩

/-- the definition of a name of `Z`, on one side only -/
theorem RZ.addSymbol_z {r r' : Resolver} (h : RZ Z r r') (z : String) (hz : Z z) (v : Int) : RZ Z r (r'.addSymbol z v) := by
  obtain ⟨sc, rfl⟩ := h.eq
  refine ⟨⟨sc.modify r.current _, rfl⟩, by simp [Resolver.addSymbol, Resolver.modifyCur]; exact h.size, ?_⟩
  intro i
  show SameZ Z (r.scopes.getD i default) ((sc.modify r.current _).getD i default)
  rw [getD_modify']
  have hi := h.sc i
  split
  · exact ⟨hi.kind, hi.parent, hi.code, hi.table,
      fun m hm => by rw [hi.syms m hm]; exact (alookup_ainsert_ne' z m v _ (fun e => hm (e ▸ hz))).symm, hi.labs,
      hi.nda, nodup_ainsert _ _ _ hi.ndb⟩
  · exact hi

theorem RZ.refl (r : Resolver) (hk : ∀ i, NodupKeys (r.scopes.getD i default).symbols) : RZ Z r r :=
  ⟨⟨r.scopes, rfl⟩, rfl, fun i => ⟨rfl, rfl, rfl, rfl, fun _ _ => rfl, fun _ _ => rfl, hk i, hk i⟩⟩

/-- related optional resolvers -/
def ROpt (Z : String → Prop) : Option Resolver → Option Resolver → Prop
  | some a, some b => RZ Z a b
  | none, none => True
  | _, _ => False

theorem RZ.useNextScope {r r' : Resolver} (h : RZ Z r r') : ROpt Z r.useNextScope r'.useNextScope := by
  unfold Resolver.useNextScope
  rw [h.lastUsed, h.size]
  by_cases hc : r.lastUsed + 1 < r.scopes.size
  · rw [if_pos hc, if_pos hc]
    obtain ⟨sc, rfl⟩ := h.eq
    exact ⟨⟨sc, rfl⟩, h.size, h.sc⟩
  · rw [if_neg hc, if_neg hc]; trivial

/-- modifying one scope on each side by functions that respect `SameZ` -/
theorem RZ.modifyAt {r r' : Resolver} (h : RZ Z r r') (p : Nat) (f f' : ScopeRec → ScopeRec)
    (hf : ∀ a b, SameZ Z a b → SameZ Z (f a) (f' b)) :
    RZ Z { r with scopes := r.scopes.modify p f } { r' with scopes := r'.scopes.modify p f' } := by
  obtain ⟨sc, rfl⟩ := h.eq
  have hs : sc.size = r.scopes.size := h.size
  refine ⟨⟨sc.modify p f', rfl⟩, by simp; exact hs, ?_⟩
  intro i
  show SameZ Z ((r.scopes.modify p f).getD i default) ((sc.modify p f').getD i default)
  rw [getD_modify', getD_modify']
  by_cases hc : p = i ∧ i < r.scopes.size
  · rw [if_pos hc, if_pos ⟨hc.1, by rw [hs]; exact hc.2⟩]
    exact hf _ _ (h.sc i)
  · rw [if_neg hc, if_neg (fun x => hc ⟨x.1, by rw [← hs]; exact x.2⟩)]
    exact h.sc i

theorem restoreScope_eq (r : Resolver) (ex : Bool) :
    r.restoreScope ex = (match r.cur.parent with
      | none => none
      | some p =>
        some { (match ex, r.cur.kind with
          | true, .named name =>
            { r with scopes := r.scopes.modify p fun ps => { ps with symbols := exportFold name r.cur.symbols ps.symbols } }
          | _, _ => r) with current := p }) := by
  unfold Resolver.restoreScope exportFold
  rfl

theorem RZ.restoreScope (hZ : ∀ s n, Z n → Z (s ++ "." ++ n)) {r r' : Resolver} (h : RZ Z r r') (ex : Bool) :
    ROpt Z (r.restoreScope ex) (r'.restoreScope ex) := by
  have hc := h.cur
  rw [restoreScope_eq, restoreScope_eq, ← hc.parent, ← hc.kind]
  cases r.cur.parent with
  | none => trivial
  | some p =>
    have key : RZ Z
        (match ex, r.cur.kind with
          | true, .named name =>
            { r with scopes := r.scopes.modify p fun ps => { ps with symbols := exportFold name r.cur.symbols ps.symbols } }
          | _, _ => r)
        (match ex, r.cur.kind with
          | true, .named name =>
            { r' with scopes := r'.scopes.modify p fun ps => { ps with symbols := exportFold name r'.cur.symbols ps.symbols } }
          | _, _ => r') := by
      cases ex with
      | false => exact h
      | true =>
        cases r.cur.kind with
        | plain => exact h
        | internal => exact h
        | named name =>
          apply h.modifyAt
          intro a b hab
          exact ⟨hab.kind, hab.parent, hab.code, hab.table,
            exportFold_congr hZ name _ _ _ _ hc.nda hc.ndb hc.syms hab.syms, hab.labs,
            nodup_exportFold name _ _ hab.nda, nodup_exportFold name _ _ hab.ndb⟩
    exact key.withCurrent p

theorem RZ.setPosition {r r' : Resolver} (h : RZ Z r r') (v : Int) : ROpt Z (r.setPosition v) (r'.setPosition v) := by
  unfold Resolver.setPosition
  rw [h.getBus]
  cases r.getBus with
  | none => trivial
  | some bus =>
    simp only []
    cases Address.mk? bus v with
    | none => trivial
    | some a =>
      simp only []
      rw [h.pc]
      obtain ⟨sc, rfl⟩ := h.eq
      exact ⟨⟨sc, rfl⟩, h.size, h.sc⟩

theorem RZ.checkLabel {r r' : Resolver} (h : RZ Z r r') (name : String) (hn : ¬ Z name) (a : Address) :
    checkLabel r' name a = checkLabel r name a := by
  unfold A816.checkLabel
  rw [← h.cur.labs name hn, h.valueFor name hn]

theorem RZ.emitRelative {r r' : Resolver} (h : RZ Z r r') (e : OpEntry) (v : Int) :
    emitRelative r' e v = emitRelative r e v := by
  unfold A816.emitRelative
  rw [h.reloc, h.getBus, h.pc]

/-! ## nodes -/

/-- a node that mentions no name of `Z`: no expression of it does, and it is not the label / included binary of such a name -/
def FreeN (Z : String → Prop) : Node → Prop
  | .label name => ¬ Z name
  | .symbol _ e => FreeE Z e
  | .argSymbol _ e => FreeE Z e
  | .binary _ base => ¬ Z base
  | .data _ e _ => FreeE Z e
  | .opcode _ _ _ _ value _ => ∀ e, value = some e → FreeE Z e
  | .codePos e _ => FreeE Z e
  | .reloc e _ => FreeE Z e
  | _ => True

/-- the same outcome of a pass step: the same error, or the same address and related resolvers -/
def RP (Z : String → Prop) : Except Err (Resolver × Address) → Except Err (Resolver × Address) → Prop
  | .ok (a, p), .ok (b, q) => RZ Z a b ∧ p = q
  | .error e, .error e' => e = e'
  | _, _ => False

/-- the same outcome of an emission step: the same error, or the same bytes and related resolvers -/
def RE (Z : String → Prop) : Except Err (Resolver × List Nat) → Except Err (Resolver × List Nat) → Prop
  | .ok (a, p), .ok (b, q) => RZ Z a b ∧ p = q
  | .error e, .error e' => e = e'
  | _, _ => False

theorem rp_map {r r' : Resolver} (h : RZ Z r r') (x : Except Err Address) :
    RP Z (x.map fun a => (r, a)) (x.map fun a => (r', a)) := by
  cases x with
  | error e => exact rfl
  | ok a => exact ⟨h, rfl⟩

theorem re_map {r r' : Resolver} (h : RZ Z r r') (x : Except Err (List Nat)) :
    RE Z (x.map fun a => (r, a)) (x.map fun a => (r', a)) := by
  cases x with
  | error e => exact rfl
  | ok a => exact ⟨h, rfl⟩

theorem pcAfter_rz (hZ : ∀ s n, Z n → Z (s ++ "." ++ n)) (env : Env) (n : Node) (hn : FreeN Z n) {r r' : Resolver} (h : RZ Z r r') (pc : Address) :
    RP Z (pcAfter env n r pc) (pcAfter env n r' pc) := by
  cases n with
  | label name => exact ⟨h.addLabel name _, rfl⟩
  | symbol name e =>
    simp only [pcAfter]
    rw [h.evalP env e hn]
    cases evalP env r e with
    | error er => exact rfl
    | ok v => exact ⟨h.addSymbol name v, rfl⟩
  | argSymbol name e =>
    simp only [pcAfter]
    rw [← h.cur.parent]
    cases r.cur.parent with
    | none => exact rfl
    | some par =>
      simp only []
      rw [(h.withCurrent par).evalP env e hn]
      cases evalP env { r with current := par } e with
      | error er => exact rfl
      | ok v => exact ⟨h.addSymbol name v, rfl⟩
  | symbolConst name v => exact ⟨h.addSymbol name v, rfl⟩
  | binary content base =>
    simp only [pcAfter]
    cases addrAdd pc content.length with
    | error er => exact rfl
    | ok a => exact ⟨(h.addLabel base _).addSymbol _ _, rfl⟩
  | data w e info => exact rp_map h _
  | opcode mn size mode index value info =>
    have hg : ∀ ve, value = some ve → getValue env r' ve info = getValue env r ve info :=
      fun ve hve => h.getValue env ve info (hn ve hve)
    clear hn
    simp only [pcAfter]
    cases opcodeEmitter env mn mode index info with
    | error er => exact rfl
    | ok e =>
      simp only []
      cases e.kind with
      | implied => exact rp_map h _
      | relative => exact rp_map h _
      | sized =>
        simp only []
        cases value with
        | none => exact rfl
        | some ve =>
          simp only []
          cases size with
          | some w => exact rp_map h _
          | none =>
            simp only []
            rw [hg ve rfl]
            cases getValue env r ve info with
            | error er => exact rfl
            | ok v => exact rp_map h _
  | codePos e info =>
    simp only [pcAfter]
    rw [h.getValue env e info hn, h.getBus]
    cases getValue env r e info with
    | error er => exact rfl
    | ok v =>
      simp only []
      cases r.getBus with
      | none => exact rfl
      | some bus =>
        simp only []
        cases Address.mk? bus v with
        | none => exact rfl
        | some a => exact ⟨h, rfl⟩
  | reloc e info =>
    simp only [pcAfter]
    rw [h.getValue env e info hn, h.getBus]
    cases getValue env r e info with
    | error er => exact rfl
    | ok v =>
      simp only []
      cases r.getBus with
      | none => exact rfl
      | some bus =>
        simp only []
        cases Address.mk? bus v with
        | none => exact rfl
        | some a => exact ⟨h, rfl⟩
  | includeIps b => exact ⟨h, rfl⟩
  | scopeEnter =>
    simp only [pcAfter]
    have := h.useNextScope
    revert this
    cases r.useNextScope <;> cases r'.useNextScope <;> intro this
    · exact rfl
    · exact this.elim
    · exact this.elim
    · exact ⟨this, rfl⟩
  | scopePop =>
    simp only [pcAfter]
    have := h.restoreScope hZ true
    revert this
    cases r.restoreScope true <;> cases r'.restoreScope true <;> intro this
    · exact rfl
    · exact this.elim
    · exact this.elim
    · exact ⟨this, rfl⟩
  | table => exact ⟨h, rfl⟩
  | text s tbl info =>
    simp only [pcAfter]
    cases textBytes s tbl info with
    | error er => exact rfl
    | ok bs => exact rp_map h _
  | ascii s => exact rp_map h _

theorem emitNode_rz (hZ : ∀ s n, Z n → Z (s ++ "." ++ n)) (env : Env) (n : Node) (hn : FreeN Z n) {r r' : Resolver} (h : RZ Z r r') :
    RE Z (emitNode env n r) (emitNode env n r') := by
  cases n with
  | label name =>
    simp only [emitNode]
    rw [h.checkLabel name hn, h.reloc]
    cases checkLabel r name r.reloc with
    | error er => exact rfl
    | ok u => exact ⟨h, rfl⟩
  | symbol name e => exact ⟨h, rfl⟩
  | argSymbol name e => exact ⟨h, rfl⟩
  | symbolConst name v => exact ⟨h, rfl⟩
  | binary content base =>
    simp only [emitNode]
    rw [h.checkLabel base hn, h.reloc]
    cases checkLabel r base r.reloc with
    | error er => exact rfl
    | ok u => exact ⟨h, rfl⟩
  | data w e info =>
    simp only [emitNode]
    rw [h.getValue env e info hn]
    cases getValue env r e info with
    | error er => exact rfl
    | ok v => exact ⟨h, rfl⟩
  | opcode mn size mode index value info =>
    have hg : ∀ ve, value = some ve → getValue env r' ve info = getValue env r ve info :=
      fun ve hve => h.getValue env ve info (hn ve hve)
    clear hn
    simp only [emitNode]
    cases opcodeEmitter env mn mode index info with
    | error er => exact rfl
    | ok e =>
      simp only []
      cases e.kind with
      | implied => exact re_map h _
      | relative =>
        simp only []
        cases value with
        | none => exact rfl
        | some ve =>
          simp only []
          rw [hg ve rfl]
          cases getValue env r ve info with
          | error er => exact rfl
          | ok v =>
            simp only []
            rw [h.emitRelative e v]
            exact re_map h _
      | sized =>
        simp only []
        cases value with
        | none => exact rfl
        | some ve =>
          simp only []
          have tail : ∀ (sz : Option Nat), RE Z
              (match getValue env r ve info with
                | .error er => .error er
                | .ok v =>
                  match emitEntry e sz (some v) with
                  | .error (.node msg _) => .error (nodeErr msg info)
                  | .error er => .error er
                  | .ok bs => .ok (r, bs))
              (match getValue env r' ve info with
                | .error er => .error er
                | .ok v =>
                  match emitEntry e sz (some v) with
                  | .error (.node msg _) => .error (nodeErr msg info)
                  | .error er => .error er
                  | .ok bs => .ok (r', bs)) := by
            intro sz
            rw [hg ve rfl]
            cases getValue env r ve info with
            | error er => exact rfl
            | ok v =>
              simp only []
              cases emitEntry e sz (some v) with
              | error er => cases er <;> exact rfl
              | ok bs => exact ⟨h, rfl⟩
          cases size with
          | none =>
            simp only [Bool.false_eq_true, ↓reduceIte]
            exact tail none
          | some w =>
            simp only []
            by_cases hc : (opcodeByte e w).isNone = true
            · rw [if_pos hc, if_pos hc]; exact rfl
            · rw [if_neg hc, if_neg hc]; exact tail (some w)
  | codePos e info =>
    simp only [emitNode]
    rw [h.getValue env e info hn]
    cases getValue env r e info with
    | error er => exact rfl
    | ok v =>
      simp only []
      have := h.setPosition v
      revert this
      cases r.setPosition v <;> cases r'.setPosition v <;> intro this
      · exact rfl
      · exact this.elim
      · exact this.elim
      · exact ⟨this, rfl⟩
  | reloc e info =>
    simp only [emitNode]
    rw [h.getValue env e info hn]
    cases getValue env r e info with
    | error er => exact rfl
    | ok v =>
      simp only []
      have := h.setPosition v
      revert this
      cases r.setPosition v <;> cases r'.setPosition v <;> intro this
      · exact rfl
      · exact this.elim
      · exact this.elim
      · exact ⟨this, rfl⟩
  | includeIps b => exact ⟨h, rfl⟩
  | scopeEnter =>
    simp only [emitNode]
    have := h.useNextScope
    revert this
    cases r.useNextScope <;> cases r'.useNextScope <;> intro this
    · exact rfl
    · exact this.elim
    · exact this.elim
    · exact ⟨this, rfl⟩
  | scopePop =>
    simp only [emitNode]
    have := h.restoreScope hZ false
    revert this
    cases r.restoreScope false <;> cases r'.restoreScope false <;> intro this
    · exact rfl
    · exact this.elim
    · exact this.elim
    · exact ⟨this, rfl⟩
  | table => exact ⟨h, rfl⟩
  | text s tbl info => exact re_map h _
  | ascii s => exact ⟨h, rfl⟩

/-! ## the passes -/

theorem passLoop_rz (hZ : ∀ s n, Z n → Z (s ++ "." ++ n)) (env : Env) (skip : Node → Bool) : ∀ (ns : List Node), (∀ n ∈ ns, FreeN Z n) →
    ∀ (r r' : Resolver) (pc : Address), RZ Z r r' → RP Z (passLoop env skip ns r pc) (passLoop env skip ns r' pc) := by
  intro ns
  induction ns with
  | nil => intro _ r r' pc h; exact ⟨h, rfl⟩
  | cons n ns ih =>
    intro hf r r' pc h
    unfold passLoop
    by_cases hs : skip n = true
    · rw [if_pos hs, if_pos hs]; exact ih (fun m hm => hf m (List.mem_cons_of_mem _ hm)) r r' pc h
    · rw [if_neg hs, if_neg hs]
      have := pcAfter_rz hZ env n (hf n List.mem_cons_self) h pc
      revert this
      cases pcAfter env n r pc with
      | error e =>
        cases pcAfter env n r' pc with
        | error e' => intro this; exact this
        | ok x => intro this; obtain ⟨x1, x2⟩ := x; exact this.elim
      | ok x =>
        obtain ⟨r1, pc1⟩ := x
        cases pcAfter env n r' pc with
        | error e' => intro this; exact this.elim
        | ok y =>
          obtain ⟨r1', pc1'⟩ := y
          intro this
          obtain ⟨h1, h2⟩ := this
          subst h2
          exact ih (fun m hm => hf m (List.mem_cons_of_mem _ hm)) r1 r1' pc1 h1

/-- the pass over a node list with one more definition of `z` somewhere in it -/
theorem passLoop_insert (hZ : ∀ s n, Z n → Z (s ++ "." ++ n)) (env : Env) (skip : Node → Bool) (z : String) (hz : Z z) (v : Int) (b : List Node) : ∀ (a : List Node),
    (∀ n ∈ a ++ b, FreeN Z n) → ∀ (r r' : Resolver) (pc : Address), RZ Z r r' →
    RP Z (passLoop env skip (a ++ b) r pc) (passLoop env skip (a ++ Node.symbolConst z v :: b) r' pc) := by
  intro a
  induction a with
  | nil =>
    intro hf r r' pc h
    simp only [List.nil_append]
    conv => rhs; unfold passLoop
    by_cases hs : skip (Node.symbolConst z v) = true
    · rw [if_pos hs]; exact passLoop_rz hZ env skip b hf r r' pc h
    · rw [if_neg hs]
      show RP Z _ (passLoop env skip b (r'.addSymbol z v) pc)
      exact passLoop_rz hZ env skip b hf r _ pc (h.addSymbol_z z hz v)
  | cons n ns ih =>
    intro hf r r' pc h
    simp only [List.cons_append]
    unfold passLoop
    by_cases hs : skip n = true
    · rw [if_pos hs, if_pos hs]; exact ih (fun m hm => hf m (List.mem_cons_of_mem _ hm)) r r' pc h
    · rw [if_neg hs, if_neg hs]
      have := pcAfter_rz hZ env n (hf n List.mem_cons_self) h pc
      revert this
      cases pcAfter env n r pc with
      | error e =>
        cases pcAfter env n r' pc with
        | error e' => intro this; exact this
        | ok x => intro this; obtain ⟨x1, x2⟩ := x; exact this.elim
      | ok x =>
        obtain ⟨r1, pc1⟩ := x
        cases pcAfter env n r' pc with
        | error e' => intro this; exact this.elim
        | ok y =>
          obtain ⟨r1', pc1'⟩ := y
          intro this
          obtain ⟨h1, h2⟩ := this
          subst h2
          exact ih (fun m hm => hf m (List.mem_cons_of_mem _ hm)) r1 r1' pc1 h1

theorem RZ.reset {r r' : Resolver} (h : RZ Z r r') : RZ Z (resolverReset r) (resolverReset r') := by
  obtain ⟨sc, rfl⟩ := h.eq
  exact ⟨⟨sc, rfl⟩, h.size, h.sc⟩

theorem RZ.lastUsed0 {r r' : Resolver} (h : RZ Z r r') : RZ Z { r with lastUsed := 0 } { r' with lastUsed := 0 } := by
  obtain ⟨sc, rfl⟩ := h.eq
  exact ⟨⟨sc, rfl⟩, h.size, h.sc⟩

/-- the same outcome of `resolve_labels` -/
def RR (Z : String → Prop) : Except Err Resolver → Except Err Resolver → Prop
  | .ok a, .ok b => RZ Z a b
  | .error e, .error e' => e = e'
  | _, _ => False

theorem resolveLabels_eq (env : Env) (nodes : List Node) (r : Resolver) :
    resolveLabels env nodes r =
      (passLoop env Node.isSymbol nodes { r with lastUsed := 0 } ({ r with lastUsed := 0 } : Resolver).reloc >>= fun p =>
        passLoop env Node.isLabelOrBinary nodes (resolverReset p.1) (resolverReset p.1).reloc >>= fun q =>
          pure (resolverReset q.1)) := by
  unfold resolveLabels
  simp only []
  cases passLoop env Node.isSymbol nodes { r with lastUsed := 0 } ({ r with lastUsed := 0 } : Resolver).reloc with
  | error e => rfl
  | ok p =>
    obtain ⟨r1, pc1⟩ := p
    show _ = (passLoop env Node.isLabelOrBinary nodes (resolverReset r1) (resolverReset r1).reloc >>= fun q =>
      (pure (resolverReset q.1) : Except Err Resolver))
    simp only []
    cases passLoop env Node.isLabelOrBinary nodes (resolverReset r1) (resolverReset r1).reloc with
    | error e => rfl
    | ok q => rfl

theorem RP.bindRR {x y : Except Err (Resolver × Address)} (hxy : RP Z x y)
    {f g : Resolver × Address → Except Err Resolver}
    (hfg : ∀ a b pc, RZ Z a b → RR Z (f (a, pc)) (g (b, pc))) : RR Z (x >>= f) (y >>= g) := by
  cases x with
  | error e =>
    cases y with
    | error e' => exact hxy
    | ok q => obtain ⟨q1, q2⟩ := q; exact hxy.elim
  | ok p =>
    obtain ⟨p1, p2⟩ := p
    cases y with
    | error e' => exact hxy.elim
    | ok q =>
      obtain ⟨q1, q2⟩ := q
      obtain ⟨h1, h2⟩ := hxy
      subst h2
      exact hfg p1 q1 p2 h1

theorem passLoop_insert' (hZ : ∀ s n, Z n → Z (s ++ "." ++ n)) (env : Env) (skip : Node → Bool) (z : String) (hz : Z z) (v : Int) (a b : List Node)
    (hf : ∀ n ∈ a ++ b, FreeN Z n) (r r' : Resolver) (pc pc' : Address) (hpc : pc' = pc) (h : RZ Z r r') :
    RP Z (passLoop env skip (a ++ b) r pc) (passLoop env skip (a ++ Node.symbolConst z v :: b) r' pc') := by
  subst hpc; exact passLoop_insert hZ env skip z hz v b a hf r r' pc' h

theorem resolveLabels_insert (hZ : ∀ s n, Z n → Z (s ++ "." ++ n)) (env : Env) (z : String) (hz : Z z) (v : Int) (a b : List Node) (hf : ∀ n ∈ a ++ b, FreeN Z n)
    (r r' : Resolver) (h : RZ Z r r') :
    RR Z (resolveLabels env (a ++ b) r) (resolveLabels env (a ++ Node.symbolConst z v :: b) r') := by
  rw [resolveLabels_eq, resolveLabels_eq]
  apply RP.bindRR (passLoop_insert' hZ env Node.isSymbol z hz v a b hf _ _ _ _ h.lastUsed0.reloc h.lastUsed0)
  intro a1 b1 pc1 h1
  have hr := h1.reset
  apply RP.bindRR (passLoop_insert' hZ env Node.isLabelOrBinary z hz v a b hf _ _ _ _ hr.reloc hr)
  intro a2 b2 pc2 h2
  exact h2.reset

/-! ## emission -/

/-- emission states that agree on everything the writer sees (the ghost trace is not compared) -/
structure RS (Z : String → Prop) (st st' : EmitState) : Prop where
  r : RZ Z st.r st'.r
  block : st'.block = st.block
  blockAddr : st'.blockAddr = st.blockAddr
  writes : st'.writes = st.writes
  own : st'.own = st.own

def RES (Z : String → Prop) : Except Err EmitState → Except Err EmitState → Prop
  | .ok a, .ok b => RS Z a b
  | .error e, .error e' => e = e'
  | _, _ => False

/-- the middle of `emitStep`: the node's bytes are appended to the pending block and the addresses advance -/
def stepF (st : EmitState) (r1 : Resolver) (bs : List Nat) : Except Err EmitState :=
  let rec0 : TraceRec := ⟨st.r.reloc.logical, st.blockAddr + st.block.length, bs⟩
  if bs.isEmpty then .ok { st with r := r1, trace := st.trace ++ [rec0] }
  else
    match addrAdd r1.reloc bs.length with
    | .error e => .error e
    | .ok a' =>
      .ok { st with r := { r1 with pc := r1.pc + bs.length, reloc := a' },
                    block := st.block ++ bs, trace := st.trace ++ [rec0] }

/-- the end of `emitStep`: a `*=` flushes the pending block, an included patch is handed to the writer -/
def postF (n : Node) (st1 : EmitState) : Except Err EmitState :=
  let st2 :=
    if n.isCodePos then
      if st1.block.isEmpty then { st1 with blockAddr := st1.r.pc, block := [] }
      else { st1 with writes := st1.writes ++ [(st1.blockAddr, st1.block)],
                      own := st1.own ++ [(st1.blockAddr, st1.block)], blockAddr := st1.r.pc, block := [] }
    else st1
  match n with
  | .includeIps blocks => .ok { st2 with writes := st2.writes ++ blocks }
  | _ => .ok st2

theorem emitStep_eq (env : Env) (n : Node) (st : EmitState) :
    emitStep env n st =
      (match emitNode env n st.r with
       | .error e => .error e
       | .ok (r1, bs) =>
         match stepF st r1 bs with
         | .error e => .error e
         | .ok st1 => postF n st1) := by
  unfold emitStep stepF postF
  rfl

theorem RZ.advance {r r' : Resolver} (h : RZ Z r r') (pc : Int) (a : Address) :
    RZ Z { r with pc := pc, reloc := a } { r' with pc := pc, reloc := a } := by
  obtain ⟨sc, rfl⟩ := h.eq
  exact ⟨⟨sc, rfl⟩, h.size, h.sc⟩

theorem stepF_rs {st st' : EmitState} (h : RS Z st st') {r1 r1' : Resolver} (h1 : RZ Z r1 r1') (bs : List Nat) :
    RES Z (stepF st r1 bs) (stepF st' r1' bs) := by
  unfold stepF
  simp only []
  by_cases hemp : bs.isEmpty = true
  · rw [if_pos hemp, if_pos hemp]
    exact ⟨h1, h.block, h.blockAddr, h.writes, h.own⟩
  · rw [if_neg hemp, if_neg hemp, h1.reloc]
    cases addrAdd r1.reloc bs.length with
    | error e => exact rfl
    | ok a' =>
      refine ⟨?_, by show st'.block ++ bs = st.block ++ bs; rw [h.block], h.blockAddr, h.writes, h.own⟩
      show RZ Z { r1 with pc := r1.pc + bs.length, reloc := a' } { r1' with pc := r1'.pc + bs.length, reloc := a' }
      rw [h1.pc]; exact h1.advance _ _

theorem postF_rs (n : Node) {s1 s1' : EmitState} (h : RS Z s1 s1') : RES Z (postF n s1) (postF n s1') := by
  have h2 : RS Z
      (if n.isCodePos then
        if s1.block.isEmpty then { s1 with blockAddr := s1.r.pc, block := [] }
        else { s1 with writes := s1.writes ++ [(s1.blockAddr, s1.block)],
                        own := s1.own ++ [(s1.blockAddr, s1.block)], blockAddr := s1.r.pc, block := [] }
      else s1)
      (if n.isCodePos then
        if s1'.block.isEmpty then { s1' with blockAddr := s1'.r.pc, block := [] }
        else { s1' with writes := s1'.writes ++ [(s1'.blockAddr, s1'.block)],
                        own := s1'.own ++ [(s1'.blockAddr, s1'.block)], blockAddr := s1'.r.pc, block := [] }
      else s1') := by
    rw [h.block, h.blockAddr, h.writes, h.own, h.r.pc]
    by_cases hc : n.isCodePos = true
    · rw [if_pos hc, if_pos hc]
      by_cases he : s1.block.isEmpty = true
      · rw [if_pos he, if_pos he]; exact ⟨h.r, rfl, rfl, rfl, rfl⟩
      · rw [if_neg he, if_neg he]; exact ⟨h.r, rfl, rfl, rfl, rfl⟩
    · rw [if_neg hc, if_neg hc]; exact h
  unfold postF
  simp only []
  revert h2
  generalize (if n.isCodePos then
        if s1.block.isEmpty then { s1 with blockAddr := s1.r.pc, block := [] }
        else { s1 with writes := s1.writes ++ [(s1.blockAddr, s1.block)],
                        own := s1.own ++ [(s1.blockAddr, s1.block)], blockAddr := s1.r.pc, block := [] }
      else s1) = t
  generalize (if n.isCodePos then
        if s1'.block.isEmpty then { s1' with blockAddr := s1'.r.pc, block := [] }
        else { s1' with writes := s1'.writes ++ [(s1'.blockAddr, s1'.block)],
                        own := s1'.own ++ [(s1'.blockAddr, s1'.block)], blockAddr := s1'.r.pc, block := [] }
      else s1') = t'
  intro h2
  cases n <;> first
    | exact h2
    | exact ⟨h2.r, h2.block, h2.blockAddr, by show t'.writes ++ _ = t.writes ++ _; rw [h2.writes], h2.own⟩

theorem emitStep_rz (hZ : ∀ s n, Z n → Z (s ++ "." ++ n)) (env : Env) (n : Node) (hn : FreeN Z n) {st st' : EmitState} (h : RS Z st st') :
    RES Z (emitStep env n st) (emitStep env n st') := by
  rw [emitStep_eq, emitStep_eq]
  have he := emitNode_rz hZ env n hn h.r
  revert he
  cases emitNode env n st.r with
  | error e =>
    cases emitNode env n st'.r with
    | error e' => intro he; exact he
    | ok y => intro he; obtain ⟨y1, y2⟩ := y; exact he.elim
  | ok x =>
    obtain ⟨r1, bs⟩ := x
    cases emitNode env n st'.r with
    | error e' => intro he; exact he.elim
    | ok y =>
      obtain ⟨r1', bs'⟩ := y
      intro he
      obtain ⟨h1, hb⟩ := he
      subst hb
      simp only []
      have hs := stepF_rs h h1 bs
      revert hs
      cases stepF st r1 bs with
      | error e =>
        cases stepF st' r1' bs with
        | error e' => intro hs; exact hs
        | ok y => intro hs; exact hs.elim
      | ok s1 =>
        cases stepF st' r1' bs with
        | error e' => intro hs; exact hs.elim
        | ok s1' => intro hs; exact postF_rs n hs

theorem emitLoop_rz (hZ : ∀ s n, Z n → Z (s ++ "." ++ n)) (env : Env) : ∀ (ns : List Node), (∀ n ∈ ns, FreeN Z n) → ∀ (st st' : EmitState), RS Z st st' →
    RES Z (emitLoop env ns st) (emitLoop env ns st') := by
  intro ns
  induction ns with
  | nil => intro _ st st' h; exact h
  | cons n ns ih =>
    intro hf st st' h
    unfold emitLoop
    have hs := emitStep_rz hZ env n (hf n List.mem_cons_self) h
    revert hs
    cases emitStep env n st with
    | error e =>
      cases emitStep env n st' with
      | error e' => intro hs; exact hs
      | ok y => intro hs; exact hs.elim
    | ok s1 =>
      cases emitStep env n st' with
      | error e' => intro hs; exact hs.elim
      | ok s1' => intro hs; exact ih (fun m hm => hf m (List.mem_cons_of_mem _ hm)) s1 s1' hs

/-- emitting the definition of `z` changes nothing the writer sees -/
theorem emitStep_sym (env : Env) (z : String) (v : Int) {st st' : EmitState} (h : RS Z st st') :
    RES Z (.ok st) (emitStep env (Node.symbolConst z v) st') := by
  rw [emitStep_eq]
  show RES Z (.ok st) (match stepF st' st'.r [] with | .error e => .error e | .ok st1 => postF (Node.symbolConst z v) st1)
  exact ⟨h.r, h.block, h.blockAddr, h.writes, h.own⟩

theorem emitLoop_insert (hZ : ∀ s n, Z n → Z (s ++ "." ++ n)) (env : Env) (z : String) (v : Int) (b : List Node) : ∀ (a : List Node), (∀ n ∈ a ++ b, FreeN Z n) →
    ∀ (st st' : EmitState), RS Z st st' →
    RES Z (emitLoop env (a ++ b) st) (emitLoop env (a ++ Node.symbolConst z v :: b) st') := by
  intro a
  induction a with
  | nil =>
    intro hf st st' h
    simp only [List.nil_append]
    conv => rhs; unfold emitLoop
    have hs := emitStep_sym env z v h
    revert hs
    cases emitStep env (Node.symbolConst z v) st' with
    | error e' => intro hs; exact hs.elim
    | ok s1' => intro hs; exact emitLoop_rz hZ env b hf st s1' hs
  | cons n ns ih =>
    intro hf st st' h
    simp only [List.cons_append]
    unfold emitLoop
    have hs := emitStep_rz hZ env n (hf n List.mem_cons_self) h
    revert hs
    cases emitStep env n st with
    | error e =>
      cases emitStep env n st' with
      | error e' => intro hs; exact hs
      | ok y => intro hs; exact hs.elim
    | ok s1 =>
      cases emitStep env n st' with
      | error e' => intro hs; exact hs.elim
      | ok s1' => intro hs; exact ih (fun m hm => hf m (List.mem_cons_of_mem _ hm)) s1 s1' hs

/-- what reaches the writer: the `write_block` calls of `Program.emit` after `resolve_labels`, or the exception -/
def output (env : Env) (nodes : List Node) (r : Resolver) : Except Err (List (Int × List Nat)) :=
  match resolveLabels env nodes r with
  | .error e => .error e
  | .ok r1 =>
    match emitAll env nodes r1 with
    | .error e => .error e
    | .ok st => .ok st.writes

/-- **one more definition of a name nothing mentions, anywhere in the node list, leaves the output unchanged** -/
theorem output_insert (hZ : ∀ s n, Z n → Z (s ++ "." ++ n)) (env : Env) (z : String) (hz : Z z) (v : Int) (a b : List Node)
    (hf : ∀ n ∈ a ++ b, FreeN Z n) (r : Resolver) (hk : ∀ i, NodupKeys (r.scopes.getD i default).symbols) :
    output env (a ++ Node.symbolConst z v :: b) r = output env (a ++ b) r := by
  unfold output
  have hr := resolveLabels_insert hZ env z hz v a b hf r r (RZ.refl r hk)
  revert hr
  cases resolveLabels env (a ++ b) r with
  | error e =>
    cases resolveLabels env (a ++ Node.symbolConst z v :: b) r with
    | error e' => intro hr; have : e = e' := hr; rw [this]
    | ok y => intro hr; exact hr.elim
  | ok r1 =>
    cases resolveLabels env (a ++ Node.symbolConst z v :: b) r with
    | error e' => intro hr; exact hr.elim
    | ok r1' =>
      intro hr
      have h1 : RZ Z r1 r1' := hr
      simp only []
      unfold emitAll
      have hs : RS Z ⟨r1, [], r1.pc, [], [], []⟩ ⟨r1', [], r1'.pc, [], [], []⟩ := ⟨h1, rfl, h1.pc, rfl, rfl⟩
      have hl := emitLoop_insert hZ env z v b a hf _ _ hs
      revert hl
      cases emitLoop env (a ++ b) ⟨r1, [], r1.pc, [], [], []⟩ with
      | error e =>
        cases emitLoop env (a ++ Node.symbolConst z v :: b) ⟨r1', [], r1'.pc, [], [], []⟩ with
        | error e' => intro hl; have : e = e' := hl; rw [this]
        | ok y => intro hl; exact hl.elim
      | ok s =>
        cases emitLoop env (a ++ Node.symbolConst z v :: b) ⟨r1', [], r1'.pc, [], [], []⟩ with
        | error e' => intro hl; exact hl.elim
        | ok s' =>
          intro hl
          have h2 : RS Z s s' := hl
          simp only []
          rw [h2.block, h2.blockAddr]
          split
          · show Except.ok s'.writes = Except.ok s.writes
            rw [h2.writes]
          · show Except.ok (s'.writes ++ _) = Except.ok (s.writes ++ _)
            rw [h2.writes]

/-! ## one more *label* of a name nothing mentions -/

theorem RZ.addLabel_z {r r' : Resolver} (h : RZ Z r r') (z : String) (hz : Z z) (v : Int) : RZ Z r (r'.addLabel z v) := by
  obtain ⟨sc, rfl⟩ := h.eq
  refine ⟨⟨sc.modify r.current _, rfl⟩, by simp [Resolver.addLabel, Resolver.modifyCur]; exact h.size, ?_⟩
  intro i
  show SameZ Z (r.scopes.getD i default) ((sc.modify r.current _).getD i default)
  rw [getD_modify']
  have hi := h.sc i
  split
  · exact ⟨hi.kind, hi.parent, hi.code, hi.table,
      fun m hm => by rw [hi.syms m hm]; exact (alookup_ainsert_ne' z m v _ (fun e => hm (e ▸ hz))).symm,
      fun m hm => by rw [hi.labs m hm]; exact (alookup_ainsert_ne' z m v _ (fun e => hm (e ▸ hz))).symm,
      hi.nda, nodup_ainsert _ _ _ hi.ndb⟩
  · exact hi

theorem passLoop_insert_label (hZ : ∀ s n, Z n → Z (s ++ "." ++ n)) (env : Env) (skip : Node → Bool) (z : String) (hz : Z z)
    (b : List Node) : ∀ (a : List Node), (∀ n ∈ a ++ b, FreeN Z n) → ∀ (r r' : Resolver) (pc pc' : Address), pc' = pc →
    RZ Z r r' → RP Z (passLoop env skip (a ++ b) r pc) (passLoop env skip (a ++ Node.label z :: b) r' pc') := by
  intro a
  induction a with
  | nil =>
    intro hf r r' pc pc' hpc h
    subst hpc
    simp only [List.nil_append]
    conv => rhs; unfold passLoop
    by_cases hs : skip (Node.label z) = true
    · rw [if_pos hs]; exact passLoop_rz hZ env skip b hf r r' pc' h
    · rw [if_neg hs]
      show RP Z _ (passLoop env skip b (r'.addLabel z pc'.logical) pc')
      exact passLoop_rz hZ env skip b hf r _ pc' (h.addLabel_z z hz _)
  | cons n ns ih =>
    intro hf r r' pc pc' hpc h
    subst hpc
    simp only [List.cons_append]
    unfold passLoop
    by_cases hs : skip n = true
    · rw [if_pos hs, if_pos hs]; exact ih (fun m hm => hf m (List.mem_cons_of_mem _ hm)) r r' pc' pc' rfl h
    · rw [if_neg hs, if_neg hs]
      have := pcAfter_rz hZ env n (hf n List.mem_cons_self) h pc'
      revert this
      cases pcAfter env n r pc' with
      | error e =>
        cases pcAfter env n r' pc' with
        | error e' => intro this; exact this
        | ok x => intro this; obtain ⟨x1, x2⟩ := x; exact this.elim
      | ok x =>
        obtain ⟨r1, pc1⟩ := x
        cases pcAfter env n r' pc' with
        | error e' => intro this; exact this.elim
        | ok y =>
          obtain ⟨r1', pc1'⟩ := y
          intro this
          obtain ⟨h1, h2⟩ := this
          subst h2
          exact ih (fun m hm => hf m (List.mem_cons_of_mem _ hm)) r1 r1' pc1 pc1 rfl h1

theorem resolveLabels_insert_label (hZ : ∀ s n, Z n → Z (s ++ "." ++ n)) (env : Env) (z : String) (hz : Z z)
    (a b : List Node) (hf : ∀ n ∈ a ++ b, FreeN Z n) (r r' : Resolver) (h : RZ Z r r') :
    RR Z (resolveLabels env (a ++ b) r) (resolveLabels env (a ++ Node.label z :: b) r') := by
  rw [resolveLabels_eq, resolveLabels_eq]
  apply RP.bindRR (passLoop_insert_label hZ env Node.isSymbol z hz b a hf _ _ _ _ h.lastUsed0.reloc h.lastUsed0)
  intro a1 b1 pc1 h1
  have hr := h1.reset
  apply RP.bindRR (passLoop_insert_label hZ env Node.isLabelOrBinary z hz b a hf _ _ _ _ hr.reloc hr)
  intro a2 b2 pc2 h2
  exact h2.reset

/-- emitting the extra label: its emission-time check fails, or nothing the writer sees changes -/
theorem emitStep_label (env : Env) (z : String) {st st' : EmitState} (h : RS Z st st') :
    RES Z (.ok st) (emitStep env (Node.label z) st') ∨ ∃ e, emitStep env (Node.label z) st' = .error e := by
  rw [emitStep_eq]
  simp only [emitNode]
  cases checkLabel st'.r z st'.r.reloc with
  | error e => exact Or.inr ⟨e, rfl⟩
  | ok u =>
    left
    show RES Z (.ok st) (match stepF st' st'.r [] with | .error e => .error e | .ok st1 => postF (Node.label z) st1)
    exact ⟨h.r, h.block, h.blockAddr, h.writes, h.own⟩

theorem emitLoop_insert_label (hZ : ∀ s n, Z n → Z (s ++ "." ++ n)) (env : Env) (z : String) (b : List Node) :
    ∀ (a : List Node), (∀ n ∈ a ++ b, FreeN Z n) → ∀ (st st' : EmitState), RS Z st st' →
    RES Z (emitLoop env (a ++ b) st) (emitLoop env (a ++ Node.label z :: b) st') ∨
      ∃ e, emitLoop env (a ++ Node.label z :: b) st' = .error e := by
  intro a
  induction a with
  | nil =>
    intro hf st st' h
    simp only [List.nil_append]
    conv => rhs; unfold emitLoop
    conv => lhs; rhs; unfold emitLoop
    rcases emitStep_label env z h with hs | ⟨e, he⟩
    · revert hs
      cases emitStep env (Node.label z) st' with
      | error e' => intro hs; exact hs.elim
      | ok s1' => intro hs; exact Or.inl (emitLoop_rz hZ env b hf st s1' hs)
    · rw [he]; exact Or.inr ⟨e, rfl⟩
  | cons n ns ih =>
    intro hf st st' h
    simp only [List.cons_append]
    unfold emitLoop
    have hs := emitStep_rz hZ env n (hf n List.mem_cons_self) h
    revert hs
    cases emitStep env n st with
    | error e =>
      cases emitStep env n st' with
      | error e' => intro hs; exact Or.inl hs
      | ok y => intro hs; exact hs.elim
    | ok s1 =>
      cases emitStep env n st' with
      | error e' => intro hs; exact hs.elim
      | ok s1' => intro hs; exact ih (fun m hm => hf m (List.mem_cons_of_mem _ hm)) s1 s1' hs

/-- **one more label of a name nothing mentions either leaves the output unchanged or makes the assembly fail** (the label's
    own emission-time check — "label moved / hidden" — is the only thing that can fail because of it) -/
theorem output_insert_label (hZ : ∀ s n, Z n → Z (s ++ "." ++ n)) (env : Env) (z : String) (hz : Z z) (a b : List Node)
    (hf : ∀ n ∈ a ++ b, FreeN Z n) (r : Resolver) (hk : ∀ i, NodupKeys (r.scopes.getD i default).symbols) :
    output env (a ++ Node.label z :: b) r = output env (a ++ b) r ∨ ∃ e, output env (a ++ Node.label z :: b) r = .error e := by
  unfold output
  have hr := resolveLabels_insert_label hZ env z hz a b hf r r (RZ.refl r hk)
  revert hr
  cases resolveLabels env (a ++ b) r with
  | error e =>
    cases resolveLabels env (a ++ Node.label z :: b) r with
    | error e' => intro hr; exact Or.inr ⟨e', rfl⟩
    | ok y => intro hr; exact hr.elim
  | ok r1 =>
    cases resolveLabels env (a ++ Node.label z :: b) r with
    | error e' => intro hr; exact hr.elim
    | ok r1' =>
      intro hr
      have h1 : RZ Z r1 r1' := hr
      simp only []
      unfold emitAll
      have hs : RS Z ⟨r1, [], r1.pc, [], [], []⟩ ⟨r1', [], r1'.pc, [], [], []⟩ := ⟨h1, rfl, h1.pc, rfl, rfl⟩
      rcases emitLoop_insert_label hZ env z b a hf _ _ hs with hl | ⟨e, he⟩
      · revert hl
        cases emitLoop env (a ++ b) ⟨r1, [], r1.pc, [], [], []⟩ with
        | error e =>
          cases emitLoop env (a ++ Node.label z :: b) ⟨r1', [], r1'.pc, [], [], []⟩ with
          | error e' => intro hl; exact Or.inr ⟨e', rfl⟩
          | ok y => intro hl; exact hl.elim
        | ok s =>
          cases emitLoop env (a ++ Node.label z :: b) ⟨r1', [], r1'.pc, [], [], []⟩ with
          | error e' => intro hl; exact hl.elim
          | ok s' =>
            intro hl
            have h2 : RS Z s s' := hl
            left
            simp only []
            rw [h2.block, h2.blockAddr]
            split
            · show Except.ok s'.writes = Except.ok s.writes
              rw [h2.writes]
            · show Except.ok (s'.writes ++ _) = Except.ok (s.writes ++ _)
              rw [h2.writes]
      · rw [he]; exact Or.inr ⟨e, rfl⟩

end A816.Unrel
