import A816.Proofs.Unrelated
/-!
# An unrelated definition does not change the output (helper lemmas for C08)

`RZ z r r'`: the resolvers differ only in what their scopes hold for the name `z` (entries of `symbols` / `labels`); no
scope is a named scope (named scopes export their symbols under qualified names when they are left — not covered here).
Every pass step and every emission step of a node that does not mention `z` takes `RZ`-related resolvers to the same
outcome: the same error, or the same address / bytes and `RZ`-related resolvers.
-/
namespace A816.Unrel
open A816 Resolver

/-- scope records that differ only in the entries for `z` of `symbols` and `labels` -/
structure SameZ (z : String) (a b : ScopeRec) : Prop where
  kind : a.kind = b.kind
  parent : a.parent = b.parent
  code : a.codeSymbols = b.codeSymbols
  table : a.table = b.table
  syms : ∀ n, n ≠ z → alookup n a.symbols = alookup n b.symbols
  labs : ∀ n, n ≠ z → alookup n a.labels = alookup n b.labels
  plainKind : ∀ name, a.kind ≠ .named name

theorem SameZ.sameBut {z : String} {a b : ScopeRec} (h : SameZ z a b) : SameBut z a b := ⟨h.parent, h.code, h.syms⟩

/-- resolvers that differ only in what their scopes hold for `z` -/
structure RZ (z : String) (r r' : Resolver) : Prop where
  eq : ∃ sc, r' = { r with scopes := sc }
  size : r'.scopes.size = r.scopes.size
  sc : ∀ i, SameZ z (r.scopes.getD i default) (r'.scopes.getD i default)

variable {z : String}

theorem RZ.current {r r' : Resolver} (h : RZ z r r') : r'.current = r.current := by
  obtain ⟨sc, rfl⟩ := h.eq; rfl
theorem RZ.lastUsed {r r' : Resolver} (h : RZ z r r') : r'.lastUsed = r.lastUsed := by
  obtain ⟨sc, rfl⟩ := h.eq; rfl
theorem RZ.pc {r r' : Resolver} (h : RZ z r r') : r'.pc = r.pc := by
  obtain ⟨sc, rfl⟩ := h.eq; rfl
theorem RZ.reloc {r r' : Resolver} (h : RZ z r r') : r'.reloc = r.reloc := by
  obtain ⟨sc, rfl⟩ := h.eq; rfl
theorem RZ.getBus {r r' : Resolver} (h : RZ z r r') : r'.getBus = r.getBus := by
  obtain ⟨sc, rfl⟩ := h.eq; rfl

theorem RZ.cur {r r' : Resolver} (h : RZ z r r') : SameZ z r.cur r'.cur := by
  unfold Resolver.cur Resolver.scopeAt
  rw [h.current]; exact h.sc _

theorem RZ.valueFor {r r' : Resolver} (h : RZ z r r') (n : String) (hn : n ≠ z) : r'.valueFor n = r.valueFor n := by
  unfold Resolver.valueFor
  rw [h.size, h.current]
  exact (valueForAux_sameBut z n hn _ _ (fun i => (h.sc i).sameBut) _ _).symm

theorem RZ.look {r r' : Resolver} (h : RZ z r r') (n : String) (hn : n ≠ z) : r'.look n = r.look n := by
  unfold Resolver.look; rw [h.valueFor n hn]

/-- moving to another current scope keeps the relation -/
theorem RZ.withCurrent {r r' : Resolver} (h : RZ z r r') (c : Nat) :
    RZ z { r with current := c } { r' with current := c } := by
  obtain ⟨sc, rfl⟩ := h.eq
  exact ⟨⟨sc, rfl⟩, h.size, h.sc⟩

/-- `z` does not occur as an identifier of the expression -/
def FreeE (z : String) (e : PExpr) : Prop := ENode.term .identifier z ∉ e.nodes

theorem RZ.evalP {r r' : Resolver} (h : RZ z r r') (env : Env) (e : PExpr) (hz : FreeE z e) :
    evalP env r' e = evalP env r e := by
  unfold A816.evalP
  apply evalTokens_congr
  intro n hn
  exact h.look n (fun hx => hz (by rw [← hx]; exact hn))

theorem RZ.getValue {r r' : Resolver} (h : RZ z r r') (env : Env) (e : PExpr) (info : Tok) (hz : FreeE z e) :
    getValue env r' e info = getValue env r e info := by
  unfold A816.getValue; rw [h.evalP env e hz]

theorem alookup_ainsert_self {β} (k : String) (v : β) (l : List (String × β)) : alookup k (ainsert k v l) = some v := by
  induction l with
  | nil => simp [ainsert, alookup]
  | cons a rest ih =>
    obtain ⟨ka, va⟩ := a
    simp only [ainsert]
    by_cases hka : (ka == k) = true
    · rw [if_pos hka]; simp [alookup, hka]
    · rw [if_neg hka]; simp only [alookup, hka]; exact ih

theorem alookup_ainsert_congr {β} (k : String) (v : β) (l l' : List (String × β)) (n : String)
    (h : alookup n l = alookup n l') : alookup n (ainsert k v l) = alookup n (ainsert k v l') := by
  by_cases hnk : n = k
  · subst hnk; rw [alookup_ainsert_self, alookup_ainsert_self]
  · rw [alookup_ainsert_ne' k n v l hnk, alookup_ainsert_ne' k n v l' hnk, h]

theorem getD_modify' (a : Array ScopeRec) (p k : Nat) (f : ScopeRec → ScopeRec) :
    (a.modify p f).getD k default = (if p = k ∧ k < a.size then f (a.getD k default) else a.getD k default) := by
  simp only [Array.getD_eq_getD_getElem?, Array.getElem?_modify]
  by_cases hpk : p = k
  · subst hpk
    simp only [↓reduceIte, true_and]
    by_cases hlt : p < a.size
    · simp [hlt]
    · simp [hlt]
  · simp [hpk]

/-- modifying the current scope by functions that respect `SameZ` -/
theorem RZ.modifyCur {r r' : Resolver} (h : RZ z r r') (f : ScopeRec → ScopeRec)
    (hf : ∀ a b, SameZ z a b → SameZ z (f a) (f b)) : RZ z (r.modifyCur f) (r'.modifyCur f) := by
  obtain ⟨sc, rfl⟩ := h.eq
  refine ⟨⟨sc.modify r.current f, rfl⟩, by simp [Resolver.modifyCur]; exact h.size, ?_⟩
  intro i
  show SameZ z ((r.scopes.modify r.current f).getD i default) ((sc.modify r.current f).getD i default)
  rw [getD_modify', getD_modify']
  have hs : sc.size = r.scopes.size := h.size
  by_cases hc : r.current = i ∧ i < r.scopes.size
  · rw [if_pos hc, if_pos ⟨hc.1, by rw [hs]; exact hc.2⟩]
    exact hf _ _ (h.sc i)
  · rw [if_neg hc, if_neg (fun x => hc ⟨x.1, by rw [← hs]; exact x.2⟩)]
    exact h.sc i

theorem RZ.addSymbol {r r' : Resolver} (h : RZ z r r') (n : String) (v : Int) : RZ z (r.addSymbol n v) (r'.addSymbol n v) := by
  unfold Resolver.addSymbol
  apply h.modifyCur
  intro a b hab
  exact ⟨hab.kind, hab.parent, hab.code, hab.table, fun m hm => alookup_ainsert_congr n v _ _ m (hab.syms m hm), hab.labs,
    hab.plainKind⟩

theorem RZ.addLabel {r r' : Resolver} (h : RZ z r r') (n : String) (v : Int) : RZ z (r.addLabel n v) (r'.addLabel n v) := by
  unfold Resolver.addLabel
  apply h.modifyCur
  intro a b hab
  exact ⟨hab.kind, hab.parent, hab.code, hab.table, fun m hm => alookup_ainsert_congr n v _ _ m (hab.syms m hm),
    fun m hm => alookup_ainsert_congr n v _ _ m (hab.labs m hm), hab.plainKind⟩

/-- the definition of `z` itself, on one side only -/
theorem RZ.addSymbol_z {r r' : Resolver} (h : RZ z r r') (v : Int) : RZ z r (r'.addSymbol z v) := by
  obtain ⟨sc, rfl⟩ := h.eq
  refine ⟨⟨sc.modify r.current _, rfl⟩, by simp [Resolver.addSymbol, Resolver.modifyCur]; exact h.size, ?_⟩
  intro i
  show SameZ z (r.scopes.getD i default) ((sc.modify r.current _).getD i default)
  rw [getD_modify']
  have hi := h.sc i
  split
  · exact ⟨hi.kind, hi.parent, hi.code, hi.table,
      fun m hm => by rw [hi.syms m hm]; exact (alookup_ainsert_ne' z m v _ hm).symm, hi.labs, hi.plainKind⟩
  · exact hi

theorem RZ.refl (r : Resolver) (hk : ∀ i name, (r.scopes.getD i default).kind ≠ .named name) : RZ z r r :=
  ⟨⟨r.scopes, rfl⟩, rfl, fun i => ⟨rfl, rfl, rfl, rfl, fun _ _ => rfl, fun _ _ => rfl, hk i⟩⟩

/-- related optional resolvers -/
def ROpt (z : String) : Option Resolver → Option Resolver → Prop
  | some a, some b => RZ z a b
  | none, none => True
  | _, _ => False

theorem RZ.useNextScope {r r' : Resolver} (h : RZ z r r') : ROpt z r.useNextScope r'.useNextScope := by
  unfold Resolver.useNextScope
  rw [h.lastUsed, h.size]
  by_cases hc : r.lastUsed + 1 < r.scopes.size
  · rw [if_pos hc, if_pos hc]
    obtain ⟨sc, rfl⟩ := h.eq
    exact ⟨⟨sc, rfl⟩, h.size, h.sc⟩
  · rw [if_neg hc, if_neg hc]; trivial

theorem restoreScope_plain (r : Resolver) (ex : Bool) (hk : ∀ name, r.cur.kind ≠ .named name) :
    r.restoreScope ex = (match r.cur.parent with | none => none | some p => some { r with current := p }) := by
  unfold Resolver.restoreScope
  simp only []
  cases hp : r.cur.parent with
  | none => rfl
  | some p =>
    simp only []
    cases ex with
    | false => rfl
    | true =>
      cases hkind : r.cur.kind with
      | plain => rfl
      | internal => rfl
      | named name => exact absurd hkind (hk name)

theorem RZ.restoreScope {r r' : Resolver} (h : RZ z r r') (ex : Bool) : ROpt z (r.restoreScope ex) (r'.restoreScope ex) := by
  have hc := h.cur
  rw [restoreScope_plain r ex hc.plainKind,
      restoreScope_plain r' ex (fun name hk => hc.plainKind name (hc.kind.trans hk)), ← hc.parent]
  cases r.cur.parent with
  | none => trivial
  | some p => exact h.withCurrent p

theorem RZ.setPosition {r r' : Resolver} (h : RZ z r r') (v : Int) : ROpt z (r.setPosition v) (r'.setPosition v) := by
  unfold Resolver.setPosition
  rw [h.getBus]
  cases r.getBus with
  | none => trivial
  | some bus =>
    simp only []
    cases Address.mk? bus v with
    | none => trivial
    | some a =>
      simp only []
      rw [h.pc]
      obtain ⟨sc, rfl⟩ := h.eq
      exact ⟨⟨sc, rfl⟩, h.size, h.sc⟩

theorem RZ.checkLabel {r r' : Resolver} (h : RZ z r r') (name : String) (hn : name ≠ z) (a : Address) :
    checkLabel r' name a = checkLabel r name a := by
  unfold A816.checkLabel
  rw [← h.cur.labs name hn, h.valueFor name hn]

theorem RZ.emitRelative {r r' : Resolver} (h : RZ z r r') (e : OpEntry) (v : Int) :
    emitRelative r' e v = emitRelative r e v := by
  unfold A816.emitRelative
  rw [h.reloc, h.getBus, h.pc]

/-! ## nodes -/

/-- a node that does not mention `z`: no expression of it names `z`, and it is not the label / included binary `z` -/
def FreeN (z : String) : Node → Prop
  | .label name => name ≠ z
  | .symbol _ e => FreeE z e
  | .argSymbol _ e => FreeE z e
  | .binary _ base => base ≠ z
  | .data _ e _ => FreeE z e
  | .opcode _ _ _ _ value _ => ∀ e, value = some e → FreeE z e
  | .codePos e _ => FreeE z e
  | .reloc e _ => FreeE z e
  | _ => True

/-- the same outcome of a pass step: the same error, or the same address and related resolvers -/
def RP (z : String) : Except Err (Resolver × Address) → Except Err (Resolver × Address) → Prop
  | .ok (a, p), .ok (b, q) => RZ z a b ∧ p = q
  | .error e, .error e' => e = e'
  | _, _ => False

/-- the same outcome of an emission step: the same error, or the same bytes and related resolvers -/
def RE (z : String) : Except Err (Resolver × List Nat) → Except Err (Resolver × List Nat) → Prop
  | .ok (a, p), .ok (b, q) => RZ z a b ∧ p = q
  | .error e, .error e' => e = e'
  | _, _ => False

theorem rp_map {r r' : Resolver} (h : RZ z r r') (x : Except Err Address) :
    RP z (x.map fun a => (r, a)) (x.map fun a => (r', a)) := by
  cases x with
  | error e => exact rfl
  | ok a => exact ⟨h, rfl⟩

theorem re_map {r r' : Resolver} (h : RZ z r r') (x : Except Err (List Nat)) :
    RE z (x.map fun a => (r, a)) (x.map fun a => (r', a)) := by
  cases x with
  | error e => exact rfl
  | ok a => exact ⟨h, rfl⟩

theorem pcAfter_rz (env : Env) (n : Node) (hn : FreeN z n) {r r' : Resolver} (h : RZ z r r') (pc : Address) :
    RP z (pcAfter env n r pc) (pcAfter env n r' pc) := by
  cases n with
  | label name => exact ⟨h.addLabel name _, rfl⟩
  | symbol name e =>
    simp only [pcAfter]
    rw [h.evalP env e hn]
    cases evalP env r e with
    | error er => exact rfl
    | ok v => exact ⟨h.addSymbol name v, rfl⟩
  | argSymbol name e =>
    simp only [pcAfter]
    rw [← h.cur.parent]
    cases r.cur.parent with
    | none => exact rfl
    | some par =>
      simp only []
      rw [(h.withCurrent par).evalP env e hn]
      cases evalP env { r with current := par } e with
      | error er => exact rfl
      | ok v => exact ⟨h.addSymbol name v, rfl⟩
  | symbolConst name v => exact ⟨h.addSymbol name v, rfl⟩
  | binary content base =>
    simp only [pcAfter]
    cases addrAdd pc content.length with
    | error er => exact rfl
    | ok a => exact ⟨(h.addLabel base _).addSymbol _ _, rfl⟩
  | data w e info => exact rp_map h _
  | opcode mn size mode index value info =>
    have hg : ∀ ve, value = some ve → getValue env r' ve info = getValue env r ve info :=
      fun ve hve => h.getValue env ve info (hn ve hve)
    clear hn
    simp only [pcAfter]
    cases opcodeEmitter env mn mode index info with
    | error er => exact rfl
    | ok e =>
      simp only []
      cases e.kind with
      | implied => exact rp_map h _
      | relative => exact rp_map h _
      | sized =>
        simp only []
        cases value with
        | none => exact rfl
        | some ve =>
          simp only []
          cases size with
          | some w => exact rp_map h _
          | none =>
            simp only []
            rw [hg ve rfl]
            cases getValue env r ve info with
            | error er => exact rfl
            | ok v => exact rp_map h _
  | codePos e info =>
    simp only [pcAfter]
    rw [h.getValue env e info hn, h.getBus]
    cases getValue env r e info with
    | error er => exact rfl
    | ok v =>
      simp only []
      cases r.getBus with
      | none => exact rfl
      | some bus =>
        simp only []
        cases Address.mk? bus v with
        | none => exact rfl
        | some a => exact ⟨h, rfl⟩
  | reloc e info =>
    simp only [pcAfter]
    rw [h.getValue env e info hn, h.getBus]
    cases getValue env r e info with
    | error er => exact rfl
    | ok v =>
      simp only []
      cases r.getBus with
      | none => exact rfl
      | some bus =>
        simp only []
        cases Address.mk? bus v with
        | none => exact rfl
        | some a => exact ⟨h, rfl⟩
  | includeIps b => exact ⟨h, rfl⟩
  | scopeEnter =>
    simp only [pcAfter]
    have := h.useNextScope
    revert this
    cases r.useNextScope <;> cases r'.useNextScope <;> intro this
    · exact rfl
    · exact this.elim
    · exact this.elim
    · exact ⟨this, rfl⟩
  | scopePop =>
    simp only [pcAfter]
    have := h.restoreScope true
    revert this
    cases r.restoreScope true <;> cases r'.restoreScope true <;> intro this
    · exact rfl
    · exact this.elim
    · exact this.elim
    · exact ⟨this, rfl⟩
  | table => exact ⟨h, rfl⟩
  | text s tbl info =>
    simp only [pcAfter]
    cases textBytes s tbl info with
    | error er => exact rfl
    | ok bs => exact rp_map h _
  | ascii s => exact rp_map h _

theorem emitNode_rz (env : Env) (n : Node) (hn : FreeN z n) {r r' : Resolver} (h : RZ z r r') :
    RE z (emitNode env n r) (emitNode env n r') := by
  cases n with
  | label name =>
    simp only [emitNode]
    rw [h.checkLabel name hn, h.reloc]
    cases checkLabel r name r.reloc with
    | error er => exact rfl
    | ok u => exact ⟨h, rfl⟩
  | symbol name e => exact ⟨h, rfl⟩
  | argSymbol name e => exact ⟨h, rfl⟩
  | symbolConst name v => exact ⟨h, rfl⟩
  | binary content base =>
    simp only [emitNode]
    rw [h.checkLabel base hn, h.reloc]
    cases checkLabel r base r.reloc with
    | error er => exact rfl
    | ok u => exact ⟨h, rfl⟩
  | data w e info =>
    simp only [emitNode]
    rw [h.getValue env e info hn]
    cases getValue env r e info with
    | error er => exact rfl
    | ok v => exact ⟨h, rfl⟩
  | opcode mn size mode index value info =>
    have hg : ∀ ve, value = some ve → getValue env r' ve info = getValue env r ve info :=
      fun ve hve => h.getValue env ve info (hn ve hve)
    clear hn
    simp only [emitNode]
    cases opcodeEmitter env mn mode index info with
    | error er => exact rfl
    | ok e =>
      simp only []
      cases e.kind with
      | implied => exact re_map h _
      | relative =>
        simp only []
        cases value with
        | none => exact rfl
        | some ve =>
          simp only []
          rw [hg ve rfl]
          cases getValue env r ve info with
          | error er => exact rfl
          | ok v =>
            simp only []
            rw [h.emitRelative e v]
            exact re_map h _
      | sized =>
        simp only []
        cases value with
        | none => exact rfl
        | some ve =>
          simp only []
          have tail : ∀ (sz : Option Nat), RE z
              (match getValue env r ve info with
                | .error er => .error er
                | .ok v =>
                  match emitEntry e sz (some v) with
                  | .error (.node msg _) => .error (nodeErr msg info)
                  | .error er => .error er
                  | .ok bs => .ok (r, bs))
              (match getValue env r' ve info with
                | .error er => .error er
                | .ok v =>
                  match emitEntry e sz (some v) with
                  | .error (.node msg _) => .error (nodeErr msg info)
                  | .error er => .error er
                  | .ok bs => .ok (r', bs)) := by
            intro sz
            rw [hg ve rfl]
            cases getValue env r ve info with
            | error er => exact rfl
            | ok v =>
              simp only []
              cases emitEntry e sz (some v) with
              | error er => cases er <;> exact rfl
              | ok bs => exact ⟨h, rfl⟩
          cases size with
          | none =>
            simp only [Bool.false_eq_true, ↓reduceIte]
            exact tail none
          | some w =>
            simp only []
            by_cases hc : (opcodeByte e w).isNone = true
            · rw [if_pos hc, if_pos hc]; exact rfl
            · rw [if_neg hc, if_neg hc]; exact tail (some w)
  | codePos e info =>
    simp only [emitNode]
    rw [h.getValue env e info hn]
    cases getValue env r e info with
    | error er => exact rfl
    | ok v =>
      simp only []
      have := h.setPosition v
      revert this
      cases r.setPosition v <;> cases r'.setPosition v <;> intro this
      · exact rfl
      · exact this.elim
      · exact this.elim
      · exact ⟨this, rfl⟩
  | reloc e info =>
    simp only [emitNode]
    rw [h.getValue env e info hn]
    cases getValue env r e info with
    | error er => exact rfl
    | ok v =>
      simp only []
      have := h.setPosition v
      revert this
      cases r.setPosition v <;> cases r'.setPosition v <;> intro this
      · exact rfl
      · exact this.elim
      · exact this.elim
      · exact ⟨this, rfl⟩
  | includeIps b => exact ⟨h, rfl⟩
  | scopeEnter =>
    simp only [emitNode]
    have := h.useNextScope
    revert this
    cases r.useNextScope <;> cases r'.useNextScope <;> intro this
    · exact rfl
    · exact this.elim
    · exact this.elim
    · exact ⟨this, rfl⟩
  | scopePop =>
    simp only [emitNode]
    have := h.restoreScope false
    revert this
    cases r.restoreScope false <;> cases r'.restoreScope false <;> intro this
    · exact rfl
    · exact this.elim
    · exact this.elim
    · exact ⟨this, rfl⟩
  | table => exact ⟨h, rfl⟩
  | text s tbl info => exact re_map h _
  | ascii s => exact ⟨h, rfl⟩

/-! ## the passes -/

theorem passLoop_rz (env : Env) (skip : Node → Bool) : ∀ (ns : List Node), (∀ n ∈ ns, FreeN z n) →
    ∀ (r r' : Resolver) (pc : Address), RZ z r r' → RP z (passLoop env skip ns r pc) (passLoop env skip ns r' pc) := by
  intro ns
  induction ns with
  | nil => intro _ r r' pc h; exact ⟨h, rfl⟩
  | cons n ns ih =>
    intro hf r r' pc h
    unfold passLoop
    by_cases hs : skip n = true
    · rw [if_pos hs, if_pos hs]; exact ih (fun m hm => hf m (List.mem_cons_of_mem _ hm)) r r' pc h
    · rw [if_neg hs, if_neg hs]
      have := pcAfter_rz env n (hf n List.mem_cons_self) h pc
      revert this
      cases pcAfter env n r pc with
      | error e =>
        cases pcAfter env n r' pc with
        | error e' => intro this; exact this
        | ok x => intro this; obtain ⟨x1, x2⟩ := x; exact this.elim
      | ok x =>
        obtain ⟨r1, pc1⟩ := x
        cases pcAfter env n r' pc with
        | error e' => intro this; exact this.elim
        | ok y =>
          obtain ⟨r1', pc1'⟩ := y
          intro this
          obtain ⟨h1, h2⟩ := this
          subst h2
          exact ih (fun m hm => hf m (List.mem_cons_of_mem _ hm)) r1 r1' pc1 h1

/-- the pass over a node list with one more definition of `z` somewhere in it -/
theorem passLoop_insert (env : Env) (skip : Node → Bool) (v : Int) (b : List Node) : ∀ (a : List Node),
    (∀ n ∈ a ++ b, FreeN z n) → ∀ (r r' : Resolver) (pc : Address), RZ z r r' →
    RP z (passLoop env skip (a ++ b) r pc) (passLoop env skip (a ++ Node.symbolConst z v :: b) r' pc) := by
  intro a
  induction a with
  | nil =>
    intro hf r r' pc h
    simp only [List.nil_append]
    conv => rhs; unfold passLoop
    by_cases hs : skip (Node.symbolConst z v) = true
    · rw [if_pos hs]; exact passLoop_rz env skip b hf r r' pc h
    · rw [if_neg hs]
      show RP z _ (passLoop env skip b (r'.addSymbol z v) pc)
      exact passLoop_rz env skip b hf r _ pc (h.addSymbol_z v)
  | cons n ns ih =>
    intro hf r r' pc h
    simp only [List.cons_append]
    unfold passLoop
    by_cases hs : skip n = true
    · rw [if_pos hs, if_pos hs]; exact ih (fun m hm => hf m (List.mem_cons_of_mem _ hm)) r r' pc h
    · rw [if_neg hs, if_neg hs]
      have := pcAfter_rz env n (hf n List.mem_cons_self) h pc
      revert this
      cases pcAfter env n r pc with
      | error e =>
        cases pcAfter env n r' pc with
        | error e' => intro this; exact this
        | ok x => intro this; obtain ⟨x1, x2⟩ := x; exact this.elim
      | ok x =>
        obtain ⟨r1, pc1⟩ := x
        cases pcAfter env n r' pc with
        | error e' => intro this; exact this.elim
        | ok y =>
          obtain ⟨r1', pc1'⟩ := y
          intro this
          obtain ⟨h1, h2⟩ := this
          subst h2
          exact ih (fun m hm => hf m (List.mem_cons_of_mem _ hm)) r1 r1' pc1 h1

theorem RZ.reset {r r' : Resolver} (h : RZ z r r') : RZ z (resolverReset r) (resolverReset r') := by
  obtain ⟨sc, rfl⟩ := h.eq
  exact ⟨⟨sc, rfl⟩, h.size, h.sc⟩

theorem RZ.lastUsed0 {r r' : Resolver} (h : RZ z r r') : RZ z { r with lastUsed := 0 } { r' with lastUsed := 0 } := by
  obtain ⟨sc, rfl⟩ := h.eq
  exact ⟨⟨sc, rfl⟩, h.size, h.sc⟩

/-- the same outcome of `resolve_labels` -/
def RR (z : String) : Except Err Resolver → Except Err Resolver → Prop
  | .ok a, .ok b => RZ z a b
  | .error e, .error e' => e = e'
  | _, _ => False

theorem resolveLabels_eq (env : Env) (nodes : List Node) (r : Resolver) :
    resolveLabels env nodes r =
      (passLoop env Node.isSymbol nodes { r with lastUsed := 0 } ({ r with lastUsed := 0 } : Resolver).reloc >>= fun p =>
        passLoop env Node.isLabelOrBinary nodes (resolverReset p.1) (resolverReset p.1).reloc >>= fun q =>
          pure (resolverReset q.1)) := by
  unfold resolveLabels
  simp only []
  cases passLoop env Node.isSymbol nodes { r with lastUsed := 0 } ({ r with lastUsed := 0 } : Resolver).reloc with
  | error e => rfl
  | ok p =>
    obtain ⟨r1, pc1⟩ := p
    show _ = (passLoop env Node.isLabelOrBinary nodes (resolverReset r1) (resolverReset r1).reloc >>= fun q =>
      (pure (resolverReset q.1) : Except Err Resolver))
    simp only []
    cases passLoop env Node.isLabelOrBinary nodes (resolverReset r1) (resolverReset r1).reloc with
    | error e => rfl
    | ok q => rfl

theorem RP.bindRR {x y : Except Err (Resolver × Address)} (hxy : RP z x y)
    {f g : Resolver × Address → Except Err Resolver}
    (hfg : ∀ a b pc, RZ z a b → RR z (f (a, pc)) (g (b, pc))) : RR z (x >>= f) (y >>= g) := by
  cases x with
  | error e =>
    cases y with
    | error e' => exact hxy
    | ok q => obtain ⟨q1, q2⟩ := q; exact hxy.elim
  | ok p =>
    obtain ⟨p1, p2⟩ := p
    cases y with
    | error e' => exact hxy.elim
    | ok q =>
      obtain ⟨q1, q2⟩ := q
      obtain ⟨h1, h2⟩ := hxy
      subst h2
      exact hfg p1 q1 p2 h1

theorem passLoop_insert' (env : Env) (skip : Node → Bool) (v : Int) (a b : List Node)
    (hf : ∀ n ∈ a ++ b, FreeN z n) (r r' : Resolver) (pc pc' : Address) (hpc : pc' = pc) (h : RZ z r r') :
    RP z (passLoop env skip (a ++ b) r pc) (passLoop env skip (a ++ Node.symbolConst z v :: b) r' pc') := by
  subst hpc; exact passLoop_insert env skip v b a hf r r' pc' h

theorem resolveLabels_insert (env : Env) (v : Int) (a b : List Node) (hf : ∀ n ∈ a ++ b, FreeN z n)
    (r r' : Resolver) (h : RZ z r r') :
    RR z (resolveLabels env (a ++ b) r) (resolveLabels env (a ++ Node.symbolConst z v :: b) r') := by
  rw [resolveLabels_eq, resolveLabels_eq]
  apply RP.bindRR (passLoop_insert' env Node.isSymbol v a b hf _ _ _ _ h.lastUsed0.reloc h.lastUsed0)
  intro a1 b1 pc1 h1
  have hr := h1.reset
  apply RP.bindRR (passLoop_insert' env Node.isLabelOrBinary v a b hf _ _ _ _ hr.reloc hr)
  intro a2 b2 pc2 h2
  exact h2.reset

/-! ## emission -/

/-- emission states that agree on everything the writer sees (the ghost trace is not compared) -/
structure RS (z : String) (st st' : EmitState) : Prop where
  r : RZ z st.r st'.r
  block : st'.block = st.block
  blockAddr : st'.blockAddr = st.blockAddr
  writes : st'.writes = st.writes
  own : st'.own = st.own

def RES (z : String) : Except Err EmitState → Except Err EmitState → Prop
  | .ok a, .ok b => RS z a b
  | .error e, .error e' => e = e'
  | _, _ => False

/-- the middle of `emitStep`: the node's bytes are appended to the pending block and the addresses advance -/
def stepF (st : EmitState) (r1 : Resolver) (bs : List Nat) : Except Err EmitState :=
  let rec0 : TraceRec := ⟨st.r.reloc.logical, st.blockAddr + st.block.length, bs⟩
  if bs.isEmpty then .ok { st with r := r1, trace := st.trace ++ [rec0] }
  else
    match addrAdd r1.reloc bs.length with
    | .error e => .error e
    | .ok a' =>
      .ok { st with r := { r1 with pc := r1.pc + bs.length, reloc := a' },
                    block := st.block ++ bs, trace := st.trace ++ [rec0] }

/-- the end of `emitStep`: a `*=` flushes the pending block, an included patch is handed to the writer -/
def postF (n : Node) (st1 : EmitState) : Except Err EmitState :=
  let st2 :=
    if n.isCodePos then
      if st1.block.isEmpty then { st1 with blockAddr := st1.r.pc, block := [] }
      else { st1 with writes := st1.writes ++ [(st1.blockAddr, st1.block)],
                      own := st1.own ++ [(st1.blockAddr, st1.block)], blockAddr := st1.r.pc, block := [] }
    else st1
  match n with
  | .includeIps blocks => .ok { st2 with writes := st2.writes ++ blocks }
  | _ => .ok st2

theorem emitStep_eq (env : Env) (n : Node) (st : EmitState) :
    emitStep env n st =
      (match emitNode env n st.r with
       | .error e => .error e
       | .ok (r1, bs) =>
         match stepF st r1 bs with
         | .error e => .error e
         | .ok st1 => postF n st1) := by
  unfold emitStep stepF postF
  rfl

theorem RZ.advance {r r' : Resolver} (h : RZ z r r') (pc : Int) (a : Address) :
    RZ z { r with pc := pc, reloc := a } { r' with pc := pc, reloc := a } := by
  obtain ⟨sc, rfl⟩ := h.eq
  exact ⟨⟨sc, rfl⟩, h.size, h.sc⟩

theorem stepF_rs {st st' : EmitState} (h : RS z st st') {r1 r1' : Resolver} (h1 : RZ z r1 r1') (bs : List Nat) :
    RES z (stepF st r1 bs) (stepF st' r1' bs) := by
  unfold stepF
  simp only []
  by_cases hemp : bs.isEmpty = true
  · rw [if_pos hemp, if_pos hemp]
    exact ⟨h1, h.block, h.blockAddr, h.writes, h.own⟩
  · rw [if_neg hemp, if_neg hemp, h1.reloc]
    cases addrAdd r1.reloc bs.length with
    | error e => exact rfl
    | ok a' =>
      refine ⟨?_, by show st'.block ++ bs = st.block ++ bs; rw [h.block], h.blockAddr, h.writes, h.own⟩
      show RZ z { r1 with pc := r1.pc + bs.length, reloc := a' } { r1' with pc := r1'.pc + bs.length, reloc := a' }
      rw [h1.pc]; exact h1.advance _ _

theorem postF_rs (n : Node) {s1 s1' : EmitState} (h : RS z s1 s1') : RES z (postF n s1) (postF n s1') := by
  have h2 : RS z
      (if n.isCodePos then
        if s1.block.isEmpty then { s1 with blockAddr := s1.r.pc, block := [] }
        else { s1 with writes := s1.writes ++ [(s1.blockAddr, s1.block)],
                        own := s1.own ++ [(s1.blockAddr, s1.block)], blockAddr := s1.r.pc, block := [] }
      else s1)
      (if n.isCodePos then
        if s1'.block.isEmpty then { s1' with blockAddr := s1'.r.pc, block := [] }
        else { s1' with writes := s1'.writes ++ [(s1'.blockAddr, s1'.block)],
                        own := s1'.own ++ [(s1'.blockAddr, s1'.block)], blockAddr := s1'.r.pc, block := [] }
      else s1') := by
    rw [h.block, h.blockAddr, h.writes, h.own, h.r.pc]
    by_cases hc : n.isCodePos = true
    · rw [if_pos hc, if_pos hc]
      by_cases he : s1.block.isEmpty = true
      · rw [if_pos he, if_pos he]; exact ⟨h.r, rfl, rfl, rfl, rfl⟩
      · rw [if_neg he, if_neg he]; exact ⟨h.r, rfl, rfl, rfl, rfl⟩
    · rw [if_neg hc, if_neg hc]; exact h
  unfold postF
  simp only []
  revert h2
  generalize (if n.isCodePos then
        if s1.block.isEmpty then { s1 with blockAddr := s1.r.pc, block := [] }
        else { s1 with writes := s1.writes ++ [(s1.blockAddr, s1.block)],
                        own := s1.own ++ [(s1.blockAddr, s1.block)], blockAddr := s1.r.pc, block := [] }
      else s1) = t
  generalize (if n.isCodePos then
        if s1'.block.isEmpty then { s1' with blockAddr := s1'.r.pc, block := [] }
        else { s1' with writes := s1'.writes ++ [(s1'.blockAddr, s1'.block)],
                        own := s1'.own ++ [(s1'.blockAddr, s1'.block)], blockAddr := s1'.r.pc, block := [] }
      else s1') = t'
  intro h2
  cases n <;> first
    | exact h2
    | exact ⟨h2.r, h2.block, h2.blockAddr, by show t'.writes ++ _ = t.writes ++ _; rw [h2.writes], h2.own⟩

theorem emitStep_rz (env : Env) (n : Node) (hn : FreeN z n) {st st' : EmitState} (h : RS z st st') :
    RES z (emitStep env n st) (emitStep env n st') := by
  rw [emitStep_eq, emitStep_eq]
  have he := emitNode_rz env n hn h.r
  revert he
  cases emitNode env n st.r with
  | error e =>
    cases emitNode env n st'.r with
    | error e' => intro he; exact he
    | ok y => intro he; obtain ⟨y1, y2⟩ := y; exact he.elim
  | ok x =>
    obtain ⟨r1, bs⟩ := x
    cases emitNode env n st'.r with
    | error e' => intro he; exact he.elim
    | ok y =>
      obtain ⟨r1', bs'⟩ := y
      intro he
      obtain ⟨h1, hb⟩ := he
      subst hb
      simp only []
      have hs := stepF_rs h h1 bs
      revert hs
      cases stepF st r1 bs with
      | error e =>
        cases stepF st' r1' bs with
        | error e' => intro hs; exact hs
        | ok y => intro hs; exact hs.elim
      | ok s1 =>
        cases stepF st' r1' bs with
        | error e' => intro hs; exact hs.elim
        | ok s1' => intro hs; exact postF_rs n hs

theorem emitLoop_rz (env : Env) : ∀ (ns : List Node), (∀ n ∈ ns, FreeN z n) → ∀ (st st' : EmitState), RS z st st' →
    RES z (emitLoop env ns st) (emitLoop env ns st') := by
  intro ns
  induction ns with
  | nil => intro _ st st' h; exact h
  | cons n ns ih =>
    intro hf st st' h
    unfold emitLoop
    have hs := emitStep_rz env n (hf n List.mem_cons_self) h
    revert hs
    cases emitStep env n st with
    | error e =>
      cases emitStep env n st' with
      | error e' => intro hs; exact hs
      | ok y => intro hs; exact hs.elim
    | ok s1 =>
      cases emitStep env n st' with
      | error e' => intro hs; exact hs.elim
      | ok s1' => intro hs; exact ih (fun m hm => hf m (List.mem_cons_of_mem _ hm)) s1 s1' hs

/-- emitting the definition of `z` changes nothing the writer sees -/
theorem emitStep_sym (env : Env) (v : Int) {st st' : EmitState} (h : RS z st st') :
    RES z (.ok st) (emitStep env (Node.symbolConst z v) st') := by
  rw [emitStep_eq]
  show RES z (.ok st) (match stepF st' st'.r [] with | .error e => .error e | .ok st1 => postF (Node.symbolConst z v) st1)
  exact ⟨h.r, h.block, h.blockAddr, h.writes, h.own⟩

theorem emitLoop_insert (env : Env) (v : Int) (b : List Node) : ∀ (a : List Node), (∀ n ∈ a ++ b, FreeN z n) →
    ∀ (st st' : EmitState), RS z st st' →
    RES z (emitLoop env (a ++ b) st) (emitLoop env (a ++ Node.symbolConst z v :: b) st') := by
  intro a
  induction a with
  | nil =>
    intro hf st st' h
    simp only [List.nil_append]
    conv => rhs; unfold emitLoop
    have hs := emitStep_sym env v h
    revert hs
    cases emitStep env (Node.symbolConst z v) st' with
    | error e' => intro hs; exact hs.elim
    | ok s1' => intro hs; exact emitLoop_rz env b hf st s1' hs
  | cons n ns ih =>
    intro hf st st' h
    simp only [List.cons_append]
    unfold emitLoop
    have hs := emitStep_rz env n (hf n List.mem_cons_self) h
    revert hs
    cases emitStep env n st with
    | error e =>
      cases emitStep env n st' with
      | error e' => intro hs; exact hs
      | ok y => intro hs; exact hs.elim
    | ok s1 =>
      cases emitStep env n st' with
      | error e' => intro hs; exact hs.elim
      | ok s1' => intro hs; exact ih (fun m hm => hf m (List.mem_cons_of_mem _ hm)) s1 s1' hs

/-- what reaches the writer: the `write_block` calls of `Program.emit` after `resolve_labels`, or the exception -/
def output (env : Env) (nodes : List Node) (r : Resolver) : Except Err (List (Int × List Nat)) :=
  match resolveLabels env nodes r with
  | .error e => .error e
  | .ok r1 =>
    match emitAll env nodes r1 with
    | .error e => .error e
    | .ok st => .ok st.writes

/-- **one more definition of a name nothing mentions, anywhere in the node list, leaves the output unchanged** -/
theorem output_insert (env : Env) (v : Int) (a b : List Node) (hf : ∀ n ∈ a ++ b, FreeN z n) (r : Resolver)
    (hk : ∀ i name, (r.scopes.getD i default).kind ≠ .named name) :
    output env (a ++ Node.symbolConst z v :: b) r = output env (a ++ b) r := by
  unfold output
  have hr := resolveLabels_insert env v a b hf r r (RZ.refl r hk)
  revert hr
  cases resolveLabels env (a ++ b) r with
  | error e =>
    cases resolveLabels env (a ++ Node.symbolConst z v :: b) r with
    | error e' => intro hr; have : e = e' := hr; rw [this]
    | ok y => intro hr; exact hr.elim
  | ok r1 =>
    cases resolveLabels env (a ++ Node.symbolConst z v :: b) r with
    | error e' => intro hr; exact hr.elim
    | ok r1' =>
      intro hr
      have h1 : RZ z r1 r1' := hr
      simp only []
      unfold emitAll
      have hs : RS z ⟨r1, [], r1.pc, [], [], []⟩ ⟨r1', [], r1'.pc, [], [], []⟩ := ⟨h1, rfl, h1.pc, rfl, rfl⟩
      have hl := emitLoop_insert env v b a hf _ _ hs
      revert hl
      cases emitLoop env (a ++ b) ⟨r1, [], r1.pc, [], [], []⟩ with
      | error e =>
        cases emitLoop env (a ++ Node.symbolConst z v :: b) ⟨r1', [], r1'.pc, [], [], []⟩ with
        | error e' => intro hl; have : e = e' := hl; rw [this]
        | ok y => intro hl; exact hl.elim
      | ok s =>
        cases emitLoop env (a ++ Node.symbolConst z v :: b) ⟨r1', [], r1'.pc, [], [], []⟩ with
        | error e' => intro hl; exact hl.elim
        | ok s' =>
          intro hl
          have h2 : RS z s s' := hl
          simp only []
          rw [h2.block, h2.blockAddr]
          split
          · show Except.ok s'.writes = Except.ok s.writes
            rw [h2.writes]
          · show Except.ok (s'.writes ++ _) = Except.ok (s.writes ++ _)
            rw [h2.writes]

end A816.Unrel
