import A816.Proofs.ScanComment
import A816.Proofs.ScanPos
import A816.Proofs.ScanExt
/-!
# The look-ahead of `lex_opcode` for mnemonics that may stand alone (helper lemma for C16)

`lex_opcode` decides between `OPCODE_NAKED` (no operand follows on the line) and `OPCODE` by looking ahead over blanks, tabs
and a `;` comment to the end of the line, then coming back.  `lexOpcode_naked`: whenever what follows the mnemonic is
blanks / tabs and then the end of the text, a newline, or a `;` (a comment with **any** text), the result is the same:
one `OPCODE_NAKED` token with the mnemonic's text, the scanner back at the between-token point just behind the mnemonic.
An end-of-line comment after such an instruction therefore changes nothing but the COMMENT token it adds
(`comment_at_point` applies at that point).
-/
namespace A816.ScanS
open A816 Scan ScanB ScanT ScanP

theorem acceptRun_dropWhile (s u : Scan) (cands : List Char) (h0 : cands.contains '\x00' = false)
    (h : s.acceptRun cands = .ok u) :
    u.input.toList.drop u.pos = (s.input.toList.drop s.pos).dropWhile (fun c => cands.contains c) := by
  unfold Scan.acceptRun at h
  split at h
  · rename_i u' heq; cases h
    exact (acceptRunAux_dropWhile cands h0 _ _ u heq).2.1
  · cases h

theorem peek_of_drop (s : Scan) (c : Char) (rest : List Char) (h : s.input.toList.drop s.pos = c :: rest) : s.peek = c := by
  have hlt : s.pos < s.input.size := by
    apply Decidable.byContradiction
    intro hc
    rw [List.drop_of_length_le (by simp; omega)] at h
    cases h
  have h2 := drop_peek s hlt
  rw [h] at h2
  simp only [List.cons.injEq] at h2
  exact h2.1.symm

theorem peek_of_drop_nil (s : Scan) (h : s.input.toList.drop s.pos = []) : s.peek = '\x00' := by
  apply peek_eof
  intro hlt
  have h2 := drop_peek s hlt
  rw [h] at h2
  cases h2

theorem lexOpcode_naked (cfg : ScanCfg) (s : Scan) (ws more : List Char)
    (hno : cfg.noOperand.contains (asciiLower (s.slice s.start s.pos)) = true)
    (hws : ∀ c ∈ ws, c = ' ' ∨ c = '\t')
    (hd : s.input.toList.drop s.pos = ws ++ more)
    (hmore : more = [] ∨ more.head? = some '\n' ∨ more.head? = some ';') :
    ∃ s4 t, lexOpcode cfg s = .ok s4 ∧ s4.input = s.input ∧ s4.pos = s.pos ∧ s4.start = s.pos ∧
      s4.toks = s.toks.push t ∧ key t = (.OPCODE_NAKED, s.tokenText) ∧ s4.file = s.file := by
  -- what `accept_run(" \t")` leaves: `more`
  have hdw : (ws ++ more).dropWhile (fun c => [' ', '\t'].contains c) = more := by
    rw [ScanX.dropWhile_append_all _ ws more (by
      rw [List.all_eq_true]
      intro c hc
      rcases hws c hc with h | h <;> subst h <;> decide)]
    rcases hmore with h | h | h
    · rw [h]; rfl
    · cases more with
      | nil => cases h
      | cons c m => simp only [List.head?_cons, Option.some.injEq] at h; subst h; rfl
    · cases more with
      | nil => cases h
      | cons c m => simp only [List.head?_cons, Option.some.injEq] at h; subst h; rfl
  have hpk : (s.peek != '.') = true := by
    cases hws' : ws with
    | nil =>
      rw [hws', List.nil_append] at hd
      rcases hmore with h | h | h
      · rw [h] at hd; rw [peek_of_drop_nil s hd]; decide
      · cases more with
        | nil => cases h
        | cons c m => simp only [List.head?_cons, Option.some.injEq] at h; subst h; rw [peek_of_drop s _ _ hd]; decide
      · cases more with
        | nil => cases h
        | cons c m => simp only [List.head?_cons, Option.some.injEq] at h; subst h; rw [peek_of_drop s _ _ hd]; decide
    | cons c w =>
      rw [hws', List.cons_append] at hd
      rw [peek_of_drop s _ _ hd]
      rcases hws c (by rw [hws']; exact List.mem_cons_self) with h | h <;> subst h <;> decide
  have fin : ∀ (s3 : Scan), Step s s3 → (s3.peek == '\n' || s3.peek == '\x00') = true →
      ∃ s4 t, (pure (({ s3 with pos := s.pos } : Scan).emit TokTy.OPCODE_NAKED) : SR) = .ok s4 ∧ s4.input = s.input ∧
        s4.pos = s.pos ∧ s4.start = s.pos ∧ s4.toks = s.toks.push t ∧ key t = (.OPCODE_NAKED, s.tokenText) ∧ s4.file = s.file := by
    intro s3 st _
    refine ⟨_, ⟨.OPCODE_NAKED, ({ s3 with pos := s.pos } : Scan).tokenText, s3.curLine, (s3.start : Int) - s3.lineOffset, s3.file, true⟩,
      rfl, st.input, rfl, rfl, ?_, ?_, st.file⟩
    · show s3.toks.push _ = s.toks.push _
      rw [st.toks]
    · show (TokTy.OPCODE_NAKED, ({ s3 with pos := s.pos } : Scan).tokenText) = _
      unfold Scan.tokenText Scan.slice
      simp only [st.input, st.start]
  unfold lexOpcode
  simp only []
  rw [hno, hpk]
  simp only [Bool.and_self, ↓reduceIte]
  obtain ⟨s1, hr⟩ : ∃ s1, s.acceptRun [' ', '\t'] = .ok s1 := by
    have := acceptRun_ok s [' ', '\t'] false (by decide)
    cases hx : s.acceptRun [' ', '\t'] with
    | ok s1 => exact ⟨s1, rfl⟩
    | error e => rw [hx] at this; exact absurd this (by simp)
  have st1 := step_acceptRun s s1 _ false (by decide) hr
  have hrest1 : s1.input.toList.drop s1.pos = more := by
    rw [acceptRun_dropWhile s s1 _ (by decide) hr, hd, hdw]
  rw [hr, ok_bind]
  rcases hmore with h | h | h
  · -- end of the text
    have hp1 : s1.peek = '\x00' := by rw [h] at hrest1; exact peek_of_drop_nil s1 hrest1
    have hacc : s1.accept [';'] = (s1, false) := by
      unfold Scan.accept Scan.acceptTest
      simp [hp1]
    rw [hacc]
    simp only [Bool.false_eq_true, ↓reduceIte, pure_bind']
    have hc : (s1.peek == '\n' || s1.peek == '\x00') = true := by rw [hp1]; decide
    rw [if_pos hc]
    exact fin s1 st1 hc
  · cases more with
    | nil => cases h
    | cons c m =>
      simp only [List.head?_cons, Option.some.injEq] at h; subst h
      have hp1 : s1.peek = '\n' := peek_of_drop s1 _ _ hrest1
      have hacc : s1.accept [';'] = (s1, false) := by
        unfold Scan.accept Scan.acceptTest
        simp [hp1]
      rw [hacc]
      simp only [Bool.false_eq_true, ↓reduceIte, pure_bind']
      have hc : (s1.peek == '\n' || s1.peek == '\x00') = true := by rw [hp1]; decide
      rw [if_pos hc]
      exact fin s1 st1 hc
  · cases more with
    | nil => cases h
    | cons c m =>
      simp only [List.head?_cons, Option.some.injEq] at h; subst h
      have hp1 : s1.peek = ';' := peek_of_drop s1 _ _ hrest1
      have hacc : s1.accept [';'] = ((s1.next).1, true) := by
        unfold Scan.accept Scan.acceptTest
        simp [hp1]
      have st2 : Step s (s1.next).1 := st1.trans (step_next s1 (by rw [hp1]; decide))
      rw [hacc]
      simp only [↓reduceIte]
      obtain ⟨s3, hr3⟩ : ∃ s3, (s1.next).1.acceptRun ['\n', '\x00'] true = .ok s3 := by
        have := acceptRun_ok (s1.next).1 ['\n', '\x00'] true (by decide)
        cases hx : (s1.next).1.acceptRun ['\n', '\x00'] true with
        | ok s3 => exact ⟨s3, rfl⟩
        | error e => rw [hx] at this; exact absurd this (by simp)
      have st3 := st2.trans (step_acceptRun _ s3 _ true (by decide) hr3)
      have hstop := acceptRun_stops _ s3 _ true hr3
      have hc : (s3.peek == '\n' || s3.peek == '\x00') = true := by
        unfold Scan.accept Scan.acceptTest at hstop
        simp only [↓reduceIte] at hstop
        split at hstop
        · cases hstop
        · rename_i hn
          simp only [Bool.not_eq_true, Bool.not_eq_false', List.contains_cons, List.contains_nil, Bool.or_false] at hn
          rw [Bool.or_eq_true] at hn ⊢
          rcases hn with h1 | h1
          · exact .inl h1
          · exact .inr h1
      rw [hr3, ok_bind, if_pos hc]
      exact fin s3 st3 hc

theorem peek_k_of_drop (s : Scan) (k : Nat) (rest : List Char) (h : s.input.toList.drop s.pos = rest) :
    s.peek k = rest.getD k '\x00' := by
  unfold Scan.peek
  rw [Array.getD_eq_getD_getElem?, List.getD_eq_getElem?_getD, ← h, List.getElem?_drop, Array.getElem?_toList]

theorem next_backup (s : Scan) (c : Char) (rest : List Char) (h : s.input.toList.drop s.pos = c :: rest) (hc : c ≠ '\n') :
    (s.next).1.backup = s := by
  have hlt : s.pos < s.input.size := by
    apply Decidable.byContradiction
    intro hx
    rw [List.drop_of_length_le (by simp; omega)] at h
    cases h
  have hp := peek_of_drop s c rest h
  have hc2 : s.input[s.pos] = c := by
    have := ScanP.peek_eq s hlt
    rw [hp] at this
    simpa [hlt] using this
  rw [ScanX.next_lt s hlt]
  simp only [hc2, hc, ↓reduceIte]
  unfold Scan.backup
  cases s
  simp

/-- **a mnemonic that may stand alone, followed by blanks / tabs and then the end of the text, a newline or a `;`
    comment of any text, is one OPCODE_NAKED token**, and the scanner is back at the between-token point just behind the
    mnemonic (where `comment_at_point` / `blanks_between_tokens` apply) -/
theorem lexInitial_naked (cfg : ScanCfg) (s : Scan) (a b c : Char) (ws more : List Char) (hst : s.start = s.pos)
    (hd : s.input.toList.drop s.pos = a :: b :: c :: (ws ++ more))
    (ha : letterChars.contains a = true)
    (hmn : cfg.mnemonics.contains (asciiLower (String.ofList [a, b, c])) = true)
    (hno : cfg.noOperand.contains (asciiLower (String.ofList [a, b, c])) = true)
    (hws : ∀ c ∈ ws, c = ' ' ∨ c = '\t')
    (hmore : more = [] ∨ more.head? = some '\n' ∨ more.head? = some ';')
    (hsep : ws ≠ [] ∨ more.head? ≠ some ';') :
    ∃ s4 t, lexInitial cfg s = .ok s4 ∧ s4.input = s.input ∧ s4.pos = s.pos + 3 ∧ s4.start = s4.pos ∧
      s4.toks = s.toks.push t ∧ key t = (.OPCODE_NAKED, String.ofList [a, b, c]) ∧ s4.file = s.file := by
  have hp : s.peek = a := peek_of_drop s _ _ hd
  have hlen : s.pos + 3 ≤ s.input.size := by
    have := congrArg List.length hd
    simp at this
    omega
  have hanl : a ≠ '\n' := by intro hx; rw [hx] at ha; revert ha; decide
  unfold lexInitial
  simp only []
  have hig : s.ignoreRun [' ', '\t', '\n'] = .ok s := by
    unfold Scan.ignoreRun
    rw [acceptRun_of_not s _ false (by
      rw [accept_snd, hp]
      cases hx : [' ', '\t', '\n'].contains a with
      | false => rfl
      | true =>
        exfalso
        simp only [List.contains_cons, List.contains_nil, Bool.or_false, Bool.or_eq_true, beq_iff_eq] at hx
        rcases hx with h | h | h <;> (rw [h] at ha; revert ha; decide))]
    simp only []
    rw [ignore_self s hst]
  rw [hig, ok_bind]
  -- no earlier branch takes a letter
  have na : ∀ cands : List Char, (∀ x ∈ cands, letterChars.contains x = false) → ¬ (s.accept cands).2 = true := by
    intro cands hc
    rw [accept_snd, hp]
    intro hx
    have := hc a (by simpa using hx)
    rw [ha] at this
    cases this
  have np : ∀ pre : List Char, (∀ x ∈ pre.head?, letterChars.contains x = false) → 0 < pre.length →
      ¬ (s.acceptPrefix pre).2 = true := by
    intro pre h1 h2
    apply acceptPrefix_head_ne s a _ pre hd _ h2
    intro hx
    have := h1 a (by rw [hx]; rfl)
    rw [ha] at this
    cases this
  repeat (first | rw [if_neg (na _ (by decide))] | rw [if_neg (np _ (by decide) (by decide))])
  have hacc : s.accept letterChars = ((s.next).1, true) := by
    unfold Scan.accept Scan.acceptTest
    simp only [Bool.false_eq_true, ↓reduceIte, hp, ha]
  rw [hacc]
  simp only [↓reduceIte]
  rw [next_backup s a _ hd hanl]
  -- `accept_opcode`
  have hslice : s.slice s.start (s.pos + 3) = String.ofList [a, b, c] := by
    unfold Scan.slice
    rw [hst, hd, show s.pos + 3 - s.pos = 3 by omega]
    rfl
  have hpk3 : [' ', '\n', '\t', '.', '\x00'].contains (s.peek 3) = true := by
    rw [peek_k_of_drop s 3 _ hd]
    show [' ', '\n', '\t', '.', '\x00'].contains ((ws ++ more).getD 0 '\x00') = true
    cases hw : ws with
    | cons x w =>
      rcases hws x (by rw [hw]; exact List.mem_cons_self) with h | h <;> subst h <;> rfl
    | nil =>
      rw [List.nil_append]
      rcases hmore with h | h | h
      · rw [h]; rfl
      · cases more with
        | nil => cases h
        | cons y m => simp only [List.head?_cons, Option.some.injEq] at h; subst h; rfl
      · exfalso
        rcases hsep with h2 | h2
        · exact h2 hw
        · exact h2 h
  have hao : acceptOpcode cfg s = ({ s with pos := s.pos + 3 }, true) := by
    unfold acceptOpcode
    simp only [hslice, hmn, hpk3, Bool.and_self, ↓reduceIte]
  rw [hao]
  simp only [↓reduceIte]
  obtain ⟨s4, t, h1, h2, h3, h4, h5, h6, h7⟩ := lexOpcode_naked cfg { s with pos := s.pos + 3 } ws more
    (by show cfg.noOperand.contains (asciiLower (s.slice s.start (s.pos + 3))) = true; rw [hslice]; exact hno) hws
    (by show s.input.toList.drop (s.pos + 3) = ws ++ more
        rw [← List.drop_drop, hd]; rfl) hmore
  refine ⟨s4, t, h1, h2, h3, by rw [h4, h3], h5, ?_, h7⟩
  rw [h6]
  show (TokTy.OPCODE_NAKED, s.slice s.start (s.pos + 3)) = _
  rw [hslice]

end A816.ScanS
