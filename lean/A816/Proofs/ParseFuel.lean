import Lean
import A816.Model.Parser
/-!
# The parser never runs out of fuel (C15 `parse_terminates`)

Every `while` loop and every (mutual) recursion of `parser_states.py` is modelled by one structural fuel
argument.  This file proves that `2·(tokens left) + 6` fuel is always enough when no source file can be
included (`fs.text = []`: every `.include` fails with `OSError` before parsing anything): **for every token
array** `parseProgram` — and every other parser function, with its own constant — returns or raises a real
exception, never `outOfFuel`.  The proof is one induction on the fuel carrying, for the twelve functions at
once (`IH`), a Hoare triple `Tri`: "with `2·(size − pos) + K` fuel the call does not run out, keeps the token
array and the file system, never moves `pos` backwards, and (expressions, statements, opcodes, keywords)
consumes at least one token that lies inside the array".  The last part is what bounds the Python loops:
`parse_block`, `parse_initial` and the list loops call a function that strictly consumes input each time.

The `do` blocks are taken apart by the small tactics `tri` / `triH` (bind, primitives, `if`, `match`, calls
through the induction hypothesis) and the arithmetic leaves are closed by `fin` (`inrange` first adds
"this position is inside the array" for every hypothesis that fixes the type or text of the token there).
-/
open A816
namespace A816.ParseFuel

/-- the computation does not run out of fuel; when it returns, `Q` holds of the result -/
def Tri {α} (m : PM α) (st : PState) (Q : α → PState → Prop) : Prop :=
  match m st with
  | .ok (a, st') => Q a st'
  | .error e => e ≠ .outOfFuel

theorem Tri.bind {α β} {m : PM α} {f : α → PM β} {st : PState} {Q : β → PState → Prop}
    (h : Tri m st (fun a st1 => Tri (f a) st1 Q)) : Tri (m >>= f) st Q := by
  unfold Tri at *
  show (match (StateT.bind m f) st with | .ok (a, st') => Q a st' | .error e => e ≠ .outOfFuel)
  unfold StateT.bind
  cases hm : m st with
  | error e => simp only [hm] at h ⊢; exact h
  | ok p => obtain ⟨a, st1⟩ := p; simp only [hm] at h ⊢; exact h

theorem Tri.mono {α} {m : PM α} {st : PState} {P Q : α → PState → Prop}
    (h : Tri m st P) (hpq : ∀ a st', P a st' → Q a st') : Tri m st Q := by
  unfold Tri at *
  cases hm : m st with
  | error e => simp only [hm] at h ⊢; exact h
  | ok p => obtain ⟨a, st1⟩ := p; simp only [hm] at h ⊢; exact hpq _ _ h

theorem Tri.pure {α} {a : α} {st : PState} {Q : α → PState → Prop} (h : Q a st) : Tri (pure a) st Q := h
theorem Tri.pNext {st : PState} {Q : Tok → PState → Prop}
    (h : Q (st.toks.getD st.pos eofTok) { st with pos := st.pos + 1 }) : Tri pNext st Q := h
theorem Tri.pCurrent {st : PState} {Q : Tok → PState → Prop}
    (h : Q (st.toks.getD st.pos eofTok) st) : Tri pCurrent st Q := h
theorem Tri.pPeek {st : PState} {Q : Tok → PState → Prop}
    (h : Q (st.toks.getD (st.pos + 1) eofTok) st) : Tri pPeek st Q := h
theorem Tri.pBackup {st : PState} {Q : Unit → PState → Prop}
    (h : Q () { st with pos := st.pos - 1 }) : Tri pBackup st Q := h
theorem Tri.get {st : PState} {Q : PState → PState → Prop} (h : Q st st) : Tri get st Q := h
theorem Tri.set {st s : PState} {Q : PUnit → PState → Prop} (h : Q ⟨⟩ s) : Tri (set s) st Q := h
theorem Tri.modify {st : PState} {f : PState → PState} {Q : PUnit → PState → Prop} (h : Q ⟨⟩ (f st)) :
    Tri (modify f) st Q := h
theorem Tri.throw {α} {e : Err} {st : PState} {Q : α → PState → Prop} (h : e ≠ .outOfFuel) :
    Tri (throw e : PM α) st Q := h
theorem Tri.pFail {α} {t : Tok} {st : PState} {Q : α → PState → Prop} : Tri (pFail t : PM α) st Q := by
  show syntaxErr t ≠ .outOfFuel
  unfold syntaxErr; split <;> simp
theorem Tri.expectTok {t : Tok} {ty : TokTy} {st : PState} {Q : Unit → PState → Prop}
    (h : t.ty = ty → Q () st) : Tri (expectTok t ty) st Q := by
  unfold A816.expectTok
  by_cases hc : t.ty = ty
  · simp only [hc, beq_self_eq_true, ↓reduceIte]; exact h hc
  · have : (t.ty == ty) = false := by simpa using hc
    simp only [this, Bool.false_eq_true, ↓reduceIte]; exact Tri.pFail
theorem Tri.ite {α} {c : Prop} [Decidable c] {a b : PM α} {st : PState} {Q : α → PState → Prop}
    (ha : c → Tri a st Q) (hb : ¬ c → Tri b st Q) : Tri (if c then a else b) st Q := by
  by_cases h : c
  · simp only [h, ↓reduceIte]; exact ha h
  · simp only [h, ↓reduceIte]; exact hb h


theorem inR_beq {T : Array Tok} {p : Nat} {X : TokTy} (h : ((T.getD p eofTok).ty == X) = true) :
    X = .EOF ∨ p < T.size := by
  by_cases hp : p < T.size
  · exact .inr hp
  · left
    have : T.getD p eofTok = eofTok := by simp [Array.getD, hp]
    rw [this] at h
    have h2 : eofTok.ty = X := by simpa using h
    rw [← h2]; rfl
theorem inR_eq {T : Array Tok} {p : Nat} {X : TokTy} (h : (T.getD p eofTok).ty = X) : X = .EOF ∨ p < T.size :=
  inR_beq (by rw [h]; exact beq_self_eq_true _)
theorem inR_val {T : Array Tok} {p : Nat} {s : String} (h : ((T.getD p eofTok).val == s) = true) :
    s = "" ∨ p < T.size := by
  by_cases hp : p < T.size
  · exact .inr hp
  · left
    have : T.getD p eofTok = eofTok := by simp [Array.getD, hp]
    rw [this] at h
    have h2 : eofTok.val = s := by simpa using h
    rw [← h2]; rfl

theorem inR_or2 {T : Array Tok} {p : Nat} {X Y : TokTy}
    (h : ((T.getD p eofTok).ty == X) = true ∨ ((T.getD p eofTok).ty == Y) = true) : X = .EOF ∨ Y = .EOF ∨ p < T.size := by
  rcases h with h | h
  · rcases inR_beq h with h | h
    · exact .inl h
    · exact .inr (.inr h)
  · rcases inR_beq h with h | h
    · exact .inr (.inl h)
    · exact .inr (.inr h)

open Lean Elab Tactic Meta in
partial def inrangeFacts (pf : Expr) : MetaM (List (Expr × Expr)) := do
  let ty ← whnfR (← inferType pf)
  if ty.isAppOfArity ``And 2 then
    let l ← inrangeFacts (← mkAppM ``And.left #[pf])
    let r ← inrangeFacts (← mkAppM ``And.right #[pf])
    return l ++ r
  let mut out := []
  for lem in [``inR_beq, ``inR_eq, ``inR_val, ``inR_or2] do
    try
      let q ← mkAppM lem #[pf]
      out := (← inferType q, q) :: out
    catch _ => pure ()
  return out

open Lean Elab Tactic Meta in
/-- add, for every hypothesis that fixes the type or the text of the token at a position, the fact that the
    position is inside the token array (or the type is EOF / the text empty) -/
elab "inrange" : tactic => withMainContext do
  let lctx ← getLCtx
  for d in lctx do
    if d.isImplementationDetail then continue
    let facts ← inrangeFacts d.toExpr
    for (ty, pf) in facts do
      liftMetaTactic fun g => do
        let g ← g.assert `hr ty pf
        let (_, g) ← g.intro1
        return [g]

/-- one step of decomposition -/
macro "tri1" : tactic => `(tactic| first
  | refine Tri.bind ?_
  | refine Tri.pNext ?_
  | refine Tri.pCurrent ?_
  | refine Tri.pPeek ?_
  | refine Tri.pBackup ?_
  | refine Tri.get ?_
  | refine Tri.set ?_
  | refine Tri.modify ?_
  | exact Tri.pFail
  | refine Tri.pure ?_
  | (refine Tri.expectTok ?_; intro _)
  | (refine Tri.ite ?_ ?_ <;> intro _)
  | refine Tri.throw (by simp)
  | intro _
  | split)
macro "tri" : tactic => `(tactic| repeat' (tri1; try dsimp only))
macro "fin" : tactic => `(tactic| ((try subst_vars); (try simp only [Bool.and_eq_true, Bool.or_eq_true, bne_iff_ne, ne_eq, Decidable.not_not] at *); inrange; (try simp only [reduceCtorEq, false_or, String.reduceEq] at *); (first | omega | (refine ⟨_, rfl, ?_⟩; omega))))

variable (cfg : ParseCfg) (T : Array Tok) (F : FS)

/-- the state is `(T, p', F)` for a position `p'` with `R p'` -/
def At (R : Nat → Prop) (st' : PState) : Prop := ∃ p', st' = ⟨T, p', F⟩ ∧ R p'

/-- what is known of every parser function at one fuel value -/
structure IH (fuel : Nat) : Prop where
  nodes : ∀ p, 2 * (T.size - p) + 1 ≤ fuel →
    Tri (parseExprNodes cfg fuel) ⟨T, p, F⟩ (fun _ => At T F fun p' => p < p' ∧ p < T.size)
  expr : ∀ p, 2 * (T.size - p) + 2 ≤ fuel →
    Tri (parseExpr cfg fuel) ⟨T, p, F⟩ (fun _ => At T F fun p' => p < p' ∧ p < T.size)
  operand : ∀ mode opcode p, 2 * (T.size - p) + 3 ≤ fuel →
    Tri (parseOperand cfg fuel mode opcode) ⟨T, p, F⟩ (fun _ => At T F fun p' => p ≤ p')
  opcode : ∀ p, 2 * (T.size - p) + 4 ≤ fuel →
    Tri (parseOpcode cfg fuel) ⟨T, p, F⟩ (fun _ => At T F fun p' => p < p')
  kw : ∀ p, 2 * (T.size - p) + 4 ≤ fuel →
    Tri (parseKeyword cfg fuel) ⟨T, p, F⟩ (fun _ => At T F fun p' => p < p')
  decl : ∀ p, 2 * (T.size - p) + 5 ≤ fuel →
    Tri (parseDecl cfg fuel) ⟨T, p, F⟩ (fun _ => At T F fun p' => p < p' ∧ p < T.size)
  block : ∀ p, 2 * (T.size - p) + 6 ≤ fuel →
    Tri (parseBlock cfg fuel) ⟨T, p, F⟩ (fun _ => At T F fun p' => p ≤ p')
  list : ∀ p, 2 * (T.size - p) + 5 ≤ fuel →
    Tri (parseExprListInner cfg fuel) ⟨T, p, F⟩ (fun _ => At T F fun p' => p ≤ p')
  margs : ∀ p, 2 * (T.size - p) + 1 ≤ fuel →
    Tri (parseMacroArgsLoop cfg fuel) ⟨T, p, F⟩ (fun _ => At T F fun p' => p ≤ p')
  mapl : ∀ p, 2 * (T.size - p) + 1 ≤ fuel →
    Tri (parseMapLoop cfg fuel) ⟨T, p, F⟩ (fun _ => At T F fun p' => p ≤ p')
  struct : ∀ p, 2 * (T.size - p) + 1 ≤ fuel →
    Tri (parseStructLoop cfg fuel) ⟨T, p, F⟩ (fun _ => At T F fun p' => p ≤ p')
  prog : ∀ p, 2 * (T.size - p) + 6 ≤ fuel →
    Tri (parseProgram cfg fuel) ⟨T, p, F⟩ (fun _ => At T F fun p' => p ≤ p')

theorem Tri.monoAt {α} {m : PM α} {st : PState} {R : Nat → Prop} {Q : α → PState → Prop}
    (h : Tri m st (fun _ => At T F R)) (k : ∀ a p', R p' → Q a ⟨T, p', F⟩) : Tri m st Q :=
  Tri.mono h (by rintro a _ ⟨p', rfl, hr⟩; exact k a p' hr)

macro "call" h:term : tactic => `(tactic| refine Tri.monoAt _ _ ($h _ ?_) ?_)

theorem step_nodes (fuel : Nat) (ih : IH cfg T F fuel) (p : Nat)
    (hb : 2 * (T.size - p) + 1 ≤ fuel + 1) :
    Tri (parseExprNodes cfg (fuel + 1)) ⟨T, p, F⟩ (fun _ => At T F fun p' => p < p' ∧ p < T.size) := by
  unfold parseExprNodes At
  tri
  · call ih.nodes
    · fin
    · tri
      · call ih.nodes
        · fin
        · tri; fin
      · fin
  · call ih.nodes
    · fin
    · tri; fin
  · fin
  · call ih.nodes
    · fin
    · tri; fin
  · fin
  · call ih.nodes
    · fin
    · tri; fin
  · fin
  · call ih.nodes
    · fin
    · tri
      · call ih.nodes
        · fin
        · tri; fin
      · fin

theorem step_expr (fuel : Nat) (ih : IH cfg T F fuel) (p : Nat)
    (hb : 2 * (T.size - p) + 2 ≤ fuel + 1) :
    Tri (parseExpr cfg (fuel + 1)) ⟨T, p, F⟩ (fun _ => At T F fun p' => p < p' ∧ p < T.size) := by
  unfold parseExpr At
  tri
  call ih.nodes
  · fin
  · tri; fin


macro "callAny" h:ident : tactic => `(tactic| first
  | refine Tri.monoAt _ _ (($h).nodes _ ?_) ?_
  | refine Tri.monoAt _ _ (($h).expr _ ?_) ?_
  | refine Tri.monoAt _ _ (($h).operand _ _ _ ?_) ?_
  | refine Tri.monoAt _ _ (($h).opcode _ ?_) ?_
  | refine Tri.monoAt _ _ (($h).kw _ ?_) ?_
  | refine Tri.monoAt _ _ (($h).decl _ ?_) ?_
  | refine Tri.monoAt _ _ (($h).block _ ?_) ?_
  | refine Tri.monoAt _ _ (($h).list _ ?_) ?_
  | refine Tri.monoAt _ _ (($h).margs _ ?_) ?_
  | refine Tri.monoAt _ _ (($h).mapl _ ?_) ?_
  | refine Tri.monoAt _ _ (($h).struct _ ?_) ?_
  | refine Tri.monoAt _ _ (($h).prog _ ?_) ?_)
macro "triH" h:ident : tactic => `(tactic| repeat' ((first | tri1 | callAny $h); try dsimp only))

theorem step_block (fuel : Nat) (ih : IH cfg T F fuel) (p : Nat)
    (hb : 2 * (T.size - p) + 6 ≤ fuel + 1) :
    Tri (parseBlock cfg (fuel + 1)) ⟨T, p, F⟩ (fun _ => At T F fun p' => p ≤ p') := by
  unfold parseBlock At
  triH ih <;> fin

theorem step_prog (fuel : Nat) (ih : IH cfg T F fuel) (p : Nat)
    (hb : 2 * (T.size - p) + 6 ≤ fuel + 1) :
    Tri (parseProgram cfg (fuel + 1)) ⟨T, p, F⟩ (fun _ => At T F fun p' => p ≤ p') := by
  unfold parseProgram At
  triH ih <;> fin

theorem step_list (fuel : Nat) (ih : IH cfg T F fuel) (p : Nat)
    (hb : 2 * (T.size - p) + 5 ≤ fuel + 1) :
    Tri (parseExprListInner cfg (fuel + 1)) ⟨T, p, F⟩ (fun _ => At T F fun p' => p ≤ p') := by
  unfold parseExprListInner At
  triH ih <;> fin

theorem step_margs (fuel : Nat) (ih : IH cfg T F fuel) (p : Nat)
    (hb : 2 * (T.size - p) + 1 ≤ fuel + 1) :
    Tri (parseMacroArgsLoop cfg (fuel + 1)) ⟨T, p, F⟩ (fun _ => At T F fun p' => p ≤ p') := by
  unfold parseMacroArgsLoop At
  triH ih <;> fin

theorem step_struct (fuel : Nat) (ih : IH cfg T F fuel) (p : Nat)
    (hb : 2 * (T.size - p) + 1 ≤ fuel + 1) :
    Tri (parseStructLoop cfg (fuel + 1)) ⟨T, p, F⟩ (fun _ => At T F fun p' => p ≤ p') := by
  unfold parseStructLoop At
  triH ih <;> fin

theorem step_mapl (fuel : Nat) (ih : IH cfg T F fuel) (p : Nat)
    (hb : 2 * (T.size - p) + 1 ≤ fuel + 1) :
    Tri (parseMapLoop cfg (fuel + 1)) ⟨T, p, F⟩ (fun _ => At T F fun p' => p ≤ p') := by
  unfold parseMapLoop At
  triH ih <;> fin


theorem step_operand (fuel : Nat) (ih : IH cfg T F fuel) (mode : AddrMode) (opcode : Tok) (p : Nat)
    (hb : 2 * (T.size - p) + 3 ≤ fuel + 1) :
    Tri (parseOperand cfg (fuel + 1) mode opcode) ⟨T, p, F⟩ (fun _ => At T F fun p' => p ≤ p') := by
  unfold parseOperand At
  triH ih <;> fin

theorem step_opcode (fuel : Nat) (ih : IH cfg T F fuel) (p : Nat)
    (hb : 2 * (T.size - p) + 4 ≤ fuel + 1) :
    Tri (parseOpcode cfg (fuel + 1)) ⟨T, p, F⟩ (fun _ => At T F fun p' => p < p') := by
  unfold parseOpcode At
  triH ih <;> fin

theorem step_decl (fuel : Nat) (ih : IH cfg T F fuel) (p : Nat)
    (hb : 2 * (T.size - p) + 5 ≤ fuel + 1) :
    Tri (parseDecl cfg (fuel + 1)) ⟨T, p, F⟩ (fun _ => At T F fun p' => p < p' ∧ p < T.size) := by
  unfold parseDecl At
  triH ih <;> fin


theorem Tri.mapM_keep {α β} (f : α → PM β) (hf : ∀ a st, Tri (f a) st (fun _ st' => st' = st)) :
    ∀ (l : List α) (st : PState), Tri (l.mapM f) st (fun _ st' => st' = st) := by
  intro l
  induction l with
  | nil => intro st; rw [List.mapM_nil]; exact Tri.pure rfl
  | cons a l ih =>
    intro st
    rw [List.mapM_cons]
    refine Tri.bind (Tri.mono (hf a st) ?_)
    intro b st1 h1; rw [h1]
    refine Tri.bind (Tri.mono (ih st) ?_)
    intro bs st2 h2; rw [h2]
    exact Tri.pure rfl

set_option maxHeartbeats 2000000 in
theorem step_kw (hF : F.text = []) (fuel : Nat) (ih : IH cfg T F fuel) (p : Nat)
    (hb : 2 * (T.size - p) + 4 ≤ fuel + 1) :
    Tri (parseKeyword cfg (fuel + 1)) ⟨T, p, F⟩ (fun _ => At T F fun p' => p < p') := by
  unfold parseKeyword At
  dsimp only
  repeat' (
    (first | tri1 | callAny ih | (refine Tri.mono (Tri.mapM_keep _ ?_ _ _) ?_) | rfl)
    (try dsimp only)
    (try rw [hF])
    (try dsimp only [alookup]))
  all_goals fin


/-- all twelve statements, at every fuel -/
theorem all (hF : F.text = []) : ∀ fuel, IH cfg T F fuel := by
  intro fuel
  induction fuel with
  | zero =>
    exact ⟨fun _ h => by omega, fun _ h => by omega, fun _ _ _ h => by omega, fun _ h => by omega,
      fun _ h => by omega, fun _ h => by omega, fun _ h => by omega, fun _ h => by omega,
      fun _ h => by omega, fun _ h => by omega, fun _ h => by omega, fun _ h => by omega⟩
  | succ fuel ih =>
    exact ⟨step_nodes cfg T F fuel ih, step_expr cfg T F fuel ih, step_operand cfg T F fuel ih,
      step_opcode cfg T F fuel ih, step_kw cfg T F hF fuel ih, step_decl cfg T F fuel ih,
      step_block cfg T F fuel ih, step_list cfg T F fuel ih, step_margs cfg T F fuel ih,
      step_mapl cfg T F fuel ih, step_struct cfg T F fuel ih, step_prog cfg T F fuel ih⟩

theorem Tri.no_fuel {α} {m : PM α} {st : PState} {Q : α → PState → Prop} (h : Tri m st Q) :
    m st ≠ .error .outOfFuel := by
  unfold Tri at h
  intro he
  rw [he] at h
  exact h rfl

theorem Tri.post {α} {m : PM α} {st : PState} {Q : α → PState → Prop} (h : Tri m st Q) {a : α} {st' : PState}
    (hr : m st = .ok (a, st')) : Q a st' := by
  unfold Tri at h
  rw [hr] at h
  exact h

end A816.ParseFuel
