import A816.Proofs.ExprLiteral
/-! C06 helper lemmas, part 4: the fused machine on the printout of a well-formed tree. -/
namespace A816
open Spec

/-- model-level well-formedness (levels measured by the operator table) -/
def mWF (P : BOp → Nat) : Expr → Prop
  | .num l => l.WF
  | .var _ => True
  | .paren e => mWF P e
  | .un _ e => mWF P e ∧ mlevel P e ≤ 2
  | .bin o l r => mWF P l ∧ mWF P r ∧ mlevel P l ≤ P o ∧ mlevel P r < P o

theorem mWF_of_WF {prec : PrecTable} (hp : PrecOK prec) (e : Expr) (wf : e.WF) : mWF hp.P e := by
  induction e with
  | num l => exact wf
  | var x => trivial
  | paren e ih => exact ih wf
  | un o e ih =>
    obtain ⟨h1, h2⟩ := wf
    refine ⟨ih h1, ?_⟩
    cases e with
    | bin o' _ _ => simp [Expr.level] at h2; cases o' <;> simp [BOp.level] at h2
    | _ => simp [mlevel]
  | bin o l r ihl ihr =>
    obtain ⟨h1, h2, h3, h4⟩ := wf
    refine ⟨ihl h1, ihr h2, ?_, ?_⟩
    · cases l with
      | bin o' _ _ => simp only [Expr.level] at h3; simp only [mlevel]; exact (hp.mono o' o).mp h3
      | un _ _ => simp only [mlevel]; have := hp.gt2 o; omega
      | _ => simp [mlevel]
    · cases r with
      | bin o' _ _ => simp only [Expr.level] at h4; simp only [mlevel]; exact (hp.lt o' o).mp h4
      | un _ _ => simp only [mlevel]; exact hp.gt2 o
      | _ => simp only [mlevel]; have := hp.gt2 o; omega

/-- operators of a sub-expression that are still on the stack: none is "(", each ranks `≤ ℓ` -/
def Pending (prec : PrecTable) (ℓ : Nat) (pending : List ENode) : Prop :=
  ∀ n ∈ pending, (n.text == "(") = false ∧ ∃ q, stackPrec prec n = some q ∧ q ≤ ℓ

theorem fpop_pending (look : String → Look) (prec : PrecTable) (p ℓ : Nat) (hℓ : ℓ ≤ p)
    (pending stack : List ENode) (hpend : Pending prec ℓ pending) :
    ∀ (ws ws' : List Int), rpnRun look ws pending = .ok ws' →
      fpop look prec p ws (pending ++ stack) = fpop look prec p ws' stack := by
  induction pending with
  | nil => intro ws ws' h; simp only [rpnRun, Except.ok.injEq] at h; subst h; rfl
  | cons top rest ih =>
    intro ws ws' h
    obtain ⟨hpar, q, hq1, hq2⟩ := hpend top (by simp)
    simp only [rpnRun] at h
    cases ha : applyNode look ws top with
    | error e => simp [ha] at h
    | ok ws1 =>
      simp only [ha] at h
      have hqp : q ≤ p := by omega
      rw [List.cons_append]
      conv => lhs; unfold fpop
      simp only [hpar, Bool.false_eq_true, ↓reduceIte, hq1, hqp, ha]
      exact ih (fun n hn => hpend n (List.mem_cons_of_mem _ hn)) ws1 ws' h

theorem fpopParen_pending (look : String → Look) (prec : PrecTable) (ℓ : Nat)
    (pending stack : List ENode) (hpend : Pending prec ℓ pending) :
    ∀ (ws ws' : List Int), rpnRun look ws pending = .ok ws' →
      fpopParen look ws (pending ++ .lparen :: stack) = .ok (ws', stack) := by
  induction pending with
  | nil =>
    intro ws ws' h; simp only [rpnRun, Except.ok.injEq] at h; subst h
    simp [fpopParen, ENode.text]
  | cons top rest ih =>
    intro ws ws' h
    obtain ⟨hpar, _⟩ := hpend top (by simp)
    simp only [rpnRun] at h
    cases ha : applyNode look ws top with
    | error e => simp [ha] at h
    | ok ws1 =>
      simp only [ha] at h
      rw [List.cons_append]
      conv => lhs; unfold fpopParen
      simp only [hpar, Bool.false_eq_true, ↓reduceIte, ha]
      exact ih (fun n hn => hpend n (List.mem_cons_of_mem _ hn)) ws1 ws' h

theorem Pending.mono {prec : PrecTable} {a b : Nat} (h : a ≤ b) {l : List ENode} (hp : Pending prec a l) :
    Pending prec b l := fun n hn => by
  obtain ⟨h1, q, h2, h3⟩ := hp n hn
  exact ⟨h1, q, h2, by omega⟩

/-- Running the fused machine over the printout of a well-formed tree with value `v` leaves the
    machine with `v` computable from its value stack by applying the (not yet applied) operators of
    the tree's right spine, all of which rank at most the tree's level. -/
theorem frun_print {prec : PrecTable} (hp : PrecOK prec) (env : String → Option Int) (e : Expr)
    (wf : mWF hp.P e) (v : Int) (hv : eval env e = some v) (vs : List Int) (stack : List ENode)
    (htop : topOk prec (inner hp.P e) stack) :
    ∃ ws pending, frun (lookOf env) prec (vs, stack) (printNodes e) = .ok (ws, pending ++ stack) ∧
      Pending prec (mlevel hp.P e) pending ∧ rpnRun (lookOf env) ws pending = .ok (v :: vs) := by
  induction e generalizing v vs stack with
  | num l =>
    simp only [eval, Option.some.injEq] at hv
    refine ⟨v :: vs, [], ?_, fun _ h => by simp at h, by simp [rpnRun]⟩
    simp [printNodes, frun, fstep, applyNode, evalNumber_render l wf, hv]
  | var x =>
    simp only [eval] at hv
    refine ⟨v :: vs, [], ?_, fun _ h => by simp at h, by simp [rpnRun]⟩
    simp [printNodes, frun, fstep, applyNode, lookOf, hv]
  | paren e ih =>
    simp only [eval] at hv
    obtain ⟨ws, pending, h1, h2, h3⟩ := ih wf v hv vs (.lparen :: stack) (Or.inl rfl)
    refine ⟨v :: vs, [], ?_, fun _ h => by simp at h, by simp [rpnRun]⟩
    have hclose := fpopParen_pending (lookOf env) prec _ pending stack h2 ws (v :: vs) h3
    simp only [printNodes, List.cons_append, frun, fstep]
    rw [frun_append, h1]
    simp [frun, fstep, hclose]
  | un o e ih =>
    obtain ⟨hw1, hw2⟩ := wf
    simp only [eval] at hv
    cases hve : eval env e with
    | none => simp [hve] at hv
    | some a =>
      simp only [hve, Option.bind_some] at hv
      have htop' : topOk prec (inner hp.P e) (.unop o.sym :: stack) := by
        refine Or.inr ⟨2, rfl, ?_⟩
        cases e with
        | bin o' _ _ => simp only [mlevel] at hw2; have := hp.gt2 o'; omega
        | _ => simp [inner]
      obtain ⟨ws, pending, h1, h2, h3⟩ := ih hw1 a hve vs (.unop o.sym :: stack) htop'
      refine ⟨ws, pending ++ [.unop o.sym], ?_, ?_, ?_⟩
      · simp only [printNodes, frun, fstep]
        rw [h1]; simp
      · intro n hn
        rcases List.mem_append.mp hn with hn | hn
        · exact (Pending.mono hw2 h2) n hn
        · simp only [List.mem_singleton] at hn; subst hn
          exact ⟨usym_ne_paren o, 2, rfl, by simp [mlevel]⟩
      · rw [rpnRun_append, h3]
        simp [rpnRun, applyNode_unop (lookOf env) o a v vs hv]
  | bin o l r ihl ihr =>
    obtain ⟨hwl, hwr, hll, hrl⟩ := wf
    simp only [eval] at hv
    cases hvl : eval env l with
    | none => simp [hvl] at hv
    | some a =>
      cases hvr : eval env r with
      | none => simp [hvl, hvr] at hv
      | some b =>
        simp only [hvl, hvr, Option.bind_some] at hv
        simp only [inner] at htop
        obtain ⟨ws1, pend1, h1, h2, h3⟩ := ihl hwl a hvl vs stack
          (topOk_mono (by have := inner_le_mlevel hp.P l; omega) stack htop)
        -- the incoming operator pops all of the left operand's pending operators and nothing else
        have hpop : fpop (lookOf env) prec (hp.P o) ws1 (pend1 ++ stack) = .ok (a :: vs, stack) := by
          rw [fpop_pending (lookOf env) prec (hp.P o) _ hll pend1 stack h2 ws1 (a :: vs) h3]
          exact fpop_stable _ _ _ _ _ htop
        have htop2 : topOk prec (inner hp.P r) (.binop o.sym :: stack) := by
          refine Or.inr ⟨hp.P o, ?_, ?_⟩
          · simp [stackPrec, ENode.text, hp.hP o]
          · have := inner_le_mlevel hp.P r; omega
        obtain ⟨ws2, pend2, h4, h5, h6⟩ := ihr hwr b hvr (a :: vs) (.binop o.sym :: stack) htop2
        refine ⟨ws2, pend2 ++ [.binop o.sym], ?_, ?_, ?_⟩
        · simp only [printNodes]
          rw [frun_append, h1]
          simp only [frun, fstep, hp.hP o, hpop]
          rw [h4]; simp
        · intro n hn
          rcases List.mem_append.mp hn with hn | hn
          · exact (Pending.mono (Nat.le_of_lt hrl) h5) n hn
          · simp only [List.mem_singleton] at hn; subst hn
            exact ⟨bsym_ne_paren o, hp.P o, by simp [stackPrec, ENode.text, hp.hP o], by simp [mlevel]⟩
        · rw [rpnRun_append, h6]
          simp [rpnRun, applyNode_binop (lookOf env) o a b v vs hv]

/-- a well-formed tree with value `v`: `eval_expression` on its printout returns `v` -/
theorem evalTokens_print {prec : PrecTable} (hp : PrecOK prec) (env : String → Option Int) (e : Expr)
    (wf : e.WF) (v : Int) (hv : eval env e = some v) :
    evalTokens prec (lookOf env) (printNodes e) = .ok v := by
  obtain ⟨ws, pending, h1, _, h3⟩ := frun_print hp env e (mWF_of_WF hp e wf) v hv [] [] trivial
  rw [List.append_nil] at h1
  exact fuse (lookOf env) prec (printNodes e) ws pending v [] h1 h3

end A816
