import A816.Proofs.ScanPos
import A816.Proofs.ScanLocal
/-!
# Scanning a text that ends with a newline does not depend on what follows it (helper lemmas for C16)

`ext r a` is the scanner state `a` over the text extended by `r`.  For a text `p` that ends with a newline
(`Ends p`), every scanner primitive and every state function started at or before that final newline (`X`) and
returning normally over `p` returns the extension of the same state over `p ++ r`: no decision is taken on a character
beyond the newline.  (Look-ahead does read beyond it — `peek(1)`, `peek(3)`, two-character prefixes — but only when the
character at `pos` is the newline itself, which already decides the test.)
-/
namespace A816.ScanX
open A816 Scan ScanB ScanT ScanP ScanS

/-- the same scanner state over the text extended by `r` -/
def ext (r : List Char) (a : Scan) : Scan := { a with input := (a.input.toList ++ r).toArray }

/-- `p` ends with a newline -/
def Ends (p : Array Char) : Prop := 0 < p.size ∧ p[p.size - 1]? = some '\n'

variable {p : Array Char} {r : List Char}

@[simp] theorem ext_pos (a : Scan) : (ext r a).pos = a.pos := rfl
@[simp] theorem ext_start (a : Scan) : (ext r a).start = a.start := rfl
@[simp] theorem ext_toks (a : Scan) : (ext r a).toks = a.toks := rfl
@[simp] theorem ext_toList (a : Scan) : (ext r a).input.toList = a.input.toList ++ r := by simp [ext]
@[simp] theorem ext_size (a : Scan) : (ext r a).input.size = a.input.size + r.length := by simp [ext]

theorem ext_getD (a : Scan) (i : Nat) (h : i < a.input.size) (d : Char) :
    (ext r a).input.getD i d = a.input.getD i d := by
  rw [Array.getD_eq_getD_getElem?, Array.getD_eq_getD_getElem?]
  congr 1
  rw [← Array.getElem?_toList, ← Array.getElem?_toList, ext_toList, List.getElem?_append_left (by simpa using h)]

theorem ext_peek (a : Scan) (k : Nat) (h : a.pos + k < a.input.size) : (ext r a).peek k = a.peek k := by
  unfold Scan.peek
  exact ext_getD a _ h _

theorem ext_slice (a : Scan) (b e : Nat) (h : e ≤ a.input.size) : (ext r a).slice b e = a.slice b e := by
  unfold Scan.slice
  rw [ext_toList]
  congr 1
  by_cases hb : b ≤ a.input.toList.length
  · rw [List.drop_append_of_le_length hb, List.take_append_of_le_length]
    rw [List.length_drop]; simp only [Array.length_toList]; omega
  · have : e - b = 0 := by simp only [Array.length_toList] at hb; omega
    rw [this]; simp

theorem ext_handleLine (a : Scan) (h : a.pos ≤ a.input.size) : (ext r a).handleLine = ext r a.handleLine := by
  have hs := ext_slice (r := r) a a.lineOffset a.pos h
  obtain ⟨inp, pos, st, lo, cl, lines, toks, file⟩ := a
  simp only [Scan.handleLine, ext] at hs ⊢
  split
  · rename_i hc
    simp only [Scan.slice] at hs ⊢
    simp only [hc, ↓reduceIte, hs]
  · rename_i hc
    simp only [hc, ↓reduceIte]

theorem next_lt (a : Scan) (h : a.pos < a.input.size) :
    a.next = ({ (if a.input[a.pos] = '\n' then a.handleLine else a) with pos := (if a.input[a.pos] = '\n' then a.handleLine else a).pos + 1 }, some a.input[a.pos]) := by
  unfold Scan.next
  rw [dif_pos h]

theorem ext_next (a : Scan) (h : a.pos < a.input.size) :
    ((ext r a).next).1 = ext r (a.next).1 ∧ ((ext r a).next).2 = (a.next).2 := by
  have hb : (ext r a).pos < (ext r a).input.size := by simp; omega
  have hc : (ext r a).input[(ext r a).pos]'hb = a.input[a.pos] := by
    have := ext_getD (r := r) a a.pos h 'x'
    rw [Array.getD_eq_getD_getElem?, Array.getD_eq_getD_getElem?, Array.getElem?_eq_getElem h,
      Array.getElem?_eq_getElem (by simp; omega)] at this
    simpa using this
  rw [next_lt _ hb, next_lt _ h, hc]
  by_cases hn : a.input[a.pos] = '\n'
  · simp only [hn, ↓reduceIte]
    rw [ext_handleLine a (by omega)]
    exact ⟨rfl, trivial⟩
  · simp only [hn, ↓reduceIte]
    exact ⟨rfl, trivial⟩

theorem ext_accept (a : Scan) (h : a.pos < a.input.size) (cands : List Char) (negate : Bool) :
    ((ext r a).accept cands negate).1 = ext r (a.accept cands negate).1 ∧
    ((ext r a).accept cands negate).2 = (a.accept cands negate).2 := by
  have hp : (ext r a).peek = a.peek := ext_peek a 0 (by omega)
  have ht : (ext r a).acceptTest cands negate = a.acceptTest cands negate := by
    unfold Scan.acceptTest; rw [hp]
  unfold Scan.accept
  rw [ht]
  by_cases hc : a.acceptTest cands negate = true
  · rw [if_pos hc, if_pos hc]; exact ⟨(ext_next a h).1, rfl⟩
  · rw [if_neg hc, if_neg hc]; exact ⟨rfl, rfl⟩

theorem ext_emit (a : Scan) (h : a.pos ≤ a.input.size) (ty : TokTy) : (ext r a).emit ty = ext r (a.emit ty) := by
  unfold Scan.emit Scan.tokenText
  have := ext_slice (r := r) a a.start a.pos h
  show ({ ext r a with toks := (ext r a).toks.push ⟨ty, (ext r a).slice a.start a.pos, _, _, _, true⟩, start := a.pos } : Scan) = _
  rw [this]
  rfl

theorem ext_ignore (a : Scan) : (ext r a).ignore = ext r a.ignore := rfl
theorem ext_backup (a : Scan) : (ext r a).backup = ext r a.backup := rfl
theorem ext_err (a : Scan) (msg : String) : (ext r a).err msg = a.err msg := rfl

/-! ## `accept_run` over the extended text -/

theorem acceptRunAux_le (cands : List Char) (negate : Bool) : ∀ (k : Nat) (a u : Scan),
    Scan.acceptRunAux cands negate k a = some u → a.pos ≤ u.pos ∧ u.input = a.input := by
  intro k
  induction k with
  | zero =>
    intro a u h
    unfold Scan.acceptRunAux at h
    split at h
    · cases h
    · cases h; exact ⟨Nat.le_refl _, rfl⟩
  | succ k ih =>
    intro a u h
    unfold Scan.acceptRunAux at h
    simp only at h
    split at h
    · obtain ⟨h1, h2⟩ := ih _ _ h
      have := accept_step a cands negate
      exact ⟨Nat.le_trans this.2.2 h1, by rw [h2, this.1]⟩
    · cases h; exact ⟨Nat.le_refl _, rfl⟩

theorem acceptRunAux_mono (cands : List Char) (negate : Bool) : ∀ (k : Nat) (a u : Scan),
    Scan.acceptRunAux cands negate k a = some u → ∀ j, Scan.acceptRunAux cands negate (k + j) a = some u := by
  intro k
  induction k with
  | zero =>
    intro a u h j
    unfold Scan.acceptRunAux at h
    by_cases hc : (a.accept cands negate).2 = true
    · rw [if_pos hc] at h; cases h
    · rw [if_neg hc] at h; cases h
      cases j with
      | zero => unfold Scan.acceptRunAux; rw [if_neg hc]
      | succ j =>
        rw [Nat.zero_add]
        unfold Scan.acceptRunAux
        simp only []
        rw [if_neg hc]
  | succ k ih =>
    intro a u h j
    unfold Scan.acceptRunAux at h
    simp only at h
    have : k + 1 + j = (k + j) + 1 := by omega
    rw [this]
    unfold Scan.acceptRunAux
    simp only []
    by_cases hc : (a.accept cands negate).2 = true
    · rw [if_pos hc] at h ⊢; exact ih _ _ h j
    · rw [if_neg hc] at h ⊢; exact h

theorem ext_acceptRunAux (cands : List Char) (negate : Bool) : ∀ (k : Nat) (a u : Scan),
    Scan.acceptRunAux cands negate k a = some u → u.pos < a.input.size →
    Scan.acceptRunAux cands negate k (ext r a) = some (ext r u) := by
  intro k
  induction k with
  | zero =>
    intro a u h hu
    unfold Scan.acceptRunAux at h ⊢
    by_cases hc : (a.accept cands negate).2 = true
    · rw [if_pos hc] at h; cases h
    · rw [if_neg hc] at h; cases h
      rw [(ext_accept a hu cands negate).2, if_neg hc]
  | succ k ih =>
    intro a u h hu
    unfold Scan.acceptRunAux at h ⊢
    simp only at h ⊢
    by_cases hc : (a.accept cands negate).2 = true
    · rw [if_pos hc] at h
      obtain ⟨h1, h2⟩ := acceptRunAux_le cands negate _ _ _ h
      have hst := accept_step a cands negate
      have ha : a.pos < a.input.size := by have := hst.2.2; omega
      rw [(ext_accept a ha cands negate).2, if_pos hc, (ext_accept a ha cands negate).1]
      exact ih _ _ h (by rw [hst.1]; exact hu)
    · rw [if_neg hc] at h; cases h
      rw [(ext_accept a hu cands negate).2, if_neg hc]

theorem ext_acceptRun (a u : Scan) (cands : List Char) (negate : Bool) (h : a.acceptRun cands negate = .ok u)
    (hu : u.pos < a.input.size) : (ext r a).acceptRun cands negate = .ok (ext r u) := by
  unfold Scan.acceptRun at h ⊢
  cases hx : Scan.acceptRunAux cands negate (a.input.size - a.pos + 1) a with
  | none => rw [hx] at h; cases h
  | some u' =>
    rw [hx] at h
    simp only [Except.ok.injEq] at h
    subst h
    obtain ⟨h1, _⟩ := acceptRunAux_le cands negate _ _ _ hx
    have hf : (ext r a).input.size - (ext r a).pos + 1 = (a.input.size - a.pos + 1) + r.length := by
      simp only [ext_size, ext_pos]; omega
    rw [hf, ext_acceptRunAux cands negate _ a u' (acceptRunAux_mono cands negate _ a u' hx r.length) hu]


/-! ## the relation -/

/-- `b` is `a` over the extended text, and `a` is a state over `p` at or before the final newline of `p` -/
structure X (p : Array Char) (r : List Char) (a b : Scan) : Prop where
  eb : b = ext r a
  input : a.input = p
  lt : a.pos < p.size

/-- the same, but `a` may stand right after the final newline -/
structure XL (p : Array Char) (r : List Char) (a b : Scan) : Prop where
  eb : b = ext r a
  input : a.input = p
  le : a.pos ≤ p.size

theorem X.toL {a b : Scan} (h : X p r a b) : XL p r a b := ⟨h.eb, h.input, Nat.le_of_lt h.lt⟩

/-- whenever the run over `p` returns, the run over the extended text returns the extension -/
def XR (p : Array Char) (r : List Char) (ra rb : SR) : Prop := ∀ a', ra = .ok a' → ∃ b', rb = .ok b' ∧ X p r a' b'
def XRL (p : Array Char) (r : List Char) (ra rb : SR) : Prop := ∀ a', ra = .ok a' → ∃ b', rb = .ok b' ∧ XL p r a' b'

theorem XR.toL {ra rb : SR} (h : XR p r ra rb) : XRL p r ra rb := by
  intro a' ha; obtain ⟨b', hb, hx⟩ := h a' ha; exact ⟨b', hb, hx.toL⟩

theorem XR.pure {a b : Scan} (h : X p r a b) : XR p r (pure a) (pure b) := by
  intro a' ha; cases ha; exact ⟨b, rfl, h⟩
theorem XRL.pure {a b : Scan} (h : XL p r a b) : XRL p r (pure a) (pure b) := by
  intro a' ha; cases ha; exact ⟨b, rfl, h⟩

theorem XR.bind {ra rb : SR} {f g : Scan → SR} (h : XR p r ra rb)
    (hf : ∀ a b, X p r a b → XR p r (f a) (g b)) : XR p r (ra >>= f) (rb >>= g) := by
  intro a' ha
  cases ra with
  | error e => cases ha
  | ok a1 =>
    obtain ⟨b1, hb1, hx⟩ := h a1 rfl
    rw [hb1]
    exact hf a1 b1 hx a' ha

theorem XR.bindL {ra rb : SR} {f g : Scan → SR} (h : XR p r ra rb)
    (hf : ∀ a b, X p r a b → XRL p r (f a) (g b)) : XRL p r (ra >>= f) (rb >>= g) := by
  intro a' ha
  cases ra with
  | error e => cases ha
  | ok a1 =>
    obtain ⟨b1, hb1, hx⟩ := h a1 rfl
    rw [hb1]
    exact hf a1 b1 hx a' ha

theorem XRL.bindL {ra rb : SR} {f g : Scan → SR} (h : XRL p r ra rb)
    (hf : ∀ a b, XL p r a b → XRL p r (f a) (g b)) : XRL p r (ra >>= f) (rb >>= g) := by
  intro a' ha
  cases ra with
  | error e => cases ha
  | ok a1 =>
    obtain ⟨b1, hb1, hx⟩ := h a1 rfl
    rw [hb1]
    exact hf a1 b1 hx a' ha

theorem XR.err {e : Err × Scan} {rb : SR} : XR p r (.error e) rb := by intro a' ha; cases ha
theorem XRL.err {e : Err × Scan} {rb : SR} : XRL p r (.error e) rb := by intro a' ha; cases ha

/-- a move that consumes no newline stays at or before the final newline -/
theorem X.step {a b a' : Scan} (h : X p r a b) (he : Ends p) (st : Step a a') : X p r a' (ext r a') := by
  refine ⟨rfl, by rw [st.input, h.input], ?_⟩
  by_cases hlt : a'.pos < p.size
  · exact hlt
  · exfalso
    have hn := st.nonl (p.size - 1) (by have := h.lt; omega) (by have := he.1; omega)
    rw [h.input] at hn
    exact hn he.2

theorem X.sz {a b : Scan} (h : X p r a b) : a.pos < a.input.size := by rw [h.input]; exact h.lt

theorem X.peek {a b : Scan} (h : X p r a b) : b.peek = a.peek := by
  rw [h.eb]; exact ext_peek a 0 (by have := h.sz; omega)

theorem X.peekk {a b : Scan} (h : X p r a b) (k : Nat) (hk : a.pos + k < p.size) : b.peek k = a.peek k := by
  rw [h.eb]; exact ext_peek a k (by rw [h.input]; exact hk)

/-- at the final newline `peek()` is the newline -/
theorem X.peek_last {a b : Scan} (h : X p r a b) (he : Ends p) (hl : ¬ a.pos + 1 < p.size) : a.peek = '\n' := by
  have hpos : a.pos = p.size - 1 := by have := h.lt; omega
  have := peek_eq a h.sz
  rw [h.input, hpos, he.2] at this
  exact (Option.some.inj this).symm

theorem X.next {a b : Scan} (h : X p r a b) (he : Ends p) (hp : a.peek ≠ '\n') :
    X p r (a.next).1 (b.next).1 ∧ (b.next).2 = (a.next).2 := by
  have e := ext_next (r := r) a h.sz
  rw [h.eb, e.1, e.2]
  exact ⟨h.step he (step_next a hp), rfl⟩

theorem X.nextL {a b : Scan} (h : X p r a b) : XL p r (a.next).1 (b.next).1 ∧ (b.next).2 = (a.next).2 := by
  have e := ext_next (r := r) a h.sz
  rw [h.eb, e.1, e.2]
  refine ⟨⟨rfl, by rw [next_input, h.input], ?_⟩, rfl⟩
  rw [next_pos_lt a h.sz]; have := h.lt; omega

theorem X.accept {a b : Scan} (h : X p r a b) (he : Ends p) (cands : List Char) (negate : Bool)
    (hc : if negate then cands.contains '\n' = true else cands.contains '\n' = false) :
    X p r (a.accept cands negate).1 (b.accept cands negate).1 ∧ (b.accept cands negate).2 = (a.accept cands negate).2 := by
  have e := ext_accept (r := r) a h.sz cands negate
  rw [h.eb, e.1, e.2]
  exact ⟨h.step he (step_accept a cands negate (acceptTest_nonl a cands negate hc)), rfl⟩

theorem X.acceptRun {a b : Scan} (h : X p r a b) (he : Ends p) (cands : List Char) (negate : Bool)
    (hc : if negate then cands.contains '\n' = true else cands.contains '\n' = false) :
    XR p r (a.acceptRun cands negate) (b.acceptRun cands negate) := by
  intro u hu
  have hx := h.step he (step_acceptRun a u cands negate hc hu)
  refine ⟨ext r u, ?_, hx⟩
  rw [h.eb]
  exact ext_acceptRun a u cands negate hu (by rw [h.input]; exact hx.lt)

theorem X.ignore {a b : Scan} (h : X p r a b) : X p r a.ignore b.ignore := ⟨by rw [h.eb]; rfl, h.input, h.lt⟩

theorem X.ignoreRun {a b : Scan} (h : X p r a b) (he : Ends p) (cands : List Char) (hc : cands.contains '\n' = false) :
    XR p r (a.ignoreRun cands) (b.ignoreRun cands) := by
  unfold Scan.ignoreRun
  intro u hu
  cases hr : a.acceptRun cands with
  | error e => rw [hr] at hu; cases hu
  | ok u1 =>
    rw [hr] at hu
    simp only [Except.ok.injEq] at hu
    obtain ⟨b1, hb1, hx⟩ := h.acceptRun he cands false (by simpa using hc) u1 hr
    rw [hb1]
    subst hu
    exact ⟨b1.ignore, rfl, hx.ignore⟩

theorem X.emit {a b : Scan} (h : X p r a b) (ty : TokTy) : X p r (a.emit ty) (b.emit ty) :=
  ⟨by rw [h.eb]; exact ext_emit a (by have := h.sz; omega) ty, h.input, h.lt⟩

theorem XL.emit {a b : Scan} (h : XL p r a b) (ty : TokTy) : XL p r (a.emit ty) (b.emit ty) :=
  ⟨by rw [h.eb]; exact ext_emit a (by rw [h.input]; exact h.le) ty, h.input, h.le⟩

theorem X.backup {a b : Scan} (h : X p r a b) : X p r a.backup b.backup :=
  ⟨by rw [h.eb]; rfl, h.input, by show a.pos - 1 < p.size; have := h.lt; omega⟩

theorem X.setPos {a b : Scan} (h : X p r a b) (q : Nat) (hq : q < p.size) : X p r { a with pos := q } { b with pos := q } :=
  ⟨by rw [h.eb]; rfl, h.input, hq⟩

theorem X.err {a b : Scan} (h : X p r a b) (msg : String) : b.err msg = a.err msg := by rw [h.eb]; rfl

theorem X.slice {a b : Scan} (h : X p r a b) (s e : Nat) (he : e ≤ p.size) : b.slice s e = a.slice s e := by
  rw [h.eb]; exact ext_slice a s e (by rw [h.input]; exact he)

theorem X.tokenText {a b : Scan} (h : X p r a b) : b.tokenText = a.tokenText := by
  unfold Scan.tokenText
  have : b.start = a.start ∧ b.pos = a.pos := by rw [h.eb]; exact ⟨rfl, rfl⟩
  rw [this.1, this.2]
  exact h.slice _ _ (Nat.le_of_lt h.lt)


theorem X.acceptPrefix {a b : Scan} (h : X p r a b) (he : Ends p) (pre : List Char) (hp : pre.contains '\n' = false) :
    X p r (a.acceptPrefix pre).1 (b.acceptPrefix pre).1 ∧ (b.acceptPrefix pre).2 = (a.acceptPrefix pre).2 := by
  have hstep := step_acceptPrefix a pre hp
  have hsz : a.input.size = p.size := by rw [h.input]
  have hl : a.input.toList.length = p.size := by simp [hsz]
  have key : ((b.input.toList.drop b.pos).take pre.length = pre ∧ b.pos + pre.length ≤ b.input.size) ↔
      ((a.input.toList.drop a.pos).take pre.length = pre ∧ a.pos + pre.length ≤ a.input.size) := by
    rw [h.eb]
    simp only [ext_toList, ext_pos, ext_size]
    by_cases hb : a.pos + pre.length ≤ a.input.size
    · rw [List.drop_append_of_le_length (by have := h.lt; omega), List.take_append_of_le_length (by rw [List.length_drop]; omega)]
      constructor
      · intro hx; exact ⟨hx.1, hb⟩
      · intro hx; exact ⟨hx.1, by omega⟩
    · constructor
      · intro hx
        exfalso
        have hget : (a.input.toList ++ r)[p.size - 1]? = some '\n' := by
          rw [List.getElem?_append_left (by have := he.1; omega), Array.getElem?_toList, h.input]; exact he.2
        have hm := take_drop_getElem (a.input.toList ++ r) a.pos pre.length (p.size - 1) (by have := h.lt; omega)
          (by have := he.1; omega) '\n' hget
        rw [hx.1] at hm
        have : pre.contains '\n' = true := by simpa using hm
        rw [hp] at this; cases this
      · intro hx; exact absurd hx.2 hb
  unfold Scan.acceptPrefix at hstep ⊢
  by_cases hc : (a.input.toList.drop a.pos).take pre.length = pre ∧ a.pos + pre.length ≤ a.input.size
  · rw [if_pos hc] at hstep
    rw [if_pos hc, if_pos (key.mpr hc)]
    refine ⟨?_, rfl⟩
    have := h.step he hstep
    refine ⟨?_, this.input, this.lt⟩
    rw [h.eb]; rfl
  · rw [if_neg hc, if_neg (fun x => hc (key.mp x))]
    exact ⟨h, rfl⟩


/-! ## state functions -/

theorem X.cond1 {a b : Scan} (h : X p r a b) (he : Ends p) (c : Char) (hc : c ≠ '\n') (f : Char → Bool) :
    (b.peek == c && f (b.peek 1)) = (a.peek == c && f (a.peek 1)) := by
  rw [h.peek]
  by_cases hl : a.pos + 1 < p.size
  · rw [h.peekk 1 hl]
  · have hn := h.peek_last he hl
    have : (a.peek == c) = false := by rw [hn]; simpa using hc.symm
    rw [this]; simp

theorem x_lexIdentifier {a b : Scan} (h : X p r a b) (he : Ends p) : XR p r (lexIdentifier a) (lexIdentifier b) := by
  unfold lexIdentifier
  simp only []
  apply XR.bind (h.acceptRun he identChars false (by decide))
  intro a1 b1 h1
  rw [h1.cond1 he ':' (by decide) (fun c => c != '=')]
  by_cases hc : (a1.peek == ':' && a1.peek 1 != '=') = true
  · rw [if_pos hc, if_pos hc]
    have hp : (a1.emit .LABEL).peek ≠ '\n' := by
      show a1.peek ≠ '\n'
      intro hx; rw [hx] at hc; simp at hc
    exact XR.pure ((h1.emit .LABEL).next he hp).1.ignore
  · rw [if_neg hc, if_neg hc, h1.peek]
    by_cases hd : (a1.peek == '.') = true
    · rw [if_pos hd, if_pos hd]
      have hp : a1.peek ≠ '\n' := by intro hx; rw [hx] at hd; simp at hd
      apply XR.bind ((h1.next he hp).1.acceptRun he identChars false (by decide))
      intro a2 b2 h2; exact XR.pure (h2.emit _)
    · rw [if_neg hd, if_neg hd]; exact XR.pure (h1.emit _)


theorem x_lexNumber {a b : Scan} (h : X p r a b) (he : Ends p) (hpk : a.backup.peek ≠ '\n') :
    XR p r (lexNumber a) (lexNumber b) := by
  unfold lexNumber
  simp only []
  have h0 := h.backup.next he hpk
  rw [h0.2, h0.1.peek]
  by_cases hc : ((a.backup.next).1.peek == '\n' || (a.backup.next).1.peek == '\x00') = true
  · rw [if_pos hc, if_pos hc]; exact XR.pure (h0.1.emit _)
  · rw [if_neg hc, if_neg hc]
    have hp : (a.backup.next).1.peek ≠ '\n' := by intro hx; apply hc; simp [hx]
    by_cases hz : ((a.backup.next).2 == some '0') = true
    · rw [if_pos hz, if_pos hz]
      have h1 := h0.1.next he hp
      rw [h1.2]
      by_cases hb : (((a.backup.next).1.next).2 == some 'b') = true
      · rw [if_pos hb, if_pos hb]
        apply XR.bind (h1.1.acceptRun he _ false (by decide)); intro a2 b2 h2; exact XR.pure (h2.emit _)
      · rw [if_neg hb, if_neg hb]
        by_cases ho : (((a.backup.next).1.next).2 == some 'o') = true
        · rw [if_pos ho, if_pos ho]
          apply XR.bind (h1.1.acceptRun he _ false (by decide)); intro a2 b2 h2; exact XR.pure (h2.emit _)
        · rw [if_neg ho, if_neg ho]
          by_cases hx : (((a.backup.next).1.next).2 == some 'x') = true
          · rw [if_pos hx, if_pos hx]
            apply XR.bind (h1.1.acceptRun he _ false (by decide)); intro a2 b2 h2; exact XR.pure (h2.emit _)
          · rw [if_neg hx, if_neg hx]
            exact XR.pure (h1.1.backup.emit _)
    · rw [if_neg hz, if_neg hz]
      apply XR.bind (h0.1.acceptRun he _ false (by decide)); intro a2 b2 h2; exact XR.pure (h2.emit _)

/-- the character given back by `backup` after a successful `accept` is the accepted one -/
theorem accept_backup_peek (s : Scan) (cands : List Char) (h0 : cands.contains '\x00' = false)
    (ha : (s.accept cands).2 = true) : (s.accept cands).1.backup.peek = s.peek ∧ cands.contains s.peek = true := by
  obtain ⟨_, hp, hi⟩ := accept_backup_le s cands h0 ha
  refine ⟨?_, by rw [← accept_snd]; exact ha⟩
  unfold Scan.peek
  rw [hp, hi]

theorem x_quotedLoop (he : Ends p) (e1 e2 : Err) : ∀ (n : Nat) (a b : Scan) (c : Option Char), a.input = p →
    b = ext r a → (c ≠ some '\n' → c ≠ none → a.pos < p.size) → ∀ n', n ≤ n' →
    XR p r (quotedLoop e1 n a c) (quotedLoop e2 n' b c) := by
  intro n
  induction n with
  | zero => intro a b c _ _ _ n' _; unfold quotedLoop; exact XR.err
  | succ n ih =>
    intro a b c hin hb hlt n' hn
    obtain ⟨n'', rfl⟩ : ∃ k, n' = k + 1 := ⟨n' - 1, by omega⟩
    unfold quotedLoop
    by_cases h1 : (c == some '\'') = true
    · rw [if_pos h1, if_pos h1]
      have hc1 : c ≠ some '\n' := by intro hx; rw [hx] at h1; simp at h1
      have hc2 : c ≠ none := by intro hx; rw [hx] at h1; simp at h1
      intro a' ha; cases ha
      exact ⟨b, rfl, ⟨hb, hin, hlt hc1 hc2⟩⟩
    · rw [if_neg h1, if_neg h1]
      by_cases h2 : (c == some '\n' || c == none) = true
      · rw [if_pos h2, if_pos h2]; exact XR.err
      · rw [if_neg h2, if_neg h2]
        have hc1 : c ≠ some '\n' := by intro hx; apply h2; simp [hx]
        have hc2 : c ≠ none := by intro hx; apply h2; simp [hx]
        have hx : X p r a b := ⟨hb, hin, hlt hc1 hc2⟩
        have hs : XL p r (if (c == some '\\' && a.peek == '\'') = true then (a.next).1 else a)
            (if (c == some '\\' && b.peek == '\'') = true then (b.next).1 else b) ∧
            ((¬ (c == some '\\' && a.peek == '\'') = true) ∨ a.pos + 1 < p.size) := by
          rw [hx.peek]
          by_cases hq : (c == some '\\' && a.peek == '\'') = true
          · rw [if_pos hq, if_pos hq]
            have hp : a.peek ≠ '\n' := by intro hy; rw [hy] at hq; simp at hq
            have := (hx.next he hp).1
            refine ⟨this.toL, Or.inr ?_⟩
            have hl := this.lt
            rw [next_pos_lt a hx.sz] at hl; exact hl
          · rw [if_neg hq, if_neg hq]; exact ⟨hx.toL, Or.inl hq⟩
        -- the state before the second `next` is at or before the final newline
        have hin2 : X p r (if (c == some '\\' && a.peek == '\'') = true then (a.next).1 else a)
            (if (c == some '\\' && b.peek == '\'') = true then (b.next).1 else b) := by
          refine ⟨hs.1.eb, hs.1.input, ?_⟩
          rcases hs.2 with hq | hq
          · rw [if_neg hq]; exact hx.lt
          · by_cases hq2 : (c == some '\\' && a.peek == '\'') = true
            · rw [if_pos hq2, next_pos_lt a hx.sz]; exact hq
            · rw [if_neg hq2]; exact hx.lt
        have hn := hin2.nextL
        rw [hn.2]
        refine ih _ _ _ hn.1.input hn.1.eb ?_ n'' (by omega)
        intro hcn _
        -- the character just consumed is not the newline: the new position is still before it
        generalize (if (c == some '\\' && a.peek == '\'') = true then (a.next).1 else a) = t at hin2 hn hcn ⊢
        have hpk : t.peek ≠ '\n' := by
          intro hy
          apply hcn
          rw [(next_fields t).2.2.2.2, if_pos hin2.sz, hy]
        exact ((X.next (b := ext r t) ⟨rfl, hin2.input, hin2.lt⟩ he hpk).1).lt


theorem x_lexQuotedString {a b : Scan} (h : X p r a b) (he : Ends p) : XR p r (lexQuotedString a) (lexQuotedString b) := by
  unfold lexQuotedString
  simp only []
  have hn := h.nextL
  rw [hn.2]
  have hfuel : a.input.size - a.pos + 2 ≤ b.input.size - b.pos + 2 := by
    rw [h.eb]; simp only [ext_size, ext_pos]; omega
  apply XR.bind (x_quotedLoop he _ _ _ _ _ _ hn.1.input hn.1.eb ?_ _ hfuel)
  · intro a2 b2 h2; exact XR.pure (h2.emit _)
  · intro hc _
    have hpk : a.peek ≠ '\n' := by
      intro hy; apply hc
      rw [(next_fields a).2.2.2.2, if_pos h.sz, hy]
    exact (h.next he hpk).1.lt

theorem x_lineCommentLoop (he : Ends p) : ∀ (n : Nat) (a b : Scan), X p r a b → ∀ n', n ≤ n' →
    XRL p r (lineCommentLoop n a) (lineCommentLoop n' b) := by
  intro n
  induction n with
  | zero => intro a b _ n' _; unfold lineCommentLoop; exact XRL.err
  | succ n ih =>
    intro a b h n' hn
    obtain ⟨n'', rfl⟩ : ∃ k, n' = k + 1 := ⟨n' - 1, by omega⟩
    unfold lineCommentLoop
    have hx := h.nextL
    rw [hx.2]
    by_cases hc : ((a.next).2 == some '\n' || (a.next).2 == none) = true
    · rw [if_pos hc, if_pos hc]
      intro a' ha; cases ha; exact ⟨_, rfl, hx.1⟩
    · rw [if_neg hc, if_neg hc]
      have hpk : a.peek ≠ '\n' := by
        intro hy; apply hc
        rw [(next_fields a).2.2.2.2, if_pos h.sz, hy]; simp
      exact ih _ _ (h.next he hpk).1 n'' (by omega)

theorem x_blockCommentLoop (he : Ends p) (e1 e2 : Err) : ∀ (n : Nat) (a b : Scan), XL p r a b → ∀ n', n ≤ n' →
    XR p r (blockCommentLoop e1 n a) (blockCommentLoop e2 n' b) := by
  intro n
  induction n with
  | zero => intro a b _ n' _; unfold blockCommentLoop; exact XR.err
  | succ n ih =>
    intro a b h n' hn
    obtain ⟨n'', rfl⟩ : ∃ k, n' = k + 1 := ⟨n' - 1, by omega⟩
    unfold blockCommentLoop
    by_cases hlt : a.pos < p.size
    · have hx : X p r a b := ⟨h.eb, h.input, hlt⟩
      have hp := hx.acceptPrefix he ['*', '/'] (by decide)
      rw [hp.2]
      by_cases hc : (a.acceptPrefix ['*', '/']).2 = true
      · rw [if_pos hc, if_pos hc]
        intro a' ha; cases ha; exact ⟨_, rfl, hp.1⟩
      · rw [if_neg hc, if_neg hc]
        have hnx := hx.nextL
        rw [hnx.2]
        by_cases hn2 : ((a.next).2 == none) = true
        · rw [if_pos hn2, if_pos hn2]; exact XR.err
        · rw [if_neg hn2, if_neg hn2]
          exact ih _ _ hnx.1 n'' (by omega)
    · -- right after the final newline: the run over `p` raises
      have hge : ¬ a.pos < a.input.size := by rw [h.input]; exact hlt
      have h1 : (a.acceptPrefix ['*', '/']).2 = false := by
        have := acceptPrefix_eof a hge ['*', '/'] (by decide)
        simpa using this
      have h2 : (a.next).2 = none := (next_pos_ge a hge).2
      rw [h1, h2]
      simp only [Bool.false_eq_true, ↓reduceIte, beq_self_eq_true]
      exact XR.err

theorem x_lexKeyword (cfg : ScanCfg) {a b : Scan} (h : X p r a b) (he : Ends p) :
    XR p r (lexKeyword cfg a) (lexKeyword cfg b) := by
  unfold lexKeyword
  simp only []
  apply XR.bind (h.ignore.acceptRun he _ false (by decide))
  intro a1 b1 h1
  rw [h1.tokenText]
  by_cases hc : cfg.keywords.contains a1.tokenText = true
  · rw [if_pos hc, if_pos hc]; exact XR.pure (h1.emit _)
  · rw [if_neg hc, if_neg hc]; exact XR.err

theorem x_lexOpcodeIndex {a b : Scan} (h : X p r a b) (he : Ends p) : XR p r (lexOpcodeIndex a) (lexOpcodeIndex b) := by
  unfold lexOpcodeIndex
  simp only []
  apply XR.bind (h.ignore.ignoreRun he _ (by decide))
  intro a1 b1 h1
  have ha := h1.accept he (chars "xXyYsS") false (by decide)
  rw [ha.2]
  by_cases hc : (a1.accept (chars "xXyYsS")).2 = true
  · rw [if_pos hc, if_pos hc]; exact XR.pure (ha.1.emit _)
  · rw [if_neg hc, if_neg hc]; exact XR.err


theorem digit_ne_nl (c : Char) (h : digitChars.contains c = true) : c ≠ '\n' := by
  intro hx; subst hx; revert h; decide

theorem x_lexExpressionLoop (he : Ends p) : ∀ (n : Nat) (a b : Scan), X p r a b → ∀ n', n ≤ n' →
    XR p r (lexExpressionLoop n a) (lexExpressionLoop n' b) := by
  intro n
  induction n with
  | zero =>
    intro a b h n' _
    unfold lexExpressionLoop
    rw [if_pos h.sz]
    cases n' <;> exact XR.err
  | succ n ih =>
    intro a b h n' hn
    obtain ⟨n'', rfl⟩ : ∃ k, n' = k + 1 := ⟨n' - 1, by omega⟩
    unfold lexExpressionLoop
    have hbs : b.pos < b.input.size := by rw [h.eb]; simp only [ext_size, ext_pos]; have := h.sz; omega
    rw [if_pos h.sz, if_pos hbs]
    simp only []
    apply XR.bind (h.ignoreRun he _ (by decide))
    intro a1 b1 h1
    have hd := h1.accept he digitChars false (by decide)
    rw [hd.2]
    by_cases hdc : (a1.accept digitChars).2 = true
    · rw [if_pos hdc, if_pos hdc]
      obtain ⟨q1, q2⟩ := accept_backup_peek a1 digitChars nul_digit hdc
      apply XR.bind (x_lexNumber hd.1 he (by rw [q1]; exact digit_ne_nl _ q2))
      intro a2 b2 h2; exact ih _ _ h2 n'' (by omega)
    · rw [if_neg hdc, if_neg hdc]
      have hl := h1.accept he letterChars false (by decide)
      rw [hl.2]
      by_cases hlc : (a1.accept letterChars).2 = true
      · rw [if_pos hlc, if_pos hlc]
        apply XR.bind (x_lexIdentifier hl.1 he)
        intro a2 b2 h2; exact ih _ _ h2 n'' (by omega)
      · rw [if_neg hlc, if_neg hlc]
        have ho := h1.accept he (chars "+-*/&|~") false (by decide)
        rw [ho.2]
        by_cases h1o : (a1.accept (chars "+-*/&|~")).2 = true
        · rw [if_pos h1o, if_pos h1o]; dsimp only; rw [if_pos rfl, if_pos rfl]
          exact ih _ _ (ho.1.emit _) n'' (by omega)
        · rw [if_neg h1o, if_neg h1o]
          have hp1 := h1.acceptPrefix he (chars "<<") (by decide)
          rw [hp1.2]
          by_cases h2o : (a1.acceptPrefix (chars "<<")).2 = true
          · rw [if_pos h2o, if_pos h2o]; dsimp only; rw [if_pos rfl, if_pos rfl]
            exact ih _ _ (hp1.1.emit _) n'' (by omega)
          · rw [if_neg h2o, if_neg h2o]
            have hp2 := h1.acceptPrefix he (chars ">>") (by decide)
            rw [hp2.2]
            by_cases h3o : (a1.acceptPrefix (chars ">>")).2 = true
            · rw [if_pos h3o, if_pos h3o]
              exact ih _ _ (hp2.1.emit _) n'' (by omega)
            · rw [if_neg h3o, if_neg h3o]
              have hl1 := h1.accept he ['('] false (by decide)
              rw [hl1.2]
              by_cases h4 : (a1.accept ['(']).2 = true
              · rw [if_pos h4, if_pos h4]; exact ih _ _ (hl1.1.emit _) n'' (by omega)
              · rw [if_neg h4, if_neg h4]
                have hr1 := h1.accept he [')'] false (by decide)
                rw [hr1.2]
                by_cases h5 : (a1.accept [')']).2 = true
                · rw [if_pos h5, if_pos h5]; exact ih _ _ (hr1.1.emit _) n'' (by omega)
                · rw [if_neg h5, if_neg h5]
                  intro a' ha; cases ha; exact ⟨_, rfl, h1⟩

theorem x_lexExpression {a b : Scan} (h : X p r a b) (he : Ends p) : XR p r (lexExpression a) (lexExpression b) := by
  unfold lexExpression
  exact x_lexExpressionLoop he _ _ _ h _ (by rw [h.eb]; simp only [ext_size, ext_pos]; omega)

theorem x_optIndex {a b : Scan} (h : X p r a b) (he : Ends p) :
    XR p r (if (a.accept [',']).snd = true then lexOpcodeIndex (a.accept [',']).fst else pure a)
      (if (b.accept [',']).snd = true then lexOpcodeIndex (b.accept [',']).fst else pure b) := by
  have ha := h.accept he [','] false (by decide)
  rw [ha.2]
  by_cases hc : (a.accept [',']).2 = true
  · rw [if_pos hc, if_pos hc]; exact x_lexOpcodeIndex ha.1 he
  · rw [if_neg hc, if_neg hc]; exact XR.pure h

theorem x_bracket {a b : Scan} (h : X p r a b) (he : Ends p) (c1 c2 : Char) (t1 t2 : TokTy) (h1 : c1 ≠ '\n') (h2 : c2 ≠ '\n') :
    X p r (if (a.peek == c1) = true then (a.next).1.emit t1 else if (a.peek == c2) = true then (a.next).1.emit t2 else a)
      (if (b.peek == c1) = true then (b.next).1.emit t1 else if (b.peek == c2) = true then (b.next).1.emit t2 else b) := by
  rw [h.peek]
  by_cases hc1 : (a.peek == c1) = true
  · rw [if_pos hc1, if_pos hc1]
    have hp : a.peek ≠ '\n' := by
      intro hx; rw [hx] at hc1
      have e : '\n' = c1 := by simpa using hc1
      exact h1 e.symm
    exact (h.next he hp).1.emit _
  · rw [if_neg hc1, if_neg hc1]
    by_cases hc2 : (a.peek == c2) = true
    · rw [if_pos hc2, if_pos hc2]
      have hp : a.peek ≠ '\n' := by
        intro hx; rw [hx] at hc2
        have e : '\n' = c2 := by simpa using hc2
        exact h2 e.symm
      exact (h.next he hp).1.emit _
    · rw [if_neg hc2, if_neg hc2]; exact h

theorem x_lexOperand {a b : Scan} (h : X p r a b) (he : Ends p) : XR p r (lexOperand a) (lexOperand b) := by
  unfold lexOperand
  simp only []
  have tail : ∀ (x y : Scan), X p r x y → XR p r (do
      let s ← (if (x.peek == ')') = true then (x.next).1.emit TokTy.RPAREN
               else if (x.peek == ']') = true then (x.next).1.emit TokTy.RBRAKET else x).ignoreRun [' ']
      if (s.accept [',']).snd = true then lexOpcodeIndex (s.accept [',']).fst else pure s) (do
      let s ← (if (y.peek == ')') = true then (y.next).1.emit TokTy.RPAREN
               else if (y.peek == ']') = true then (y.next).1.emit TokTy.RBRAKET else y).ignoreRun [' ']
      if (s.accept [',']).snd = true then lexOpcodeIndex (s.accept [',']).fst else pure s) := by
    intro x y hxy
    apply XR.bind ((x_bracket hxy he ')' ']' .RPAREN .RBRAKET (by decide) (by decide)).ignoreRun he _ (by decide))
    intro x1 y1 h1
    exact x_optIndex h1 he
  have hopen : X p r (if (a.peek == '#') = true then (a.next).1.emit TokTy.SHARP
      else if (a.peek == '(') = true then (a.next).1.emit TokTy.LPAREN
      else if (a.peek == '[') = true then (a.next).1.emit TokTy.LBRAKET else a)
      (if (b.peek == '#') = true then (b.next).1.emit TokTy.SHARP
      else if (b.peek == '(') = true then (b.next).1.emit TokTy.LPAREN
      else if (b.peek == '[') = true then (b.next).1.emit TokTy.LBRAKET else b) := by
    rw [h.peek]
    by_cases hs : (a.peek == '#') = true
    · rw [if_pos hs, if_pos hs]
      have hp : a.peek ≠ '\n' := by intro hx; rw [hx] at hs; simp at hs
      exact (h.next he hp).1.emit _
    · rw [if_neg hs, if_neg hs]
      have := x_bracket h he '(' '[' .LPAREN .LBRAKET (by decide) (by decide)
      rw [h.peek] at this
      exact this
  apply XR.bind (hopen.ignoreRun he _ (by decide))
  intro a1 b1 h1
  apply XR.bind (x_lexExpression h1 he)
  intro a2 b2 h2
  apply XR.bind (h2.ignoreRun he _ (by decide))
  intro a3 b3 h3
  have hc3 := h3.accept he [','] false (by decide)
  rw [hc3.2]
  by_cases hc : (a3.accept [',']).2 = true
  · rw [if_pos hc, if_pos hc]
    apply XR.bind (x_lexOpcodeIndex hc3.1 he)
    intro a4 b4 h4
    exact tail a4 b4 h4
  · rw [if_neg hc, if_neg hc]
    apply XR.bind (XR.pure h3)
    intro a4 b4 h4
    exact tail a4 b4 h4

theorem x_lexOpcodeSize {a b : Scan} (h : X p r a b) (he : Ends p) : XR p r (lexOpcodeSize a) (lexOpcodeSize b) := by
  unfold lexOpcodeSize
  simp only []
  have ha := h.ignore.accept he (chars "bBwWlL") false (by decide)
  rw [ha.2]
  by_cases hc : (a.ignore.accept (chars "bBwWlL")).2 = true
  · rw [if_pos hc, if_pos hc]
    apply XR.bind ((ha.1.emit _).ignoreRun he _ (by decide))
    intro a1 b1 h1
    exact x_lexOperand h1 he
  · rw [if_neg hc, if_neg hc]
    exact XR.err

/-- what follows the OPCODE token: optional size suffix, blanks, operand -/
theorem x_opTail {a b : Scan} (h : X p r a b) (he : Ends p) : XR p r (if (a.accept ['.']).snd = true then do
      let s ← lexOpcodeSize (a.accept ['.']).fst
      let s ← s.ignoreRun [' ']
      lexOperand s
    else do
      let s ← pure a
      let s ← s.ignoreRun [' ']
      lexOperand s) (if (b.accept ['.']).snd = true then do
      let s ← lexOpcodeSize (b.accept ['.']).fst
      let s ← s.ignoreRun [' ']
      lexOperand s
    else do
      let s ← pure b
      let s ← s.ignoreRun [' ']
      lexOperand s) := by
  have ha := h.accept he ['.'] false (by decide)
  rw [ha.2]
  by_cases hc : (a.accept ['.']).2 = true
  · rw [if_pos hc, if_pos hc]
    apply XR.bind (x_lexOpcodeSize ha.1 he)
    intro a1 b1 h1
    apply XR.bind (h1.ignoreRun he _ (by decide))
    intro a2 b2 h2
    exact x_lexOperand h2 he
  · rw [if_neg hc, if_neg hc]
    apply XR.bind (XR.pure h)
    intro a1 b1 h1
    apply XR.bind (h1.ignoreRun he _ (by decide))
    intro a2 b2 h2
    exact x_lexOperand h2 he


theorem no_mnemonic_over_nl (cfg : ScanCfg) (hcfg : CfgOK cfg) (s : Scan) (k : Nat) (hk1 : s.start ≤ k)
    (hk2 : k < s.pos + 3) (hget : s.input.toList[k]? = some '\n') :
    cfg.mnemonics.contains (asciiLower (s.slice s.start (s.pos + 3))) = false := by
  cases hc : cfg.mnemonics.contains (asciiLower (s.slice s.start (s.pos + 3))) with
  | false => rfl
  | true =>
    exfalso
    have hm : asciiLower (s.slice s.start (s.pos + 3)) ∈ cfg.mnemonics := by simpa using hc
    have hno := hcfg _ hm
    unfold Scan.slice at hno
    have hall := asciiLower_nl _ hno
    exact hall '\n' (take_drop_getElem s.input.toList s.start (s.pos + 3 - s.start) k hk1 (by omega) '\n' hget) rfl

theorem x_acceptOpcode (cfg : ScanCfg) (hcfg : CfgOK cfg) {a b : Scan} (h : X p r a b) (he : Ends p)
    (hsp : a.start ≤ a.pos) :
    X p r (acceptOpcode cfg a).1 (acceptOpcode cfg b).1 ∧ (acceptOpcode cfg b).2 = (acceptOpcode cfg a).2 := by
  have hbs : b.start = a.start := by rw [h.eb]; rfl
  have hbp : b.pos = a.pos := by rw [h.eb]; rfl
  by_cases hl : a.pos + 3 < p.size
  · unfold acceptOpcode
    simp only []
    have e1 : b.slice b.start (b.pos + 3) = a.slice a.start (a.pos + 3) := by
      rw [hbs, hbp]; exact h.slice _ _ (Nat.le_of_lt hl)
    rw [e1, h.peekk 3 hl]
    by_cases hc : (cfg.mnemonics.contains (asciiLower (a.slice a.start (a.pos + 3))) &&
        [' ', '\n', '\t', '.', '\x00'].contains (a.peek 3)) = true
    · rw [if_pos hc, if_pos hc]
      refine ⟨?_, rfl⟩
      show X p r { a with pos := a.pos + 3 } { b with pos := b.pos + 3 }
      rw [hbp]
      exact h.setPos _ hl
    · rw [if_neg hc, if_neg hc]; exact ⟨h, rfl⟩
  · have hlt := h.lt
    have hga : a.input.toList[p.size - 1]? = some '\n' := by rw [Array.getElem?_toList, h.input]; exact he.2
    have hgb : b.input.toList[p.size - 1]? = some '\n' := by
      rw [h.eb, ext_toList, List.getElem?_append_left (by simp [h.input]; have := he.1; omega)]; exact hga
    have ma := no_mnemonic_over_nl cfg hcfg a (p.size - 1) (by omega) (by omega) hga
    have mb := no_mnemonic_over_nl cfg hcfg b (p.size - 1) (by rw [hbs]; omega) (by rw [hbp]; omega) hgb
    unfold acceptOpcode
    simp only []
    rw [ma, mb]
    simp only [Bool.false_and, Bool.false_eq_true, ↓reduceIte]
    exact ⟨h, trivial⟩

theorem x_lexOpcode (cfg : ScanCfg) {a b : Scan} (h : X p r a b) (he : Ends p) :
    XR p r (lexOpcode cfg a) (lexOpcode cfg b) := by
  have hbs : b.start = a.start := by rw [h.eb]; rfl
  have hbp : b.pos = a.pos := by rw [h.eb]; rfl
  unfold lexOpcode
  simp only []
  have fin : ∀ (a3 b3 : Scan), X p r a3 b3 → XR p r (
      if (a3.peek == '\n' || a3.peek == '\x00') = true then
        pure (({ a3 with pos := a.pos } : Scan).emit TokTy.OPCODE_NAKED)
      else do
        let s ← pure (({ a3 with pos := a.pos } : Scan).emit TokTy.OPCODE)
        if (s.accept ['.']).snd = true then do
            let s ← lexOpcodeSize (s.accept ['.']).fst
            let s ← s.ignoreRun [' ']
            lexOperand s
          else do
            let s ← pure s
            let s ← s.ignoreRun [' ']
            lexOperand s) (
      if (b3.peek == '\n' || b3.peek == '\x00') = true then
        pure (({ b3 with pos := a.pos } : Scan).emit TokTy.OPCODE_NAKED)
      else do
        let s ← pure (({ b3 with pos := a.pos } : Scan).emit TokTy.OPCODE)
        if (s.accept ['.']).snd = true then do
            let s ← lexOpcodeSize (s.accept ['.']).fst
            let s ← s.ignoreRun [' ']
            lexOperand s
          else do
            let s ← pure s
            let s ← s.ignoreRun [' ']
            lexOperand s) := by
    intro a3 b3 h3
    have hset : X p r { a3 with pos := a.pos } { b3 with pos := a.pos } := h3.setPos _ h.lt
    rw [h3.peek]
    by_cases hc : (a3.peek == '\n' || a3.peek == '\x00') = true
    · rw [if_pos hc, if_pos hc]; exact XR.pure (hset.emit _)
    · rw [if_neg hc, if_neg hc]
      apply XR.bind (XR.pure (hset.emit _))
      intro a4 b4 h4
      exact x_opTail h4 he
  rw [hbs, hbp, h.slice _ _ (Nat.le_of_lt h.lt), h.peek]
  by_cases hc : (cfg.noOperand.contains (asciiLower (a.slice a.start a.pos)) && a.peek != '.') = true
  · rw [if_pos hc, if_pos hc]
    apply XR.bind (h.acceptRun he _ false (by decide))
    intro a1 b1 h1
    have hsc := h1.accept he [';'] false (by decide)
    rw [hsc.2]
    by_cases hs : (a1.accept [';']).2 = true
    · rw [if_pos hs, if_pos hs]
      apply XR.bind (hsc.1.acceptRun he _ true (by decide))
      intro a3 b3 h3
      exact fin a3 b3 h3
    · rw [if_neg hs, if_neg hs]
      apply XR.bind (XR.pure hsc.1)
      intro a3 b3 h3
      exact fin a3 b3 h3
  · rw [if_neg hc, if_neg hc]
    apply XR.bind (XR.pure (h.emit _))
    intro a1 b1 h1
    exact x_opTail h1 he


theorem x_acc2 {a b : Scan} (h : X p r a b) (he : Ends p) (c2 : List Char) (hc2 : c2.contains '\n' = false) (t1 t2 : TokTy) :
    XRL p r (pure (if (a.accept c2).2 = true then (a.accept c2).1.emit t1 else a.emit t2))
      (pure (if (b.accept c2).2 = true then (b.accept c2).1.emit t1 else b.emit t2)) := by
  have hq := h.accept he c2 false (by simpa using hc2)
  rw [hq.2]
  by_cases hc : (a.accept c2).2 = true
  · rw [if_pos hc, if_pos hc]; exact XRL.pure (hq.1.emit _).toL
  · rw [if_neg hc, if_neg hc]; exact XRL.pure (h.emit _).toL

theorem letter_ne_nl (c : Char) (h : letterChars.contains c = true) : c ≠ '\n' := by
  intro hx; subst hx; revert h; decide

/-- `lex_initial` over the extended text, when the blanks it first skips end before the end of `p` -/
theorem x_lexInitial (cfg : ScanCfg) (hcfg : CfgOK cfg) {a b : Scan} (h : X p r a b) (he : Ends p) (ta : Scan)
    (hta : a.ignoreRun [' ', '\t', '\n'] = .ok ta) (hlt : ta.pos < p.size) :
    XRL p r (lexInitial cfg a) (lexInitial cfg b) := by
  have htin : ta.input = p := by
    have := good_ignoreRun a [' ', '\t', '\n'] he_ws
    rw [hta] at this
    rw [(show Le a ta from this).input, h.input]
  have ht : X p r ta (ext r ta) := ⟨rfl, htin, hlt⟩
  have htb : b.ignoreRun [' ', '\t', '\n'] = .ok (ext r ta) := by
    unfold Scan.ignoreRun at hta ⊢
    cases hu : a.acceptRun [' ', '\t', '\n'] with
    | error e => rw [hu] at hta; cases hta
    | ok u =>
      rw [hu] at hta
      simp only [Except.ok.injEq] at hta
      subst hta
      rw [h.eb, ext_acceptRun a u _ false hu (by rw [h.input]; exact hlt)]
      rfl
  have hstart : ta.start = ta.pos := (ignoreRun_idem a ta _ hta).2
  unfold lexInitial
  simp only []
  rw [hta, htb, ok_bind, ok_bind]
  have hfuel : ta.input.size - ta.pos + 2 ≤ (ext r ta).input.size - (ext r ta).pos + 2 := by
    simp only [ext_size, ext_pos]; omega
  generalize hbdef : ext r ta = tb at ht hfuel
  have hq := ht.accept he [';'] false (by decide)
  rw [hq.2]
  by_cases ha : (ta.accept [';']).2 = true
  · rw [if_pos ha, if_pos ha]
    apply XRL.bindL (x_lineCommentLoop he _ _ _ hq.1 _ hfuel)
    intro a2 b2 h2; exact XRL.pure (h2.emit _)
  rw [if_neg ha, if_neg ha]; clear ha hq
  have hq := ht.accept he digitChars false (by decide)
  rw [hq.2]
  by_cases ha : (ta.accept digitChars).2 = true
  · rw [if_pos ha, if_pos ha]
    obtain ⟨q1, q2⟩ := accept_backup_peek ta digitChars nul_digit ha
    exact (x_lexNumber hq.1 he (by rw [q1]; exact digit_ne_nl _ q2)).toL
  rw [if_neg ha, if_neg ha]; clear ha hq
  have hq := ht.accept he ['+', '-', '&'] false (by decide)
  rw [hq.2]
  by_cases ha : (ta.accept ['+', '-', '&']).2 = true
  · rw [if_pos ha, if_pos ha]; exact XRL.pure (hq.1.emit _).toL
  rw [if_neg ha, if_neg ha]; clear ha hq
  have hq := ht.acceptPrefix he ['=', '='] (by decide)
  rw [hq.2]
  by_cases ha : (ta.acceptPrefix ['=', '=']).2 = true
  · rw [if_pos ha, if_pos ha]; exact XRL.pure (hq.1.emit _).toL
  rw [if_neg ha, if_neg ha]; clear ha hq
  have hq := ht.acceptPrefix he ['!', '='] (by decide)
  rw [hq.2]
  by_cases ha : (ta.acceptPrefix ['!', '=']).2 = true
  · rw [if_pos ha, if_pos ha]; exact XRL.pure (hq.1.emit _).toL
  rw [if_neg ha, if_neg ha]; clear ha hq
  have hq := ht.acceptPrefix he ['>', '>'] (by decide)
  rw [hq.2]
  by_cases ha : (ta.acceptPrefix ['>', '>']).2 = true
  · rw [if_pos ha, if_pos ha]; exact XRL.pure (hq.1.emit _).toL
  rw [if_neg ha, if_neg ha]; clear ha hq
  have hq := ht.acceptPrefix he ['<', '<'] (by decide)
  rw [hq.2]
  by_cases ha : (ta.acceptPrefix ['<', '<']).2 = true
  · rw [if_pos ha, if_pos ha]; exact XRL.pure (hq.1.emit _).toL
  rw [if_neg ha, if_neg ha]; clear ha hq
  have hq := ht.acceptPrefix he ['>'] (by decide)
  rw [hq.2]
  by_cases ha : (ta.acceptPrefix ['>']).2 = true
  · rw [if_pos ha, if_pos ha]; exact XRL.pure (hq.1.emit _).toL
  rw [if_neg ha, if_neg ha]; clear ha hq
  have hq := ht.acceptPrefix he ['<'] (by decide)
  rw [hq.2]
  by_cases ha : (ta.acceptPrefix ['<']).2 = true
  · rw [if_pos ha, if_pos ha]; exact XRL.pure (hq.1.emit _).toL
  rw [if_neg ha, if_neg ha]; clear ha hq
  have hq := ht.accept he letterChars false (by decide)
  rw [hq.2]
  by_cases ha : (ta.accept letterChars).2 = true
  · rw [if_pos ha, if_pos ha]
    obtain ⟨_, hbp, _⟩ := accept_backup_le ta letterChars nul_letter ha
    have hbk := hq.1.backup
    have hsp : (ta.accept letterChars).1.backup.start ≤ (ta.accept letterChars).1.backup.pos := by
      rw [hbp]
      show (ta.accept letterChars).1.start ≤ ta.pos
      rw [accept_start, hstart]; exact Nat.le_refl _
    have ho := x_acceptOpcode cfg hcfg hbk he hsp
    rw [ho.2]
    by_cases hop : (acceptOpcode cfg (ta.accept letterChars).1.backup).2 = true
    · rw [if_pos hop, if_pos hop]; exact (x_lexOpcode cfg ho.1 he).toL
    · rw [if_neg hop, if_neg hop]; exact (x_lexIdentifier hbk he).toL
  rw [if_neg ha, if_neg ha]; clear ha hq
  have hq := ht.accept he ['.'] false (by decide)
  rw [hq.2]
  by_cases ha : (ta.accept ['.']).2 = true
  · rw [if_pos ha, if_pos ha]; exact (x_lexKeyword cfg hq.1 he).toL
  rw [if_neg ha, if_neg ha]; clear ha hq
  have hq := ht.accept he [','] false (by decide)
  rw [hq.2]
  by_cases ha : (ta.accept [',']).2 = true
  · rw [if_pos ha, if_pos ha]; exact XRL.pure (hq.1.emit _).toL
  rw [if_neg ha, if_neg ha]; clear ha hq
  have hq := ht.acceptPrefix he [':', '='] (by decide)
  rw [hq.2]
  by_cases ha : (ta.acceptPrefix [':', '=']).2 = true
  · rw [if_pos ha, if_pos ha]; exact XRL.pure (hq.1.emit _).toL
  rw [if_neg ha, if_neg ha]; clear ha hq
  have hq := ht.acceptPrefix he ['@', '='] (by decide)
  rw [hq.2]
  by_cases ha : (ta.acceptPrefix ['@', '=']).2 = true
  · rw [if_pos ha, if_pos ha]; exact XRL.pure (hq.1.emit _).toL
  rw [if_neg ha, if_neg ha]; clear ha hq
  have hq := ht.accept he ['*'] false (by decide)
  rw [hq.2]
  by_cases ha : (ta.accept ['*']).2 = true
  · rw [if_pos ha, if_pos ha]
    exact x_acc2 hq.1 he ['='] (by decide) _ _
  rw [if_neg ha, if_neg ha]; clear ha hq
  have hq := ht.accept he ['\''] false (by decide)
  rw [hq.2]
  by_cases ha : (ta.accept ['\'']).2 = true
  · rw [if_pos ha, if_pos ha]; exact (x_lexQuotedString hq.1 he).toL
  rw [if_neg ha, if_neg ha]; clear ha hq
  have hq := ht.accept he ['('] false (by decide)
  rw [hq.2]
  by_cases ha : (ta.accept ['(']).2 = true
  · rw [if_pos ha, if_pos ha]; exact XRL.pure (hq.1.emit _).toL
  rw [if_neg ha, if_neg ha]; clear ha hq
  have hq := ht.accept he [')'] false (by decide)
  rw [hq.2]
  by_cases ha : (ta.accept [')']).2 = true
  · rw [if_pos ha, if_pos ha]; exact XRL.pure (hq.1.emit _).toL
  rw [if_neg ha, if_neg ha]; clear ha hq
  have hq := ht.accept he ['['] false (by decide)
  rw [hq.2]
  by_cases ha : (ta.accept ['[']).2 = true
  · rw [if_pos ha, if_pos ha]; exact XRL.pure (hq.1.emit _).toL
  rw [if_neg ha, if_neg ha]; clear ha hq
  have hq := ht.accept he [']'] false (by decide)
  rw [hq.2]
  by_cases ha : (ta.accept [']']).2 = true
  · rw [if_pos ha, if_pos ha]; exact XRL.pure (hq.1.emit _).toL
  rw [if_neg ha, if_neg ha]; clear ha hq
  have hq := ht.accept he ['{'] false (by decide)
  rw [hq.2]
  by_cases ha : (ta.accept ['{']).2 = true
  · rw [if_pos ha, if_pos ha]
    exact x_acc2 hq.1 he ['{'] (by decide) _ _
  rw [if_neg ha, if_neg ha]; clear ha hq
  have hq := ht.accept he ['}'] false (by decide)
  rw [hq.2]
  by_cases ha : (ta.accept ['}']).2 = true
  · rw [if_pos ha, if_pos ha]
    exact x_acc2 hq.1 he ['}'] (by decide) _ _
  rw [if_neg ha, if_neg ha]; clear ha hq
  have hq := ht.accept he ['='] false (by decide)
  rw [hq.2]
  by_cases ha : (ta.accept ['=']).2 = true
  · rw [if_pos ha, if_pos ha]; exact XRL.pure (hq.1.emit _).toL
  rw [if_neg ha, if_neg ha]; clear ha hq
  have hq := ht.acceptPrefix he ['/', '*'] (by decide)
  rw [hq.2]
  by_cases ha : (ta.acceptPrefix ['/', '*']).2 = true
  · rw [if_pos ha, if_pos ha]
    apply XR.toL
    apply XR.bind (x_blockCommentLoop he _ _ _ _ _ hq.1.toL _ hfuel)
    intro a2 b2 h2; exact XR.pure (h2.emit _)
  rw [if_neg ha, if_neg ha]; clear ha hq
  -- a character that starts no token: the run over `p` raises
  have hn : ((ta.next).2 != none) = true := by
    rw [(next_fields ta).2.2.2.2, if_pos ht.sz]; rfl
  rw [if_pos hn]
  exact XRL.err


/-! ## between tokens the pending text is empty (`start = pos` when a state function returns to `Scanner.scan`) -/

def SP (r : SR) : Prop := ∀ s', r = .ok s' → s'.start = s'.pos

theorem SP.emit (s : Scan) (ty : TokTy) : SP (pure (s.emit ty)) := by intro s' h; cases h; rfl
theorem SP.emit' (s : Scan) (ty : TokTy) : SP (.ok (s.emit ty)) := by intro s' h; cases h; rfl
theorem SP.ignore (s : Scan) : SP (pure s.ignore) := by intro s' h; cases h; rfl
theorem SP.err (e : Err × Scan) : SP (.error e) := by intro s' h; cases h
theorem SP.ignoreRun (s : Scan) (cands : List Char) : SP (s.ignoreRun cands) := by
  intro s' h; exact (ignoreRun_idem s s' cands h).2
theorem SP.bind {r : SR} {f : Scan → SR} (hf : ∀ a, SP (f a)) : SP (r >>= f) := by
  intro s' h
  cases r with
  | error e => cases h
  | ok a => exact hf a s' h
theorem SP.ite {c : Prop} [Decidable c] {x y : SR} (hx : SP x) (hy : SP y) : SP (if c then x else y) := by
  split <;> assumption

theorem sp_lexIdentifier (s : Scan) : SP (lexIdentifier s) := by
  unfold lexIdentifier
  simp only []
  apply SP.bind; intro a
  apply SP.ite (SP.ignore _)
  apply SP.ite
  · apply SP.bind; intro a2; exact SP.emit _ _
  · exact SP.emit _ _

theorem sp_lexNumber (s : Scan) : SP (lexNumber s) := by
  unfold lexNumber
  simp only []
  apply SP.ite (SP.emit _ _)
  apply SP.ite
  · apply SP.ite
    · apply SP.bind; intro a2; exact SP.emit _ _
    · apply SP.ite
      · apply SP.bind; intro a2; exact SP.emit _ _
      · apply SP.ite
        · apply SP.bind; intro a2; exact SP.emit _ _
        · exact SP.emit _ _
  · apply SP.bind; intro a2; exact SP.emit _ _

theorem sp_lexQuotedString (s : Scan) : SP (lexQuotedString s) := by
  unfold lexQuotedString
  simp only []
  apply SP.bind; intro a2; exact SP.emit _ _

theorem sp_lexKeyword (cfg : ScanCfg) (s : Scan) : SP (lexKeyword cfg s) := by
  unfold lexKeyword
  simp only []
  apply SP.bind; intro a
  exact SP.ite (SP.emit _ _) (SP.err _)

theorem sp_lexOpcodeIndex (s : Scan) : SP (lexOpcodeIndex s) := by
  unfold lexOpcodeIndex
  simp only []
  apply SP.bind; intro a
  exact SP.ite (SP.emit _ _) (SP.err _)

theorem SP.bind' {r : SR} {f : Scan → SR} (hf : ∀ a, r = .ok a → SP (f a)) : SP (r >>= f) := by
  intro s' h
  cases r with
  | error e => cases h
  | ok a => exact hf a rfl s' h

theorem sp_operandTail (x : Scan) : SP (do
      let s ← (if (x.peek == ')') = true then (x.next).1.emit TokTy.RPAREN
               else if (x.peek == ']') = true then (x.next).1.emit TokTy.RBRAKET else x).ignoreRun [' ']
      if (s.accept [',']).snd = true then lexOpcodeIndex (s.accept [',']).fst else pure s) := by
  apply SP.bind'; intro a ha
  apply SP.ite (sp_lexOpcodeIndex _)
  intro s' h; cases h
  exact (ignoreRun_idem _ _ _ ha).2

theorem sp_lexOperand (s : Scan) : SP (lexOperand s) := by
  unfold lexOperand
  simp only []
  apply SP.bind; intro a1
  apply SP.bind; intro a2
  apply SP.bind; intro a3
  apply SP.ite
  · apply SP.bind; intro a4; exact sp_operandTail a4
  · apply SP.bind; intro a4; exact sp_operandTail a4

theorem sp_lexOpcodeSize (s : Scan) : SP (lexOpcodeSize s) := by
  unfold lexOpcodeSize
  simp only []
  apply SP.ite
  · apply SP.bind; intro a; exact sp_lexOperand a
  · exact SP.err _

theorem sp_opTail (a : Scan) : SP (if (a.accept ['.']).snd = true then do
      let s ← lexOpcodeSize (a.accept ['.']).fst
      let s ← s.ignoreRun [' ']
      lexOperand s
    else do
      let s ← pure a
      let s ← s.ignoreRun [' ']
      lexOperand s) := by
  apply SP.ite
  · apply SP.bind; intro a1; apply SP.bind; intro a2; exact sp_lexOperand a2
  · apply SP.bind; intro a1; apply SP.bind; intro a2; exact sp_lexOperand a2

theorem sp_lexOpcode (cfg : ScanCfg) (s : Scan) : SP (lexOpcode cfg s) := by
  unfold lexOpcode
  simp only []
  have fin : ∀ (s3 : Scan), SP (
      if (s3.peek == '\n' || s3.peek == '\x00') = true then
        pure (({ s3 with pos := s.pos } : Scan).emit TokTy.OPCODE_NAKED)
      else do
        let s ← pure (({ s3 with pos := s.pos } : Scan).emit TokTy.OPCODE)
        if (s.accept ['.']).snd = true then do
            let s ← lexOpcodeSize (s.accept ['.']).fst
            let s ← s.ignoreRun [' ']
            lexOperand s
          else do
            let s ← pure s
            let s ← s.ignoreRun [' ']
            lexOperand s) := by
    intro s3
    apply SP.ite (SP.emit _ _)
    apply SP.bind; intro a4; exact sp_opTail a4
  apply SP.ite
  · apply SP.bind; intro a1
    apply SP.ite
    · apply SP.bind; intro a3; exact fin a3
    · apply SP.bind; intro a3; exact fin a3
  · apply SP.bind; intro a1; exact sp_opTail a1

theorem sp_acc2 (a : Scan) (c2 : List Char) (t1 t2 : TokTy) :
    SP (pure (if (a.accept c2).2 = true then (a.accept c2).1.emit t1 else a.emit t2)) := by
  intro s' h; cases h
  split <;> rfl

theorem sp_lexInitial (cfg : ScanCfg) (s : Scan) : SP (lexInitial cfg s) := by
  unfold lexInitial
  simp only []
  apply SP.bind'; intro t ht
  have hst := (ignoreRun_idem _ _ _ ht).2
  apply SP.ite
  · apply SP.bind; intro a2; exact SP.emit _ _
  apply SP.ite (sp_lexNumber _)
  iterate 7 apply SP.ite (SP.emit _ _)
  apply SP.ite
  · exact SP.ite (sp_lexOpcode cfg _) (sp_lexIdentifier _)
  apply SP.ite (sp_lexKeyword cfg _)
  iterate 3 apply SP.ite (SP.emit _ _)
  apply SP.ite (sp_acc2 _ _ _ _)
  apply SP.ite (sp_lexQuotedString _)
  iterate 4 apply SP.ite (SP.emit _ _)
  apply SP.ite (sp_acc2 _ _ _ _)
  apply SP.ite (sp_acc2 _ _ _ _)
  apply SP.ite (SP.emit _ _)
  apply SP.ite
  · apply SP.bind; intro a2; exact SP.emit _ _
  by_cases hn : ((t.next).2 != none) = true
  · rw [if_pos hn]; exact SP.err _
  · rw [if_neg hn]
    intro s' h; cases h
    have hnone : (t.next).2 = none := by
      cases hx : (t.next).2 with
      | none => rfl
      | some c => rw [hx] at hn; simp at hn
    have hge := (next_some_iff t).mp hnone
    show (t.next).1.start = (t.next).1.pos
    rw [(next_pos_ge t hge).1]; exact hst

/-! ## the scan of `p ++ r` passes through the end of the scan of `p` -/

theorem dropWhile_nil_all (q : Char → Bool) : ∀ (l : List Char), l.dropWhile q = [] → l.all q = true := by
  intro l
  induction l with
  | nil => intro _; rfl
  | cons c l ih =>
    intro h
    by_cases hc : q c = true
    · rw [List.dropWhile_cons_of_pos hc] at h
      simp only [List.all_cons, hc, Bool.true_and]; exact ih h
    · rw [List.dropWhile_cons_of_neg hc] at h; cases h

theorem dropWhile_append_all (q : Char → Bool) : ∀ (l r : List Char), l.all q = true →
    (l ++ r).dropWhile q = r.dropWhile q := by
  intro l
  induction l with
  | nil => intro r _; rfl
  | cons c l ih =>
    intro r h
    simp only [List.all_cons, Bool.and_eq_true] at h
    rw [List.cons_append, List.dropWhile_cons_of_pos h.1]
    exact ih r h.2

/-- a blank, a tab or a newline (what `lex_initial` skips) -/
def blank (c : Char) : Bool := [' ', '\t', '\n'].contains c

theorem prefix_reach (cfg : ScanCfg) (hcfg : CfgOK cfg) (he : Ends p) (r : List Char) : ∀ (n : Nat) (a sp : Scan),
    a.input = p → a.start = a.pos → a.pos ≤ p.size → scanLoop cfg .initial n a = .ok sp →
    ∃ s, Reach cfg .initial (ext r a) (ext r s) ∧ s.input = p ∧ s.start = s.pos ∧ s.pos ≤ p.size ∧
      (p.toList.drop s.pos).all blank = true ∧ s.toks = sp.toks := by
  have atEnd : ∀ (a sp : Scan), a.input = p → a.start = a.pos → a.pos ≤ p.size → ¬ a.pos < a.input.size → sp = a →
      ∃ s, Reach cfg .initial (ext r a) (ext r s) ∧ s.input = p ∧ s.start = s.pos ∧ s.pos ≤ p.size ∧
        (p.toList.drop s.pos).all blank = true ∧ s.toks = sp.toks := by
    intro a sp hin hst hle hge hsp
    refine ⟨a, Reach.refl _, hin, hst, hle, ?_, by rw [hsp]⟩
    rw [List.drop_of_length_le (by rw [hin] at hge; simp; omega)]; rfl
  intro n
  induction n with
  | zero =>
    intro a sp hin hst hle h
    unfold scanLoop at h
    by_cases hlt : a.pos < a.input.size
    · rw [if_pos hlt] at h; cases h
    · rw [if_neg hlt] at h; cases h; exact atEnd a a hin hst hle hlt rfl
  | succ n ih =>
    intro a sp hin hst hle h
    unfold scanLoop at h
    by_cases hlt : a.pos < a.input.size
    · rw [if_pos hlt] at h
      have hrs : runState cfg .initial a = lexInitial cfg a := rfl
      rw [hrs] at h
      cases hl : lexInitial cfg a with
      | error e => rw [hl] at h; cases h
      | ok a1 =>
        rw [hl] at h
        simp only [] at h
        by_cases hg : (a1.pos == a.pos && a1.toks.size == a.toks.size) = true
        · rw [if_pos hg] at h; cases h
        · rw [if_neg hg] at h
          obtain ⟨u, hu, _, _⟩ := ScanB.acceptRun_ok a [' ', '\t', '\n'] false (by decide)
          have hta : a.ignoreRun [' ', '\t', '\n'] = .ok u.ignore := by unfold Scan.ignoreRun; rw [hu]
          obtain ⟨hidem, htst⟩ := ignoreRun_idem a _ _ hta
          by_cases hin2 : u.ignore.pos < p.size
          · -- a token follows before the end of `p`: the same iteration happens over the extended text
            have hx : X p r a (ext r a) := ⟨rfl, hin, by rw [← hin]; exact hlt⟩
            obtain ⟨b1, hb1, hxl⟩ := x_lexInitial cfg hcfg hx he _ hta hin2 a1 hl
            obtain ⟨s, hr, h1, h2, h3, h4, h5⟩ := ih a1 sp hxl.input (sp_lexInitial cfg a a1 hl) hxl.le h
            refine ⟨s, ?_, h1, h2, h3, h4, h5⟩
            refine Reach.step (s1 := ext r a1) ?_ ?_ hg hr
            · show a.pos < (ext r a).input.size
              rw [ext_size]; omega
            · show lexInitial cfg (ext r a) = .ok (ext r a1)
              rw [hb1, hxl.eb]
          · -- only blanks are left in `p`
            have hlex : lexInitial cfg a = lexInitial cfg u.ignore := by
              unfold lexInitial
              simp only []
              rw [hta, hidem]
            have hle' : Le a u.ignore := by
              have := good_ignoreRun a [' ', '\t', '\n'] he_ws; rw [hta] at this; exact this
            have hge : ¬ u.ignore.pos < u.ignore.input.size := by rw [hle'.input, hin]; exact hin2
            rw [hlex, lexInitial_eof cfg _ hge htst] at hl
            cases hl
            rw [scanLoop_eof cfg .initial n _ hge] at h
            cases h
            refine ⟨a, Reach.refl _, hin, hst, hle, ?_, (ignoreRun_toks a _ _ hta).symm⟩
            obtain ⟨_, d2, _⟩ := ignoreRun_dropWhile a _ _ (by decide) hta
            rw [List.drop_of_length_le (by rw [Array.length_toList]; omega), hin] at d2
            exact dropWhile_nil_all _ _ d2.symm
    · rw [if_neg hlt] at h; cases h; exact atEnd a a hin hst hle hlt rfl

end A816.ScanX
