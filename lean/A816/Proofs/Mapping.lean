import A816.Model.Mapping
import A816.Spec.RomMaps
/-! Helper lemmas for C04/C20/C03/C05: the bit-twiddling of `mapping.py` is the textbook arithmetic. -/
namespace A816
open Spec

theorem lowPart_32k (v : Nat) : lowPart 0x8000 v = v % 0x8000 := by
  unfold lowPart
  have : (0xFFFF ^^^ (0x8000 &&& 0xFFFF) : Nat) = 2^15 - 1 := by decide
  rw [this, Nat.and_two_pow_sub_one_eq_mod]

theorem lowPart_64k (v : Nat) : lowPart 0x10000 v = v % 0x10000 := by
  unfold lowPart
  have : (0xFFFF ^^^ (0x10000 &&& 0xFFFF) : Nat) = 2^16 - 1 := by decide
  rw [this, Nat.and_two_pow_sub_one_eq_mod]

theorem shl16_or (x y : Nat) (h : y < 65536) : (x <<< 16) ||| y = x * 65536 + y := by
  rw [← Nat.shiftLeft_add_eq_or_of_lt (i := 16) (by simpa using h), Nat.shiftLeft_eq]

theorem shr16 (v : Nat) : v >>> 16 = v / 65536 := by
  rw [Nat.shiftRight_eq_div_pow]

/-- A ROM mapping of one of the two window sizes the assembler's maps use. -/
def Mapping.RomWF (m : Mapping) : Prop := m.ram = false ∧ (m.mask = 0x8000 ∨ m.mask = 0x10000)
instance (m : Mapping) : Decidable m.RomWF := by unfold Mapping.RomWF; infer_instance

def Mapping.range (m : Mapping) : Spec.Range := ⟨m.lo, m.hi, m.mask⟩

theorem Mapping.physicalAddress_ram (m : Mapping) (h : m.ram = true) (v : Nat) :
    m.physicalAddress v = none := by
  simp [Mapping.physicalAddress, h]

/-- `physical_address` is the textbook offset for in-window addresses of the range. -/
theorem Mapping.physicalAddress_eq_offset (m : Mapping) (wf : m.RomWF) (a : Nat)
    (hlo : m.lo ≤ bankOf a) (hwin : inWindow m.mask a) :
    m.physicalAddress a = some ((Spec.offset m.range a : Nat) : Int) := by
  obtain ⟨hram, hmask⟩ := wf
  unfold Mapping.physicalAddress Spec.offset Mapping.range
  unfold bankOf at *; unfold inWindow windowStart inBank at *
  simp only [hram, shr16]
  rcases hmask with h | h
  · simp only [h, lowPart_32k] at *
    simp only [Bool.false_eq_true, ↓reduceIte, Option.some.injEq]
    omega
  · simp only [h, lowPart_64k] at *
    simp only [Bool.false_eq_true, ↓reduceIte, Option.some.injEq]
    omega

/-- `logical_address` is the textbook address of an offset. -/
theorem Mapping.logicalAddress_eq_address (m : Mapping) (hmask : m.mask = 0x8000 ∨ m.mask = 0x10000)
    (p : Nat) : m.logicalAddress p = Spec.address m.range p := by
  unfold Mapping.logicalAddress Spec.address Mapping.range windowStart
  rcases hmask with h | h
  · simp only [h]
    have h1 : ((0x8000 : Nat) &&& 0xFFFF) = 0x8000 := by decide
    rw [h1, shl16_or _ _ (by omega)]; omega
  · simp only [h]
    have h1 : ((0x10000 : Nat) &&& 0xFFFF) = 0 := by decide
    rw [h1, shl16_or _ _ (by omega)]; omega

/-- offset ∘ address = id, and the address lies in the window of bank `first + p / size`. -/
theorem Spec.offset_address (r : Range) (hs : r.size = 0x8000 ∨ r.size = 0x10000) (p : Nat) :
    Spec.offset r (Spec.address r p) = p ∧ bankOf (Spec.address r p) = r.first + p / r.size ∧
    inWindow r.size (Spec.address r p) := by
  unfold Spec.offset Spec.address bankOf inBank inWindow windowStart inBank
  rcases hs with h | h <;> simp only [h] <;> omega

/-- address ∘ offset = id on in-window addresses of the range. -/
theorem Spec.address_offset (r : Range) (hs : r.size = 0x8000 ∨ r.size = 0x10000) (a : Nat)
    (hlo : r.first ≤ bankOf a) (hwin : inWindow r.size a) :
    Spec.address r (Spec.offset r a) = a := by
  unfold Spec.offset Spec.address bankOf inBank inWindow windowStart inBank at *
  rcases hs with h | h <;> simp only [h] at * <;> omega

/-- Addresses as built by `Address.__init__`: the cached mapping is the bus's mapping of the bank. -/
def Address.WF (a : Address) : Prop := a.bus.mappingForBank (a.logical >>> 16) = some a.mapping

theorem Address.mk?_wf {bus : BusCfg} {v : Int} {a : Address} (h : Address.mk? bus v = some a) :
    a.WF ∧ a.bus = bus ∧ (a.logical : Int) = v := by
  unfold Address.mk? at h
  split at h
  · cases h
  · split at h
    · cases h
    · rename_i m hm
      cases h
      refine ⟨?_, rfl, ?_⟩
      · simpa [Address.WF] using hm
      · simp; omega

end A816
