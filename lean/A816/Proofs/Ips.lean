import A816.Model.Ips
import A816.Spec.Ips
/-! Helper lemmas for C11 / C13: what the writer emits is read back by the standard reader. -/
namespace A816
open Spec.Ips

def shiftOf (copier : Bool) : Int := if copier then 0x200 else 0

/-- the records a block is supposed to become: consecutive slices of at most 0xFFFF bytes -/
def chunks : Nat → Nat → List Nat → List Record
  | 0, _, _ => []
  | fuel+1, addr, block =>
    if block = [] then [] else
      let n := min 0xFFFF block.length
      ⟨addr, block.take n⟩ :: chunks fuel (addr + n) (block.drop n)

set_option maxRecDepth 4000 in
/-- a header that was written encodes a representable offset other than `EOF` -/
theorem ipsHeader_ok (copier : Bool) (addr : Int) (n : Nat) (h : List Nat) (hn : n ≤ 65535)
    (hh : ipsHeader copier addr n = .ok h) :
    ∃ a : Nat, (a : Int) = addr + shiftOf copier ∧ a < 16777216 ∧ a ≠ 0x454F46 ∧
      h = [a / 65536, a / 256 % 256, a % 256, n / 256, n % 256] := by
  unfold ipsHeader at hh
  have hs : (if copier = true then addr + 0x200 else addr) = addr + shiftOf copier := by
    unfold shiftOf; cases copier <;> simp
  simp only [hs] at hh
  generalize addr + shiftOf copier = a at hh
  by_cases he : a = 0x454F46
  · simp [he] at hh
  · simp only [he, ↓reduceIte, packBHbe, packB, packHbe] at hh
    by_cases h1 : 0 ≤ a / 65536 ∧ a / 65536 ≤ 255
    · have h2 : 0 ≤ a % 65536 ∧ a % 65536 ≤ 65535 := by omega
      have h3 : (0 : Int) ≤ (n : Int) ∧ (n : Int) ≤ 65535 := by omega
      simp only [h1, h2, h3, and_self, ↓reduceIte, List.cons_append, List.nil_append, Except.ok.injEq,
        Int.toNat_natCast] at hh
      refine ⟨a.toNat, by omega, by omega, by omega, ?_⟩
      rw [← hh]
      simp only [List.cons.injEq, and_true]
      refine ⟨?_, ?_, ?_⟩ <;> omega
    · simp [h1] at hh

set_option maxRecDepth 4000 in
/-- the standard reader reads one written record and continues with the tail -/
theorem header_parse (a n : Nat) (data tail : List Nat) (ha : a < 16777216) (hne : a ≠ 0x454F46)
    (hn : 0 < n ∧ n ≤ 65535) (hlen : data.length = n) (fuel : Nat) :
    parseRecords (fuel + 1) ([a / 65536, a / 256 % 256, a % 256, n / 256, n % 256] ++ data ++ tail)
      = (parseRecords fuel tail).map fun rs => ⟨a, data⟩ :: rs := by
  have hne' : ¬ ([a / 65536, a / 256 % 256, a % 256] = eof) := by
    unfold eof; simp only [List.cons.injEq, and_true, not_and]; omega
  have hsize : n / 256 * 256 + n % 256 = n := by omega
  have haddr : a / 65536 * 65536 + a / 256 % 256 * 256 + a % 256 = a := by omega
  have hnz : ¬ (n / 256 * 256 + n % 256 = 0) := by omega
  have hlen' : ¬ ((data ++ tail).length < n / 256 * 256 + n % 256) := by simp [hsize, hlen]
  simp only [List.cons_append, List.nil_append, parseRecords, List.take_succ_cons, List.take_zero, hne',
    ↓reduceIte, hnz, hlen']
  rw [hsize, haddr]
  simp [← hlen]

theorem chunks_length_le (fuel a : Nat) (block : List Nat) : (chunks fuel a block).length ≤ fuel := by
  induction fuel generalizing a block with
  | zero => simp [chunks]
  | succ f ih =>
    unfold chunks
    split
    · simp
    · simp only [List.length_cons]; have := ih (a + min 0xFFFF block.length) (block.drop (min 0xFFFF block.length)); omega

/-- one block: what the writer emitted, followed by a tail, is read as the block's chunks followed by the tail's records -/
theorem writeBlock_parse (copier : Bool) (fuel : Nat) :
    ∀ (addr : Int) (block tail out : List Nat) (pf : Nat),
      ipsWriteBlockAux copier fuel addr block = .ok out → fuel ≤ pf →
      ∃ a : Nat, (block ≠ [] → (a : Int) = addr + shiftOf copier) ∧
        parseRecords (pf + 1) (out ++ tail)
          = (parseRecords (pf + 1 - (chunks fuel a block).length) tail).map fun rs => chunks fuel a block ++ rs := by
  induction fuel with
  | zero =>
    intro addr block tail out pf hw _
    unfold ipsWriteBlockAux at hw
    by_cases hb : block = []
    · subst hb; simp at hw; subst hw
      exact ⟨0, by simp, by simp [chunks]⟩
    · simp [hb] at hw
  | succ fuel ih =>
    intro addr block tail out pf hw hpf
    unfold ipsWriteBlockAux at hw
    by_cases hb : block = []
    · subst hb; simp at hw; subst hw
      exact ⟨0, by simp, by simp [chunks]⟩
    · simp only [hb, ↓reduceIte] at hw
      cases hh : ipsHeader copier addr (min 0xFFFF block.length) with
      | error e => simp [hh] at hw
      | ok h =>
        simp only [hh] at hw
        cases hr : ipsWriteBlockAux copier fuel (addr + ↑(min 0xFFFF block.length)) (block.drop (min 0xFFFF block.length)) with
        | error e => simp [hr] at hw
        | ok rest =>
          simp only [hr, Except.ok.injEq] at hw
          subst hw
          have hpos : 0 < block.length := List.length_pos_iff.mpr hb
          have hn : 0 < min 0xFFFF block.length ∧ min 0xFFFF block.length ≤ 65535 := by omega
          obtain ⟨a, ha1, ha2, ha3, ha4⟩ := ipsHeader_ok copier addr _ h hn.2 hh
          obtain ⟨pf', rfl⟩ : ∃ k, pf = k + 1 := ⟨pf - 1, by omega⟩
          obtain ⟨a', ha', hp⟩ := ih _ _ tail rest pf' hr (by omega)
          refine ⟨a, fun _ => ha1, ?_⟩
          have hassoc : h ++ block.take (min 0xFFFF block.length) ++ rest ++ tail
              = h ++ block.take (min 0xFFFF block.length) ++ (rest ++ tail) := by simp
          rw [hassoc, ha4, header_parse a _ _ _ ha2 ha3 hn (by rw [List.length_take]; omega) (pf' + 1), hp]
          -- the chunks of the remainder start right after this slice
          have hchunks : chunks fuel a' (block.drop (min 0xFFFF block.length))
              = chunks fuel (a + min 0xFFFF block.length) (block.drop (min 0xFFFF block.length)) := by
            by_cases hd : block.drop (min 0xFFFF block.length) = []
            · rw [hd]; cases fuel <;> simp [chunks]
            · have := ha' hd
              have : a' = a + min 0xFFFF block.length := by omega
              rw [this]
          rw [hchunks]
          simp only [chunks, hb, ↓reduceIte, List.length_cons]
          have : pf' + 1 + 1 - ((chunks fuel (a + min 0xFFFF block.length) (block.drop (min 0xFFFF block.length))).length + 1)
               = pf' + 1 - (chunks fuel (a + min 0xFFFF block.length) (block.drop (min 0xFFFF block.length))).length := by omega
          rw [this]
          cases parseRecords (pf' + 1 - (chunks fuel (a + min 0xFFFF block.length) (block.drop (min 0xFFFF block.length))).length) tail <;> simp

end A816
