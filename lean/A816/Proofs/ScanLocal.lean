import A816.Proofs.ScanSim
/-!
# From similar states to whole scans (helper lemmas for C16)

* `scanLoop_fuel`: the fuel of the outer loop is irrelevant once it exceeds the remaining input.
* `Reach`: `s'` is a state the outer loop of `Scanner.scan` passes through (at the head of an iteration) after `s`.
* `scan_of_reach`: the result of a scan is the result of finishing the loop from any state it passes through.
* `finish_rel`: similar loop results give scan results with the same later tokens and the same error message.
* `scanLoop_skip_blanks`: at the head of an iteration of the initial state, blanks and newlines in front of the
  position are skipped without any other effect on the result.
-/
namespace A816.ScanS
open A816 Scan ScanB ScanT

theorem scanLoop_fuel (cfg : ScanCfg) (st : ScanState) : ∀ (n m : Nat) (s : Scan), s.input.size - s.pos < n →
    s.input.size - s.pos < m → scanLoop cfg st n s = scanLoop cfg st m s := by
  intro n
  induction n with
  | zero => intro m s h; omega
  | succ n ih =>
    intro m s hn hm
    cases m with
    | zero => omega
    | succ m =>
      unfold scanLoop
      by_cases hlt : s.pos < s.input.size
      · rw [if_pos hlt, if_pos hlt]
        have hp := prog_runState cfg st s
        cases hr : runState cfg st s with
        | error er => rfl
        | ok s1 =>
          rw [hr] at hp
          have hp1 : Le s s1 ∧ (s1.pos = s.pos → s1.toks.size = s.toks.size) := hp
          simp only []
          by_cases hg : (s1.pos == s.pos && s1.toks.size == s.toks.size) = true
          · rw [if_pos hg, if_pos hg]
          · rw [if_neg hg, if_neg hg]
            have hne : s1.pos ≠ s.pos := by
              intro he; apply hg; simp [he, hp1.2 he]
            have hlt1 : s.pos < s1.pos := by have := hp1.1.pos; omega
            exact ih m s1 (by rw [hp1.1.input]; omega) (by rw [hp1.1.input]; omega)
      · rw [if_neg hlt, if_neg hlt]

/-- `s'` is at the head of a later iteration of the outer loop started in `s` -/
inductive Reach (cfg : ScanCfg) (st : ScanState) : Scan → Scan → Prop
  | refl (s : Scan) : Reach cfg st s s
  | step {s s1 s' : Scan} : s.pos < s.input.size → runState cfg st s = .ok s1 →
      ¬ (s1.pos == s.pos && s1.toks.size == s.toks.size) = true → Reach cfg st s1 s' → Reach cfg st s s'

theorem Reach.le {cfg : ScanCfg} {st : ScanState} {s s' : Scan} (h : Reach cfg st s s') : Le s s' := by
  induction h with
  | refl s => exact Le.refl s
  | @step s s1 s' hlt hr hg _ ih =>
    have hp := prog_runState cfg st s
    rw [hr] at hp
    exact (show Le s s1 from hp.1).trans ih

theorem scanLoop_reach {cfg : ScanCfg} {st : ScanState} {s s' : Scan} (h : Reach cfg st s s') :
    ∀ (n m : Nat), s.input.size - s.pos < n → s'.input.size - s'.pos < m →
      scanLoop cfg st n s = scanLoop cfg st m s' := by
  induction h with
  | refl s => intro n m hn hm; exact scanLoop_fuel cfg st n m s hn hm
  | @step s s1 s' hlt hr hg _ ih =>
    intro n m hn hm
    cases n with
    | zero => omega
    | succ n =>
      have hp := prog_runState cfg st s
      rw [hr] at hp
      have hp1 : Le s s1 ∧ (s1.pos = s.pos → s1.toks.size = s.toks.size) := hp
      have hne : s1.pos ≠ s.pos := by
        intro he; apply hg; simp [he, hp1.2 he]
      have hlt1 : s.pos < s1.pos := by have := hp1.1.pos; omega
      have : scanLoop cfg st (n + 1) s = scanLoop cfg st n s1 := by
        conv => lhs; unfold scanLoop
        rw [if_pos hlt, hr]
        simp only []
        rw [if_neg hg]
      rw [this]
      exact ih n m (by rw [hp1.1.input]; omega) hm

/-- what `Scanner.scan` makes of the result of its loop -/
def finish (r : Except (Err × Scan) Scan) : ScanResult :=
  match r with
  | .ok s =>
    let s := (s.emit .EOF).handleLine
    ⟨s.toks, s.lines, none⟩
  | .error (.outOfFuel, s) => ⟨s.toks, s.lines, some .outOfFuel⟩
  | .error (e, s) =>
    match s.acceptRun ['\n', '\x00'] true with
    | .ok s2 => let s3 := s2.handleLine; ⟨s3.toks, s3.lines, some e⟩
    | .error _ => ⟨s.toks, s.lines, some .outOfFuel⟩

/-- the state `Scanner.scan` starts in -/
def initState (file : Nat) (input : List Char) : Scan := { input := input.toArray, file := file }

theorem scan_eq_finish (cfg : ScanCfg) (st : ScanState) (file : Nat) (input : List Char) :
    scan cfg st file input = finish (scanLoop cfg st (input.length + 1) (initState file input)) := by
  rfl

/-- the scan, finished from any state its loop passes through -/
theorem scan_of_reach (cfg : ScanCfg) (st : ScanState) (file : Nat) (input : List Char) (s : Scan)
    (h : Reach cfg st (initState file input) s) :
    scan cfg st file input = finish (scanLoop cfg st (s.input.size - s.pos + 1) s) := by
  rw [scan_eq_finish]
  congr 1
  exact scanLoop_reach h _ _ (by simp [initState]) (by omega)

/-- similar scan results: the tokens after the first `ka` / `kb` have the same types and texts, and the error (if any)
    is the same up to its position -/
def ResRel (ka kb : Nat) (r1 r2 : ScanResult) : Prop :=
  TokRel ka kb r1.toks r2.toks ∧ r1.error.map errKey = r2.error.map errKey

theorem errKey_outOfFuel (e : Err) : errKey e = .outOfFuel ↔ e = .outOfFuel := by
  cases e <;> simp [errKey]

variable {A B ka kb : Nat}

theorem finish_rel {r1 r2 : Except (Err × Scan) Scan} (h : RelR A B ka kb r1 r2) : ResRel ka kb (finish r1) (finish r2) := by
  cases r1 with
  | ok a =>
    cases r2 with
    | error e2 => obtain ⟨e, s⟩ := e2; exact h.elim
    | ok b =>
      have hs : Sim A B ka kb a b := h
      have := (hs.emit .EOF).toks
      exact ⟨by simpa [finish] using this, rfl⟩
  | error e1 =>
    cases r2 with
    | ok b => obtain ⟨e, s⟩ := e1; exact h.elim
    | error e2 =>
      obtain ⟨e1, a⟩ := e1
      obtain ⟨e2, b⟩ := e2
      have he : errKey e1 = errKey e2 := h.1
      have ht : TokRel ka kb a.toks b.toks := h.2
      by_cases h1 : e1 = .outOfFuel
      · have h2 : e2 = .outOfFuel := by
          rw [h1] at he
          exact (errKey_outOfFuel e2).mp he.symm
        subst h1; subst h2
        exact ⟨ht, rfl⟩
      · have h2 : e2 ≠ .outOfFuel := by
          intro h2; apply h1; rw [h2] at he; exact (errKey_outOfFuel e1).mp he
        obtain ⟨a2, ha2, _, _⟩ := acceptRun_ok a ['\n', '\x00'] true he_eol
        obtain ⟨b2, hb2, _, _⟩ := acceptRun_ok b ['\n', '\x00'] true he_eol
        have hta := acceptRun_toks a a2 _ _ ha2
        have htb := acceptRun_toks b b2 _ _ hb2
        have f1 : finish (.error (e1, a)) = ⟨a2.handleLine.toks, a2.handleLine.lines, some e1⟩ := by
          unfold finish
          split
          · rename_i heq; cases heq
          · rename_i heq; cases heq; exact absurd rfl h1
          · rename_i heq; cases heq; rw [ha2]
        have f2 : finish (.error (e2, b)) = ⟨b2.handleLine.toks, b2.handleLine.lines, some e2⟩ := by
          unfold finish
          split
          · rename_i heq; cases heq
          · rename_i heq; cases heq; exact absurd rfl h2
          · rename_i heq; cases heq; rw [hb2]
        rw [f1, f2]
        refine ⟨?_, by simp [he]⟩
        show TokRel ka kb a2.handleLine.toks b2.handleLine.toks
        rw [handleLine_toks, handleLine_toks, hta, htb]
        exact ht

/-! ## blanks in front of a token -/

theorem ignore_self (s : Scan) (h : s.start = s.pos) : s.ignore = s := by
  cases s; simp only [Scan.ignore] at *; subst h; rfl

theorem acceptRun_eof (s : Scan) (h : ¬ s.pos < s.input.size) (cands : List Char) (negate : Bool)
    (he : eofAccepts cands negate = false) : s.acceptRun cands negate = .ok s := by
  unfold Scan.acceptRun
  have : s.input.size - s.pos + 1 = 0 + 1 := by omega
  rw [this]
  unfold Scan.acceptRunAux
  simp only []
  rw [accept_eof s cands negate h, he]
  simp

theorem accept_eof_false (s : Scan) (h : ¬ s.pos < s.input.size) (cands : List Char)
    (h0 : cands.contains '\x00' = false) : ¬ (s.accept cands).2 = true := by
  rw [accept_eof s cands false h]
  unfold eofAccepts
  simp only [Bool.false_eq_true, ↓reduceIte]
  rw [h0]; simp

theorem acceptPrefix_eof (s : Scan) (h : ¬ s.pos < s.input.size) (pre : List Char) (hp : 0 < pre.length) :
    ¬ (s.acceptPrefix pre).2 = true := by
  unfold Scan.acceptPrefix
  rw [if_neg (by intro hc; have := hc.2; omega)]
  simp

/-- at the end of the input `lex_initial` does nothing -/
theorem lexInitial_eof (cfg : ScanCfg) (t : Scan) (h : ¬ t.pos < t.input.size) (hst : t.start = t.pos) :
    lexInitial cfg t = .ok t := by
  unfold lexInitial
  simp only []
  have hig : t.ignoreRun [' ', '\t', '\n'] = .ok t := by
    unfold Scan.ignoreRun
    rw [acceptRun_eof t h _ _ he_ws]
    simp only []
    rw [ignore_self t hst]
  rw [hig, ok_bind]
  have na := accept_eof_false t h
  have np := acceptPrefix_eof t h
  repeat (first | rw [if_neg (na _ (by decide))] | rw [if_neg (np _ (by decide))])
  have hn := next_pos_ge t h
  rw [hn.1, hn.2]
  rfl

/-- `accept_run` stops where `accept` fails -/
theorem acceptRunAux_stops (cands : List Char) (negate : Bool) : ∀ (n : Nat) (s s' : Scan),
    Scan.acceptRunAux cands negate n s = some s' → (s'.accept cands negate).2 = false := by
  intro n
  induction n with
  | zero =>
    intro s s' h
    unfold Scan.acceptRunAux at h
    split at h
    · cases h
    · rename_i hc; cases h; simpa using hc
  | succ n ih =>
    intro s s' h
    unfold Scan.acceptRunAux at h
    simp only at h
    split at h
    · exact ih _ _ h
    · rename_i hc; cases h; simpa using hc

theorem acceptRun_stops (s s' : Scan) (cands : List Char) (negate : Bool) (h : s.acceptRun cands negate = .ok s') :
    (s'.accept cands negate).2 = false := by
  unfold Scan.acceptRun at h
  split at h
  · rename_i s2 heq; cases h; exact acceptRunAux_stops _ _ _ _ _ heq
  · cases h

/-- `accept_run` where `accept` fails returns at once -/
theorem acceptRun_of_not (s : Scan) (cands : List Char) (negate : Bool) (h : (s.accept cands negate).2 = false) :
    s.acceptRun cands negate = .ok s := by
  unfold Scan.acceptRun
  unfold Scan.acceptRunAux
  simp only []
  rw [h]
  simp

theorem ignoreRun_idem (s t : Scan) (cands : List Char) (h : s.ignoreRun cands = .ok t) :
    t.ignoreRun cands = .ok t ∧ t.start = t.pos := by
  unfold Scan.ignoreRun at h
  cases hr : s.acceptRun cands with
  | error e => rw [hr] at h; cases h
  | ok u =>
    rw [hr] at h
    simp only [Except.ok.injEq] at h
    subst h
    have hst : u.ignore.start = u.ignore.pos := rfl
    refine ⟨?_, hst⟩
    have hstop := acceptRun_stops s u cands false hr
    have : (u.ignore.accept cands false).2 = false := by
      rw [accept_snd_congr u.ignore u cands rfl rfl]; exact hstop
    unfold Scan.ignoreRun
    rw [acceptRun_of_not _ _ _ this]
    simp only []
    rw [ignore_self _ hst]

theorem scanLoop_eof (cfg : ScanCfg) (st : ScanState) (n : Nat) (s : Scan) (h : ¬ s.pos < s.input.size) :
    scanLoop cfg st n s = .ok s := by
  cases n <;> (unfold scanLoop; rw [if_neg h])

/-- **blanks and newlines in front of the position are skipped without any other effect**: at the head of an iteration
    of the initial state (between tokens: `start = pos`), finishing the scan from `s` and from the state `t` reached by
    skipping the blanks gives the same result -/
theorem scanLoop_skip_blanks (cfg : ScanCfg) (s t : Scan) (hst : s.start = s.pos)
    (hr : s.ignoreRun [' ', '\t', '\n'] = .ok t) : ∀ (n m : Nat), s.input.size - s.pos < n → t.input.size - t.pos < m →
    scanLoop cfg .initial n s = scanLoop cfg .initial m t := by
  intro n m hn hm
  obtain ⟨hidem, htst⟩ := ignoreRun_idem s t _ hr
  have hlex : lexInitial cfg s = lexInitial cfg t := by
    unfold lexInitial
    simp only []
    rw [hr, hidem]
  have hle : Le s t := by have := good_ignoreRun s [' ', '\t', '\n'] he_ws; rw [hr] at this; exact this
  have same : t = s → scanLoop cfg .initial n s = scanLoop cfg .initial m t := by
    intro e; subst e; exact scanLoop_fuel cfg .initial n m t hn hm
  by_cases hs : s.pos < s.input.size
  · by_cases ha : (s.accept [' ', '\t', '\n']).2 = true
    · -- at least one blank is skipped
      have hlt : s.pos < t.pos := by
        unfold Scan.ignoreRun at hr
        cases hu : s.acceptRun [' ', '\t', '\n'] with
        | error e => rw [hu] at hr; cases hr
        | ok u =>
          rw [hu] at hr
          simp only [Except.ok.injEq] at hr
          subst hr
          exact acceptRun_lt s u _ false ha hs hu
      cases n with
      | zero => omega
      | succ n =>
        conv => lhs; unfold scanLoop
        rw [if_pos hs]
        have hrs : runState cfg .initial s = lexInitial cfg t := hlex
        have hrt : runState cfg .initial t = lexInitial cfg t := rfl
        rw [hrs]
        by_cases ht : t.pos < t.input.size
        · cases m with
          | zero => omega
          | succ m =>
            conv => rhs; unfold scanLoop
            rw [if_pos ht]
            rw [hrt]
            have hp := progI_lexInitial cfg t
            cases hl : lexInitial cfg t with
            | error e => rfl
            | ok s' =>
              rw [hl] at hp
              have hp1 : Le t s' ∧ (s'.pos = t.pos → s'.toks.size = t.toks.size ∧ ¬ s'.pos < s'.input.size) := hp
              have hne : s'.pos ≠ t.pos := by
                intro e
                have := (hp1.2 e).2
                rw [hp1.1.input, e] at this
                exact this ht
              have hpos := hp1.1.pos
              simp only []
              rw [if_neg (by simp only [Bool.and_eq_true, beq_iff_eq]; intro hc; omega),
                  if_neg (by simp only [Bool.and_eq_true, beq_iff_eq]; intro hc; exact hne hc.1)]
              exact scanLoop_fuel cfg .initial n m s' (by rw [hp1.1.input, hle.input]; omega) (by rw [hp1.1.input]; omega)
        · rw [lexInitial_eof cfg t ht htst, scanLoop_eof cfg .initial m t ht]
          simp only []
          rw [if_neg (by simp only [Bool.and_eq_true, beq_iff_eq]; intro hc; omega)]
          exact scanLoop_eof cfg .initial n t ht
    · -- nothing to skip
      apply same
      have hf : (s.accept [' ', '\t', '\n'] false).2 = false := by simpa using ha
      unfold Scan.ignoreRun at hr
      rw [acceptRun_of_not s _ _ hf] at hr
      simp only [Except.ok.injEq] at hr
      rw [← hr, ignore_self s hst]
  · apply same
    unfold Scan.ignoreRun at hr
    rw [acceptRun_eof s hs _ _ he_ws] at hr
    simp only [Except.ok.injEq] at hr
    rw [← hr, ignore_self s hst]

/-! ## what `ignore_run` skips, as a list function -/

theorem drop_peek (s : Scan) (h : s.pos < s.input.size) :
    s.input.toList.drop s.pos = s.peek :: s.input.toList.drop (s.pos + 1) := by
  have hl : s.pos < s.input.toList.length := by simpa using h
  rw [List.drop_eq_getElem_cons hl]
  congr 1
  unfold Scan.peek
  simp only [Nat.add_zero]
  rw [Array.getD_eq_getD_getElem?, Array.getElem?_eq_getElem h]
  simp

theorem accept_snd (s : Scan) (cands : List Char) : (s.accept cands false).2 = cands.contains s.peek := by
  unfold Scan.accept Scan.acceptTest
  simp only [Bool.false_eq_true, ↓reduceIte]
  split <;> simp_all

theorem acceptRunAux_dropWhile (cands : List Char) (h0 : cands.contains '\x00' = false) : ∀ (n : Nat) (s u : Scan),
    Scan.acceptRunAux cands false n s = some u →
    u.input = s.input ∧ u.input.toList.drop u.pos = (s.input.toList.drop s.pos).dropWhile (fun c => cands.contains c) ∧
    (s.pos ≤ s.input.size → u.pos ≤ u.input.size) := by
  have stop : ∀ (s : Scan), (s.accept cands false).2 = false →
      s.input.toList.drop s.pos = (s.input.toList.drop s.pos).dropWhile (fun c => cands.contains c) := by
    intro s hf
    by_cases hlt : s.pos < s.input.size
    · rw [drop_peek s hlt, List.dropWhile_cons_of_neg]
      rw [accept_snd] at hf
      show ¬ (cands.contains s.peek = true)
      rw [hf]; simp
    · rw [List.drop_of_length_le (by simp; omega)]; rfl
  have go : ∀ (s : Scan), (s.accept cands false).2 = true →
      (s.accept cands false).1.input = s.input ∧ (s.accept cands false).1.pos = s.pos + 1 ∧ s.pos < s.input.size ∧
      (s.input.toList.drop s.pos).dropWhile (fun c => cands.contains c)
        = (s.input.toList.drop (s.pos + 1)).dropWhile (fun c => cands.contains c) := by
    intro s ht
    have hlt := accept_true_lt s cands h0 ht
    refine ⟨(accept_step s cands false).1, (accept_step s cands false).2.1 ht hlt, hlt, ?_⟩
    rw [drop_peek s hlt, List.dropWhile_cons_of_pos]
    rw [accept_snd] at ht
    show cands.contains s.peek = true
    exact ht
  intro n
  induction n with
  | zero =>
    intro s u h
    unfold Scan.acceptRunAux at h
    split at h
    · cases h
    · rename_i hc; cases h
      exact ⟨rfl, stop _ (by simpa using hc), fun x => x⟩
  | succ n ih =>
    intro s u h
    unfold Scan.acceptRunAux at h
    simp only at h
    split at h
    · rename_i hc
      obtain ⟨g1, g2, g3, g4⟩ := go s hc
      obtain ⟨i1, i2, i3⟩ := ih _ _ h
      refine ⟨by rw [i1, g1], ?_, fun _ => i3 (by rw [g1, g2]; omega)⟩
      rw [i2, g1, g2, g4]
    · rename_i hc; cases h
      exact ⟨rfl, stop _ (by simpa using hc), fun x => x⟩

/-- the state after `ignore_run(cands)`: the same scan, positioned after the longest run of candidates -/
theorem ignoreRun_dropWhile (s t : Scan) (cands : List Char) (h0 : cands.contains '\x00' = false)
    (h : s.ignoreRun cands = .ok t) :
    t.input = s.input ∧ t.input.toList.drop t.pos = (s.input.toList.drop s.pos).dropWhile (fun c => cands.contains c) ∧
    (s.pos ≤ s.input.size → t.pos ≤ t.input.size) := by
  unfold Scan.ignoreRun at h
  cases hu : s.acceptRun cands with
  | error e => rw [hu] at h; cases h
  | ok u =>
    rw [hu] at h
    simp only [Except.ok.injEq] at h
    subst h
    unfold Scan.acceptRun at hu
    split at hu
    · rename_i u' heq; cases hu
      exact acceptRunAux_dropWhile cands h0 _ _ u heq
    · cases hu

theorem Sim.ofBoundary (a b : Scan) (ha : a.start = a.pos) (hb : b.start = b.pos) (hpa : a.pos ≤ a.input.size)
    (hpb : b.pos ≤ b.input.size) (hrest : a.input.toList.drop a.pos = b.input.toList.drop b.pos) :
    Sim a.pos b.pos a.toks.size b.toks.size a b := by
  refine ⟨hrest, hpa, hpb, by omega, by omega, by omega, by omega, by omega, by omega, ⟨Nat.le_refl _, Nat.le_refl _, ?_⟩⟩
  rw [List.drop_of_length_le (by simp), List.drop_of_length_le (by simp)]

/-- executable reachability: the state at the head of the `k`-th later iteration -/
def iter (cfg : ScanCfg) (st : ScanState) : Nat → Scan → Option Scan
  | 0, s => some s
  | k+1, s =>
    if s.pos < s.input.size then
      match runState cfg st s with
      | .ok s1 => if (s1.pos == s.pos && s1.toks.size == s.toks.size) = true then none else iter cfg st k s1
      | .error _ => none
    else none

theorem reach_iter (cfg : ScanCfg) (st : ScanState) : ∀ (k : Nat) (s s' : Scan), iter cfg st k s = some s' →
    Reach cfg st s s' := by
  intro k
  induction k with
  | zero => intro s s' h; unfold iter at h; cases h; exact Reach.refl _
  | succ k ih =>
    intro s s' h
    unfold iter at h
    by_cases hlt : s.pos < s.input.size
    · rw [if_pos hlt] at h
      cases hr : runState cfg st s with
      | error e => rw [hr] at h; cases h
      | ok s1 =>
        rw [hr] at h
        simp only [] at h
        by_cases hg : (s1.pos == s.pos && s1.toks.size == s.toks.size) = true
        · rw [if_pos hg] at h; cases h
        · rw [if_neg hg] at h
          exact Reach.step hlt hr hg (ih _ _ h)
    · rw [if_neg hlt] at h; cases h

end A816.ScanS
