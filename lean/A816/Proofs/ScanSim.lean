import A816.Proofs.ScanTotal
/-!
# The scanner is local: what it does depends only on the text from the current token on (helper lemmas for C16)

Two scans — of different texts, at different positions — are *similar* (`Sim A B ka kb a b`) when the text of `a` from its base
point `A` on is the text of `b` from `B` on, both are at the same distance from their base points (token start and
position), and the tokens emitted so far have the same types and texts (`key`; positions, line bookkeeping and file are
not compared).  Every scanner primitive and every state function of `scanner_states.py` takes similar states to similar
results (`RelR`): the same branch is taken, the same token types and texts are emitted, the same error message is raised.
Hence the token stream after a point where the scanner is between tokens is a function of the remaining text alone
(`scanLoop_sim`): what stands before that point — and how it was laid out — cannot influence it.
-/
namespace A816.ScanS
open A816 Scan ScanB ScanT

/-- what the parser reads of a token -/
def key (t : Tok) : TokTy × String := (t.ty, t.val)

/-- the tokens emitted after the first `ka` (resp. `kb`) have the same types and texts -/
structure TokRel (ka kb : Nat) (ta tb : Array Tok) : Prop where
  la : ka ≤ ta.size
  lb : kb ≤ tb.size
  eq : (ta.toList.drop ka).map key = (tb.toList.drop kb).map key

structure Sim (A B ka kb : Nat) (a b : Scan) : Prop where
  rest : a.input.toList.drop A = b.input.toList.drop B
  ia : A ≤ a.input.size
  ib : B ≤ b.input.size
  sa : A ≤ a.start
  sb : B ≤ b.start
  pa : a.start ≤ a.pos
  pb : b.start ≤ b.pos
  start : a.start + B = b.start + A
  pos : a.pos + B = b.pos + A
  toks : TokRel ka kb a.toks b.toks

/-- an exception without its position -/
def errKey : Err → Err
  | .scan msg _ _ => .scan msg 0 0
  | e => e

/-- similar results: both return similar states, or both raise the same exception (up to its position) having
    emitted the same tokens -/
def RelR (A B ka kb : Nat) (r1 r2 : SR) : Prop :=
  match r1, r2 with
  | .ok a, .ok b => Sim A B ka kb a b
  | .error (e1, a), .error (e2, b) => errKey e1 = errKey e2 ∧ TokRel ka kb a.toks b.toks
  | _, _ => False

variable {A B ka kb : Nat}

theorem RelR.bind {r1 r2 : SR} {f g : Scan → SR} (h : RelR A B ka kb r1 r2)
    (hf : ∀ a b, Sim A B ka kb a b → RelR A B ka kb (f a) (g b)) : RelR A B ka kb (r1 >>= f) (r2 >>= g) := by
  cases r1 with
  | error e1 =>
    cases r2 with
    | error e2 => exact h
    | ok b => exact h.elim
  | ok a =>
    cases r2 with
    | error e2 => obtain ⟨e, s⟩ := e2; exact h.elim
    | ok b => exact hf a b h

theorem RelR.ok {a b : Scan} (h : Sim A B ka kb a b) : RelR A B ka kb (.ok a) (.ok b) := h
theorem RelR.pure {a b : Scan} (h : Sim A B ka kb a b) : RelR A B ka kb (pure a) (pure b) := h

/-! ## reading the text -/

theorem getD_drop (arr : Array Char) (A i : Nat) (h : A ≤ i) (d : Char) :
    arr.getD i d = (arr.toList.drop A).getD (i - A) d := by
  rw [Array.getD_eq_getD_getElem?, List.getD_eq_getElem?_getD, List.getElem?_drop]
  have : A + (i - A) = i := by omega
  rw [this]
  simp

theorem Sim.sizes {a b : Scan} (h : Sim A B ka kb a b) : a.input.size - A = b.input.size - B := by
  have := congrArg List.length h.rest
  simpa using this

theorem Sim.peek {a b : Scan} (h : Sim A B ka kb a b) (k : Nat) : a.peek k = b.peek k := by
  unfold Scan.peek
  rw [getD_drop a.input A (a.pos + k) (by have := h.sa; have := h.pa; omega),
      getD_drop b.input B (b.pos + k) (by have := h.sb; have := h.pb; omega), h.rest]
  have : a.pos + k - A = b.pos + k - B := by
    have := h.pos; have := h.sa; have := h.pa; have := h.sb; have := h.pb; omega
  rw [this]

theorem Sim.lt_iff {a b : Scan} (h : Sim A B ka kb a b) : a.pos < a.input.size ↔ b.pos < b.input.size := by
  have := h.sizes; have := h.pos; have := h.sa; have := h.pa; have := h.sb; have := h.pb; have := h.ia; have := h.ib
  omega

theorem Sim.remaining {a b : Scan} (h : Sim A B ka kb a b) : a.input.size - a.pos = b.input.size - b.pos := by
  have := h.sizes; have := h.pos; have := h.sa; have := h.pa; have := h.sb; have := h.pb; have := h.ia; have := h.ib
  omega

/-- the text from a point at or after the base points on -/
theorem Sim.drop_eq {a b : Scan} (h : Sim A B ka kb a b) (i j : Nat) (hi : A ≤ i) (_hj : B ≤ j) (hij : i + B = j + A) :
    a.input.toList.drop i = b.input.toList.drop j := by
  have e1 : a.input.toList.drop i = (a.input.toList.drop A).drop (i - A) := by
    rw [List.drop_drop]; congr 1; omega
  have e2 : b.input.toList.drop j = (b.input.toList.drop B).drop (j - B) := by
    rw [List.drop_drop]; congr 1; omega
  rw [e1, e2, h.rest]
  congr 1; omega

theorem Sim.slice {a b : Scan} (h : Sim A B ka kb a b) (n m : Nat) (hnm : n + b.start = m + a.start) :
    a.slice a.start n = b.slice b.start m := by
  unfold Scan.slice
  rw [h.drop_eq a.start b.start h.sa h.sb h.start]
  congr 2
  have := h.start; omega

theorem Sim.tokenText {a b : Scan} (h : Sim A B ka kb a b) : a.tokenText = b.tokenText := by
  unfold Scan.tokenText
  exact h.slice _ _ (by have := h.start; have := h.pos; omega)

/-! ## primitives -/

@[simp] theorem handleLine_start (s : Scan) : s.handleLine.start = s.start := by
  unfold handleLine; split <;> rfl
@[simp] theorem handleLine_toks (s : Scan) : s.handleLine.toks = s.toks := by
  unfold handleLine; split <;> rfl

theorem next_fields (s : Scan) : (s.next).1.start = s.start ∧ (s.next).1.toks = s.toks ∧ (s.next).1.input = s.input ∧
    (s.next).1.pos = (if s.pos < s.input.size then s.pos + 1 else s.pos) ∧
    (s.next).2 = (if s.pos < s.input.size then some s.peek else none) := by
  unfold Scan.next
  by_cases h : s.pos < s.input.size
  · simp only [h, ↓reduceDIte, ↓reduceIte]
    refine ⟨?_, ?_, ?_, ?_, ?_⟩
    · split <;> simp
    · split <;> simp
    · split <;> simp
    · split <;> simp
    · unfold Scan.peek
      simp only [Nat.add_zero]
      rw [Array.getD_eq_getD_getElem?, Array.getElem?_eq_getElem h]
      rfl
  · simp [h]

theorem Sim.next {a b : Scan} (h : Sim A B ka kb a b) : Sim A B ka kb (a.next).1 (b.next).1 ∧ (a.next).2 = (b.next).2 := by
  obtain ⟨a1, a2, a3, a4, a5⟩ := next_fields a
  obtain ⟨b1, b2, b3, b4, b5⟩ := next_fields b
  have hlt := h.lt_iff
  refine ⟨⟨by rw [a3, b3]; exact h.rest, by rw [a3]; exact h.ia, by rw [b3]; exact h.ib, by rw [a1]; exact h.sa, by rw [b1]; exact h.sb, ?_, ?_, by rw [a1, b1]; exact h.start, ?_,
    by rw [a2, b2]; exact h.toks⟩, ?_⟩
  · rw [a1, a4]; have := h.pa; split <;> omega
  · rw [b1, b4]; have := h.pb; split <;> omega
  · rw [a4, b4]
    have := h.pos
    by_cases hc : a.pos < a.input.size
    · rw [if_pos hc, if_pos (hlt.mp hc)]; omega
    · rw [if_neg hc, if_neg (fun x => hc (hlt.mpr x))]; omega
  · rw [a5, b5, h.peek 0]
    by_cases hc : a.pos < a.input.size
    · rw [if_pos hc, if_pos (hlt.mp hc)]
    · rw [if_neg hc, if_neg (fun x => hc (hlt.mpr x))]

theorem Sim.acceptTest {a b : Scan} (h : Sim A B ka kb a b) (cands : List Char) (negate : Bool) :
    a.acceptTest cands negate = b.acceptTest cands negate := by
  unfold Scan.acceptTest
  rw [h.peek 0]

theorem Sim.accept {a b : Scan} (h : Sim A B ka kb a b) (cands : List Char) (negate : Bool) :
    Sim A B ka kb (a.accept cands negate).1 (b.accept cands negate).1 ∧
    (a.accept cands negate).2 = (b.accept cands negate).2 := by
  unfold Scan.accept
  rw [h.acceptTest cands negate]
  split
  · exact ⟨h.next.1, rfl⟩
  · exact ⟨h, rfl⟩

theorem Sim.acceptPrefix {a b : Scan} (h : Sim A B ka kb a b) (pre : List Char) :
    Sim A B ka kb (a.acceptPrefix pre).1 (b.acceptPrefix pre).1 ∧ (a.acceptPrefix pre).2 = (b.acceptPrefix pre).2 := by
  unfold Scan.acceptPrefix
  have hd := h.drop_eq a.pos b.pos (Nat.le_trans h.sa h.pa) (Nat.le_trans h.sb h.pb) h.pos
  have hsz : a.pos + pre.length ≤ a.input.size ↔ b.pos + pre.length ≤ b.input.size := by
    have := h.sizes; have := h.pos; have := h.sa; have := h.pa; have := h.sb; have := h.pb; have := h.ia; have := h.ib
    omega
  rw [hd]
  by_cases hc : (b.input.toList.drop b.pos).take pre.length = pre ∧ b.pos + pre.length ≤ b.input.size
  · rw [if_pos hc, if_pos ⟨hc.1, hsz.mpr hc.2⟩]
    refine ⟨⟨h.rest, h.ia, h.ib, h.sa, h.sb, ?_, ?_, h.start, ?_, h.toks⟩, rfl⟩
    · show a.start ≤ a.pos + pre.length; have := h.pa; omega
    · show b.start ≤ b.pos + pre.length; have := h.pb; omega
    · show a.pos + pre.length + B = b.pos + pre.length + A; have := h.pos; omega
  · rw [if_neg hc, if_neg (fun x => hc ⟨x.1, hsz.mp x.2⟩)]
    exact ⟨h, rfl⟩

/-- similar optional states -/
def RelO (A B ka kb : Nat) : Option Scan → Option Scan → Prop
  | some a, some b => Sim A B ka kb a b
  | none, none => True
  | _, _ => False

theorem Sim.acceptRunAux (cands : List Char) (negate : Bool) : ∀ (n : Nat) (a b : Scan), Sim A B ka kb a b →
    RelO A B ka kb (acceptRunAux cands negate n a) (acceptRunAux cands negate n b) := by
  intro n
  induction n with
  | zero =>
    intro a b h
    unfold A816.Scan.acceptRunAux
    rw [(h.accept cands negate).2]
    by_cases hc : (b.accept cands negate).2 = true
    · rw [if_pos hc, if_pos hc]; trivial
    · rw [if_neg hc, if_neg hc]; exact h
  | succ n ih =>
    intro a b h
    unfold A816.Scan.acceptRunAux
    simp only
    rw [(h.accept cands negate).2]
    by_cases hc : (b.accept cands negate).2 = true
    · rw [if_pos hc, if_pos hc]; exact ih _ _ (h.accept cands negate).1
    · rw [if_neg hc, if_neg hc]; exact h

theorem Sim.acceptRun {a b : Scan} (h : Sim A B ka kb a b) (cands : List Char) (negate : Bool) :
    RelR A B ka kb (a.acceptRun cands negate) (b.acceptRun cands negate) := by
  unfold Scan.acceptRun
  rw [h.remaining]
  have := Sim.acceptRunAux cands negate (b.input.size - b.pos + 1) a b h
  revert this
  cases Scan.acceptRunAux cands negate (b.input.size - b.pos + 1) a <;>
    cases Scan.acceptRunAux cands negate (b.input.size - b.pos + 1) b <;> intro this
  · exact ⟨rfl, h.toks⟩
  · exact this.elim
  · exact this.elim
  · exact this

theorem Sim.ignore {a b : Scan} (h : Sim A B ka kb a b) : Sim A B ka kb a.ignore b.ignore :=
  ⟨h.rest, h.ia, h.ib, Nat.le_trans h.sa h.pa, Nat.le_trans h.sb h.pb, Nat.le_refl _, Nat.le_refl _, h.pos, h.pos, h.toks⟩

theorem Sim.ignoreRun {a b : Scan} (h : Sim A B ka kb a b) (cands : List Char) :
    RelR A B ka kb (a.ignoreRun cands) (b.ignoreRun cands) := by
  unfold Scan.ignoreRun
  have := h.acceptRun cands false
  revert this
  cases a.acceptRun cands <;> cases b.acceptRun cands <;> intro this
  · exact this
  · exact this.elim
  · rename_i e; obtain ⟨e, s⟩ := e; exact this.elim
  · exact Sim.ignore this

theorem TokRel.push {ta tb : Array Tok} (h : TokRel ka kb ta tb) (x y : Tok) (hxy : key x = key y) :
    TokRel ka kb (ta.push x) (tb.push y) := by
  refine ⟨by rw [Array.size_push]; have := h.la; omega, by rw [Array.size_push]; have := h.lb; omega, ?_⟩
  have ha : ka ≤ ta.toList.length := by simpa using h.la
  have hb : kb ≤ tb.toList.length := by simpa using h.lb
  rw [Array.toList_push, Array.toList_push, List.drop_append_of_le_length ha, List.drop_append_of_le_length hb]
  simp only [List.map_append, List.map_cons, List.map_nil, h.eq, hxy]

theorem Sim.emit {a b : Scan} (h : Sim A B ka kb a b) (ty : TokTy) : Sim A B ka kb (a.emit ty) (b.emit ty) := by
  refine ⟨h.rest, h.ia, h.ib, Nat.le_trans h.sa h.pa, Nat.le_trans h.sb h.pb, Nat.le_refl _, Nat.le_refl _, h.pos, h.pos, ?_⟩
  show TokRel ka kb (a.toks.push _) (b.toks.push _)
  apply h.toks.push
  simp only [key, h.tokenText]

theorem Sim.backup {a b : Scan} (h : Sim A B ka kb a b) (hlt : a.start < a.pos) : Sim A B ka kb a.backup b.backup := by
  have := h.start; have := h.pos
  refine ⟨h.rest, h.ia, h.ib, h.sa, h.sb, ?_, ?_, h.start, ?_, h.toks⟩
  · show a.start ≤ a.pos - 1; omega
  · show b.start ≤ b.pos - 1; omega
  · show a.pos - 1 + B = b.pos - 1 + A; omega

theorem Sim.setPos {a b : Scan} (h : Sim A B ka kb a b) (p q : Nat) (hp : a.start ≤ p) (hpq : p + B = q + A) :
    Sim A B ka kb { a with pos := p } { b with pos := q } := by
  have := h.start
  exact ⟨h.rest, h.ia, h.ib, h.sa, h.sb, hp, by show b.start ≤ q; omega, h.start, hpq, h.toks⟩

theorem Sim.errKey {a b : Scan} (_h : Sim A B ka kb a b) (m1 m2 : String) (hm : m1 = m2) :
    errKey (a.err m1) = errKey (b.err m2) := by
  subst hm; rfl


/-! ## state functions -/

theorem sim_lexIdentifier {a b : Scan} (h : Sim A B ka kb a b) : RelR A B ka kb (lexIdentifier a) (lexIdentifier b) := by
  unfold lexIdentifier
  simp only []
  apply RelR.bind (h.acceptRun identChars false)
  intro a1 b1 h1
  rw [h1.peek 0, h1.peek 1]
  by_cases hc : (b1.peek == ':' && b1.peek 1 != '=') = true
  · rw [if_pos hc, if_pos hc]
    exact RelR.pure ((h1.emit .LABEL).next.1.ignore)
  · rw [if_neg hc, if_neg hc]
    by_cases hd : (b1.peek == '.') = true
    · rw [if_pos hd, if_pos hd]
      apply RelR.bind ((h1.next.1).acceptRun identChars false)
      intro a2 b2 h2; exact RelR.pure (h2.emit _)
    · rw [if_neg hd, if_neg hd]; exact RelR.pure (h1.emit _)


theorem sim_lexNumber {a b : Scan} (h : Sim A B ka kb a b) (hlt : a.start < a.pos) : RelR A B ka kb (lexNumber a) (lexNumber b) := by
  unfold lexNumber
  simp only []
  have h0 := (h.backup hlt).next
  rw [h0.2, h0.1.peek 0]
  by_cases hc : ((b.backup.next).1.peek == '\n' || (b.backup.next).1.peek == '\x00') = true
  · rw [if_pos hc, if_pos hc]; exact RelR.pure (h0.1.emit _)
  · rw [if_neg hc, if_neg hc]
    by_cases hz : ((b.backup.next).2 == some '0') = true
    · rw [if_pos hz, if_pos hz]
      have h1 := h0.1.next
      rw [h1.2]
      by_cases hb : (((b.backup.next).1.next).2 == some 'b') = true
      · rw [if_pos hb, if_pos hb]
        apply RelR.bind (h1.1.acceptRun _ false); intro a2 b2 h2; exact RelR.pure (h2.emit _)
      · rw [if_neg hb, if_neg hb]
        by_cases ho : (((b.backup.next).1.next).2 == some 'o') = true
        · rw [if_pos ho, if_pos ho]
          apply RelR.bind (h1.1.acceptRun _ false); intro a2 b2 h2; exact RelR.pure (h2.emit _)
        · rw [if_neg ho, if_neg ho]
          by_cases hx : (((b.backup.next).1.next).2 == some 'x') = true
          · rw [if_pos hx, if_pos hx]
            apply RelR.bind (h1.1.acceptRun _ false); intro a2 b2 h2; exact RelR.pure (h2.emit _)
          · rw [if_neg hx, if_neg hx]
            have hz' : ((a.backup.next).2 == some '0') = true := by rw [h0.2]; exact hz
            obtain ⟨x1, _, x3, x4, x5⟩ := next_fields a.backup
            obtain ⟨y1, _, _, y4, _⟩ := next_fields (a.backup.next).1
            have hxlt : a.backup.pos < a.backup.input.size := by
              by_cases hq : a.backup.pos < a.backup.input.size
              · exact hq
              · rw [x5, if_neg hq] at hz'; simp at hz'
            have hbp : a.backup.pos = a.pos - 1 := rfl
            have hbs : a.backup.start = a.start := rfl
            refine RelR.pure ((h1.1.backup ?_).emit _)
            rw [y1, x1, hbs, y4, x4, if_pos hxlt, hbp]
            split <;> omega
    · rw [if_neg hz, if_neg hz]
      apply RelR.bind (h0.1.acceptRun _ false); intro a2 b2 h2; exact RelR.pure (h2.emit _)


theorem sim_quotedLoop (e1 e2 : Err) (he : errKey e1 = errKey e2) : ∀ (n : Nat) (a b : Scan) (c : Option Char),
    Sim A B ka kb a b → RelR A B ka kb (quotedLoop e1 n a c) (quotedLoop e2 n b c) := by
  intro n
  induction n with
  | zero => intro a b c h; unfold quotedLoop; exact ⟨rfl, h.toks⟩
  | succ n ih =>
    intro a b c h
    unfold quotedLoop
    by_cases h1 : (c == some '\'') = true
    · rw [if_pos h1, if_pos h1]; exact h
    · rw [if_neg h1, if_neg h1]
      by_cases h2 : (c == some '\n' || c == none) = true
      · rw [if_pos h2, if_pos h2]; exact ⟨he, h.toks⟩
      · rw [if_neg h2, if_neg h2]
        have hs : Sim A B ka kb (if (c == some '\\' && a.peek == '\'') = true then (a.next).1 else a)
            (if (c == some '\\' && b.peek == '\'') = true then (b.next).1 else b) := by
          rw [h.peek 0]
          split
          · exact h.next.1
          · exact h
        rw [hs.next.2]
        exact ih _ _ _ hs.next.1

theorem sim_lexQuotedString {a b : Scan} (h : Sim A B ka kb a b) : RelR A B ka kb (lexQuotedString a) (lexQuotedString b) := by
  unfold lexQuotedString
  simp only []
  rw [h.next.2, h.remaining]
  apply RelR.bind (sim_quotedLoop _ _ (h.errKey _ _ rfl) _ _ _ _ h.next.1)
  intro a2 b2 h2; exact RelR.pure (h2.emit _)

theorem sim_lineCommentLoop : ∀ (n : Nat) (a b : Scan), Sim A B ka kb a b → RelR A B ka kb (lineCommentLoop n a) (lineCommentLoop n b) := by
  intro n
  induction n with
  | zero => intro a b h; unfold lineCommentLoop; exact ⟨rfl, h.toks⟩
  | succ n ih =>
    intro a b h
    unfold lineCommentLoop
    rw [h.next.2]
    by_cases hc : ((b.next).2 == some '\n' || (b.next).2 == none) = true
    · rw [if_pos hc, if_pos hc]; exact h.next.1
    · rw [if_neg hc, if_neg hc]; exact ih _ _ h.next.1

theorem sim_blockCommentLoop (e1 e2 : Err) (he : errKey e1 = errKey e2) : ∀ (n : Nat) (a b : Scan), Sim A B ka kb a b →
    RelR A B ka kb (blockCommentLoop e1 n a) (blockCommentLoop e2 n b) := by
  intro n
  induction n with
  | zero => intro a b h; unfold blockCommentLoop; exact ⟨rfl, h.toks⟩
  | succ n ih =>
    intro a b h
    unfold blockCommentLoop
    rw [(h.acceptPrefix _).2]
    by_cases hc : (b.acceptPrefix ['*', '/']).2 = true
    · rw [if_pos hc, if_pos hc]; exact (h.acceptPrefix _).1
    · rw [if_neg hc, if_neg hc, h.next.2]
      by_cases hn : ((b.next).2 == none) = true
      · rw [if_pos hn, if_pos hn]; exact ⟨he, h.next.1.toks⟩
      · rw [if_neg hn, if_neg hn]; exact ih _ _ h.next.1

theorem sim_lexKeyword (cfg : ScanCfg) {a b : Scan} (h : Sim A B ka kb a b) : RelR A B ka kb (lexKeyword cfg a) (lexKeyword cfg b) := by
  unfold lexKeyword
  simp only []
  apply RelR.bind (h.ignore.acceptRun _ false)
  intro a1 b1 h1
  rw [h1.tokenText]
  by_cases hc : cfg.keywords.contains b1.tokenText = true
  · rw [if_pos hc, if_pos hc]; exact RelR.pure (h1.emit _)
  · rw [if_neg hc, if_neg hc]; exact ⟨h1.errKey _ _ rfl, h1.toks⟩

theorem sim_lexOpcodeIndex {a b : Scan} (h : Sim A B ka kb a b) : RelR A B ka kb (lexOpcodeIndex a) (lexOpcodeIndex b) := by
  unfold lexOpcodeIndex
  simp only []
  apply RelR.bind (h.ignore.ignoreRun _)
  intro a1 b1 h1
  rw [(h1.accept _ false).2]
  by_cases hc : (b1.accept (chars "xXyYsS")).2 = true
  · rw [if_pos hc, if_pos hc]; exact RelR.pure ((h1.accept _ false).1.emit _)
  · rw [if_neg hc, if_neg hc]; exact ⟨h1.errKey _ _ rfl, h1.toks⟩


theorem accept_start (s : Scan) (cands : List Char) (negate : Bool) : (s.accept cands negate).1.start = s.start := by
  unfold Scan.accept
  split
  · exact (next_fields s).1
  · rfl

theorem accept_start_lt (s : Scan) (cands : List Char) (h0 : cands.contains '\x00' = false) (hs : s.start ≤ s.pos)
    (ha : (s.accept cands).2 = true) : (s.accept cands).1.start < (s.accept cands).1.pos := by
  have := accept_lt s cands h0 ha
  rw [accept_start]; omega

theorem sim_lexExpressionLoop : ∀ (n : Nat) (a b : Scan), Sim A B ka kb a b →
    RelR A B ka kb (lexExpressionLoop n a) (lexExpressionLoop n b) := by
  intro n
  induction n with
  | zero =>
    intro a b h
    unfold lexExpressionLoop
    by_cases hlt : b.pos < b.input.size
    · rw [if_pos (h.lt_iff.mpr hlt), if_pos hlt]; exact ⟨rfl, h.toks⟩
    · rw [if_neg (fun x => hlt (h.lt_iff.mp x)), if_neg hlt]; exact h
  | succ n ih =>
    intro a b h
    unfold lexExpressionLoop
    by_cases hlt : b.pos < b.input.size
    · rw [if_pos (h.lt_iff.mpr hlt), if_pos hlt]
      simp only []
      apply RelR.bind (h.ignoreRun _)
      intro a1 b1 h1
      rw [(h1.accept digitChars false).2]
      by_cases hd : (b1.accept digitChars).2 = true
      · rw [if_pos hd, if_pos hd]
        have hd' : (a1.accept digitChars).2 = true := by rw [(h1.accept digitChars false).2]; exact hd
        apply RelR.bind (sim_lexNumber (h1.accept digitChars false).1 (accept_start_lt a1 _ nul_digit h1.pa hd'))
        intro a2 b2 h2; exact ih _ _ h2
      · rw [if_neg hd, if_neg hd, (h1.accept letterChars false).2]
        by_cases hl : (b1.accept letterChars).2 = true
        · rw [if_pos hl, if_pos hl]
          apply RelR.bind (sim_lexIdentifier (h1.accept letterChars false).1)
          intro a2 b2 h2; exact ih _ _ h2
        · rw [if_neg hl, if_neg hl, (h1.accept (chars "+-*/&|~") false).2]
          by_cases h1o : (b1.accept (chars "+-*/&|~")).2 = true
          · rw [if_pos h1o, if_pos h1o]; dsimp only; rw [if_pos rfl, if_pos rfl]
            exact ih _ _ ((h1.accept _ false).1.emit _)
          · rw [if_neg h1o, if_neg h1o, (h1.acceptPrefix (chars "<<")).2]
            by_cases h2o : (b1.acceptPrefix (chars "<<")).2 = true
            · rw [if_pos h2o, if_pos h2o]; dsimp only; rw [if_pos rfl, if_pos rfl]
              exact ih _ _ ((h1.acceptPrefix _).1.emit _)
            · rw [if_neg h2o, if_neg h2o, (h1.acceptPrefix (chars ">>")).2]
              by_cases h3o : (b1.acceptPrefix (chars ">>")).2 = true
              · rw [if_pos h3o, if_pos h3o]
                exact ih _ _ ((h1.acceptPrefix _).1.emit _)
              · rw [if_neg h3o, if_neg h3o, (h1.accept ['('] false).2]
                by_cases h4 : (b1.accept ['(']).2 = true
                · rw [if_pos h4, if_pos h4]; exact ih _ _ ((h1.accept _ false).1.emit _)
                · rw [if_neg h4, if_neg h4, (h1.accept [')'] false).2]
                  by_cases h5 : (b1.accept [')']).2 = true
                  · rw [if_pos h5, if_pos h5]; exact ih _ _ ((h1.accept _ false).1.emit _)
                  · rw [if_neg h5, if_neg h5]; exact h1
    · rw [if_neg (fun x => hlt (h.lt_iff.mp x)), if_neg hlt]; exact h

theorem sim_lexExpression {a b : Scan} (h : Sim A B ka kb a b) : RelR A B ka kb (lexExpression a) (lexExpression b) := by
  unfold lexExpression
  rw [h.remaining]
  exact sim_lexExpressionLoop _ _ _ h


theorem sim_optIndex {a b : Scan} (h : Sim A B ka kb a b) :
    RelR A B ka kb (if (a.accept [',']).snd = true then lexOpcodeIndex (a.accept [',']).fst else pure a)
      (if (b.accept [',']).snd = true then lexOpcodeIndex (b.accept [',']).fst else pure b) := by
  rw [(h.accept [','] false).2]
  by_cases hc : (b.accept [',']).2 = true
  · rw [if_pos hc, if_pos hc]; exact sim_lexOpcodeIndex (h.accept _ false).1
  · rw [if_neg hc, if_neg hc]; exact RelR.pure h

theorem sim_bracket {a b : Scan} (h : Sim A B ka kb a b) (c1 c2 : Char) (t1 t2 : TokTy) :
    Sim A B ka kb (if (a.peek == c1) = true then (a.next).1.emit t1 else if (a.peek == c2) = true then (a.next).1.emit t2 else a)
      (if (b.peek == c1) = true then (b.next).1.emit t1 else if (b.peek == c2) = true then (b.next).1.emit t2 else b) := by
  rw [h.peek 0]
  split
  · exact h.next.1.emit _
  · split
    · exact h.next.1.emit _
    · exact h

theorem sim_lexOperand {a b : Scan} (h : Sim A B ka kb a b) : RelR A B ka kb (lexOperand a) (lexOperand b) := by
  unfold lexOperand
  simp only []
  have tail : ∀ (x y : Scan), Sim A B ka kb x y → RelR A B ka kb (do
      let s ← (if (x.peek == ')') = true then (x.next).1.emit TokTy.RPAREN
               else if (x.peek == ']') = true then (x.next).1.emit TokTy.RBRAKET else x).ignoreRun [' ']
      if (s.accept [',']).snd = true then lexOpcodeIndex (s.accept [',']).fst else pure s) (do
      let s ← (if (y.peek == ')') = true then (y.next).1.emit TokTy.RPAREN
               else if (y.peek == ']') = true then (y.next).1.emit TokTy.RBRAKET else y).ignoreRun [' ']
      if (s.accept [',']).snd = true then lexOpcodeIndex (s.accept [',']).fst else pure s) := by
    intro x y hxy
    apply RelR.bind ((sim_bracket hxy ')' ']' .RPAREN .RBRAKET).ignoreRun _)
    intro x1 y1 h1
    exact sim_optIndex h1
  have hopen : Sim A B ka kb (if (a.peek == '#') = true then (a.next).1.emit TokTy.SHARP
      else if (a.peek == '(') = true then (a.next).1.emit TokTy.LPAREN
      else if (a.peek == '[') = true then (a.next).1.emit TokTy.LBRAKET else a)
      (if (b.peek == '#') = true then (b.next).1.emit TokTy.SHARP
      else if (b.peek == '(') = true then (b.next).1.emit TokTy.LPAREN
      else if (b.peek == '[') = true then (b.next).1.emit TokTy.LBRAKET else b) := by
    rw [h.peek 0]
    split
    · exact h.next.1.emit _
    · have := sim_bracket h '(' '[' .LPAREN .LBRAKET
      rw [h.peek 0] at this
      exact this
  apply RelR.bind (hopen.ignoreRun _)
  intro a1 b1 h1
  apply RelR.bind (sim_lexExpression h1)
  intro a2 b2 h2
  apply RelR.bind (h2.ignoreRun _)
  intro a3 b3 h3
  rw [(h3.accept [','] false).2]
  by_cases hc : (b3.accept [',']).2 = true
  · rw [if_pos hc, if_pos hc]
    apply RelR.bind (sim_lexOpcodeIndex (h3.accept _ false).1)
    intro a4 b4 h4
    exact tail a4 b4 h4
  · rw [if_neg hc, if_neg hc]
    apply RelR.bind (RelR.pure h3)
    intro a4 b4 h4
    exact tail a4 b4 h4

theorem sim_lexOpcodeSize {a b : Scan} (h : Sim A B ka kb a b) : RelR A B ka kb (lexOpcodeSize a) (lexOpcodeSize b) := by
  unfold lexOpcodeSize
  simp only []
  rw [(h.ignore.accept (chars "bBwWlL") false).2]
  by_cases hc : (b.ignore.accept (chars "bBwWlL")).2 = true
  · rw [if_pos hc, if_pos hc]
    apply RelR.bind (((h.ignore.accept _ false).1.emit _).ignoreRun _)
    intro a1 b1 h1
    exact sim_lexOperand h1
  · rw [if_neg hc, if_neg hc]
    exact ⟨h.ignore.errKey _ _ rfl, h.ignore.next.1.toks⟩


theorem RelR.bind' {r1 r2 : SR} {f g : Scan → SR} (h : RelR A B ka kb r1 r2)
    (hf : ∀ a b, r1 = .ok a → r2 = .ok b → Sim A B ka kb a b → RelR A B ka kb (f a) (g b)) : RelR A B ka kb (r1 >>= f) (r2 >>= g) := by
  cases r1 with
  | error e1 =>
    cases r2 with
    | error e2 => exact h
    | ok b => exact h.elim
  | ok a =>
    cases r2 with
    | error e2 => obtain ⟨e, s⟩ := e2; exact h.elim
    | ok b => exact hf a b rfl rfl h

theorem acceptRunAux_start (cands : List Char) (negate : Bool) : ∀ (n : Nat) (s s' : Scan),
    Scan.acceptRunAux cands negate n s = some s' → s'.start = s.start := by
  intro n
  induction n with
  | zero =>
    intro s s' h
    unfold Scan.acceptRunAux at h
    split at h
    · cases h
    · cases h; rfl
  | succ n ih =>
    intro s s' h
    unfold Scan.acceptRunAux at h
    simp only at h
    split at h
    · rw [ih _ _ h, accept_start]
    · cases h; rfl

theorem acceptRun_start (s s' : Scan) (cands : List Char) (negate : Bool) (h : s.acceptRun cands negate = .ok s') :
    s'.start = s.start := by
  unfold Scan.acceptRun at h
  split at h
  · rename_i s2 heq; cases h; exact acceptRunAux_start _ _ _ _ _ heq
  · cases h

theorem sim_acceptOpcode (cfg : ScanCfg) {a b : Scan} (h : Sim A B ka kb a b) :
    Sim A B ka kb (acceptOpcode cfg a).1 (acceptOpcode cfg b).1 ∧ (acceptOpcode cfg a).2 = (acceptOpcode cfg b).2 := by
  unfold acceptOpcode
  simp only []
  have hs : a.slice a.start (a.pos + 3) = b.slice b.start (b.pos + 3) :=
    h.slice _ _ (by have := h.start; have := h.pos; omega)
  rw [hs, h.peek 3]
  split
  · exact ⟨h.setPos _ _ (by have := h.pa; omega) (by have := h.pos; omega), rfl⟩
  · exact ⟨h, rfl⟩

/-- what follows the OPCODE token: optional size suffix, blanks, operand -/
theorem sim_opTail {a b : Scan} (h : Sim A B ka kb a b) : RelR A B ka kb (if (a.accept ['.']).snd = true then do
      let s ← lexOpcodeSize (a.accept ['.']).fst
      let s ← s.ignoreRun [' ']
      lexOperand s
    else do
      let s ← pure a
      let s ← s.ignoreRun [' ']
      lexOperand s) (if (b.accept ['.']).snd = true then do
      let s ← lexOpcodeSize (b.accept ['.']).fst
      let s ← s.ignoreRun [' ']
      lexOperand s
    else do
      let s ← pure b
      let s ← s.ignoreRun [' ']
      lexOperand s) := by
  rw [(h.accept ['.'] false).2]
  by_cases hc : (b.accept ['.']).2 = true
  · rw [if_pos hc, if_pos hc]
    apply RelR.bind (sim_lexOpcodeSize (h.accept _ false).1)
    intro a1 b1 h1
    apply RelR.bind (h1.ignoreRun _)
    intro a2 b2 h2
    exact sim_lexOperand h2
  · rw [if_neg hc, if_neg hc]
    apply RelR.bind (RelR.pure h)
    intro a1 b1 h1
    apply RelR.bind (h1.ignoreRun _)
    intro a2 b2 h2
    exact sim_lexOperand h2

theorem sim_lexOpcode (cfg : ScanCfg) {a b : Scan} (h : Sim A B ka kb a b) : RelR A B ka kb (lexOpcode cfg a) (lexOpcode cfg b) := by
  unfold lexOpcode
  simp only []
  have fin : ∀ (a3 b3 : Scan), Sim A B ka kb a3 b3 → a3.start = a.start → RelR A B ka kb (
      if (a3.peek == '\n' || a3.peek == '\x00') = true then
        pure (({ a3 with pos := a.pos } : Scan).emit TokTy.OPCODE_NAKED)
      else do
        let s ← pure (({ a3 with pos := a.pos } : Scan).emit TokTy.OPCODE)
        if (s.accept ['.']).snd = true then do
            let s ← lexOpcodeSize (s.accept ['.']).fst
            let s ← s.ignoreRun [' ']
            lexOperand s
          else do
            let s ← pure s
            let s ← s.ignoreRun [' ']
            lexOperand s) (
      if (b3.peek == '\n' || b3.peek == '\x00') = true then
        pure (({ b3 with pos := b.pos } : Scan).emit TokTy.OPCODE_NAKED)
      else do
        let s ← pure (({ b3 with pos := b.pos } : Scan).emit TokTy.OPCODE)
        if (s.accept ['.']).snd = true then do
            let s ← lexOpcodeSize (s.accept ['.']).fst
            let s ← s.ignoreRun [' ']
            lexOperand s
          else do
            let s ← pure s
            let s ← s.ignoreRun [' ']
            lexOperand s) := by
    intro a3 b3 h3 hst
    have hset : Sim A B ka kb { a3 with pos := a.pos } { b3 with pos := b.pos } :=
      h3.setPos _ _ (by rw [hst]; exact h.pa) h.pos
    rw [h3.peek 0]
    by_cases hc : (b3.peek == '\n' || b3.peek == '\x00') = true
    · rw [if_pos hc, if_pos hc]; exact RelR.pure (hset.emit _)
    · rw [if_neg hc, if_neg hc]
      apply RelR.bind (RelR.pure (hset.emit _))
      intro a4 b4 h4
      exact sim_opTail h4
  have hs : a.slice a.start a.pos = b.slice b.start b.pos :=
    h.slice _ _ (by have := h.start; have := h.pos; omega)
  rw [hs, h.peek 0]
  by_cases hc : (cfg.noOperand.contains (asciiLower (b.slice b.start b.pos)) && b.peek != '.') = true
  · rw [if_pos hc, if_pos hc]
    apply RelR.bind' (h.acceptRun _ false)
    intro a1 b1 ha1 _ h1
    have hs1 : a1.start = a.start := acceptRun_start _ _ _ _ ha1
    rw [(h1.accept [';'] false).2]
    by_cases hsc : (b1.accept [';']).2 = true
    · rw [if_pos hsc, if_pos hsc]
      apply RelR.bind' ((h1.accept _ false).1.acceptRun _ true)
      intro a3 b3 ha3 _ h3
      exact fin a3 b3 h3 (by rw [acceptRun_start _ _ _ _ ha3, accept_start, hs1])
    · rw [if_neg hsc, if_neg hsc]
      apply RelR.bind' (RelR.pure (h1.accept _ false).1)
      intro a3 b3 ha3 _ h3
      have : a3 = (a1.accept [';']).1 := by cases ha3; rfl
      exact fin a3 b3 h3 (by rw [this, accept_start, hs1])
  · rw [if_neg hc, if_neg hc]
    apply RelR.bind (RelR.pure (h.emit _))
    intro a1 b1 h1
    exact sim_opTail h1

theorem sim_acc2 {a b : Scan} (h : Sim A B ka kb a b) (c2 : List Char) (t1 t2 : TokTy) :
    RelR A B ka kb (pure (if (a.accept c2).2 = true then (a.accept c2).1.emit t1 else a.emit t2))
      (pure (if (b.accept c2).2 = true then (b.accept c2).1.emit t1 else b.emit t2)) := by
  rw [(h.accept c2 false).2]
  by_cases hc : (b.accept c2).2 = true
  · rw [if_pos hc, if_pos hc]; exact RelR.pure ((h.accept _ false).1.emit _)
  · rw [if_neg hc, if_neg hc]; exact RelR.pure (h.emit _)

theorem sim_lexInitial (cfg : ScanCfg) {a b : Scan} (h : Sim A B ka kb a b) : RelR A B ka kb (lexInitial cfg a) (lexInitial cfg b) := by
  unfold lexInitial
  simp only []
  apply RelR.bind (h.ignoreRun _)
  intro ta tb ht
  rw [ht.remaining]
  rw [(ht.accept [';'] false).2]
  by_cases ha : (tb.accept [';']).2 = true
  · rw [if_pos ha, if_pos ha]
    apply RelR.bind (sim_lineCommentLoop _ _ _ (ht.accept _ false).1)
    intro a2 b2 h2; exact RelR.pure (h2.emit _)
  rw [if_neg ha, if_neg ha]; clear ha
  rw [(ht.accept digitChars false).2]
  by_cases ha : (tb.accept digitChars).2 = true
  · rw [if_pos ha, if_pos ha]
    have ha' : (ta.accept digitChars).2 = true := by rw [(ht.accept digitChars false).2]; exact ha
    exact sim_lexNumber (ht.accept _ false).1 (accept_start_lt ta _ nul_digit ht.pa ha')
  rw [if_neg ha, if_neg ha]; clear ha
  rw [(ht.accept ['+', '-', '&'] false).2]
  by_cases ha : (tb.accept ['+', '-', '&']).2 = true
  · rw [if_pos ha, if_pos ha]; exact RelR.pure ((ht.accept _ false).1.emit _)
  rw [if_neg ha, if_neg ha]; clear ha
  rw [(ht.acceptPrefix ['=', '=']).2]
  by_cases ha : (tb.acceptPrefix ['=', '=']).2 = true
  · rw [if_pos ha, if_pos ha]; exact RelR.pure ((ht.acceptPrefix _).1.emit _)
  rw [if_neg ha, if_neg ha]; clear ha
  rw [(ht.acceptPrefix ['!', '=']).2]
  by_cases ha : (tb.acceptPrefix ['!', '=']).2 = true
  · rw [if_pos ha, if_pos ha]; exact RelR.pure ((ht.acceptPrefix _).1.emit _)
  rw [if_neg ha, if_neg ha]; clear ha
  rw [(ht.acceptPrefix ['>', '>']).2]
  by_cases ha : (tb.acceptPrefix ['>', '>']).2 = true
  · rw [if_pos ha, if_pos ha]; exact RelR.pure ((ht.acceptPrefix _).1.emit _)
  rw [if_neg ha, if_neg ha]; clear ha
  rw [(ht.acceptPrefix ['<', '<']).2]
  by_cases ha : (tb.acceptPrefix ['<', '<']).2 = true
  · rw [if_pos ha, if_pos ha]; exact RelR.pure ((ht.acceptPrefix _).1.emit _)
  rw [if_neg ha, if_neg ha]; clear ha
  rw [(ht.acceptPrefix ['>']).2]
  by_cases ha : (tb.acceptPrefix ['>']).2 = true
  · rw [if_pos ha, if_pos ha]; exact RelR.pure ((ht.acceptPrefix _).1.emit _)
  rw [if_neg ha, if_neg ha]; clear ha
  rw [(ht.acceptPrefix ['<']).2]
  by_cases ha : (tb.acceptPrefix ['<']).2 = true
  · rw [if_pos ha, if_pos ha]; exact RelR.pure ((ht.acceptPrefix _).1.emit _)
  rw [if_neg ha, if_neg ha]; clear ha
  rw [(ht.accept letterChars false).2]
  by_cases ha : (tb.accept letterChars).2 = true
  · rw [if_pos ha, if_pos ha]
    have ha' : (ta.accept letterChars).2 = true := by rw [(ht.accept letterChars false).2]; exact ha
    have hb := (ht.accept letterChars false).1.backup (accept_start_lt ta _ nul_letter ht.pa ha')
    rw [(sim_acceptOpcode cfg hb).2]
    by_cases hop : (acceptOpcode cfg (tb.accept letterChars).1.backup).2 = true
    · rw [if_pos hop, if_pos hop]; exact sim_lexOpcode cfg (sim_acceptOpcode cfg hb).1
    · rw [if_neg hop, if_neg hop]; exact sim_lexIdentifier hb
  rw [if_neg ha, if_neg ha]; clear ha
  rw [(ht.accept ['.'] false).2]
  by_cases ha : (tb.accept ['.']).2 = true
  · rw [if_pos ha, if_pos ha]; exact sim_lexKeyword cfg (ht.accept _ false).1
  rw [if_neg ha, if_neg ha]; clear ha
  rw [(ht.accept [','] false).2]
  by_cases ha : (tb.accept [',']).2 = true
  · rw [if_pos ha, if_pos ha]; exact RelR.pure ((ht.accept _ false).1.emit _)
  rw [if_neg ha, if_neg ha]; clear ha
  rw [(ht.acceptPrefix [':', '=']).2]
  by_cases ha : (tb.acceptPrefix [':', '=']).2 = true
  · rw [if_pos ha, if_pos ha]; exact RelR.pure ((ht.acceptPrefix _).1.emit _)
  rw [if_neg ha, if_neg ha]; clear ha
  rw [(ht.acceptPrefix ['@', '=']).2]
  by_cases ha : (tb.acceptPrefix ['@', '=']).2 = true
  · rw [if_pos ha, if_pos ha]; exact RelR.pure ((ht.acceptPrefix _).1.emit _)
  rw [if_neg ha, if_neg ha]; clear ha
  rw [(ht.accept ['*'] false).2]
  by_cases ha : (tb.accept ['*']).2 = true
  · rw [if_pos ha, if_pos ha]
    exact sim_acc2 (ht.accept _ false).1 ['='] _ _
  rw [if_neg ha, if_neg ha]; clear ha
  rw [(ht.accept ['\''] false).2]
  by_cases ha : (tb.accept ['\'']).2 = true
  · rw [if_pos ha, if_pos ha]; exact sim_lexQuotedString (ht.accept _ false).1
  rw [if_neg ha, if_neg ha]; clear ha
  rw [(ht.accept ['('] false).2]
  by_cases ha : (tb.accept ['(']).2 = true
  · rw [if_pos ha, if_pos ha]; exact RelR.pure ((ht.accept _ false).1.emit _)
  rw [if_neg ha, if_neg ha]; clear ha
  rw [(ht.accept [')'] false).2]
  by_cases ha : (tb.accept [')']).2 = true
  · rw [if_pos ha, if_pos ha]; exact RelR.pure ((ht.accept _ false).1.emit _)
  rw [if_neg ha, if_neg ha]; clear ha
  rw [(ht.accept ['['] false).2]
  by_cases ha : (tb.accept ['[']).2 = true
  · rw [if_pos ha, if_pos ha]; exact RelR.pure ((ht.accept _ false).1.emit _)
  rw [if_neg ha, if_neg ha]; clear ha
  rw [(ht.accept [']'] false).2]
  by_cases ha : (tb.accept [']']).2 = true
  · rw [if_pos ha, if_pos ha]; exact RelR.pure ((ht.accept _ false).1.emit _)
  rw [if_neg ha, if_neg ha]; clear ha
  rw [(ht.accept ['{'] false).2]
  by_cases ha : (tb.accept ['{']).2 = true
  · rw [if_pos ha, if_pos ha]
    exact sim_acc2 (ht.accept _ false).1 ['{'] _ _
  rw [if_neg ha, if_neg ha]; clear ha
  rw [(ht.accept ['}'] false).2]
  by_cases ha : (tb.accept ['}']).2 = true
  · rw [if_pos ha, if_pos ha]
    exact sim_acc2 (ht.accept _ false).1 ['}'] _ _
  rw [if_neg ha, if_neg ha]; clear ha
  rw [(ht.accept ['='] false).2]
  by_cases ha : (tb.accept ['=']).2 = true
  · rw [if_pos ha, if_pos ha]; exact RelR.pure ((ht.accept _ false).1.emit _)
  rw [if_neg ha, if_neg ha]; clear ha
  rw [(ht.acceptPrefix ['/', '*']).2]
  by_cases ha : (tb.acceptPrefix ['/', '*']).2 = true
  · rw [if_pos ha, if_pos ha]
    apply RelR.bind (sim_blockCommentLoop _ _ ((ht.acceptPrefix _).1.errKey _ _ rfl) _ _ _ (ht.acceptPrefix _).1)
    intro a2 b2 h2; exact RelR.pure (h2.emit _)
  rw [if_neg ha, if_neg ha]; clear ha
  rw [ht.next.2]
  by_cases hn : ((tb.next).2 != none) = true
  · rw [if_pos hn, if_pos hn]
    refine ⟨ht.next.1.errKey _ _ ?_, ht.next.1.toks⟩
    congr 1
    have hsz := ht.next.1
    exact hsz.slice _ _ (by have := hsz.sizes; have := hsz.start; have := hsz.sa; have := hsz.sb; have := hsz.ia; have := hsz.ib; omega)
  · rw [if_neg hn, if_neg hn]; exact RelR.pure ht.next.1

theorem Sim.toks_size {a b : Scan} (h : Sim A B ka kb a b) : a.toks.size + kb = b.toks.size + ka := by
  have := congrArg List.length h.toks.eq
  simp only [List.length_map, List.length_drop, Array.length_toList] at this
  have := h.toks.la; have := h.toks.lb
  omega

theorem Sim.invalidInput {a b : Scan} (h : Sim A B ka kb a b) :
    ScanS.errKey (a.err ("Invalid Input " ++ a.slice a.start a.input.size)) =
      ScanS.errKey (b.err ("Invalid Input " ++ b.slice b.start b.input.size)) := by
  apply h.errKey
  congr 1
  exact h.slice _ _ (by have := h.sizes; have := h.start; have := h.sa; have := h.sb; have := h.ia; have := h.ib; omega)

theorem sim_runState (cfg : ScanCfg) (st : ScanState) {a b : Scan} (h : Sim A B ka kb a b) :
    RelR A B ka kb (runState cfg st a) (runState cfg st b) := by
  cases st with
  | initial => exact sim_lexInitial cfg h
  | expression => exact sim_lexExpression h

/-- **the outer loop of `Scanner.scan` on similar states gives similar results** -/
theorem sim_scanLoop (cfg : ScanCfg) (st : ScanState) : ∀ (n : Nat) (a b : Scan), Sim A B ka kb a b →
    RelR A B ka kb (scanLoop cfg st n a) (scanLoop cfg st n b) := by
  intro n
  induction n with
  | zero =>
    intro a b h
    unfold scanLoop
    by_cases hlt : b.pos < b.input.size
    · rw [if_pos (h.lt_iff.mpr hlt), if_pos hlt]; exact ⟨rfl, h.toks⟩
    · rw [if_neg (fun x => hlt (h.lt_iff.mp x)), if_neg hlt]; exact h
  | succ n ih =>
    intro a b h
    unfold scanLoop
    by_cases hlt : b.pos < b.input.size
    · rw [if_pos (h.lt_iff.mpr hlt), if_pos hlt]
      have hr := sim_runState cfg st h
      cases hra : runState cfg st a with
      | error ea =>
        cases hrb : runState cfg st b with
        | error eb => rw [hra, hrb] at hr; exact hr
        | ok b1 => rw [hra, hrb] at hr; obtain ⟨e, s⟩ := ea; exact hr.elim
      | ok a1 =>
        cases hrb : runState cfg st b with
        | error eb => rw [hra, hrb] at hr; obtain ⟨e, s⟩ := eb; exact hr.elim
        | ok b1 =>
          rw [hra, hrb] at hr
          have h1 : Sim A B ka kb a1 b1 := hr
          simp only []
          have hp : (a1.pos == a.pos) = (b1.pos == b.pos) := by
            have := h1.pos; have := h.pos
            rw [Bool.eq_iff_iff]; simp only [beq_iff_eq]; omega
          have ht : (a1.toks.size == a.toks.size) = (b1.toks.size == b.toks.size) := by
            have := h1.toks_size; have := h.toks_size
            rw [Bool.eq_iff_iff]; simp only [beq_iff_eq]; omega
          rw [hp, ht]
          by_cases hg : (b1.pos == b.pos && b1.toks.size == b.toks.size) = true
          · rw [if_pos hg, if_pos hg]
            exact ⟨h1.next.1.invalidInput, h1.next.1.toks⟩
          · rw [if_neg hg, if_neg hg]
            exact ih _ _ h1
    · rw [if_neg (fun x => hlt (h.lt_iff.mp x)), if_neg hlt]; exact h

end A816.ScanS
