import A816.Model.Expr
import A816.Spec.Expr
/-! Helper lemmas for C06: the two-phase algorithm of the code (shunting-yard to a queue, then
queue evaluation) is simulated by a fused machine, and the fused machine evaluates the printout of
a well-formed tree to the tree's value. -/
namespace A816
open Spec

/-! ## queue evaluation is a left fold -/

theorem rpnRun_append (look : String → Look) (vs : List Int) (a b : List ENode) :
    rpnRun look vs (a ++ b) =
      match rpnRun look vs a with
      | .error e => .error e
      | .ok vs' => rpnRun look vs' b := by
  induction a generalizing vs with
  | nil => simp [rpnRun]
  | cons n ns ih =>
    simp only [List.cons_append, rpnRun]
    cases applyNode look vs n with
    | error e => rfl
    | ok vs' => exact ih vs'

theorem rpnRun_snoc (look : String → Look) (out : List ENode) (n : ENode) (vs : List Int)
    (h : rpnRun look [] out = .ok vs) :
    rpnRun look [] (out ++ [n]) = match applyNode look vs n with
      | .error e => .error e
      | .ok vs' => .ok vs' := by
  rw [rpnRun_append, h]
  simp only [rpnRun]
  cases applyNode look vs n <;> rfl

/-! ## the fused machine: value stack instead of output queue -/

def fpop (look : String → Look) (prec : PrecTable) (p : Nat) :
    List Int → List ENode → Except Err (List Int × List ENode)
  | vs, [] => .ok (vs, [])
  | vs, top :: rest =>
    if top.text == "(" then .ok (vs, top :: rest)
    else match stackPrec prec top with
      | none => .error .key
      | some q =>
        if q ≤ p then
          match applyNode look vs top with
          | .error e => .error e
          | .ok vs' => fpop look prec p vs' rest
        else .ok (vs, top :: rest)

def fpopParen (look : String → Look) : List Int → List ENode → Except Err (List Int × List ENode)
  | _, [] => .error .value
  | vs, top :: rest =>
    if top.text == "(" then .ok (vs, rest)
    else match applyNode look vs top with
      | .error e => .error e
      | .ok vs' => fpopParen look vs' rest

def fstep (look : String → Look) (prec : PrecTable) (st : List Int × List ENode) (n : ENode) :
    Except Err (List Int × List ENode) :=
  match n with
  | .term _ _ =>
    match applyNode look st.1 n with
    | .error e => .error e
    | .ok vs => .ok (vs, st.2)
  | .unop _ => .ok (st.1, n :: st.2)
  | .binop v =>
    match prec v with
    | none => .error .key
    | some p =>
      match fpop look prec p st.1 st.2 with
      | .error e => .error e
      | .ok (vs, stack) => .ok (vs, n :: stack)
  | .lparen => .ok (st.1, n :: st.2)
  | .rparen => fpopParen look st.1 st.2

def frun (look : String → Look) (prec : PrecTable) :
    List Int × List ENode → List ENode → Except Err (List Int × List ENode)
  | st, [] => .ok st
  | st, n :: ns =>
    match fstep look prec st n with
    | .error e => .error e
    | .ok st' => frun look prec st' ns

theorem frun_append (look : String → Look) (prec : PrecTable) (st : List Int × List ENode) (a b : List ENode) :
    frun look prec st (a ++ b) =
      match frun look prec st a with
      | .error e => .error e
      | .ok st' => frun look prec st' b := by
  induction a generalizing st with
  | nil => simp [frun]
  | cons n ns ih =>
    simp only [List.cons_append, frun]
    cases fstep look prec st n with
    | error e => rfl
    | ok st' => exact ih st'

/-! ## simulation: fused success ⇒ the real two-phase algorithm succeeds with the same value -/

theorem popWhile_sim (look : String → Look) (prec : PrecTable) (p : Nat) (stack : List ENode) :
    ∀ (vs : List Int) (out : List ENode) (vs' : List Int) (stack' : List ENode),
      fpop look prec p vs stack = .ok (vs', stack') → rpnRun look [] out = .ok vs →
      ∃ out', popWhile prec p out stack = .ok (out', stack') ∧ rpnRun look [] out' = .ok vs' := by
  induction stack with
  | nil =>
    intro vs out vs' stack' h hr
    simp only [fpop, Except.ok.injEq, Prod.mk.injEq] at h
    exact ⟨out, by simp [popWhile, h.2], by rw [hr, h.1]⟩
  | cons top rest ih =>
    intro vs out vs' stack' h hr
    unfold fpop at h
    unfold popWhile
    by_cases hpar : (top.text == "(") = true
    · simp only [hpar, ↓reduceIte, Except.ok.injEq, Prod.mk.injEq] at h ⊢
      exact ⟨out, ⟨rfl, h.2⟩, by rw [hr, h.1]⟩
    · simp only [hpar, Bool.false_eq_true, ↓reduceIte] at h ⊢
      cases hsp : stackPrec prec top with
      | none => simp [hsp] at h
      | some q =>
        simp only [hsp] at h ⊢
        by_cases hq : q ≤ p
        · simp only [hq, ↓reduceIte] at h ⊢
          cases ha : applyNode look vs top with
          | error e => simp [ha] at h
          | ok vs1 =>
            simp only [ha] at h
            have hr1 : rpnRun look [] (out ++ [top]) = .ok vs1 := by
              rw [rpnRun_snoc look out top vs hr, ha]
            exact ih vs1 (out ++ [top]) vs' stack' h hr1
        · simp only [hq, ↓reduceIte, Except.ok.injEq, Prod.mk.injEq] at h ⊢
          exact ⟨out, ⟨rfl, h.2⟩, by rw [hr, h.1]⟩

theorem popToParen_sim (look : String → Look) (stack : List ENode) :
    ∀ (vs : List Int) (out : List ENode) (vs' : List Int) (stack' : List ENode),
      fpopParen look vs stack = .ok (vs', stack') → rpnRun look [] out = .ok vs →
      ∃ out', popToParen out stack = some (out', stack') ∧ rpnRun look [] out' = .ok vs' := by
  induction stack with
  | nil => intro vs out vs' stack' h; simp [fpopParen] at h
  | cons top rest ih =>
    intro vs out vs' stack' h hr
    unfold fpopParen at h
    unfold popToParen
    by_cases hpar : (top.text == "(") = true
    · simp only [hpar, ↓reduceIte, Except.ok.injEq, Prod.mk.injEq] at h ⊢
      exact ⟨out, by simp [h.2], by rw [hr, h.1]⟩
    · simp only [hpar, Bool.false_eq_true, ↓reduceIte] at h ⊢
      cases ha : applyNode look vs top with
      | error e => simp [ha] at h
      | ok vs1 =>
        simp only [ha] at h
        have hr1 : rpnRun look [] (out ++ [top]) = .ok vs1 := by
          rw [rpnRun_snoc look out top vs hr, ha]
        exact ih vs1 (out ++ [top]) vs' stack' h hr1

theorem syStep_sim (look : String → Look) (prec : PrecTable) (n : ENode)
    (vs : List Int) (stack out : List ENode) (vs' : List Int) (stack' : List ENode)
    (h : fstep look prec (vs, stack) n = .ok (vs', stack')) (hr : rpnRun look [] out = .ok vs) :
    ∃ out', syStep prec (out, stack) n = .ok (out', stack') ∧ rpnRun look [] out' = .ok vs' := by
  cases n with
  | term k v =>
    simp only [fstep] at h
    cases ha : applyNode look vs (.term k v) with
    | error e => simp [ha] at h
    | ok vs1 =>
      simp only [ha, Except.ok.injEq, Prod.mk.injEq] at h
      refine ⟨out ++ [.term k v], by simp [syStep, h.2], ?_⟩
      rw [rpnRun_snoc look out _ vs hr, ha, h.1]
  | unop v =>
    simp only [fstep, Except.ok.injEq, Prod.mk.injEq] at h
    exact ⟨out, by simp [syStep, h.2], by rw [hr, h.1]⟩
  | lparen =>
    simp only [fstep, Except.ok.injEq, Prod.mk.injEq] at h
    exact ⟨out, by simp [syStep, h.2], by rw [hr, h.1]⟩
  | rparen =>
    simp only [fstep] at h
    obtain ⟨out', h1, h2⟩ := popToParen_sim look stack vs out vs' stack' h hr
    exact ⟨out', by simp [syStep, h1], h2⟩
  | binop v =>
    simp only [fstep] at h
    cases hp : prec v with
    | none => simp [hp] at h
    | some p =>
      simp only [hp] at h
      cases hf : fpop look prec p vs stack with
      | error e => simp [hf] at h
      | ok r =>
        obtain ⟨vs1, st1⟩ := r
        simp only [hf, Except.ok.injEq, Prod.mk.injEq] at h
        obtain ⟨out', h1, h2⟩ := popWhile_sim look prec p stack vs out vs1 st1 hf hr
        refine ⟨out', ?_, by rw [h2, h.1]⟩
        simp [syStep, hp, h1, h.2]

theorem syRun_sim (look : String → Look) (prec : PrecTable) (ts : List ENode) :
    ∀ (vs : List Int) (stack out : List ENode) (vs' : List Int) (stack' : List ENode),
      frun look prec (vs, stack) ts = .ok (vs', stack') → rpnRun look [] out = .ok vs →
      ∃ out', syRun prec (out, stack) ts = .ok (out', stack') ∧ rpnRun look [] out' = .ok vs' := by
  induction ts with
  | nil =>
    intro vs stack out vs' stack' h hr
    simp only [frun, Except.ok.injEq, Prod.mk.injEq] at h
    exact ⟨out, by simp [syRun, h.2], by rw [hr, h.1]⟩
  | cons n ns ih =>
    intro vs stack out vs' stack' h hr
    simp only [frun] at h
    cases hs : fstep look prec (vs, stack) n with
    | error e => simp [hs] at h
    | ok st1 =>
      obtain ⟨vs1, stack1⟩ := st1
      simp only [hs] at h
      obtain ⟨out1, h1, h2⟩ := syStep_sim look prec n vs stack out vs1 stack1 hs hr
      obtain ⟨out', h3, h4⟩ := ih vs1 stack1 out1 vs' stack' h h2
      exact ⟨out', by simp [syRun, h1, h3], h4⟩

/-- **fuse**: if the fused machine accepts the token list and flushing its stack leaves `v` on top,
    then `eval_expression` (queue construction, then queue evaluation) returns `v`. -/
theorem fuse (look : String → Look) (prec : PrecTable) (ts : List ENode)
    (vs : List Int) (stack : List ENode) (v : Int) (rest : List Int)
    (h : frun look prec ([], []) ts = .ok (vs, stack))
    (hflush : rpnRun look vs stack = .ok (v :: rest)) :
    evalTokens prec look ts = .ok v := by
  obtain ⟨out, h1, h2⟩ := syRun_sim look prec ts [] [] [] vs stack h (by simp [rpnRun])
  unfold evalTokens shuntingYard
  simp only [h1]
  unfold evalRPN
  rw [rpnRun_append, h2]
  simp only [hflush]

end A816
