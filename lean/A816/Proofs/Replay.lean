import A816.Model.Codegen
/-!
# Positional scope replay = lexical nesting (helper lemmas for C08 `replay_consistent`)

Code generation creates scopes (`append_scope`, `use_next_scope`, … `restore_scope`) and emits `ScopeNode` /
`PopScopeNode` markers; the three later traversals (label pass, symbol pass, emission) re-enter the scopes
*positionally*: the j-th `ScopeNode` selects the scope created j-th.  This file proves, for the whole
code generator and every AST, that the node list it produces replays exactly the scope structure it
created: a traversal that starts in the scope code generation started in, and that has entered as many
scopes as existed then, enters at every `ScopeNode` the scope that was appended for it (whose parent is
the scope the construct stands in), is back in the enclosing scope after the matching `PopScopeNode`,
and never runs out of scopes — for every later extension of the scope list.
-/
namespace A816.Replay
open A816

/-- `b` has at least the scopes of `a`, with the same parents -/
def Agrees (a b : Array ScopeRec) : Prop :=
  a.size ≤ b.size ∧ ∀ i, i < a.size → (b.getD i default).parent = (a.getD i default).parent

theorem Agrees.refl (a : Array ScopeRec) : Agrees a a := ⟨Nat.le_refl _, fun _ _ => rfl⟩

theorem Agrees.trans {a b c : Array ScopeRec} (h1 : Agrees a b) (h2 : Agrees b c) : Agrees a c :=
  ⟨Nat.le_trans h1.1 h2.1, fun i hi => by rw [h2.2 i (Nat.lt_of_lt_of_le hi h1.1), h1.2 i hi]⟩

/-- the scope bookkeeping of one traversal of a node list: (current scope, last used scope) -/
def replay (scopes : Array ScopeRec) : List Node → Nat → Nat → Option (Nat × Nat)
  | [], c, l => some (c, l)
  | n :: ns, c, l =>
    match n with
    | .scopeEnter => if l + 1 < scopes.size then replay scopes ns (l + 1) (l + 1) else none
    | .scopePop =>
      match (scopes.getD c default).parent with
      | some p => replay scopes ns p l
      | none => none
    | _ => replay scopes ns c l

def Node.isScopeMark : Node → Bool
  | .scopeEnter => true
  | .scopePop => true
  | _ => false

theorem replay_append (scopes : Array ScopeRec) : ∀ (a b : List Node) (c l : Nat),
    replay scopes (a ++ b) c l = (replay scopes a c l).bind fun p => replay scopes b p.1 p.2 := by
  intro a
  induction a with
  | nil => intro b c l; rfl
  | cons n ns ih =>
    intro b c l
    cases n <;> simp only [List.cons_append, replay, ih]
    case scopeEnter => split <;> rfl
    case scopePop => split <;> rfl

theorem replay_leaves (scopes : Array ScopeRec) : ∀ (ns : List Node) (c l : Nat),
    (∀ n ∈ ns, Node.isScopeMark n = false) → replay scopes ns c l = some (c, l) := by
  intro ns
  induction ns with
  | nil => intro c l _; rfl
  | cons n ns ih =>
    intro c l h
    have hn := h n (List.mem_cons_self)
    have ht := ih c l (fun m hm => h m (List.mem_cons_of_mem _ hm))
    cases n <;> simp only [replay, ht] <;> simp [Node.isScopeMark] at hn

/-- what code generation guarantees about the node list `ns` it produced between the states `st` and `st'` -/
structure Post (st : GenState) (ns : List Node) (st' : GenState) : Prop where
  last : st'.r.lastUsed + 1 = st'.r.scopes.size
  cur : st'.r.current = st.r.current
  agrees : Agrees st.r.scopes st'.r.scopes
  replays : ∀ ext, Agrees st'.r.scopes ext →
    replay ext ns st.r.current st.r.lastUsed = some (st.r.current, st'.r.lastUsed)

/-- the states code generation runs in: every scope created so far has been entered, the current scope exists -/
structure GenInv (st : GenState) : Prop where
  last : st.r.lastUsed + 1 = st.r.scopes.size
  cur : st.r.current < st.r.scopes.size

theorem Post.inv {st st' : GenState} {ns : List Node} (h : GenInv st) (p : Post st ns st') : GenInv st' :=
  ⟨p.last, by rw [p.cur]; exact Nat.lt_of_lt_of_le h.cur p.agrees.1⟩

theorem Post.nil_of_same (st st' : GenState) (hs : st'.r.scopes = st.r.scopes ∨ Agrees st.r.scopes st'.r.scopes ∧ st'.r.scopes.size = st.r.scopes.size)
    (hc : st'.r.current = st.r.current) (hl : st'.r.lastUsed = st.r.lastUsed) (h : GenInv st) (ns : List Node)
    (hleaf : ∀ n ∈ ns, Node.isScopeMark n = false) : Post st ns st' := by
  have hag : Agrees st.r.scopes st'.r.scopes ∧ st'.r.scopes.size = st.r.scopes.size := by
    rcases hs with h1 | h2
    · rw [h1]; exact ⟨Agrees.refl _, rfl⟩
    · exact h2
  exact ⟨by rw [hl, hag.2]; exact h.last, hc, hag.1, fun ext _ => by rw [replay_leaves ext ns _ _ hleaf, hl]⟩

theorem Post.append {st st1 st2 : GenState} {a b : List Node} (p1 : Post st a st1) (p2 : Post st1 b st2) :
    Post st (a ++ b) st2 :=
  ⟨p2.last, by rw [p2.cur, p1.cur], p1.agrees.trans p2.agrees, fun ext hext => by
    rw [replay_append, p1.replays ext (p2.agrees.trans hext)]
    simp only [Option.bind]
    have := p2.replays ext hext
    rw [p1.cur] at this
    exact this⟩

/-- `m` run in `st` returns `a` and the state `st'` -/
def RunsTo {α} (m : GM α) (st : GenState) (a : α) (st' : GenState) : Prop := m.run st = .ok (a, st')

theorem runsTo_bind {α β} (m : GM α) (f : α → GM β) (st : GenState) (b : β) (st2 : GenState) :
    RunsTo (m >>= f) st b st2 ↔ ∃ a st1, RunsTo m st a st1 ∧ RunsTo (f a) st1 b st2 := by
  unfold RunsTo
  cases h : m.run st with
  | error e =>
    have : (m >>= f).run st = .error e := by
      simp only [StateT.run, bind, StateT.bind, Except.bind] at h ⊢; rw [h]
    rw [this]; simp
  | ok p =>
    obtain ⟨a, st1⟩ := p
    have : (m >>= f).run st = (f a).run st1 := by
      simp only [StateT.run, bind, StateT.bind, Except.bind] at h ⊢; rw [h]
    rw [this]
    constructor
    · intro hh; exact ⟨a, st1, rfl, hh⟩
    · rintro ⟨a', st1', h1, h2⟩
      cases h1; exact h2

theorem runsTo_pure {α} (a b : α) (st st' : GenState) : RunsTo (pure a : GM α) st b st' ↔ b = a ∧ st' = st := by
  unfold RunsTo
  show Except.ok (a, st) = Except.ok (b, st') ↔ _
  constructor
  · intro h; cases h; exact ⟨rfl, rfl⟩
  · rintro ⟨rfl, rfl⟩; rfl

theorem runsTo_get (st : GenState) (a st' : GenState) : RunsTo (get : GM GenState) st a st' ↔ a = st ∧ st' = st := by
  unfold RunsTo
  show Except.ok (st, st) = Except.ok (a, st') ↔ _
  constructor
  · intro h; cases h; exact ⟨rfl, rfl⟩
  · rintro ⟨rfl, rfl⟩; rfl

theorem runsTo_set (s st : GenState) (a : Unit) (st' : GenState) : RunsTo (set s : GM Unit) st a st' ↔ st' = s := by
  unfold RunsTo
  show Except.ok ((), s) = Except.ok (a, st') ↔ _
  constructor
  · intro h; cases h; rfl
  · rintro rfl; rfl

theorem runsTo_modify (f : GenState → GenState) (st : GenState) (a : Unit) (st' : GenState) :
    RunsTo (modify f : GM Unit) st a st' ↔ st' = f st := by
  unfold RunsTo
  show Except.ok ((), f st) = Except.ok (a, st') ↔ _
  constructor
  · intro h; cases h; rfl
  · rintro rfl; rfl

theorem runsTo_throw {α} (e : Err) (st : GenState) (a : α) (st' : GenState) : ¬ RunsTo (throw e : GM α) st a st' := by
  unfold RunsTo
  show ¬ (Except.error e = Except.ok (a, st'))
  intro h; cases h


theorem runsTo_liftOpt {α} (e : Err) (o : Option α) (st : GenState) (a : α) (st' : GenState) :
    RunsTo (liftOpt e o) st a st' ↔ o = some a ∧ st' = st := by
  cases o with
  | none => simp only [liftOpt]; constructor
            · intro h; exact absurd h (runsTo_throw _ _ _ _)
            · rintro ⟨h, _⟩; cases h
  | some x =>
    simp only [liftOpt, runsTo_pure]
    constructor
    · rintro ⟨rfl, rfl⟩; exact ⟨rfl, rfl⟩
    · rintro ⟨h, rfl⟩; cases h; exact ⟨rfl, rfl⟩

theorem runsTo_modR (f : Resolver → Resolver) (st : GenState) (a : Unit) (st' : GenState) :
    RunsTo (modR f) st a st' ↔ st' = { st with r := f st.r } := by
  unfold modR; exact runsTo_modify _ _ _ _

theorem runsTo_gEval (env : Env) (e : PExpr) (st : GenState) (v : Int) (st' : GenState) :
    RunsTo (gEval env e) st v st' → st' = st := by
  unfold gEval
  rw [runsTo_bind]
  rintro ⟨s, st1, h1, h2⟩
  rw [runsTo_get] at h1
  obtain ⟨rfl, rfl⟩ := h1
  split at h2
  · rw [runsTo_pure] at h2; exact h2.2
  · exact absurd h2 (runsTo_throw _ _ _ _)

theorem runsTo_gUseNext (st : GenState) (a : Unit) (st' : GenState) :
    RunsTo gUseNext st a st' ↔ ∃ r, st.r.useNextScope = some r ∧ st' = { st with r := r } := by
  unfold gUseNext
  rw [runsTo_bind]
  constructor
  · rintro ⟨s, st1, h1, h2⟩
    rw [runsTo_get] at h1
    obtain ⟨rfl, rfl⟩ := h1
    split at h2
    · rename_i r hr; rw [runsTo_set] at h2; exact ⟨r, hr, h2⟩
    · exact absurd h2 (runsTo_throw _ _ _ _)
  · rintro ⟨r, hr, rfl⟩
    refine ⟨st, st, (runsTo_get _ _ _).mpr ⟨rfl, rfl⟩, ?_⟩
    simp only [hr]; exact (runsTo_set _ _ _ _).mpr rfl

theorem runsTo_gRestore (ex : Bool) (st : GenState) (a : Unit) (st' : GenState) :
    RunsTo (gRestore ex) st a st' ↔ ∃ r, st.r.restoreScope ex = some r ∧ st' = { st with r := r } := by
  unfold gRestore
  rw [runsTo_bind]
  constructor
  · rintro ⟨s, st1, h1, h2⟩
    rw [runsTo_get] at h1
    obtain ⟨rfl, rfl⟩ := h1
    split at h2
    · rename_i r hr; rw [runsTo_set] at h2; exact ⟨r, hr, h2⟩
    · exact absurd h2 (runsTo_throw _ _ _ _)
  · rintro ⟨r, hr, rfl⟩
    refine ⟨st, st, (runsTo_get _ _ _).mpr ⟨rfl, rfl⟩, ?_⟩
    simp only [hr]; exact (runsTo_set _ _ _ _).mpr rfl

/-! ## the resolver operations and the scope array -/

theorem getD_push_lt (a : Array ScopeRec) (x : ScopeRec) (i : Nat) (h : i < a.size) :
    (a.push x).getD i default = a.getD i default := by
  rw [Array.getD_eq_getD_getElem?, Array.getD_eq_getD_getElem?, Array.getElem?_push]
  simp [Nat.ne_of_lt h]

theorem getD_push_eq (a : Array ScopeRec) (x : ScopeRec) : (a.push x).getD a.size default = x := by
  rw [Array.getD_eq_getD_getElem?, Array.getElem?_push]
  simp

theorem appendScope_spec (r : Resolver) (k : ScopeKind) :
    (r.appendScope k).scopes.size = r.scopes.size + 1 ∧ Agrees r.scopes (r.appendScope k).scopes ∧
    ((r.appendScope k).scopes.getD r.scopes.size default).parent = some r.current ∧
    (r.appendScope k).current = r.current ∧ (r.appendScope k).lastUsed = r.lastUsed := by
  unfold Resolver.appendScope
  refine ⟨by simp, ⟨by simp, fun i hi => by simp only; rw [getD_push_lt _ _ _ hi]⟩, by simp only; rw [getD_push_eq], rfl, rfl⟩

theorem useNextScope_spec (r r' : Resolver) (h : r.useNextScope = some r') :
    r.lastUsed + 1 < r.scopes.size ∧ r'.scopes = r.scopes ∧ r'.current = r.lastUsed + 1 ∧ r'.lastUsed = r.lastUsed + 1 := by
  unfold Resolver.useNextScope at h
  split at h
  · rename_i hlt; cases h; exact ⟨hlt, rfl, rfl, rfl⟩
  · cases h

theorem modify_parent (a : Array ScopeRec) (j : Nat) (f : ScopeRec → ScopeRec) (hf : ∀ s, (f s).parent = s.parent) (i : Nat) :
    ((a.modify j f).getD i default).parent = (a.getD i default).parent := by
  rw [Array.getD_eq_getD_getElem?, Array.getD_eq_getD_getElem?, Array.getElem?_modify]
  split
  · cases h : a[i]? with
    | none => rfl
    | some x => simp [hf]
  · rfl

theorem modify_agrees (a : Array ScopeRec) (j : Nat) (f : ScopeRec → ScopeRec) (hf : ∀ s, (f s).parent = s.parent) :
    Agrees a (a.modify j f) ∧ (a.modify j f).size = a.size :=
  ⟨⟨by simp, fun i _ => modify_parent a j f hf i⟩, by simp⟩


theorem restoreScope_spec (r r' : Resolver) (h : r.restoreScope false = some r') :
    ∃ p, (r.scopes.getD r.current default).parent = some p ∧ r'.scopes = r.scopes ∧ r'.current = p ∧ r'.lastUsed = r.lastUsed := by
  unfold Resolver.restoreScope at h
  simp only [Resolver.cur, Resolver.scopeAt] at h
  split at h
  · cases h
  · rename_i p hp
    cases h
    exact ⟨p, hp, rfl, rfl, rfl⟩

/-- resolver updates that touch only symbols / tables / the user bus -/
structure SameShape (r r' : Resolver) : Prop where
  agrees : Agrees r.scopes r'.scopes
  size : r'.scopes.size = r.scopes.size
  cur : r'.current = r.current
  last : r'.lastUsed = r.lastUsed

theorem SameShape.refl (r : Resolver) : SameShape r r := ⟨Agrees.refl _, rfl, rfl, rfl⟩
theorem SameShape.trans {a b c : Resolver} (h1 : SameShape a b) (h2 : SameShape b c) : SameShape a c :=
  ⟨h1.agrees.trans h2.agrees, by rw [h2.size, h1.size], by rw [h2.cur, h1.cur], by rw [h2.last, h1.last]⟩

theorem modifyCur_same (r : Resolver) (f : ScopeRec → ScopeRec) (hf : ∀ s, (f s).parent = s.parent) :
    SameShape r (r.modifyCur f) := by
  unfold Resolver.modifyCur
  exact ⟨(modify_agrees r.scopes r.current f hf).1, (modify_agrees r.scopes r.current f hf).2, rfl, rfl⟩

theorem addSymbol_same (r : Resolver) (n : String) (v : Int) : SameShape r (r.addSymbol n v) :=
  modifyCur_same r _ (fun _ => rfl)
theorem addCodeSymbol_same (r : Resolver) (n : String) (b : List Ast) : SameShape r (r.addCodeSymbol n b) :=
  modifyCur_same r _ (fun _ => rfl)

theorem bindParams_same : ∀ (bound : List (String × Bound)) (r : Resolver), SameShape r (bindParams r bound) := by
  intro bound
  induction bound with
  | nil => intro r; exact SameShape.refl r
  | cons x rest ih =>
    intro r
    obtain ⟨p, b⟩ := x
    cases b with
    | int v => exact (addSymbol_same r p v).trans (ih _)
    | code c => exact (addCodeSymbol_same r p c).trans (ih _)
    | deferred e => exact ih r

theorem deferredNodes_leaves : ∀ (bound : List (String × Bound)), ∀ n ∈ deferredNodes bound, Node.isScopeMark n = false := by
  intro bound
  induction bound with
  | nil => intro n h; simp [deferredNodes] at h
  | cons x rest ih =>
    intro n h
    obtain ⟨p, b⟩ := x
    cases b <;> simp only [deferredNodes, List.mem_cons] at h
    · exact ih n h
    · exact ih n h
    · rcases h with rfl | h
      · rfl
      · exact ih n h

/-- a state change of shape `SameShape` that emits only leaf nodes -/
theorem Post.of_same {st st' : GenState} (h : GenInv st) (hs : SameShape st.r st'.r) (ns : List Node)
    (hleaf : ∀ n ∈ ns, Node.isScopeMark n = false) : Post st ns st' :=
  Post.nil_of_same st st' (Or.inr ⟨hs.agrees, hs.size⟩) hs.cur hs.last h ns hleaf

/-- **a scope-opening construct replays lexically**: if the body satisfies `Post` from the state in which the
    new scope is current, the whole construct does from the outer state -/
theorem withScope_post (kind : ScopeKind) (prep : Resolver → Resolver) (hprep : ∀ r, SameShape r (prep r))
    (pre : List Node) (hpre : ∀ n ∈ pre, Node.isScopeMark n = false) (body : GM (List Node))
    (hbody : ∀ st ns st', GenInv st → RunsTo body st ns st' → Post st ns st')
    (st : GenState) (ns : List Node) (st' : GenState) (hinv : GenInv st)
    (h : RunsTo (withScope kind prep pre body) st ns st') : Post st ns st' := by
  unfold withScope at h
  simp only [runsTo_bind, runsTo_modR, runsTo_gUseNext, runsTo_gRestore, runsTo_pure] at h
  obtain ⟨_, st1, rfl, _, st2, ⟨r2, hr2, rfl⟩, _, st3, rfl, inner, st4, hb, _, st5, ⟨r5, hr5, rfl⟩, rfl, rfl⟩ := h
  -- st1: scope appended; st2: entered; st3: prepared; st4: after the body; st5: left
  obtain ⟨hsz, hag1, hpar, hc1, hl1⟩ := appendScope_spec st.r kind
  obtain ⟨hlt, hs2, hc2, hl2⟩ := useNextScope_spec _ _ hr2
  simp only at hlt hs2 hc2 hl2
  rw [hl1] at hc2 hl2
  have hnew : st.r.lastUsed + 1 = st.r.scopes.size := hinv.last
  have h3 := hprep r2
  -- the body runs with the new scope current
  have hinv3 : GenInv { st with r := prep r2 } := by
    refine ⟨?_, ?_⟩
    · show (prep r2).lastUsed + 1 = (prep r2).scopes.size
      rw [h3.last, h3.size, hl2, hs2, hsz, hnew]
    · show (prep r2).current < (prep r2).scopes.size
      rw [h3.cur, h3.size, hc2, hs2, hsz, hnew]; omega
  have pb := hbody _ inner st4 hinv3 hb
  obtain ⟨p, hp, hs5, hc5, hl5⟩ := restoreScope_spec _ _ hr5
  -- the scope being left is the one that was appended; its parent is the outer current scope
  have hcur4 : st4.r.current = st.r.scopes.size := by
    rw [pb.cur]; show (prep r2).current = _; rw [h3.cur, hc2, hnew]
  have hag13 : Agrees (st.r.appendScope kind).scopes (prep r2).scopes := by rw [← hs2]; exact h3.agrees
  have hpar4 : (st4.r.scopes.getD st.r.scopes.size default).parent = some st.r.current := by
    rw [pb.agrees.2 _ (by show st.r.scopes.size < (prep r2).scopes.size; rw [h3.size, hs2, hsz]; omega)]
    show ((prep r2).scopes.getD st.r.scopes.size default).parent = _
    rw [hag13.2 _ (by rw [hsz]; omega), hpar]
  have hpeq : p = st.r.current := by
    rw [hcur4, hpar4] at hp; cases hp; rfl
  refine ⟨?_, ?_, ?_, ?_⟩
  · show r5.lastUsed + 1 = r5.scopes.size; rw [hl5, hs5]; exact pb.last
  · show r5.current = st.r.current; rw [hc5, hpeq]
  · show Agrees st.r.scopes r5.scopes
    rw [hs5]; exact (hag1.trans hag13).trans pb.agrees
  · intro ext hext
    have hext4 : Agrees st4.r.scopes ext := by
      have : r5.scopes = st4.r.scopes := hs5
      show Agrees st4.r.scopes ext
      rw [← this]; exact hext
    show replay ext (Node.scopeEnter :: pre ++ inner ++ [Node.scopePop]) st.r.current st.r.lastUsed = some (st.r.current, r5.lastUsed)
    have hsz4 : st.r.scopes.size + 1 ≤ ext.size := by
      have a1 := pb.agrees.1
      have a2 := hext4.1
      have a3 : (prep r2).scopes.size = st.r.scopes.size + 1 := by rw [h3.size, hs2, hsz]
      have : ({ st with r := prep r2 } : GenState).r.scopes.size = st.r.scopes.size + 1 := a3
      omega
    rw [show Node.scopeEnter :: pre ++ inner ++ [Node.scopePop] = Node.scopeEnter :: (pre ++ (inner ++ [Node.scopePop])) by simp]
    simp only [replay]
    rw [if_pos (by omega)]
    rw [replay_append, replay_leaves ext pre _ _ hpre]
    simp only [Option.bind]
    rw [replay_append]
    have hr := pb.replays ext hext4
    have e1 : ({ st with r := prep r2 } : GenState).r.current = st.r.lastUsed + 1 := by show (prep r2).current = _; rw [h3.cur, hc2]
    have e2 : ({ st with r := prep r2 } : GenState).r.lastUsed = st.r.lastUsed + 1 := by show (prep r2).lastUsed = _; rw [h3.last, hl2]
    rw [e1, e2] at hr
    rw [hr]
    simp only [Option.bind, replay]
    have : (ext.getD (st.r.lastUsed + 1) default).parent = some st.r.current := by
      rw [hnew, hext4.2 _ (by rw [← hcur4]; exact (pb.inv hinv3).cur), hpar4]
    rw [this, hl5]

/-- a generator for single statements that satisfies `Post` -/
def GoodGen (g : Ast → GM (List Node)) : Prop :=
  ∀ ast st ns st', GenInv st → RunsTo (g ast) st ns st' → Post st ns st'

theorem Post.refl_nil (st : GenState) (h : GenInv st) : Post st [] st :=
  Post.of_same h (SameShape.refl _) [] (fun _ hn => by cases hn)

theorem mapM_post {β} (f : β → GM (List Node)) (hf : ∀ b st ns st', GenInv st → RunsTo (f b) st ns st' → Post st ns st') :
    ∀ (l : List β) (st : GenState) (parts : List (List Node)) (st' : GenState), GenInv st →
      RunsTo (l.mapM f) st parts st' → Post st parts.flatten st' := by
  intro l
  induction l with
  | nil =>
    intro st parts st' hinv h
    rw [List.mapM_nil, runsTo_pure] at h
    rw [h.1, h.2]
    exact Post.refl_nil st hinv
  | cons b bs ih =>
    intro st parts st' hinv h
    rw [List.mapM_cons] at h
    simp only [runsTo_bind, runsTo_pure] at h
    obtain ⟨ns, st1, h1, rest, st2, h2, hparts, hst⟩ := h
    rw [hparts, hst]
    have p1 := hf b st ns st1 hinv h1
    have p2 := ih st1 rest st2 (p1.inv hinv) h2
    simpa using p1.append p2

theorem genListWith_post (g : Ast → GM (List Node)) (hg : GoodGen g) (l : List Ast) (st : GenState) (ns : List Node)
    (st' : GenState) (hinv : GenInv st) (h : RunsTo (genListWith g l) st ns st') : Post st ns st' := by
  unfold genListWith at h
  simp only [runsTo_bind, runsTo_pure] at h
  obtain ⟨parts, st1, h1, hns, hst⟩ := h
  rw [hns, hst]
  exact mapM_post g hg l st parts st1 hinv h1

theorem iterationWith_post (g : Ast → GM (List Node)) (hg : GoodGen g) (sym : String) (body : List Ast) (k : Int)
    (st : GenState) (ns : List Node) (st' : GenState) (hinv : GenInv st)
    (h : RunsTo (iterationWith g sym body k) st ns st') : Post st ns st' := by
  apply withScope_post .internal id (fun r => SameShape.refl r) [Node.symbolConst sym k]
    (fun n hn => by simp at hn; rw [hn]; rfl) (genListWith g body) (fun st ns st' hi hr => genListWith_post g hg body st ns st' hi hr) st ns st' hinv
  unfold iterationWith at h
  unfold withScope
  simp only [runsTo_bind, runsTo_modR, runsTo_gUseNext, runsTo_gRestore, runsTo_pure] at h ⊢
  obtain ⟨u1, st1, e1, u2, st2, ⟨r2, hr2, e2⟩, inner, st4, hb, u5, st5, ⟨r5, hr5, e5⟩, hns, hst⟩ := h
  exact ⟨u1, st1, e1, u2, st2, ⟨r2, hr2, e2⟩, (), st2, rfl, inner, st4, hb, u5, st5, ⟨r5, hr5, e5⟩, by simpa using hns, hst⟩

theorem gen_zero (env : Env) : GoodGen (gen env 0) := by
  intro ast st ns st' _ h
  unfold gen at h
  exact absurd h (runsTo_throw _ _ _ _)

theorem post_leaf (st : GenState) (hinv : GenInv st) (l ns : List Node) (st' : GenState)
    (hl : ∀ n ∈ l, Node.isScopeMark n = false) (h : RunsTo (pure l : GM (List Node)) st ns st') : Post st ns st' := by
  rw [runsTo_pure] at h
  rw [h.1, h.2]
  exact Post.of_same hinv (SameShape.refl _) l hl

theorem genMapR_same (args : List (String × MapVal)) (r r' : Resolver) (h : genMapR args r = .ok r') : SameShape r r' := by
  unfold genMapR at h
  split at h
  any_goals (cases h)
  simp only at h
  split at h
  · cases h
  · split at h
    · cases h
    · split at h
      · cases h
      · split at h
        · cases h
        · split at h
          · cases h; exact ⟨Agrees.refl _, rfl, rfl, rfl⟩
          · cases h

theorem genMap_same (args : List (String × MapVal)) (st : GenState) (u : Unit) (st' : GenState)
    (h : RunsTo (genMap args) st u st') : SameShape st.r st'.r := by
  unfold genMap at h
  rw [runsTo_bind] at h
  obtain ⟨s, st1, h1, h2⟩ := h
  rw [runsTo_get] at h1
  rw [h1.1, h1.2] at h2
  split at h2
  · rename_i r hr
    rw [runsTo_set] at h2
    rw [h2]; exact genMapR_same args st.r r hr
  · exact absurd h2 (runsTo_throw _ _ _ _)


theorem leaf1 (n : Node) (h : Node.isScopeMark n = false) : ∀ m ∈ [n], Node.isScopeMark m = false := by
  intro m hm; simp at hm; rw [hm]; exact h

theorem gen_succ (env : Env) (fuel : Nat) (ih : GoodGen (gen env fuel)) : GoodGen (gen env (fuel + 1)) := by
  intro ast st ns st' hinv h
  unfold gen at h
  cases ast with
  | block body i => exact genListWith_post _ ih body st ns st' hinv h
  | scope name body i =>
    exact withScope_post (.named name) id (fun r => SameShape.refl r) [] (fun _ hn => by cases hn) _
      (fun s n s' hi hr => genListWith_post _ ih body s n s' hi hr) st ns st' hinv h
  | compound body i =>
    exact withScope_post .plain id (fun r => SameShape.refl r) [] (fun _ hn => by cases hn) _
      (fun s n s' hi hr => genListWith_post _ ih body s n s' hi hr) st ns st' hinv h
  | map args i =>
    simp only [runsTo_bind, runsTo_pure] at h
    obtain ⟨u, st1, h1, hns, hst⟩ := h
    rw [hns, hst]
    exact Post.of_same hinv (genMap_same args st u st1 h1) [] (fun _ hn => by cases hn)
  | «macro» name params body i =>
    simp only [runsTo_bind, runsTo_pure, runsTo_modify] at h
    obtain ⟨u, st1, h1, hns, hst⟩ := h
    rw [hns, hst, h1]
    refine Post.of_same hinv ?_ [] (fun _ hn => by cases hn)
    exact SameShape.refl st.r
  | macroApply name args i =>
    simp only [runsTo_bind, runsTo_get, runsTo_liftOpt] at h
    obtain ⟨s, st1, ⟨hs, hst1⟩, md, st2, ⟨hmd, hst2⟩, h⟩ := h
    rw [hs] at h
    rw [hst2, hst1] at h
    split at h
    · exact absurd h (runsTo_throw _ _ _ _)
    · rename_i bound hb
      exact withScope_post .plain _ (fun r => bindParams_same bound r) _ (deferredNodes_leaves bound) _
        (fun s n s' hi hr => genListWith_post _ ih md.body s n s' hi hr) st ns st' hinv h
  | codeLookup name info =>
    simp only [runsTo_bind, runsTo_get] at h
    obtain ⟨s, st1, ⟨hs, hst1⟩, h⟩ := h
    rw [hs] at h; rw [hst1] at h
    split at h
    · exact genListWith_post _ ih _ st ns st' hinv h
    · exact absurd h (runsTo_throw _ _ _ _)
    · exact absurd h (runsTo_throw _ _ _ _)
  | ifNode cond thenB elseB i =>
    simp only [runsTo_bind, runsTo_get] at h
    obtain ⟨s, st1, ⟨hs, hst1⟩, h⟩ := h
    rw [hs] at h; rw [hst1] at h
    split at h
    all_goals (simp only [runsTo_bind, runsTo_pure] at h)
    · obtain ⟨c, st2, ⟨_, hst2⟩, h⟩ := h; rw [hst2] at h
      split at h
      · exact genListWith_post _ ih thenB st ns st' hinv h
      · split at h
        · exact genListWith_post _ ih _ st ns st' hinv h
        · exact post_leaf st hinv [] ns st' (fun _ hn => by cases hn) h
    · obtain ⟨c, st2, ⟨_, hst2⟩, h⟩ := h; rw [hst2] at h
      split at h
      · exact genListWith_post _ ih thenB st ns st' hinv h
      · split at h
        · exact genListWith_post _ ih _ st ns st' hinv h
        · exact post_leaf st hinv [] ns st' (fun _ hn => by cases hn) h
    · obtain ⟨c, st2, ⟨_, hst2⟩, h⟩ := h; rw [hst2] at h
      split at h
      · exact genListWith_post _ ih thenB st ns st' hinv h
      · split at h
        · exact genListWith_post _ ih _ st ns st' hinv h
        · exact post_leaf st hinv [] ns st' (fun _ hn => by cases hn) h
    · obtain ⟨c, st2, hthrow, _⟩ := h; exact absurd hthrow (runsTo_throw _ _ _ _)
  | forNode sym lo hi body i =>
    simp only [runsTo_bind, runsTo_pure] at h
    obtain ⟨a, st1, ha, b, st2, hb, parts, st3, hp, hns, hst⟩ := h
    have e1 := runsTo_gEval env lo st a st1 ha
    rw [e1] at hb
    have e2 := runsTo_gEval env hi st b st2 hb
    rw [e2] at hp
    rw [hns, hst]
    exact mapM_post _ (fun j s n s' hi hr => iterationWith_post _ ih sym body _ s n s' hi hr) _ st parts st3 hinv hp
  | atEq e info => exact post_leaf st hinv _ ns st' (leaf1 _ rfl) h
  | starEq e info => exact post_leaf st hinv _ ns st' (leaf1 _ rfl) h
  | table path i =>
    simp only [runsTo_bind, runsTo_get, runsTo_liftOpt] at h
    obtain ⟨s, st1, ⟨hs, hst1⟩, src, st2, ⟨hsrc, hst2⟩, h⟩ := h
    rw [hst2, hst1] at h
    split at h
    · simp only [runsTo_bind] at h
      obtain ⟨_, _, h1, _⟩ := h
      exact absurd h1 (runsTo_throw _ _ _ _)
    · simp only [runsTo_bind, runsTo_modR, runsTo_pure] at h
      obtain ⟨u, st3, h3, hns, hst⟩ := h
      rw [hns, hst, h3]
      refine Post.of_same hinv ?_ _ (leaf1 _ rfl)
      exact modifyCur_same st.r _ (fun _ => rfl)
  | text t info =>
    simp only [runsTo_bind, runsTo_get] at h
    obtain ⟨s, st1, ⟨hs, hst1⟩, h⟩ := h
    rw [hst1] at h
    exact post_leaf st hinv _ ns st' (leaf1 _ rfl) h
  | ascii t i => exact post_leaf st hinv _ ns st' (leaf1 _ rfl) h
  | data kind es info =>
    exact post_leaf st hinv _ ns st' (fun n hn => by simp only [List.mem_map] at hn; obtain ⟨e, _, rfl⟩ := hn; rfl) h
  | symbol name e i => exact post_leaf st hinv _ ns st' (leaf1 _ rfl) h
  | assign name e i =>
    simp only [runsTo_bind, runsTo_modR, runsTo_pure] at h
    obtain ⟨v, st1, hv, u, st2, h2, hns, hst⟩ := h
    have e1 := runsTo_gEval env e st v st1 hv
    rw [hns, hst, h2, e1]
    refine Post.of_same hinv ?_ [] (fun _ hn => by cases hn)
    exact addSymbol_same st.r name v
  | label name i => exact post_leaf st hinv _ ns st' (leaf1 _ rfl) h
  | opcode mode mn size operand index info =>
    simp only at h
    split at h
    · exact post_leaf st hinv _ ns st' (leaf1 _ rfl) h
    · split at h
      · exact absurd h (runsTo_throw _ _ _ _)
      · exact post_leaf st hinv _ ns st' (leaf1 _ rfl) h
  | incbin path i =>
    simp only [runsTo_bind, runsTo_get, runsTo_liftOpt] at h
    obtain ⟨s, st1, ⟨hs, hst1⟩, c, st2, ⟨hc, hst2⟩, h⟩ := h
    rw [hst2, hst1] at h
    exact post_leaf st hinv _ ns st' (leaf1 _ rfl) h
  | includeIps path e i =>
    simp only [runsTo_bind, runsTo_get, runsTo_liftOpt] at h
    obtain ⟨d, st1, hd, s, st2, ⟨hs, hst2⟩, c, st3, ⟨hc, hst3⟩, h⟩ := h
    have e1 := runsTo_gEval env e st d st1 hd
    rw [hst3, hst2, e1] at h
    split at h
    · exact post_leaf st hinv _ ns st' (leaf1 _ rfl) h
    · exact absurd h (runsTo_throw _ _ _ _)
  | struct a b => exact absurd h (runsTo_throw _ _ _ _)

/-- **every generator call satisfies `Post`**, for every nesting budget -/
theorem gen_good (env : Env) : ∀ fuel, GoodGen (gen env fuel)
  | 0 => gen_zero env
  | fuel + 1 => gen_succ env fuel (gen_good env fuel)

theorem genList_post (env : Env) (fuel : Nat) (l : List Ast) (st : GenState) (ns : List Node) (st' : GenState)
    (hinv : GenInv st) (h : RunsTo (genList env fuel l) st ns st') : Post st ns st' :=
  genListWith_post _ (gen_good env fuel) l st ns st' hinv h


theorem restoreScope_any (r r' : Resolver) (ex : Bool) (h : r.restoreScope ex = some r') :
    ∃ p, (r.scopes.getD r.current default).parent = some p ∧ Agrees r.scopes r'.scopes ∧ r'.scopes.size = r.scopes.size ∧
      r'.current = p ∧ r'.lastUsed = r.lastUsed := by
  unfold Resolver.restoreScope at h
  simp only [Resolver.cur, Resolver.scopeAt] at h
  split at h
  · cases h
  · rename_i p hp
    simp only [Option.some.injEq] at h
    split at h
    · rw [← h]
      refine ⟨p, hp, ?_, ?_, rfl, rfl⟩
      · dsimp only
        refine (modify_agrees r.scopes p _ ?_).1
        intro s; rfl
      · dsimp only
        refine (modify_agrees r.scopes p _ ?_).2
        intro s; rfl
    · rw [← h]
      exact ⟨p, hp, Agrees.refl _, rfl, rfl, rfl⟩

theorem useNext_replay (r r' : Resolver) (h : r.useNextScope = some r') :
    replay r.scopes [Node.scopeEnter] r.current r.lastUsed = some (r'.current, r'.lastUsed) ∧ r'.scopes = r.scopes := by
  obtain ⟨hlt, hs, hc, hl⟩ := useNextScope_spec r r' h
  refine ⟨?_, hs⟩
  simp only [replay, hlt, ↓reduceIte, hc, hl]

/-- the scope bookkeeping of a resolver step that does not enter or leave a scope -/
structure Still (r r' : Resolver) : Prop where
  agrees : Agrees r.scopes r'.scopes
  size : r'.scopes.size = r.scopes.size
  cur : r'.current = r.current
  last : r'.lastUsed = r.lastUsed

theorem Still.of_same {r r' : Resolver} (h : SameShape r r') : Still r r' := ⟨h.agrees, h.size, h.cur, h.last⟩
theorem Still.refl (r : Resolver) : Still r r := Still.of_same (SameShape.refl r)

theorem addLabel_same (r : Resolver) (n : String) (v : Int) : SameShape r (r.addLabel n v) :=
  modifyCur_same r _ (fun _ => rfl)

theorem map_pair_ok {r r' : Resolver} {pc' : Address} {x : Except Err Address}
    (h : x.map (fun a => (r, a)) = .ok (r', pc')) : r' = r := by
  cases x with
  | error e => cases h
  | ok a => simp only [Except.map, Except.ok.injEq, Prod.mk.injEq] at h; exact h.1.symm

/-- **a label-pass step follows `replay`** -/
theorem pcAfter_replay (env : Env) (n : Node) (r r' : Resolver) (pc pc' : Address)
    (h : pcAfter env n r pc = .ok (r', pc')) :
    replay r.scopes [n] r.current r.lastUsed = some (r'.current, r'.lastUsed) ∧ Agrees r.scopes r'.scopes ∧
      r'.scopes.size = r.scopes.size := by
  have still : ∀ {m : Node}, Node.isScopeMark m = false → Still r r' →
      replay r.scopes [m] r.current r.lastUsed = some (r'.current, r'.lastUsed) ∧ Agrees r.scopes r'.scopes ∧
        r'.scopes.size = r.scopes.size := by
    intro m hm hs
    rw [replay_leaves r.scopes [m] _ _ (leaf1 m hm), hs.cur, hs.last]
    exact ⟨rfl, hs.agrees, hs.size⟩
  cases n with
  | scopeEnter =>
    simp only [pcAfter] at h
    split at h
    · rename_i r2 hr2
      cases h
      obtain ⟨h1, h2⟩ := useNext_replay r r' hr2
      exact ⟨h1, by rw [h2]; exact Agrees.refl _, by rw [h2]⟩
    · cases h
  | scopePop =>
    simp only [pcAfter] at h
    split at h
    · rename_i r2 hr2
      cases h
      obtain ⟨p, hp, hag, hsz, hc, hl⟩ := restoreScope_any r r' true hr2
      refine ⟨?_, hag, hsz⟩
      simp only [replay, hp, hc, hl]
    · cases h
  | label name =>
    simp only [pcAfter, Except.ok.injEq, Prod.mk.injEq] at h
    obtain ⟨h1, _⟩ := h; subst h1; exact still (m := .label name) rfl (Still.of_same (addLabel_same r name _))
  | symbol name e =>
    simp only [pcAfter] at h
    split at h
    · cases h
    · simp only [Except.ok.injEq, Prod.mk.injEq] at h
      obtain ⟨h1, _⟩ := h; subst h1; exact still (m := .symbol name e) rfl (Still.of_same (addSymbol_same r name _))
  | argSymbol name e =>
    simp only [pcAfter] at h
    split at h
    · cases h
    · split at h
      · cases h
      · simp only [Except.ok.injEq, Prod.mk.injEq] at h
        obtain ⟨h1, _⟩ := h; subst h1; exact still (m := .argSymbol name e) rfl (Still.of_same (addSymbol_same r name _))
  | symbolConst name v =>
    simp only [pcAfter, Except.ok.injEq, Prod.mk.injEq] at h
    obtain ⟨h1, _⟩ := h; subst h1; exact still (m := .symbolConst name v) rfl (Still.of_same (addSymbol_same r name v))
  | binary content base =>
    simp only [pcAfter] at h
    split at h
    · cases h
    · simp only [Except.ok.injEq, Prod.mk.injEq] at h
      obtain ⟨h1, _⟩ := h; subst h1; exact still (m := .binary content base) rfl (Still.of_same ((addLabel_same r base _).trans (addSymbol_same _ _ _)))
  | data w e info =>
    simp only [pcAfter] at h
    have := map_pair_ok h; subst this; exact still (m := .data w e info) rfl (Still.refl _)
  | ascii t =>
    simp only [pcAfter] at h
    have := map_pair_ok h; subst this; exact still (m := .ascii t) rfl (Still.refl _)
  | text t tbl info =>
    simp only [pcAfter] at h
    split at h
    · cases h
    · have := map_pair_ok h; subst this; exact still (m := .text t tbl info) rfl (Still.refl _)
  | table =>
    simp only [pcAfter, Except.ok.injEq, Prod.mk.injEq] at h
    obtain ⟨h1, _⟩ := h; subst h1; exact still (m := .table) rfl (Still.refl _)
  | includeIps b =>
    simp only [pcAfter, Except.ok.injEq, Prod.mk.injEq] at h
    obtain ⟨h1, _⟩ := h; subst h1; exact still (m := .includeIps b) rfl (Still.refl _)
  | codePos e info =>
    simp only [pcAfter] at h
    split at h
    · cases h
    · split at h
      · cases h
      · split at h
        · cases h
        · simp only [Except.ok.injEq, Prod.mk.injEq] at h
          obtain ⟨h1, _⟩ := h; subst h1; exact still (m := .codePos e info) rfl (Still.refl _)
  | reloc e info =>
    simp only [pcAfter] at h
    split at h
    · cases h
    · split at h
      · cases h
      · split at h
        · cases h
        · simp only [Except.ok.injEq, Prod.mk.injEq] at h
          obtain ⟨h1, _⟩ := h; subst h1; exact still (m := .reloc e info) rfl (Still.refl _)
  | opcode mn size mode index value info =>
    simp only [pcAfter] at h
    split at h
    · cases h
    · split at h
      · cases h
      · have := map_pair_ok h; subst this; exact still (m := .opcode mn size mode index value info) rfl (Still.refl _)

theorem replay_congr (a b : Array ScopeRec) (hag : Agrees a b) (hsz : b.size = a.size) :
    ∀ (ns : List Node) (c l : Nat), replay b ns c l = replay a ns c l := by
  have hpar : ∀ i, (b.getD i default).parent = (a.getD i default).parent := by
    intro i
    by_cases hi : i < a.size
    · exact hag.2 i hi
    · rw [Array.getD_eq_getD_getElem?, Array.getD_eq_getD_getElem?, Array.getElem?_eq_none (by omega), Array.getElem?_eq_none (by omega)]
  intro ns
  induction ns with
  | nil => intro c l; rfl
  | cons n ns ih =>
    intro c l
    cases n <;> simp only [replay, ih, hsz, hpar]

/-- **a whole pass follows `replay`**: the label pass and the symbol pass move through the scopes exactly as
    the positional replay of the node list does -/
theorem passLoop_replay (env : Env) (skip : Node → Bool) (hskip : ∀ n, skip n = true → Node.isScopeMark n = false) :
    ∀ (nodes : List Node) (r r' : Resolver) (pc pc' : Address), passLoop env skip nodes r pc = .ok (r', pc') →
      replay r.scopes nodes r.current r.lastUsed = some (r'.current, r'.lastUsed) ∧ Agrees r.scopes r'.scopes ∧
        r'.scopes.size = r.scopes.size := by
  intro nodes
  induction nodes with
  | nil =>
    intro r r' pc pc' h
    simp only [passLoop, Except.ok.injEq, Prod.mk.injEq] at h
    obtain ⟨h1, _⟩ := h; subst h1
    exact ⟨rfl, Agrees.refl _, rfl⟩
  | cons n ns ih =>
    intro r r' pc pc' h
    unfold passLoop at h
    split at h
    · rename_i hs
      obtain ⟨h1, h2, h3⟩ := ih r r' pc pc' h
      refine ⟨?_, h2, h3⟩
      rw [show n :: ns = [n] ++ ns from rfl, replay_append, replay_leaves r.scopes [n] _ _ (leaf1 n (hskip n hs))]
      exact h1
    · split at h
      · cases h
      · rename_i r1 pc1 h1
        obtain ⟨a1, a2, a3⟩ := pcAfter_replay env n r r1 pc pc1 h1
        obtain ⟨b1, b2, b3⟩ := ih r1 r' pc1 pc' h
        refine ⟨?_, a2.trans b2, by rw [b3, a3]⟩
        rw [show n :: ns = [n] ++ ns from rfl, replay_append, a1]
        simp only [Option.bind]
        rw [← replay_congr r.scopes r1.scopes a2 a3]
        exact b1

theorem setPosition_still (r r' : Resolver) (v : Int) (h : r.setPosition v = some r') : Still r r' := by
  unfold Resolver.setPosition at h
  split at h
  · cases h
  · split at h
    · cases h
    · cases h; exact ⟨Agrees.refl _, rfl, rfl, rfl⟩

theorem map_pair_ok' {α β} {r r' : Resolver} {b' : β} {x : Except Err α} {g : α → β}
    (h : x.map (fun a => (r, g a)) = .ok (r', b')) : r' = r := by
  cases x with
  | error e => cases h
  | ok a => simp only [Except.map, Except.ok.injEq, Prod.mk.injEq] at h; exact h.1.symm

/-- **an emission step follows `replay`** -/
theorem emitNode_replay (env : Env) (n : Node) (r r' : Resolver) (bs : List Nat)
    (h : emitNode env n r = .ok (r', bs)) :
    replay r.scopes [n] r.current r.lastUsed = some (r'.current, r'.lastUsed) ∧ Agrees r.scopes r'.scopes ∧
      r'.scopes.size = r.scopes.size := by
  have still : ∀ {m : Node}, Node.isScopeMark m = false → Still r r' →
      replay r.scopes [m] r.current r.lastUsed = some (r'.current, r'.lastUsed) ∧ Agrees r.scopes r'.scopes ∧
        r'.scopes.size = r.scopes.size := by
    intro m hm hs
    rw [replay_leaves r.scopes [m] _ _ (leaf1 m hm), hs.cur, hs.last]
    exact ⟨rfl, hs.agrees, hs.size⟩
  cases n with
  | scopeEnter =>
    simp only [emitNode] at h
    split at h
    · rename_i r2 hr2
      cases h
      obtain ⟨h1, h2⟩ := useNext_replay r r' hr2
      exact ⟨h1, by rw [h2]; exact Agrees.refl _, by rw [h2]⟩
    · cases h
  | scopePop =>
    simp only [emitNode] at h
    split at h
    · rename_i r2 hr2
      cases h
      obtain ⟨p, hp, hag, hsz, hc, hl⟩ := restoreScope_any r r' false hr2
      refine ⟨?_, hag, hsz⟩
      simp only [replay, hp, hc, hl]
    · cases h
  | label name =>
    simp only [emitNode] at h
    have := map_pair_ok' (g := fun _ => ([] : List Nat)) h; subst this; exact still (m := .label name) rfl (Still.refl _)
  | symbol name e =>
    simp only [emitNode, Except.ok.injEq, Prod.mk.injEq] at h
    obtain ⟨h1, _⟩ := h; subst h1; exact still (m := .symbol name e) rfl (Still.refl _)
  | argSymbol name e =>
    simp only [emitNode, Except.ok.injEq, Prod.mk.injEq] at h
    obtain ⟨h1, _⟩ := h; subst h1; exact still (m := .argSymbol name e) rfl (Still.refl _)
  | symbolConst name v =>
    simp only [emitNode, Except.ok.injEq, Prod.mk.injEq] at h
    obtain ⟨h1, _⟩ := h; subst h1; exact still (m := .symbolConst name v) rfl (Still.refl _)
  | binary content base =>
    simp only [emitNode] at h
    have := map_pair_ok' (g := fun _ => content) h; subst this; exact still (m := .binary content base) rfl (Still.refl _)
  | data w e info =>
    simp only [emitNode] at h
    split at h
    · cases h
    · simp only [Except.ok.injEq, Prod.mk.injEq] at h
      obtain ⟨h1, _⟩ := h; subst h1; exact still (m := .data w e info) rfl (Still.refl _)
  | ascii t =>
    simp only [emitNode, Except.ok.injEq, Prod.mk.injEq] at h
    obtain ⟨h1, _⟩ := h; subst h1; exact still (m := .ascii t) rfl (Still.refl _)
  | text t tbl info =>
    simp only [emitNode] at h
    have := map_pair_ok' (g := fun (b : List Nat) => b) h; subst this; exact still (m := .text t tbl info) rfl (Still.refl _)
  | table =>
    simp only [emitNode, Except.ok.injEq, Prod.mk.injEq] at h
    obtain ⟨h1, _⟩ := h; subst h1; exact still (m := .table) rfl (Still.refl _)
  | includeIps b =>
    simp only [emitNode, Except.ok.injEq, Prod.mk.injEq] at h
    obtain ⟨h1, _⟩ := h; subst h1; exact still (m := .includeIps b) rfl (Still.refl _)
  | codePos e info =>
    simp only [emitNode] at h
    split at h
    · cases h
    · split at h
      · rename_i r2 hr2
        simp only [Except.ok.injEq, Prod.mk.injEq] at h
        obtain ⟨h1, _⟩ := h; subst h1
        exact still (m := .codePos e info) rfl (setPosition_still _ _ _ hr2)
      · cases h
  | reloc e info =>
    simp only [emitNode] at h
    split at h
    · cases h
    · split at h
      · rename_i r2 hr2
        simp only [Except.ok.injEq, Prod.mk.injEq] at h
        obtain ⟨h1, _⟩ := h; subst h1
        exact still (m := .reloc e info) rfl (setPosition_still _ _ _ hr2)
      · cases h
  | opcode mn size mode index value info =>
    have hr : r' = r := by
      unfold emitNode at h
      simp only at h
      repeat' (split at h)
      all_goals first | (cases h; done) | (cases h; rfl) | exact map_pair_ok' (g := fun (b : List Nat) => b) h
    subst hr; exact still (m := .opcode mn size mode index value info) rfl (Still.refl _)

end A816.Replay
