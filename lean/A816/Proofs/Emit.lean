import A816.Model.Nodes
import A816.Proofs.Mapping
/-! Helper lemmas about the emission loop (`Program.emit`): what one step does to the state. -/
namespace A816

/-- flattened (offset, byte) list of a block -/
def placed (off : Int) : List Nat → List (Int × Nat)
  | [] => []
  | b :: bs => (off, b) :: placed (off + 1) bs

def flatW : List (Int × List Nat) → List (Int × Nat)
  | [] => []
  | (a, d) :: rest => placed a d ++ flatW rest

def traceFlat : List TraceRec → List (Int × Nat)
  | [] => []
  | t :: rest => placed t.storage t.bytes ++ traceFlat rest

theorem placed_append (off : Int) (a b : List Nat) : placed off (a ++ b) = placed off a ++ placed (off + a.length) b := by
  induction a generalizing off with
  | nil => simp [placed]
  | cons x xs ih =>
    simp only [List.cons_append, placed, ih, List.length_cons, List.cons.injEq, true_and]
    congr 2; omega

theorem flatW_append (a b : List (Int × List Nat)) : flatW (a ++ b) = flatW a ++ flatW b := by
  induction a with
  | nil => rfl
  | cons x xs ih => obtain ⟨o, d⟩ := x; simp [flatW, ih]

theorem traceFlat_append (a b : List TraceRec) : traceFlat (a ++ b) = traceFlat a ++ traceFlat b := by
  induction a with
  | nil => rfl
  | cons x xs ih => simp [traceFlat, ih]

theorem placed_nil (off : Int) : placed off [] = [] := rfl

/-- the bytes written so far, pending block included, are the trace laid out at the storage offsets -/
def WritesInv (st : EmitState) : Prop :=
  flatW (st.own ++ [(st.blockAddr, st.block)]) = traceFlat st.trace

/-- outcome of `emitNode` as seen by one step of the loop -/
theorem emitStep_spec (env : Env) (n : Node) (st st' : EmitState) (h : emitStep env n st = .ok st') :
    ∃ r1 bs, emitNode env n st.r = .ok (r1, bs) ∧
      st'.trace = st.trace ++ [⟨st.r.reloc.logical, st.blockAddr + st.block.length, bs⟩] ∧
      (bs = [] → st'.r = r1) ∧
      (bs ≠ [] → ∃ a', r1.reloc.add bs.length = some a' ∧ st'.r = { r1 with pc := r1.pc + bs.length, reloc := a' }) ∧
      (n.isCodePos = false → st'.block = st.block ++ bs ∧ st'.blockAddr = st.blockAddr ∧ st'.own = st.own) ∧
      (n.isCodePos = true → st'.block = [] ∧ st'.blockAddr = st'.r.pc ∧
        st'.own = if (st.block ++ bs).isEmpty then st.own else st.own ++ [(st.blockAddr, st.block ++ bs)]) := by
  unfold emitStep at h
  cases he : emitNode env n st.r with
  | error e => simp [he] at h
  | ok p =>
    obtain ⟨r1, bs⟩ := p
    refine ⟨r1, bs, rfl, ?_⟩
    simp only [he] at h
    by_cases hb : bs.isEmpty = true
    · have hbs : bs = [] := by simpa using hb
      subst hbs
      simp only [List.isEmpty_nil, ↓reduceIte, List.append_nil] at h
      by_cases hc : n.isCodePos = true
      · simp only [hc, ↓reduceIte] at h
        cases n <;> simp [Node.isCodePos] at hc
        by_cases hblk : st.block.isEmpty = true
        · simp only [hblk, ↓reduceIte, Except.ok.injEq] at h
          subst h
          simp [hblk, Node.isCodePos]
        · simp only [hblk, Bool.false_eq_true, ↓reduceIte, Except.ok.injEq] at h
          subst h
          simp [hblk, Node.isCodePos]
      · have hc' : n.isCodePos = false := by simpa using hc
        simp only [hc', Bool.false_eq_true, ↓reduceIte] at h
        cases n <;> simp only [Except.ok.injEq] at h <;> subst h <;> simp [Node.isCodePos] at hc' ⊢
    · have hne : bs ≠ [] := by intro c; subst c; simp at hb
      simp only [hb, Bool.false_eq_true, ↓reduceIte] at h
      unfold addrAdd at h
      cases ha : r1.reloc.add bs.length with
      | none => simp [ha] at h
      | some a' =>
        simp only [ha] at h
        by_cases hc : n.isCodePos = true
        · simp only [hc, ↓reduceIte] at h
          cases n <;> simp [Node.isCodePos] at hc
          have hblk : (st.block ++ bs).isEmpty = false := by
            cases st.block <;> cases bs <;> simp_all
          simp only [hblk, Bool.false_eq_true, ↓reduceIte, Except.ok.injEq] at h
          subst h
          simp [hne, hblk, Node.isCodePos]
        · have hc' : n.isCodePos = false := by simpa using hc
          simp only [hc', Bool.false_eq_true, ↓reduceIte] at h
          cases n <;> simp only [Except.ok.injEq] at h <;> subst h <;> simp [Node.isCodePos, hne] at hc' ⊢

/-- every step keeps "writes = trace laid out" -/
theorem emitStep_writesInv (env : Env) (n : Node) (st st' : EmitState) (h : emitStep env n st = .ok st')
    (hinv : WritesInv st) : WritesInv st' := by
  obtain ⟨r1, bs, _, htr, _, _, hnc, hc⟩ := emitStep_spec env n st st' h
  unfold WritesInv at *
  rw [htr, traceFlat_append, ← hinv]
  simp only [traceFlat, List.append_nil]
  cases hcp : n.isCodePos with
  | false =>
    obtain ⟨hb, ha, ho⟩ := hnc hcp
    rw [hb, ha, ho, flatW_append, flatW_append]
    simp only [flatW, List.append_nil, placed_append, List.append_assoc]
  | true =>
    obtain ⟨hb, _, ho⟩ := hc hcp
    rw [hb, ho, flatW_append, flatW_append]
    by_cases hem : (st.block ++ bs).isEmpty = true
    · have : st.block ++ bs = [] := by simpa using hem
      have h1 : st.block = [] := (List.append_eq_nil_iff.mp this).1
      have h2 : bs = [] := (List.append_eq_nil_iff.mp this).2
      simp [hem, flatW, placed, h1, h2]
    · simp only [hem, Bool.false_eq_true, ↓reduceIte, flatW_append, flatW, List.append_nil, placed_append, placed_nil,
        List.append_assoc]

theorem emitLoop_writesInv (env : Env) (nodes : List Node) : ∀ (st st' : EmitState),
    emitLoop env nodes st = .ok st' → WritesInv st → WritesInv st' := by
  induction nodes with
  | nil => intro st st' h hi; simp only [emitLoop, Except.ok.injEq] at h; subst h; exact hi
  | cons n ns ih =>
    intro st st' h hi
    simp only [emitLoop] at h
    cases hs : emitStep env n st with
    | error e => simp [hs] at h
    | ok s1 =>
      simp only [hs] at h
      exact ih s1 st' h (emitStep_writesInv env n st s1 hs hi)

/-- reaching each node: the loop over `pre ++ n :: post` passes through the state after `pre`, and the step for `n` succeeds there -/
theorem emitLoop_split (env : Env) (pre : List Node) (n : Node) (post : List Node) : ∀ (st st' : EmitState),
    emitLoop env (pre ++ n :: post) st = .ok st' →
    ∃ s1 s2, emitLoop env pre st = .ok s1 ∧ emitStep env n s1 = .ok s2 ∧ emitLoop env post s2 = .ok st' := by
  induction pre with
  | nil =>
    intro st st' h
    simp only [List.nil_append, emitLoop] at h
    cases hs : emitStep env n st with
    | error e => simp [hs] at h
    | ok s2 => simp only [hs] at h; exact ⟨st, s2, rfl, hs, h⟩
  | cons m ms ih =>
    intro st st' h
    simp only [List.cons_append, emitLoop] at h
    cases hs : emitStep env m st with
    | error e => simp [hs] at h
    | ok sm =>
      simp only [hs] at h
      obtain ⟨s1, s2, h1, h2, h3⟩ := ih sm st' h
      exact ⟨s1, s2, by simp [emitLoop, hs, h1], h2, h3⟩

end A816
