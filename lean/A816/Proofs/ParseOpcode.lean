import A816.Proofs.ExprClassify
import A816.Model.Cpu
/-!
# `parse_opcode` reads every operand shape as the addressing-mode decision table says (glue for C01)

C01's theorems are stated over `modeOfSyntax` (the decision logic of `parse_opcode` /
`parse_operand_and_addressing` on the written *shape* of an operand: `#`?, bracket, inner index, outer index).
This file ties that table to the parser model itself: on the tokens that spell a shape around the printout of any
expression tree, `parseOpcode` returns the instruction with exactly the mode and index register `modeOfSyntax`
gives for that shape, the written size suffix, and the expression's node list as operand.
-/
namespace A816.ParseOp
open A816 Spec Classify

def tokAt (st : PState) (i : Nat) : Tok := st.toks.getD i eofTok

/-- what is written at a token position -/
inductive Piece
  | ty (t : TokTy)
  | idx (i : Idx)
  | expr (ns : List ENode)

/-- the tokens from `p` on spell the pieces; the token after the last piece is at `p + pwidth` -/
def Spells (st : PState) : Nat → List Piece → Prop
  | _, [] => True
  | p, .ty t :: r => (tokAt st p).ty = t ∧ Spells st (p + 1) r
  | p, .idx i :: r => (tokAt st p).ty = .ADDRESSING_MODE_INDEX ∧ indexOfTok (tokAt st p) = some i ∧ Spells st (p + 1) r
  | p, .expr ns :: r => Matches st p ns ∧ Spells st (p + ns.length) r

def pwidth : List Piece → Nat
  | [] => 0
  | .ty _ :: r => 1 + pwidth r
  | .idx _ :: r => 1 + pwidth r
  | .expr ns :: r => ns.length + pwidth r

def idxPiece : Option Idx → List Piece
  | none => []
  | some i => [.idx i]

/-- the operand part of an instruction written in shape `syn` around the expression `ns` (without the outer index) -/
def operandPieces (syn : Syntax) (ns : List ENode) : List Piece :=
  if !syn.operand then []
  else if syn.imm then [.ty .SHARP, .expr ns]
  else match syn.bracket with
    | .none => [.expr ns]
    | .paren => [.ty .LPAREN, .expr ns] ++ idxPiece syn.inner ++ [.ty .RPAREN]
    | .square => [.ty .LBRAKET, .expr ns, .ty .RBRAKET]

theorem getD_adv (st : PState) (n : Nat) : (adv st n).toks.getD (adv st n).pos eofTok = tokAt st (st.pos + n) := rfl

theorem expect_ok (t : Tok) (ty : TokTy) (st : PState) (h : t.ty = ty) : expectTok t ty st = .ok ((), st) := by
  unfold expectTok; rw [h]; simp only [beq_self_eq_true, ↓reduceIte]; rfl

theorem pPeek_eq (st : PState) : pPeek st = .ok (tokAt st (st.pos + 1), st) := rfl

/-- the first token of a matched, non-empty node list is one of the tokens an expression starts with -/
theorem first_tok {st : PState} {p : Nat} {n : ENode} {ns : List ENode} (h : Matches st p (n :: ns)) :
    (tokAt st p).ty = .NUMBER ∨ (tokAt st p).ty = .IDENTIFIER ∨ (tokAt st p).ty = .OPERATOR ∨
    (tokAt st p).ty = .LPAREN ∨ (tokAt st p).ty = .RPAREN := by
  have := (Matches.tail h).1
  unfold TokIs at this
  unfold tokAt
  split at this
  · exact Or.inl this.1
  · exact Or.inr (Or.inl this.1)
  · exact this.elim
  · exact Or.inr (Or.inr (Or.inl this.1))
  · exact Or.inr (Or.inr (Or.inl this.1))
  · exact Or.inr (Or.inr (Or.inr (Or.inl this)))
  · exact Or.inr (Or.inr (Or.inr (Or.inr this)))

theorem printNodes_ne_nil (e : Expr) : printNodes e ≠ [] := by
  cases e <;> simp [printNodes]

/-- `parse_expression` on the printout of a tree at any position -/
theorem parseExpr_at (cfg : ParseCfg) (e : Expr) (fuel : Nat) (st : PState) (k : Nat)
    (hm : Matches st (st.pos + k) (printNodes e)) (hfuel : (printNodes e).length < fuel)
    (hf : (tokAt st (st.pos + k + (printNodes e).length)).ty ≠ .OPERATOR) :
    parseExpr cfg fuel (adv st k) =
      .ok (⟨printNodes e, tokAt st (st.pos + k)⟩, adv st (k + (printNodes e).length)) := by
  have := parseExpr_print cfg e fuel (adv st k) (fun i hi => hm i hi) hfuel (by simpa [tokAt] using hf)
  rw [this, adv_adv]
  rfl

theorem adv_getD (st : PState) (k : Nat) : (adv st k).toks.getD (adv st k).pos eofTok = tokAt st (st.pos + k) := rfl

theorem pCurrent_adv (st : PState) (k : Nat) : pCurrent (adv st k) = .ok (tokAt st (st.pos + k), adv st k) := rfl
theorem pNext_adv (st : PState) (k : Nat) : pNext (adv st k) = .ok (tokAt st (st.pos + k), adv st (k + 1)) := by
  rw [pNext_eq, adv_adv]; rfl
theorem pPeek_adv (st : PState) (k : Nat) : pPeek (adv st k) = .ok (tokAt st (st.pos + k + 1), adv st k) := rfl

/-- `#expr` -/
theorem parseOperand_imm (cfg : ParseCfg) (e : Expr) (fuel : Nat) (mode0 : AddrMode) (opcode : Tok) (st : PState) (k : Nat)
    (h0 : (tokAt st (st.pos + k)).ty = .SHARP) (hm : Matches st (st.pos + (k + 1)) (printNodes e))
    (hfuel : (printNodes e).length < fuel)
    (hf : (tokAt st (st.pos + (k + 1) + (printNodes e).length)).ty ≠ .OPERATOR) :
    parseOperand cfg (fuel + 1) mode0 opcode (adv st k) =
      .ok ((.immediate, none, some ⟨printNodes e, tokAt st (st.pos + (k + 1))⟩), adv st (k + 1 + (printNodes e).length)) := by
  rw [parseOperand]
  rw [bind_ok _ _ _ _ _ (pCurrent_adv st k)]
  simp only [h0, beq_self_eq_true, ↓reduceIte]
  rw [bind_ok _ _ _ _ _ (pNext_adv st k), bind_ok _ _ _ _ _ (pCurrent_adv st (k + 1))]
  have hne : ((tokAt st (st.pos + (k + 1))).ty == TokTy.EOF) = false := by
    obtain ⟨n, ns, hn⟩ : ∃ n ns, printNodes e = n :: ns := by
      cases h : printNodes e with
      | nil => exact absurd h (printNodes_ne_nil e)
      | cons n ns => exact ⟨n, ns, rfl⟩
    rw [hn] at hm
    rcases first_tok hm with h | h | h | h | h <;> rw [h] <;> rfl
  simp only [hne, Bool.false_eq_true, ↓reduceIte]
  rw [bind_ok _ _ _ _ _ (parseExpr_at cfg e fuel st (k + 1) hm hfuel hf)]
  rfl

theorem ne_of_first {st : PState} {p : Nat} {e : Expr} (hm : Matches st p (printNodes e)) :
    (tokAt st p).ty ≠ .SHARP ∧ (tokAt st p).ty ≠ .LBRAKET ∧ (tokAt st p).ty ≠ .EOF := by
  obtain ⟨n, ns, hn⟩ : ∃ n ns, printNodes e = n :: ns := by
    cases h : printNodes e with
    | nil => exact absurd h (printNodes_ne_nil e)
    | cons n ns => exact ⟨n, ns, rfl⟩
  rw [hn] at hm
  rcases first_tok hm with h | h | h | h | h <;> rw [h] <;> refine ⟨?_, ?_, ?_⟩ <;> intro hh <;> cases hh

/-- a bare expression after a mnemonic that takes an operand -/
theorem parseOperand_plain (cfg : ParseCfg) (e : Expr) (fuel : Nat) (mode0 : AddrMode) (opcode : Tok) (st : PState) (k : Nat)
    (hop : opcode.ty = .OPCODE) (hm : Matches st (st.pos + k) (printNodes e))
    (hl : (tokAt st (st.pos + k)).ty ≠ .LPAREN)
    (hfuel : (printNodes e).length < fuel)
    (hf : (tokAt st (st.pos + k + (printNodes e).length)).ty ≠ .OPERATOR) :
    parseOperand cfg (fuel + 1) mode0 opcode (adv st k) =
      .ok ((mode0, none, some ⟨printNodes e, tokAt st (st.pos + k)⟩), adv st (k + (printNodes e).length)) := by
  rw [parseOperand]
  rw [bind_ok _ _ _ _ _ (pCurrent_adv st k)]
  obtain ⟨h1, h2, _⟩ := ne_of_first hm
  have e1 : ((tokAt st (st.pos + k)).ty == TokTy.SHARP) = false := by simpa using h1
  have e2 : ((tokAt st (st.pos + k)).ty == TokTy.LPAREN) = false := by simpa using hl
  have e3 : ((tokAt st (st.pos + k)).ty == TokTy.LBRAKET) = false := by simpa using h2
  simp only [e1, e2, e3, hop, beq_self_eq_true, Bool.false_eq_true, ↓reduceIte]
  rw [bind_ok _ _ _ _ _ (parseExpr_at cfg e fuel st k hm hfuel hf)]
  rfl

/-- a mnemonic standing alone -/
theorem parseOperand_none (cfg : ParseCfg) (fuel : Nat) (mode0 : AddrMode) (opcode : Tok) (st : PState) (k : Nat)
    (hop : opcode.ty ≠ .OPCODE) (h1 : (tokAt st (st.pos + k)).ty ≠ .SHARP) (h2 : (tokAt st (st.pos + k)).ty ≠ .LPAREN)
    (h3 : (tokAt st (st.pos + k)).ty ≠ .LBRAKET) :
    parseOperand cfg (fuel + 1) mode0 opcode (adv st k) = .ok ((mode0, none, none), adv st k) := by
  rw [parseOperand]
  rw [bind_ok _ _ _ _ _ (pCurrent_adv st k)]
  have e1 : ((tokAt st (st.pos + k)).ty == TokTy.SHARP) = false := by simpa using h1
  have e2 : ((tokAt st (st.pos + k)).ty == TokTy.LPAREN) = false := by simpa using h2
  have e3 : ((tokAt st (st.pos + k)).ty == TokTy.LBRAKET) = false := by simpa using h3
  have e4 : (opcode.ty == TokTy.OPCODE) = false := by simpa using hop
  simp only [e1, e2, e3, e4, Bool.false_eq_true, ↓reduceIte]
  rfl

/-- `[expr]` -/
theorem parseOperand_square (cfg : ParseCfg) (e : Expr) (fuel : Nat) (mode0 : AddrMode) (opcode : Tok) (st : PState) (k : Nat)
    (h0 : (tokAt st (st.pos + k)).ty = .LBRAKET) (hm : Matches st (st.pos + (k + 1)) (printNodes e))
    (hfuel : (printNodes e).length < fuel)
    (hr : (tokAt st (st.pos + (k + 1) + (printNodes e).length)).ty = .RBRAKET) :
    parseOperand cfg (fuel + 1) mode0 opcode (adv st k) =
      .ok ((.indirect_long, none, some ⟨printNodes e, tokAt st (st.pos + (k + 1))⟩), adv st (k + 1 + (printNodes e).length + 1)) := by
  rw [parseOperand]
  rw [bind_ok _ _ _ _ _ (pCurrent_adv st k)]
  simp only [h0, show (TokTy.LBRAKET == TokTy.SHARP) = false from rfl, show (TokTy.LBRAKET == TokTy.LPAREN) = false from rfl,
    beq_self_eq_true, Bool.false_eq_true, ↓reduceIte]
  have hf : (tokAt st (st.pos + (k + 1) + (printNodes e).length)).ty ≠ .OPERATOR := by rw [hr]; intro h; cases h
  rw [bind_ok _ _ _ _ _ (pNext_adv st k), bind_ok _ _ _ _ _ (parseExpr_at cfg e fuel st (k + 1) hm hfuel hf),
    bind_ok _ _ _ _ _ (pNext_adv st (k + 1 + (printNodes e).length))]
  have hr' : (tokAt st (st.pos + (k + 1 + (printNodes e).length))).ty = .RBRAKET := by rw [← hr]; congr 2; omega
  rw [bind_ok _ _ _ _ _ (expect_ok _ _ _ hr')]
  rfl

theorem get_adv (st : PState) (k : Nat) : (get : PM PState) (adv st k) = .ok (adv st k, adv st k) := rfl

/-- `(expr)` -/
theorem parseOperand_paren (cfg : ParseCfg) (e : Expr) (fuel : Nat) (mode0 : AddrMode) (opcode : Tok) (st : PState) (k : Nat)
    (h0 : (tokAt st (st.pos + k)).ty = .LPAREN) (hm : Matches st (st.pos + (k + 1)) (printNodes e))
    (hfuel : (printNodes e).length < fuel)
    (hr : (tokAt st (st.pos + (k + 1) + (printNodes e).length)).ty = .RPAREN)
    (hf : (tokAt st (st.pos + (k + 1) + (printNodes e).length + 1)).ty ≠ .OPERATOR) :
    parseOperand cfg (fuel + 1) mode0 opcode (adv st k) =
      .ok ((.indirect, none, some ⟨printNodes e, tokAt st (st.pos + (k + 1))⟩), adv st (k + 1 + (printNodes e).length + 1)) := by
  rw [parseOperand]
  rw [bind_ok _ _ _ _ _ (pCurrent_adv st k)]
  simp only [h0, show (TokTy.LPAREN == TokTy.SHARP) = false from rfl, beq_self_eq_true, Bool.false_eq_true, ↓reduceIte]
  have hfe : (tokAt st (st.pos + (k + 1) + (printNodes e).length)).ty ≠ .OPERATOR := by rw [hr]; intro h; cases h
  rw [bind_ok _ _ _ _ _ (get_adv st k), bind_ok _ _ _ _ _ (pNext_adv st k),
    bind_ok _ _ _ _ _ (parseExpr_at cfg e fuel st (k + 1) hm hfuel hfe),
    bind_ok _ _ _ _ _ (pCurrent_adv st (k + 1 + (printNodes e).length))]
  have hr' : (tokAt st (st.pos + (k + 1 + (printNodes e).length))).ty = .RPAREN := by rw [← hr]; congr 2; omega
  simp only [hr', show (TokTy.RPAREN == TokTy.ADDRESSING_MODE_INDEX) = false from rfl, Bool.false_eq_true, ↓reduceIte, pure_bind]
  rw [bind_ok _ _ _ _ _ (pCurrent_adv st (k + 1 + (printNodes e).length)), bind_ok _ _ _ _ _ (expect_ok _ _ _ hr'),
    bind_ok _ _ _ _ _ (pPeek_adv st (k + 1 + (printNodes e).length))]
  have hf' : ((tokAt st (st.pos + (k + 1 + (printNodes e).length) + 1)).ty == TokTy.OPERATOR) = false := by
    have : st.pos + (k + 1 + (printNodes e).length) + 1 = st.pos + (k + 1) + (printNodes e).length + 1 := by omega
    rw [this]; simpa using hf
  simp only [hf', Bool.false_eq_true, ↓reduceIte]
  rw [bind_ok _ _ _ _ _ (pNext_adv st (k + 1 + (printNodes e).length))]
  rfl

/-- `(expr,r)` -/
theorem parseOperand_paren_inner (cfg : ParseCfg) (e : Expr) (fuel : Nat) (mode0 : AddrMode) (opcode : Tok) (st : PState) (k : Nat)
    (i : Idx)
    (h0 : (tokAt st (st.pos + k)).ty = .LPAREN) (hm : Matches st (st.pos + (k + 1)) (printNodes e))
    (hfuel : (printNodes e).length < fuel)
    (hi : (tokAt st (st.pos + (k + 1) + (printNodes e).length)).ty = .ADDRESSING_MODE_INDEX)
    (hiv : indexOfTok (tokAt st (st.pos + (k + 1) + (printNodes e).length)) = some i)
    (hr : (tokAt st (st.pos + (k + 1) + (printNodes e).length + 1)).ty = .RPAREN)
    (hf : (tokAt st (st.pos + (k + 1) + (printNodes e).length + 2)).ty ≠ .OPERATOR) :
    parseOperand cfg (fuel + 1) mode0 opcode (adv st k) =
      .ok ((.dp_or_sr_indirect_indexed, some i, some ⟨printNodes e, tokAt st (st.pos + (k + 1))⟩),
           adv st (k + 1 + (printNodes e).length + 2)) := by
  rw [parseOperand]
  rw [bind_ok _ _ _ _ _ (pCurrent_adv st k)]
  simp only [h0, show (TokTy.LPAREN == TokTy.SHARP) = false from rfl, beq_self_eq_true, Bool.false_eq_true, ↓reduceIte]
  have hfe : (tokAt st (st.pos + (k + 1) + (printNodes e).length)).ty ≠ .OPERATOR := by rw [hi]; intro h; cases h
  rw [bind_ok _ _ _ _ _ (get_adv st k), bind_ok _ _ _ _ _ (pNext_adv st k),
    bind_ok _ _ _ _ _ (parseExpr_at cfg e fuel st (k + 1) hm hfuel hfe),
    bind_ok _ _ _ _ _ (pCurrent_adv st (k + 1 + (printNodes e).length))]
  have ea : st.pos + (k + 1 + (printNodes e).length) = st.pos + (k + 1) + (printNodes e).length := by omega
  have hi' : (tokAt st (st.pos + (k + 1 + (printNodes e).length))).ty = .ADDRESSING_MODE_INDEX := by rw [ea]; exact hi
  simp only [hi', beq_self_eq_true, ↓reduceIte, pure_bind]
  rw [bind_ok _ _ _ _ _ (pNext_adv st (k + 1 + (printNodes e).length))]
  have hr' : (tokAt st (st.pos + (k + 1 + (printNodes e).length + 1))).ty = .RPAREN := by rw [← hr]; congr 2; omega
  rw [bind_ok _ _ _ _ _ (pCurrent_adv st (k + 1 + (printNodes e).length + 1)), bind_ok _ _ _ _ _ (expect_ok _ _ _ hr'),
    bind_ok _ _ _ _ _ (pPeek_adv st (k + 1 + (printNodes e).length + 1))]
  have hf' : ((tokAt st (st.pos + (k + 1 + (printNodes e).length + 1) + 1)).ty == TokTy.OPERATOR) = false := by
    have : st.pos + (k + 1 + (printNodes e).length + 1) + 1 = st.pos + (k + 1) + (printNodes e).length + 2 := by omega
    rw [this]; simpa using hf
  simp only [hf', Bool.false_eq_true, ↓reduceIte]
  rw [bind_ok _ _ _ _ _ (pNext_adv st (k + 1 + (printNodes e).length + 1))]
  rw [ea, hiv]
  rfl

/-- the operand pwidth a written suffix stands for -/
def sizeOfSuffix (s : Option String) : Option Nat :=
  match s with
  | some "b" => some 1 | some "w" => some 2 | some "l" => some 3 | _ => none

theorem adv_zero (st : PState) : adv st 0 = st := rfl

/-- `index or inner_index` -/
def orInner (index inner : Option Idx) : Option Idx :=
  match index with
  | some i => some i
  | none => inner

/-- `parse_opcode` around any result of `parse_operand_and_addressing`: mnemonic, optional size suffix, operand,
    optional outer index register -/
theorem parseOpcode_spec (cfg : ParseCfg) (fuel : Nat) (st : PState) (ks : Nat) (size : Option String)
    (hsize : (ks = 1 ∧ (tokAt st (st.pos + 1)).ty = .OPCODE_SIZE ∧ size = some (asciiLower (tokAt st (st.pos + 1)).val)) ∨
             (ks = 0 ∧ (tokAt st (st.pos + 1)).ty ≠ .OPCODE_SIZE ∧ size = none))
    (mode1 : AddrMode) (inner : Option Idx) (operand : Option PExpr) (n : Nat)
    (hop : parseOperand cfg fuel (if (tokAt st st.pos).ty == .OPCODE_NAKED then .none else .direct) (tokAt st st.pos) (adv st (1 + ks)) =
      .ok ((mode1, inner, operand), adv st (1 + ks + n)))
    (mode2 : AddrMode) (index : Option Idx) (ko : Nat)
    (houter : (ko = 1 ∧ (tokAt st (st.pos + (1 + ks + n))).ty = .ADDRESSING_MODE_INDEX ∧
                 indexOfTok (tokAt st (st.pos + (1 + ks + n))) = index ∧
                 (inner.isSome && !(inner == some Idx.s && index == some Idx.y)) = false ∧
                 alookup mode1 cfg.indexMap = some mode2) ∨
              (ko = 0 ∧ (tokAt st (st.pos + (1 + ks + n))).ty ≠ .ADDRESSING_MODE_INDEX ∧ mode2 = mode1 ∧ index = none)) :
    parseOpcode cfg (fuel + 1) st =
      .ok (.opcode mode2 (tokAt st st.pos).val (sizeOfSuffix size) operand
             (orInner index inner) (tokAt st st.pos), adv st (1 + ks + n + ko)) := by
  rw [parseOpcode]
  rw [bind_ok _ _ _ _ _ (pNext_eq st), bind_ok _ _ _ _ _ (pCurrent_adv st 1)]
  rcases hsize with ⟨rfl, hs, rfl⟩ | ⟨rfl, hs, rfl⟩
  · simp only [hs, beq_self_eq_true, ↓reduceIte, bind_assoc, pure_bind]
    have hop' : parseOperand cfg fuel (if ((st.toks.getD st.pos eofTok).ty == TokTy.OPCODE_NAKED) = true then AddrMode.none else AddrMode.direct)
        (st.toks.getD st.pos eofTok) (adv st (1 + 1)) = .ok ((mode1, inner, operand), adv st (1 + 1 + n)) := hop
    rw [bind_ok _ _ _ _ _ (pNext_adv st 1), bind_ok _ _ _ _ _ hop', bind_ok _ _ _ _ _ (pCurrent_adv st (1 + 1 + n))]
    rcases houter with ⟨rfl, h, hidx, hin, hlk⟩ | ⟨rfl, h, rfl, rfl⟩
    · simp only [h, beq_self_eq_true, ↓reduceIte, bind_assoc]
      rw [bind_ok _ _ _ _ _ (pNext_adv st (1 + 1 + n))]
      simp only [hidx, hin, Bool.false_eq_true, ↓reduceIte, hlk, pure_bind]
      cases index <;> rfl
    · have : ((tokAt st (st.pos + (1 + 1 + n))).ty == TokTy.ADDRESSING_MODE_INDEX) = false := by simpa using h
      simp only [this, Bool.false_eq_true, ↓reduceIte, pure_bind]
      rfl
  · have hs' : ((tokAt st (st.pos + 1)).ty == TokTy.OPCODE_SIZE) = false := by simpa using hs
    simp only [hs', Bool.false_eq_true, ↓reduceIte, pure_bind]
    have hop' : parseOperand cfg fuel (if ((st.toks.getD st.pos eofTok).ty == TokTy.OPCODE_NAKED) = true then AddrMode.none else AddrMode.direct)
        (st.toks.getD st.pos eofTok) (adv st 1) = .ok ((mode1, inner, operand), adv st (1 + 0 + n)) := hop
    rw [bind_ok _ _ _ _ _ hop', bind_ok _ _ _ _ _ (pCurrent_adv st (1 + 0 + n))]
    rcases houter with ⟨rfl, h, hidx, hin, hlk⟩ | ⟨rfl, h, rfl, rfl⟩
    · simp only [h, beq_self_eq_true, ↓reduceIte, bind_assoc]
      rw [bind_ok _ _ _ _ _ (pNext_adv st (1 + 0 + n))]
      simp only [hidx, hin, Bool.false_eq_true, ↓reduceIte, hlk, pure_bind]
      cases index <;> rfl
    · have : ((tokAt st (st.pos + (1 + 0 + n))).ty == TokTy.ADDRESSING_MODE_INDEX) = false := by simpa using h
      simp only [this, Bool.false_eq_true, ↓reduceIte, pure_bind]
      rfl

/-- the part of `modeOfSyntax` that does not look at the outer index register -/
def baseOfSyntax (syn : Syntax) : Except Err (AddrMode × Option Idx) :=
  if !syn.operand then .ok (.none, none)
  else if syn.imm then (if syn.inner.isSome || syn.bracket != .none then .error (.parse (-1) (-1)) else .ok (.immediate, none))
  else match syn.bracket with
    | .paren => if syn.inner.isSome then .ok (.dp_or_sr_indirect_indexed, syn.inner) else .ok (.indirect, none)
    | .square => if syn.inner.isSome then .error (.parse (-1) (-1)) else .ok (.indirect_long, none)
    | .none => if syn.inner.isSome then .error (.parse (-1) (-1)) else .ok (.direct, none)

theorem modeOfSyntax_split (im : List (AddrMode × AddrMode)) (syn : Syntax) (mode : AddrMode) (idx : Option Idx)
    (h : modeOfSyntax im syn = .ok (mode, idx)) :
    ∃ mode1 inner, baseOfSyntax syn = .ok (mode1, inner) ∧
      match syn.outer with
      | none => mode = mode1 ∧ idx = inner
      | some o => (inner.isSome && !(inner == some Idx.s && some o == some Idx.y)) = false ∧ alookup mode1 im = some mode ∧ idx = some o := by
  unfold modeOfSyntax at h
  change (match baseOfSyntax syn with
    | .error e => Except.error e
    | .ok (mode, inner) =>
      match syn.outer with
      | none => Except.ok (mode, inner)
      | some idx =>
        if inner.isSome && !(inner == some Idx.s && idx == Idx.y) then Except.error (.parse (-1) (-1))
        else match alookup mode im with
          | none => Except.error .key
          | some m' => Except.ok (m', some idx)) = _ at h
  cases hb : baseOfSyntax syn with
  | error e => simp [hb] at h
  | ok p =>
    obtain ⟨mode1, inner⟩ := p
    refine ⟨mode1, inner, rfl, ?_⟩
    simp only [hb] at h
    cases ho : syn.outer with
    | none =>
      simp only [ho, Except.ok.injEq, Prod.mk.injEq] at h
      exact ⟨h.1.symm, h.2.symm⟩
    | some o =>
      simp only [ho] at h
      split at h
      · cases h
      · rename_i hc
        cases hl : alookup mode1 im with
        | none => simp [hl] at h
        | some m' =>
          simp only [hl, Except.ok.injEq, Prod.mk.injEq] at h
          refine ⟨?_, by rw [h.1], h.2.symm⟩
          cases inner <;> cases o <;> simp_all

/-- every operand shape the decision table accepts is read by `parse_operand_and_addressing` as the table says -/
theorem operand_of_shape (cfg : ParseCfg) (syn : Syntax) (e : Expr) (fuel : Nat) (opcode : Tok) (st : PState) (k : Nat)
    (hoperand : syn.operand = true) (hopc : opcode.ty = .OPCODE)
    (mode1 : AddrMode) (inner : Option Idx) (hbase : baseOfSyntax syn = .ok (mode1, inner))
    (hsp : Spells st (st.pos + k) (operandPieces syn (printNodes e)))
    (hfollow : (tokAt st (st.pos + k + pwidth (operandPieces syn (printNodes e)))).ty ≠ .OPERATOR)
    (hplain : syn.imm = false → syn.bracket = .none → (tokAt st (st.pos + k)).ty ≠ .LPAREN)
    (hfuel : (printNodes e).length < fuel) :
    ∃ first, parseOperand cfg (fuel + 1) .direct opcode (adv st k) =
      .ok ((mode1, inner, some ⟨printNodes e, first⟩), adv st (k + pwidth (operandPieces syn (printNodes e)))) := by
  obtain ⟨operand, imm, bracket, sinner, outer⟩ := syn
  simp only at hoperand hplain
  subst hoperand
  cases imm with
  | true =>
    -- `#expr`
    cases sinner <;> cases bracket <;> simp [baseOfSyntax] at hbase
    obtain ⟨rfl, rfl⟩ := hbase
    simp only [operandPieces, Bool.not_true, Bool.false_eq_true, ↓reduceIte, Spells, pwidth, Nat.add_zero] at hsp hfollow ⊢
    obtain ⟨h0, hm, _⟩ := hsp
    refine ⟨tokAt st (st.pos + (k + 1)), ?_⟩
    have := parseOperand_imm cfg e fuel .direct opcode st k h0 (by rw [← Nat.add_assoc]; exact hm) hfuel
      (by rw [← Nat.add_assoc]; rw [show st.pos + k + (1 + (printNodes e).length) = st.pos + k + 1 + (printNodes e).length by omega] at hfollow; exact hfollow)
    rw [this]
    congr 3
    omega
  | false =>
    cases bracket with
    | none =>
      cases sinner <;> simp [baseOfSyntax] at hbase
      obtain ⟨rfl, rfl⟩ := hbase
      simp only [operandPieces, Bool.not_true, Bool.false_eq_true, ↓reduceIte, Spells, pwidth, Nat.add_zero] at hsp hfollow ⊢
      obtain ⟨hm, _⟩ := hsp
      exact ⟨_, parseOperand_plain cfg e fuel .direct opcode st k hopc hm (hplain rfl rfl) hfuel hfollow⟩
    | square =>
      cases sinner <;> simp [baseOfSyntax] at hbase
      obtain ⟨rfl, rfl⟩ := hbase
      simp only [operandPieces, Bool.not_true, Bool.false_eq_true, ↓reduceIte, Spells, pwidth, Nat.add_zero] at hsp hfollow ⊢
      obtain ⟨h0, hm, hr, _⟩ := hsp
      refine ⟨tokAt st (st.pos + (k + 1)), ?_⟩
      have := parseOperand_square cfg e fuel .direct opcode st k h0 (by rw [← Nat.add_assoc]; exact hm) hfuel
        (by rw [← Nat.add_assoc]; exact hr)
      rw [this]
      congr 3
      omega
    | paren =>
      cases sinner with
      | none =>
        simp [baseOfSyntax] at hbase
        obtain ⟨rfl, rfl⟩ := hbase
        simp only [operandPieces, idxPiece, List.append_nil, List.cons_append, List.nil_append, Bool.not_true, Bool.false_eq_true, ↓reduceIte,
          Spells, pwidth, Nat.add_zero] at hsp hfollow ⊢
        obtain ⟨h0, hm, hr, _⟩ := hsp
        refine ⟨tokAt st (st.pos + (k + 1)), ?_⟩
        have := parseOperand_paren cfg e fuel .direct opcode st k h0 (by rw [← Nat.add_assoc]; exact hm) hfuel
          (by rw [← Nat.add_assoc]; exact hr)
          (by rw [← Nat.add_assoc]; rw [show st.pos + k + (1 + ((printNodes e).length + 1)) = st.pos + k + 1 + (printNodes e).length + 1 by omega] at hfollow; exact hfollow)
        rw [this]
        congr 3
        omega
      | some i =>
        simp [baseOfSyntax] at hbase
        obtain ⟨rfl, rfl⟩ := hbase
        simp only [operandPieces, idxPiece, List.append_nil, List.cons_append, List.nil_append, Bool.not_true, Bool.false_eq_true, ↓reduceIte,
          Spells, pwidth, Nat.add_zero] at hsp hfollow ⊢
        obtain ⟨h0, hm, hi, hiv, hr, _⟩ := hsp
        refine ⟨tokAt st (st.pos + (k + 1)), ?_⟩
        have := parseOperand_paren_inner cfg e fuel .direct opcode st k i h0 (by rw [← Nat.add_assoc]; exact hm) hfuel
          (by rw [← Nat.add_assoc]; exact hi) (by rw [← Nat.add_assoc]; exact hiv)
          (by rw [← Nat.add_assoc]; exact hr)
          (by rw [← Nat.add_assoc]; rw [show st.pos + k + (1 + ((printNodes e).length + (1 + 1))) = st.pos + k + 1 + (printNodes e).length + 2 by omega] at hfollow; exact hfollow)
        rw [this]
        congr 3
        omega

theorem pwidth_append (a b : List Piece) : pwidth (a ++ b) = pwidth a + pwidth b := by
  induction a with
  | nil => simp [pwidth]
  | cons x xs ih => cases x <;> simp [pwidth, ih] <;> omega

theorem Spells.append {st : PState} : ∀ {p : Nat} {a b : List Piece}, Spells st p (a ++ b) →
    Spells st p a ∧ Spells st (p + pwidth a) b := by
  intro p a
  induction a generalizing p with
  | nil => intro b h; exact ⟨trivial, by simpa [pwidth] using h⟩
  | cons x xs ih =>
    intro b h
    cases x with
    | ty t =>
      simp only [List.cons_append, Spells] at h ⊢
      obtain ⟨h1, h2⟩ := h
      obtain ⟨i1, i2⟩ := ih h2
      exact ⟨⟨h1, i1⟩, by simp only [pwidth]; rw [show p + (1 + pwidth xs) = p + 1 + pwidth xs by omega]; exact i2⟩
    | idx i =>
      simp only [List.cons_append, Spells] at h ⊢
      obtain ⟨h1, h1', h2⟩ := h
      obtain ⟨i1, i2⟩ := ih h2
      exact ⟨⟨h1, h1', i1⟩, by simp only [pwidth]; rw [show p + (1 + pwidth xs) = p + 1 + pwidth xs by omega]; exact i2⟩
    | expr ns =>
      simp only [List.cons_append, Spells] at h ⊢
      obtain ⟨h1, h2⟩ := h
      obtain ⟨i1, i2⟩ := ih h2
      exact ⟨⟨h1, i1⟩, by simp only [pwidth]; rw [show p + (ns.length + pwidth xs) = p + ns.length + pwidth xs by omega]; exact i2⟩

/-- **the parser reads every accepted operand shape as the decision table says**: on the tokens
    `mnemonic [.size] <shape around the printout of e> [,index]`, `parse_opcode` returns the instruction with the
    addressing mode and index register `modeOfSyntax` gives for the shape, the written size, and `e`'s nodes. -/
theorem parseOpcode_shape (cfg : ParseCfg) (syn : Syntax) (e : Expr) (fuel : Nat) (st : PState)
    (ks : Nat) (size : Option String)
    (hopc : (tokAt st st.pos).ty = .OPCODE) (hoperand : syn.operand = true)
    (hsize : (ks = 1 ∧ (tokAt st (st.pos + 1)).ty = .OPCODE_SIZE ∧ size = some (asciiLower (tokAt st (st.pos + 1)).val)) ∨
             (ks = 0 ∧ (tokAt st (st.pos + 1)).ty ≠ .OPCODE_SIZE ∧ size = none))
    (hsp : Spells st (st.pos + (1 + ks)) (operandPieces syn (printNodes e) ++ idxPiece syn.outer))
    (hfollow : (tokAt st (st.pos + (1 + ks) + pwidth (operandPieces syn (printNodes e) ++ idxPiece syn.outer))).ty ≠ .OPERATOR)
    (hnoidx : syn.outer = none →
      (tokAt st (st.pos + (1 + ks) + pwidth (operandPieces syn (printNodes e)))).ty ≠ .ADDRESSING_MODE_INDEX)
    (hplain : syn.imm = false → syn.bracket = .none → (tokAt st (st.pos + (1 + ks))).ty ≠ .LPAREN)
    (hfuel : (printNodes e).length + 1 < fuel)
    (mode : AddrMode) (idx : Option Idx) (hmode : modeOfSyntax cfg.indexMap syn = .ok (mode, idx)) :
    ∃ first, parseOpcode cfg (fuel + 1) st =
      .ok (.opcode mode (tokAt st st.pos).val (sizeOfSuffix size) (some ⟨printNodes e, first⟩) idx (tokAt st st.pos),
           adv st (1 + ks + pwidth (operandPieces syn (printNodes e) ++ idxPiece syn.outer))) := by
  obtain ⟨mode1, inner, hbase, hout⟩ := modeOfSyntax_split cfg.indexMap syn mode idx hmode
  obtain ⟨hsp1, hsp2⟩ := Spells.append hsp
  obtain ⟨fuel', rfl⟩ : ∃ f, fuel = f + 1 := ⟨fuel - 1, by omega⟩
  -- the token after the operand pieces is not an operator
  have hafter : (tokAt st (st.pos + (1 + ks) + pwidth (operandPieces syn (printNodes e)))).ty ≠ .OPERATOR := by
    cases ho : syn.outer with
    | none => simpa [ho, idxPiece, pwidth_append, pwidth] using hfollow
    | some o =>
      simp only [ho, idxPiece, Spells] at hsp2
      rw [hsp2.1]; intro h; cases h
  obtain ⟨first, hop⟩ := operand_of_shape cfg syn e fuel' (tokAt st st.pos) st (1 + ks) hoperand hopc mode1 inner hbase hsp1 hafter hplain (by omega)
  have hm0 : (if ((tokAt st st.pos).ty == TokTy.OPCODE_NAKED) = true then AddrMode.none else AddrMode.direct) = AddrMode.direct := by
    rw [hopc]; rfl
  refine ⟨first, ?_⟩
  cases ho : syn.outer with
  | none =>
    simp only [ho] at hout
    obtain ⟨rfl, rfl⟩ := hout
    have := parseOpcode_spec cfg (fuel' + 1) st ks size hsize mode idx (some ⟨printNodes e, first⟩) (pwidth (operandPieces syn (printNodes e)))
      (by rw [hm0]; exact hop) mode none 0
      (Or.inr ⟨rfl, by rw [← Nat.add_assoc]; exact hnoidx ho, rfl, rfl⟩)
    rw [this]
    simp only [orInner, idxPiece, pwidth_append, pwidth, Nat.add_zero]
    try (first | rfl | (congr 1; omega))
  | some o =>
    simp only [ho] at hout
    obtain ⟨hin, hlk, rfl⟩ := hout
    simp only [ho, idxPiece, Spells] at hsp2
    have := parseOpcode_spec cfg (fuel' + 1) st ks size hsize mode1 inner (some ⟨printNodes e, first⟩) (pwidth (operandPieces syn (printNodes e)))
      (by rw [hm0]; exact hop) mode (some o) 1
      (Or.inl ⟨rfl, by rw [← Nat.add_assoc]; exact hsp2.1, by rw [← Nat.add_assoc]; exact hsp2.2.1, hin, hlk⟩)
    rw [this]
    simp only [orInner, idxPiece, pwidth_append, pwidth, Nat.add_zero]
    try (first | rfl | (congr 1; omega))

end A816.ParseOp
