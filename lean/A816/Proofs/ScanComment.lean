import A816.Proofs.ScanLocal
import A816.Proofs.ScanToks
import A816.Proofs.ScanExt
/-!
# A full-line `;` comment is one COMMENT token, whatever its text (helper lemmas for C16)

* `lineCommentLoop_run`: the loop `while s.next() not in ["\n", None]` started in front of `cs ++ '\n' :: r` (no newline in
  `cs`) returns just behind that newline having changed neither the tokens nor the token start.
* `lexInitial_comment`: at a between-token point in front of `';' :: cs ++ '\n' :: r`, `lex_initial` emits exactly one
  COMMENT token and returns at the between-token point in front of `r`.
* `reach_comment`: the same as one step of the outer loop (`Reach`).
-/
namespace A816.ScanS
open A816 Scan ScanB ScanT

theorem Reach.trans {cfg : ScanCfg} {st : ScanState} {a b c : Scan} (h1 : Reach cfg st a b) (h2 : Reach cfg st b c) :
    Reach cfg st a c := by
  induction h1 with
  | refl _ => exact h2
  | step hlt hr hg _ ih => exact Reach.step hlt hr hg (ih h2)

theorem next_file (s : Scan) : (s.next).1.file = s.file := by
  unfold Scan.next
  split
  · simp only; split
    · unfold Scan.handleLine; split <;> rfl
    · rfl
  · rfl

theorem lineCommentLoop_run (r : List Char) : ∀ (cs : List Char) (n : Nat) (s : Scan),
    s.input.toList.drop s.pos = cs ++ '\n' :: r → (∀ c ∈ cs, c ≠ '\n') → cs.length < n →
    ∃ s', lineCommentLoop n s = .ok s' ∧ s'.input = s.input ∧ s'.pos = s.pos + cs.length + 1 ∧
      s'.toks = s.toks ∧ s'.start = s.start ∧ s'.file = s.file := by
  intro cs
  induction cs with
  | nil =>
    intro n s hd _ hn
    obtain ⟨n, rfl⟩ : ∃ m, n = m + 1 := ⟨n - 1, by simp at hn; omega⟩
    have hlt : s.pos < s.input.size := by
      apply Decidable.byContradiction
      intro hc
      rw [List.drop_of_length_le (by simp; omega)] at hd
      cases hd
    have hp : s.peek = '\n' := by
      have h := drop_peek s hlt
      rw [hd] at h
      simp only [List.nil_append, List.cons.injEq] at h
      exact h.1.symm
    obtain ⟨f1, f2, f3, f4, f5⟩ := next_fields s
    rw [if_pos hlt] at f4 f5
    unfold lineCommentLoop
    rw [f5, hp]
    simp only [BEq.rfl, Bool.true_or, ↓reduceIte]
    exact ⟨_, rfl, f3, by simp [f4], f2, f1, next_file s⟩
  | cons c cs ih =>
    intro n s hd hnl hn
    obtain ⟨n, rfl⟩ : ∃ m, n = m + 1 := ⟨n - 1, by simp at hn; omega⟩
    have hlt : s.pos < s.input.size := by
      apply Decidable.byContradiction
      intro hc
      rw [List.drop_of_length_le (by simp; omega)] at hd
      cases hd
    have h := drop_peek s hlt
    rw [hd] at h
    simp only [List.cons_append, List.cons.injEq] at h
    have hp : s.peek = c := h.1.symm
    have hc : c ≠ '\n' := hnl c List.mem_cons_self
    obtain ⟨f1, f2, f3, f4, f5⟩ := next_fields s
    rw [if_pos hlt] at f4 f5
    unfold lineCommentLoop
    rw [f5, hp]
    have hcond : (some c == some '\n' || some c == none) = false := by simp [hc]
    rw [hcond]
    simp only [Bool.false_eq_true, ↓reduceIte]
    obtain ⟨s', g1, g2, g3, g4, g5, g6⟩ := ih n (s.next).1 (by rw [f3, f4]; exact h.2.symm)
      (fun x hx => hnl x (List.mem_cons_of_mem _ hx)) (by simp at hn; omega)
    exact ⟨s', g1, by rw [g2, f3], by rw [g3, f4]; simp; omega, by rw [g4, f2], by rw [g5, f1], by rw [g6, next_file s]⟩

/-- **a `;` comment up to its newline is one COMMENT token**: at a between-token point in front of `; cs \n r` -/
theorem lexInitial_comment (cfg : ScanCfg) (s : Scan) (cs r : List Char) (hst : s.start = s.pos)
    (hd : s.input.toList.drop s.pos = ';' :: (cs ++ '\n' :: r)) (hnl : ∀ c ∈ cs, c ≠ '\n') :
    ∃ s' t, lexInitial cfg s = .ok s' ∧ s'.input = s.input ∧ s'.pos = s.pos + cs.length + 2 ∧ s'.start = s'.pos ∧
      s'.toks = s.toks.push t ∧ t.ty = .COMMENT ∧ s'.file = s.file := by
  have hlt : s.pos < s.input.size := by
    apply Decidable.byContradiction
    intro hc
    rw [List.drop_of_length_le (by simp; omega)] at hd
    cases hd
  have hlen : s.input.size - s.pos = cs.length + 2 + r.length := by
    have := congrArg List.length hd
    simp at this
    omega
  have h := drop_peek s hlt
  rw [hd] at h
  simp only [List.cons.injEq] at h
  have hp : s.peek = ';' := h.1.symm
  unfold lexInitial
  simp only []
  have hig : s.ignoreRun [' ', '\t', '\n'] = .ok s := by
    unfold Scan.ignoreRun
    rw [acceptRun_of_not s _ false (by rw [accept_snd, hp]; decide)]
    simp only []
    rw [ignore_self s hst]
  rw [hig, ok_bind]
  have hacc : s.accept [';'] = ((s.next).1, true) := by
    unfold Scan.accept Scan.acceptTest
    simp only [Bool.false_eq_true, ↓reduceIte, hp]
    rfl
  rw [hacc]
  simp only [↓reduceIte]
  obtain ⟨f1, f2, f3, f4, f5⟩ := next_fields s
  rw [if_pos hlt] at f4
  obtain ⟨s', g1, g2, g3, g4, g5, g6⟩ := lineCommentLoop_run r cs (s.input.size - s.pos + 2) (s.next).1
    (by rw [f3, f4]; exact h.2.symm) hnl (by omega)
  rw [g1, ok_bind]
  refine ⟨s'.emit .COMMENT, ⟨.COMMENT, s'.tokenText, s'.curLine, (s'.start : Int) - s'.lineOffset, s'.file, true⟩, rfl, ?_, ?_, rfl, ?_, rfl, ?_⟩
  · show s'.input = s.input
    rw [g2, f3]
  · show s'.pos = _
    rw [g3, f4]; omega
  · show s'.toks.push _ = s.toks.push _
    rw [g4, f2]
  · show s'.file = s.file
    rw [g6, next_file s]

/-- the same as a step of the outer loop: the scan passes from the between-token point in front of the comment to the
    one behind its newline, having emitted one COMMENT token -/
theorem reach_comment (cfg : ScanCfg) (s : Scan) (cs r : List Char) (hst : s.start = s.pos)
    (hd : s.input.toList.drop s.pos = ';' :: (cs ++ '\n' :: r)) (hnl : ∀ c ∈ cs, c ≠ '\n') :
    ∃ s' t, Reach cfg .initial s s' ∧ s'.input = s.input ∧ s'.pos = s.pos + cs.length + 2 ∧ s'.start = s'.pos ∧
      s'.toks = s.toks.push t ∧ t.ty = .COMMENT ∧ s'.file = s.file := by
  obtain ⟨s', t, h1, h2, h3, h4, h5, h6, h7⟩ := lexInitial_comment cfg s cs r hst hd hnl
  have hlt : s.pos < s.input.size := by
    apply Decidable.byContradiction
    intro hc
    rw [List.drop_of_length_le (by simp; omega)] at hd
    cases hd
  refine ⟨s', t, Reach.step hlt h1 ?_ (Reach.refl _), h2, h3, h4, h5, h6, h7⟩
  rw [h3]
  simp
  omega

/-! ## `/* … */` -/

/-- the comment body does not close the comment early: no `*/` starts inside `body` (a `*` that ends the body followed
    by the closing `*/` is fine, as is a body that starts with `/`) -/
def NoClose (body : List Char) : Prop := ∀ i, i < body.length → ((body ++ ['*', '/']).drop i).take 2 ≠ ['*', '/']

theorem NoClose.tail {c : Char} {cs : List Char} (h : NoClose (c :: cs)) : NoClose cs := by
  intro i hi
  have := h (i + 1) (by simp; omega)
  simpa using this

theorem blockCommentLoop_run (e : Err) (r : List Char) : ∀ (body : List Char) (n : Nat) (s : Scan),
    s.input.toList.drop s.pos = body ++ '*' :: '/' :: r → NoClose body → body.length < n →
    ∃ s', blockCommentLoop e n s = .ok s' ∧ s'.input = s.input ∧ s'.pos = s.pos + body.length + 2 ∧
      s'.toks = s.toks ∧ s'.start = s.start ∧ s'.file = s.file := by
  intro body
  induction body with
  | nil =>
    intro n s hd _ hn
    obtain ⟨n, rfl⟩ : ∃ m, n = m + 1 := ⟨n - 1, by simp at hn; omega⟩
    have hlen : s.input.size - s.pos = 2 + r.length := by
      have := congrArg List.length hd
      simp at this
      omega
    have hacc : s.acceptPrefix ['*', '/'] = ({ s with pos := s.pos + 2 }, true) := by
      unfold Scan.acceptPrefix
      rw [if_pos ⟨by rw [hd]; rfl, by simp; omega⟩]
      rfl
    unfold blockCommentLoop
    rw [hacc]
    simp only [↓reduceIte]
    exact ⟨_, rfl, rfl, by simp, rfl, rfl, rfl⟩
  | cons c cs ih =>
    intro n s hd hnc hn
    obtain ⟨n, rfl⟩ : ∃ m, n = m + 1 := ⟨n - 1, by simp at hn; omega⟩
    have hlt : s.pos < s.input.size := by
      apply Decidable.byContradiction
      intro hc
      rw [List.drop_of_length_le (by simp; omega)] at hd
      cases hd
    have hacc : s.acceptPrefix ['*', '/'] = (s, false) := by
      unfold Scan.acceptPrefix
      rw [if_neg]
      intro hc
      have h0 := hnc 0 (by simp)
      apply h0
      have hsplit : (c :: cs) ++ '*' :: '/' :: r = ((c :: cs) ++ ['*', '/']) ++ r := by simp
      rw [hd, hsplit, List.take_append_of_le_length (by simp)] at hc
      simpa using hc.1
    have h := drop_peek s hlt
    rw [hd] at h
    simp only [List.cons_append, List.cons.injEq] at h
    obtain ⟨f1, f2, f3, f4, f5⟩ := next_fields s
    rw [if_pos hlt] at f4 f5
    unfold blockCommentLoop
    rw [hacc, f5]
    simp only [Bool.false_eq_true, ↓reduceIte]
    have hcond : (some s.peek == (none : Option Char)) = false := by simp
    rw [hcond]
    simp only [Bool.false_eq_true, ↓reduceIte]
    obtain ⟨s', g1, g2, g3, g4, g5, g6⟩ := ih n (s.next).1 (by rw [f3, f4]; exact h.2.symm) hnc.tail (by simp at hn; omega)
    exact ⟨s', g1, by rw [g2, f3], by rw [g3, f4]; simp; omega, by rw [g4, f2], by rw [g5, f1], by rw [g6, next_file s]⟩

theorem acceptPrefix_head_ne (s : Scan) (c : Char) (rest pre : List Char) (hd : s.input.toList.drop s.pos = c :: rest)
    (hpre : pre.head? ≠ some c) (hlen : 0 < pre.length) : ¬ (s.acceptPrefix pre).2 = true := by
  unfold Scan.acceptPrefix
  rw [if_neg]
  · simp
  · intro hc
    apply hpre
    cases pre with
    | nil => simp at hlen
    | cons d pre =>
      have := hc.1
      rw [hd] at this
      simp at this
      simp [this.1]

/-- **a `/* … */` comment is one COMMENT token**: at a between-token point in front of `/* body */ r` -/
theorem lexInitial_block_comment (cfg : ScanCfg) (s : Scan) (body r : List Char) (hst : s.start = s.pos)
    (hd : s.input.toList.drop s.pos = '/' :: '*' :: (body ++ '*' :: '/' :: r)) (hnc : NoClose body) :
    ∃ s' t, lexInitial cfg s = .ok s' ∧ s'.input = s.input ∧ s'.pos = s.pos + body.length + 4 ∧ s'.start = s'.pos ∧
      s'.toks = s.toks.push t ∧ t.ty = .COMMENT ∧ s'.file = s.file := by
  have hlt : s.pos < s.input.size := by
    apply Decidable.byContradiction
    intro hc
    rw [List.drop_of_length_le (by simp; omega)] at hd
    cases hd
  have hlen : s.input.size - s.pos = body.length + 4 + r.length := by
    have := congrArg List.length hd
    simp at this
    omega
  have h := drop_peek s hlt
  rw [hd] at h
  simp only [List.cons.injEq] at h
  have hp : s.peek = '/' := h.1.symm
  unfold lexInitial
  simp only []
  have hig : s.ignoreRun [' ', '\t', '\n'] = .ok s := by
    unfold Scan.ignoreRun
    rw [acceptRun_of_not s _ false (by rw [accept_snd, hp]; decide)]
    simp only []
    rw [ignore_self s hst]
  rw [hig, ok_bind]
  have na : ∀ cands : List Char, cands.contains '/' = false → ¬ (s.accept cands).2 = true := by
    intro cands hc
    rw [accept_snd, hp, hc]
    simp
  have np : ∀ pre : List Char, pre.head? ≠ some '/' → 0 < pre.length → ¬ (s.acceptPrefix pre).2 = true :=
    fun pre h1 h2 => acceptPrefix_head_ne s '/' _ pre hd h1 h2
  repeat (first | rw [if_neg (na _ (by decide))] | rw [if_neg (np _ (by decide) (by decide))])
  have hacc : s.acceptPrefix ['/', '*'] = ({ s with pos := s.pos + 2 }, true) := by
    unfold Scan.acceptPrefix
    rw [if_pos ⟨by rw [hd]; rfl, by simp; omega⟩]
    rfl
  rw [hacc]
  simp only [↓reduceIte]
  obtain ⟨s', g1, g2, g3, g4, g5, g6⟩ := blockCommentLoop_run
    (Scan.err { s with pos := s.pos + 2 } "Unterminated Comment") r body (s.input.size - s.pos + 2) { s with pos := s.pos + 2 }
    (by show s.input.toList.drop (s.pos + 2) = _
        rw [← List.drop_drop, hd]; rfl) hnc (by omega)
  rw [g1, ok_bind]
  refine ⟨s'.emit .COMMENT, ⟨.COMMENT, s'.tokenText, s'.curLine, (s'.start : Int) - s'.lineOffset, s'.file, true⟩, rfl, ?_, ?_, rfl, ?_, rfl, ?_⟩
  · show s'.input = s.input
    rw [g2]
  · show s'.pos = _
    rw [g3]; show s.pos + 2 + body.length + 2 = _; omega
  · show s'.toks.push _ = s.toks.push _
    rw [g4]
  · show s'.file = s.file
    rw [g6]

theorem reach_block_comment (cfg : ScanCfg) (s : Scan) (body r : List Char) (hst : s.start = s.pos)
    (hd : s.input.toList.drop s.pos = '/' :: '*' :: (body ++ '*' :: '/' :: r)) (hnc : NoClose body) :
    ∃ s' t, Reach cfg .initial s s' ∧ s'.input = s.input ∧ s'.pos = s.pos + body.length + 4 ∧ s'.start = s'.pos ∧
      s'.toks = s.toks.push t ∧ t.ty = .COMMENT ∧ s'.file = s.file := by
  obtain ⟨s', t, h1, h2, h3, h4, h5, h6, h7⟩ := lexInitial_block_comment cfg s body r hst hd hnc
  have hlt : s.pos < s.input.size := by
    apply Decidable.byContradiction
    intro hc
    rw [List.drop_of_length_le (by simp; omega)] at hd
    cases hd
  refine ⟨s', t, Reach.step hlt h1 ?_ (Reach.refl _), h2, h3, h4, h5, h6, h7⟩
  rw [h3]
  simp
  omega

/-- `lex_initial` first skips blanks, tabs and newlines: it does the same from the point behind them -/
theorem lexInitial_skip (cfg : ScanCfg) (s t : Scan) (h : s.ignoreRun [' ', '\t', '\n'] = .ok t) :
    lexInitial cfg s = lexInitial cfg t := by
  unfold lexInitial
  simp only []
  rw [h, (ignoreRun_idem s t _ h).1]

/-- `reach_comment` with blanks, tabs and blank lines `ws` in front of the `;` -/
theorem reach_comment_ws (cfg : ScanCfg) (s : Scan) (ws cs r : List Char)
    (hws : ws.all (fun c => [' ', '\t', '\n'].contains c) = true)
    (hd : s.input.toList.drop s.pos = ws ++ ';' :: (cs ++ '\n' :: r)) (hnl : ∀ c ∈ cs, c ≠ '\n') :
    ∃ s' t, Reach cfg .initial s s' ∧ s'.input = s.input ∧ s'.start = s'.pos ∧ s'.pos ≤ s'.input.size ∧
      s'.input.toList.drop s'.pos = r ∧ s'.toks = s.toks.push t ∧ t.ty = .COMMENT := by
  have hlt : s.pos < s.input.size := by
    apply Decidable.byContradiction
    intro hc
    rw [List.drop_of_length_le (by simp; omega)] at hd
    cases ws <;> cases hd
  obtain ⟨q, hq⟩ : ∃ q, s.ignoreRun [' ', '\t', '\n'] = .ok q := by
    have := ScanB.acceptRun_ok s [' ', '\t', '\n'] false (by decide)
    unfold Scan.ignoreRun
    cases hx : s.acceptRun [' ', '\t', '\n'] with
    | ok u => exact ⟨_, rfl⟩
    | error e => rw [hx] at this; exact absurd this (by simp)
  obtain ⟨q1, q2, q3⟩ := ignoreRun_dropWhile s q _ (by decide) hq
  have qst := (ignoreRun_idem s q _ hq).2
  have qtk : q.toks = s.toks := ScanT.ignoreRun_toks s q _ hq
  have hdq : q.input.toList.drop q.pos = ';' :: (cs ++ '\n' :: r) := by
    rw [q2, hd, ScanX.dropWhile_append_all _ ws _ hws]
    rfl
  obtain ⟨s', t, h1, h2, h3, h4, h5, h6, _⟩ := lexInitial_comment cfg q cs r qst hdq hnl
  have hlenq : q.input.size - q.pos = cs.length + 2 + r.length := by
    have := congrArg List.length hdq
    simp at this
    omega
  have hqle : q.pos ≤ q.input.size := q3 (by omega)
  refine ⟨s', t, Reach.step hlt (by show lexInitial cfg s = _; rw [lexInitial_skip cfg s q hq]; exact h1) ?_ (Reach.refl _),
    by rw [h2, q1], h4, by rw [h2, h3]; omega, ?_, by rw [h5, qtk], h6⟩
  · rw [h5, qtk]
    simp
  · rw [h2, h3, show q.pos + cs.length + 2 = q.pos + (cs.length + 2) by omega, ← List.drop_drop, hdq]
    show (cs ++ '\n' :: r).drop (cs.length + 1) = r
    rw [List.drop_length_add_append]; rfl

end A816.ScanS
