import A816.Proofs.ScanLocal
/-!
# The scanner only ever appends tokens (helper lemmas for C16)

`Ext s0 s`: the tokens of `s0` are a prefix of the tokens of `s`.  Every primitive and state function, the outer loop of
`Scanner.scan` and its exception handler keep it (`TP`), for normal returns and for the state an exception leaves.
-/
namespace A816.ScanK
open A816 Scan ScanB ScanT ScanS

def Ext (s0 s : Scan) : Prop := s0.toks.toList <+: s.toks.toList

def TP (s0 : Scan) (r : SR) : Prop :=
  match r with
  | .ok s' => Ext s0 s'
  | .error (_, s') => Ext s0 s'

theorem Ext.refl (s : Scan) : Ext s s := List.prefix_refl _
theorem Ext.of_toks {s0 s s' : Scan} (e : Ext s0 s) (h : s'.toks = s.toks) : Ext s0 s' := by unfold Ext; rw [h]; exact e

theorem Ext.next {s0 s : Scan} (e : Ext s0 s) : Ext s0 (s.next).1 := e.of_toks (next_fields s).2.1
theorem Ext.accept {s0 s : Scan} (e : Ext s0 s) (c : List Char) (n : Bool) : Ext s0 (s.accept c n).1 :=
  e.of_toks (accept_toks s c n)
theorem Ext.acceptPrefix {s0 s : Scan} (e : Ext s0 s) (pre : List Char) : Ext s0 (s.acceptPrefix pre).1 :=
  e.of_toks (acceptPrefix_toks s pre)
theorem Ext.ignore {s0 s : Scan} (e : Ext s0 s) : Ext s0 s.ignore := e
theorem Ext.backup {s0 s : Scan} (e : Ext s0 s) : Ext s0 s.backup := e
theorem Ext.setPos {s0 s : Scan} (e : Ext s0 s) (q : Nat) : Ext s0 { s with pos := q } := e
theorem Ext.emit {s0 s : Scan} (e : Ext s0 s) (ty : TokTy) : Ext s0 (s.emit ty) := by
  unfold Ext at e ⊢
  show s0.toks.toList <+: (s.toks.push _).toList
  rw [Array.toList_push]
  exact e.trans (List.prefix_append _ _)

theorem TP.pure {s0 s : Scan} (e : Ext s0 s) : TP s0 (pure s) := e
theorem TP.ok {s0 s : Scan} (e : Ext s0 s) : TP s0 (.ok s) := e
theorem TP.err {s0 s : Scan} (e : Ext s0 s) (x : Err) : TP s0 (.error (x, s)) := e

theorem TP.bind {s0 : Scan} {r : SR} {f : Scan → SR} (h : TP s0 r) (hf : ∀ a, Ext s0 a → TP s0 (f a)) :
    TP s0 (r >>= f) := by
  cases r with
  | error e => obtain ⟨x, s⟩ := e; exact h
  | ok a => exact hf a h

theorem tp_acceptRun {s0 s : Scan} (e : Ext s0 s) (c : List Char) (n : Bool) : TP s0 (s.acceptRun c n) := by
  cases hr : s.acceptRun c n with
  | ok s' => exact e.of_toks (acceptRun_toks s s' c n hr)
  | error x =>
    obtain ⟨x, s'⟩ := x
    unfold Scan.acceptRun at hr
    split at hr
    · cases hr
    · cases hr; exact e

theorem tp_ignoreRun {s0 s : Scan} (e : Ext s0 s) (c : List Char) : TP s0 (s.ignoreRun c) := by
  unfold Scan.ignoreRun
  have := tp_acceptRun e c false
  cases hr : s.acceptRun c with
  | ok s' => rw [hr] at this; exact this
  | error x => rw [hr] at this; exact this

theorem tp_lexIdentifier {s0 s : Scan} (e : Ext s0 s) : TP s0 (lexIdentifier s) := by
  unfold lexIdentifier
  simp only []
  apply TP.bind (tp_acceptRun e _ _)
  intro a ea
  split
  · exact TP.pure ((ea.emit _).next).ignore
  · split
    · apply TP.bind (tp_acceptRun ea.next _ _)
      intro a2 e2; exact TP.pure (e2.emit _)
    · exact TP.pure (ea.emit _)

theorem tp_lexNumber {s0 s : Scan} (e : Ext s0 s) : TP s0 (lexNumber s) := by
  unfold lexNumber
  simp only []
  have e0 : Ext s0 (s.backup.next).1 := e.backup.next
  split
  · exact TP.pure (e0.emit _)
  · split
    · have e1 := e0.next
      split
      · apply TP.bind (tp_acceptRun e1 _ _); intro a2 e2; exact TP.pure (e2.emit _)
      · split
        · apply TP.bind (tp_acceptRun e1 _ _); intro a2 e2; exact TP.pure (e2.emit _)
        · split
          · apply TP.bind (tp_acceptRun e1 _ _); intro a2 e2; exact TP.pure (e2.emit _)
          · exact TP.pure (e1.backup.emit _)
    · apply TP.bind (tp_acceptRun e0 _ _); intro a2 e2; exact TP.pure (e2.emit _)

theorem tp_quotedLoop (s0 : Scan) (x : Err) : ∀ (n : Nat) (s : Scan) (c : Option Char), Ext s0 s → TP s0 (quotedLoop x n s c) := by
  intro n
  induction n with
  | zero => intro s c e; unfold quotedLoop; exact e
  | succ n ih =>
    intro s c e
    unfold quotedLoop
    split
    · exact e
    · split
      · exact e
      · apply ih
        have : Ext s0 (if (c == some '\\' && s.peek == '\'') = true then (s.next).1 else s) := by
          split
          · exact e.next
          · exact e
        exact this.next

theorem tp_lexQuotedString {s0 s : Scan} (e : Ext s0 s) : TP s0 (lexQuotedString s) := by
  unfold lexQuotedString
  simp only []
  apply TP.bind (tp_quotedLoop s0 _ _ _ _ e.next)
  intro a ea; exact TP.pure (ea.emit _)

theorem tp_lineCommentLoop (s0 : Scan) : ∀ (n : Nat) (s : Scan), Ext s0 s → TP s0 (lineCommentLoop n s) := by
  intro n
  induction n with
  | zero => intro s e; unfold lineCommentLoop; exact e
  | succ n ih =>
    intro s e
    unfold lineCommentLoop
    split
    · exact e.next
    · exact ih _ e.next

theorem tp_blockCommentLoop (s0 : Scan) (x : Err) : ∀ (n : Nat) (s : Scan), Ext s0 s → TP s0 (blockCommentLoop x n s) := by
  intro n
  induction n with
  | zero => intro s e; unfold blockCommentLoop; exact e
  | succ n ih =>
    intro s e
    unfold blockCommentLoop
    split
    · exact e.acceptPrefix _
    · split
      · exact e.next
      · exact ih _ e.next

theorem tp_lexKeyword (cfg : ScanCfg) {s0 s : Scan} (e : Ext s0 s) : TP s0 (lexKeyword cfg s) := by
  unfold lexKeyword
  simp only []
  apply TP.bind (tp_acceptRun e.ignore _ _)
  intro a ea
  split
  · exact TP.pure (ea.emit _)
  · exact ea

theorem tp_lexOpcodeIndex {s0 s : Scan} (e : Ext s0 s) : TP s0 (lexOpcodeIndex s) := by
  unfold lexOpcodeIndex
  simp only []
  apply TP.bind (tp_ignoreRun e.ignore _)
  intro a ea
  split
  · exact TP.pure ((ea.accept _ _).emit _)
  · exact ea

theorem tp_lexExpressionLoop (s0 : Scan) : ∀ (n : Nat) (s : Scan), Ext s0 s → TP s0 (lexExpressionLoop n s) := by
  intro n
  induction n with
  | zero => intro s e; unfold lexExpressionLoop; split <;> exact e
  | succ n ih =>
    intro s e
    unfold lexExpressionLoop
    split
    · simp only []
      apply TP.bind (tp_ignoreRun e _)
      intro a ea
      split
      · apply TP.bind (tp_lexNumber (ea.accept _ _)); intro a2 e2; exact ih _ e2
      · split
        · apply TP.bind (tp_lexIdentifier (ea.accept _ _)); intro a2 e2; exact ih _ e2
        · by_cases h1 : (a.accept (chars "+-*/&|~")).snd = true
          · rw [if_pos h1]; dsimp only; rw [if_pos rfl]
            exact ih _ ((ea.accept _ _).emit _)
          · rw [if_neg h1]
            by_cases h2 : (a.acceptPrefix (chars "<<")).snd = true
            · rw [if_pos h2]; dsimp only; rw [if_pos rfl]
              exact ih _ ((ea.acceptPrefix _).emit _)
            · rw [if_neg h2]
              split
              · exact ih _ ((ea.acceptPrefix _).emit _)
              · split
                · exact ih _ ((ea.accept _ _).emit _)
                · split
                  · exact ih _ ((ea.accept _ _).emit _)
                  · exact ea
    · exact e

theorem tp_lexExpression {s0 s : Scan} (e : Ext s0 s) : TP s0 (lexExpression s) := tp_lexExpressionLoop s0 _ s e

theorem tp_optIndex {s0 s : Scan} (e : Ext s0 s) :
    TP s0 (if (s.accept [',']).snd = true then lexOpcodeIndex (s.accept [',']).fst else pure s) := by
  split
  · exact tp_lexOpcodeIndex (e.accept _ _)
  · exact TP.pure e

theorem ext_bracket {s0 s : Scan} (e : Ext s0 s) (c1 c2 : Char) (t1 t2 : TokTy) :
    Ext s0 (if (s.peek == c1) = true then (s.next).1.emit t1 else if (s.peek == c2) = true then (s.next).1.emit t2 else s) := by
  split
  · exact e.next.emit _
  · split
    · exact e.next.emit _
    · exact e

theorem tp_lexOperand {s0 s : Scan} (e : Ext s0 s) : TP s0 (lexOperand s) := by
  unfold lexOperand
  simp only []
  have tail : ∀ (t : Scan), Ext s0 t → TP s0 (do
      let s ← (if (t.peek == ')') = true then (t.next).1.emit TokTy.RPAREN
               else if (t.peek == ']') = true then (t.next).1.emit TokTy.RBRAKET else t).ignoreRun [' ']
      if (s.accept [',']).snd = true then lexOpcodeIndex (s.accept [',']).fst else pure s) := by
    intro t et
    apply TP.bind (tp_ignoreRun (ext_bracket et ')' ']' .RPAREN .RBRAKET) _)
    intro s1 e1
    exact tp_optIndex e1
  have hopen : Ext s0 (if (s.peek == '#') = true then (s.next).1.emit TokTy.SHARP
      else if (s.peek == '(') = true then (s.next).1.emit TokTy.LPAREN
      else if (s.peek == '[') = true then (s.next).1.emit TokTy.LBRAKET else s) := by
    split
    · exact e.next.emit _
    · exact ext_bracket e '(' '[' .LPAREN .LBRAKET
  apply TP.bind (tp_ignoreRun hopen _)
  intro s1 e1
  apply TP.bind (tp_lexExpression e1)
  intro s2 e2
  apply TP.bind (tp_ignoreRun e2 _)
  intro s3 e3
  split
  · apply TP.bind (tp_lexOpcodeIndex (e3.accept _ _))
    intro s4 e4
    exact tail s4 e4
  · apply TP.bind (TP.pure e3)
    intro s4 e4
    exact tail s4 e4

theorem tp_lexOpcodeSize {s0 s : Scan} (e : Ext s0 s) : TP s0 (lexOpcodeSize s) := by
  unfold lexOpcodeSize
  simp only []
  split
  · apply TP.bind (tp_ignoreRun ((e.ignore.accept _ _).emit _) _)
    intro s1 e1
    exact tp_lexOperand e1
  · exact e.ignore.next

theorem tp_opTail {s0 s : Scan} (e : Ext s0 s) : TP s0 (if (s.accept ['.']).snd = true then do
      let s ← lexOpcodeSize (s.accept ['.']).fst
      let s ← s.ignoreRun [' ']
      lexOperand s
    else do
      let s ← pure s
      let s ← s.ignoreRun [' ']
      lexOperand s) := by
  split
  · apply TP.bind (tp_lexOpcodeSize (e.accept _ _))
    intro s1 e1
    apply TP.bind (tp_ignoreRun e1 _)
    intro s2 e2
    exact tp_lexOperand e2
  · apply TP.bind (TP.pure e)
    intro s1 e1
    apply TP.bind (tp_ignoreRun e1 _)
    intro s2 e2
    exact tp_lexOperand e2

theorem tp_lexOpcode (cfg : ScanCfg) {s0 s : Scan} (e : Ext s0 s) : TP s0 (lexOpcode cfg s) := by
  unfold lexOpcode
  simp only []
  have fin : ∀ (s3 : Scan), Ext s0 s3 → TP s0 (
      if (s3.peek == '\n' || s3.peek == '\x00') = true then
        pure (({ s3 with pos := s.pos } : Scan).emit TokTy.OPCODE_NAKED)
      else do
        let s ← pure (({ s3 with pos := s.pos } : Scan).emit TokTy.OPCODE)
        if (s.accept ['.']).snd = true then do
            let s ← lexOpcodeSize (s.accept ['.']).fst
            let s ← s.ignoreRun [' ']
            lexOperand s
          else do
            let s ← pure s
            let s ← s.ignoreRun [' ']
            lexOperand s) := by
    intro s3 e3
    split
    · exact TP.pure ((e3.setPos _).emit _)
    · apply TP.bind (TP.pure ((e3.setPos _).emit _))
      intro s4 e4
      exact tp_opTail e4
  split
  · apply TP.bind (tp_acceptRun e _ _)
    intro s1 e1
    split
    · apply TP.bind (tp_acceptRun (e1.accept _ _) _ _)
      intro s3 e3
      exact fin s3 e3
    · apply TP.bind (TP.pure (e1.accept _ _))
      intro s3 e3
      exact fin s3 e3
  · apply TP.bind (TP.pure (e.emit _))
    intro s1 e1
    exact tp_opTail e1

theorem tp_acc2 {s0 s : Scan} (e : Ext s0 s) (c2 : List Char) (t1 t2 : TokTy) :
    TP s0 (pure (if (s.accept c2).2 = true then (s.accept c2).1.emit t1 else s.emit t2)) := by
  show Ext s0 _
  split
  · exact (e.accept _ _).emit _
  · exact e.emit _

theorem tp_lexInitial (cfg : ScanCfg) {s0 s : Scan} (e : Ext s0 s) : TP s0 (lexInitial cfg s) := by
  unfold lexInitial
  simp only []
  apply TP.bind (tp_ignoreRun e _)
  intro t et
  by_cases ha : (t.accept [';']).snd = true
  · rw [if_pos ha]
    apply TP.bind (tp_lineCommentLoop s0 _ _ (et.accept _ _)); intro a2 e2; exact TP.pure (e2.emit _)
  rw [if_neg ha]; clear ha
  by_cases ha : (t.accept digitChars).snd = true
  · rw [if_pos ha]; exact tp_lexNumber (et.accept _ _)
  rw [if_neg ha]; clear ha
  by_cases ha : (t.accept ['+', '-', '&']).snd = true
  · rw [if_pos ha]; exact TP.pure ((et.accept _ _).emit _)
  rw [if_neg ha]; clear ha
  by_cases ha : (t.acceptPrefix ['=', '=']).snd = true
  · rw [if_pos ha]; exact TP.pure ((et.acceptPrefix _).emit _)
  rw [if_neg ha]; clear ha
  by_cases ha : (t.acceptPrefix ['!', '=']).snd = true
  · rw [if_pos ha]; exact TP.pure ((et.acceptPrefix _).emit _)
  rw [if_neg ha]; clear ha
  by_cases ha : (t.acceptPrefix ['>', '>']).snd = true
  · rw [if_pos ha]; exact TP.pure ((et.acceptPrefix _).emit _)
  rw [if_neg ha]; clear ha
  by_cases ha : (t.acceptPrefix ['<', '<']).snd = true
  · rw [if_pos ha]; exact TP.pure ((et.acceptPrefix _).emit _)
  rw [if_neg ha]; clear ha
  by_cases ha : (t.acceptPrefix ['>']).snd = true
  · rw [if_pos ha]; exact TP.pure ((et.acceptPrefix _).emit _)
  rw [if_neg ha]; clear ha
  by_cases ha : (t.acceptPrefix ['<']).snd = true
  · rw [if_pos ha]; exact TP.pure ((et.acceptPrefix _).emit _)
  rw [if_neg ha]; clear ha
  by_cases ha : (t.accept letterChars).snd = true
  · rw [if_pos ha]
    split
    · exact tp_lexOpcode cfg (show Ext s0 (acceptOpcode cfg (t.accept letterChars).1.backup).1 from by
        unfold acceptOpcode; simp only []; split
        · exact (et.accept _ _).backup.setPos _
        · exact (et.accept _ _).backup)
    · exact tp_lexIdentifier (et.accept _ _).backup
  rw [if_neg ha]; clear ha
  by_cases ha : (t.accept ['.']).snd = true
  · rw [if_pos ha]; exact tp_lexKeyword cfg (et.accept _ _)
  rw [if_neg ha]; clear ha
  by_cases ha : (t.accept [',']).snd = true
  · rw [if_pos ha]; exact TP.pure ((et.accept _ _).emit _)
  rw [if_neg ha]; clear ha
  by_cases ha : (t.acceptPrefix [':', '=']).snd = true
  · rw [if_pos ha]; exact TP.pure ((et.acceptPrefix _).emit _)
  rw [if_neg ha]; clear ha
  by_cases ha : (t.acceptPrefix ['@', '=']).snd = true
  · rw [if_pos ha]; exact TP.pure ((et.acceptPrefix _).emit _)
  rw [if_neg ha]; clear ha
  by_cases ha : (t.accept ['*']).snd = true
  · rw [if_pos ha]; exact tp_acc2 (et.accept _ _) _ _ _
  rw [if_neg ha]; clear ha
  by_cases ha : (t.accept ['\'']).snd = true
  · rw [if_pos ha]; exact tp_lexQuotedString (et.accept _ _)
  rw [if_neg ha]; clear ha
  by_cases ha : (t.accept ['(']).snd = true
  · rw [if_pos ha]; exact TP.pure ((et.accept _ _).emit _)
  rw [if_neg ha]; clear ha
  by_cases ha : (t.accept [')']).snd = true
  · rw [if_pos ha]; exact TP.pure ((et.accept _ _).emit _)
  rw [if_neg ha]; clear ha
  by_cases ha : (t.accept ['[']).snd = true
  · rw [if_pos ha]; exact TP.pure ((et.accept _ _).emit _)
  rw [if_neg ha]; clear ha
  by_cases ha : (t.accept [']']).snd = true
  · rw [if_pos ha]; exact TP.pure ((et.accept _ _).emit _)
  rw [if_neg ha]; clear ha
  by_cases ha : (t.accept ['{']).snd = true
  · rw [if_pos ha]; exact tp_acc2 (et.accept _ _) _ _ _
  rw [if_neg ha]; clear ha
  by_cases ha : (t.accept ['}']).snd = true
  · rw [if_pos ha]; exact tp_acc2 (et.accept _ _) _ _ _
  rw [if_neg ha]; clear ha
  by_cases ha : (t.accept ['=']).snd = true
  · rw [if_pos ha]; exact TP.pure ((et.accept _ _).emit _)
  rw [if_neg ha]; clear ha
  by_cases ha : (t.acceptPrefix ['/', '*']).snd = true
  · rw [if_pos ha]
    apply TP.bind (tp_blockCommentLoop s0 _ _ _ (et.acceptPrefix _)); intro a2 e2; exact TP.pure (e2.emit _)
  rw [if_neg ha]; clear ha
  split
  · exact et.next
  · exact TP.pure et.next

theorem tp_runState (cfg : ScanCfg) (st : ScanState) {s0 s : Scan} (e : Ext s0 s) : TP s0 (runState cfg st s) := by
  cases st with
  | initial => exact tp_lexInitial cfg e
  | expression => exact tp_lexExpression e

theorem tp_scanLoop (cfg : ScanCfg) (st : ScanState) (s0 : Scan) : ∀ (n : Nat) (s : Scan), Ext s0 s →
    TP s0 (scanLoop cfg st n s) := by
  intro n
  induction n with
  | zero => intro s e; unfold scanLoop; split <;> exact e
  | succ n ih =>
    intro s e
    unfold scanLoop
    split
    · have hr := tp_runState cfg st e
      cases hx : runState cfg st s with
      | error x => rw [hx] at hr; exact hr
      | ok s1 =>
        rw [hx] at hr
        simp only []
        split
        · exact (show Ext s0 s1 from hr).next
        · exact ih _ hr
    · exact e

/-- the tokens at any point of a scan are a prefix of the tokens of its result -/
theorem finish_prefix (s0 : Scan) (r : Except (Err × Scan) Scan) (h : TP s0 r) :
    s0.toks.toList <+: (finish r).toks.toList := by
  cases r with
  | ok s =>
    have e : Ext s0 s := h
    show s0.toks.toList <+: ((s.emit .EOF).handleLine.toks).toList
    rw [ScanT.handleLine_toks]
    exact e.emit _
  | error x =>
    obtain ⟨x, s⟩ := x
    have e : Ext s0 s := h
    unfold finish
    split
    · rename_i heq; cases heq
    · rename_i heq; cases heq; exact e
    · rename_i heq; cases heq
      split
      · rename_i s2 h2
        show s0.toks.toList <+: (s2.handleLine.toks).toList
        rw [ScanT.handleLine_toks, acceptRun_toks _ _ _ _ h2]; exact e
      · exact e

end A816.ScanK
