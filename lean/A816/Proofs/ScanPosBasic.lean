import A816.Proofs.ScanTotal
/-!
# Scanner positions: the line bookkeeping and the true (line, column) of an index

Definitions and basic lemmas shared by `Proofs/ScanPos.lean` and `Props/C17.lean`.
-/
namespace A816.ScanP
open A816 Scan ScanB

/-- number of newlines in `input[0:n]` -/
def countNl (a : Array Char) (n : Nat) : Nat := ((a.toList.take n).filter (· = '\n')).length
/-- index just after the last newline in `input[0:n]` (0 if none) -/
def afterLastNl (a : Array Char) : Nat → Nat
  | 0 => 0
  | n+1 => if a[n]? = some '\n' then n + 1 else afterLastNl a n

/-- the true zero-based (line, column) of index `i` -/
def truePos (a : Array Char) (i : Nat) : Nat × Int := (countNl a i, (i : Int) - (afterLastNl a i : Int))

def Inv (s : Scan) : Prop := s.curLine = countNl s.input s.pos ∧ s.lineOffset = afterLastNl s.input s.pos

theorem afterLastNl_le (a : Array Char) (n : Nat) : afterLastNl a n ≤ n := by
  induction n with
  | zero => simp [afterLastNl]
  | succ n ih => unfold afterLastNl; split <;> omega

theorem countNl_succ (a : Array Char) (n : Nat) (c : Char) (h : a[n]? = some c) :
    countNl a (n + 1) = countNl a n + (if c = '\n' then 1 else 0) := by
  unfold countNl
  have hget : a.toList[n]? = some c := by simpa using h
  rw [List.take_add_one, hget]
  by_cases hc : c = '\n' <;> simp [List.filter_append, hc]

/-- **line bookkeeping is an invariant of `next()`** -/
theorem next_inv (s : Scan) (h : Inv s) : Inv (s.next).1 := by
  unfold Scan.next
  by_cases hlt : s.pos < s.input.size
  · simp only [hlt, ↓reduceDIte]
    obtain ⟨h1, h2⟩ := h
    have hc : s.input[s.pos]? = some s.input[s.pos] := by simp [hlt]
    have hcn := countNl_succ s.input s.pos _ hc
    have hle := afterLastNl_le s.input s.pos
    by_cases hnl : s.input[s.pos] = '\n'
    · simp only [hnl, ↓reduceIte]
      unfold Inv handleLine
      have : s.lineOffset ≤ s.pos := by omega
      simp only [this, ↓reduceIte]
      refine ⟨?_, ?_⟩
      · simp [hcn, hnl, h1]
      · simp only [afterLastNl, hc, hnl, ↓reduceIte]
    · simp only [hnl, ↓reduceIte]
      unfold Inv
      refine ⟨?_, ?_⟩
      · simp [hcn, hnl, h1]
      · simp only [afterLastNl, hc]
        have : ¬ (some s.input[s.pos] = some '\n') := by simpa using hnl
        simp [this, h2]
  · simp only [hlt, ↓reduceDIte]; exact h

/-- the invariant holds initially -/
theorem init_inv (input : Array Char) (file : Nat) : Inv { input := input, file := file } := by
  simp [Inv, countNl, afterLastNl]

/-- no newline in `input[i:j]` -/
def NoNl (a : Array Char) (i j : Nat) : Prop := ∀ k, i ≤ k → k < j → a[k]? ≠ some '\n'

theorem countNl_noNl (a : Array Char) (i : Nat) : ∀ (d : Nat), NoNl a i (i + d) → i + d ≤ a.size →
    countNl a (i + d) = countNl a i ∧ afterLastNl a (i + d) = afterLastNl a i := by
  intro d
  induction d with
  | zero => intro _ _; exact ⟨rfl, rfl⟩
  | succ d ih =>
    intro hn hs
    have hn' : NoNl a i (i + d) := fun k h1 h2 => hn k h1 (by omega)
    obtain ⟨e1, e2⟩ := ih hn' (by omega)
    have hlt : i + d < a.size := by omega
    have hc : a[i + d]? = some a[i + d] := by simp [hlt]
    have hne : a[i + d]? ≠ some '\n' := hn (i + d) (by omega) (by omega)
    have hne' : a[i + d] ≠ '\n' := by intro c; apply hne; rw [hc, c]
    refine ⟨?_, ?_⟩
    · rw [show i + (d + 1) = (i + d) + 1 by omega, countNl_succ a (i + d) _ hc, e1]; simp [hne']
    · rw [show i + (d + 1) = (i + d) + 1 by omega]
      simp only [afterLastNl, hne, ↓reduceIte, e2]

/-- **positions are true positions**: with the invariant at `pos`, and no newline between `start` and
    `pos`, the pair (`current_line`, `start − line_offset`) that `emit` and every `ScannerException` use is the
    true (line, column) of `start`. -/
theorem position_is_truePos (s : Scan) (h : Inv s) (hsp : s.start ≤ s.pos) (hps : s.pos ≤ s.input.size)
    (hn : NoNl s.input s.start s.pos) :
    ((s.curLine, (s.start : Int) - (s.lineOffset : Int)) : Nat × Int) = truePos s.input s.start := by
  obtain ⟨h1, h2⟩ := h
  obtain ⟨d, hd⟩ : ∃ d, s.pos = s.start + d := ⟨s.pos - s.start, by omega⟩
  obtain ⟨e1, e2⟩ := countNl_noNl s.input s.start d (by rw [← hd]; exact hn) (by omega)
  unfold truePos
  rw [h1, h2, hd, e1, e2]

/-- the token `emit` appends carries exactly that pair, and so does the error built by `Scan.err` -/
theorem emit_position (s : Scan) (ty : TokTy) :
    ((s.emit ty).toks.back?).map (fun t => (t.line, t.col)) = some ((s.curLine : Int), (s.start : Int) - (s.lineOffset : Int)) := by
  simp [Scan.emit]

theorem err_position (s : Scan) (msg : String) :
    s.err msg = .scan msg (s.curLine : Int) ((s.start : Int) - (s.lineOffset : Int)) := rfl

/-- the true position of an index depends only on the text before it -/
theorem truePos_prefix (a b : Array Char) (i : Nat) (h : ∀ k, k < i → a[k]? = b[k]?) (ha : i ≤ a.size) (hb : i ≤ b.size) :
    truePos a i = truePos b i := by
  have hc : ∀ n, n ≤ i → countNl a n = countNl b n ∧ afterLastNl a n = afterLastNl b n := by
    intro n
    induction n with
    | zero => intro _; simp [countNl, afterLastNl]
    | succ n ih =>
      intro hn
      obtain ⟨e1, e2⟩ := ih (by omega)
      have hk := h n (by omega)
      have hla : a[n]? = some a[n] := by simp [show n < a.size by omega]
      have hlb : b[n]? = some b[n] := by simp [show n < b.size by omega]
      have heq : a[n] = b[n] := by rw [hla, hlb] at hk; exact Option.some.inj hk
      refine ⟨?_, ?_⟩
      · rw [countNl_succ a n _ hla, countNl_succ b n _ hlb, e1, heq]
      · simp only [afterLastNl, hk, e2]
  obtain ⟨e1, e2⟩ := hc i (Nat.le_refl _)
  unfold truePos; rw [e1, e2]


end A816.ScanP
