import A816.Model.Nodes
/-!
# An unrelated definition changes no lookup and no expression value (helper lemmas for C08)

* the shunting yard only moves nodes: every node of the queue it builds is a node of the expression (`shuntingYard_mem`);
* evaluation uses the lookup function only on the identifiers of the expression (`evalTokens_congr`);
* adding a symbol or a label `z` to any scope changes the lookup of no other name, from any scope
  (`valueFor_withSymbol`, `valueFor_withLabel`).
-/
namespace A816.Unrel
open A816 Resolver

theorem popWhile_mem (prec : PrecTable) (p : Nat) : ∀ (stack out o s : List ENode),
    popWhile prec p out stack = .ok (o, s) → ∀ x ∈ o ++ s, x ∈ out ++ stack := by
  intro stack
  induction stack with
  | nil =>
    intro out o s h x hx
    simp only [popWhile, Except.ok.injEq, Prod.mk.injEq] at h
    obtain ⟨rfl, rfl⟩ := h; exact hx
  | cons top rest ih =>
    intro out o s h x hx
    unfold popWhile at h
    split at h
    · simp only [Except.ok.injEq, Prod.mk.injEq] at h
      obtain ⟨rfl, rfl⟩ := h; exact hx
    · split at h
      · cases h
      · split at h
        · have := ih _ _ _ h x hx
          simp only [List.append_assoc, List.cons_append, List.nil_append] at this
          exact this
        · simp only [Except.ok.injEq, Prod.mk.injEq] at h
          obtain ⟨rfl, rfl⟩ := h; exact hx

theorem popToParen_mem : ∀ (stack out o s : List ENode),
    popToParen out stack = some (o, s) → ∀ x ∈ o ++ s, x ∈ out ++ stack := by
  intro stack
  induction stack with
  | nil => intro out o s h; simp [popToParen] at h
  | cons top rest ih =>
    intro out o s h x hx
    unfold popToParen at h
    split at h
    · simp only [Option.some.injEq, Prod.mk.injEq] at h
      obtain ⟨rfl, rfl⟩ := h
      rcases List.mem_append.mp hx with h1 | h1
      · exact List.mem_append_left _ h1
      · exact List.mem_append_right _ (List.mem_cons_of_mem _ h1)
    · have := ih _ _ _ h x hx
      simp only [List.append_assoc, List.cons_append, List.nil_append] at this
      exact this

theorem syStep_mem (prec : PrecTable) (st st' : List ENode × List ENode) (n : ENode)
    (h : syStep prec st n = .ok st') : ∀ x ∈ st'.1 ++ st'.2, x ∈ st.1 ++ st.2 ∨ x = n := by
  intro x hx
  cases n with
  | term k v =>
    simp only [syStep, Except.ok.injEq] at h; subst h
    simp only [List.append_assoc, List.cons_append, List.nil_append, List.mem_append, List.mem_cons] at hx ⊢
    rcases hx with h1 | h1 | h1
    · exact Or.inl (Or.inl h1)
    · exact Or.inr h1
    · exact Or.inl (Or.inr h1)
  | unop v =>
    simp only [syStep, Except.ok.injEq] at h; subst h
    simp only [List.mem_append, List.mem_cons] at hx ⊢
    rcases hx with h1 | h1 | h1
    · exact Or.inl (Or.inl h1)
    · exact Or.inr h1
    · exact Or.inl (Or.inr h1)
  | lparen =>
    simp only [syStep, Except.ok.injEq] at h; subst h
    simp only [List.mem_append, List.mem_cons] at hx ⊢
    rcases hx with h1 | h1 | h1
    · exact Or.inl (Or.inl h1)
    · exact Or.inr h1
    · exact Or.inl (Or.inr h1)
  | binop v =>
    simp only [syStep] at h
    cases hpv : prec v with
    | none => simp [hpv] at h
    | some p =>
      simp only [hpv] at h
      cases hpw : popWhile prec p st.1 st.2 with
      | error e => simp [hpw] at h
      | ok os =>
        obtain ⟨out, stack⟩ := os
        simp only [hpw, Except.ok.injEq] at h; subst h
        simp only [List.mem_append, List.mem_cons] at hx
        rcases hx with h1 | h1 | h1
        · exact Or.inl (popWhile_mem prec p _ _ _ _ hpw x (List.mem_append_left _ h1))
        · exact Or.inr h1
        · exact Or.inl (popWhile_mem prec p _ _ _ _ hpw x (List.mem_append_right _ h1))
  | rparen =>
    simp only [syStep] at h
    split at h
    · cases h
    · rename_i r hp
      simp only [Except.ok.injEq] at h; subst h
      obtain ⟨o, s⟩ := r
      exact Or.inl (popToParen_mem _ _ _ _ hp x hx)

theorem syRun_mem (prec : PrecTable) : ∀ (ts : List ENode) (st st' : List ENode × List ENode),
    syRun prec st ts = .ok st' → ∀ x ∈ st'.1 ++ st'.2, x ∈ st.1 ++ st.2 ∨ x ∈ ts := by
  intro ts
  induction ts with
  | nil => intro st st' h x hx; simp only [syRun, Except.ok.injEq] at h; subst h; exact Or.inl hx
  | cons n ns ih =>
    intro st st' h x hx
    unfold syRun at h
    cases hs : syStep prec st n with
    | error e => simp [hs] at h
    | ok st1 =>
      simp only [hs] at h
      rcases ih st1 st' h x hx with h1 | h1
      · rcases syStep_mem prec st st1 n hs x h1 with h2 | h2
        · exact Or.inl h2
        · exact Or.inr (by rw [h2]; exact List.mem_cons_self)
      · exact Or.inr (List.mem_cons_of_mem _ h1)

/-- the shunting yard only moves nodes -/
theorem shuntingYard_mem (prec : PrecTable) (ts q : List ENode) (h : shuntingYard prec ts = .ok q) :
    ∀ x ∈ q, x ∈ ts := by
  unfold shuntingYard at h
  cases hr : syRun prec ([], []) ts with
  | error e => simp [hr] at h
  | ok st =>
    obtain ⟨out, stack⟩ := st
    simp only [hr, Except.ok.injEq] at h
    subst h
    intro x hx
    rcases syRun_mem prec ts ([], []) (out, stack) hr x hx with h1 | h1
    · simp at h1
    · exact h1

theorem applyNode_congr (look look' : String → Look) (vs : List Int) (n : ENode)
    (h : ∀ v, n = .term .identifier v → look v = look' v) : applyNode look vs n = applyNode look' vs n := by
  cases n with
  | term k v =>
    cases k with
    | identifier => simp only [applyNode]; rw [h v rfl]
    | number => rfl
    | other => rfl
  | binop v => rfl
  | unop v => rfl
  | lparen => rfl
  | rparen => rfl

theorem rpnRun_congr (look look' : String → Look) : ∀ (q : List ENode) (vs : List Int),
    (∀ v, ENode.term .identifier v ∈ q → look v = look' v) → rpnRun look vs q = rpnRun look' vs q := by
  intro q
  induction q with
  | nil => intro vs _; rfl
  | cons n ns ih =>
    intro vs h
    unfold rpnRun
    rw [applyNode_congr look look' vs n (fun v hv => h v (by rw [hv]; exact List.mem_cons_self))]
    cases applyNode look' vs n with
    | error e => rfl
    | ok vs' => exact ih vs' (fun v hv => h v (List.mem_cons_of_mem _ hv))

/-- **evaluation reads the lookup function only at the identifiers of the expression** -/
theorem evalTokens_congr (prec : PrecTable) (look look' : String → Look) (ts : List ENode)
    (h : ∀ v, ENode.term .identifier v ∈ ts → look v = look' v) :
    evalTokens prec look ts = evalTokens prec look' ts := by
  unfold evalTokens
  cases hq : shuntingYard prec ts with
  | error e => rfl
  | ok q =>
    simp only []
    unfold evalRPN
    rw [rpnRun_congr look look' q [] (fun v hv => h v (shuntingYard_mem prec ts q hq _ hv))]

/-! ## one more definition in some scope -/

/-- the resolver with one more integer symbol `z` in scope `k` (`Scope.add_symbol` done there) -/
def withSymbol (r : Resolver) (k : Nat) (z : String) (v : Int) : Resolver :=
  { r with scopes := r.scopes.modify k fun s => { s with symbols := ainsert z v s.symbols } }

/-- … with one more label (`Scope.add_label`: the labels and the symbols of the scope) -/
def withLabel (r : Resolver) (k : Nat) (z : String) (v : Int) : Resolver :=
  { r with scopes := r.scopes.modify k fun s => { s with labels := ainsert z v s.labels, symbols := ainsert z v s.symbols } }

theorem alookup_ainsert_ne' {β} (k k' : String) (v : β) (l : List (String × β)) (h : k' ≠ k) :
    alookup k' (ainsert k v l) = alookup k' l := by
  induction l with
  | nil =>
    simp only [ainsert, alookup]
    have : (k == k') = false := by simpa using (fun e => h e.symm)
    rw [this]; rfl
  | cons a rest ih =>
    obtain ⟨ka, va⟩ := a
    simp only [ainsert]
    by_cases hka : (ka == k) = true
    · rw [if_pos hka]
      have hk : ka = k := by simpa using hka
      have : (ka == k') = false := by rw [hk]; simpa using (fun e => h e.symm)
      simp only [alookup, this]
      rfl
    · rw [if_neg hka]
      simp only [alookup]
      rw [ih]

/-- scopes that differ only in the entries of their `symbols` for the names in `Z` -/
def SameBut (Z : String → Prop) (a b : ScopeRec) : Prop :=
  a.parent = b.parent ∧ a.codeSymbols = b.codeSymbols ∧ ∀ n, ¬ Z n → alookup n a.symbols = alookup n b.symbols

theorem getItem_sameBut (Z : String → Prop) (n : String) (a b : ScopeRec) (h : SameBut Z a b) (hn : ¬ Z n) : getItem a n = getItem b n := by
  unfold getItem
  rw [h.2.1, h.2.2 n hn]

theorem valueForAux_sameBut (Z : String → Prop) (n : String) (hn : ¬ Z n) (s s' : Array ScopeRec)
    (h : ∀ i, SameBut Z (s.getD i default) (s'.getD i default)) :
    ∀ (fuel i : Nat), valueForAux s n fuel i = valueForAux s' n fuel i := by
  intro fuel
  induction fuel with
  | zero => intro i; rfl
  | succ f ih =>
    intro i
    unfold valueForAux
    have hi := h i
    rw [hi.1, hi.2.1, hi.2.2 n hn, getItem_sameBut Z n _ _ hi hn]
    split
    · rw [ih]
    · rfl

theorem sameBut_modify (Z : String → Prop) (s : Array ScopeRec) (k : Nat) (f : ScopeRec → ScopeRec)
    (hf : ∀ a, SameBut Z (f a) a) : ∀ i, SameBut Z ((s.modify k f).getD i default) (s.getD i default) := by
  intro i
  simp only [Array.getD_eq_getD_getElem?, Array.getElem?_modify]
  by_cases hki : k = i
  · subst hki
    by_cases hlt : k < s.size
    · simp only [↓reduceIte, Array.getElem?_eq_getElem hlt, Option.map_some, Option.getD_some]
      exact hf _
    · simp only [↓reduceIte, Array.getElem?_eq_none (Nat.le_of_not_lt hlt), Option.map_none, Option.getD_none]
      exact ⟨rfl, rfl, fun _ _ => rfl⟩
  · simp only [hki, ↓reduceIte]
    exact ⟨rfl, rfl, fun _ _ => rfl⟩

/-- **a symbol added to any scope changes the lookup of no other name, from any scope** -/
theorem valueFor_withSymbol (r : Resolver) (k : Nat) (z : String) (v : Int) (n : String) (hn : n ≠ z) (from_ : Nat) :
    valueForAux (withSymbol r k z v).scopes n ((withSymbol r k z v).scopes.size + 1) from_ =
      valueForAux r.scopes n (r.scopes.size + 1) from_ := by
  have hs : (withSymbol r k z v).scopes.size = r.scopes.size := by simp [withSymbol]
  rw [hs]
  exact valueForAux_sameBut (· = z) n hn _ _
    (sameBut_modify (· = z) r.scopes k (fun s => { s with symbols := ainsert z v s.symbols })
      (fun a => ⟨rfl, rfl, fun m hm => alookup_ainsert_ne' z m v a.symbols hm⟩)) _ _

theorem valueFor_withLabel (r : Resolver) (k : Nat) (z : String) (v : Int) (n : String) (hn : n ≠ z) (from_ : Nat) :
    valueForAux (withLabel r k z v).scopes n ((withLabel r k z v).scopes.size + 1) from_ =
      valueForAux r.scopes n (r.scopes.size + 1) from_ := by
  have hs : (withLabel r k z v).scopes.size = r.scopes.size := by simp [withLabel]
  rw [hs]
  exact valueForAux_sameBut (· = z) n hn _ _
    (sameBut_modify (· = z) r.scopes k (fun s => { s with labels := ainsert z v s.labels, symbols := ainsert z v s.symbols })
      (fun a => ⟨rfl, rfl, fun m hm => alookup_ainsert_ne' z m v a.symbols hm⟩)) _ _

end A816.Unrel
