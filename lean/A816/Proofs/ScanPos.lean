import A816.Proofs.ScanPosBasic
/-!
# Every token and every lexical error carries its true position (helper lemmas for C17 `scan_positions`)

`Step s s'`: the scanner moved from `s` to `s'` by consuming characters none of which is a newline and
without emitting anything — the line bookkeeping, the pending token start and the token list are
untouched.  `Ok s`: the bookkeeping invariant of C17 holds at `pos`, the pending token text
(`start … pos`) holds no newline, and every token emitted so far (other than comments, which may span
lines and carry no errors) has the true (line, column) of some index of the input.

For every scanner primitive and every state function: started in an `Ok` state it returns an `Ok`
state, or raises a `ScannerException` whose position is a true position (`Post`).
-/
namespace A816.ScanP
open A816 Scan ScanB ScanT

/-! ## newline counting without bounds -/

theorem countNl_step (a : Array Char) (n : Nat) :
    countNl a (n + 1) = countNl a n + (if a[n]? = some '\n' then 1 else 0) := by
  cases h : a[n]? with
  | some c =>
    rw [countNl_succ a n c h]
    by_cases hc : c = '\n' <;> simp [hc]
  | none =>
    have hge : a.size ≤ n := by
      by_cases hlt : n < a.size
      · simp [hlt] at h
      · omega
    unfold countNl
    rw [List.take_of_length_le (by simp; omega), List.take_of_length_le (by simp; omega)]
    simp

theorem afterLastNl_step (a : Array Char) (n : Nat) (h : a[n]? ≠ some '\n') : afterLastNl a (n + 1) = afterLastNl a n := by
  simp only [afterLastNl, h, ↓reduceIte]

/-- over a stretch without newline the line number and the line start do not change -/
theorem noNl_same (a : Array Char) (i : Nat) : ∀ (d : Nat), NoNl a i (i + d) →
    countNl a (i + d) = countNl a i ∧ afterLastNl a (i + d) = afterLastNl a i := by
  intro d
  induction d with
  | zero => intro _; exact ⟨rfl, rfl⟩
  | succ d ih =>
    intro hn
    obtain ⟨e1, e2⟩ := ih (fun k h1 h2 => hn k h1 (by omega))
    have hne : a[i + d]? ≠ some '\n' := hn (i + d) (by omega) (by omega)
    rw [show i + (d + 1) = (i + d) + 1 by omega, countNl_step, afterLastNl_step a (i + d) hne, e1, e2]
    simp [hne]

theorem noNl_same' (a : Array Char) (i j : Nat) (hij : i ≤ j) (hn : NoNl a i j) :
    countNl a j = countNl a i ∧ afterLastNl a j = afterLastNl a i := by
  obtain ⟨d, rfl⟩ : ∃ d, j = i + d := ⟨j - i, by omega⟩
  exact noNl_same a i d hn

theorem NoNl.append {a : Array Char} {i j k : Nat} (h1 : NoNl a i j) (h2 : NoNl a j k) : NoNl a i k := by
  intro x hx1 hx2
  by_cases hxj : x < j
  · exact h1 x hx1 hxj
  · exact h2 x (by omega) hx2

theorem NoNl.empty (a : Array Char) (i : Nat) : NoNl a i i := fun k h1 h2 => by omega

/-! ## `Step`: consuming non-newline characters -/

structure Step (s s' : Scan) : Prop where
  input : s'.input = s.input
  pos : s.pos ≤ s'.pos
  toks : s'.toks = s.toks
  start : s'.start = s.start
  line : s'.curLine = s.curLine
  off : s'.lineOffset = s.lineOffset
  file : s'.file = s.file
  nonl : NoNl s.input s.pos s'.pos

theorem Step.refl (s : Scan) : Step s s := ⟨rfl, Nat.le_refl _, rfl, rfl, rfl, rfl, rfl, NoNl.empty _ _⟩

theorem Step.trans {a b c : Scan} (h1 : Step a b) (h2 : Step b c) : Step a c :=
  ⟨by rw [h2.input, h1.input], Nat.le_trans h1.pos h2.pos, by rw [h2.toks, h1.toks], by rw [h2.start, h1.start],
   by rw [h2.line, h1.line], by rw [h2.off, h1.off], by rw [h2.file, h1.file],
   h1.nonl.append (by have := h2.nonl; rw [h1.input] at this; exact this)⟩

/-- `peek()` is the character at `pos` when there is one -/
theorem peek_eq (s : Scan) (h : s.pos < s.input.size) : s.input[s.pos]? = some s.peek := by
  unfold Scan.peek
  simp only [Nat.add_zero]
  rw [Array.getD_eq_getD_getElem?]
  simp [h]

/-- `next()` over a character that is not a newline -/
theorem step_next (s : Scan) (h : s.peek ≠ '\n') : Step s (s.next).1 := by
  by_cases hlt : s.pos < s.input.size
  · have hc := peek_eq s hlt
    have hne : s.input[s.pos] ≠ '\n' := by
      intro hx
      have : s.input[s.pos]? = some '\n' := by simp [hlt, hx]
      rw [hc] at this
      exact h (Option.some.inj this)
    unfold Scan.next
    simp only [hlt, ↓reduceDIte, hne, ↓reduceIte]
    refine ⟨rfl, by simp, rfl, rfl, rfl, rfl, rfl, ?_⟩
    intro k hk1 hk2
    simp only at hk2
    have : k = s.pos := by omega
    subst this
    rw [hc]; intro hx; exact h (Option.some.inj hx)
  · rw [(next_pos_ge s hlt).1]; exact Step.refl s

/-- `accept` when whatever it accepts is not a newline -/
theorem step_accept (s : Scan) (cands : List Char) (negate : Bool)
    (h : s.acceptTest cands negate = true → s.peek ≠ '\n') : Step s (s.accept cands negate).1 := by
  unfold Scan.accept
  split
  · rename_i ht; exact step_next s (h ht)
  · exact Step.refl s

/-- the two ways the code calls `accept`: plain with candidates that hold no newline, negated with candidates that hold it -/
theorem acceptTest_nonl (s : Scan) (cands : List Char) (negate : Bool)
    (hc : if negate then cands.contains '\n' = true else cands.contains '\n' = false) :
    s.acceptTest cands negate = true → s.peek ≠ '\n' := by
  intro ht hp
  unfold Scan.acceptTest at ht
  rw [hp] at ht
  cases negate <;> simp_all

theorem step_acceptRunAux (cands : List Char) (negate : Bool)
    (hc : if negate then cands.contains '\n' = true else cands.contains '\n' = false) :
    ∀ (n : Nat) (s s' : Scan), acceptRunAux cands negate n s = some s' → Step s s' := by
  intro n
  induction n with
  | zero =>
    intro s s' h
    unfold acceptRunAux at h
    split at h
    · cases h
    · cases h; exact Step.refl s
  | succ n ih =>
    intro s s' h
    unfold acceptRunAux at h
    simp only at h
    split at h
    · exact (step_accept s cands negate (acceptTest_nonl s cands negate hc)).trans (ih _ _ h)
    · cases h; exact Step.refl s

theorem step_acceptRun (s s' : Scan) (cands : List Char) (negate : Bool)
    (hc : if negate then cands.contains '\n' = true else cands.contains '\n' = false)
    (h : s.acceptRun cands negate = .ok s') : Step s s' := by
  unfold Scan.acceptRun at h
  split at h
  · rename_i s2 heq; cases h; exact step_acceptRunAux cands negate hc _ _ _ heq
  · cases h

/-- when `accept_run` stops, the next character is not one it accepts -/
theorem acceptRunAux_stops (cands : List Char) (negate : Bool) : ∀ (n : Nat) (s s' : Scan),
    acceptRunAux cands negate n s = some s' → s'.acceptTest cands negate = false := by
  intro n
  induction n with
  | zero =>
    intro s s' h
    unfold acceptRunAux at h
    split at h
    · cases h
    · rename_i hf; cases h
      unfold Scan.accept at hf
      split at hf
      · simp at hf
      · rename_i ht; simpa using ht
  | succ n ih =>
    intro s s' h
    unfold acceptRunAux at h
    simp only at h
    split at h
    · exact ih _ _ h
    · rename_i hf; cases h
      unfold Scan.accept at hf
      split at hf
      · simp at hf
      · rename_i ht; simpa using ht

/-- the characters `input[pos .. pos+len)` are exactly `pre` -/
theorem take_drop_getElem (l : List Char) (p n k : Nat) (hk1 : p ≤ k) (hk2 : k < p + n) (c : Char) (h : l[k]? = some c) :
    c ∈ (l.drop p).take n := by
  have : ((l.drop p).take n)[k - p]? = some c := by
    rw [List.getElem?_take, if_pos (by omega), List.getElem?_drop]
    rw [show p + (k - p) = k by omega]; exact h
  exact List.mem_of_getElem? this

theorem step_acceptPrefix (s : Scan) (pre : List Char) (hp : pre.contains '\n' = false) : Step s (s.acceptPrefix pre).1 := by
  unfold Scan.acceptPrefix
  split
  · rename_i hc
    refine ⟨rfl, by simp, rfl, rfl, rfl, rfl, rfl, ?_⟩
    intro k hk1 hk2 hx
    simp only at hk2
    have hget : s.input.toList[k]? = some '\n' := by simpa using hx
    have hm := take_drop_getElem s.input.toList s.pos pre.length k hk1 hk2 '\n' hget
    rw [hc.1] at hm
    have : pre.contains '\n' = true := by simpa using hm
    rw [hp] at this; cases this
  · exact Step.refl s

/-! ## the invariant -/

/-- the position a token carries is the true position of some index (comments may span lines and are exempt) -/
def TokOK (input : Array Char) (t : Tok) : Prop :=
  t.ty = .COMMENT ∨ ∃ i, t.line = ((truePos input i).1 : Int) ∧ t.col = (truePos input i).2

/-- between statements and inside comments: bookkeeping right, tokens right -/
structure Ok0 (s : Scan) : Prop where
  inv : Inv s
  toks : ∀ t ∈ s.toks.toList, TokOK s.input t

/-- … and the pending token text holds no newline -/
structure Ok (s : Scan) : Prop where
  inv : Inv s
  toks : ∀ t ∈ s.toks.toList, TokOK s.input t
  sp : s.start ≤ s.pos
  nonl : NoNl s.input s.start s.pos

theorem Ok.ok0 {s : Scan} (h : Ok s) : Ok0 s := ⟨h.inv, h.toks⟩

theorem ok0_next (s : Scan) (h : Ok0 s) : Ok0 (s.next).1 :=
  ⟨next_inv s h.inv, by rw [ScanT.next_toks, ScanB.next_input]; exact h.toks⟩

theorem ok_step {s s' : Scan} (h : Ok s) (st : Step s s') : Ok s' := by
  obtain ⟨e1, e2⟩ := noNl_same' s.input s.pos s'.pos st.pos st.nonl
  refine ⟨⟨?_, ?_⟩, ?_, ?_, ?_⟩
  · rw [st.line, st.input, e1]; exact h.inv.1
  · rw [st.off, st.input, e2]; exact h.inv.2
  · rw [st.toks, st.input]; exact h.toks
  · rw [st.start]; exact Nat.le_trans h.sp st.pos
  · rw [st.start, st.input]; exact h.nonl.append st.nonl

/-- the true position of the pending token start -/
theorem ok_pos (s : Scan) (h : Ok s) :
    (s.curLine : Int) = ((truePos s.input s.start).1 : Int) ∧ (s.start : Int) - (s.lineOffset : Int) = (truePos s.input s.start).2 := by
  obtain ⟨e1, e2⟩ := noNl_same' s.input s.start s.pos h.sp h.nonl
  unfold truePos
  rw [h.inv.1, h.inv.2, e1, e2]
  exact ⟨rfl, rfl⟩

theorem ok_emit (s : Scan) (h : Ok s) (ty : TokTy) : Ok (s.emit ty) := by
  obtain ⟨p1, p2⟩ := ok_pos s h
  refine ⟨h.inv, ?_, Nat.le_refl _, NoNl.empty _ _⟩
  intro t ht
  simp only [Scan.emit, Array.toList_push, List.mem_append, List.mem_singleton] at ht
  rcases ht with ht | rfl
  · exact h.toks t ht
  · exact Or.inr ⟨s.start, p1, p2⟩

/-- a comment token may be emitted with any pending text -/
theorem ok0_emit_comment (s : Scan) (h : Ok0 s) : Ok (s.emit .COMMENT) := by
  refine ⟨h.inv, ?_, Nat.le_refl _, NoNl.empty _ _⟩
  intro t ht
  simp only [Scan.emit, Array.toList_push, List.mem_append, List.mem_singleton] at ht
  rcases ht with ht | rfl
  · exact h.toks t ht
  · exact Or.inl rfl

theorem ok0_ignore (s : Scan) (h : Ok0 s) : Ok s.ignore :=
  ⟨h.inv, h.toks, Nat.le_refl _, NoNl.empty _ _⟩

/-- the position of a scanner error -/
def ErrOK (input : Array Char) (e : Err) : Prop :=
  match e with
  | .scan _ l c => ∃ i, l = ((truePos input i).1 : Int) ∧ c = (truePos input i).2
  | _ => True

theorem ok_err (s : Scan) (h : Ok s) (msg : String) : ErrOK s.input (s.err msg) := by
  obtain ⟨p1, p2⟩ := ok_pos s h
  exact ⟨s.start, p1, p2⟩

/-- `backup()` over a pending (hence newline-free) character -/
theorem ok_backup (s : Scan) (h : Ok s) (hlt : s.start < s.pos) : Ok s.backup := by
  have hne : s.input[s.pos - 1]? ≠ some '\n' := h.nonl (s.pos - 1) (by omega) (by omega)
  have hc : countNl s.input s.pos = countNl s.input (s.pos - 1) := by
    have := countNl_step s.input (s.pos - 1)
    rw [show s.pos - 1 + 1 = s.pos by omega] at this
    rw [this]; simp [hne]
  have ha : afterLastNl s.input s.pos = afterLastNl s.input (s.pos - 1) := by
    have := afterLastNl_step s.input (s.pos - 1) hne
    rw [show s.pos - 1 + 1 = s.pos by omega] at this; exact this
  refine ⟨⟨?_, ?_⟩, h.toks, ?_, ?_⟩
  · show s.curLine = countNl s.input (s.pos - 1); rw [← hc]; exact h.inv.1
  · show s.lineOffset = afterLastNl s.input (s.pos - 1); rw [← ha]; exact h.inv.2
  · show s.start ≤ s.pos - 1; omega
  · intro k hk1 hk2; exact h.nonl k hk1 (by show k < s.pos; have : k < s.pos - 1 := hk2; omega)

/-- post-condition of a scanner function started in `s` -/
def Post (s : Scan) (r : SR) : Prop :=
  match r with
  | .ok s' => Ok s' ∧ s'.input = s.input
  | .error (e, _) => ErrOK s.input e

theorem Post.bind {s : Scan} {r : SR} {f : Scan → SR} (h : Post s r)
    (hf : ∀ s1, Ok s1 → s1.input = s.input → Post s1 (f s1)) : Post s (r >>= f) := by
  cases r with
  | error e => obtain ⟨e, s2⟩ := e; exact h
  | ok s1 =>
    have h1 : Ok s1 ∧ s1.input = s.input := h
    have h2 := hf s1 h1.1 h1.2
    show Post s (f s1)
    unfold Post at h2 ⊢
    split
    · rename_i s2 heq; rw [heq] at h2; exact ⟨h2.1, by rw [h2.2, h1.2]⟩
    · rename_i e s2 heq; rw [heq] at h2; rw [← h1.2]; exact h2

theorem Post.pure {s s' : Scan} (h : Ok s') (hi : s'.input = s.input) : Post s (pure s' : SR) := ⟨h, hi⟩
theorem Post.of_step {s s0 : Scan} {r : SR} (hi : s0.input = s.input) (h : Post s0 r) : Post s r := by
  cases r with
  | ok s' => exact ⟨h.1, by rw [h.2, hi]⟩
  | error e => obtain ⟨e, s2⟩ := e; show ErrOK s.input e; rw [← hi]; exact h

theorem post_acceptRun (s : Scan) (h : Ok s) (cands : List Char) (negate : Bool)
    (hc : if negate then cands.contains '\n' = true else cands.contains '\n' = false) : Post s (s.acceptRun cands negate) := by
  cases hr : s.acceptRun cands negate with
  | ok s' => have st := step_acceptRun s s' cands negate hc hr; exact ⟨ok_step h st, st.input⟩
  | error e =>
    obtain ⟨e, s2⟩ := e
    unfold Scan.acceptRun at hr
    split at hr
    · cases hr
    · cases hr; trivial

theorem post_ignoreRun (s : Scan) (h : Ok s) (cands : List Char) (hc : cands.contains '\n' = false) : Post s (s.ignoreRun cands) := by
  unfold Scan.ignoreRun
  have hp := post_acceptRun s h cands false (by simpa using hc)
  cases hr : s.acceptRun cands with
  | ok s' => rw [hr] at hp; exact ⟨ok0_ignore s' hp.1.ok0, hp.2⟩
  | error e => rw [hr] at hp; obtain ⟨e, s2⟩ := e; exact hp


theorem ok_next (s : Scan) (h : Ok s) (hp : s.peek ≠ '\n') : Ok (s.next).1 ∧ (s.next).1.input = s.input :=
  ⟨ok_step h (step_next s hp), (step_next s hp).input⟩

theorem ok_accept (s : Scan) (h : Ok s) (cands : List Char) (hc : cands.contains '\n' = false) :
    Ok (s.accept cands).1 ∧ (s.accept cands).1.input = s.input :=
  have st := step_accept s cands false (acceptTest_nonl s cands false (by simpa using hc))
  ⟨ok_step h st, st.input⟩

theorem ok_acceptPrefix (s : Scan) (h : Ok s) (pre : List Char) (hc : pre.contains '\n' = false) :
    Ok (s.acceptPrefix pre).1 ∧ (s.acceptPrefix pre).1.input = s.input :=
  ⟨ok_step h (step_acceptPrefix s pre hc), (step_acceptPrefix s pre hc).input⟩

@[simp] theorem emit_peek (s : Scan) (ty : TokTy) (k : Nat) : (s.emit ty).peek k = s.peek k := rfl
@[simp] theorem emit_input (s : Scan) (ty : TokTy) : (s.emit ty).input = s.input := rfl
@[simp] theorem ignore_input (s : Scan) : s.ignore.input = s.input := rfl

theorem post_lexIdentifier (s : Scan) (h : Ok s) : Post s (lexIdentifier s) := by
  unfold lexIdentifier
  simp only []
  apply Post.bind (post_acceptRun s h identChars false (by decide))
  intro s1 h1 _
  split
  · rename_i hc
    have hp : (s1.emit .LABEL).peek ≠ '\n' := by
      intro hx; rw [emit_peek] at hx; rw [hx] at hc; simp at hc
    obtain ⟨o, oi⟩ := ok_next _ (ok_emit s1 h1 .LABEL) hp
    exact Post.pure (ok0_ignore _ o.ok0) (by rw [ignore_input, oi]; rfl)
  · split
    · rename_i hc
      have hp : s1.peek ≠ '\n' := by intro hx; rw [hx] at hc; simp at hc
      obtain ⟨o, oi⟩ := ok_next s1 h1 hp
      apply Post.of_step oi
      apply Post.bind (post_acceptRun _ o identChars false (by decide))
      intro s2 h2 _
      exact Post.pure (ok_emit s2 h2 _) rfl
    · exact Post.pure (ok_emit s1 h1 _) rfl

theorem next_snd (s : Scan) (hlt : s.pos < s.input.size) : (s.next).2 = some s.peek := by
  have hc := peek_eq s hlt
  have h1 : s.input[s.pos]? = some s.input[s.pos] := by simp [hlt]
  rw [h1] at hc
  have h2 : s.input[s.pos] = s.peek := Option.some.inj hc
  unfold Scan.next
  simp only [hlt, ↓reduceDIte]
  rw [h2]

/-- the quoted-string loop: `c` is the character just consumed; a consumed newline ends the loop with the error
    built before the string was entered -/
theorem post_quotedLoop (input : Array Char) (posErr : Err) (hpe : ErrOK input posErr) : ∀ (n : Nat) (s : Scan) (c : Option Char),
    s.input = input → Ok0 s → (c ≠ some '\n' → Ok s) → Post s (quotedLoop posErr n s c) := by
  intro n
  induction n with
  | zero => intro s c _ _ _; unfold quotedLoop; trivial
  | succ n ih =>
    intro s c hi h0 hok
    unfold quotedLoop
    split
    · rename_i hq
      have : c ≠ some '\n' := by intro hx; rw [hx] at hq; simp at hq
      exact ⟨hok this, rfl⟩
    · split
      · show ErrOK s.input posErr; rw [hi]; exact hpe
      · rename_i h1 h2
        have hcn : c ≠ some '\n' := by intro hx; rw [hx] at h2; simp at h2
        have o := hok hcn
        -- an escaped quote is skipped
        have o1 : Ok (if (c == some '\\' && s.peek == '\'') = true then (s.next).1 else s) ∧
            (if (c == some '\\' && s.peek == '\'') = true then (s.next).1 else s).input = s.input := by
          split
          · rename_i hc
            have hp : s.peek ≠ '\n' := by intro hx; rw [hx] at hc; simp at hc
            exact ok_next s o hp
          · exact ⟨o, rfl⟩
        generalize (if (c == some '\\' && s.peek == '\'') = true then (s.next).1 else s) = s1 at o1 ⊢
        apply Post.of_step (show (s1.next).1.input = s.input by rw [next_input]; exact o1.2)
        apply ih (s1.next).1 (s1.next).2 (by rw [next_input, o1.2, hi]) (ok0_next s1 o1.1.ok0)
        intro hne
        -- the character consumed is not a newline: the step keeps `Ok`
        by_cases hlt : s1.pos < s1.input.size
        · have hn2 : (s1.next).2 = some s1.peek := next_snd s1 hlt
          have hp : s1.peek ≠ '\n' := by intro hx; apply hne; rw [hn2, hx]
          exact (ok_next s1 o1.1 hp).1
        · rw [(next_pos_ge s1 hlt).1]; exact o1.1


theorem post_lexQuotedString (s : Scan) (h : Ok s) : Post s (lexQuotedString s) := by
  unfold lexQuotedString
  simp only []
  have hpe : ErrOK s.input (s.err "Unterminated String") := ok_err s h _
  have hloop := post_quotedLoop s.input (s.err "Unterminated String") hpe (s.input.size - s.pos + 2) (s.next).1 (s.next).2
    (next_input s) (ok0_next s h.ok0) (by
      intro hne
      by_cases hlt : s.pos < s.input.size
      · have hp : s.peek ≠ '\n' := by intro hx; apply hne; rw [next_snd s hlt, hx]
        exact (ok_next s h hp).1
      · rw [(next_pos_ge s hlt).1]; exact h)
  apply Post.of_step (next_input s)
  apply Post.bind hloop
  intro s2 h2 _
  exact Post.pure (ok_emit s2 h2 _) rfl

theorem post_lexNumber (s : Scan) (h : Ok s) (hlt : s.start < s.pos) : Post s (lexNumber s) := by
  unfold lexNumber
  simp only []
  have hb := ok_backup s h hlt
  -- the character given back is the pending (newline-free) one: `next` takes it again
  have hpk : s.backup.peek ≠ '\n' := by
    intro hx
    by_cases hl : s.backup.pos < s.backup.input.size
    · have := peek_eq s.backup hl
      rw [hx] at this
      exact h.nonl (s.pos - 1) (by omega) (by omega) this
    · rw [peek_eof s.backup hl] at hx; cases hx
  obtain ⟨o, oi⟩ := ok_next s.backup hb hpk
  have oi' : (s.backup.next).1.input = s.input := oi
  apply Post.of_step oi'
  generalize (s.backup.next).1 = t at o ⊢
  generalize (s.backup.next).2 = ch
  split
  · exact Post.pure (ok_emit t o _) rfl
  · rename_i hpk2
    have hp : t.peek ≠ '\n' := by intro hx; apply hpk2; simp [hx]
    obtain ⟨o1, oi1⟩ := ok_next t o hp
    have hstart : t.start < (t.next).1.pos := by
      have hl : t.pos < t.input.size := by
        apply peek_ne_nul_lt; intro hc; apply hpk2; simp [hc]
      rw [next_pos_lt t hl]; have := o.sp; omega
    split
    · split
      · apply Post.of_step oi1
        apply Post.bind (post_acceptRun _ o1 _ false (by decide)); intro s2 h2 _; exact Post.pure (ok_emit s2 h2 _) rfl
      · split
        · apply Post.of_step oi1
          apply Post.bind (post_acceptRun _ o1 _ false (by decide)); intro s2 h2 _; exact Post.pure (ok_emit s2 h2 _) rfl
        · split
          · apply Post.of_step oi1
            apply Post.bind (post_acceptRun _ o1 _ false (by decide)); intro s2 h2 _; exact Post.pure (ok_emit s2 h2 _) rfl
          · have hst : (t.next).1.start = t.start := (step_next t hp).start
            have ob := ok_backup (t.next).1 o1 (by rw [hst]; exact hstart)
            exact Post.pure (ok_emit _ ob _) (by show (t.next).1.input = t.input; exact oi1)
    · apply Post.bind (post_acceptRun _ o _ false (by decide)); intro s2 h2 _; exact Post.pure (ok_emit s2 h2 _) rfl

theorem post_lexKeyword (cfg : ScanCfg) (s : Scan) (h : Ok s) : Post s (lexKeyword cfg s) := by
  unfold lexKeyword
  simp only []
  apply Post.of_step (show s.ignore.input = s.input from rfl)
  apply Post.bind (post_acceptRun _ (ok0_ignore s h.ok0) _ false (by decide))
  intro s1 h1 _
  split
  · exact Post.pure (ok_emit s1 h1 _) rfl
  · exact ok_err s1 h1 ("Unknown Keyword " ++ s1.tokenText)

theorem ok0_lineComment : ∀ (n : Nat) (s s' : Scan), Ok0 s → lineCommentLoop n s = .ok s' → Ok0 s' ∧ s'.input = s.input := by
  intro n
  induction n with
  | zero => intro s s' _ h; unfold lineCommentLoop at h; cases h
  | succ n ih =>
    intro s s' h0 h
    unfold lineCommentLoop at h
    split at h
    · cases h; exact ⟨ok0_next s h0, next_input s⟩
    · obtain ⟨a, b⟩ := ih _ _ (ok0_next s h0) h
      exact ⟨a, by rw [b, next_input]⟩

theorem ok0_acceptPrefix (s : Scan) (h : Ok0 s) (pre : List Char) (hc : pre.contains '\n' = false) : Ok0 (s.acceptPrefix pre).1 := by
  have st := step_acceptPrefix s pre hc
  obtain ⟨e1, e2⟩ := noNl_same' s.input s.pos _ st.pos st.nonl
  exact ⟨⟨by rw [st.line, st.input, e1]; exact h.inv.1, by rw [st.off, st.input, e2]; exact h.inv.2⟩, by rw [st.toks, st.input]; exact h.toks⟩

theorem ok0_blockComment (posErr : Err) : ∀ (n : Nat) (s : Scan), Ok0 s →
    match blockCommentLoop posErr n s with
    | .ok s' => Ok0 s' ∧ s'.input = s.input
    | .error (e, _) => e = posErr ∨ e = .outOfFuel := by
  intro n
  induction n with
  | zero => intro s _; unfold blockCommentLoop; exact Or.inr rfl
  | succ n ih =>
    intro s h0
    unfold blockCommentLoop
    by_cases h1 : (s.acceptPrefix ['*', '/']).2 = true
    · rw [if_pos h1]
      exact ⟨ok0_acceptPrefix s h0 _ (by decide), (step_acceptPrefix s _ (by decide)).input⟩
    · rw [if_neg h1]
      by_cases h2 : ((s.next).2 == none) = true
      · rw [if_pos h2]; exact Or.inl rfl
      · rw [if_neg h2]
        have := ih (s.next).1 (ok0_next s h0)
        cases hr : blockCommentLoop posErr n (s.next).1 with
        | ok s' => rw [hr] at this; exact ⟨this.1, by rw [this.2, next_input]⟩
        | error e => rw [hr] at this; obtain ⟨e, s2⟩ := e; exact this


theorem handleLine_start (s : Scan) : s.handleLine.start = s.start := by unfold handleLine; split <;> rfl

theorem next_start (s : Scan) : (s.next).1.start = s.start := by
  unfold Scan.next
  split
  · simp only; split
    · exact handleLine_start s
    · rfl
  · rfl

/-- after a successful `accept` the pending token is not empty -/
theorem accept_start_lt (s : Scan) (h : Ok s) (cands : List Char) (h0 : cands.contains '\x00' = false)
    (ha : (s.accept cands).2 = true) : (s.accept cands).1.start < (s.accept cands).1.pos := by
  have hlt := accept_lt s cands h0 ha
  have : (s.accept cands).1.start = s.start := by
    unfold Scan.accept; split
    · exact next_start s
    · rfl
  rw [this]; have := h.sp; omega

theorem post_lexExpressionLoop : ∀ (n : Nat) (s : Scan), Ok s → Post s (lexExpressionLoop n s) := by
  intro n
  induction n with
  | zero => intro s h; unfold lexExpressionLoop; split
            · trivial
            · exact ⟨h, rfl⟩
  | succ n ih =>
    intro s h
    unfold lexExpressionLoop
    by_cases hlt : s.pos < s.input.size
    · rw [if_pos hlt]
      simp only []
      apply Post.bind (post_ignoreRun s h [' '] (by decide))
      intro t ht _
      have emitCase : ∀ (s1 : Scan) (ty : TokTy), Ok s1 → s1.input = t.input → Post t (lexExpressionLoop n (s1.emit ty)) := by
        intro s1 ty h1 hi
        exact Post.of_step (show (s1.emit ty).input = t.input from hi) (ih _ (ok_emit s1 h1 ty))
      split
      · rename_i ha
        obtain ⟨o, oi⟩ := ok_accept t ht digitChars (by decide)
        have hst := accept_start_lt t ht digitChars nul_digit ha
        generalize (t.accept digitChars).1 = u at o oi hst ⊢
        apply Post.bind (Post.of_step oi (post_lexNumber u o hst))
        intro s1 h1 _; exact ih s1 h1
      · split
        · obtain ⟨o, oi⟩ := ok_accept t ht letterChars (by decide)
          generalize (t.accept letterChars).1 = u at o oi ⊢
          apply Post.bind (Post.of_step oi (post_lexIdentifier u o))
          intro s1 h1 _; exact ih s1 h1
        · by_cases h1 : (t.accept (chars "+-*/&|~")).snd = true
          · rw [if_pos h1]; dsimp only; rw [if_pos rfl]
            obtain ⟨o, oi⟩ := ok_accept t ht (chars "+-*/&|~") (by decide)
            exact emitCase _ _ o oi
          · rw [if_neg h1]
            by_cases h2 : (t.acceptPrefix (chars "<<")).snd = true
            · rw [if_pos h2]; dsimp only; rw [if_pos rfl]
              obtain ⟨o, oi⟩ := ok_acceptPrefix t ht (chars "<<") (by decide)
              exact emitCase _ _ o oi
            · rw [if_neg h2]
              split
              · obtain ⟨o, oi⟩ := ok_acceptPrefix t ht (chars ">>") (by decide)
                exact emitCase _ _ o oi
              · split
                · obtain ⟨o, oi⟩ := ok_accept t ht ['('] (by decide)
                  exact emitCase _ _ o oi
                · split
                  · obtain ⟨o, oi⟩ := ok_accept t ht [')'] (by decide)
                    exact emitCase _ _ o oi
                  · exact ⟨ht, rfl⟩
    · rw [if_neg hlt]; exact ⟨h, rfl⟩

theorem post_lexExpression (s : Scan) (h : Ok s) : Post s (lexExpression s) := post_lexExpressionLoop _ s h

theorem post_lexOpcodeIndex (s : Scan) (h : Ok s) : Post s (lexOpcodeIndex s) := by
  unfold lexOpcodeIndex
  simp only []
  apply Post.of_step (show s.ignore.input = s.input from rfl)
  apply Post.bind (post_ignoreRun _ (ok0_ignore s h.ok0) [' '] (by decide))
  intro s1 h1 _
  split
  · obtain ⟨o, oi⟩ := ok_accept s1 h1 (chars "xXyYsS") (by decide)
    exact Post.pure (ok_emit _ o _) oi
  · exact ok_err s1 h1 "Invalid index"

theorem post_optIndex (s : Scan) (h : Ok s) :
    Post s (if (s.accept [',']).snd = true then lexOpcodeIndex (s.accept [',']).fst else pure s) := by
  split
  · obtain ⟨o, oi⟩ := ok_accept s h [','] (by decide)
    exact Post.of_step oi (post_lexOpcodeIndex _ o)
  · exact Post.pure h rfl

theorem ok_bracket (s : Scan) (h : Ok s) (c1 c2 : Char) (t1 t2 : TokTy) (h1 : c1 ≠ '\n') (h2 : c2 ≠ '\n') :
    Ok (if (s.peek == c1) = true then (s.next).1.emit t1 else if (s.peek == c2) = true then (s.next).1.emit t2 else s) ∧
    (if (s.peek == c1) = true then (s.next).1.emit t1 else if (s.peek == c2) = true then (s.next).1.emit t2 else s).input = s.input := by
  split
  · rename_i hc
    have hp : s.peek ≠ '\n' := by
      intro hx; rw [hx] at hc; apply h1
      have : '\n' = c1 := by simpa using hc
      exact this.symm
    obtain ⟨o, oi⟩ := ok_next s h hp
    exact ⟨ok_emit _ o _, oi⟩
  · split
    · rename_i hc
      have hp : s.peek ≠ '\n' := by
        intro hx; rw [hx] at hc; apply h2
        have : '\n' = c2 := by simpa using hc
        exact this.symm
      obtain ⟨o, oi⟩ := ok_next s h hp
      exact ⟨ok_emit _ o _, oi⟩
    · exact ⟨h, rfl⟩

theorem post_lexOperand (s : Scan) (h : Ok s) : Post s (lexOperand s) := by
  unfold lexOperand
  simp only []
  have tail : ∀ (t : Scan), Ok t → Post t (do
      let s ← (if (t.peek == ')') = true then (t.next).1.emit TokTy.RPAREN
               else if (t.peek == ']') = true then (t.next).1.emit TokTy.RBRAKET else t).ignoreRun [' ']
      if (s.accept [',']).snd = true then lexOpcodeIndex (s.accept [',']).fst else pure s) := by
    intro t ht
    obtain ⟨o, oi⟩ := ok_bracket t ht ')' ']' .RPAREN .RBRAKET (by decide) (by decide)
    apply Post.of_step oi
    apply Post.bind (post_ignoreRun _ o [' '] (by decide))
    intro s1 h1 _
    exact post_optIndex s1 h1
  have hopen : Ok (if (s.peek == '#') = true then (s.next).1.emit TokTy.SHARP
      else if (s.peek == '(') = true then (s.next).1.emit TokTy.LPAREN
      else if (s.peek == '[') = true then (s.next).1.emit TokTy.LBRAKET else s) ∧
      (if (s.peek == '#') = true then (s.next).1.emit TokTy.SHARP
      else if (s.peek == '(') = true then (s.next).1.emit TokTy.LPAREN
      else if (s.peek == '[') = true then (s.next).1.emit TokTy.LBRAKET else s).input = s.input := by
    split
    · rename_i hc
      have hp : s.peek ≠ '\n' := by intro hx; rw [hx] at hc; simp at hc
      obtain ⟨o, oi⟩ := ok_next s h hp
      exact ⟨ok_emit _ o _, oi⟩
    · exact ok_bracket s h '(' '[' .LPAREN .LBRAKET (by decide) (by decide)
  apply Post.of_step hopen.2
  apply Post.bind (post_ignoreRun _ hopen.1 [' '] (by decide))
  intro s1 h1 _
  apply Post.bind (post_lexExpression s1 h1)
  intro s2 h2 _
  apply Post.bind (post_ignoreRun s2 h2 [' '] (by decide))
  intro s3 h3 _
  split
  · obtain ⟨o, oi⟩ := ok_accept s3 h3 [','] (by decide)
    apply Post.of_step oi
    apply Post.bind (post_lexOpcodeIndex _ o)
    intro s4 h4 _
    exact tail s4 h4
  · apply Post.bind (Post.pure h3 rfl)
    intro s4 h4 _
    exact tail s4 h4

theorem post_lexOpcodeSize (s : Scan) (h : Ok s) : Post s (lexOpcodeSize s) := by
  unfold lexOpcodeSize
  simp only []
  have hi := ok0_ignore s h.ok0
  split
  · obtain ⟨o, oi⟩ := ok_accept _ hi (chars "bBwWlL") (by decide)
    apply Post.of_step (show ((s.ignore.accept (chars "bBwWlL")).1.emit .OPCODE_SIZE).input = s.input from oi)
    apply Post.bind (post_ignoreRun _ (ok_emit _ o _) [' '] (by decide))
    intro s1 h1 _
    exact post_lexOperand s1 h1
  · exact ok_err _ hi "Invalid Size Specifier"

theorem post_opTail (s : Scan) (h : Ok s) : Post s (if (s.accept ['.']).snd = true then do
      let s ← lexOpcodeSize (s.accept ['.']).fst
      let s ← s.ignoreRun [' ']
      lexOperand s
    else do
      let s ← pure s
      let s ← s.ignoreRun [' ']
      lexOperand s) := by
  split
  · obtain ⟨o, oi⟩ := ok_accept s h ['.'] (by decide)
    apply Post.of_step oi
    apply Post.bind (post_lexOpcodeSize _ o)
    intro s1 h1 _
    apply Post.bind (post_ignoreRun s1 h1 [' '] (by decide))
    intro s2 h2 _
    exact post_lexOperand s2 h2
  · apply Post.bind (Post.pure h rfl)
    intro s1 h1 _
    apply Post.bind (post_ignoreRun s1 h1 [' '] (by decide))
    intro s2 h2 _
    exact post_lexOperand s2 h2


/-- no mnemonic of the configuration contains a newline (true of the generated tables: see `Props/C17`) -/
def CfgOK (cfg : ScanCfg) : Prop := ∀ m ∈ cfg.mnemonics, ∀ c ∈ m.toList, c ≠ '\n'

theorem asciiLower_nl (l : List Char) (h : ∀ c ∈ (asciiLower (String.ofList l)).toList, c ≠ '\n') : ∀ c ∈ l, c ≠ '\n' := by
  intro c hc hx
  subst hx
  apply h '\n' _ rfl
  unfold asciiLower
  simp only [String.toList_ofList, List.mem_map]
  exact ⟨'\n', hc, by decide⟩

theorem step_acceptOpcode (cfg : ScanCfg) (hcfg : CfgOK cfg) (s : Scan) (hsp : s.start ≤ s.pos) : Step s (acceptOpcode cfg s).1 := by
  unfold acceptOpcode
  simp only []
  split
  · rename_i hc
    simp only [Bool.and_eq_true] at hc
    have hm : asciiLower (s.slice s.start (s.pos + 3)) ∈ cfg.mnemonics := by simpa using hc.1
    have hno := hcfg _ hm
    unfold Scan.slice at hno
    have hall := asciiLower_nl _ hno
    refine ⟨rfl, by simp, rfl, rfl, rfl, rfl, rfl, ?_⟩
    intro k hk1 hk2 hx
    simp only at hk2
    have hget : s.input.toList[k]? = some '\n' := by simpa using hx
    exact hall '\n' (take_drop_getElem s.input.toList s.start (s.pos + 3 - s.start) k (by omega) (by omega) '\n' hget) rfl
  · exact Step.refl s

theorem ok_setpos {s s3 : Scan} (h : Ok s) (st : Step s s3) : Ok ({ s3 with pos := s.pos } : Scan) := by
  refine ⟨⟨?_, ?_⟩, ?_, ?_, ?_⟩
  · show s3.curLine = countNl s3.input s.pos; rw [st.line, st.input]; exact h.inv.1
  · show s3.lineOffset = afterLastNl s3.input s.pos; rw [st.off, st.input]; exact h.inv.2
  · show ∀ t ∈ s3.toks.toList, TokOK s3.input t; rw [st.toks, st.input]; exact h.toks
  · show s3.start ≤ s.pos; rw [st.start]; exact h.sp
  · show NoNl s3.input s3.start s.pos; rw [st.start, st.input]; exact h.nonl

theorem post_lexOpcode (cfg : ScanCfg) (s : Scan) (h : Ok s) : Post s (lexOpcode cfg s) := by
  unfold lexOpcode
  simp only []
  have fin : ∀ (s3 : Scan), Step s s3 → Post s (
      if (s3.peek == '\n' || s3.peek == '\x00') = true then
        pure (({ s3 with pos := s.pos } : Scan).emit TokTy.OPCODE_NAKED)
      else do
        let s ← pure (({ s3 with pos := s.pos } : Scan).emit TokTy.OPCODE)
        if (s.accept ['.']).snd = true then do
            let s ← lexOpcodeSize (s.accept ['.']).fst
            let s ← s.ignoreRun [' ']
            lexOperand s
          else do
            let s ← pure s
            let s ← s.ignoreRun [' ']
            lexOperand s) := by
    intro s3 st
    have o := ok_emit _ (ok_setpos h st)
    have oi : ∀ ty, ((({ s3 with pos := s.pos } : Scan).emit ty)).input = s.input := fun _ => st.input
    split
    · exact Post.pure (o _) (oi _)
    · apply Post.bind (Post.pure (o .OPCODE) (oi _))
      intro s4 h4 _
      exact post_opTail s4 h4
  split
  · -- the mnemonic may stand alone: look ahead to the end of the line, then come back
    cases hr : s.acceptRun [' ', '\t'] with
    | error e =>
      obtain ⟨e, s2⟩ := e
      have := post_acceptRun s h [' ', '\t'] false (by decide)
      rw [hr] at this; exact this
    | ok s1 =>
      have st1 := step_acceptRun s s1 _ false (by decide) hr
      rw [ok_bind]
      have st2 : Step s (s1.accept [';']).1 := st1.trans (step_accept s1 [';'] false (acceptTest_nonl s1 _ false (by decide)))
      split
      · cases hr3 : (s1.accept [';']).1.acceptRun ['\n', '\x00'] true with
        | error e =>
          obtain ⟨e, s2⟩ := e
          have := post_acceptRun _ (ok_step h st2) ['\n', '\x00'] true (by decide)
          rw [hr3] at this
          exact Post.of_step st2.input this
        | ok s3 =>
          rw [ok_bind]
          exact fin s3 (st2.trans (step_acceptRun _ s3 _ true (by decide) hr3))
      · rw [pure_bind']
        exact fin _ st2
  · apply Post.bind (Post.pure (ok_emit s h .OPCODE) rfl)
    intro s1 h1 _
    exact post_opTail s1 h1

theorem Post.err {s s' : Scan} {e : Err} (h : ErrOK s.input e) : Post s (.error (e, s')) := h

theorem ok0_accept (s : Scan) (h : Ok0 s) (cands : List Char) (negate : Bool) :
    Ok0 (s.accept cands negate).1 ∧ (s.accept cands negate).1.input = s.input := by
  unfold Scan.accept
  split
  · exact ⟨ok0_next s h, next_input s⟩
  · exact ⟨h, rfl⟩

theorem ok0_acceptRunAux (cands : List Char) (negate : Bool) : ∀ (n : Nat) (s s' : Scan), Ok0 s →
    acceptRunAux cands negate n s = some s' → Ok0 s' ∧ s'.input = s.input := by
  intro n
  induction n with
  | zero =>
    intro s s' h0 h
    unfold acceptRunAux at h
    split at h
    · cases h
    · cases h; exact ⟨h0, rfl⟩
  | succ n ih =>
    intro s s' h0 h
    unfold acceptRunAux at h
    simp only at h
    split at h
    · obtain ⟨a, b⟩ := ok0_accept s h0 cands negate
      obtain ⟨c, d⟩ := ih _ _ a h
      exact ⟨c, by rw [d, b]⟩
    · cases h; exact ⟨h0, rfl⟩

theorem post_lexInitial (cfg : ScanCfg) (hcfg : CfgOK cfg) (s : Scan) (h0 : Ok0 s) : Post s (lexInitial cfg s) := by
  unfold lexInitial
  simp only []
  obtain ⟨s', hs1, _, _⟩ := acceptRun_ok s [' ', '\t', '\n'] false he_ws
  have hr : s.ignoreRun [' ', '\t', '\n'] = .ok s'.ignore := by unfold Scan.ignoreRun; rw [hs1]
  rw [hr, ok_bind]
  have hs' : acceptRunAux [' ', '\t', '\n'] false (s.input.size - s.pos + 1) s = some s' := by
    unfold Scan.acceptRun at hs1
    split at hs1
    · rename_i s2 hx; cases hs1; exact hx
    · cases hs1
  obtain ⟨a0, ai⟩ := ok0_acceptRunAux _ _ _ _ _ h0 hs'
  have hstop := acceptRunAux_stops _ _ _ _ _ hs'
  have ht : Ok s'.ignore := ok0_ignore s' a0
  have hti : s'.ignore.input = s.input := ai
  apply Post.of_step hti
  have hpk : s'.ignore.peek ≠ '\n' := by
    intro hx
    have : s'.peek = '\n' := hx
    unfold Scan.acceptTest at hstop
    rw [this] at hstop
    simp at hstop
  generalize s'.ignore = t at ht hpk ⊢
  by_cases ha : (t.accept [';']).snd = true
  · rw [if_pos ha]
    obtain ⟨o, oi⟩ := ok_accept t ht [';'] (by decide)
    cases hl : lineCommentLoop (t.input.size - t.pos + 2) (t.accept [';']).1 with
    | error e =>
      obtain ⟨e, s2⟩ := e
      have := lineComment_terminates (t.input.size - t.pos + 2) (t.accept [';']).1 (by rw [oi]; have := (le_accept t [';'] false).pos; omega)
      obtain ⟨s', hs', _⟩ := this
      rw [hl] at hs'; cases hs'
    | ok s2 =>
      obtain ⟨a1, a2⟩ := ok0_lineComment _ _ _ o.ok0 hl
      rw [ok_bind]
      exact Post.pure (ok0_emit_comment s2 a1) (by show s2.input = t.input; rw [a2, oi])
  rw [if_neg ha]; clear ha
  by_cases ha : (t.accept digitChars).snd = true
  · rw [if_pos ha]
    obtain ⟨o, oi⟩ := ok_accept t ht digitChars (by decide)
    have hst := accept_start_lt t ht digitChars nul_digit ha
    generalize (t.accept digitChars).1 = u at o oi hst ⊢
    exact Post.of_step oi (post_lexNumber u o hst)
  rw [if_neg ha]; clear ha
  by_cases ha : (t.accept ['+', '-', '&']).snd = true
  · rw [if_pos ha]
    obtain ⟨o, oi⟩ := ok_accept t ht ['+', '-', '&'] (by decide)
    exact Post.pure (ok_emit _ o _) oi
  rw [if_neg ha]; clear ha
  by_cases ha : (t.acceptPrefix ['=', '=']).snd = true
  · rw [if_pos ha]
    obtain ⟨o, oi⟩ := ok_acceptPrefix t ht ['=', '='] (by decide)
    exact Post.pure (ok_emit _ o _) oi
  rw [if_neg ha]; clear ha
  by_cases ha : (t.acceptPrefix ['!', '=']).snd = true
  · rw [if_pos ha]
    obtain ⟨o, oi⟩ := ok_acceptPrefix t ht ['!', '='] (by decide)
    exact Post.pure (ok_emit _ o _) oi
  rw [if_neg ha]; clear ha
  by_cases ha : (t.acceptPrefix ['>', '>']).snd = true
  · rw [if_pos ha]
    obtain ⟨o, oi⟩ := ok_acceptPrefix t ht ['>', '>'] (by decide)
    exact Post.pure (ok_emit _ o _) oi
  rw [if_neg ha]; clear ha
  by_cases ha : (t.acceptPrefix ['<', '<']).snd = true
  · rw [if_pos ha]
    obtain ⟨o, oi⟩ := ok_acceptPrefix t ht ['<', '<'] (by decide)
    exact Post.pure (ok_emit _ o _) oi
  rw [if_neg ha]; clear ha
  by_cases ha : (t.acceptPrefix ['>']).snd = true
  · rw [if_pos ha]
    obtain ⟨o, oi⟩ := ok_acceptPrefix t ht ['>'] (by decide)
    exact Post.pure (ok_emit _ o _) oi
  rw [if_neg ha]; clear ha
  by_cases ha : (t.acceptPrefix ['<']).snd = true
  · rw [if_pos ha]
    obtain ⟨o, oi⟩ := ok_acceptPrefix t ht ['<'] (by decide)
    exact Post.pure (ok_emit _ o _) oi
  rw [if_neg ha]; clear ha
  by_cases ha : (t.accept letterChars).snd = true
  · rw [if_pos ha]
    obtain ⟨o, oi⟩ := ok_accept t ht letterChars (by decide)
    have hst := accept_start_lt t ht letterChars nul_letter ha
    have ob := ok_backup _ o hst
    have obi : (t.accept letterChars).1.backup.input = t.input := oi
    generalize (t.accept letterChars).1.backup = u at ob obi ⊢
    split
    · have st := step_acceptOpcode cfg hcfg u ob.sp
      exact Post.of_step (by rw [st.input, obi]) (post_lexOpcode cfg _ (ok_step ob st))
    · exact Post.of_step obi (post_lexIdentifier u ob)
  rw [if_neg ha]; clear ha
  by_cases ha : (t.accept ['.']).snd = true
  · rw [if_pos ha]
    obtain ⟨o, oi⟩ := ok_accept t ht ['.'] (by decide)
    exact Post.of_step oi (post_lexKeyword cfg _ o)
  rw [if_neg ha]; clear ha
  by_cases ha : (t.accept [',']).snd = true
  · rw [if_pos ha]
    obtain ⟨o, oi⟩ := ok_accept t ht [','] (by decide)
    exact Post.pure (ok_emit _ o _) oi
  rw [if_neg ha]; clear ha
  by_cases ha : (t.acceptPrefix [':', '=']).snd = true
  · rw [if_pos ha]
    obtain ⟨o, oi⟩ := ok_acceptPrefix t ht [':', '='] (by decide)
    exact Post.pure (ok_emit _ o _) oi
  rw [if_neg ha]; clear ha
  by_cases ha : (t.acceptPrefix ['@', '=']).snd = true
  · rw [if_pos ha]
    obtain ⟨o, oi⟩ := ok_acceptPrefix t ht ['@', '='] (by decide)
    exact Post.pure (ok_emit _ o _) oi
  rw [if_neg ha]; clear ha
  by_cases ha : (t.accept ['*']).snd = true
  · rw [if_pos ha]
    obtain ⟨o, oi⟩ := ok_accept t ht ['*'] (by decide)
    generalize (t.accept ['*']).1 = u at o oi ⊢
    obtain ⟨o2, oi2⟩ := ok_accept u o ['='] (by decide)
    split
    · exact Post.pure (ok_emit _ o2 _) (by rw [emit_input, oi2, oi])
    · exact Post.pure (ok_emit _ o _) (by rw [emit_input, oi])
  rw [if_neg ha]; clear ha
  by_cases ha : (t.accept ['\'']).snd = true
  · rw [if_pos ha]
    obtain ⟨o, oi⟩ := ok_accept t ht ['\''] (by decide)
    exact Post.of_step oi (post_lexQuotedString _ o)
  rw [if_neg ha]; clear ha
  by_cases ha : (t.accept ['(']).snd = true
  · rw [if_pos ha]
    obtain ⟨o, oi⟩ := ok_accept t ht ['('] (by decide)
    exact Post.pure (ok_emit _ o _) oi
  rw [if_neg ha]; clear ha
  by_cases ha : (t.accept [')']).snd = true
  · rw [if_pos ha]
    obtain ⟨o, oi⟩ := ok_accept t ht [')'] (by decide)
    exact Post.pure (ok_emit _ o _) oi
  rw [if_neg ha]; clear ha
  by_cases ha : (t.accept ['[']).snd = true
  · rw [if_pos ha]
    obtain ⟨o, oi⟩ := ok_accept t ht ['['] (by decide)
    exact Post.pure (ok_emit _ o _) oi
  rw [if_neg ha]; clear ha
  by_cases ha : (t.accept [']']).snd = true
  · rw [if_pos ha]
    obtain ⟨o, oi⟩ := ok_accept t ht [']'] (by decide)
    exact Post.pure (ok_emit _ o _) oi
  rw [if_neg ha]; clear ha
  by_cases ha : (t.accept ['{']).snd = true
  · rw [if_pos ha]
    obtain ⟨o, oi⟩ := ok_accept t ht ['{'] (by decide)
    generalize (t.accept ['{']).1 = u at o oi ⊢
    obtain ⟨o2, oi2⟩ := ok_accept u o ['{'] (by decide)
    split
    · exact Post.pure (ok_emit _ o2 _) (by rw [emit_input, oi2, oi])
    · exact Post.pure (ok_emit _ o _) (by rw [emit_input, oi])
  rw [if_neg ha]; clear ha
  by_cases ha : (t.accept ['}']).snd = true
  · rw [if_pos ha]
    obtain ⟨o, oi⟩ := ok_accept t ht ['}'] (by decide)
    generalize (t.accept ['}']).1 = u at o oi ⊢
    obtain ⟨o2, oi2⟩ := ok_accept u o ['}'] (by decide)
    split
    · exact Post.pure (ok_emit _ o2 _) (by rw [emit_input, oi2, oi])
    · exact Post.pure (ok_emit _ o _) (by rw [emit_input, oi])
  rw [if_neg ha]; clear ha
  by_cases ha : (t.accept ['=']).snd = true
  · rw [if_pos ha]
    obtain ⟨o, oi⟩ := ok_accept t ht ['='] (by decide)
    exact Post.pure (ok_emit _ o _) oi
  rw [if_neg ha]; clear ha
  by_cases ha : (t.acceptPrefix ['/', '*']).snd = true
  · rw [if_pos ha]
    obtain ⟨o, oi⟩ := ok_acceptPrefix t ht ['/', '*'] (by decide)
    have hpe := ok_err _ o "Unterminated Comment"
    have hb := ok0_blockComment ((t.acceptPrefix ['/', '*']).1.err "Unterminated Comment") (t.input.size - t.pos + 2) _ o.ok0
    cases hl : blockCommentLoop ((t.acceptPrefix ['/', '*']).1.err "Unterminated Comment") (t.input.size - t.pos + 2) (t.acceptPrefix ['/', '*']).1 with
    | error e =>
      obtain ⟨e, s2⟩ := e
      rw [hl] at hb
      show ErrOK t.input e
      rcases hb with rfl | rfl
      · rw [← oi]; exact hpe
      · trivial
    | ok s2 =>
      rw [hl] at hb
      rw [ok_bind]
      exact Post.pure (ok0_emit_comment s2 hb.1) (by show s2.input = t.input; rw [hb.2, oi])
  rw [if_neg ha]; clear ha
  by_cases hn : ((t.next).2 != none) = true
  · rw [if_pos hn]
    obtain ⟨o, oi⟩ := ok_next t ht hpk
    apply Post.err
    rw [← oi]
    exact ok_err _ o _
  · rw [if_neg hn]
    have hnone : (t.next).2 = none := by
      cases hx : (t.next).2 with
      | none => rfl
      | some c => rw [hx] at hn; simp at hn
    have hge := (next_some_iff t).mp hnone
    show Post t (pure (t.next).1)
    rw [(next_pos_ge t hge).1]
    exact Post.pure ht rfl

def LoopPost (input : Array Char) (r : Except (Err × Scan) Scan) : Prop :=
  match r with
  | .ok s' => Ok s' ∧ s'.input = input
  | .error (e, _) => ErrOK input e

theorem post_scanLoop (cfg : ScanCfg) (hcfg : CfgOK cfg) (input : Array Char) : ∀ (n : Nat) (s : Scan), Ok s → s.input = input →
    LoopPost input (scanLoop cfg .initial n s) := by
  intro n
  induction n with
  | zero =>
    intro s h hi
    unfold scanLoop
    by_cases hlt : s.pos < s.input.size
    · rw [if_pos hlt]; trivial
    · rw [if_neg hlt]; exact ⟨h, hi⟩
  | succ n ih =>
    intro s h hi
    unfold scanLoop
    by_cases hlt : s.pos < s.input.size
    · rw [if_pos hlt]
      have hp := post_lexInitial cfg hcfg s h.ok0
      have hg := progI_lexInitial cfg s
      show LoopPost input (match lexInitial cfg s with
        | .error e => .error e
        | .ok s' => if (s'.pos == s.pos && s'.toks.size == s.toks.size) = true then
            .error (((s'.next).1).err ("Invalid Input " ++ ((s'.next).1).slice ((s'.next).1).start ((s'.next).1).input.size), (s'.next).1)
          else scanLoop cfg .initial n s')
      cases hr : lexInitial cfg s with
      | error e =>
        obtain ⟨e, s2⟩ := e
        rw [hr] at hp
        show ErrOK input e
        rw [← hi]; exact hp
      | ok s1 =>
        rw [hr] at hp hg
        have hp1 : Ok s1 ∧ s1.input = s.input := hp
        have hg1 : Le s s1 ∧ (s1.pos = s.pos → s1.toks.size = s.toks.size ∧ ¬ s1.pos < s1.input.size) := hg
        simp only
        by_cases hnp : (s1.pos == s.pos && s1.toks.size == s.toks.size) = true
        · exfalso
          have hpos : s1.pos = s.pos := by
            simp only [Bool.and_eq_true, beq_iff_eq] at hnp; exact hnp.1
          have := (hg1.2 hpos).2
          rw [hpos, hp1.2] at this
          exact this hlt
        · rw [if_neg hnp]
          exact ih s1 hp1.1 (by rw [hp1.2, hi])
    · rw [if_neg hlt]; exact ⟨h, hi⟩

theorem scan_ok (cfg : ScanCfg) (st : ScanState) (file : Nat) (input : List Char) (s : Scan)
    (hr : scanLoop cfg st (input.length + 1) { input := input.toArray, file := file } = .ok s) :
    (scan cfg st file input).error = none ∧ (scan cfg st file input).toks = ((s.emit .EOF).handleLine).toks := by
  unfold scan
  simp only []
  rw [hr]
  exact ⟨rfl, rfl⟩

theorem scan_err (cfg : ScanCfg) (st : ScanState) (file : Nat) (input : List Char) (e : Err) (s : Scan)
    (hr : scanLoop cfg st (input.length + 1) { input := input.toArray, file := file } = .error (e, s)) :
    (scan cfg st file input).error = some e ∨ (scan cfg st file input).error = some .outOfFuel := by
  unfold scan
  simp only []
  rw [hr]
  split
  · rename_i heq; cases heq
  · right; rfl
  · rename_i e' s' _ heq
    cases heq
    split
    · left; rfl
    · right; rfl

/-- **every token and every lexical error of a whole scan carries a true position** -/
theorem scan_positions (cfg : ScanCfg) (hcfg : CfgOK cfg) (file : Nat) (input : List Char) :
    ((scan cfg .initial file input).error = none → ∀ t ∈ (scan cfg .initial file input).toks.toList, TokOK input.toArray t) ∧
    (∀ msg l c, (scan cfg .initial file input).error = some (.scan msg l c) →
      ∃ i, l = ((truePos input.toArray i).1 : Int) ∧ c = (truePos input.toArray i).2) := by
  have h0 : Ok ({ input := input.toArray, file := file } : Scan) :=
    ⟨init_inv _ _, by intro t ht; simp at ht, Nat.le_refl _, NoNl.empty _ _⟩
  have hl := post_scanLoop cfg hcfg input.toArray (input.length + 1) _ h0 rfl
  cases hr : scanLoop cfg .initial (input.length + 1) { input := input.toArray, file := file } with
  | ok s =>
    rw [hr] at hl
    have hs : Ok s ∧ s.input = input.toArray := hl
    obtain ⟨e1, e2⟩ := scan_ok cfg .initial file input s hr
    refine ⟨fun _ => ?_, fun msg l c h => (by rw [e1] at h; cases h)⟩
    have := (ok_emit s hs.1 .EOF).toks
    rw [emit_input, hs.2] at this
    intro t ht
    rw [e2, ScanT.handleLine_toks] at ht
    exact this t ht
  | error er =>
    obtain ⟨e, s⟩ := er
    rw [hr] at hl
    have he : ErrOK input.toArray e := hl
    rcases scan_err cfg .initial file input e s hr with h | h
    · refine ⟨fun hn => (by rw [h] at hn; cases hn), fun msg l c hx => ?_⟩
      rw [h] at hx
      simp only [Option.some.injEq] at hx
      subst hx
      exact he
    · exact ⟨fun hn => (by rw [h] at hn; cases hn), fun msg l c hx => (by rw [h] at hx; cases hx)⟩

end A816.ScanP
