import A816.Model.Nodes
/-!
# What the passes do to the label and symbol tables of the current scope (helper lemmas for C02)

For node lists without scope markers every pass stays in one scope; these lemmas follow the `labels` / `symbols`
association lists of that scope through `pcAfter` (label pass and symbol pass) and `emitNode`.
-/
namespace A816.LabelCheck
open A816

def isMarker : Node → Bool
  | .scopeEnter => true
  | .scopePop => true
  | _ => false

/-- names whose entry in `labels` a node writes -/
def labelNames : Node → List String
  | .label n => [n]
  | .binary _ b => [b]
  | _ => []

/-- names whose entry in `symbols` a node may write -/
def symNames : Node → List String
  | .label n => [n]
  | .binary _ b => [b, b ++ "__size"]
  | .symbol n _ => [n]
  | .argSymbol n _ => [n]
  | .symbolConst n _ => [n]
  | _ => []

theorem alookup_ainsert_ne {β} (k k' : String) (v : β) (l : List (String × β)) (h : k' ≠ k) :
    alookup k' (ainsert k v l) = alookup k' l := by
  induction l with
  | nil =>
    simp only [ainsert, alookup]
    have : (k == k') = false := by simpa using fun e => h e.symm
    simp [this]
  | cons hd tl ih =>
    obtain ⟨a, b⟩ := hd
    simp only [ainsert]
    by_cases hak : (a == k) = true
    · have e : a = k := by simpa using hak
      subst e
      simp only [hak, ↓reduceIte, alookup]
      have : (a == k') = false := by simpa using fun e => h e.symm
      simp [this]
    · simp only [hak, Bool.false_eq_true, ↓reduceIte, alookup]
      by_cases hak' : (a == k') = true
      · simp [hak']
      · simp only [hak', Bool.false_eq_true, ↓reduceIte]; exact ih

theorem alookup_ainsert_eq {β} (k : String) (v : β) (l : List (String × β)) :
    alookup k (ainsert k v l) = some v := by
  induction l with
  | nil => simp [ainsert, alookup]
  | cons hd tl ih =>
    obtain ⟨a, b⟩ := hd
    simp only [ainsert]
    by_cases hak : (a == k) = true
    · simp [hak, alookup]
    · simp only [hak, Bool.false_eq_true, ↓reduceIte, alookup]; exact ih

theorem cur_modifyCur (r : Resolver) (f : ScopeRec → ScopeRec) (h : r.current < r.scopes.size) :
    (r.modifyCur f).cur = f r.cur := by
  unfold Resolver.modifyCur Resolver.cur Resolver.scopeAt
  simp only [Array.getD_eq_getD_getElem?, Array.getElem?_modify, h, Array.getElem?_eq_getElem, ↓reduceIte,
    Option.map_some, Option.getD_some]

theorem modifyCur_shape (r : Resolver) (f : ScopeRec → ScopeRec) :
    (r.modifyCur f).current = r.current ∧ (r.modifyCur f).scopes.size = r.scopes.size ∧ (r.modifyCur f).reloc = r.reloc := by
  unfold Resolver.modifyCur; simp

/-- the part of a resolver the lemmas speak about: current scope index, size of the scope array, and the three tables
    of the current scope -/
structure Keeps (r r' : Resolver) (labs syms : List String) : Prop where
  cur : r'.current = r.current
  size : r'.scopes.size = r.scopes.size
  code : r'.cur.codeSymbols = r.cur.codeSymbols
  parent : r'.cur.parent = r.cur.parent
  reloc : r'.reloc = r.reloc
  labels : ∀ x, x ∉ labs → alookup x r'.cur.labels = alookup x r.cur.labels
  symbols : ∀ x, x ∉ syms → alookup x r'.cur.symbols = alookup x r.cur.symbols

theorem Keeps.refl (r : Resolver) (a b : List String) : Keeps r r a b :=
  ⟨rfl, rfl, rfl, rfl, rfl, fun _ _ => rfl, fun _ _ => rfl⟩

theorem Keeps.trans {r1 r2 r3 : Resolver} {a b c d : List String} (h1 : Keeps r1 r2 a b) (h2 : Keeps r2 r3 c d) :
    Keeps r1 r3 (a ++ c) (b ++ d) :=
  ⟨by rw [h2.cur, h1.cur], by rw [h2.size, h1.size], by rw [h2.code, h1.code], by rw [h2.parent, h1.parent], by rw [h2.reloc, h1.reloc],
   fun x hx => by rw [h2.labels x (fun h => hx (List.mem_append_right _ h)), h1.labels x (fun h => hx (List.mem_append_left _ h))],
   fun x hx => by rw [h2.symbols x (fun h => hx (List.mem_append_right _ h)), h1.symbols x (fun h => hx (List.mem_append_left _ h))]⟩

theorem Keeps.mono {r r' : Resolver} {a b a' b' : List String} (h : Keeps r r' a b) (ha : ∀ x, x ∈ a → x ∈ a') (hb : ∀ x, x ∈ b → x ∈ b') :
    Keeps r r' a' b' :=
  ⟨h.cur, h.size, h.code, h.parent, h.reloc, fun x hx => h.labels x (fun hh => hx (ha x hh)), fun x hx => h.symbols x (fun hh => hx (hb x hh))⟩

theorem addSymbol_keeps (r : Resolver) (name : String) (v : Int) (h : r.current < r.scopes.size) :
    Keeps r (r.addSymbol name v) [] [name] ∧ alookup name (r.addSymbol name v).cur.symbols = some v := by
  unfold Resolver.addSymbol
  obtain ⟨h1, h2, h3⟩ := modifyCur_shape r (fun s => { s with symbols := ainsert name v s.symbols })
  have hc := cur_modifyCur r (fun s => { s with symbols := ainsert name v s.symbols }) h
  refine ⟨⟨h1, h2, by rw [hc], by rw [hc], h3, fun x _ => by rw [hc], fun x hx => ?_⟩, by rw [hc]; exact alookup_ainsert_eq _ _ _⟩
  rw [hc]
  exact alookup_ainsert_ne _ _ _ _ (by simpa using hx)

theorem addLabel_keeps (r : Resolver) (name : String) (v : Int) (h : r.current < r.scopes.size) :
    Keeps r (r.addLabel name v) [name] [name] ∧ alookup name (r.addLabel name v).cur.labels = some v ∧
      alookup name (r.addLabel name v).cur.symbols = some v := by
  unfold Resolver.addLabel
  obtain ⟨h1, h2, h3⟩ := modifyCur_shape r (fun s => { s with labels := ainsert name v s.labels, symbols := ainsert name v s.symbols })
  have hc := cur_modifyCur r (fun s => { s with labels := ainsert name v s.labels, symbols := ainsert name v s.symbols }) h
  refine ⟨⟨h1, h2, by rw [hc], by rw [hc], h3, fun x hx => ?_, fun x hx => ?_⟩, by rw [hc]; exact alookup_ainsert_eq _ _ _,
    by rw [hc]; exact alookup_ainsert_eq _ _ _⟩
  · rw [hc]; exact alookup_ainsert_ne _ _ _ _ (by simpa using hx)
  · rw [hc]; exact alookup_ainsert_ne _ _ _ _ (by simpa using hx)

theorem map_ok {a : Except Err Address} {r r' : Resolver} {pc' : Address}
    (h : a.map (fun x => (r, x)) = .ok (r', pc')) : r' = r := by
  cases a with
  | error e => simp [Except.map] at h
  | ok x => simp only [Except.map, Except.ok.injEq, Prod.mk.injEq] at h; exact h.1.symm

/-- `pc_after` of a node that is not a scope marker: stays in the scope, writes only the names it defines -/
theorem pcAfter_keeps (env : Env) (n : Node) (r r' : Resolver) (pc pc' : Address) (hm : isMarker n = false)
    (hc : r.current < r.scopes.size) (h : pcAfter env n r pc = .ok (r', pc')) :
    Keeps r r' (labelNames n) (symNames n) := by
  cases n with
  | label name =>
    simp only [pcAfter, Except.ok.injEq, Prod.mk.injEq] at h
    rw [← h.1]; exact (addLabel_keeps r name _ hc).1
  | symbol name e =>
    unfold pcAfter at h
    cases hv : evalP env r e with
    | error er => simp [hv] at h
    | ok v =>
      simp only [hv, Except.ok.injEq, Prod.mk.injEq] at h
      rw [← h.1]; exact ((addSymbol_keeps r name v hc).1).mono (fun _ hx => by cases hx) (fun _ hx => hx)
  | argSymbol name e =>
    unfold pcAfter at h
    cases hp : r.cur.parent with
    | none => simp [hp] at h
    | some par =>
      simp only [hp] at h
      cases hv : evalP env { r with current := par } e with
      | error er => simp [hv] at h
      | ok v =>
        simp only [hv, Except.ok.injEq, Prod.mk.injEq] at h
        rw [← h.1]; exact ((addSymbol_keeps r name v hc).1).mono (fun _ hx => by cases hx) (fun _ hx => hx)
  | symbolConst name v =>
    simp only [pcAfter, Except.ok.injEq, Prod.mk.injEq] at h
    rw [← h.1]; exact ((addSymbol_keeps r name v hc).1).mono (fun _ hx => by cases hx) (fun _ hx => hx)
  | binary content base =>
    unfold pcAfter at h
    cases ha : addrAdd pc content.length with
    | error er => simp [ha] at h
    | ok a =>
      simp only [ha, Except.ok.injEq, Prod.mk.injEq] at h
      rw [← h.1]
      have k1 := (addLabel_keeps r base pc.logical hc).1
      have hc2 : (r.addLabel base pc.logical).current < (r.addLabel base pc.logical).scopes.size := by rw [k1.cur, k1.size]; exact hc
      have k2 := (addSymbol_keeps (r.addLabel base pc.logical) (base ++ "__size") content.length hc2).1
      exact (k1.trans k2).mono (fun x hx => by simpa [labelNames] using hx) (fun x hx => by simpa [symNames] using hx)
  | scopeEnter => cases hm
  | scopePop => cases hm
  | data w e info =>
    unfold pcAfter at h
    cases ha : addrAdd pc w with
    | error er => simp [ha, Except.map] at h
    | ok a => simp only [ha, Except.map, Except.ok.injEq, Prod.mk.injEq] at h; rw [← h.1]; exact Keeps.refl _ _ _
  | opcode mn size mode index value info =>
    simp only [pcAfter] at h
    split at h
    · cases h
    · split at h
      · cases h
      · rw [map_ok h]; exact Keeps.refl _ _ _
  | codePos e info =>
    simp only [pcAfter] at h
    split at h
    · cases h
    · split at h
      · cases h
      · split at h
        · cases h
        · simp only [Except.ok.injEq, Prod.mk.injEq] at h; rw [← h.1]; exact Keeps.refl _ _ _
  | reloc e info =>
    simp only [pcAfter] at h
    split at h
    · cases h
    · split at h
      · cases h
      · split at h
        · cases h
        · simp only [Except.ok.injEq, Prod.mk.injEq] at h; rw [← h.1]; exact Keeps.refl _ _ _
  | includeIps blocks => simp only [pcAfter, Except.ok.injEq, Prod.mk.injEq] at h; rw [← h.1]; exact Keeps.refl _ _ _
  | table => simp only [pcAfter, Except.ok.injEq, Prod.mk.injEq] at h; rw [← h.1]; exact Keeps.refl _ _ _
  | text s tbl info =>
    unfold pcAfter at h
    cases ht : textBytes s tbl info with
    | error er => simp [ht] at h
    | ok tb =>
      simp only [ht] at h
      cases ha : addrAdd pc tb.length with
      | error er => simp [ha, Except.map] at h
      | ok a => simp only [ha, Except.map, Except.ok.injEq, Prod.mk.injEq] at h; rw [← h.1]; exact Keeps.refl _ _ _
  | ascii s =>
    unfold pcAfter at h
    cases ha : addrAdd pc (asciiBytes s).length with
    | error er => simp [ha, Except.map] at h
    | ok a => simp only [ha, Except.map, Except.ok.injEq, Prod.mk.injEq] at h; rw [← h.1]; exact Keeps.refl _ _ _

def Flat (ns : List Node) : Prop := ∀ n ∈ ns, isMarker n = false

theorem Flat.cons {n : Node} {ns : List Node} (h : Flat (n :: ns)) : isMarker n = false ∧ Flat ns :=
  ⟨h n (by simp), fun m hm => h m (by simp [hm])⟩

theorem Flat.append {a b : List Node} (h : Flat (a ++ b)) : Flat a ∧ Flat b :=
  ⟨fun m hm => h m (by simp [hm]), fun m hm => h m (by simp [hm])⟩

theorem labelNames_sub (n : Node) : ∀ x, x ∈ labelNames n → x ∈ symNames n := by
  intro x hx
  cases n <;> simp [labelNames, symNames] at hx ⊢ <;> simp [hx]

/-- a whole pass over a marker-free list stays in the scope and writes only names the visited nodes define -/
theorem passLoop_keeps (env : Env) (skip : Node → Bool) : ∀ (ns : List Node) (r r' : Resolver) (pc pc' : Address),
    Flat ns → r.current < r.scopes.size → passLoop env skip ns r pc = .ok (r', pc') →
    Keeps r r' ((ns.filter fun n => !skip n).flatMap labelNames) ((ns.filter fun n => !skip n).flatMap symNames) := by
  intro ns
  induction ns with
  | nil =>
    intro r r' pc pc' _ _ h
    simp only [passLoop, Except.ok.injEq, Prod.mk.injEq] at h
    rw [← h.1]; exact Keeps.refl _ _ _
  | cons n ns ih =>
    intro r r' pc pc' hf hc h
    obtain ⟨hm, hf'⟩ := hf.cons
    simp only [passLoop] at h
    by_cases hs : skip n = true
    · simp only [hs, ↓reduceIte] at h
      simpa [List.filter, hs] using ih r r' pc pc' hf' hc h
    · simp only [hs, Bool.false_eq_true, ↓reduceIte] at h
      cases hp : pcAfter env n r pc with
      | error e => simp [hp] at h
      | ok q =>
        obtain ⟨r1, pc1⟩ := q
        simp only [hp] at h
        have k1 := pcAfter_keeps env n r r1 pc pc1 hm hc hp
        have hc1 : r1.current < r1.scopes.size := by rw [k1.cur, k1.size]; exact hc
        have k2 := ih r1 r' pc1 pc' hf' hc1 h
        have hs' : skip n = false := by simpa using hs
        simpa [List.filter, hs'] using k1.trans k2

theorem passLoop_split (env : Env) (skip : Node → Bool) (pre : List Node) (n : Node) (post : List Node) :
    ∀ (r r' : Resolver) (pc pc' : Address), passLoop env skip (pre ++ n :: post) r pc = .ok (r', pc') →
    ∃ r1 pc1, passLoop env skip pre r pc = .ok (r1, pc1) ∧ passLoop env skip (n :: post) r1 pc1 = .ok (r', pc') := by
  induction pre with
  | nil => intro r r' pc pc' h; exact ⟨r, pc, rfl, h⟩
  | cons m ms ih =>
    intro r r' pc pc' h
    simp only [List.cons_append, passLoop] at h ⊢
    by_cases hs : skip m = true
    · simp only [hs, ↓reduceIte] at h ⊢
      exact ih r r' pc pc' h
    · simp only [hs, Bool.false_eq_true, ↓reduceIte] at h ⊢
      cases hp : pcAfter env m r pc with
      | error e => simp [hp] at h
      | ok q =>
        obtain ⟨r1, pc1⟩ := q
        simp only [hp] at h ⊢
        exact ih r1 r' pc1 pc' h

/-- **what the label pass leaves in the tables**: a label whose name no later visited node of the list defines is, at
    the end of the pass, bound in `labels` and in `symbols` to the address the pass reached it at -/
theorem pass1_label (env : Env) (pre : List Node) (name : String) (post : List Node) (r r' : Resolver) (pc pc' : Address)
    (hf : Flat (pre ++ .label name :: post)) (hc : r.current < r.scopes.size)
    (hfresh : name ∉ (post.filter fun n => !Node.isSymbol n).flatMap symNames)
    (h : passLoop env Node.isSymbol (pre ++ .label name :: post) r pc = .ok (r', pc')) :
    ∃ r1 pc1, passLoop env Node.isSymbol pre r pc = .ok (r1, pc1) ∧
      alookup name r'.cur.labels = some (pc1.logical : Int) ∧ alookup name r'.cur.symbols = some (pc1.logical : Int) ∧
      r'.current = r.current ∧ r'.scopes.size = r.scopes.size ∧ r'.cur.codeSymbols = r.cur.codeSymbols ∧ r'.cur.parent = r.cur.parent := by
  obtain ⟨r1, pc1, h1, h2⟩ := passLoop_split env Node.isSymbol pre (.label name) post r r' pc pc' h
  obtain ⟨hfpre, hfrest⟩ := hf.append
  obtain ⟨_, hfpost⟩ := hfrest.cons
  have k0 := passLoop_keeps env Node.isSymbol pre r r1 pc pc1 hfpre hc h1
  have hc1 : r1.current < r1.scopes.size := by rw [k0.cur, k0.size]; exact hc
  simp only [passLoop, Node.isSymbol, Bool.false_eq_true, ↓reduceIte, pcAfter] at h2
  obtain ⟨ka, hl, hs⟩ := addLabel_keeps r1 name pc1.logical hc1
  have hc2 : (r1.addLabel name pc1.logical).current < (r1.addLabel name pc1.logical).scopes.size := by rw [ka.cur, ka.size]; exact hc1
  have k2 := passLoop_keeps env Node.isSymbol post _ r' pc1 pc' hfpost hc2 h2
  refine ⟨r1, pc1, h1, ?_, ?_, ?_, ?_, ?_, ?_⟩
  · rw [k2.labels name (fun hx => hfresh (by
      simp only [List.mem_flatMap] at hx ⊢
      obtain ⟨n, hn, hx⟩ := hx
      exact ⟨n, hn, labelNames_sub n name hx⟩)), hl]
  · rw [k2.symbols name hfresh, hs]
  · rw [k2.cur, ka.cur, k0.cur]
  · rw [k2.size, ka.size, k0.size]
  · rw [k2.code, ka.code, k0.code]
  · rw [k2.parent, ka.parent, k0.parent]

theorem no_labelNames_in_pass2 (ns : List Node) :
    (ns.filter fun n => !Node.isLabelOrBinary n).flatMap labelNames = [] := by
  induction ns with
  | nil => rfl
  | cons n ns ih =>
    cases n <;> simp only [List.filter, Node.isLabelOrBinary, Bool.not_true, Bool.not_false, List.flatMap_cons, labelNames,
      List.nil_append] <;> exact ih

/-- nodes that are not scope markers leave the scope array alone when they are emitted -/
theorem emitNode_scopes (env : Env) (n : Node) (r r' : Resolver) (bs : List Nat) (hm : isMarker n = false)
    (h : emitNode env n r = .ok (r', bs)) : r'.scopes = r.scopes ∧ r'.current = r.current := by
  cases n with
  | scopeEnter => cases hm
  | scopePop => cases hm
  | label name =>
    simp only [emitNode] at h
    cases hc : checkLabel r name r.reloc with
    | error e => simp [hc, Except.map] at h
    | ok u => simp only [hc, Except.map, Except.ok.injEq, Prod.mk.injEq] at h; rw [← h.1]; exact ⟨rfl, rfl⟩
  | binary content base =>
    simp only [emitNode] at h
    cases hc : checkLabel r base r.reloc with
    | error e => simp [hc, Except.map] at h
    | ok u => simp only [hc, Except.map, Except.ok.injEq, Prod.mk.injEq] at h; rw [← h.1]; exact ⟨rfl, rfl⟩
  | symbol name e => simp only [emitNode, Except.ok.injEq, Prod.mk.injEq] at h; rw [← h.1]; exact ⟨rfl, rfl⟩
  | argSymbol name e => simp only [emitNode, Except.ok.injEq, Prod.mk.injEq] at h; rw [← h.1]; exact ⟨rfl, rfl⟩
  | symbolConst name v => simp only [emitNode, Except.ok.injEq, Prod.mk.injEq] at h; rw [← h.1]; exact ⟨rfl, rfl⟩
  | includeIps b => simp only [emitNode, Except.ok.injEq, Prod.mk.injEq] at h; rw [← h.1]; exact ⟨rfl, rfl⟩
  | table => simp only [emitNode, Except.ok.injEq, Prod.mk.injEq] at h; rw [← h.1]; exact ⟨rfl, rfl⟩
  | ascii s => simp only [emitNode, Except.ok.injEq, Prod.mk.injEq] at h; rw [← h.1]; exact ⟨rfl, rfl⟩
  | text s tbl info =>
    simp only [emitNode] at h
    cases ht : textBytes s tbl info with
    | error e => simp [ht, Except.map] at h
    | ok b => simp only [ht, Except.map, Except.ok.injEq, Prod.mk.injEq] at h; rw [← h.1]; exact ⟨rfl, rfl⟩
  | data w e info =>
    simp only [emitNode] at h
    split at h
    · cases h
    · simp only [Except.ok.injEq, Prod.mk.injEq] at h; rw [← h.1]; exact ⟨rfl, rfl⟩
  | codePos e info =>
    simp only [emitNode] at h
    split at h
    · cases h
    · split at h
      · rename_i r2 hs
        simp only [Except.ok.injEq, Prod.mk.injEq] at h
        rw [← h.1]
        unfold Resolver.setPosition at hs
        split at hs
        · cases hs
        · split at hs
          · cases hs
          · cases hs; exact ⟨rfl, rfl⟩
      · cases h
  | reloc e info =>
    simp only [emitNode] at h
    split at h
    · cases h
    · split at h
      · rename_i r2 hs
        simp only [Except.ok.injEq, Prod.mk.injEq] at h
        rw [← h.1]
        unfold Resolver.setPosition at hs
        split at hs
        · cases hs
        · split at hs
          · cases hs
          · cases hs; exact ⟨rfl, rfl⟩
      · cases h
  | opcode mn size mode index value info =>
    have key : ∀ (x : Except Err (List Nat)),
        (match x with
          | .error (.node msg _) => Except.error (nodeErr msg info)
          | .error er => Except.error er
          | .ok b => Except.ok (r, b)) = Except.ok (r', bs) → r' = r := by
      intro x hx
      cases x with
      | error er => cases er <;> simp at hx
      | ok b => simp only [Except.ok.injEq, Prod.mk.injEq] at hx; exact hx.1.symm
    have : r' = r := by
      simp only [emitNode] at h
      cases h1 : opcodeEmitter env mn mode index info with
      | error e => simp [h1] at h
      | ok e =>
        simp only [h1] at h
        cases hk : e.kind with
        | implied =>
          simp only [hk] at h
          cases hb : emitEntry e size none with
          | error er => simp [hb, Except.map] at h
          | ok b => simp only [hb, Except.map, Except.ok.injEq, Prod.mk.injEq] at h; exact h.1.symm
        | relative =>
          simp only [hk] at h
          cases value with
          | none => simp at h
          | some ve =>
            simp only at h
            cases hv : getValue env r ve info with
            | error er => simp [hv] at h
            | ok v =>
              simp only [hv] at h
              cases hb : emitRelative r e v with
              | error er => simp [hb, Except.map] at h
              | ok b => simp only [hb, Except.map, Except.ok.injEq, Prod.mk.injEq] at h; exact h.1.symm
        | sized =>
          simp only [hk] at h
          cases value with
          | none => simp at h
          | some ve =>
            simp only at h
            cases hv : getValue env r ve info with
            | error er =>
              cases size with
              | none => simp [hv] at h
              | some w =>
                by_cases hb : (opcodeByte e w).isNone = true
                · simp [hb] at h
                · simp [hb, hv] at h
            | ok v =>
              cases size with
              | none =>
                simp only [Bool.false_eq_true, ↓reduceIte, hv] at h
                exact key _ h
              | some w =>
                by_cases hb : (opcodeByte e w).isNone = true
                · simp [hb] at h
                · simp only [hb, Bool.false_eq_true, ↓reduceIte, hv] at h
                  exact key _ h
    rw [this]; exact ⟨rfl, rfl⟩

end A816.LabelCheck
