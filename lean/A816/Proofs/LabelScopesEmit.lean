import A816.Proofs.LabelScopes
import A816.Proofs.Emit
/-!
# Emission leaves the scope array alone and follows the replay (helper lemmas for C02, nested scopes)
-/
namespace A816.LabelScopes
open A816 LabelCheck Replay

/-- emitting any node (markers included) never changes the scope array -/
theorem emitNode_scopes_all (env : Env) (n : Node) (r r' : Resolver) (bs : List Nat)
    (h : emitNode env n r = .ok (r', bs)) : r'.scopes = r.scopes := by
  by_cases hm : isMarker n = false
  · exact (emitNode_scopes env n r r' bs hm h).1
  · cases n <;> simp [isMarker] at hm
    · simp only [emitNode] at h
      split at h
      · rename_i r2 hr2
        simp only [Except.ok.injEq, Prod.mk.injEq] at h
        rw [← h.1]
        unfold Resolver.useNextScope at hr2
        split at hr2
        · cases hr2; rfl
        · cases hr2
      · cases h
    · simp only [emitNode] at h
      split at h
      · rename_i r2 hr2
        simp only [Except.ok.injEq, Prod.mk.injEq] at h
        rw [← h.1]
        obtain ⟨p, _, hs, _, _⟩ := restoreScope_spec r r2 hr2
        exact hs
      · cases h

theorem emitStep_scopes (env : Env) (n : Node) (st st' : EmitState) (h : emitStep env n st = .ok st') :
    st'.r.scopes = st.r.scopes ∧
      replay st.r.scopes [n] st.r.current st.r.lastUsed = some (st'.r.current, st'.r.lastUsed) := by
  obtain ⟨r1, bs, hem, _, hnil, hne, _, _⟩ := emitStep_spec env n st st' h
  have h1 := emitNode_scopes_all env n st.r r1 bs hem
  obtain ⟨hrep, _, _⟩ := emitNode_replay env n st.r r1 bs hem
  cases bs with
  | nil => rw [hnil rfl]; exact ⟨h1, hrep⟩
  | cons b t =>
    obtain ⟨a', _, hst⟩ := hne (by simp)
    rw [hst]; exact ⟨h1, hrep⟩

/-- the emission loop keeps the scope array and moves through the scopes as the replay does -/
theorem emitLoop_scopes_replay (env : Env) : ∀ (ns : List Node) (st st' : EmitState), emitLoop env ns st = .ok st' →
    st'.r.scopes = st.r.scopes ∧
      replay st.r.scopes ns st.r.current st.r.lastUsed = some (st'.r.current, st'.r.lastUsed) := by
  intro ns
  induction ns with
  | nil => intro st st' h; simp only [emitLoop, Except.ok.injEq] at h; rw [← h]; exact ⟨rfl, rfl⟩
  | cons n ns ih =>
    intro st st' h
    simp only [emitLoop] at h
    cases hs : emitStep env n st with
    | error e => simp [hs] at h
    | ok s1 =>
      simp only [hs] at h
      obtain ⟨h1, hr1⟩ := emitStep_scopes env n st s1 hs
      obtain ⟨h2, hr2⟩ := ih s1 st' h
      refine ⟨by rw [h2, h1], ?_⟩
      have := replay_append st.r.scopes [n] ns st.r.current st.r.lastUsed
      simp only [List.singleton_append] at this
      rw [this, hr1]
      simp only [Option.bind_some]
      rw [← h1]; exact hr2

end A816.LabelScopes
