import A816.Proofs.ExprPrint
/-! C06 helper lemmas, part 3: `eval_number` reads back every rendered literal (decimal, `0x` in
either letter case, `0b`). -/
namespace A816
open Spec

theorem digitVal_digitChar_fin : ∀ (d : Fin 16) (u : Bool), digitVal (digitChar d.val u) = some d.val := by decide
theorem digitChar_dec_ne_fin : ∀ (d : Fin 10) (u : Bool), digitChar d.val u ≠ 'x' ∧ digitChar d.val u ≠ 'b' := by decide

theorem digitVal_digitChar (d : Nat) (u : Bool) (h : d < 16) : digitVal (digitChar d u) = some d :=
  digitVal_digitChar_fin ⟨d, h⟩ u
theorem digitChar_dec_ne (d : Nat) (u : Bool) (h : d < 10) : digitChar d u ≠ 'x' ∧ digitChar d u ≠ 'b' :=
  digitChar_dec_ne_fin ⟨d, h⟩ u

theorem parseDigits_render (base : Nat) (hb : base ≤ 16) (ds : List (Nat × Bool)) (acc : Nat)
    (h : ∀ d ∈ ds, d.1 < base) :
    parseDigits base (ds.map fun d => digitChar d.1 d.2) acc
      = some (ds.foldl (fun acc d => acc * base + d.1) acc) := by
  induction ds generalizing acc with
  | nil => simp [parseDigits]
  | cons d ds ih =>
    have hd : d.1 < base := h d (by simp)
    simp only [List.map_cons, parseDigits, digitVal_digitChar d.1 d.2 (by omega), hd, ↓reduceIte,
      List.foldl_cons]
    exact ih _ (fun x hx => h x (List.mem_cons_of_mem _ hx))

theorem evalNumberChars_render (l : Literal) (wf : l.WF) : evalNumberChars l.render = some l.value := by
  obtain ⟨hne, hd⟩ := wf
  unfold Literal.render Literal.value
  cases hb : l.base with
  | hex =>
    simp only [hb, Base.radix] at hd
    have hmap : (l.digits.map fun d => digitChar d.1 d.2) ≠ [] := by simpa using hne
    simp only [evalNumberChars, Base.pre, Base.radix, List.cons_append, List.nil_append, List.take_succ_cons,
      List.take_zero, ↓reduceIte, List.drop_succ_cons, List.drop_zero, List.isEmpty_iff, hmap]
    exact parseDigits_render 16 (by omega) _ _ hd
  | bin =>
    simp only [hb, Base.radix] at hd
    have hmap : (l.digits.map fun d => digitChar d.1 d.2) ≠ [] := by simpa using hne
    have hx : ¬ (['0', 'b'] = ['0', 'x']) := by decide
    simp only [evalNumberChars, Base.pre, Base.radix, List.cons_append, List.nil_append, List.take_succ_cons,
      List.take_zero, hx, ↓reduceIte, List.drop_succ_cons, List.drop_zero, List.isEmpty_iff, hmap]
    exact parseDigits_render 2 (by omega) _ _ hd
  | dec =>
    simp only [hb, Base.radix] at hd
    simp only [Base.pre, Base.radix, List.nil_append]
    have hmap : (l.digits.map fun d => digitChar d.1 d.2) ≠ [] := by simpa using hne
    have key : ∀ c : Char, c = 'x' ∨ c = 'b' →
        (l.digits.map fun d => digitChar d.1 d.2).take 2 ≠ ['0', c] := by
      intro c hc heq
      match hds : l.digits with
      | [] => simp [hds] at heq
      | [_] => simp [hds] at heq
      | d1 :: d2 :: rest =>
        simp only [hds, List.map_cons, List.take_succ_cons, List.take_zero, List.cons.injEq, and_true] at heq
        have := digitChar_dec_ne d2.1 d2.2 (hd d2 (by simp [hds]))
        rcases hc with hc | hc <;> simp_all
    unfold evalNumberChars
    simp only [key 'x' (Or.inl rfl), key 'b' (Or.inr rfl), ↓reduceIte, List.isEmpty_iff, hmap]
    exact parseDigits_render 10 (by omega) _ _ hd

theorem evalNumber_render (l : Literal) (wf : l.WF) :
    evalNumber (String.ofList l.render) = some (l.value : Int) := by
  unfold evalNumber
  rw [String.toList_ofList, evalNumberChars_render l wf]
  rfl

end A816
