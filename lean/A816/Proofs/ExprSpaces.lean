import A816.Proofs.ScanLocal
/-!
# Blanks between the tokens of an expression (helper lemmas for C06 / C16)

`lex_expression` skips blanks at the head of every iteration of its loop.  `lexExpressionLoop_fuel`: the fuel of the loop
is irrelevant once it exceeds the remaining input; `lexExpressionLoop_skip_spaces`: at the head of an iteration (between
tokens: `start = pos`) skipping the blanks in front of the position has no other effect.
-/
namespace A816.ScanS
open A816 Scan ScanB ScanT

/-- one iteration of the loop of `lex_expression` after the blanks were skipped: the state to go on with, or the state
    the loop returns (`true` = go on) -/
def exprIter (s : Scan) : Except (Err × Scan) (Scan × Bool) :=
  let (s1, a) := s.accept digitChars
  if a then (lexNumber s1).map fun x => (x, true)
  else
    let (s1, a) := s.accept letterChars
    if a then (lexIdentifier s1).map fun x => (x, true)
    else
      let (s1, a) := s.accept (chars "+-*/&|~")
      let (s1, a) := if a then (s1, true) else
        let (s2, b) := s.acceptPrefix (chars "<<")
        if b then (s2, true) else s.acceptPrefix (chars ">>")
      if a then .ok (s1.emit .OPERATOR, true)
      else
        let (s1, a) := s.accept ['(']
        if a then .ok (s1.emit .LPAREN, true)
        else
          let (s1, a) := s.accept [')']
          if a then .ok (s1.emit .RPAREN, true)
          else .ok (s, false)

/-- what the loop does with the outcome of one iteration -/
def exprCont (n : Nat) : Except (Err × Scan) (Scan × Bool) → SR
  | .error e => .error e
  | .ok (x, true) => lexExpressionLoop n x
  | .ok (x, false) => .ok x

theorem lexExpressionLoop_succ (n : Nat) (s : Scan) :
    lexExpressionLoop (n + 1) s =
      (if s.pos < s.input.size then
        match s.ignoreRun [' '] with
        | .error e => .error e
        | .ok t => exprCont n (exprIter t)
      else .ok s) := by
  conv => lhs; unfold lexExpressionLoop
  by_cases hlt : s.pos < s.input.size
  · rw [if_pos hlt, if_pos hlt]
    cases s.ignoreRun [' '] with
    | error e => rfl
    | ok t =>
      show _ = exprCont n (exprIter t)
      unfold exprIter exprCont
      simp only [ok_bind]
      by_cases h1 : (t.accept digitChars).2 = true
      · simp only [h1, ↓reduceIte]
        cases lexNumber (t.accept digitChars).1 <;> rfl
      · simp only [h1, Bool.false_eq_true, ↓reduceIte]
        by_cases h2 : (t.accept letterChars).2 = true
        · simp only [h2, ↓reduceIte]
          cases lexIdentifier (t.accept letterChars).1 <;> rfl
        · simp only [h2, Bool.false_eq_true, ↓reduceIte]
          by_cases h3 : (t.accept (chars "+-*/&|~")).2 = true
          · simp only [h3, ↓reduceIte]
          · simp only [h3, Bool.false_eq_true, ↓reduceIte]
            by_cases h4 : (t.acceptPrefix (chars "<<")).2 = true
            · simp only [h4, ↓reduceIte]
            · simp only [h4, Bool.false_eq_true, ↓reduceIte]
              by_cases h5 : (t.acceptPrefix (chars ">>")).2 = true
              · simp only [h5, ↓reduceIte]
              · simp only [h5, Bool.false_eq_true, ↓reduceIte]
                by_cases h6 : (t.accept ['(']).2 = true
                · simp only [h6, ↓reduceIte]
                · simp only [h6, Bool.false_eq_true, ↓reduceIte]
                  by_cases h7 : (t.accept [')']).2 = true
                  · simp only [h7, ↓reduceIte]
                  · simp only [h7, Bool.false_eq_true, ↓reduceIte]
  · rw [if_neg hlt, if_neg hlt]

/-- an iteration that goes on has consumed input; one that stops returns its state unchanged -/
theorem exprIter_spec (t : Scan) :
    match exprIter t with
    | .ok (x, true) => x.input = t.input ∧ t.pos < x.pos
    | .ok (x, false) => x = t
    | .error _ => True := by
  unfold exprIter
  simp only []
  by_cases h1 : (t.accept digitChars).2 = true
  · simp only [h1, ↓reduceIte]
    have hb : (t.accept digitChars).1.pos ≤ (t.accept digitChars).1.input.size := by
      have := accept_true_lt t digitChars nul_digit h1
      rw [(accept_step t digitChars false).1, (accept_step t digitChars false).2.1 h1 this]; omega
    have hg := good_lexNumber (t.accept digitChars).1 hb
    cases hx : lexNumber (t.accept digitChars).1 with
    | error e => trivial
    | ok x =>
      rw [hx] at hg
      have hle : Le (t.accept digitChars).1 x := hg
      have := accept_lt t digitChars nul_digit h1
      exact ⟨by rw [hle.input, (accept_step t digitChars false).1], Nat.lt_of_lt_of_le this hle.pos⟩
  · simp only [h1, Bool.false_eq_true, ↓reduceIte]
    by_cases h2 : (t.accept letterChars).2 = true
    · simp only [h2, ↓reduceIte]
      have hg := good_lexIdentifier (t.accept letterChars).1
      cases hx : lexIdentifier (t.accept letterChars).1 with
      | error e => trivial
      | ok x =>
        rw [hx] at hg
        have hle : Le (t.accept letterChars).1 x := hg
        have := accept_lt t letterChars nul_letter h2
        exact ⟨by rw [hle.input, (accept_step t letterChars false).1], Nat.lt_of_lt_of_le this hle.pos⟩
    · simp only [h2, Bool.false_eq_true, ↓reduceIte]
      by_cases h3 : (t.accept (chars "+-*/&|~")).2 = true
      · simp only [h3, ↓reduceIte]
        exact ⟨(accept_step t _ false).1, accept_lt t _ (by decide) h3⟩
      · simp only [h3, Bool.false_eq_true, ↓reduceIte]
        by_cases h4 : (t.acceptPrefix (chars "<<")).2 = true
        · simp only [h4, ↓reduceIte]
          exact ⟨(le_acceptPrefix t _).input, acceptPrefix_lt t _ (by decide) h4⟩
        · simp only [h4, Bool.false_eq_true, ↓reduceIte]
          by_cases h5 : (t.acceptPrefix (chars ">>")).2 = true
          · simp only [h5, ↓reduceIte]
            exact ⟨(le_acceptPrefix t _).input, acceptPrefix_lt t _ (by decide) h5⟩
          · simp only [h5, Bool.false_eq_true, ↓reduceIte]
            by_cases h6 : (t.accept ['(']).2 = true
            · simp only [h6, ↓reduceIte]
              exact ⟨(accept_step t _ false).1, accept_lt t _ (by decide) h6⟩
            · simp only [h6, Bool.false_eq_true, ↓reduceIte]
              by_cases h7 : (t.accept [')']).2 = true
              · simp only [h7, ↓reduceIte]
                exact ⟨(accept_step t _ false).1, accept_lt t _ (by decide) h7⟩
              · simp only [h7, Bool.false_eq_true, ↓reduceIte]

/-- the fuel of the loop of `lex_expression` is irrelevant once it exceeds the remaining input -/
theorem lexExpressionLoop_fuel : ∀ (n m : Nat) (s : Scan), s.input.size - s.pos < n → s.input.size - s.pos < m →
    lexExpressionLoop n s = lexExpressionLoop m s := by
  intro n
  induction n with
  | zero => intro m s h; omega
  | succ n ih =>
    intro m s hn hm
    cases m with
    | zero => omega
    | succ m =>
      rw [lexExpressionLoop_succ, lexExpressionLoop_succ]
      by_cases hlt : s.pos < s.input.size
      · rw [if_pos hlt, if_pos hlt]
        have hg := good_ignoreRun s [' '] he_sp
        cases hr : s.ignoreRun [' '] with
        | error e => rfl
        | ok t =>
          rw [hr] at hg
          have hle : Le s t := hg
          simp only []
          have hsp := exprIter_spec t
          revert hsp
          cases exprIter t with
          | error e => intro _; rfl
          | ok xb =>
            obtain ⟨x, b⟩ := xb
            cases b with
            | false => intro _; rfl
            | true =>
              intro hsp
              have h1 : x.input = t.input ∧ t.pos < x.pos := hsp
              show lexExpressionLoop n x = lexExpressionLoop m x
              have := hle.pos
              exact ih m x (by rw [h1.1, hle.input]; omega) (by rw [h1.1, hle.input]; omega)
      · rw [if_neg hlt, if_neg hlt]

theorem lexExpressionLoop_eof (n : Nat) (s : Scan) (h : ¬ s.pos < s.input.size) : lexExpressionLoop n s = .ok s := by
  cases n <;> (unfold lexExpressionLoop; rw [if_neg h])

theorem exprIter_eof (t : Scan) (h : ¬ t.pos < t.input.size) : exprIter t = .ok (t, false) := by
  unfold exprIter
  simp only []
  have na := accept_eof_false t h
  have np := acceptPrefix_eof t h
  have f1 : (t.accept digitChars).2 = false := by simpa using na digitChars (by decide)
  have f2 : (t.accept letterChars).2 = false := by simpa using na letterChars (by decide)
  have f3 : (t.accept (chars "+-*/&|~")).2 = false := by simpa using na (chars "+-*/&|~") (by decide)
  have f4 : (t.acceptPrefix (chars "<<")).2 = false := by simpa using np (chars "<<") (by decide)
  have f5 : (t.acceptPrefix (chars ">>")).2 = false := by simpa using np (chars ">>") (by decide)
  have f6 : (t.accept ['(']).2 = false := by simpa using na ['('] (by decide)
  have f7 : (t.accept [')']).2 = false := by simpa using na [')'] (by decide)
  simp only [f1, f2, f3, f4, f5, f6, f7, Bool.false_eq_true, ↓reduceIte]

/-- **blanks in front of a token of an expression are skipped without any other effect** -/
theorem lexExpressionLoop_skip_spaces (s t : Scan) (hst : s.start = s.pos) (hr : s.ignoreRun [' '] = .ok t) :
    ∀ (n m : Nat), s.input.size - s.pos < n → t.input.size - t.pos < m →
    lexExpressionLoop n s = lexExpressionLoop m t := by
  intro n m hn hm
  obtain ⟨hidem, htst⟩ := ignoreRun_idem s t _ hr
  have hle : Le s t := by have := good_ignoreRun s [' '] he_sp; rw [hr] at this; exact this
  by_cases hs : s.pos < s.input.size
  · cases n with
    | zero => omega
    | succ n =>
      rw [lexExpressionLoop_succ, if_pos hs, hr]
      simp only []
      by_cases ht : t.pos < t.input.size
      · cases m with
        | zero => omega
        | succ m =>
          rw [lexExpressionLoop_succ, if_pos ht, hidem]
          simp only []
          have hsp := exprIter_spec t
          revert hsp
          cases exprIter t with
          | error e => intro _; rfl
          | ok xb =>
            obtain ⟨x, b⟩ := xb
            cases b with
            | false => intro _; rfl
            | true =>
              intro hsp
              have h1 : x.input = t.input ∧ t.pos < x.pos := hsp
              show lexExpressionLoop n x = lexExpressionLoop m x
              have := hle.pos
              exact lexExpressionLoop_fuel n m x (by rw [h1.1, hle.input]; omega) (by rw [h1.1]; omega)
      · rw [exprIter_eof t ht, lexExpressionLoop_eof m t ht]
        rfl
  · have : t = s := by
      unfold Scan.ignoreRun at hr
      rw [acceptRun_eof s hs _ _ he_sp] at hr
      simp only [Except.ok.injEq] at hr
      rw [← hr, ignore_self s hst]
    subst this
    exact lexExpressionLoop_fuel n m t hn hm

variable {A B ka kb : Nat}

/-- **two texts that differ only in the blanks in front of the next token of an expression are scanned alike from
    there on**: at between-token points of `lex_expression` (`start = pos`) whose remaining texts are equal once their
    leading blanks are dropped, the rest of `lex_expression` emits tokens of the same types and texts and ends alike
    (`RelR`: similar final states, or the same exception message) -/
theorem expr_spaces (s1 s2 : Scan) (b1 : s1.start = s1.pos) (b2 : s2.start = s2.pos)
    (l1 : s1.pos ≤ s1.input.size) (l2 : s2.pos ≤ s2.input.size)
    (hrest : (s1.input.toList.drop s1.pos).dropWhile (fun c => [' '].contains c) =
      (s2.input.toList.drop s2.pos).dropWhile (fun c => [' '].contains c)) :
    ∃ A B, RelR A B s1.toks.size s2.toks.size (lexExpression s1) (lexExpression s2) := by
  have tot : ∀ (s : Scan), ∃ t, s.ignoreRun [' '] = .ok t := by
    intro s
    obtain ⟨u, hu, _, _⟩ := ScanB.acceptRun_ok s [' '] false (by decide)
    exact ⟨u.ignore, by unfold Scan.ignoreRun; rw [hu]⟩
  obtain ⟨t1, r1⟩ := tot s1
  obtain ⟨t2, r2⟩ := tot s2
  obtain ⟨d1, d2, d3⟩ := ignoreRun_dropWhile s1 t1 _ (by decide) r1
  obtain ⟨g1, g2, g3⟩ := ignoreRun_dropWhile s2 t2 _ (by decide) r2
  have ht1 := (ignoreRun_idem s1 t1 _ r1).2
  have ht2 := (ignoreRun_idem s2 t2 _ r2).2
  have hk1 : t1.toks = s1.toks := ScanT.ignoreRun_toks s1 t1 _ r1
  have hk2 : t2.toks = s2.toks := ScanT.ignoreRun_toks s2 t2 _ r2
  have hsim := Sim.ofBoundary t1 t2 ht1 ht2 (d3 l1) (g3 l2) (by rw [d2, g2]; exact hrest)
  rw [hk1, hk2] at hsim
  refine ⟨t1.pos, t2.pos, ?_⟩
  unfold lexExpression
  rw [lexExpressionLoop_skip_spaces s1 t1 b1 r1 _ (t1.input.size - t1.pos + 1) (by omega) (by omega),
      lexExpressionLoop_skip_spaces s2 t2 b2 r2 _ (t2.input.size - t2.pos + 1) (by omega) (by omega), hsim.remaining]
  exact sim_lexExpressionLoop _ _ _ hsim

end A816.ScanS
