import A816.Proofs.ScanBasic
/-!
# The scanner is total (helper lemmas for C15 `scan_terminates`)

A post-condition is proved for every scanner primitive and every state function of `scanner_states.py`:
relative to the state `s` it is started in, a call either

* returns a state `s'` with the same input, `s.pos ≤ s'.pos` and at least as many tokens (`Le s s'`), or
* raises an exception that is **not** `outOfFuel` (no Python loop inside it runs forever).

`Good s r` packages the two cases; `Good.bind` composes them along the `do` blocks of the model.
For the two functions that `Scanner.scan` uses as state (`lex_initial`, `lex_expression`) the stronger
`Prog` is proved: when the call returns with `pos` unchanged it has emitted no token — so the
no-progress guard of `Scanner.scan` fires exactly when nothing happened, and every iteration of the
outer loop that continues has strictly advanced `pos`.
-/
namespace A816.ScanT
open A816 Scan ScanB

/-- `s'` is a later state of the same scan -/
structure Le (s s' : Scan) : Prop where
  input : s'.input = s.input
  pos : s.pos ≤ s'.pos
  toks : s.toks.size ≤ s'.toks.size

theorem Le.refl (s : Scan) : Le s s := ⟨rfl, Nat.le_refl _, Nat.le_refl _⟩

theorem Le.trans {a b c : Scan} (h1 : Le a b) (h2 : Le b c) : Le a c :=
  ⟨by rw [h2.input, h1.input], Nat.le_trans h1.pos h2.pos, Nat.le_trans h1.toks h2.toks⟩

/-- post-condition of a scanner function started in `s` -/
def Good (s : Scan) (r : SR) : Prop :=
  match r with
  | .ok s' => Le s s'
  | .error (e, _) => e ≠ .outOfFuel

/-- the same with strict progress of `pos` -/
def Strict (s : Scan) (r : SR) : Prop :=
  match r with
  | .ok s' => Le s s' ∧ s.pos < s'.pos
  | .error (e, _) => e ≠ .outOfFuel

/-- post-condition of a state function: returning with `pos` unchanged means no token was emitted -/
def Prog (s : Scan) (r : SR) : Prop :=
  match r with
  | .ok s' => Le s s' ∧ (s'.pos = s.pos → s'.toks.size = s.toks.size)
  | .error (e, _) => e ≠ .outOfFuel

theorem Strict.good {s : Scan} {r : SR} (h : Strict s r) : Good s r := by
  unfold Strict at h; unfold Good
  split <;> simp_all

theorem Strict.prog {s : Scan} {r : SR} (h : Strict s r) : Prog s r := by
  unfold Strict at h; unfold Prog
  split
  · rename_i s' ; simp only at h; exact ⟨h.1, fun e => by omega⟩
  · simpa using h

theorem Prog.good {s : Scan} {r : SR} (h : Prog s r) : Good s r := by
  unfold Prog at h; unfold Good
  split <;> simp_all

theorem Good.ok {s s' : Scan} (h : Le s s') : Good s (.ok s') := h
theorem Good.pure {s s' : Scan} (h : Le s s') : Good s (pure s' : SR) := h
theorem Good.err {s s' : Scan} {e : Err} (h : e ≠ .outOfFuel) : Good s (.error (e, s')) := h

/-- composition along `>>=` -/
theorem Good.bind {s : Scan} {r : SR} {f : Scan → SR} (h : Good s r)
    (hf : ∀ s1, Le s s1 → Good s1 (f s1)) : Good s (r >>= f) := by
  cases r with
  | error e => obtain ⟨e, s2⟩ := e; exact h
  | ok s1 =>
    have h1 : Le s s1 := h
    have h2 := hf s1 h1
    show Good s (f s1)
    unfold Good at h2 ⊢
    split
    · rename_i s2 heq; rw [heq] at h2; exact h1.trans h2
    · rename_i e s2 heq; rw [heq] at h2; exact h2

/-- a step that strictly advances followed by anything good strictly advances -/
theorem Strict.of_lt {s s0 : Scan} {r : SR} (hle : Le s s0) (hlt : s.pos < s0.pos) (h : Good s0 r) : Strict s r := by
  unfold Good at h; unfold Strict
  split
  · rename_i s' ; simp only at h; exact ⟨hle.trans h, Nat.lt_of_lt_of_le hlt h.pos⟩
  · simpa using h

theorem Good.of_le {s s0 : Scan} {r : SR} (hle : Le s s0) (h : Good s0 r) : Good s r := by
  unfold Good at h ⊢
  split
  · rename_i s' ; simp only at h; exact hle.trans h
  · simpa using h

/-! ## primitives -/

@[simp] theorem handleLine_toks (s : Scan) : s.handleLine.toks = s.toks := by
  unfold handleLine; split <;> rfl

@[simp] theorem next_toks (s : Scan) : (s.next).1.toks = s.toks := by
  unfold Scan.next
  split
  · simp only; split <;> simp
  · rfl

theorem next_pos_le (s : Scan) : s.pos ≤ (s.next).1.pos := by
  by_cases h : s.pos < s.input.size
  · rw [next_pos_lt s h]; omega
  · rw [(next_pos_ge s h).1]; omega

theorem le_next (s : Scan) : Le s (s.next).1 := ⟨next_input s, next_pos_le s, by simp⟩

theorem le_emit (s : Scan) (ty : TokTy) : Le s (s.emit ty) :=
  ⟨rfl, Nat.le_refl _, by simp [Scan.emit]⟩

theorem le_ignore (s : Scan) : Le s s.ignore := ⟨rfl, Nat.le_refl _, Nat.le_refl _⟩

theorem accept_toks (s : Scan) (cands : List Char) (negate : Bool) : (s.accept cands negate).1.toks = s.toks := by
  unfold Scan.accept; split <;> simp

theorem le_accept (s : Scan) (cands : List Char) (negate : Bool) : Le s (s.accept cands negate).1 :=
  ⟨(accept_step s cands negate).1, (accept_step s cands negate).2.2, by rw [accept_toks]; exact Nat.le_refl _⟩

theorem acceptPrefix_toks (s : Scan) (pre : List Char) : (s.acceptPrefix pre).1.toks = s.toks := by
  unfold Scan.acceptPrefix; split <;> rfl

theorem le_acceptPrefix (s : Scan) (pre : List Char) : Le s (s.acceptPrefix pre).1 :=
  ⟨(acceptPrefix_step s pre).1, (acceptPrefix_step s pre).2, by rw [acceptPrefix_toks]; exact Nat.le_refl _⟩

/-- a successful `accept_prefix` of a non-empty prefix consumes input -/
theorem acceptPrefix_lt (s : Scan) (pre : List Char) (hp : 0 < pre.length) (h : (s.acceptPrefix pre).2 = true) :
    s.pos < (s.acceptPrefix pre).1.pos := by
  unfold Scan.acceptPrefix at h ⊢
  split
  · simp; exact hp
  · rename_i hc; simp [hc] at h

/-- a successful non-negated `accept` over candidates without `"\0"` consumes a character -/
theorem accept_true_lt (s : Scan) (cands : List Char) (h0 : cands.contains '\x00' = false)
    (h : (s.accept cands false).2 = true) : s.pos < s.input.size := by
  by_cases hlt : s.pos < s.input.size
  · exact hlt
  · rw [accept_eof s cands false hlt] at h
    simp only [eofAccepts, Bool.false_eq_true, ↓reduceIte] at h
    rw [h0] at h; cases h

theorem accept_lt (s : Scan) (cands : List Char) (h0 : cands.contains '\x00' = false)
    (h : (s.accept cands false).2 = true) : s.pos < (s.accept cands false).1.pos := by
  have hlt := accept_true_lt s cands h0 h
  rw [(accept_step s cands false).2.1 h hlt]; omega

theorem acceptRunAux_toks (cands : List Char) (negate : Bool) : ∀ (n : Nat) (s s' : Scan),
    acceptRunAux cands negate n s = some s' → s'.toks = s.toks := by
  intro n
  induction n with
  | zero =>
    intro s s' h
    unfold acceptRunAux at h
    split at h
    · cases h
    · cases h; rfl
  | succ n ih =>
    intro s s' h
    unfold acceptRunAux at h
    simp only at h
    split at h
    · rw [ih _ _ h, accept_toks]
    · cases h; rfl

theorem acceptRun_toks (s s' : Scan) (cands : List Char) (negate : Bool) (h : s.acceptRun cands negate = .ok s') :
    s'.toks = s.toks := by
  unfold Scan.acceptRun at h
  split at h
  · rename_i s2 heq; cases h; exact acceptRunAux_toks _ _ _ _ _ heq
  · cases h

theorem good_acceptRun (s : Scan) (cands : List Char) (negate : Bool) (he : eofAccepts cands negate = false) :
    Good s (s.acceptRun cands negate) := by
  obtain ⟨s', h1, h2, h3⟩ := acceptRun_ok s cands negate he
  rw [h1]
  exact ⟨h2, h3, by rw [acceptRun_toks s s' cands negate h1]; exact Nat.le_refl _⟩

theorem good_ignoreRun (s : Scan) (cands : List Char) (he : eofAccepts cands false = false) :
    Good s (s.ignoreRun cands) := by
  obtain ⟨s', h1, h2, h3⟩ := acceptRun_ok s cands false he
  unfold Scan.ignoreRun
  rw [h1]
  exact ⟨h2, h3, by show s.toks.size ≤ s'.ignore.toks.size; rw [show s'.ignore.toks = s'.toks from rfl, acceptRun_toks s s' cands false h1]; exact Nat.le_refl _⟩

/-- `ignore_run` leaves the tokens alone -/
theorem ignoreRun_toks (s s' : Scan) (cands : List Char) (h : s.ignoreRun cands = .ok s') : s'.toks = s.toks := by
  unfold Scan.ignoreRun at h
  split at h
  · rename_i s2 heq; cases h; exact acceptRun_toks s s2 cands false heq
  · cases h

/-- when the first `accept` of an `accept_run` succeeds (and consumes), the run ends strictly later -/
theorem acceptRun_lt (s s' : Scan) (cands : List Char) (negate : Bool) (ha : (s.accept cands negate).2 = true)
    (hlt : s.pos < s.input.size) (h : s.acceptRun cands negate = .ok s') : s.pos < s'.pos := by
  unfold Scan.acceptRun at h
  split at h
  · rename_i s2 heq
    cases h
    have hf : s.input.size - s.pos + 1 = (s.input.size - s.pos) + 1 := rfl
    rw [hf] at heq
    unfold acceptRunAux at heq
    simp only [ha, ↓reduceIte] at heq
    have hp := (accept_step s cands negate).2.1 ha hlt
    -- the rest of the run never moves backwards
    have hmono : ∀ (n : Nat) (a b : Scan), acceptRunAux cands negate n a = some b → a.pos ≤ b.pos := by
      intro n
      induction n with
      | zero => intro a b hab; unfold acceptRunAux at hab; split at hab <;> cases hab; exact Nat.le_refl _
      | succ n ih =>
        intro a b hab
        unfold acceptRunAux at hab
        simp only at hab
        split at hab
        · exact Nat.le_trans (accept_step a cands negate).2.2 (ih _ _ hab)
        · cases hab; exact Nat.le_refl _
    have := hmono _ _ _ heq
    omega
  · cases h

theorem peek_ne_nul_lt (s : Scan) (h : s.peek ≠ '\x00') : s.pos < s.input.size := by
  by_cases hlt : s.pos < s.input.size
  · exact hlt
  · exact absurd (peek_eof s hlt) h

/-- `backup` after a `next` that consumed: back where we were (as far as `Le` can see) -/
theorem le_next_backup (s : Scan) (h : s.pos < s.input.size) : Le s (s.next).1.backup :=
  ⟨by show (s.next).1.input = s.input; exact next_input s,
   by show s.pos ≤ (s.next).1.pos - 1; rw [next_pos_lt s h]; omega,
   by show s.toks.size ≤ (s.next).1.toks.size; simp⟩

/-- `backup` then `next`, for a state that is not past the end -/
theorem le_backup_next (s : Scan) (h : s.pos ≤ s.input.size) : Le s (s.backup.next).1 := by
  refine ⟨by rw [next_input]; rfl, ?_, by rw [next_toks]; exact Nat.le_refl _⟩
  by_cases h0 : s.pos = 0
  · omega
  · have hb : s.backup.pos < s.backup.input.size := by show s.pos - 1 < s.input.size; omega
    rw [next_pos_lt _ hb]; show s.pos ≤ s.pos - 1 + 1; omega

/-! ## state functions -/

theorem he_ident : eofAccepts identChars false = false := acceptRun_sites.1
theorem he_digit : eofAccepts digitChars false = false := acceptRun_sites.2.1
theorem he_sp : eofAccepts [' '] false = false := acceptRun_sites.2.2.1
theorem he_spt : eofAccepts [' ', '\t'] false = false := acceptRun_sites.2.2.2.1
theorem he_ws : eofAccepts [' ', '\t', '\n'] false = false := acceptRun_sites.2.2.2.2.1
theorem he_bin : eofAccepts (chars "01") false = false := acceptRun_sites.2.2.2.2.2.1
theorem he_oct : eofAccepts (chars "012345678") false = false := acceptRun_sites.2.2.2.2.2.2.1
theorem he_hex : eofAccepts (chars "0123456789ABCDEFabcdef") false = false := acceptRun_sites.2.2.2.2.2.2.2.1
theorem he_kw : eofAccepts (chars "abcdefghijklmnopqrstuvwxyz_") false = false := acceptRun_sites.2.2.2.2.2.2.2.2.1
theorem he_eol : eofAccepts ['\n', '\x00'] true = false := acceptRun_sites.2.2.2.2.2.2.2.2.2

theorem good_lexIdentifier (s : Scan) : Good s (lexIdentifier s) := by
  unfold lexIdentifier
  simp only []
  apply Good.bind (good_acceptRun s identChars false he_ident)
  intro s1 _
  split
  · exact Good.pure (((le_emit s1 .LABEL).trans (le_next _)).trans (le_ignore _))
  · split
    · apply Good.of_le (le_next s1)
      apply Good.bind (good_acceptRun _ identChars false he_ident)
      intro s2 _
      exact Good.pure (le_emit s2 .IDENTIFIER)
    · exact Good.pure (le_emit s1 .IDENTIFIER)

theorem quotedLoop_le (posErr : Err) : ∀ (n : Nat) (s : Scan) (c : Option Char) (s' : Scan),
    quotedLoop posErr n s c = .ok s' → Le s s' := by
  intro n
  induction n with
  | zero => intro s c s' h; unfold quotedLoop at h; cases h
  | succ n ih =>
    intro s c s' h
    unfold quotedLoop at h
    split at h
    · cases h; exact Le.refl s
    · split at h
      · cases h
      · have h1 := ih _ _ _ h
        refine Le.trans ?_ h1
        split
        · exact (le_next s).trans (le_next _)
        · exact le_next s

theorem good_lexQuotedString (s : Scan) : Good s (lexQuotedString s) := by
  unfold lexQuotedString
  simp only []
  have hfuel : (s.next).1.input.size - (s.next).1.pos + 1 < s.input.size - s.pos + 2 := by
    have := next_pos_le s
    rw [next_input]; omega
  rcases quoted_terminates (s.err "Unterminated String") (s.input.size - s.pos + 2) (s.next).1 (s.next).2 hfuel with ⟨s', h⟩ | ⟨s', h⟩
  · show Good s (quotedLoop _ _ _ _ >>= _)
    rw [h]
    exact Good.pure (((le_next s).trans (quotedLoop_le _ _ _ _ _ h)).trans (le_emit _ _))
  · show Good s (quotedLoop _ _ _ _ >>= _)
    rw [h]
    show Scan.err s "Unterminated String" ≠ .outOfFuel
    simp [Scan.err]

theorem good_lexNumber (s : Scan) (hle : s.pos ≤ s.input.size) : Good s (lexNumber s) := by
  unfold lexNumber
  simp only []
  apply Good.of_le (le_backup_next s hle)
  generalize (s.backup.next).1 = t
  generalize (s.backup.next).2 = ch
  split
  · exact Good.pure (le_emit t .NUMBER)
  · rename_i hpk
    have hlt : t.pos < t.input.size := by
      apply peek_ne_nul_lt
      intro hc; apply hpk; simp [hc]
    split
    · split
      · apply Good.of_le (le_next t)
        apply Good.bind (good_acceptRun _ _ false he_bin); intro s2 _; exact Good.pure (le_emit s2 .NUMBER)
      · split
        · apply Good.of_le (le_next t)
          apply Good.bind (good_acceptRun _ _ false he_oct); intro s2 _; exact Good.pure (le_emit s2 .NUMBER)
        · split
          · apply Good.of_le (le_next t)
            apply Good.bind (good_acceptRun _ _ false he_hex); intro s2 _; exact Good.pure (le_emit s2 .NUMBER)
          · exact Good.pure ((le_next_backup t hlt).trans (le_emit _ .NUMBER))
    · apply Good.bind (good_acceptRun _ _ false he_digit); intro s2 _; exact Good.pure (le_emit s2 .NUMBER)

theorem good_lexKeyword (cfg : ScanCfg) (s : Scan) : Good s (lexKeyword cfg s) := by
  unfold lexKeyword
  simp only []
  apply Good.of_le (le_ignore s)
  apply Good.bind (good_acceptRun _ _ false he_kw)
  intro s1 _
  split
  · exact Good.pure (le_emit s1 .KEYWORD)
  · apply Good.err; simp [Scan.err]

theorem lineCommentLoop_le : ∀ (n : Nat) (s s' : Scan), lineCommentLoop n s = .ok s' → Le s s' := by
  intro n
  induction n with
  | zero => intro s s' h; unfold lineCommentLoop at h; cases h
  | succ n ih =>
    intro s s' h
    unfold lineCommentLoop at h
    split at h
    · cases h; exact le_next s
    · exact (le_next s).trans (ih _ _ h)

theorem good_lineComment (n : Nat) (s : Scan) (hn : s.input.size - s.pos < n) : Good s (lineCommentLoop n s) := by
  obtain ⟨s', h, _, _⟩ := lineComment_terminates n s hn
  rw [h]; exact lineCommentLoop_le n s s' h

theorem blockCommentLoop_le (posErr : Err) : ∀ (n : Nat) (s s' : Scan), blockCommentLoop posErr n s = .ok s' → Le s s' := by
  intro n
  induction n with
  | zero => intro s s' h; unfold blockCommentLoop at h; cases h
  | succ n ih =>
    intro s s' h
    unfold blockCommentLoop at h
    split at h
    · cases h; exact le_acceptPrefix s _
    · split at h
      · cases h
      · exact (le_next s).trans (ih _ _ h)

theorem good_blockComment (posErr : Err) (hp : posErr ≠ .outOfFuel) (n : Nat) (s : Scan) (hn : s.input.size - s.pos < n) :
    Good s (blockCommentLoop posErr n s) := by
  rcases blockComment_terminates posErr n s hn with ⟨s', h, _, _⟩ | ⟨s', h⟩
  · rw [h]; exact blockCommentLoop_le posErr n s s' h
  · rw [h]; exact Good.err hp

theorem nul_digit : digitChars.contains '\x00' = false := by decide
theorem nul_letter : letterChars.contains '\x00' = false := by decide

theorem ok_bind (a : Scan) (f : Scan → SR) : ((Except.ok a : SR) >>= f) = f a := rfl
theorem pure_bind' (a : Scan) (f : Scan → SR) : ((pure a : SR) >>= f) = f a := rfl

/-- the loop of `lex_expression`: never out of fuel; returning with `pos` unchanged means no token -/
theorem prog_lexExpressionLoop : ∀ (n : Nat) (s : Scan), s.input.size - s.pos < n → Prog s (lexExpressionLoop n s) := by
  intro n
  induction n with
  | zero => intro s h; omega
  | succ n ih =>
    intro s hn
    unfold lexExpressionLoop
    by_cases hlt : s.pos < s.input.size
    · rw [if_pos hlt]
      simp only []
      have hig := good_ignoreRun s [' '] he_sp
      cases hr : s.ignoreRun [' '] with
      | error e => rw [hr] at hig; obtain ⟨e, s2⟩ := e; exact hig
      | ok sA =>
        rw [hr] at hig
        have hA : Le s sA := hig
        have hAt : sA.toks = s.toks := ignoreRun_toks s sA _ hr
        rw [ok_bind]
        -- after a strict step, continuing the loop is fine
        have cont : ∀ (s2 : Scan), Le sA s2 → sA.pos < s2.pos → Prog s (lexExpressionLoop n s2) := by
          intro s2 h2 hlt2
          have hs2 : s.pos < s2.pos := Nat.lt_of_le_of_lt hA.pos hlt2
          have hin : s2.input = s.input := (hA.trans h2).input
          have := ih s2 (by rw [hin]; omega)
          unfold Prog at this ⊢
          split
          · rename_i s3 heq
            rw [heq] at this
            exact ⟨(hA.trans h2).trans this.1, fun e => by have := this.1.pos; omega⟩
          · rename_i e s3 heq
            rw [heq] at this; exact this
        have key : ∀ (s1 : Scan) (r : SR), Le sA s1 → sA.pos < s1.pos → Good s1 r →
            Prog s (r >>= fun v => lexExpressionLoop n v) := by
          intro s1 r h1 hlt1 hg
          cases r with
          | error e => obtain ⟨e, s2⟩ := e; exact hg
          | ok s2 =>
            have h2 : Le s1 s2 := hg
            rw [ok_bind]
            exact cont s2 (h1.trans h2) (Nat.lt_of_lt_of_le hlt1 h2.pos)
        have emitCase : ∀ (s1 : Scan) (ty : TokTy), Le sA s1 → sA.pos < s1.pos →
            Prog s (lexExpressionLoop n (s1.emit ty)) := fun s1 ty h1 hlt1 =>
          cont _ (h1.trans (le_emit s1 ty)) hlt1
        split
        · rename_i ha
          have hlt1 := accept_lt sA digitChars nul_digit ha
          have hb : (sA.accept digitChars).1.pos ≤ (sA.accept digitChars).1.input.size := by
            have := accept_true_lt sA digitChars nul_digit ha
            rw [(accept_step sA digitChars false).1, (accept_step sA digitChars false).2.1 ha this]; omega
          exact key _ _ (le_accept sA digitChars false) hlt1 (good_lexNumber _ hb)
        · split
          · rename_i ha
            exact key _ _ (le_accept sA letterChars false) (accept_lt sA letterChars nul_letter ha) (good_lexIdentifier _)
          · by_cases h1 : (sA.accept (chars "+-*/&|~")).snd = true
            · rw [if_pos h1]; dsimp only; rw [if_pos rfl]
              exact emitCase _ _ (le_accept sA _ false) (accept_lt sA _ (by decide) h1)
            · rw [if_neg h1]
              by_cases h2 : (sA.acceptPrefix (chars "<<")).snd = true
              · rw [if_pos h2]; dsimp only; rw [if_pos rfl]
                exact emitCase _ _ (le_acceptPrefix sA _) (acceptPrefix_lt sA _ (by decide) h2)
              · rw [if_neg h2]
                split
                · rename_i h3
                  exact emitCase _ _ (le_acceptPrefix sA _) (acceptPrefix_lt sA _ (by decide) h3)
                · split
                  · rename_i ha
                    exact emitCase _ _ (le_accept sA _ false) (accept_lt sA _ (by decide) ha)
                  · split
                    · rename_i ha
                      exact emitCase _ _ (le_accept sA _ false) (accept_lt sA _ (by decide) ha)
                    · exact ⟨hA, fun _ => by rw [hAt]⟩
    · rw [if_neg hlt]; exact ⟨Le.refl s, fun _ => rfl⟩

theorem prog_lexExpression (s : Scan) : Prog s (lexExpression s) :=
  prog_lexExpressionLoop _ s (by omega)

theorem good_lexOpcodeIndex (s : Scan) : Good s (lexOpcodeIndex s) := by
  unfold lexOpcodeIndex
  simp only []
  apply Good.of_le (le_ignore s)
  apply Good.bind (good_ignoreRun _ _ he_sp)
  intro s1 _
  split
  · exact Good.pure ((le_accept s1 _ false).trans (le_emit _ _))
  · apply Good.err; simp [Scan.err]

/-- an optional `, index` -/
theorem good_optIndex (s : Scan) :
    Good s (if (s.accept [',']).snd = true then lexOpcodeIndex (s.accept [',']).fst else pure s) := by
  split
  · exact Good.of_le (le_accept s _ false) (good_lexOpcodeIndex _)
  · exact Good.pure (Le.refl s)

theorem le_bracket (s : Scan) (c1 c2 : Char) (t1 t2 : TokTy) :
    Le s (if (s.peek == c1) = true then (s.next).1.emit t1 else if (s.peek == c2) = true then (s.next).1.emit t2 else s) := by
  split
  · exact (le_next s).trans (le_emit _ _)
  · split
    · exact (le_next s).trans (le_emit _ _)
    · exact Le.refl s

theorem good_lexOperand (s : Scan) : Good s (lexOperand s) := by
  unfold lexOperand
  simp only []
  have tail : ∀ (t : Scan), Good t (do
      let s ← (if (t.peek == ')') = true then (t.next).1.emit TokTy.RPAREN
               else if (t.peek == ']') = true then (t.next).1.emit TokTy.RBRAKET else t).ignoreRun [' ']
      if (s.accept [',']).snd = true then lexOpcodeIndex (s.accept [',']).fst else pure s) := by
    intro t
    apply Good.of_le (le_bracket t ')' ']' .RPAREN .RBRAKET)
    apply Good.bind (good_ignoreRun _ _ he_sp)
    intro s1 _
    exact good_optIndex s1
  have hopen : Le s (if (s.peek == '#') = true then (s.next).1.emit TokTy.SHARP
      else if (s.peek == '(') = true then (s.next).1.emit TokTy.LPAREN
      else if (s.peek == '[') = true then (s.next).1.emit TokTy.LBRAKET else s) := by
    split
    · exact (le_next s).trans (le_emit _ _)
    · exact le_bracket s '(' '[' .LPAREN .LBRAKET
  apply Good.of_le hopen
  apply Good.bind (good_ignoreRun _ _ he_sp)
  intro s1 _
  apply Good.bind (prog_lexExpression s1).good
  intro s2 _
  apply Good.bind (good_ignoreRun _ _ he_sp)
  intro s3 _
  split
  · apply Good.of_le (le_accept s3 _ false)
    apply Good.bind (good_lexOpcodeIndex _)
    intro s4 _
    exact tail s4
  · apply Good.bind (Good.pure (Le.refl s3))
    intro s4 _
    exact tail s4

theorem good_lexOpcodeSize (s : Scan) : Good s (lexOpcodeSize s) := by
  unfold lexOpcodeSize
  simp only []
  split
  · apply Good.of_le (((le_ignore s).trans (le_accept _ _ false)).trans (le_emit _ _))
    apply Good.bind (good_ignoreRun _ _ he_sp)
    intro s1 _
    exact good_lexOperand s1
  · apply Good.err; simp [Scan.err]

/-- what follows the OPCODE token: optional size suffix, blanks, operand -/
theorem good_opTail (s : Scan) : Good s (if (s.accept ['.']).snd = true then do
      let s ← lexOpcodeSize (s.accept ['.']).fst
      let s ← s.ignoreRun [' ']
      lexOperand s
    else do
      let s ← pure s
      let s ← s.ignoreRun [' ']
      lexOperand s) := by
  split
  · apply Good.of_le (le_accept s _ false)
    apply Good.bind (good_lexOpcodeSize _)
    intro s1 _
    apply Good.bind (good_ignoreRun _ _ he_sp)
    intro s2 _
    exact good_lexOperand s2
  · apply Good.bind (Good.pure (Le.refl s))
    intro s1 _
    apply Good.bind (good_ignoreRun _ _ he_sp)
    intro s2 _
    exact good_lexOperand s2

theorem le_setpos {s s3 : Scan} (h : Le s s3) : Le s { s3 with pos := s.pos } :=
  ⟨h.input, Nat.le_refl _, h.toks⟩

/-- composition where the continuation is measured against the original state -/
theorem Good.bind' {s : Scan} {r : SR} {f : Scan → SR} (h : Good s r)
    (hf : ∀ s1, Le s s1 → Good s (f s1)) : Good s (r >>= f) := by
  cases r with
  | error e => obtain ⟨e, s2⟩ := e; exact h
  | ok s1 => exact hf s1 h

theorem good_lexOpcode (cfg : ScanCfg) (s : Scan) : Good s (lexOpcode cfg s) := by
  unfold lexOpcode
  simp only []
  have fin : ∀ (s3 : Scan), Le s s3 → Good s (
      if (s3.peek == '\n' || s3.peek == '\x00') = true then
        pure (({ s3 with pos := s.pos } : Scan).emit TokTy.OPCODE_NAKED)
      else do
        let s ← pure (({ s3 with pos := s.pos } : Scan).emit TokTy.OPCODE)
        if (s.accept ['.']).snd = true then do
            let s ← lexOpcodeSize (s.accept ['.']).fst
            let s ← s.ignoreRun [' ']
            lexOperand s
          else do
            let s ← pure s
            let s ← s.ignoreRun [' ']
            lexOperand s) := by
    intro s3 h3
    split
    · exact Good.pure ((le_setpos h3).trans (le_emit _ _))
    · apply Good.bind' (Good.pure ((le_setpos h3).trans (le_emit _ _)))
      intro s4 h4
      exact Good.of_le h4 (good_opTail s4)
  split
  · apply Good.bind' (good_acceptRun _ _ false he_spt)
    intro s1 h1
    split
    · apply Good.bind' (Good.of_le (h1.trans (le_accept s1 _ false)) (good_acceptRun _ _ true he_eol))
      intro s3 h3
      exact fin s3 h3
    · apply Good.bind' (Good.pure (h1.trans (le_accept s1 _ false)))
      intro s3 h3
      exact fin s3 h3
  · apply Good.bind (Good.pure (le_emit s .OPCODE))
    intro s1 _
    exact good_opTail s1

theorem letter_ident (c : Char) (h : letterChars.contains c = true) : identChars.contains c = true := by
  have : identChars = letterChars ++ digitChars := by decide
  rw [this]; simp only [List.contains_eq_mem, List.mem_append, decide_eq_true_eq] at h ⊢; exact Or.inl h

/-- `lex_identifier` started on a letter consumes it -/
theorem strict_lexIdentifier (s : Scan) (ha : (s.accept letterChars).2 = true) : Strict s (lexIdentifier s) := by
  have hlt := accept_true_lt s letterChars nul_letter ha
  have ha' : (s.accept identChars).2 = true := by
    unfold Scan.accept at ha ⊢
    unfold Scan.acceptTest at ha ⊢
    simp only [Bool.false_eq_true, ↓reduceIte] at ha ⊢
    split at ha
    · rename_i h; rw [if_pos (letter_ident _ h)]
    · cases ha
  unfold lexIdentifier
  simp only []
  cases hr : s.acceptRun identChars with
  | error e =>
    have := good_acceptRun s identChars false he_ident
    rw [hr] at this; obtain ⟨e, s2⟩ := e; exact this
  | ok s1 =>
    have h1 : Le s s1 := by have := good_acceptRun s identChars false he_ident; rw [hr] at this; exact this
    have hlt1 : s.pos < s1.pos := acceptRun_lt s s1 identChars false ha' hlt hr
    rw [ok_bind]
    apply Strict.of_lt h1 hlt1
    split
    · exact Good.pure (((le_emit s1 .LABEL).trans (le_next _)).trans (le_ignore _))
    · split
      · apply Good.of_le (le_next s1)
        apply Good.bind (good_acceptRun _ identChars false he_ident)
        intro s2 _
        exact Good.pure (le_emit s2 .IDENTIFIER)
      · exact Good.pure (le_emit s1 .IDENTIFIER)

theorem Prog.of_le_same {s sA : Scan} {r : SR} (hle : Le s sA) (ht : sA.toks = s.toks) (h : Prog sA r) : Prog s r := by
  unfold Prog at h ⊢
  split
  · rename_i s' ; simp only at h
    refine ⟨hle.trans h.1, fun e => ?_⟩
    have h1 := hle.pos
    have h2 := h.1.pos
    have : s'.pos = sA.pos := by omega
    rw [h.2 this, ht]
  · simpa using h

theorem strict_acc (t : Scan) (cands : List Char) (h0 : cands.contains '\x00' = false)
    (ha : (t.accept cands).2 = true) (ty : TokTy) : Strict t (pure ((t.accept cands).1.emit ty)) :=
  ⟨(le_accept t cands false).trans (le_emit _ _), accept_lt t cands h0 ha⟩

theorem strict_pre (t : Scan) (pre : List Char) (hp : 0 < pre.length)
    (ha : (t.acceptPrefix pre).2 = true) (ty : TokTy) : Strict t (pure ((t.acceptPrefix pre).1.emit ty)) :=
  ⟨(le_acceptPrefix t pre).trans (le_emit _ _), acceptPrefix_lt t pre hp ha⟩

theorem strict_acc2 (t : Scan) (c1 c2 : List Char) (h0 : c1.contains '\x00' = false)
    (ha : (t.accept c1).2 = true) (t1 t2 : TokTy) :
    Strict t (pure (if ((t.accept c1).1.accept c2).2 = true then ((t.accept c1).1.accept c2).1.emit t1
                    else (t.accept c1).1.emit t2)) := by
  split
  · exact ⟨((le_accept t c1 false).trans (le_accept _ c2 false)).trans (le_emit _ _),
      Nat.lt_of_lt_of_le (accept_lt t c1 h0 ha) (le_accept _ c2 false).pos⟩
  · exact ⟨(le_accept t c1 false).trans (le_emit _ _), accept_lt t c1 h0 ha⟩

/-- `accept` of a non-newline candidate followed by `backup`: same input, same position, same tokens -/
theorem accept_backup_le (t : Scan) (cands : List Char) (h0 : cands.contains '\x00' = false)
    (ha : (t.accept cands).2 = true) :
    Le t (t.accept cands).1.backup ∧ (t.accept cands).1.backup.pos = t.pos ∧ (t.accept cands).1.backup.input = t.input := by
  have hlt := accept_true_lt t cands h0 ha
  have hp := (accept_step t cands false).2.1 ha hlt
  refine ⟨⟨(accept_step t cands false).1, ?_, by show t.toks.size ≤ (t.accept cands).1.toks.size; rw [accept_toks]; exact Nat.le_refl _⟩, ?_, (accept_step t cands false).1⟩
  · show t.pos ≤ (t.accept cands).1.pos - 1; rw [hp]; omega
  · show (t.accept cands).1.pos - 1 = t.pos; rw [hp]; omega

theorem acceptOpcode_le (cfg : ScanCfg) (t : Scan) : Le t (acceptOpcode cfg t).1 ∧
    ((acceptOpcode cfg t).2 = true → t.pos < (acceptOpcode cfg t).1.pos) := by
  unfold acceptOpcode
  simp only []
  split
  · exact ⟨⟨rfl, by simp, Nat.le_refl _⟩, fun _ => by simp⟩
  · exact ⟨Le.refl t, fun h => by cases h⟩

/-- `accept` only looks at the input and the position -/
theorem accept_snd_congr (a b : Scan) (cands : List Char) (hi : a.input = b.input) (hp : a.pos = b.pos) :
    (a.accept cands).2 = (b.accept cands).2 := by
  unfold Scan.accept Scan.acceptTest Scan.peek
  simp only [hi, hp]
  split <;> (split <;> rfl)

/-- post-condition of `lex_initial`: returning with `pos` unchanged means nothing was emitted *and* the input is exhausted -/
def ProgI (s : Scan) (r : SR) : Prop :=
  match r with
  | .ok s' => Le s s' ∧ (s'.pos = s.pos → s'.toks.size = s.toks.size ∧ ¬ s'.pos < s'.input.size)
  | .error (e, _) => e ≠ .outOfFuel

theorem Strict.progI {s : Scan} {r : SR} (h : Strict s r) : ProgI s r := by
  unfold Strict at h; unfold ProgI
  split
  · rename_i s' ; simp only at h; exact ⟨h.1, fun e => by omega⟩
  · simpa using h

theorem ProgI.prog {s : Scan} {r : SR} (h : ProgI s r) : Prog s r := by
  unfold ProgI at h; unfold Prog
  split
  · rename_i s'; simp only at h; exact ⟨h.1, fun e => (h.2 e).1⟩
  · simpa using h

theorem ProgI.of_le_same {s sA : Scan} {r : SR} (hle : Le s sA) (ht : sA.toks = s.toks) (h : ProgI sA r) : ProgI s r := by
  unfold ProgI at h ⊢
  split
  · rename_i s' ; simp only at h
    refine ⟨hle.trans h.1, fun e => ?_⟩
    have h1 := hle.pos
    have h2 := h.1.pos
    have : s'.pos = sA.pos := by omega
    exact ⟨by rw [(h.2 this).1, ht], (h.2 this).2⟩
  · simpa using h

theorem progI_lexInitial (cfg : ScanCfg) (s : Scan) : ProgI s (lexInitial cfg s) := by
  unfold lexInitial
  simp only []
  have hig := good_ignoreRun s [' ', '\t', '\n'] he_ws
  cases hr : s.ignoreRun [' ', '\t', '\n'] with
  | error e => rw [hr] at hig; obtain ⟨e, s2⟩ := e; exact hig
  | ok t =>
    rw [hr] at hig
    have hA : Le s t := hig
    have hAt : t.toks = s.toks := ignoreRun_toks s t _ hr
    rw [ok_bind]
    apply ProgI.of_le_same hA hAt
    by_cases ha : (t.accept [';']).snd = true
    · rw [if_pos ha]
      apply Strict.progI
      apply Strict.of_lt (le_accept t _ false) (accept_lt t _ (by decide) ha)
      apply Good.bind (good_lineComment _ _ (by have := (le_accept t [';'] false).pos; rw [(le_accept t [';'] false).input]; omega))
      intro s2 _; exact Good.pure (le_emit s2 _)
    rw [if_neg ha]; clear ha
    by_cases ha : (t.accept digitChars).snd = true
    · rw [if_pos ha]
      apply Strict.progI
      apply Strict.of_lt (le_accept t _ false) (accept_lt t _ nul_digit ha)
      apply good_lexNumber
      have := accept_true_lt t digitChars nul_digit ha
      rw [(accept_step t digitChars false).1, (accept_step t digitChars false).2.1 ha this]; omega
    rw [if_neg ha]; clear ha
    by_cases ha : (t.accept ['+', '-', '&']).snd = true
    · rw [if_pos ha]
      exact (strict_acc t _ (by decide) ha _).progI
    rw [if_neg ha]; clear ha
    by_cases ha : (t.acceptPrefix ['=', '=']).snd = true
    · rw [if_pos ha]
      exact (strict_pre t _ (by decide) ha _).progI
    rw [if_neg ha]; clear ha
    by_cases ha : (t.acceptPrefix ['!', '=']).snd = true
    · rw [if_pos ha]
      exact (strict_pre t _ (by decide) ha _).progI
    rw [if_neg ha]; clear ha
    by_cases ha : (t.acceptPrefix ['>', '>']).snd = true
    · rw [if_pos ha]
      exact (strict_pre t _ (by decide) ha _).progI
    rw [if_neg ha]; clear ha
    by_cases ha : (t.acceptPrefix ['<', '<']).snd = true
    · rw [if_pos ha]
      exact (strict_pre t _ (by decide) ha _).progI
    rw [if_neg ha]; clear ha
    by_cases ha : (t.acceptPrefix ['>']).snd = true
    · rw [if_pos ha]
      exact (strict_pre t _ (by decide) ha _).progI
    rw [if_neg ha]; clear ha
    by_cases ha : (t.acceptPrefix ['<']).snd = true
    · rw [if_pos ha]
      exact (strict_pre t _ (by decide) ha _).progI
    rw [if_neg ha]; clear ha
    by_cases ha : (t.accept letterChars).snd = true
    · rw [if_pos ha]
      obtain ⟨hb, hbp, hbi⟩ := accept_backup_le t letterChars nul_letter ha
      apply Strict.progI
      split
      · rename_i hop
        obtain ⟨ho1, ho2⟩ := acceptOpcode_le cfg (t.accept letterChars).1.backup
        apply Strict.of_lt (hb.trans ho1) (by have := ho2 hop; omega)
        exact good_lexOpcode cfg _
      · have hs := strict_lexIdentifier (t.accept letterChars).1.backup
          (by rw [accept_snd_congr _ t letterChars hbi hbp]; exact ha)
        unfold Strict at hs ⊢
        split
        · rename_i s' heq; rw [heq] at hs; exact ⟨hb.trans hs.1, by have := hs.2; omega⟩
        · rename_i e s' heq; rw [heq] at hs; exact hs
    rw [if_neg ha]; clear ha
    by_cases ha : (t.accept ['.']).snd = true
    · rw [if_pos ha]
      apply Strict.progI
      exact Strict.of_lt (le_accept t _ false) (accept_lt t _ (by decide) ha) (good_lexKeyword cfg _)
    rw [if_neg ha]; clear ha
    by_cases ha : (t.accept [',']).snd = true
    · rw [if_pos ha]
      exact (strict_acc t _ (by decide) ha _).progI
    rw [if_neg ha]; clear ha
    by_cases ha : (t.acceptPrefix [':', '=']).snd = true
    · rw [if_pos ha]
      exact (strict_pre t _ (by decide) ha _).progI
    rw [if_neg ha]; clear ha
    by_cases ha : (t.acceptPrefix ['@', '=']).snd = true
    · rw [if_pos ha]
      exact (strict_pre t _ (by decide) ha _).progI
    rw [if_neg ha]; clear ha
    by_cases ha : (t.accept ['*']).snd = true
    · rw [if_pos ha]
      exact (strict_acc2 t _ _ (by decide) ha _ _).progI
    rw [if_neg ha]; clear ha
    by_cases ha : (t.accept ['\'']).snd = true
    · rw [if_pos ha]
      apply Strict.progI
      exact Strict.of_lt (le_accept t _ false) (accept_lt t _ (by decide) ha) (good_lexQuotedString _)
    rw [if_neg ha]; clear ha
    by_cases ha : (t.accept ['(']).snd = true
    · rw [if_pos ha]
      exact (strict_acc t _ (by decide) ha _).progI
    rw [if_neg ha]; clear ha
    by_cases ha : (t.accept [')']).snd = true
    · rw [if_pos ha]
      exact (strict_acc t _ (by decide) ha _).progI
    rw [if_neg ha]; clear ha
    by_cases ha : (t.accept ['[']).snd = true
    · rw [if_pos ha]
      exact (strict_acc t _ (by decide) ha _).progI
    rw [if_neg ha]; clear ha
    by_cases ha : (t.accept [']']).snd = true
    · rw [if_pos ha]
      exact (strict_acc t _ (by decide) ha _).progI
    rw [if_neg ha]; clear ha
    by_cases ha : (t.accept ['{']).snd = true
    · rw [if_pos ha]
      exact (strict_acc2 t _ _ (by decide) ha _ _).progI
    rw [if_neg ha]; clear ha
    by_cases ha : (t.accept ['}']).snd = true
    · rw [if_pos ha]
      exact (strict_acc2 t _ _ (by decide) ha _ _).progI
    rw [if_neg ha]; clear ha
    by_cases ha : (t.accept ['=']).snd = true
    · rw [if_pos ha]
      exact (strict_acc t _ (by decide) ha _).progI
    rw [if_neg ha]; clear ha
    by_cases ha : (t.acceptPrefix ['/', '*']).snd = true
    · rw [if_pos ha]
      apply Strict.progI
      apply Strict.of_lt (le_acceptPrefix t _) (acceptPrefix_lt t _ (by decide) ha)
      apply Good.bind (good_blockComment _ (by simp [Scan.err]) _ _ (by have := (le_acceptPrefix t ['/', '*']).pos; rw [(le_acceptPrefix t ['/', '*']).input]; omega))
      intro s2 _; exact Good.pure (le_emit s2 _)
    rw [if_neg ha]; clear ha
    by_cases hn : ((t.next).2 != none) = true
    · rw [if_pos hn]; show _ ≠ Err.outOfFuel; simp [Scan.err]
    · rw [if_neg hn]
      have hnone : (t.next).2 = none := by
        cases hx : (t.next).2 with
        | none => rfl
        | some c => rw [hx] at hn; simp at hn
      have hge := (next_some_iff t).mp hnone
      show ProgI t (pure (t.next).1)
      rw [(next_pos_ge t hge).1]
      exact ⟨Le.refl t, fun _ => ⟨rfl, hge⟩⟩

theorem prog_lexInitial (cfg : ScanCfg) (s : Scan) : Prog s (lexInitial cfg s) := (progI_lexInitial cfg s).prog

theorem prog_runState (cfg : ScanCfg) (st : ScanState) (s : Scan) : Prog s (runState cfg st s) := by
  cases st with
  | initial => exact prog_lexInitial cfg s
  | expression => exact prog_lexExpression s

/-- the loop of `Scanner.scan` never runs out of its fuel `len(input) − pos + 1`: every iteration that
    continues has strictly advanced `pos` -/
theorem scanLoop_total (cfg : ScanCfg) (st : ScanState) : ∀ (n : Nat) (s : Scan), s.input.size - s.pos < n →
    ∀ (e : Err) (s' : Scan), scanLoop cfg st n s = .error (e, s') → e ≠ .outOfFuel := by
  intro n
  induction n with
  | zero => intro s h; omega
  | succ n ih =>
    intro s hn e s' h
    unfold scanLoop at h
    by_cases hlt : s.pos < s.input.size
    · rw [if_pos hlt] at h
      have hp := prog_runState cfg st s
      cases hr : runState cfg st s with
      | error er =>
        rw [hr] at h hp
        obtain ⟨e2, s2⟩ := er
        simp only at h
        cases h
        exact hp
      | ok s1 =>
        rw [hr] at h hp
        simp only at h
        have hp1 : Le s s1 ∧ (s1.pos = s.pos → s1.toks.size = s.toks.size) := hp
        by_cases hg : (s1.pos == s.pos && s1.toks.size == s.toks.size) = true
        · rw [if_pos hg] at h
          cases h
          simp [Scan.err]
        · rw [if_neg hg] at h
          have hne : s1.pos ≠ s.pos := by
            intro he
            apply hg
            simp [he, hp1.2 he]
          have hlt1 : s.pos < s1.pos := by have := hp1.1.pos; omega
          exact ih s1 (by rw [hp1.1.input]; omega) e s' h
    · rw [if_neg hlt] at h; cases h

/-- **the scanner terminates on every input**: `Scanner.scan` never runs out of fuel, whatever the
    configuration, the initial state and the text -/
theorem scan_total (cfg : ScanCfg) (st : ScanState) (file : Nat) (input : List Char) :
    (scan cfg st file input).error ≠ some .outOfFuel := by
  unfold scan
  simp only []
  have htot := scanLoop_total cfg st (input.length + 1) { input := input.toArray, file := file } (by simp)
  cases hr : scanLoop cfg st (input.length + 1) { input := input.toArray, file := file } with
  | ok s => simp
  | error er =>
    obtain ⟨e, s⟩ := er
    have hne := htot e s hr
    obtain ⟨s2, h2, _, _⟩ := acceptRun_ok s ['\n', '\x00'] true he_eol
    cases e <;> simp_all

end A816.ScanT
