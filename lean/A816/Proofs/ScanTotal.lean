import A816.Proofs.ScanBasic
/-!
# The scanner is total (helper lemmas for C15 `scan_terminates`)

A post-condition is proved for every scanner primitive and every state function of `scanner_states.py`:
relative to the state `s` it is started in, a call either

* returns a state `s'` with the same input, `s.pos ≤ s'.pos` and at least as many tokens (`Le s s'`), or
* raises an exception that is **not** `outOfFuel` (no Python loop inside it runs forever).

`Good s r` packages the two cases; `Good.bind` composes them along the `do` blocks of the model.
For the two functions that `Scanner.scan` uses as state (`lex_initial`, `lex_expression`) the stronger
`Prog` is proved: when the call returns with `pos` unchanged it has emitted no token — so the
no-progress guard of `Scanner.scan` fires exactly when nothing happened, and every iteration of the
outer loop that continues has strictly advanced `pos`.
-/
namespace A816.ScanT
open A816 Scan ScanB

/-- `s'` is a later state of the same scan -/
structure Le (s s' : Scan) : Prop where
  input : s'.input = s.input
  pos : s.pos ≤ s'.pos
  toks : s.toks.size ≤ s'.toks.size

theorem Le.refl (s : Scan) : Le s s := ⟨rfl, Nat.le_refl _, Nat.le_refl _⟩

theorem Le.trans {a b c : Scan} (h1 : Le a b) (h2 : Le b c) : Le a c :=
  ⟨by rw [h2.input, h1.input], Nat.le_trans h1.pos h2.pos, Nat.le_trans h1.toks h2.toks⟩

/-- post-condition of a scanner function started in `s` -/
def Good (s : Scan) (r : SR) : Prop :=
  match r with
  | .ok s' => Le s s'
  | .error (e, _) => e ≠ .outOfFuel

/-- the same with strict progress of `pos` -/
def Strict (s : Scan) (r : SR) : Prop :=
  match r with
  | .ok s' => Le s s' ∧ s.pos < s'.pos
  | .error (e, _) => e ≠ .outOfFuel

/-- post-condition of a state function: returning with `pos` unchanged means no token was emitted -/
def Prog (s : Scan) (r : SR) : Prop :=
  match r with
  | .ok s' => Le s s' ∧ (s'.pos = s.pos → s'.toks.size = s.toks.size)
  | .error (e, _) => e ≠ .outOfFuel

theorem Strict.good {s : Scan} {r : SR} (h : Strict s r) : Good s r := by
  unfold Strict at h; unfold Good
  split <;> simp_all

theorem Strict.prog {s : Scan} {r : SR} (h : Strict s r) : Prog s r := by
  unfold Strict at h; unfold Prog
  split
  · rename_i s' ; simp only at h; exact ⟨h.1, fun e => by omega⟩
  · simpa using h

theorem Prog.good {s : Scan} {r : SR} (h : Prog s r) : Good s r := by
  unfold Prog at h; unfold Good
  split <;> simp_all

theorem Good.ok {s s' : Scan} (h : Le s s') : Good s (.ok s') := h
theorem Good.pure {s s' : Scan} (h : Le s s') : Good s (pure s' : SR) := h
theorem Good.err {s s' : Scan} {e : Err} (h : e ≠ .outOfFuel) : Good s (.error (e, s')) := h

/-- composition along `>>=` -/
theorem Good.bind {s : Scan} {r : SR} {f : Scan → SR} (h : Good s r)
    (hf : ∀ s1, Le s s1 → Good s1 (f s1)) : Good s (r >>= f) := by
  cases r with
  | error e => obtain ⟨e, s2⟩ := e; exact h
  | ok s1 =>
    have h1 : Le s s1 := h
    have h2 := hf s1 h1
    show Good s (f s1)
    unfold Good at h2 ⊢
    split
    · rename_i s2 heq; rw [heq] at h2; exact h1.trans h2
    · rename_i e s2 heq; rw [heq] at h2; exact h2

/-- a step that strictly advances followed by anything good strictly advances -/
theorem Strict.of_lt {s s0 : Scan} {r : SR} (hle : Le s s0) (hlt : s.pos < s0.pos) (h : Good s0 r) : Strict s r := by
  unfold Good at h; unfold Strict
  split
  · rename_i s' ; simp only at h; exact ⟨hle.trans h, Nat.lt_of_lt_of_le hlt h.pos⟩
  · simpa using h

theorem Good.of_le {s s0 : Scan} {r : SR} (hle : Le s s0) (h : Good s0 r) : Good s r := by
  unfold Good at h ⊢
  split
  · rename_i s' ; simp only at h; exact hle.trans h
  · simpa using h

/-! ## primitives -/

@[simp] theorem handleLine_toks (s : Scan) : s.handleLine.toks = s.toks := by
  unfold handleLine; split <;> rfl

@[simp] theorem next_toks (s : Scan) : (s.next).1.toks = s.toks := by
  unfold Scan.next
  split
  · simp only; split <;> simp
  · rfl

theorem next_pos_le (s : Scan) : s.pos ≤ (s.next).1.pos := by
  by_cases h : s.pos < s.input.size
  · rw [next_pos_lt s h]; omega
  · rw [(next_pos_ge s h).1]; omega

theorem le_next (s : Scan) : Le s (s.next).1 := ⟨next_input s, next_pos_le s, by simp⟩

theorem le_emit (s : Scan) (ty : TokTy) : Le s (s.emit ty) :=
  ⟨rfl, Nat.le_refl _, by simp [Scan.emit]⟩

theorem le_ignore (s : Scan) : Le s s.ignore := ⟨rfl, Nat.le_refl _, Nat.le_refl _⟩

theorem accept_toks (s : Scan) (cands : List Char) (negate : Bool) : (s.accept cands negate).1.toks = s.toks := by
  unfold Scan.accept; split <;> simp

theorem le_accept (s : Scan) (cands : List Char) (negate : Bool) : Le s (s.accept cands negate).1 :=
  ⟨(accept_step s cands negate).1, (accept_step s cands negate).2.2, by rw [accept_toks]; exact Nat.le_refl _⟩

theorem acceptPrefix_toks (s : Scan) (pre : List Char) : (s.acceptPrefix pre).1.toks = s.toks := by
  unfold Scan.acceptPrefix; split <;> rfl

theorem le_acceptPrefix (s : Scan) (pre : List Char) : Le s (s.acceptPrefix pre).1 :=
  ⟨(acceptPrefix_step s pre).1, (acceptPrefix_step s pre).2, by rw [acceptPrefix_toks]; exact Nat.le_refl _⟩

/-- a successful `accept_prefix` of a non-empty prefix consumes input -/
theorem acceptPrefix_lt (s : Scan) (pre : List Char) (hp : 0 < pre.length) (h : (s.acceptPrefix pre).2 = true) :
    s.pos < (s.acceptPrefix pre).1.pos := by
  unfold Scan.acceptPrefix at h ⊢
  split
  · simp; exact hp
  · rename_i hc; simp [hc] at h

/-- a successful non-negated `accept` over candidates without `"\0"` consumes a character -/
theorem accept_true_lt (s : Scan) (cands : List Char) (h0 : cands.contains '\x00' = false)
    (h : (s.accept cands false).2 = true) : s.pos < s.input.size := by
  by_cases hlt : s.pos < s.input.size
  · exact hlt
  · rw [accept_eof s cands false hlt] at h
    simp only [eofAccepts, Bool.false_eq_true, ↓reduceIte] at h
    rw [h0] at h; cases h

theorem accept_lt (s : Scan) (cands : List Char) (h0 : cands.contains '\x00' = false)
    (h : (s.accept cands false).2 = true) : s.pos < (s.accept cands false).1.pos := by
  have hlt := accept_true_lt s cands h0 h
  rw [(accept_step s cands false).2.1 h hlt]; omega

theorem acceptRunAux_toks (cands : List Char) (negate : Bool) : ∀ (n : Nat) (s s' : Scan),
    acceptRunAux cands negate n s = some s' → s'.toks = s.toks := by
  intro n
  induction n with
  | zero =>
    intro s s' h
    unfold acceptRunAux at h
    split at h
    · cases h
    · cases h; rfl
  | succ n ih =>
    intro s s' h
    unfold acceptRunAux at h
    simp only at h
    split at h
    · rw [ih _ _ h, accept_toks]
    · cases h; rfl

theorem acceptRun_toks (s s' : Scan) (cands : List Char) (negate : Bool) (h : s.acceptRun cands negate = .ok s') :
    s'.toks = s.toks := by
  unfold Scan.acceptRun at h
  split at h
  · rename_i s2 heq; cases h; exact acceptRunAux_toks _ _ _ _ _ heq
  · cases h

theorem good_acceptRun (s : Scan) (cands : List Char) (negate : Bool) (he : eofAccepts cands negate = false) :
    Good s (s.acceptRun cands negate) := by
  obtain ⟨s', h1, h2, h3⟩ := acceptRun_ok s cands negate he
  rw [h1]
  exact ⟨h2, h3, by rw [acceptRun_toks s s' cands negate h1]; exact Nat.le_refl _⟩

theorem good_ignoreRun (s : Scan) (cands : List Char) (he : eofAccepts cands false = false) :
    Good s (s.ignoreRun cands) := by
  obtain ⟨s', h1, h2, h3⟩ := acceptRun_ok s cands false he
  unfold Scan.ignoreRun
  rw [h1]
  exact ⟨h2, h3, by show s.toks.size ≤ s'.ignore.toks.size; rw [show s'.ignore.toks = s'.toks from rfl, acceptRun_toks s s' cands false h1]; exact Nat.le_refl _⟩

/-- `ignore_run` leaves the tokens alone -/
theorem ignoreRun_toks (s s' : Scan) (cands : List Char) (h : s.ignoreRun cands = .ok s') : s'.toks = s.toks := by
  unfold Scan.ignoreRun at h
  split at h
  · rename_i s2 heq; cases h; exact acceptRun_toks s s2 cands false heq
  · cases h

/-- when the first `accept` of an `accept_run` succeeds (and consumes), the run ends strictly later -/
theorem acceptRun_lt (s s' : Scan) (cands : List Char) (negate : Bool) (ha : (s.accept cands negate).2 = true)
    (hlt : s.pos < s.input.size) (h : s.acceptRun cands negate = .ok s') : s.pos < s'.pos := by
  unfold Scan.acceptRun at h
  split at h
  · rename_i s2 heq
    cases h
    have hf : s.input.size - s.pos + 1 = (s.input.size - s.pos) + 1 := rfl
    rw [hf] at heq
    unfold acceptRunAux at heq
    simp only [ha, ↓reduceIte] at heq
    have hp := (accept_step s cands negate).2.1 ha hlt
    -- the rest of the run never moves backwards
    have hmono : ∀ (n : Nat) (a b : Scan), acceptRunAux cands negate n a = some b → a.pos ≤ b.pos := by
      intro n
      induction n with
      | zero => intro a b hab; unfold acceptRunAux at hab; split at hab <;> cases hab; exact Nat.le_refl _
      | succ n ih =>
        intro a b hab
        unfold acceptRunAux at hab
        simp only at hab
        split at hab
        · exact Nat.le_trans (accept_step a cands negate).2.2 (ih _ _ hab)
        · cases hab; exact Nat.le_refl _
    have := hmono _ _ _ heq
    omega
  · cases h

theorem peek_ne_nul_lt (s : Scan) (h : s.peek ≠ '\x00') : s.pos < s.input.size := by
  by_cases hlt : s.pos < s.input.size
  · exact hlt
  · exact absurd (peek_eof s hlt) h

/-- `backup` after a `next` that consumed: back where we were (as far as `Le` can see) -/
theorem le_next_backup (s : Scan) (h : s.pos < s.input.size) : Le s (s.next).1.backup :=
  ⟨by show (s.next).1.input = s.input; exact next_input s,
   by show s.pos ≤ (s.next).1.pos - 1; rw [next_pos_lt s h]; omega,
   by show s.toks.size ≤ (s.next).1.toks.size; simp⟩

/-- `backup` then `next`, for a state that is not past the end -/
theorem le_backup_next (s : Scan) (h : s.pos ≤ s.input.size) : Le s (s.backup.next).1 := by
  refine ⟨by rw [next_input]; rfl, ?_, by rw [next_toks]; exact Nat.le_refl _⟩
  by_cases h0 : s.pos = 0
  · omega
  · have hb : s.backup.pos < s.backup.input.size := by show s.pos - 1 < s.input.size; omega
    rw [next_pos_lt _ hb]; show s.pos ≤ s.pos - 1 + 1; omega

/-! ## state functions -/

theorem he_ident : eofAccepts identChars false = false := acceptRun_sites.1
theorem he_digit : eofAccepts digitChars false = false := acceptRun_sites.2.1
theorem he_sp : eofAccepts [' '] false = false := acceptRun_sites.2.2.1
theorem he_spt : eofAccepts [' ', '\t'] false = false := acceptRun_sites.2.2.2.1
theorem he_ws : eofAccepts [' ', '\t', '\n'] false = false := acceptRun_sites.2.2.2.2.1
theorem he_bin : eofAccepts (chars "01") false = false := acceptRun_sites.2.2.2.2.2.1
theorem he_oct : eofAccepts (chars "012345678") false = false := acceptRun_sites.2.2.2.2.2.2.1
theorem he_hex : eofAccepts (chars "0123456789ABCDEFabcdef") false = false := acceptRun_sites.2.2.2.2.2.2.2.1
theorem he_kw : eofAccepts (chars "abcdefghijklmnopqrstuvwxyz_") false = false := acceptRun_sites.2.2.2.2.2.2.2.2.1
theorem he_eol : eofAccepts ['\n', '\x00'] true = false := acceptRun_sites.2.2.2.2.2.2.2.2.2

theorem good_lexIdentifier (s : Scan) : Good s (lexIdentifier s) := by
  unfold lexIdentifier
  simp only []
  apply Good.bind (good_acceptRun s identChars false he_ident)
  intro s1 _
  split
  · exact Good.pure (((le_emit s1 .LABEL).trans (le_next _)).trans (le_ignore _))
  · split
    · apply Good.of_le (le_next s1)
      apply Good.bind (good_acceptRun _ identChars false he_ident)
      intro s2 _
      exact Good.pure (le_emit s2 .IDENTIFIER)
    · exact Good.pure (le_emit s1 .IDENTIFIER)

theorem quotedLoop_le (posErr : Err) : ∀ (n : Nat) (s : Scan) (c : Option Char) (s' : Scan),
    quotedLoop posErr n s c = .ok s' → Le s s' := by
  intro n
  induction n with
  | zero => intro s c s' h; unfold quotedLoop at h; cases h
  | succ n ih =>
    intro s c s' h
    unfold quotedLoop at h
    split at h
    · cases h; exact Le.refl s
    · split at h
      · cases h
      · have h1 := ih _ _ _ h
        refine Le.trans ?_ h1
        split
        · exact (le_next s).trans (le_next _)
        · exact le_next s

theorem good_lexQuotedString (s : Scan) : Good s (lexQuotedString s) := by
  unfold lexQuotedString
  simp only []
  have hfuel : (s.next).1.input.size - (s.next).1.pos + 1 < s.input.size - s.pos + 2 := by
    have := next_pos_le s
    rw [next_input]; omega
  rcases quoted_terminates (s.err "Unterminated String") (s.input.size - s.pos + 2) (s.next).1 (s.next).2 hfuel with ⟨s', h⟩ | ⟨s', h⟩
  · show Good s (quotedLoop _ _ _ _ >>= _)
    rw [h]
    exact Good.pure (((le_next s).trans (quotedLoop_le _ _ _ _ _ h)).trans (le_emit _ _))
  · show Good s (quotedLoop _ _ _ _ >>= _)
    rw [h]
    show Scan.err s "Unterminated String" ≠ .outOfFuel
    simp [Scan.err]

theorem good_lexNumber (s : Scan) (hle : s.pos ≤ s.input.size) : Good s (lexNumber s) := by
  unfold lexNumber
  simp only []
  apply Good.of_le (le_backup_next s hle)
  generalize (s.backup.next).1 = t
  generalize (s.backup.next).2 = ch
  split
  · exact Good.pure (le_emit t .NUMBER)
  · rename_i hpk
    have hlt : t.pos < t.input.size := by
      apply peek_ne_nul_lt
      intro hc; apply hpk; simp [hc]
    split
    · split
      · apply Good.of_le (le_next t)
        apply Good.bind (good_acceptRun _ _ false he_bin); intro s2 _; exact Good.pure (le_emit s2 .NUMBER)
      · split
        · apply Good.of_le (le_next t)
          apply Good.bind (good_acceptRun _ _ false he_oct); intro s2 _; exact Good.pure (le_emit s2 .NUMBER)
        · split
          · apply Good.of_le (le_next t)
            apply Good.bind (good_acceptRun _ _ false he_hex); intro s2 _; exact Good.pure (le_emit s2 .NUMBER)
          · exact Good.pure ((le_next_backup t hlt).trans (le_emit _ .NUMBER))
    · apply Good.bind (good_acceptRun _ _ false he_digit); intro s2 _; exact Good.pure (le_emit s2 .NUMBER)

theorem good_lexKeyword (cfg : ScanCfg) (s : Scan) : Good s (lexKeyword cfg s) := by
  unfold lexKeyword
  simp only []
  apply Good.of_le (le_ignore s)
  apply Good.bind (good_acceptRun _ _ false he_kw)
  intro s1 _
  split
  · exact Good.pure (le_emit s1 .KEYWORD)
  · apply Good.err; simp [Scan.err]

theorem lineCommentLoop_le : ∀ (n : Nat) (s s' : Scan), lineCommentLoop n s = .ok s' → Le s s' := by
  intro n
  induction n with
  | zero => intro s s' h; unfold lineCommentLoop at h; cases h
  | succ n ih =>
    intro s s' h
    unfold lineCommentLoop at h
    split at h
    · cases h; exact le_next s
    · exact (le_next s).trans (ih _ _ h)

theorem good_lineComment (n : Nat) (s : Scan) (hn : s.input.size - s.pos < n) : Good s (lineCommentLoop n s) := by
  obtain ⟨s', h, _, _⟩ := lineComment_terminates n s hn
  rw [h]; exact lineCommentLoop_le n s s' h

theorem blockCommentLoop_le : ∀ (n : Nat) (s s' : Scan), blockCommentLoop n s = .ok s' → Le s s' := by
  intro n
  induction n with
  | zero => intro s s' h; unfold blockCommentLoop at h; cases h
  | succ n ih =>
    intro s s' h
    unfold blockCommentLoop at h
    split at h
    · cases h; exact le_acceptPrefix s _
    · split at h
      · cases h
      · exact (le_next s).trans (ih _ _ h)

theorem good_blockComment (n : Nat) (s : Scan) (hn : s.input.size - s.pos < n) : Good s (blockCommentLoop n s) := by
  rcases blockComment_terminates n s hn with ⟨s', h, _, _⟩ | ⟨msg, l, c, s', h⟩
  · rw [h]; exact blockCommentLoop_le n s s' h
  · rw [h]; apply Good.err; simp

theorem nul_digit : digitChars.contains '\x00' = false := by decide
theorem nul_letter : letterChars.contains '\x00' = false := by decide

theorem ok_bind (a : Scan) (f : Scan → SR) : ((Except.ok a : SR) >>= f) = f a := rfl
theorem pure_bind' (a : Scan) (f : Scan → SR) : ((pure a : SR) >>= f) = f a := rfl

/-- the loop of `lex_expression`: never out of fuel; returning with `pos` unchanged means no token -/
theorem prog_lexExpressionLoop : ∀ (n : Nat) (s : Scan), s.input.size - s.pos < n → Prog s (lexExpressionLoop n s) := by
  intro n
  induction n with
  | zero => intro s h; omega
  | succ n ih =>
    intro s hn
    unfold lexExpressionLoop
    by_cases hlt : s.pos < s.input.size
    · rw [if_pos hlt]
      simp only []
      have hig := good_ignoreRun s [' '] he_sp
      cases hr : s.ignoreRun [' '] with
      | error e => rw [hr] at hig; obtain ⟨e, s2⟩ := e; exact hig
      | ok sA =>
        rw [hr] at hig
        have hA : Le s sA := hig
        have hAt : sA.toks = s.toks := ignoreRun_toks s sA _ hr
        rw [ok_bind]
        -- after a strict step, continuing the loop is fine
        have cont : ∀ (s2 : Scan), Le sA s2 → sA.pos < s2.pos → Prog s (lexExpressionLoop n s2) := by
          intro s2 h2 hlt2
          have hs2 : s.pos < s2.pos := Nat.lt_of_le_of_lt hA.pos hlt2
          have hin : s2.input = s.input := (hA.trans h2).input
          have := ih s2 (by rw [hin]; omega)
          unfold Prog at this ⊢
          split
          · rename_i s3 heq
            rw [heq] at this
            exact ⟨(hA.trans h2).trans this.1, fun e => by have := this.1.pos; omega⟩
          · rename_i e s3 heq
            rw [heq] at this; exact this
        have key : ∀ (s1 : Scan) (r : SR), Le sA s1 → sA.pos < s1.pos → Good s1 r →
            Prog s (r >>= fun v => lexExpressionLoop n v) := by
          intro s1 r h1 hlt1 hg
          cases r with
          | error e => obtain ⟨e, s2⟩ := e; exact hg
          | ok s2 =>
            have h2 : Le s1 s2 := hg
            rw [ok_bind]
            exact cont s2 (h1.trans h2) (Nat.lt_of_lt_of_le hlt1 h2.pos)
        have emitCase : ∀ (s1 : Scan) (ty : TokTy), Le sA s1 → sA.pos < s1.pos →
            Prog s (lexExpressionLoop n (s1.emit ty)) := fun s1 ty h1 hlt1 =>
          cont _ (h1.trans (le_emit s1 ty)) hlt1
        split
        · rename_i ha
          have hlt1 := accept_lt sA digitChars nul_digit ha
          have hb : (sA.accept digitChars).1.pos ≤ (sA.accept digitChars).1.input.size := by
            have := accept_true_lt sA digitChars nul_digit ha
            rw [(accept_step sA digitChars false).1, (accept_step sA digitChars false).2.1 ha this]; omega
          exact key _ _ (le_accept sA digitChars false) hlt1 (good_lexNumber _ hb)
        · split
          · rename_i ha
            exact key _ _ (le_accept sA letterChars false) (accept_lt sA letterChars nul_letter ha) (good_lexIdentifier _)
          · by_cases h1 : (sA.accept (chars "+-*/&|~")).snd = true
            · rw [if_pos h1]; dsimp only; rw [if_pos rfl]
              exact emitCase _ _ (le_accept sA _ false) (accept_lt sA _ (by decide) h1)
            · rw [if_neg h1]
              by_cases h2 : (sA.acceptPrefix (chars "<<")).snd = true
              · rw [if_pos h2]; dsimp only; rw [if_pos rfl]
                exact emitCase _ _ (le_acceptPrefix sA _) (acceptPrefix_lt sA _ (by decide) h2)
              · rw [if_neg h2]
                split
                · rename_i h3
                  exact emitCase _ _ (le_acceptPrefix sA _) (acceptPrefix_lt sA _ (by decide) h3)
                · split
                  · rename_i ha
                    exact emitCase _ _ (le_accept sA _ false) (accept_lt sA _ (by decide) ha)
                  · split
                    · rename_i ha
                      exact emitCase _ _ (le_accept sA _ false) (accept_lt sA _ (by decide) ha)
                    · exact ⟨hA, fun _ => by rw [hAt]⟩
    · rw [if_neg hlt]; exact ⟨Le.refl s, fun _ => rfl⟩

theorem prog_lexExpression (s : Scan) : Prog s (lexExpression s) :=
  prog_lexExpressionLoop _ s (by omega)

end A816.ScanT
