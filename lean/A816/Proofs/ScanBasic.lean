import A816.Model.Scanner
/-!
# Scanner lemmas shared by C15 (termination), C16 (layout) and C17 (positions)

Basic facts about the scanner primitives (`next`, `accept`, `accept_run`, `accept_prefix`) and the
termination of the hand-written loops.  The property theorems built from them are in `Props/`.
-/
namespace A816.ScanB
open A816 Scan

@[simp] theorem handleLine_input (s : Scan) : s.handleLine.input = s.input := by
  unfold handleLine; split <;> rfl
@[simp] theorem handleLine_pos (s : Scan) : s.handleLine.pos = s.pos := by
  unfold handleLine; split <;> rfl

@[simp] theorem next_input (s : Scan) : (s.next).1.input = s.input := by
  unfold Scan.next
  split
  · simp only; split <;> simp
  · rfl

theorem next_pos_lt (s : Scan) (h : s.pos < s.input.size) : (s.next).1.pos = s.pos + 1 := by
  unfold Scan.next
  simp only [h, ↓reduceDIte]
  split <;> simp

theorem next_pos_ge (s : Scan) (h : ¬ s.pos < s.input.size) : (s.next).1 = s ∧ (s.next).2 = none := by
  unfold Scan.next; simp [h]

theorem next_some_iff (s : Scan) : (s.next).2 = none ↔ ¬ s.pos < s.input.size := by
  unfold Scan.next
  by_cases h : s.pos < s.input.size <;> simp [h]

theorem peek_eof (s : Scan) (h : ¬ s.pos < s.input.size) : s.peek = '\x00' := by
  unfold Scan.peek
  simp only [Nat.add_zero]
  rw [Array.getD_eq_getD_getElem?, Array.getElem?_eq_none (by omega)]
  rfl

/-- does `accept(candidates, negate)` accept at end of input (where `peek()` is `"\0"`)? -/
def eofAccepts (cands : List Char) (negate : Bool) : Bool :=
  if negate then !(cands.contains '\x00') else cands.contains '\x00'

theorem accept_eof (s : Scan) (cands : List Char) (negate : Bool) (h : ¬ s.pos < s.input.size) :
    (s.accept cands negate).2 = eofAccepts cands negate := by
  unfold Scan.accept Scan.acceptTest eofAccepts
  rw [peek_eof s h]
  generalize cands.contains '\x00' = b
  cases negate <;> cases b <;> rfl

theorem accept_step (s : Scan) (cands : List Char) (negate : Bool) :
    (s.accept cands negate).1.input = s.input ∧
    ((s.accept cands negate).2 = true → s.pos < s.input.size → (s.accept cands negate).1.pos = s.pos + 1) ∧
    s.pos ≤ (s.accept cands negate).1.pos := by
  unfold Scan.accept
  split
  · refine ⟨next_input s, fun _ h => next_pos_lt s h, ?_⟩
    by_cases h : s.pos < s.input.size
    · show s.pos ≤ (s.next).1.pos
      rw [next_pos_lt s h]; omega
    · show s.pos ≤ (s.next).1.pos
      rw [(next_pos_ge s h).1]; omega
  · exact ⟨rfl, fun h => by simp at h, Nat.le_refl _⟩

/-- **`accept_run` terminates** when it does not accept at end of input: the fuel `len − pos + 1` suffices,
    the input is unchanged and `pos` only grows. -/
theorem acceptRun_terminates (cands : List Char) (negate : Bool) (he : eofAccepts cands negate = false) :
    ∀ (n : Nat) (s : Scan), s.input.size - s.pos ≤ n →
      ∃ s', acceptRunAux cands negate n s = some s' ∧ s'.input = s.input ∧ s.pos ≤ s'.pos := by
  intro n
  induction n with
  | zero =>
    intro s h
    have hge : ¬ s.pos < s.input.size := by omega
    unfold acceptRunAux
    rw [accept_eof s cands negate hge, he]
    exact ⟨s, by simp, rfl, Nat.le_refl _⟩
  | succ n ih =>
    intro s h
    unfold acceptRunAux
    by_cases hok : (s.accept cands negate).2 = true
    · by_cases hlt : s.pos < s.input.size
      · obtain ⟨h1, h2, _⟩ := accept_step s cands negate
        have hp := h2 hok hlt
        obtain ⟨s', e1, e2, e3⟩ := ih (s.accept cands negate).1 (by rw [h1, hp]; omega)
        refine ⟨s', ?_, by rw [e2, h1], by omega⟩
        simp only [hok, ↓reduceIte]; exact e1
      · rw [accept_eof s cands negate hlt, he] at hok; cases hok
    · simp only [hok]
      exact ⟨s, by simp, rfl, Nat.le_refl _⟩

theorem acceptRun_ok (s : Scan) (cands : List Char) (negate : Bool) (he : eofAccepts cands negate = false) :
    ∃ s', s.acceptRun cands negate = .ok s' ∧ s'.input = s.input ∧ s.pos ≤ s'.pos := by
  obtain ⟨s', h1, h2, h3⟩ := acceptRun_terminates cands negate he (s.input.size - s.pos + 1) s (by omega)
  exact ⟨s', by simp [Scan.acceptRun, h1], h2, h3⟩

/-- every `accept_run` call site of the code satisfies the condition (kernel-checked on the literal
    candidate strings of the model) -/
theorem acceptRun_sites :
    eofAccepts identChars false = false ∧ eofAccepts digitChars false = false ∧
    eofAccepts [' '] false = false ∧ eofAccepts [' ', '\t'] false = false ∧ eofAccepts [' ', '\t', '\n'] false = false ∧
    eofAccepts (chars "01") false = false ∧ eofAccepts (chars "012345678") false = false ∧
    eofAccepts (chars "0123456789ABCDEFabcdef") false = false ∧
    eofAccepts (chars "abcdefghijklmnopqrstuvwxyz_") false = false ∧
    eofAccepts ['\n', '\x00'] true = false := by decide

/-- the loop would *not* terminate for a negated run whose candidates lack the `"\0"` sentinel: the
    model exhibits Python's non-termination (this is why `lex_opcode` spells the set `"\n\0"`) -/
example : (({ input := "ab".toList.toArray } : Scan).acceptRun ['\n'] true).toOption = none := by decide

/-- `;` comment loop: stops at the newline or at end of input -/
theorem lineComment_terminates : ∀ (n : Nat) (s : Scan), s.input.size - s.pos < n →
    ∃ s', lineCommentLoop n s = .ok s' ∧ s'.input = s.input ∧ s.pos ≤ s'.pos := by
  intro n
  induction n with
  | zero => intro s h; omega
  | succ n ih =>
    intro s h
    unfold lineCommentLoop
    by_cases hlt : s.pos < s.input.size
    · have hp := next_pos_lt s hlt
      by_cases hc : ((s.next).2 == some '\n' || (s.next).2 == none) = true
      · rw [if_pos hc]
        exact ⟨(s.next).1, rfl, next_input s, by omega⟩
      · rw [if_neg hc]
        obtain ⟨s', e1, e2, e3⟩ := ih (s.next).1 (by rw [next_input, hp]; omega)
        exact ⟨s', e1, by rw [e2, next_input], by omega⟩
    · obtain ⟨h1, h2⟩ := next_pos_ge s hlt
      have hc : ((s.next).2 == some '\n' || (s.next).2 == none) = true := by rw [h2]; rfl
      rw [if_pos hc, h1]
      exact ⟨s, rfl, rfl, Nat.le_refl _⟩

theorem acceptPrefix_step (s : Scan) (pre : List Char) :
    (s.acceptPrefix pre).1.input = s.input ∧ s.pos ≤ (s.acceptPrefix pre).1.pos := by
  unfold Scan.acceptPrefix
  split
  · exact ⟨rfl, by simp⟩
  · exact ⟨rfl, Nat.le_refl _⟩

/-- `/* … */` loop (F15 repair): every iteration consumes a character or ends; end of input raises the error
    built when the comment was opened -/
theorem blockComment_terminates (posErr : Err) : ∀ (n : Nat) (s : Scan), s.input.size - s.pos < n →
    (∃ s', blockCommentLoop posErr n s = .ok s' ∧ s'.input = s.input ∧ s.pos ≤ s'.pos) ∨
    (∃ s', blockCommentLoop posErr n s = .error (posErr, s')) := by
  intro n
  induction n with
  | zero => intro s h; omega
  | succ n ih =>
    intro s h
    unfold blockCommentLoop
    by_cases ha : (s.acceptPrefix ['*', '/']).2 = true
    · left
      obtain ⟨h1, h2⟩ := acceptPrefix_step s ['*', '/']
      rw [if_pos ha]
      exact ⟨_, rfl, h1, h2⟩
    · rw [if_neg ha]
      by_cases hlt : s.pos < s.input.size
      · have hp := next_pos_lt s hlt
        have hnn : ¬ (((s.next).2 == none) = true) := by
          have := (not_congr (next_some_iff s)).mpr (by simpa using hlt)
          cases hx : (s.next).2 with
          | none => exact absurd hx this
          | some c => simp
        rw [if_neg hnn]
        rcases ih (s.next).1 (by rw [next_input, hp]; omega) with ⟨s', e1, e2, e3⟩ | ⟨s', e⟩
        · left; exact ⟨s', e1, by rw [e2, next_input], by omega⟩
        · right; exact ⟨s', e⟩
      · right
        obtain ⟨h1, h2⟩ := next_pos_ge s hlt
        have hnn : (((s.next).2 == none) = true) := by rw [h2]; rfl
        rw [if_pos hnn]
        exact ⟨_, rfl⟩

/-- quoted-string loop: every iteration consumes at least one character; newline / end of input raise -/
theorem quoted_terminates (posErr : Err) : ∀ (n : Nat) (s : Scan) (c : Option Char),
    s.input.size - s.pos + 1 < n →
    (∃ s', quotedLoop posErr n s c = .ok s') ∨ (∃ s', quotedLoop posErr n s c = .error (posErr, s')) := by
  intro n
  induction n with
  | zero => intro s c h; omega
  | succ n ih =>
    intro s c h
    unfold quotedLoop
    by_cases h1 : (c == some '\'') = true
    · left; rw [if_pos h1]; exact ⟨s, rfl⟩
    · rw [if_neg h1]
      by_cases h2 : (c == some '\n' || c == none) = true
      · right; rw [if_pos h2]; exact ⟨s, rfl⟩
      · rw [if_neg h2]
        generalize hs1 : (if (c == some '\\' && s.peek == '\'') = true then (s.next).1 else s) = s1
        have hs1i : s1.input.size = s.input.size ∧ s.pos ≤ s1.pos := by
          rw [← hs1]; split
          · refine ⟨by rw [next_input], ?_⟩
            by_cases hlt : s.pos < s.input.size
            · rw [next_pos_lt s hlt]; omega
            · rw [(next_pos_ge s hlt).1]; omega
          · exact ⟨rfl, Nat.le_refl _⟩
        by_cases hlt : s1.pos < s1.input.size
        · have hp1 := next_pos_lt s1 hlt
          have hin : (s1.next).1.input.size = s1.input.size := by rw [next_input]
          exact ih (s1.next).1 (s1.next).2 (by omega)
        · obtain ⟨e1, e2⟩ := next_pos_ge s1 hlt
          rw [e1, e2]
          cases n with
          | zero => omega
          | succ m =>
            right
            unfold quotedLoop
            have a1 : ¬ (((none : Option Char) == some '\'') = true) := by simp
            have a2 : (((none : Option Char) == some '\n' || (none : Option Char) == none) = true) := by simp
            rw [if_neg a1, if_pos a2]
            exact ⟨s1, rfl⟩

/-- **the outer loop is bounded**: an iteration of the loop of `Scanner.scan` whose state function returns
    either made progress (consumed input or emitted a token) and the loop continues with one iteration less,
    or (no-progress guard of the second F15 repair) raises — it is never repeated on the same state. -/
theorem scanLoop_progress (cfg : ScanCfg) (st : ScanState) (n : Nat) (s s' : Scan) (h : s.pos < s.input.size)
    (hr : runState cfg st s = .ok s') (hprog : ¬ (s'.pos = s.pos ∧ s'.toks.size = s.toks.size)) :
    scanLoop cfg st (n + 1) s = scanLoop cfg st n s' := by
  simp [scanLoop, h, hr, hprog]

theorem scanLoop_no_progress_raises (cfg : ScanCfg) (st : ScanState) (n : Nat) (s s' : Scan) (h : s.pos < s.input.size)
    (hr : runState cfg st s = .ok s') (hprog : s'.pos = s.pos ∧ s'.toks.size = s.toks.size) :
    scanLoop cfg st (n + 1) s =
      .error (((s'.next).1).err ("Invalid Input " ++ ((s'.next).1).slice ((s'.next).1).start ((s'.next).1).input.size), (s'.next).1) := by
  simp [scanLoop, h, hr, hprog]

end A816.ScanB
