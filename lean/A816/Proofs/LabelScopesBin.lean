import A816.Proofs.LabelScopesEmit
/-!
# `.incbin` start symbols through the label pass (nested scopes; helper lemma for C02)
-/
namespace A816.LabelScopes
open A816 LabelCheck Replay

theorem ne_size_suffix (base : String) : base ≠ base ++ "__size" := by
  intro e
  have := congrArg String.length e
  rw [String.length_append] at this
  have h6 : ("__size" : String).length = 6 := by decide
  omega

/-- **what the label pass leaves in the tables of the scope an `.incbin` is visited in** -/
theorem pass1_binary_scoped (env : Env) (S : Array ScopeRec) (hS : ParentsOk S) (pre : List Node) (content : List Nat) (base : String)
    (post : List Node) (r r' : Resolver) (pc pc' : Address) (hag : Agrees S r.scopes) (hsz : r.scopes.size = S.size)
    (hc : r.current < S.size)
    (h : passLoop env Node.isSymbol (pre ++ .binary content base :: post) r pc = .ok (r', pc')) :
    ∃ r1 pc1, passLoop env Node.isSymbol pre r pc = .ok (r1, pc1) ∧ r1.current < S.size ∧
      replay S pre r.current r.lastUsed = some (r1.current, r1.lastUsed) ∧
      (NoDot base → base ∉ namesIn symNames Node.isSymbol S r1.current post r1.current r1.lastUsed →
        alookup base (r'.scopeAt r1.current).labels = some (pc1.logical : Int) ∧
        alookup base (r'.scopeAt r1.current).symbols = some (pc1.logical : Int)) ∧
      (r'.scopeAt r1.current).codeSymbols = (r.scopeAt r1.current).codeSymbols ∧
      Agrees S r'.scopes ∧ r'.scopes.size = S.size := by
  obtain ⟨r1, pc1, h1, h2⟩ := passLoop_split env Node.isSymbol pre (.binary content base) post r r' pc pc' h
  obtain ⟨k0, hag1, hsz1, hc1, _⟩ := passLoop_keepsAt env Node.isSymbol isSymbol_not_marker S hS r1.current pre r r1 pc pc1 hag hsz hc h1
  obtain ⟨hrep, _, _⟩ := passLoop_replay env Node.isSymbol (fun n hn => by rw [← isMarker_eq]; exact isSymbol_not_marker n hn) pre r r1 pc pc1 h1
  have hrepS : replay S pre r.current r.lastUsed = some (r1.current, r1.lastUsed) := by
    rw [← replay_congr S r.scopes hag hsz pre]; exact hrep
  simp only [passLoop, Node.isSymbol, Bool.false_eq_true, ↓reduceIte, pcAfter] at h2
  cases ha : addrAdd pc1 content.length with
  | error e => simp [ha] at h2
  | ok pc2 =>
    simp only [ha] at h2
    have hc1' : r1.current < r1.scopes.size := by rw [hsz1]; exact hc1
    obtain ⟨ka, hl, hs⟩ := addLabel_keeps r1 base pc1.logical hc1'
    have hc2' : (r1.addLabel base pc1.logical).current < (r1.addLabel base pc1.logical).scopes.size := by rw [ka.cur, ka.size]; exact hc1'
    obtain ⟨kb, _⟩ := addSymbol_keeps (r1.addLabel base pc1.logical) (base ++ "__size") content.length hc2'
    let r2 := (r1.addLabel base pc1.logical).addSymbol (base ++ "__size") content.length
    have hsh := (addLabel_same r1 base pc1.logical).trans (addSymbol_same (r1.addLabel base pc1.logical) (base ++ "__size") content.length)
    have hsame : r2.scopes.size = S.size := by rw [hsh.size, hsz1]
    have hag2 : Agrees S r2.scopes := hag1.trans hsh.agrees
    have hcur2 : r2.current = r1.current := hsh.cur
    have hlast2 : r2.lastUsed = r1.lastUsed := hsh.last
    obtain ⟨k2, hag3, hsz3, _, _⟩ := passLoop_keepsAt env Node.isSymbol isSymbol_not_marker S hS r1.current post r2 r' pc2 pc' hag2 hsame
      (by rw [hcur2]; exact hc1) h2
    rw [hcur2, hlast2] at k2
    have ecur : r2.scopeAt r1.current = r2.cur := by unfold Resolver.cur; rw [hcur2]
    have hl2 : alookup base r2.cur.labels = some (pc1.logical : Int) := by
      rw [kb.labels base (by simp), hl]
    have hs2 : alookup base r2.cur.symbols = some (pc1.logical : Int) := by
      rw [kb.symbols base (by simpa using ne_size_suffix base), hs]
    refine ⟨r1, pc1, h1, hc1, hrepS, ?_, ?_, hag3, hsz3⟩
    · intro hd hfresh
      have hfl : base ∉ namesIn labelNames Node.isSymbol S r1.current post r1.current r1.lastUsed :=
        fun hx => hfresh (namesIn_mono labelNames symNames labelNames_sub Node.isSymbol S r1.current post _ _ base hx)
      exact ⟨by rw [k2.labels base hfl, ecur, hl2], by rw [k2.symbols base hfresh hd, ecur, hs2]⟩
    · rw [k2.code, ecur, kb.code, ka.code, ← k0.code]; rfl

end A816.LabelScopes

namespace A816.LabelScopes
open A816

/-- parent links point into the array for every resolver built by `append_scope` from the root: a new scope's parent
    is the scope that is current when it is created -/
theorem appendScope_parentsOk (r : Resolver) (kind : ScopeKind) (h : ParentsOk r.scopes) (hc : r.current < r.scopes.size) :
    ParentsOk (r.appendScope kind).scopes := by
  intro i p hp
  unfold Resolver.appendScope at hp ⊢
  simp only [Array.size_push] at *
  by_cases hi : i < r.scopes.size
  · have : (r.scopes.push { kind := kind, parent := some r.current }).getD i default = r.scopes.getD i default := by
      simp [Array.getD_eq_getD_getElem?, Array.getElem?_push, hi, Nat.ne_of_lt hi]
    rw [this] at hp
    have := h i p hp
    omega
  · by_cases hi2 : i = r.scopes.size
    · subst hi2
      have : (r.scopes.push { kind := kind, parent := some r.current }).getD r.scopes.size default = { kind := kind, parent := some r.current } := by
        simp [Array.getD_eq_getD_getElem?, Array.getElem?_push]
      rw [this] at hp
      simp only [Option.some.injEq] at hp
      omega
    · have : (r.scopes.push { kind := kind, parent := some r.current }).getD i default = default := by
        simp only [Array.getD_eq_getD_getElem?]
        rw [Array.getElem?_eq_none (by simp; omega)]
        rfl
      rw [this] at hp
      cases hp

theorem root_parentsOk (root : ScopeRec) (h : root.parent = none) : ParentsOk #[root] := by
  intro i p hp
  match i with
  | 0 => simp [h] at hp
  | n + 1 =>
    have : (#[root] : Array ScopeRec).getD (n + 1) default = default := by
      simp [Array.getD_eq_getD_getElem?]
    rw [this] at hp
    cases hp

end A816.LabelScopes
