import A816.Model.Parser
import A816.Proofs.ExprPrint
/-!
# The parser reads the printout of every expression tree back as the same node list (C06 `classify_print`)

`_parse_expression` turns the token stream into the flat `ExprNode` list the evaluator works on; the only
decision it takes is whether an OPERATOR token is a prefix operator (in operand position, `-` or `~`) or a
binary one.  `G` is the grammar one call of it reads; the printout of every `Spec.Expr` tree is in `G`
(`printNodes_G`), and on every token sequence in `G` — followed by something that is not an operator — the
model of the parser returns exactly that node list and stops right after it (`parse_G`).
-/
namespace A816.Classify
open A816 Spec

/-- the token a node is printed as -/
def TokIs (t : Tok) (n : ENode) : Prop :=
  match n with
  | .term .number v => t.ty = .NUMBER ∧ t.val = v
  | .term .identifier v => t.ty = .IDENTIFIER ∧ t.val = v
  | .term .other _ => False
  | .binop v => t.ty = .OPERATOR ∧ t.val = v
  | .unop v => t.ty = .OPERATOR ∧ t.val = v ∧ (v = "-" ∨ v = "~")
  | .lparen => t.ty = .LPAREN
  | .rparen => t.ty = .RPAREN

instance (t : Tok) (n : ENode) : Decidable (TokIs t n) := by
  unfold TokIs; split <;> infer_instance

/-- the grammar `_parse_expression` reads: `G true` = one operand (term or parenthesised group),
    `G false` = what one call consumes (operand, prefix operator + rest, operand + binary operator + rest) -/
inductive G : Bool → List ENode → Prop
  | num (v : String) : G true [.term .number v]
  | ident (v : String) : G true [.term .identifier v]
  | paren {l : List ENode} : G false l → G true (.lparen :: l ++ [.rparen])
  | atom {a : List ENode} : G true a → G false a
  | un {l : List ENode} (v : String) : (v = "-" ∨ v = "~") → G false l → G false (.unop v :: l)
  | bin {a l : List ENode} (v : String) : G true a → G false l → G false (a ++ .binop v :: l)

/-- a sequence followed by a binary operator and another sequence is a sequence -/
theorem G.append {a b : List ENode} (v : String) (ha : G false a) (hb : G false b) : G false (a ++ .binop v :: b) := by
  generalize hf : false = f at ha
  induction ha with
  | num w => cases hf
  | ident w => cases hf
  | paren _ _ => cases hf
  | atom h _ => exact G.bin v h hb
  | un w hw _ ih => simpa using G.un w hw (ih rfl)
  | bin w h1 _ _ ih2 => simpa [List.append_assoc] using G.bin w h1 (ih2 rfl)

/-- the printout of every tree is in the grammar -/
theorem printNodes_G (e : Expr) : G false (printNodes e) := by
  induction e with
  | num l => exact G.atom (G.num _)
  | var x => exact G.atom (G.ident _)
  | un o e ih => exact G.un o.sym (by cases o <;> simp [UOp.sym]) ih
  | bin o l r ihl ihr => exact G.append o.sym ihl ihr
  | paren e ih => exact G.atom (G.paren ih)

def atomPart (cfg : ParseCfg) (fuel : Nat) (cur : Tok) : PM (List ENode) :=
  if cur.ty == .LPAREN then do
    let inner ← parseExprNodes cfg fuel
    let c ← pCurrent
    expectTok c .RPAREN
    let _ ← pNext
    pure (ENode.lparen :: inner ++ [ENode.rparen])
  else if cur.ty == .NUMBER then pure [ENode.term .number cur.val]
  else if cur.ty == .IDENTIFIER then pure [ENode.term .identifier cur.val]
  else if cur.ty == .BOOLEAN then pure [ENode.term .other cur.val]
  else if cur.ty == .OPERATOR && (cur.val == "-" || cur.val == "~") then do
    let rest ← parseExprNodes cfg fuel
    pure (ENode.unop cur.val :: rest)
  else pFail cur

def afterAtom (cfg : ParseCfg) (fuel : Nat) (toks : List ENode) : PM (List ENode) := do
  let op ← pCurrent
  if op.ty == .OPERATOR then do
    let _ ← pNext
    let rest ← parseExprNodes cfg fuel
    pure (toks ++ ENode.binop op.val :: rest)
  else pure toks

theorem parseExprNodes_succ (cfg : ParseCfg) (fuel : Nat) :
    parseExprNodes cfg (fuel + 1) = (do let cur ← pNext; let toks ← atomPart cfg fuel cur; afterAtom cfg fuel toks) := by
  unfold parseExprNodes
  congr 1
  funext cur
  unfold atomPart
  simp only []
  by_cases h1 : (cur.ty == TokTy.LPAREN) = true
  · simp only [h1, ↓reduceIte, bind_assoc, pure_bind]; rfl
  · by_cases h2 : (cur.ty == TokTy.NUMBER) = true
    · simp only [h1, h2, ↓reduceIte, pure_bind, Bool.false_eq_true]; rfl
    · by_cases h3 : (cur.ty == TokTy.IDENTIFIER) = true
      · simp only [h1, h2, h3, ↓reduceIte, pure_bind, Bool.false_eq_true]; rfl
      · by_cases h4 : (cur.ty == TokTy.BOOLEAN) = true
        · simp only [h1, h2, h3, h4, ↓reduceIte, pure_bind, Bool.false_eq_true]; rfl
        · by_cases h5 : (cur.ty == TokTy.OPERATOR && (cur.val == "-" || cur.val == "~")) = true
          · simp only [h1, h2, h3, h4, h5, ↓reduceIte, bind_assoc, pure_bind, Bool.false_eq_true]; rfl
          · simp only [h1, h2, h3, h4, h5, ↓reduceIte, Bool.false_eq_true]; rfl
def adv (st : PState) (n : Nat) : PState := { st with pos := st.pos + n }

/-- the tokens from position `p` on are the printout of `ns` -/
def Matches (st : PState) (p : Nat) (ns : List ENode) : Prop :=
  ∀ i (h : i < ns.length), TokIs (st.toks.getD (p + i) eofTok) ns[i]

theorem bind_ok {α β} (m : PM α) (f : α → PM β) (st st1 : PState) (a : α) (h : m st = .ok (a, st1)) :
    (m >>= f) st = f a st1 := by
  show (StateT.bind m f) st = _
  unfold StateT.bind
  simp only [h, bind, Except.bind]

theorem pNext_eq (st : PState) : pNext st = .ok (st.toks.getD st.pos eofTok, adv st 1) := rfl
theorem pCurrent_eq (st : PState) : pCurrent st = .ok (st.toks.getD st.pos eofTok, st) := rfl

theorem adv_adv (st : PState) (a b : Nat) : adv (adv st a) b = adv st (a + b) := by
  simp [adv, Nat.add_assoc]
@[simp] theorem adv_toks (st : PState) (n : Nat) : (adv st n).toks = st.toks := rfl
@[simp] theorem adv_pos (st : PState) (n : Nat) : (adv st n).pos = st.pos + n := rfl

theorem Matches.tail {st : PState} {p : Nat} {n : ENode} {ns : List ENode} (h : Matches st p (n :: ns)) :
    TokIs (st.toks.getD p eofTok) n ∧ Matches st (p + 1) ns := by
  refine ⟨by have := h 0 (by simp); simp only [Nat.add_zero, List.getElem_cons_zero] at this; exact this, fun i hi => ?_⟩
  have := h (i + 1) (by simp; omega)
  simp only [List.getElem_cons_succ] at this
  rw [show p + (i + 1) = p + 1 + i by omega] at this; exact this

theorem Matches.append {st : PState} {p : Nat} {a b : List ENode} (h : Matches st p (a ++ b)) :
    Matches st p a ∧ Matches st (p + a.length) b := by
  refine ⟨fun i hi => ?_, fun i hi => ?_⟩
  · have := h i (by simp; omega)
    rwa [List.getElem_append_left hi] at this
  · have := h (a.length + i) (by simp; omega)
    rw [List.getElem_append_right (by omega)] at this
    simp only [Nat.add_sub_cancel_left] at this
    rw [show p + (a.length + i) = p + a.length + i by omega] at this; exact this


/-- after an operand: a following operator continues the expression, anything else ends it -/
theorem afterAtom_stop (cfg : ParseCfg) (fuel : Nat) (toks : List ENode) (st : PState)
    (h : (st.toks.getD st.pos eofTok).ty ≠ .OPERATOR) : afterAtom cfg fuel toks st = .ok (toks, st) := by
  unfold afterAtom
  rw [bind_ok _ _ st st _ (pCurrent_eq st)]
  have : ((st.toks.getD st.pos eofTok).ty == TokTy.OPERATOR) = false := by simpa using h
  simp only [this, Bool.false_eq_true, ↓reduceIte]
  rfl

theorem afterAtom_cont (cfg : ParseCfg) (fuel : Nat) (toks : List ENode) (st : PState) (v : String)
    (h : (st.toks.getD st.pos eofTok).ty = .OPERATOR) (hv : (st.toks.getD st.pos eofTok).val = v)
    (rest : List ENode) (st2 : PState) (hr : parseExprNodes cfg fuel (adv st 1) = .ok (rest, st2)) :
    afterAtom cfg fuel toks st = .ok (toks ++ ENode.binop v :: rest, st2) := by
  unfold afterAtom
  rw [bind_ok _ _ st st _ (pCurrent_eq st)]
  have : ((st.toks.getD st.pos eofTok).ty == TokTy.OPERATOR) = true := by rw [h]; rfl
  simp only [this, ↓reduceIte]
  rw [bind_ok _ _ st (adv st 1) _ (pNext_eq st), bind_ok _ _ _ st2 rest hr, hv]
  rfl

theorem atomPart_num (cfg : ParseCfg) (fuel : Nat) (cur : Tok) (st : PState) (h : cur.ty = .NUMBER) :
    atomPart cfg fuel cur st = .ok ([ENode.term .number cur.val], st) := by
  unfold atomPart; rw [h]; rfl

theorem atomPart_ident (cfg : ParseCfg) (fuel : Nat) (cur : Tok) (st : PState) (h : cur.ty = .IDENTIFIER) :
    atomPart cfg fuel cur st = .ok ([ENode.term .identifier cur.val], st) := by
  unfold atomPart; rw [h]; rfl

theorem atomPart_paren (cfg : ParseCfg) (fuel : Nat) (cur : Tok) (st st1 : PState) (inner : List ENode) (h : cur.ty = .LPAREN)
    (hin : parseExprNodes cfg fuel st = .ok (inner, st1)) (hr : (st1.toks.getD st1.pos eofTok).ty = .RPAREN) :
    atomPart cfg fuel cur st = .ok (ENode.lparen :: inner ++ [ENode.rparen], adv st1 1) := by
  unfold atomPart; rw [h]
  simp only [beq_self_eq_true, ↓reduceIte]
  rw [bind_ok _ _ _ _ _ hin, bind_ok _ _ _ _ _ (pCurrent_eq _)]
  have hex : expectTok (st1.toks.getD st1.pos eofTok) TokTy.RPAREN st1 = .ok ((), st1) := by
    unfold expectTok; rw [hr]; rfl
  rw [bind_ok _ _ _ _ _ hex, bind_ok _ _ _ _ _ (pNext_eq _)]
  rfl

theorem atomPart_un (cfg : ParseCfg) (fuel : Nat) (cur : Tok) (st st1 : PState) (rest : List ENode) (h : cur.ty = .OPERATOR)
    (hv : cur.val = "-" ∨ cur.val = "~") (hin : parseExprNodes cfg fuel st = .ok (rest, st1)) :
    atomPart cfg fuel cur st = .ok (ENode.unop cur.val :: rest, st1) := by
  unfold atomPart; rw [h]
  have hvv : (cur.val == "-" || cur.val == "~") = true := by rcases hv with h | h <;> rw [h] <;> decide
  simp only [hvv, show (TokTy.OPERATOR == TokTy.LPAREN) = false from rfl, show (TokTy.OPERATOR == TokTy.NUMBER) = false from rfl,
        show (TokTy.OPERATOR == TokTy.IDENTIFIER) = false from rfl, show (TokTy.OPERATOR == TokTy.BOOLEAN) = false from rfl,
        Bool.false_eq_true, ↓reduceIte, beq_self_eq_true, Bool.and_self]
  rw [bind_ok _ _ _ _ _ hin]
  rfl

theorem parse_split (cfg : ParseCfg) (fuel : Nat) :
    parseExprNodes cfg (fuel + 1) = ((pNext >>= atomPart cfg fuel) >>= afterAtom cfg fuel) := by
  rw [parseExprNodes_succ]; simp [bind_assoc]

theorem parse_G (cfg : ParseCfg) {f : Bool} {ns : List ENode} (hg : G f ns) :
    ∀ (fuel : Nat) (st : PState), Matches st st.pos ns →
      (f = true → ns.length ≤ fuel + 1 → (pNext >>= atomPart cfg fuel) st = .ok (ns, adv st ns.length)) ∧
      (f = false → ns.length ≤ fuel → (st.toks.getD (st.pos + ns.length) eofTok).ty ≠ .OPERATOR →
        parseExprNodes cfg fuel st = .ok (ns, adv st ns.length)) := by
  induction hg with
  | num v =>
    intro fuel st hm
    refine ⟨fun _ _ => ?_, fun h => by cases h⟩
    have ht : (st.toks.getD st.pos eofTok).ty = .NUMBER ∧ (st.toks.getD st.pos eofTok).val = v := by
      have := (Matches.tail hm).1; simpa only [TokIs] using this
    rw [bind_ok _ _ st (adv st 1) _ (pNext_eq st), atomPart_num _ _ _ _ ht.1, ht.2]
    rfl
  | ident v =>
    intro fuel st hm
    refine ⟨fun _ _ => ?_, fun h => by cases h⟩
    have ht : (st.toks.getD st.pos eofTok).ty = .IDENTIFIER ∧ (st.toks.getD st.pos eofTok).val = v := by
      have := (Matches.tail hm).1; simpa only [TokIs] using this
    rw [bind_ok _ _ st (adv st 1) _ (pNext_eq st), atomPart_ident _ _ _ _ ht.1, ht.2]
    rfl
  | @paren l hl ih =>
    intro fuel st hm
    refine ⟨fun _ hlen => ?_, fun h => by cases h⟩
    obtain ⟨h0, hm1⟩ := Matches.tail hm
    obtain ⟨hml, hmr⟩ := Matches.append hm1
    have hlp : (st.toks.getD st.pos eofTok).ty = .LPAREN := by simpa only [TokIs] using h0
    have hrp : (st.toks.getD (st.pos + 1 + l.length) eofTok).ty = .RPAREN := by
      have := (Matches.tail hmr).1; simpa only [TokIs] using this
    simp only [List.length_cons, List.length_append, List.length_nil] at hlen
    rw [bind_ok _ _ st (adv st 1) _ (pNext_eq st)]
    have hin := (ih fuel (adv st 1) hml).2 rfl (by omega) (by show (st.toks.getD (st.pos + 1 + l.length) eofTok).ty ≠ _; rw [hrp]; decide)
    rw [atomPart_paren cfg fuel _ _ _ l hlp hin (by show (st.toks.getD (st.pos + 1 + l.length) eofTok).ty = _; exact hrp)]
    rw [adv_adv, adv_adv]
    simp only [List.length_cons, List.length_append, List.length_nil, List.cons_append]
    rw [show 1 + (l.length + 1) = l.length + (0 + 1) + 1 by omega]
  | @atom a ha ih =>
    intro fuel st hm
    refine ⟨(fun h => by cases h), fun _ hlen hf => ?_⟩
    have hpos : 0 < a.length := by
      cases ha <;> simp
    obtain ⟨fuel', rfl⟩ : ∃ k, fuel = k + 1 := ⟨fuel - 1, by omega⟩
    have hq := (ih fuel' st hm).1 rfl hlen
    rw [parse_split, bind_ok _ _ _ _ _ hq]
    exact afterAtom_stop cfg fuel' a _ hf
  | @un l v hv hl ih =>
    intro fuel st hm
    refine ⟨(fun h => by cases h), fun _ hlen hf => ?_⟩
    obtain ⟨h0, hm1⟩ := Matches.tail hm
    have ht : (st.toks.getD st.pos eofTok).ty = .OPERATOR ∧ (st.toks.getD st.pos eofTok).val = v := by
      have := h0; simp only [TokIs] at this; exact ⟨this.1, this.2.1⟩
    simp only [List.length_cons] at hlen hf
    obtain ⟨fuel', rfl⟩ : ∃ k, fuel = k + 1 := ⟨fuel - 1, by omega⟩
    have hrest := (ih fuel' (adv st 1) hm1).2 rfl (by omega)
      (by show (st.toks.getD (st.pos + 1 + l.length) eofTok).ty ≠ _
          rw [show st.pos + 1 + l.length = st.pos + (l.length + 1) by omega]; exact hf)
    have hat := atomPart_un cfg fuel' _ _ _ l ht.1 (by rw [ht.2]; exact hv) hrest
    have hq : (pNext >>= atomPart cfg fuel') st = .ok (ENode.unop v :: l, adv st (1 + l.length)) := by
      rw [bind_ok _ _ st (adv st 1) _ (pNext_eq st), hat, ht.2, adv_adv]
    rw [parse_split, bind_ok _ _ _ _ _ hq]
    have := afterAtom_stop cfg fuel' (ENode.unop v :: l) (adv st (1 + l.length))
      (by show (st.toks.getD (st.pos + (1 + l.length)) eofTok).ty ≠ _
          rw [show st.pos + (1 + l.length) = st.pos + (l.length + 1) by omega]; exact hf)
    rw [this, show 1 + l.length = l.length + 1 by omega]
    rfl
  | @bin a l v ha hl iha ihl =>
    intro fuel st hm
    refine ⟨(fun h => by cases h), fun _ hlen hf => ?_⟩
    obtain ⟨hma, hmr⟩ := Matches.append hm
    obtain ⟨hop, hml⟩ := Matches.tail hmr
    have ht : (st.toks.getD (st.pos + a.length) eofTok).ty = .OPERATOR ∧ (st.toks.getD (st.pos + a.length) eofTok).val = v := by
      simpa only [TokIs] using hop
    simp only [List.length_append, List.length_cons] at hlen hf
    obtain ⟨fuel', rfl⟩ : ∃ k, fuel = k + 1 := ⟨fuel - 1, by omega⟩
    have hq := (iha fuel' st hma).1 rfl (by omega)
    rw [parse_split, bind_ok _ _ _ _ _ hq]
    have hrest := (ihl fuel' (adv (adv st a.length) 1) hml).2 rfl (by omega)
      (by show (st.toks.getD (st.pos + a.length + 1 + l.length) eofTok).ty ≠ _
          rw [show st.pos + a.length + 1 + l.length = st.pos + (a.length + (l.length + 1)) by omega]; exact hf)
    have := afterAtom_cont cfg fuel' a (adv st a.length) v ht.1 ht.2 l _ hrest
    rw [this, adv_adv, adv_adv]
    simp only [List.length_append, List.length_cons]
    rw [show a.length + (1 + l.length) = a.length + (l.length + 1) by omega]


/-- **classification**: on the printout of any expression tree, followed by a token that is not an operator,
    `parse_expression` returns exactly the tree's node list (every `-`/`~` in operand position a prefix operator,
    every other operator binary, parentheses kept) and stops right behind it; `|printout| + 1` fuel suffices. -/
theorem parseExpr_print (cfg : ParseCfg) (e : Expr) (fuel : Nat) (st : PState)
    (hm : Matches st st.pos (printNodes e)) (hfuel : (printNodes e).length < fuel)
    (hf : (st.toks.getD (st.pos + (printNodes e).length) eofTok).ty ≠ .OPERATOR) :
    parseExpr cfg fuel st = .ok (⟨printNodes e, st.toks.getD st.pos eofTok⟩, adv st (printNodes e).length) := by
  obtain ⟨fuel', rfl⟩ : ∃ k, fuel = k + 1 := ⟨fuel - 1, by omega⟩
  show (pCurrent >>= fun first => parseExprNodes cfg fuel' >>= fun nodes => pure (⟨nodes, first⟩ : PExpr)) st = _
  rw [bind_ok _ _ _ _ _ (pCurrent_eq st),
    bind_ok _ _ _ _ _ ((parse_G cfg (printNodes_G e) fuel' st hm).2 rfl (by omega) hf)]
  rfl

/-- the number of tokens consumed does not depend on anything but the printout: the parser never reads
    past the first token after the expression -/
theorem parseExpr_print_local (cfg : ParseCfg) (e : Expr) (fuel : Nat) (st st' : PState)
    (hm : Matches st st.pos (printNodes e)) (hm' : Matches st' st'.pos (printNodes e))
    (hfuel : (printNodes e).length < fuel)
    (hf : (st.toks.getD (st.pos + (printNodes e).length) eofTok).ty ≠ .OPERATOR)
    (hf' : (st'.toks.getD (st'.pos + (printNodes e).length) eofTok).ty ≠ .OPERATOR) :
    (parseExpr cfg fuel st).toOption.map (·.1.nodes) = (parseExpr cfg fuel st').toOption.map (·.1.nodes) := by
  rw [parseExpr_print cfg e fuel st hm hfuel hf, parseExpr_print cfg e fuel st' hm' hfuel hf']
  rfl

end A816.Classify
