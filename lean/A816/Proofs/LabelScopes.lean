import A816.Proofs.LabelCheck
import A816.Proofs.Replay
/-!
# The label and symbol tables of every scope through the passes (nested scopes; helper lemmas for C02)

`Proofs/LabelCheck.lean` follows the tables of the one scope a marker-free list stays in.  Here the node list may
contain `ScopeNode` / `PopScopeNode` markers: a pass moves between scopes, writes a name into the scope that is current
when the defining node is visited, and — leaving a named scope — copies `scope.key` entries (keys that contain a dot)
into the parent's `symbols`.  `KeepsAt k` states what a traversal leaves untouched in scope `k`.
-/
namespace A816.LabelScopes
open A816 LabelCheck Replay

/-- the name contains no `.` (exports of named scopes are written under keys that do) -/
def NoDot (x : String) : Prop := '.' ∉ x.toList

theorem ne_dotted (x sc key : String) (h : NoDot x) : x ≠ sc ++ "." ++ key := by
  intro e
  apply h
  rw [e, String.toList_append, String.toList_append]
  simp

theorem scopeAt_modifyCur_ne (r : Resolver) (f : ScopeRec → ScopeRec) (k : Nat) (h : k ≠ r.current) :
    (r.modifyCur f).scopeAt k = r.scopeAt k := by
  unfold Resolver.modifyCur Resolver.scopeAt
  simp only [Array.getD_eq_getD_getElem?, Array.getElem?_modify]
  have : ¬ r.current = k := fun e => h e.symm
  simp [this]

theorem addSymbol_others (r : Resolver) (name : String) (v : Int) (k : Nat) (h : k ≠ r.current) :
    (r.addSymbol name v).scopeAt k = r.scopeAt k := scopeAt_modifyCur_ne r _ k h

theorem addLabel_others (r : Resolver) (name : String) (v : Int) (k : Nat) (h : k ≠ r.current) :
    (r.addLabel name v).scopeAt k = r.scopeAt k := scopeAt_modifyCur_ne r _ k h

/-- `pc_after` of a node that is not a scope marker leaves every other scope alone -/
theorem pcAfter_others (env : Env) (n : Node) (r r' : Resolver) (pc pc' : Address) (hm : isMarker n = false)
    (h : pcAfter env n r pc = .ok (r', pc')) : ∀ k, k ≠ r.current → r'.scopeAt k = r.scopeAt k := by
  intro k hk
  cases n with
  | label name =>
    simp only [pcAfter, Except.ok.injEq, Prod.mk.injEq] at h
    rw [← h.1]; exact addLabel_others r name _ k hk
  | symbol name e =>
    unfold pcAfter at h
    cases hv : evalP env r e with
    | error er => simp [hv] at h
    | ok v =>
      simp only [hv, Except.ok.injEq, Prod.mk.injEq] at h
      rw [← h.1]; exact addSymbol_others r name v k hk
  | argSymbol name e =>
    unfold pcAfter at h
    cases hp : r.cur.parent with
    | none => simp [hp] at h
    | some par =>
      simp only [hp] at h
      cases hv : evalP env { r with current := par } e with
      | error er => simp [hv] at h
      | ok v =>
        simp only [hv, Except.ok.injEq, Prod.mk.injEq] at h
        rw [← h.1]; exact addSymbol_others r name v k hk
  | symbolConst name v =>
    simp only [pcAfter, Except.ok.injEq, Prod.mk.injEq] at h
    rw [← h.1]; exact addSymbol_others r name v k hk
  | binary content base =>
    unfold pcAfter at h
    cases ha : addrAdd pc content.length with
    | error er => simp [ha] at h
    | ok a =>
      simp only [ha, Except.ok.injEq, Prod.mk.injEq] at h
      rw [← h.1]
      have hc : (r.addLabel base pc.logical).current = r.current := (modifyCur_shape r _).1
      rw [addSymbol_others _ _ _ k (by rw [hc]; exact hk), addLabel_others r base _ k hk]
  | scopeEnter => cases hm
  | scopePop => cases hm
  | data w e info =>
    unfold pcAfter at h
    rw [map_ok h]
  | opcode mn size mode index value info =>
    simp only [pcAfter] at h
    split at h
    · cases h
    · split at h
      · cases h
      · rw [map_ok h]
  | codePos e info =>
    simp only [pcAfter] at h
    split at h
    · cases h
    · split at h
      · cases h
      · split at h
        · cases h
        · simp only [Except.ok.injEq, Prod.mk.injEq] at h; rw [← h.1]
  | reloc e info =>
    simp only [pcAfter] at h
    split at h
    · cases h
    · split at h
      · cases h
      · split at h
        · cases h
        · simp only [Except.ok.injEq, Prod.mk.injEq] at h; rw [← h.1]
  | includeIps blocks => simp only [pcAfter, Except.ok.injEq, Prod.mk.injEq] at h; rw [← h.1]
  | table => simp only [pcAfter, Except.ok.injEq, Prod.mk.injEq] at h; rw [← h.1]
  | text s tbl info =>
    unfold pcAfter at h
    cases ht : textBytes s tbl info with
    | error er => simp [ht] at h
    | ok tb => simp only [ht] at h; rw [map_ok h]
  | ascii s =>
    unfold pcAfter at h
    rw [map_ok h]

/-- what a traversal leaves untouched in scope `k` -/
structure KeepsAt (k : Nat) (r r' : Resolver) (labs syms : List String) : Prop where
  code : (r'.scopeAt k).codeSymbols = (r.scopeAt k).codeSymbols
  parent : (r'.scopeAt k).parent = (r.scopeAt k).parent
  labels : ∀ x, x ∉ labs → alookup x (r'.scopeAt k).labels = alookup x (r.scopeAt k).labels
  symbols : ∀ x, x ∉ syms → NoDot x → alookup x (r'.scopeAt k).symbols = alookup x (r.scopeAt k).symbols

theorem KeepsAt.refl (k : Nat) (r : Resolver) (a b : List String) : KeepsAt k r r a b :=
  ⟨rfl, rfl, fun _ _ => rfl, fun _ _ _ => rfl⟩

theorem KeepsAt.of_eq {k : Nat} {r r' : Resolver} (h : r'.scopeAt k = r.scopeAt k) (a b : List String) : KeepsAt k r r' a b :=
  ⟨by rw [h], by rw [h], fun _ _ => by rw [h], fun _ _ _ => by rw [h]⟩

theorem KeepsAt.trans {k : Nat} {r1 r2 r3 : Resolver} {a b c d : List String} (h1 : KeepsAt k r1 r2 a b) (h2 : KeepsAt k r2 r3 c d) :
    KeepsAt k r1 r3 (a ++ c) (b ++ d) :=
  ⟨by rw [h2.code, h1.code], by rw [h2.parent, h1.parent],
   fun x hx => by rw [h2.labels x (fun h => hx (List.mem_append_right _ h)), h1.labels x (fun h => hx (List.mem_append_left _ h))],
   fun x hx hd => by rw [h2.symbols x (fun h => hx (List.mem_append_right _ h)) hd, h1.symbols x (fun h => hx (List.mem_append_left _ h)) hd]⟩

theorem KeepsAt.mono {k : Nat} {r r' : Resolver} {a b a' b' : List String} (h : KeepsAt k r r' a b)
    (ha : ∀ x, x ∈ a → x ∈ a') (hb : ∀ x, x ∈ b → x ∈ b') : KeepsAt k r r' a' b' :=
  ⟨h.code, h.parent, fun x hx => h.labels x (fun hh => hx (ha x hh)), fun x hx hd => h.symbols x (fun hh => hx (hb x hh)) hd⟩

/-- one non-marker node, seen from scope `k` -/
theorem pcAfter_keepsAt (env : Env) (n : Node) (r r' : Resolver) (pc pc' : Address) (hm : isMarker n = false)
    (hc : r.current < r.scopes.size) (h : pcAfter env n r pc = .ok (r', pc')) (k : Nat) :
    KeepsAt k r r' (if k = r.current then labelNames n else []) (if k = r.current then symNames n else []) := by
  by_cases hk : k = r.current
  · subst hk
    have kk := pcAfter_keeps env n r r' pc pc' hm hc h
    simp only [↓reduceIte]
    have e1 : r'.scopeAt r.current = r'.cur := by unfold Resolver.cur; rw [kk.cur]
    have e2 : r.scopeAt r.current = r.cur := rfl
    exact ⟨by rw [e1, e2, kk.code], by rw [e1, e2, kk.parent], fun x hx => by rw [e1, e2, kk.labels x hx],
      fun x hx _ => by rw [e1, e2, kk.symbols x hx]⟩
  · simp only [hk, ↓reduceIte]
    exact KeepsAt.of_eq (pcAfter_others env n r r' pc pc' hm h k hk) _ _

theorem fold_export_lookup (x name : String) (hd : NoDot x) (l : List (String × Int)) :
    ∀ init : List (String × Int),
      alookup x (l.foldl (fun acc (kv : String × Int) => ainsert (name ++ "." ++ kv.1) kv.2 acc) init) = alookup x init := by
  induction l with
  | nil => intro init; rfl
  | cons kv rest ih =>
    intro init
    simp only [List.foldl_cons]
    rw [ih]
    exact alookup_ainsert_ne _ _ _ _ (ne_dotted x name kv.1 hd)

/-- what `restore_scope(exports=True)` does to the parent of a named scope -/
def exportInto (name : String) (src : List (String × Int)) (ps : ScopeRec) : ScopeRec :=
  { ps with symbols := List.foldl (fun acc (kv : String × Int) => ainsert (name ++ "." ++ kv.1) kv.2 acc) ps.symbols src }

theorem getD_modify (a : Array ScopeRec) (p k : Nat) (f : ScopeRec → ScopeRec) :
    (a.modify p f).getD k default = (if p = k ∧ k < a.size then f (a.getD k default) else a.getD k default) := by
  simp only [Array.getD_eq_getD_getElem?, Array.getElem?_modify]
  by_cases hpk : p = k
  · subst hpk
    simp only [↓reduceIte, true_and]
    by_cases hlt : p < a.size
    · simp [hlt]
    · simp [hlt]
  · simp [hpk]

/-- leaving a scope (with or without exports): no `labels`, no `codeSymbols`, no parent link changes anywhere, and
    `symbols` change only under dotted keys -/
theorem restoreScope_keepsAt (r r' : Resolver) (ex : Bool) (h : r.restoreScope ex = some r') (k : Nat) :
    KeepsAt k r r' [] [] := by
  unfold Resolver.restoreScope at h
  simp only [Resolver.cur, Resolver.scopeAt] at h
  split at h
  · cases h
  · rename_i p hp
    simp only [Option.some.injEq] at h
    have plain : ∀ (r2 : Resolver), r2.scopes = r.scopes → r'.scopes = r2.scopes → KeepsAt k r r' [] [] := by
      intro r2 h2 h3
      have hs : r'.scopeAt k = r.scopeAt k := by unfold Resolver.scopeAt; rw [h3, h2]
      exact KeepsAt.of_eq hs _ _
    cases ex with
    | false => exact plain r rfl (by rw [← h])
    | true =>
      cases hk : (r.scopes.getD r.current default).kind with
      | plain => simp only [hk] at h; exact plain r rfl (by rw [← h])
      | internal => simp only [hk] at h; exact plain r rfl (by rw [← h])
      | named name =>
        simp only [hk] at h
        have hs : r'.scopeAt k = (r.scopes.modify p (exportInto name (r.scopes.getD r.current default).symbols)).getD k default := by
          rw [← h]; rfl
        rw [getD_modify] at hs
        by_cases hc : p = k ∧ k < r.scopes.size
        · simp only [hc, and_self, ↓reduceIte] at hs
          refine ⟨by rw [hs]; rfl, by rw [hs]; rfl, fun _ _ => by rw [hs]; rfl, fun x _ hd => ?_⟩
          rw [hs]
          unfold exportInto
          exact fold_export_lookup x name hd _ _
        · simp only [hc, ↓reduceIte] at hs
          exact KeepsAt.of_eq hs _ _

theorem useNextScope_keepsAt (r r' : Resolver) (h : r.useNextScope = some r') (k : Nat) : KeepsAt k r r' [] [] := by
  unfold Resolver.useNextScope at h
  split at h
  · cases h; exact ⟨rfl, rfl, fun _ _ => rfl, fun _ _ _ => rfl⟩
  · cases h

theorem isMarker_eq (n : Node) : isMarker n = Node.isScopeMark n := by cases n <;> rfl

/-- names the visited nodes write (by `f`) while scope `k` is current, along the positional replay over the scope
    array `S` from (current scope `c`, last used scope `l`) -/
def namesIn (f : Node → List String) (skip : Node → Bool) (S : Array ScopeRec) (k : Nat) : List Node → Nat → Nat → List String
  | [], _, _ => []
  | n :: ns, c, l =>
    (if c = k ∧ skip n = false ∧ isMarker n = false then f n else []) ++
      (match replay S [n] c l with
       | some (c', l') => namesIn f skip S k ns c' l'
       | none => [])

/-- parent links point into the array -/
def ParentsOk (S : Array ScopeRec) : Prop := ∀ i p, (S.getD i default).parent = some p → p < S.size

theorem pcAfter_marker_keepsAt (env : Env) (n : Node) (r r' : Resolver) (pc pc' : Address) (hm : isMarker n = true)
    (h : pcAfter env n r pc = .ok (r', pc')) (k : Nat) : KeepsAt k r r' [] [] := by
  cases n <;> simp [isMarker] at hm
  · simp only [pcAfter] at h
    split at h
    · rename_i r2 hr2
      simp only [Except.ok.injEq, Prod.mk.injEq] at h
      rw [← h.1]; exact useNextScope_keepsAt r r2 hr2 k
    · cases h
  · simp only [pcAfter] at h
    split at h
    · rename_i r2 hr2
      simp only [Except.ok.injEq, Prod.mk.injEq] at h
      rw [← h.1]; exact restoreScope_keepsAt r r2 true hr2 k
    · cases h

theorem pcAfter_marker_reloc (env : Env) (n : Node) (r r' : Resolver) (pc pc' : Address) (hm : isMarker n = true)
    (h : pcAfter env n r pc = .ok (r', pc')) : r'.reloc = r.reloc := by
  cases n <;> simp [isMarker] at hm
  · simp only [pcAfter] at h
    split at h
    · rename_i r2 hr2
      simp only [Except.ok.injEq, Prod.mk.injEq] at h
      rw [← h.1]
      unfold Resolver.useNextScope at hr2
      split at hr2
      · cases hr2; rfl
      · cases hr2
    · cases h
  · simp only [pcAfter] at h
    split at h
    · rename_i r2 hr2
      simp only [Except.ok.injEq, Prod.mk.injEq] at h
      rw [← h.1]
      unfold Resolver.restoreScope at hr2
      simp only [Resolver.cur, Resolver.scopeAt] at hr2
      split at hr2
      · cases hr2
      · simp only [Option.some.injEq] at hr2
        split at hr2 <;> (rw [← hr2])
    · cases h

/-- **a whole pass, seen from scope `k`**: `labels` / `symbols` of scope `k` change only under the names written by
    nodes visited while `k` was current (and, for `symbols`, under dotted keys) -/
theorem passLoop_keepsAt (env : Env) (skip : Node → Bool) (hskip : ∀ n, skip n = true → isMarker n = false)
    (S : Array ScopeRec) (hS : ParentsOk S) (k : Nat) :
    ∀ (ns : List Node) (r r' : Resolver) (pc pc' : Address),
      Agrees S r.scopes → r.scopes.size = S.size → r.current < S.size →
      passLoop env skip ns r pc = .ok (r', pc') →
      KeepsAt k r r' (namesIn labelNames skip S k ns r.current r.lastUsed) (namesIn symNames skip S k ns r.current r.lastUsed) ∧
        Agrees S r'.scopes ∧ r'.scopes.size = S.size ∧ r'.current < S.size ∧ r'.reloc = r.reloc := by
  intro ns
  induction ns with
  | nil =>
    intro r r' pc pc' hag hsz hc h
    simp only [passLoop, Except.ok.injEq, Prod.mk.injEq] at h
    rw [← h.1]; exact ⟨KeepsAt.refl _ _ _ _, hag, hsz, hc, rfl⟩
  | cons n ns ih =>
    intro r r' pc pc' hag hsz hc h
    simp only [passLoop] at h
    by_cases hs : skip n = true
    · simp only [hs, ↓reduceIte] at h
      have hm := hskip n hs
      have hrep : replay S [n] r.current r.lastUsed = some (r.current, r.lastUsed) :=
        replay_leaves S [n] _ _ (leaf1 n (by rw [← isMarker_eq]; exact hm))
      obtain ⟨kk, h2, h3, h4, h5⟩ := ih r r' pc pc' hag hsz hc h
      refine ⟨?_, h2, h3, h4, h5⟩
      simp only [namesIn, hs, hrep, Bool.true_eq_false, false_and, and_false, ↓reduceIte, List.nil_append]
      exact kk
    · have hs' : skip n = false := by simpa using hs
      simp only [hs', Bool.false_eq_true, ↓reduceIte] at h
      cases hp : pcAfter env n r pc with
      | error e => simp [hp] at h
      | ok q =>
        obtain ⟨r1, pc1⟩ := q
        simp only [hp] at h
        obtain ⟨hrep, hag1, hsz1⟩ := pcAfter_replay env n r r1 pc pc1 hp
        have hrepS : replay S [n] r.current r.lastUsed = some (r1.current, r1.lastUsed) := by
          rw [← replay_congr S r.scopes hag hsz [n]]; exact hrep
        have hagS1 : Agrees S r1.scopes := hag.trans hag1
        have hszS1 : r1.scopes.size = S.size := by rw [hsz1, hsz]
        -- the scope that is current afterwards exists
        have hc1 : r1.current < S.size := by
          cases n with
          | scopeEnter =>
            simp only [replay] at hrepS
            split at hrepS
            · simp only [replay, Option.some.injEq, Prod.mk.injEq] at hrepS; omega
            · cases hrepS
          | scopePop =>
            simp only [replay] at hrepS
            split at hrepS
            · rename_i p hpp
              simp only [replay, Option.some.injEq, Prod.mk.injEq] at hrepS
              rw [← hrepS.1]; exact hS _ _ hpp
            · cases hrepS
          | _ =>
            simp only [replay, Option.some.injEq, Prod.mk.injEq] at hrepS
            rw [← hrepS.1]; exact hc
        obtain ⟨kk, h2, h3, h4, h5⟩ := ih r1 r' pc1 pc' hagS1 hszS1 hc1 h
        have hrel1 : r1.reloc = r.reloc := by
          by_cases hmk : isMarker n = true
          · exact pcAfter_marker_reloc env n r r1 pc pc1 hmk hp
          · exact (pcAfter_keeps env n r r1 pc pc1 (by simpa using hmk) (by rw [hsz]; exact hc) hp).reloc
        refine ⟨?_, h2, h3, h4, by rw [h5, hrel1]⟩
        simp only [namesIn, hs', hrepS, true_and]
        by_cases hmk : isMarker n = true
        · have k1 := pcAfter_marker_keepsAt env n r r1 pc pc1 hmk hp k
          simp only [hmk, Bool.true_eq_false, and_false, ↓reduceIte, List.nil_append]
          simpa using k1.trans kk
        · have hmk' : isMarker n = false := by simpa using hmk
          have k1 := pcAfter_keepsAt env n r r1 pc pc1 hmk' (by rw [hsz]; exact hc) hp k
          simp only [hmk', and_true]
          by_cases hck : r.current = k
          · subst hck
            simp only [↓reduceIte] at k1 ⊢
            exact k1.trans kk
          · have : ¬ k = r.current := fun e => hck e.symm
            simp only [this, hck, ↓reduceIte, List.nil_append] at k1 ⊢
            simpa using k1.trans kk

theorem namesIn_mono (f g : Node → List String) (hfg : ∀ n x, x ∈ f n → x ∈ g n) (skip : Node → Bool) (S : Array ScopeRec) (k : Nat) :
    ∀ (ns : List Node) (c l : Nat) (x : String), x ∈ namesIn f skip S k ns c l → x ∈ namesIn g skip S k ns c l := by
  intro ns
  induction ns with
  | nil => intro c l x h; simp [namesIn] at h
  | cons n ns ih =>
    intro c l x h
    simp only [namesIn, List.mem_append] at h ⊢
    rcases h with h | h
    · left
      split at h
      · rename_i hc; rw [if_pos hc]; exact hfg n x h
      · cases h
    · right
      split at h
      · rename_i c' l' hr; exact ih c' l' x h
      · cases h

theorem no_labelNames_pass2 (S : Array ScopeRec) (k : Nat) :
    ∀ (ns : List Node) (c l : Nat), namesIn labelNames Node.isLabelOrBinary S k ns c l = [] := by
  intro ns
  induction ns with
  | nil => intro c l; rfl
  | cons n ns ih =>
    intro c l
    simp only [namesIn]
    have h1 : (if c = k ∧ Node.isLabelOrBinary n = false ∧ isMarker n = false then labelNames n else []) = [] := by
      split
      · rename_i hc
        cases n <;> simp [Node.isLabelOrBinary, labelNames] at hc ⊢
      · rfl
    rw [h1, List.nil_append]
    split
    · exact ih _ _
    · rfl

theorem isSymbol_not_marker : ∀ n, Node.isSymbol n = true → isMarker n = false := by
  intro n h; cases n <;> simp [Node.isSymbol] at h <;> rfl

theorem isLabelOrBinary_not_marker : ∀ n, Node.isLabelOrBinary n = true → isMarker n = false := by
  intro n h; cases n <;> simp [Node.isLabelOrBinary] at h <;> rfl

/-- **what the label pass leaves in the tables of the scope a label is visited in** -/
theorem pass1_label_scoped (env : Env) (S : Array ScopeRec) (hS : ParentsOk S) (pre : List Node) (name : String) (post : List Node)
    (r r' : Resolver) (pc pc' : Address) (hag : Agrees S r.scopes) (hsz : r.scopes.size = S.size) (hc : r.current < S.size)
    (h : passLoop env Node.isSymbol (pre ++ .label name :: post) r pc = .ok (r', pc')) :
    ∃ r1 pc1, passLoop env Node.isSymbol pre r pc = .ok (r1, pc1) ∧ r1.current < S.size ∧
      replay S pre r.current r.lastUsed = some (r1.current, r1.lastUsed) ∧
      (NoDot name → name ∉ namesIn symNames Node.isSymbol S r1.current post r1.current r1.lastUsed →
        alookup name (r'.scopeAt r1.current).labels = some (pc1.logical : Int) ∧
        alookup name (r'.scopeAt r1.current).symbols = some (pc1.logical : Int)) ∧
      (r'.scopeAt r1.current).codeSymbols = (r.scopeAt r1.current).codeSymbols ∧
      Agrees S r'.scopes ∧ r'.scopes.size = S.size := by
  obtain ⟨r1, pc1, h1, h2⟩ := passLoop_split env Node.isSymbol pre (.label name) post r r' pc pc' h
  obtain ⟨k0, hag1, hsz1, hc1, _⟩ := passLoop_keepsAt env Node.isSymbol isSymbol_not_marker S hS r1.current pre r r1 pc pc1 hag hsz hc h1
  obtain ⟨hrep, _, _⟩ := passLoop_replay env Node.isSymbol (fun n hn => by rw [← isMarker_eq]; exact isSymbol_not_marker n hn) pre r r1 pc pc1 h1
  have hrepS : replay S pre r.current r.lastUsed = some (r1.current, r1.lastUsed) := by
    rw [← replay_congr S r.scopes hag hsz pre]; exact hrep
  simp only [passLoop, Node.isSymbol, Bool.false_eq_true, ↓reduceIte, pcAfter] at h2
  have hc1' : r1.current < r1.scopes.size := by rw [hsz1]; exact hc1
  obtain ⟨ka, hl, hs⟩ := addLabel_keeps r1 name pc1.logical hc1'
  have hsame : (r1.addLabel name pc1.logical).scopes.size = S.size := by rw [ka.size, hsz1]
  have hag2 : Agrees S (r1.addLabel name pc1.logical).scopes := hag1.trans (addLabel_same r1 name _).agrees
  have hcur2 : (r1.addLabel name pc1.logical).current = r1.current := ka.cur
  have hlast2 : (r1.addLabel name pc1.logical).lastUsed = r1.lastUsed := (addLabel_same r1 name _).last
  obtain ⟨k2, hag3, hsz3, _, _⟩ := passLoop_keepsAt env Node.isSymbol isSymbol_not_marker S hS r1.current post _ r' pc1 pc' hag2 hsame
    (by rw [hcur2]; exact hc1) h2
  rw [hcur2, hlast2] at k2
  have ecur : (r1.addLabel name pc1.logical).scopeAt r1.current = (r1.addLabel name pc1.logical).cur := by
    unfold Resolver.cur; rw [hcur2]
  refine ⟨r1, pc1, h1, hc1, hrepS, ?_, ?_, hag3, hsz3⟩
  · intro hd hfresh
    have hfl : name ∉ namesIn labelNames Node.isSymbol S r1.current post r1.current r1.lastUsed :=
      fun hx => hfresh (namesIn_mono labelNames symNames labelNames_sub Node.isSymbol S r1.current post _ _ name hx)
    exact ⟨by rw [k2.labels name hfl, ecur, hl], by rw [k2.symbols name hfresh hd, ecur, hs]⟩
  · rw [k2.code, ecur, ka.code, ← k0.code]; rfl

end A816.LabelScopes
