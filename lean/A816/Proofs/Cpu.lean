import A816.Model.Cpu
import A816.Spec.Instr
/-! Helper lemmas for C01 (and C02/C07): width inference, operand bytes, emitter lookup. -/
namespace A816
open Spec

/-! ### `len(hex(v)) - 2` counts hex digits -/

theorem hexDigitsAux_le (fuel : Nat) : ∀ (v k : Nat), v ≤ fuel → 1 ≤ k → (hexDigitsAux fuel v ≤ k ↔ v < 16 ^ k) := by
  induction fuel with
  | zero =>
    intro v k hv hk
    have : v = 0 := by omega
    subst this
    simp only [hexDigitsAux]
    exact ⟨fun _ => Nat.pow_pos (by decide), fun _ => hk⟩
  | succ f ih =>
    intro v k hv hk
    unfold hexDigitsAux
    by_cases h16 : v < 16
    · simp only [h16, ↓reduceIte]
      have : 16 ^ 1 ≤ 16 ^ k := Nat.pow_le_pow_right (by decide) hk
      constructor
      · intro _; omega
      · intro _; exact hk
    · simp only [h16, ↓reduceIte]
      cases k with
      | zero => omega
      | succ k' =>
        cases k' with
        | zero =>
          have h1 := hexDigitsAux_pos f (v / 16)
          simp; omega
        | succ k'' =>
          have hdiv : v / 16 ≤ f := by omega
          have := ih (v / 16) (k'' + 1) hdiv (by omega)
          rw [Nat.pow_succ]
          constructor
          · intro h
            have h' : hexDigitsAux f (v / 16) ≤ k'' + 1 := by omega
            have := this.mp h'
            omega
          · intro h
            have : v / 16 < 16 ^ (k'' + 1) := by omega
            have := (ih (v / 16) (k'' + 1) hdiv (by omega)).mpr this
            omega
where
  hexDigitsAux_pos (fuel v : Nat) : 1 ≤ hexDigitsAux fuel v := by
    cases fuel with
    | zero => simp [hexDigitsAux]
    | succ f => unfold hexDigitsAux; split <;> omega

theorem hexDigits_le (v k : Nat) (hk : 1 ≤ k) : hexDigits v ≤ k ↔ v < 16 ^ k :=
  hexDigitsAux_le v v k (Nat.le_refl _) hk

/-- For a non-negative value the inferred width is the smallest of 1, 2, 3 bytes that holds it
    (3 also for anything wider, which `emit_value` then refuses). -/
theorem operandSize_nonneg (v : Int) (h : 0 ≤ v) :
    (v < 256 → operandSize v = 1) ∧ (256 ≤ v → v < 65536 → operandSize v = 2) ∧ (65536 ≤ v → operandSize v = 3) := by
  have hn : ¬ v < 0 := by omega
  have h2 := hexDigits_le v.toNat 2 (by decide)
  have h4 := hexDigits_le v.toNat 4 (by decide)
  simp only [show (16 : Nat) ^ 2 = 256 by decide, show (16 : Nat) ^ 4 = 65536 by decide] at h2 h4
  unfold operandSize pyHexLenMinus2
  simp only [hn, ↓reduceIte]
  refine ⟨fun hlt => ?_, fun hge hlt => ?_, fun hge => ?_⟩
  · have : hexDigits v.toNat ≤ 2 := h2.mpr (by omega)
    simp [this]
  · have a : ¬ hexDigits v.toNat ≤ 2 := fun c => by have := h2.mp c; omega
    have b : hexDigits v.toNat ≤ 4 := h4.mpr (by omega)
    simp [a, b]
  · have a : ¬ hexDigits v.toNat ≤ 2 := fun c => by have := h2.mp c; omega
    have b : ¬ hexDigits v.toNat ≤ 4 := fun c => by have := h4.mp c; omega
    simp [a, b]

theorem operandSize_range (v : Int) : operandSize v = 1 ∨ operandSize v = 2 ∨ operandSize v = 3 := by
  simp only [operandSize]
  split
  · exact Or.inl rfl
  · split
    · exact Or.inr (Or.inl rfl)
    · exact Or.inr (Or.inr rfl)

/-! ### operand bytes -/

/-- expected operand bytes: the value truncated to `w` bytes, little-endian -/
theorem emitValue_le (w : Nat) (v : Int) (bs : List Nat) (hw : w = 1 ∨ w = 2 ∨ w = 3)
    (h : emitValue w v = some bs) :
    bs = leBytes w (v % ((256 ^ w : Nat) : Int)).toNat ∧ (w = 3 → 0 ≤ v ∧ v < 16777216) := by
  rcases hw with hw | hw | hw <;> subst hw
  · have e : ((256 ^ 1 : Nat) : Int) = 256 := by decide
    rw [e]
    simp only [emitValue, ↓reduceIte, packB] at h
    split at h
    · cases h; refine ⟨?_, by omega⟩
      simp only [leBytes, List.cons.injEq, and_true]; omega
    · cases h
  · have e : ((256 ^ 2 : Nat) : Int) = 65536 := by decide
    rw [e]
    simp only [emitValue, show (2 : Nat) ≠ 1 by decide, ↓reduceIte, packHle] at h
    split at h
    · cases h; refine ⟨?_, by omega⟩
      simp only [leBytes, List.cons.injEq, and_true]
      refine ⟨?_, ?_⟩ <;> first | trivial | omega
    · cases h
  · have e : ((256 ^ 3 : Nat) : Int) = 16777216 := by decide
    rw [e]
    simp only [emitValue, show (3 : Nat) ≠ 1 by decide, show (3 : Nat) ≠ 2 by decide, ↓reduceIte, packHBle,
      packHle, packB] at h
    by_cases h1 : 0 ≤ v % 65536 ∧ v % 65536 ≤ 65535
    · by_cases h2 : 0 ≤ v / 65536 ∧ v / 65536 ≤ 255
      · simp only [h1, h2, and_self, ↓reduceIte, List.cons_append, List.nil_append, Option.some.injEq] at h
        subst h
        have hv : 0 ≤ v ∧ v < 16777216 := by omega
        refine ⟨?_, fun _ => hv⟩
        simp only [leBytes, List.cons.injEq, and_true]
        refine ⟨?_, ?_, ?_⟩ <;> first | trivial | omega
      · simp [h1, h2] at h
    · simp [h1] at h

/-! ### emitter lookup -/

theorem find?_mem' {α} {p : α → Bool} {l : List α} {a : α} (h : l.find? p = some a) : a ∈ l ∧ p a = true := by
  exact ⟨List.mem_of_find?_eq_some h, List.find?_some h⟩

theorem findEmitter_spec (tbl : List OpEntry) (mn : String) (mode : AddrMode) (index : Option Idx) (e : OpEntry)
    (h : findEmitter tbl mn mode index = .ok e) :
    e ∈ tbl ∧ e.mn = mn ∧ e.mode = mode ∧ (e.index = none ∨ e.index = index) := by
  unfold findEmitter at h
  generalize hrows : tbl.filter (fun e => e.mn == mn && e.mode == mode) = rows at h
  have hmem : ∀ x ∈ rows, x ∈ tbl ∧ x.mn = mn ∧ x.mode = mode := by
    intro x hx
    rw [← hrows, List.mem_filter] at hx
    obtain ⟨h1, h2⟩ := hx
    simp only [Bool.and_eq_true, beq_iff_eq] at h2
    exact ⟨h1, h2.1, h2.2⟩
  cases rows with
  | nil => simp at h
  | cons first rest =>
    simp only at h
    cases hfi : first.index with
    | none =>
      simp only [hfi, Except.ok.injEq] at h
      subst h
      have := hmem first (by simp)
      exact ⟨this.1, this.2.1, this.2.2, Or.inl hfi⟩
    | some fi =>
      simp only [hfi] at h
      cases index with
      | none => simp at h
      | some i =>
        simp only at h
        cases hf : (first :: rest).find? (fun e => e.index == some i) with
        | none => simp [hf] at h
        | some e' =>
          simp only [hf, Except.ok.injEq] at h
          subst h
          obtain ⟨m1, m2⟩ := find?_mem' hf
          have := hmem _ m1
          exact ⟨this.1, this.2.1, this.2.2, Or.inr (by simpa using m2)⟩

end A816
