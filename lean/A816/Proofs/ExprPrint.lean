import A816.Proofs.Expr
/-! C06 helper lemmas, part 2: the fused machine evaluates the printout of a well-formed tree. -/
namespace A816
open Spec

/-- token list of a tree: no parenthesis is inserted -/
def printNodes : Expr → List ENode
  | .num l => [.term .number (String.ofList l.render)]
  | .var x => [.term .identifier x]
  | .un o e => .unop o.sym :: printNodes e
  | .bin o l r => printNodes l ++ .binop o.sym :: printNodes r
  | .paren e => .lparen :: printNodes e ++ [.rparen]

def lookOf (env : String → Option Int) (x : String) : Look :=
  match env x with
  | some v => .int v
  | none => .undefined

/-- The operator table ranks the seven binary operators like the conventional levels, all above
    the rank 2 of a stacked prefix operator. -/
structure PrecOK (prec : PrecTable) where
  P : BOp → Nat
  hP : ∀ o, prec o.sym = some (P o)
  gt2 : ∀ o, 2 < P o
  mono : ∀ o o', o.level ≤ o'.level ↔ P o ≤ P o'

theorem PrecOK.lt {prec : PrecTable} (h : PrecOK prec) (o o' : BOp) : o.level < o'.level ↔ h.P o < h.P o' := by
  have := h.mono o' o; omega

/-- model-side level of a tree -/
def mlevel (P : BOp → Nat) : Expr → Nat
  | .num _ => 0 | .var _ => 0 | .paren _ => 0 | .un _ _ => 2 | .bin o _ _ => P o

/-- nothing inside a tree pops an operator of rank above `inner` -/
def inner (P : BOp → Nat) : Expr → Nat
  | .bin o _ _ => P o
  | _ => 0

def topOk (prec : PrecTable) (ℓ : Nat) : List ENode → Prop
  | [] => True
  | top :: _ => top.text = "(" ∨ ∃ q, stackPrec prec top = some q ∧ ℓ < q

theorem topOk_mono {prec : PrecTable} {a b : Nat} (h : a ≤ b) (st : List ENode) (hb : topOk prec b st) :
    topOk prec a st := by
  cases st with
  | nil => trivial
  | cons top _ =>
    rcases hb with hb | ⟨q, h1, h2⟩
    · exact Or.inl hb
    · exact Or.inr ⟨q, h1, by omega⟩

theorem fpop_stable (look : String → Look) (prec : PrecTable) (p : Nat) (vs : List Int) (st : List ENode)
    (h : topOk prec p st) : fpop look prec p vs st = .ok (vs, st) := by
  cases st with
  | nil => simp [fpop]
  | cons top rest =>
    unfold fpop
    rcases h with h | ⟨q, h1, h2⟩
    · simp [h]
    · by_cases hpar : (top.text == "(") = true
      · simp [hpar]
      · have : ¬ q ≤ p := by omega
        simp [hpar, h1, this]

theorem bsym_ne_paren (o : BOp) : ((ENode.binop o.sym).text == "(") = false := by
  cases o <;> decide
theorem usym_ne_paren (o : UOp) : ((ENode.unop o.sym).text == "(") = false := by
  cases o <;> decide

theorem inner_le_mlevel (P : BOp → Nat) (e : Expr) : inner P e ≤ mlevel P e := by
  cases e <;> simp [inner, mlevel]

/-! ### the operators of the model compute what the Spec says -/

theorem bitLength_le (v : Int) (k : Nat) : bitLength v ≤ k ↔ v.natAbs < 2 ^ k := by
  unfold bitLength
  by_cases h0 : v = 0
  · subst h0; simp; exact Nat.two_pow_pos k
  · have hn : v.natAbs ≠ 0 := by omega
    simp only [h0, ↓reduceIte]
    rw [← Nat.log2_lt hn]; omega

theorem pyInvert_eq (v : Int) : pyInvert v = Spec.invert v := by
  unfold pyInvert Spec.invert
  simp only [bitLength_le]
  rfl

theorem applyNode_unop (look : String → Look) (o : UOp) (a r : Int) (vs : List Int)
    (h : o.app a = some r) : applyNode look (a :: vs) (.unop o.sym) = .ok (r :: vs) := by
  cases o with
  | neg =>
    simp only [UOp.app, Option.some.injEq] at h
    subst h
    simp [applyNode, UOp.sym]
  | inv =>
    simp only [UOp.app] at h
    have : ("~" == "-") = false := by decide
    simp [applyNode, UOp.sym, this, pyInvert_eq, h]

theorem applyBin_sym (o : BOp) (a b r : Int) (h : o.app a b = some r) : applyBin o.sym a b = .ok r := by
  cases o <;> simp only [BOp.app] at h
  · cases h; unfold applyBin BOp.sym; simp (decide := true)
  · cases h; unfold applyBin BOp.sym; simp (decide := true)
  · cases h; unfold applyBin BOp.sym; simp (decide := true)
  · unfold applyBin BOp.sym
    by_cases hb : b < 0
    · simp [hb] at h
    · simp only [hb, ↓reduceIte, Option.some.injEq] at h; subst h; simp (decide := true) [hb]
  · unfold applyBin BOp.sym
    by_cases hb : b < 0
    · simp [hb] at h
    · simp only [hb, ↓reduceIte, Option.some.injEq] at h; subst h; simp (decide := true) [hb]
  · cases h; unfold applyBin BOp.sym; simp (decide := true)
  · cases h; unfold applyBin BOp.sym; simp (decide := true)

theorem applyNode_binop (look : String → Look) (o : BOp) (a b r : Int) (vs : List Int)
    (h : o.app a b = some r) : applyNode look (b :: a :: vs) (.binop o.sym) = .ok (r :: vs) := by
  simp [applyNode, applyBin_sym o a b r h]

end A816
