import A816.Model.Ast
import A816.Model.Mapping
import A816.Model.Table
/-!
# L4 — resolver and scopes (`a816/symbols.py`)

Scopes are an array with parent indices (creation order = replay order), never a tree of objects.
-/
namespace A816

inductive ScopeKind
  | plain | internal | named (name : String)
  deriving DecidableEq, Repr, Inhabited

structure ScopeRec where
  kind : ScopeKind
  parent : Option Nat
  symbols : List (String × Int) := []
  codeSymbols : List (String × List Ast) := []
  labels : List (String × Int) := []
  table : Option Tbl := none
  deriving Inhabited

structure Resolver where
  scopes : Array ScopeRec
  current : Nat
  lastUsed : Nat
  pc : Int
  reloc : Address                 -- `reloc_address`
  romType : RomType
  userBus : BusCfg                -- `resolver.bus`
  lowBus : BusCfg
  highBus : BusCfg
  busMapping : List (String × String)   -- `BUS_MAPPING` (rom type name → "low" | "high")
  deriving Inhabited

namespace Resolver

/-- `get_bus()`; `none` = `KeyError` (a ROM type without a bus) -/
def getBus (r : Resolver) : Option BusCfg :=
  if r.userBus.hasMappings then some r.userBus
  else match alookup r.romType.name r.busMapping with
    | some "low" => some r.lowBus
    | some "high" => some r.highBus
    | _ => none

def scopeAt (r : Resolver) (i : Nat) : ScopeRec := r.scopes.getD i default

def cur (r : Resolver) : ScopeRec := r.scopeAt r.current

def modifyCur (r : Resolver) (f : ScopeRec → ScopeRec) : Resolver :=
  { r with scopes := r.scopes.modify r.current f }

/-- `Scope.add_symbol` for an integer -/
def addSymbol (r : Resolver) (name : String) (v : Int) : Resolver :=
  r.modifyCur fun s => { s with symbols := ainsert name v s.symbols }

def addCodeSymbol (r : Resolver) (name : String) (body : List Ast) : Resolver :=
  r.modifyCur fun s => { s with codeSymbols := ainsert name body s.codeSymbols }

/-- `Scope.add_label` -/
def addLabel (r : Resolver) (name : String) (v : Int) : Resolver :=
  r.modifyCur fun s => { s with labels := ainsert name v s.labels, symbols := ainsert name v s.symbols }

/-- what `Scope.value_for` finds -/
inductive Found
  | int (v : Int)
  | code (body : List Ast)
  | undefined
  deriving Inhabited

/-- `Scope.__getitem__` -/
def getItem (s : ScopeRec) (name : String) : Found :=
  match alookup name s.codeSymbols with
  | some b => .code b
  | none =>
    match alookup name s.symbols with
    | some v => .int v
    | none => .undefined

/-- `Scope.value_for`: walk the parent chain (fuel = number of scopes; parents have smaller indices) -/
def valueForAux (scopes : Array ScopeRec) (name : String) : Nat → Nat → Found
  | 0, _ => .undefined
  | fuel+1, i =>
    match (scopes.getD i default).parent with
    | some p =>
      if (alookup name (scopes.getD i default).symbols).isSome || (alookup name (scopes.getD i default).codeSymbols).isSome
      then getItem (scopes.getD i default) name
      else valueForAux scopes name fuel p
    | none => getItem (scopes.getD i default) name

def valueFor (r : Resolver) (name : String) : Found := valueForAux r.scopes name (r.scopes.size + 1) r.current

/-- lookup function handed to the expression evaluator -/
def look (r : Resolver) (name : String) : Look :=
  match r.valueFor name with
  | .int v => .int v
  | .code _ => .notInt
  | .undefined => .undefined

/-- `Scope.get_table` -/
def getTableAux (r : Resolver) : Nat → Nat → Option Tbl
  | 0, _ => none
  | fuel+1, i =>
    let s := r.scopeAt i
    match s.table with
    | some t => some t
    | none => match s.parent with
      | some p => getTableAux r fuel p
      | none => none

def getTable (r : Resolver) : Option Tbl := getTableAux r (r.scopes.size + 1) r.current

def appendScope (r : Resolver) (kind : ScopeKind) : Resolver :=
  { r with scopes := r.scopes.push { kind := kind, parent := some r.current } }

/-- `use_next_scope`; `none` = `IndexError` -/
def useNextScope (r : Resolver) : Option Resolver :=
  if r.lastUsed + 1 < r.scopes.size then some { r with lastUsed := r.lastUsed + 1, current := r.lastUsed + 1 } else none

/-- `restore_scope(exports)`; `none` = `RuntimeError("Current scope has no parent...")` -/
def restoreScope (r : Resolver) (exports : Bool) : Option Resolver :=
  let s := r.cur
  match s.parent with
  | none => none
  | some p =>
    let r1 :=
      match exports, s.kind with
      | true, .named name =>
        { r with scopes := r.scopes.modify p fun ps =>
            { ps with symbols := s.symbols.foldl (fun acc (k, v) => ainsert (name ++ "." ++ k) v acc) ps.symbols } }
      | _, _ => r
    some { r1 with current := p }

/-- `set_position(pc)`; `none` = `KeyError` -/
def setPosition (r : Resolver) (v : Int) : Option Resolver :=
  match r.getBus with
  | none => none
  | some bus =>
    match Address.mk? bus v with
    | none => none
    | some a =>
      let pc := match a.physical with | some p => p | none => r.pc
      some { r with pc := pc, reloc := a }

/-- `get_all_labels()` -/
def allLabels (r : Resolver) : List (String × Int) :=
  r.scopes.toList.flatMap fun s => if s.kind == .internal then [] else s.labels

end Resolver
end A816
