import A816.Model.Types
/-!
# L7 — scanner (`a816/parse/scanner.py`, `a816/parse/scanner_states.py`)

Statement-by-statement model.  Every Python `while` loop is a structural recursion on a fuel
argument computed from the remaining input; when the fuel runs out while the Python loop condition
still holds the result is `Err.outOfFuel`, i.e. *the Python loop would not terminate*.  The
termination theorems (C15) are "`outOfFuel` is unreachable".
`Scanner.peek` returns `"\0"` both for a NUL character and past the end of input; this is kept.
The mnemonic set, the operand-less mnemonics and the keywords are parameters (`Gen.*` at run time).
-/
namespace A816

inductive TokTy
  | EOF | COMMENT | LABEL | IDENTIFIER | QUOTED_STRING | OPERATOR | LPAREN | RPAREN | SHARP | RBRAKET
  | LBRAKET | RBRACE | LBRACE | ADDRESSING_MODE_INDEX | OPCODE_SIZE | OPCODE_NAKED | OPCODE | COMMA
  | KEYWORD | NUMBER | STAR_EQ | AT_EQ | EQUAL | ASSIGN | DOUBLE_LBRACE | DOUBLE_RBRACE
  | MULTILINE_COMMENT_START | MULTILINE_COMMENT_END | BOOLEAN | TYPE
  deriving DecidableEq, Repr, Inhabited

def TokTy.name : TokTy → String
  | .EOF => "EOF" | .COMMENT => "COMMENT" | .LABEL => "LABEL" | .IDENTIFIER => "IDENTIFIER"
  | .QUOTED_STRING => "QUOTED_STRING" | .OPERATOR => "OPERATOR" | .LPAREN => "LPAREN" | .RPAREN => "RPAREN"
  | .SHARP => "SHARP" | .RBRAKET => "RBRAKET" | .LBRAKET => "LBRAKET" | .RBRACE => "RBRACE" | .LBRACE => "LBRACE"
  | .ADDRESSING_MODE_INDEX => "ADDRESSING_MODE_INDEX" | .OPCODE_SIZE => "OPCODE_SIZE"
  | .OPCODE_NAKED => "OPCODE_NAKED" | .OPCODE => "OPCODE" | .COMMA => "COMMA" | .KEYWORD => "KEYWORD"
  | .NUMBER => "NUMBER" | .STAR_EQ => "STAR_EQ" | .AT_EQ => "AT_EQ" | .EQUAL => "EQUAL" | .ASSIGN => "ASSIGN"
  | .DOUBLE_LBRACE => "DOUBLE_LBRACE" | .DOUBLE_RBRACE => "DOUBLE_RBRACE"
  | .MULTILINE_COMMENT_START => "MULTILINE_COMMENT_START" | .MULTILINE_COMMENT_END => "MULTILINE_COMMENT_END"
  | .BOOLEAN => "BOOLEAN" | .TYPE => "TYPE"

/-- a token with its `Position` (line, column may be negative) and the index of its `File` -/
structure Tok where
  ty : TokTy
  val : String
  line : Int := -1
  col : Int := -1
  file : Nat := 0
  hasPos : Bool := true
  deriving DecidableEq, Repr, Inhabited

structure ScanCfg where
  mnemonics : List String
  noOperand : List String      -- `opcodes_without_operand`
  keywords : List String

structure Scan where
  input : Array Char
  pos : Nat := 0
  start : Nat := 0
  lineOffset : Nat := 0
  curLine : Nat := 0
  lines : Array String := #[]
  toks : Array Tok := #[]
  file : Nat := 0
  deriving Repr, Inhabited

namespace Scan

/-- `input[a:b]` -/
def slice (s : Scan) (a b : Nat) : String :=
  String.ofList ((s.input.toList.drop a).take (b - a))

/-- `_handle_line` -/
def handleLine (s : Scan) : Scan :=
  if s.lineOffset ≤ s.pos then
    { s with lines := s.lines.push (s.slice s.lineOffset s.pos), lineOffset := s.pos + 1, curLine := s.curLine + 1 }
  else s

/-- `next()`: the character consumed, `none` at end of input -/
def next (s : Scan) : Scan × Option Char :=
  if h : s.pos < s.input.size then
    let c := s.input[s.pos]
    let s := if c = '\n' then s.handleLine else s
    ({ s with pos := s.pos + 1 }, some c)
  else (s, none)

def backup (s : Scan) : Scan := { s with pos := s.pos - 1 }

/-- `peek(k)`: `"\0"` past the end -/
def peek (s : Scan) (k : Nat := 0) : Char := s.input.getD (s.pos + k) '\x00'

/-- the test of `accept(candidates, negate)`: `ch in candidates`, negated on request -/
def acceptTest (s : Scan) (cands : List Char) (negate : Bool) : Bool :=
  if negate then !(cands.contains s.peek) else cands.contains s.peek

/-- `accept(candidates, negate)` -/
def accept (s : Scan) (cands : List Char) (negate : Bool := false) : Scan × Bool :=
  if s.acceptTest cands negate then ((s.next).1, true) else (s, false)

/-- `accept_prefix(prefix)` -/
def acceptPrefix (s : Scan) (pre : List Char) : Scan × Bool :=
  if (s.input.toList.drop s.pos).take pre.length = pre ∧ s.pos + pre.length ≤ s.input.size then
    ({ s with pos := s.pos + pre.length }, true)
  else (s, false)

/-- `accept_run`: `none` = the loop does not terminate -/
def acceptRunAux (cands : List Char) (negate : Bool) : Nat → Scan → Option Scan
  | 0, s => if (s.accept cands negate).2 then none else some s
  | n+1, s =>
    let (s', ok) := s.accept cands negate
    if ok then acceptRunAux cands negate n s' else some s

def acceptRun (s : Scan) (cands : List Char) (negate : Bool := false) : Except (Err × Scan) Scan :=
  match acceptRunAux cands negate (s.input.size - s.pos + 1) s with
  | some s' => .ok s'
  | none => .error (.outOfFuel, s)

def ignore (s : Scan) : Scan := { s with start := s.pos }

def ignoreRun (s : Scan) (cands : List Char) : Except (Err × Scan) Scan :=
  match s.acceptRun cands with
  | .ok s' => .ok s'.ignore
  | .error e => .error e

def tokenText (s : Scan) : String := s.slice s.start s.pos

/-- `emit(type)` -/
def emit (s : Scan) (ty : TokTy) : Scan :=
  { s with toks := s.toks.push ⟨ty, s.tokenText, s.curLine, (s.start : Int) - s.lineOffset, s.file, true⟩, start := s.pos }

/-- `ScannerException(msg, get_position())` -/
def err (s : Scan) (msg : String) : Err := .scan msg s.curLine ((s.start : Int) - s.lineOffset)

end Scan

/-- result of a scanner state function: the new state, or the exception with the state at the raise point
    (the handler in `Scanner.scan` reads it) -/
abbrev SR := Except (Err × Scan) Scan

def chars (s : String) : List Char := s.toList

def identChars : List Char := chars "_ABCEDFGHIJKLMNOPQRSTUVWXYZabcedfghijklmnopqrstuvwxyz0123456789"
def letterChars : List Char := chars "_ABCEDFGHIJKLMNOPQRSTUVWXYZabcedfghijklmnopqrstuvwxyz"
def digitChars : List Char := chars "0123456789"

/-- ASCII `str.lower()` (the generated inputs avoid code points whose Python lower-case differs) -/
def asciiLower (s : String) : String := String.ofList (s.toList.map fun c => if 'A' ≤ c ∧ c ≤ 'Z' then Char.ofNat (c.toNat + 32) else c)

/-- `lex_identifier` -/
def lexIdentifier (s : Scan) : SR := do
  let s ← s.acceptRun identChars
  if s.peek == ':' && s.peek 1 != '=' then
    let s := s.emit .LABEL
    let s := (s.next).1
    pure s.ignore
  else
    if s.peek == '.' then
      let s := (s.next).1
      let s ← s.acceptRun identChars
      pure (s.emit .IDENTIFIER)
    else pure (s.emit .IDENTIFIER)

/-- the `while c != "'"` loop of `lex_quoted_string`; `posErr` is the error built before the first `next()` -/
def quotedLoop (posErr : Err) : Nat → Scan → Option Char → SR
  | 0, s, _ => .error (.outOfFuel, s)
  | n+1, s, c =>
    if c == some '\'' then .ok s
    else if c == some '\n' || c == none then .error (posErr, s)
    else
      quotedLoop posErr n ((if c == some '\\' && s.peek == '\'' then (s.next).1 else s).next).1
        ((if c == some '\\' && s.peek == '\'' then (s.next).1 else s).next).2

/-- `lex_quoted_string` -/
def lexQuotedString (s : Scan) : SR := do
  let e := s.err "Unterminated String"
  let (s1, c) := s.next
  let s2 ← quotedLoop e (s.input.size - s.pos + 2) s1 c
  pure (s2.emit .QUOTED_STRING)

/-- `lex_number` -/
def lexNumber (s : Scan) : SR := do
  let s := s.backup
  let (s, ch) := s.next
  if s.peek == '\n' || s.peek == '\x00' then pure (s.emit .NUMBER)
  else if ch == some '0' then
    let (s1, bp) := s.next
    if bp == some 'b' then
      let s2 ← s1.acceptRun (chars "01"); pure (s2.emit .NUMBER)
    else if bp == some 'o' then
      let s2 ← s1.acceptRun (chars "012345678"); pure (s2.emit .NUMBER)
    else if bp == some 'x' then
      let s2 ← s1.acceptRun (chars "0123456789ABCDEFabcdef"); pure (s2.emit .NUMBER)
    else pure (s1.backup.emit .NUMBER)
  else
    let s2 ← s.acceptRun digitChars
    pure (s2.emit .NUMBER)

/-- the `while` loop of `lex_expression` -/
def lexExpressionLoop : Nat → Scan → SR
  | 0, s => if s.pos < s.input.size then .error (.outOfFuel, s) else .ok s
  | n+1, s =>
    if s.pos < s.input.size then do
      let s ← s.ignoreRun [' ']
      let (s1, a) := s.accept digitChars
      if a then
        let s2 ← lexNumber s1
        lexExpressionLoop n s2
      else
        let (s1, a) := s.accept letterChars
        if a then
          let s2 ← lexIdentifier s1
          lexExpressionLoop n s2
        else
          let (s1, a) := s.accept (chars "+-*/&|~")
          let (s1, a) := if a then (s1, true) else
            let (s2, b) := s.acceptPrefix (chars "<<")
            if b then (s2, true) else s.acceptPrefix (chars ">>")
          if a then lexExpressionLoop n (s1.emit .OPERATOR)
          else
            let (s1, a) := s.accept ['(']
            if a then lexExpressionLoop n (s1.emit .LPAREN)
            else
              let (s1, a) := s.accept [')']
              if a then lexExpressionLoop n (s1.emit .RPAREN)
              else .ok s
    else .ok s

/-- `lex_expression` -/
def lexExpression (s : Scan) : SR := lexExpressionLoop (s.input.size - s.pos + 1) s

/-- `lex_opcode_index` -/
def lexOpcodeIndex (s : Scan) : SR := do
  let s := s.ignore
  let s ← s.ignoreRun [' ']
  let (s1, a) := s.accept (chars "xXyYsS")
  if a then pure (s1.emit .ADDRESSING_MODE_INDEX) else .error (s.err "Invalid index", s)

/-- `lex_operand` -/
def lexOperand (s : Scan) : SR := do
  let p := s.peek
  let s := if p == '#' then ((s.next).1).emit .SHARP
    else if p == '(' then ((s.next).1).emit .LPAREN
    else if p == '[' then ((s.next).1).emit .LBRAKET
    else s
  let s ← s.ignoreRun [' ']
  let s ← lexExpression s
  let s ← s.ignoreRun [' ']
  let (s1, a) := s.accept [',']
  let s ← if a then lexOpcodeIndex s1 else pure s
  let p := s.peek
  let s := if p == ')' then ((s.next).1).emit .RPAREN
    else if p == ']' then ((s.next).1).emit .RBRAKET
    else s
  let s ← s.ignoreRun [' ']
  let (s1, a) := s.accept [',']
  if a then lexOpcodeIndex s1 else pure s

/-- `lex_opcode_size` (it calls `lex_operand` itself; `lex_opcode` then calls `lex_operand` once more) -/
def lexOpcodeSize (s : Scan) : SR := do
  let s := s.ignore
  let (s1, a) := s.accept (chars "bBwWlL")
  if a then
    let s2 := s1.emit .OPCODE_SIZE
    let s3 ← s2.ignoreRun [' ']
    lexOperand s3
  else
    -- position = get_position(); s.next(); raise
    let e := s.err "Invalid Size Specifier"
    .error (e, (s.next).1)

/-- `accept_opcode` -/
def acceptOpcode (cfg : ScanCfg) (s : Scan) : Scan × Bool :=
  let cand := asciiLower (s.slice s.start (s.pos + 3))
  let ws := s.peek 3
  if cfg.mnemonics.contains cand && [' ', '\n', '\t', '.', '\x00'].contains ws then
    ({ s with pos := s.pos + 3 }, true)
  else (s, false)

/-- `lex_opcode` -/
def lexOpcode (cfg : ScanCfg) (s : Scan) : SR := do
  let cand := asciiLower (s.slice s.start s.pos)
  let s ← if cfg.noOperand.contains cand && s.peek != '.' then do
      let saved := s.pos
      let s1 ← s.acceptRun [' ', '\t']
      let (s2, a) := s1.accept [';']
      let s3 ← if a then s2.acceptRun ['\n', '\x00'] true else pure s2
      if s3.peek == '\n' || s3.peek == '\x00' then
        -- OPCODE_NAKED: `return`
        return ({ s3 with pos := saved }).emit .OPCODE_NAKED
      else pure (({ s3 with pos := saved }).emit .OPCODE)
    else pure (s.emit .OPCODE)
  let (s1, a) := s.accept ['.']
  let s ← if a then lexOpcodeSize s1 else pure s
  let s ← s.ignoreRun [' ']
  lexOperand s

/-- `lex_keyword` -/
def lexKeyword (cfg : ScanCfg) (s : Scan) : SR := do
  let s := s.ignore
  let s ← s.acceptRun (chars "abcdefghijklmnopqrstuvwxyz_")
  if cfg.keywords.contains s.tokenText then pure (s.emit .KEYWORD)
  else .error (s.err ("Unknown Keyword " ++ s.tokenText), s)

/-- `while s.next() not in ["\n", None]` -/
def lineCommentLoop : Nat → Scan → SR
  | 0, s => .error (.outOfFuel, s)
  | n+1, s =>
    if (s.next).2 == some '\n' || (s.next).2 == none then .ok (s.next).1 else lineCommentLoop n (s.next).1

/-- `while not s.accept_prefix("*/"): if s.next() is None: raise`; `posErr` is the error built when the comment was opened -/
def blockCommentLoop (posErr : Err) : Nat → Scan → SR
  | 0, s => .error (.outOfFuel, s)
  | n+1, s =>
    if (s.acceptPrefix ['*', '/']).2 then .ok (s.acceptPrefix ['*', '/']).1
    else if (s.next).2 == none then .error (posErr, (s.next).1)
    else blockCommentLoop posErr n (s.next).1

/-- `lex_initial` -/
def lexInitial (cfg : ScanCfg) (s : Scan) : SR := do
  let s ← s.ignoreRun [' ', '\t', '\n']
  let fuel := s.input.size - s.pos + 2
  let (s1, a) := s.accept [';']
  if a then
    let s2 ← lineCommentLoop fuel s1
    return s2.emit .COMMENT
  let (s1, a) := s.accept digitChars
  if a then return ← lexNumber s1
  let (s1, a) := s.accept ['+', '-', '&']
  if a then return s1.emit .OPERATOR
  let (s1, a) := s.acceptPrefix ['=', '=']
  if a then return s1.emit .OPERATOR
  let (s1, a) := s.acceptPrefix ['!', '=']
  if a then return s1.emit .OPERATOR
  let (s1, a) := s.acceptPrefix ['>', '>']
  if a then return s1.emit .OPERATOR
  let (s1, a) := s.acceptPrefix ['<', '<']
  if a then return s1.emit .OPERATOR
  let (s1, a) := s.acceptPrefix ['>']
  if a then return s1.emit .OPERATOR
  let (s1, a) := s.acceptPrefix ['<']
  if a then return s1.emit .OPERATOR
  let (s1, a) := s.accept letterChars
  if a then
    let s2 := s1.backup
    let (s3, b) := acceptOpcode cfg s2
    if b then return ← lexOpcode cfg s3 else return ← lexIdentifier s2
  let (s1, a) := s.accept ['.']
  if a then return ← lexKeyword cfg s1
  let (s1, a) := s.accept [',']
  if a then return s1.emit .COMMA
  let (s1, a) := s.acceptPrefix [':', '=']
  if a then return s1.emit .ASSIGN
  let (s1, a) := s.acceptPrefix ['@', '=']
  if a then return s1.emit .AT_EQ
  let (s1, a) := s.accept ['*']
  if a then
    let (s2, b) := s1.accept ['=']
    return if b then s2.emit .STAR_EQ else s1.emit .OPERATOR
  let (s1, a) := s.accept ['\'']
  if a then return ← lexQuotedString s1
  let (s1, a) := s.accept ['(']
  if a then return s1.emit .LPAREN
  let (s1, a) := s.accept [')']
  if a then return s1.emit .RPAREN
  let (s1, a) := s.accept ['[']
  if a then return s1.emit .LBRAKET
  let (s1, a) := s.accept [']']
  if a then return s1.emit .RBRAKET
  let (s1, a) := s.accept ['{']
  if a then
    let (s2, b) := s1.accept ['{']
    return if b then s2.emit .DOUBLE_LBRACE else s1.emit .LBRACE
  let (s1, a) := s.accept ['}']
  if a then
    let (s2, b) := s1.accept ['}']
    return if b then s2.emit .DOUBLE_RBRACE else s1.emit .RBRACE
  let (s1, a) := s.accept ['=']
  if a then return s1.emit .EQUAL
  let (s1, a) := s.acceptPrefix ['/', '*']
  if a then
    let s2 ← blockCommentLoop (s1.err "Unterminated Comment") fuel s1
    return s2.emit .COMMENT
  let (s1, c) := s.next
  if c != none then .error (s1.err ("Invalid Input " ++ s1.slice s1.start s1.input.size), s1) else pure s1

inductive ScanState | initial | expression
  deriving DecidableEq, Repr

def runState (cfg : ScanCfg) : ScanState → Scan → SR
  | .initial, s => lexInitial cfg s
  | .expression, s => lexExpression s

/-- result of `Scanner.scan`: the tokens and `File.lines`; when `error` is set it is the exception that
    propagates and `lines` are the lines recorded up to and by the handler (the message quotes `lines[line]`). -/
structure ScanResult where
  toks : Array Tok
  lines : Array String
  error : Option Err
  deriving Repr

/-- the `while self.pos < len(self.input)` loop of `Scanner.scan` (with the no-progress guard) -/
def scanLoop (cfg : ScanCfg) (st : ScanState) : Nat → Scan → Except (Err × Scan) Scan
  | 0, s => if s.pos < s.input.size then .error (.outOfFuel, s) else .ok s
  | n+1, s =>
    if s.pos < s.input.size then
      match runState cfg st s with
      | .error e => .error e
      | .ok s' =>
        if s'.pos == s.pos && s'.toks.size == s.toks.size then
          let s'' := (s'.next).1
          .error (s''.err ("Invalid Input " ++ s''.slice s''.start s''.input.size), s'')
        else scanLoop cfg st n s'
    else .ok s

/-- `Scanner(initial_state).scan(filename, input)` -/
def scan (cfg : ScanCfg) (st : ScanState) (file : Nat) (input : List Char) : ScanResult :=
  let s0 : Scan := { input := input.toArray, file := file }
  match scanLoop cfg st (input.length + 1) s0 with
  | .ok s =>
    let s := (s.emit .EOF).handleLine
    ⟨s.toks, s.lines, none⟩
  | .error (.outOfFuel, s) => ⟨s.toks, s.lines, some .outOfFuel⟩
  | .error (e, s) =>
    -- `except ScannerException`: consume the rest of the current line, record it, re-raise
    match s.acceptRun ['\n', '\x00'] true with
    | .ok s2 => let s3 := s2.handleLine; ⟨s3.toks, s3.lines, some e⟩
    | .error _ => ⟨s.toks, s.lines, some .outOfFuel⟩

end A816
