import A816.Model.Types
/-!
# L1 — address mapping (`a816/cpu/mapping.py`, bus selection of `a816/symbols.py`)

The model reproduces what the code does, including the unused `address_range`, the cached
`Address.mapping`, and the re-lookup done by `Address.__add__`.
Logical addresses are `Int` (Python ints); a negative address has a negative bank, which no
`lookup` dict contains, so it is rejected like any unmapped bank.
-/
namespace A816

/-- `value & ~mask & 0xFFFF` for non-negative `value`, `mask`
    (`~m & 0xFFFF = 0xFFFF xor (m & 0xFFFF)` on Python ints). -/
def lowPart (mask value : Nat) : Nat := value &&& (0xFFFF ^^^ (mask &&& 0xFFFF))

/-- `Mapping.physical_address` (for `value ≥ 0`). `none` = Python `None` (RAM). -/
def Mapping.physicalAddress (m : Mapping) (value : Nat) : Option Int :=
  if m.ram then none
  else some ((((value >>> 16 : Nat) : Int) - (m.lo : Int)) * (m.mask : Int) + ((lowPart m.mask value : Nat) : Int))

/-- `Mapping.logical_address` for `value ≥ 0` and `mask > 0`:
    `(bank + lo) << 16 | (mask & 0xFFFF) + value % mask`  with `bank = value // mask`. -/
def Mapping.logicalAddress (m : Mapping) (value : Nat) : Nat :=
  ((value / m.mask + m.lo) <<< 16) ||| ((m.mask &&& 0xFFFF) + value % m.mask)

/-- `Bus.get_mapping_for_bank`: `self.mappings[self.lookup[bank]]`; `none` = `KeyError`. -/
def BusCfg.mappingForBank (b : BusCfg) (bank : Nat) : Option Mapping :=
  match alookup bank b.lookup with
  | none => none
  | some ident => alookup ident b.mappings

def BusCfg.hasMappings (b : BusCfg) : Bool := !b.mappings.isEmpty

def BusCfg.empty : BusCfg := { mappings := [], lookup := [], editable := true }

/-- insert `lookup[bank] = ident` for `bank` in `lo … hi` (Python `range(lo, hi+1)`). -/
def lookupRange (ident : String) (lo : Nat) : Nat → List (Nat × String) → List (Nat × String)
  | 0, l => l
  | n+1, l => lookupRange ident (lo+1) n (ainsert lo ident l)

/-- `Bus.map` (returns `none` for the `RuntimeError` of a frozen bus). -/
def BusCfg.map (b : BusCfg) (ident : String) (lo hi mask : Nat) (ram : Bool)
    (mirror : Option (Nat × Nat)) : Option BusCfg :=
  if !b.editable then none else
  let ms := ainsert ident ⟨lo, hi, mask, ram⟩ b.mappings
  let lk := lookupRange ident lo (hi + 1 - lo) b.lookup
  match mirror with
  | none => some { b with mappings := ms, lookup := lk }
  | some (mlo, mhi) =>
    let mid := ident ++ "_mirror"
    some { b with mappings := ainsert mid ⟨mlo, mhi, mask, ram⟩ ms,
                  lookup := lookupRange mid mlo (mhi + 1 - mlo) lk }

/-- `Bus.unmap`. -/
def BusCfg.unmap (b : BusCfg) (ident : String) : Option BusCfg :=
  if !b.editable then none else
  some { b with mappings := aerase (ident ++ "_mirror") (aerase ident b.mappings) }

/-- An `Address` object: the bus it was created on and its logical value; the mapping is the one
    cached by `Address.__init__`. -/
structure Address where
  bus : BusCfg
  logical : Nat
  mapping : Mapping
  deriving Repr, Inhabited

/-- `Address(bus, v)` / `Bus.get_address(v)`: `none` = `KeyError` (unmapped bank, or negative value). -/
def Address.mk? (bus : BusCfg) (v : Int) : Option Address :=
  if v < 0 then none else
  match bus.mappingForBank (v.toNat >>> 16) with
  | none => none
  | some m => some ⟨bus, v.toNat, m⟩

/-- `Address.physical`. -/
def Address.physical (a : Address) : Option Int := a.mapping.physicalAddress a.logical

/-- `Address.__add__` for an `int` increment `n ≥ 0`. `none` = an exception (`KeyError` on the
    re-lookup or on the new bank, `ZeroDivisionError` for a zero mask). -/
def Address.add (a : Address) (n : Nat) : Option Address :=
  match a.bus.mappingForBank (a.logical >>> 16) with
  | none => none
  | some m =>
    match m.physicalAddress a.logical with
    | some p =>
      if m.mask = 0 then none
      else if p + n < 0 then none  -- negative offsets: outside the modelled domain, rejected by the model
      else Address.mk? a.bus (m.logicalAddress (p + n).toNat)
    | none => Address.mk? a.bus (a.logical + n)

/-- One-shot helpers used by the driver and the theorems. -/
def busPhys (bus : BusCfg) (v : Int) : Option (Option Int) := (Address.mk? bus v).map Address.physical

def busAdd (bus : BusCfg) (v : Int) (n : Nat) : Option Nat :=
  match Address.mk? bus v with
  | none => none
  | some a => (a.add n).map Address.logical

end A816
