import A816.Model.Table
import A816.Model.OpsIps
import A816.Spec.Table
/-! Line-protocol handlers for L9 (tables). Texts travel as hex of their UTF-8 encoding. -/
namespace A816.Ops
open A816

def textOfHex (h : String) : Option String :=
  match unhex h with
  | none => none
  | some bs => String.fromUTF8? (ByteArray.mk (bs.map (·.toUInt8)).toArray)

def hexOfText (s : String) : String :=
  let bs := s.toUTF8.toList.map (·.toNat)
  if bs.isEmpty then "-" else hexOfBytes bs

def parseSpecTable (s : String) : Option (List Spec.Table.Line) :=
  if s == "-" then some [] else
  (s.splitOn ";").mapM fun item =>
    match item.splitOn "=" with
    | [t, c] => match textOfHex t, unhex c with
      | some t, some c => some (t.toList, c)
      | _, _ => none
    | _ => none

def handleTable (ws : List String) : Option String :=
  match ws with
  | ["tbl.enc", file, text] =>
    match textOfHex file, textOfHex text with
    | some f, some t =>
      some (match mkTable (readLines f.toList) with
        | .error e => "err-table " ++ e.tag
        | .ok tb => match tb.toBytes t.toList with
          | .ok bs => "ok " ++ hexOrDash bs
          | .error e => "err " ++ e.tag)
    | _, _ => some "bad-op"
  | ["tbl.dec", file, bin] =>
    match textOfHex file, unhex bin with
    | some f, some b =>
      some (match mkTable (readLines f.toList) with
        | .error e => "err-table " ++ e.tag
        | .ok tb => match tb.toText b with
          | .ok cs => "ok " ++ hexOfText (String.ofList cs)
          | .error e => "err " ++ e.tag)
    | _, _ => some "bad-op"
  | ["tbl.entries", file] =>
    match textOfHex file with
    | some f =>
      some (match mkTable (readLines f.toList) with
        | .error e => "err-table " ++ e.tag
        | .ok tb => "ok " ++ ";".intercalate (tb.entries.map fun e =>
            s!"{hexOfText (String.ofList e.text)}={hexOrDash e.code}:{match e.ignore with | some n => toString n | none => "-"}"))
    | none => some "bad-op"
  | ["spec.tblenc", table, text] =>
    match parseSpecTable table, textOfHex text with
    | some tb, some t =>
      some (match Spec.Table.encode tb t.toList.length t.toList with
        | some bs => "some " ++ hexOrDash bs
        | none => "none")
    | _, _ => some "bad-op"
  | ["spec.tblmatched", table, text] =>
    match parseSpecTable table, textOfHex text with
    | some tb, some t => some (hexOfText (String.ofList (Spec.Table.matched tb t.toList.length t.toList)))
    | _, _ => some "bad-op"
  | _ => none

end A816.Ops
