import A816.Model.Types
import A816.Model.Bytes
/-!
# L3 — expressions (`a816/parse/ast/expression.py`)

`shuntingYard` and `evalRPN` follow the Python functions statement by statement (after the F06
repair: prefix operators are pushed without popping, a stacked prefix operator ranks 2).
The operator table is a parameter (`Gen.operatorPrecedence` at run time).
-/
namespace A816

inductive TermKind | number | identifier | other
  deriving DecidableEq, Repr, Inhabited

/-- `ExprNode` subclasses: `Term`, `BinOp`, `UnaryOp`, `Parenthesis` (by token type). -/
inductive ENode
  | term (k : TermKind) (v : String)
  | binop (v : String)
  | unop (v : String)
  | lparen
  | rparen
  deriving DecidableEq, Repr, Inhabited

def ENode.text : ENode → String
  | .term _ v => v | .binop v => v | .unop v => v | .lparen => "(" | .rparen => ")"

abbrev PrecTable := String → Option Nat

/-- `_stack_precedence` -/
def stackPrec (prec : PrecTable) : ENode → Option Nat
  | .unop _ => some 2
  | n => prec n.text

/-- the `while` loop of the `BinOp` branch: pops (to the output queue) every stacked operator that is
    not `(` and whose precedence is `≤ p`.  State: (output queue, operator stack with the top first). -/
def popWhile (prec : PrecTable) (p : Nat) : List ENode → List ENode → Except Err (List ENode × List ENode)
  | out, [] => .ok (out, [])
  | out, top :: rest =>
    if top.text == "(" then .ok (out, top :: rest)
    else match stackPrec prec top with
      | none => .error .key
      | some q => if q ≤ p then popWhile prec p (out ++ [top]) rest else .ok (out, top :: rest)

/-- the `RPAREN` branch: pop to the output queue down to the topmost `(`, which is discarded.
    `none` = `ValueError("mismatched parenthesis")`. -/
def popToParen : List ENode → List ENode → Option (List ENode × List ENode)
  | _, [] => none
  | out, top :: rest => if top.text == "(" then some (out, rest) else popToParen (out ++ [top]) rest

def syStep (prec : PrecTable) (st : List ENode × List ENode) (n : ENode) : Except Err (List ENode × List ENode) :=
  match n with
  | .term _ _ => .ok (st.1 ++ [n], st.2)
  | .unop _ => .ok (st.1, n :: st.2)
  | .binop v =>
    match prec v with
    | none => .error .key
    | some p =>
      match popWhile prec p st.1 st.2 with
      | .error e => .error e
      | .ok (out, stack) => .ok (out, n :: stack)
  | .lparen => .ok (st.1, n :: st.2)
  | .rparen =>
    match popToParen st.1 st.2 with
    | none => .error .value
    | some r => .ok r

def syRun (prec : PrecTable) : List ENode × List ENode → List ENode → Except Err (List ENode × List ENode)
  | st, [] => .ok st
  | st, n :: ns =>
    match syStep prec st n with
    | .error e => .error e
    | .ok st' => syRun prec st' ns

/-- `shunting_yard(expr_nodes)` -/
def shuntingYard (prec : PrecTable) (ts : List ENode) : Except Err (List ENode) :=
  match syRun prec ([], []) ts with
  | .error e => .error e
  | .ok (out, stack) => .ok (out ++ stack)

/-! ### literals: `eval_number` = `int(number, base)` on the strings the scanner can produce -/

def digitVal (c : Char) : Option Nat :=
  if '0' ≤ c ∧ c ≤ '9' then some (c.toNat - 48)
  else if 'a' ≤ c ∧ c ≤ 'f' then some (c.toNat - 87)
  else if 'A' ≤ c ∧ c ≤ 'F' then some (c.toNat - 55)
  else none

/-- Horner evaluation of a digit string in `base`; `none` when a character is not a digit of that base. -/
def parseDigits (base : Nat) : List Char → Nat → Option Nat
  | [], acc => some acc
  | c :: cs, acc =>
    match digitVal c with
    | some d => if d < base then parseDigits base cs (acc * base + d) else none
    | none => none

/-- `eval_number`: `startswith("0x")` base 16, `startswith("0b")` base 2, otherwise base 10;
    then `int(number, base)`. `none` = `ValueError`. -/
def evalNumberChars (cs : List Char) : Option Nat :=
  if cs.take 2 = ['0', 'x'] then (if (cs.drop 2).isEmpty then none else parseDigits 16 (cs.drop 2) 0)
  else if cs.take 2 = ['0', 'b'] then (if (cs.drop 2).isEmpty then none else parseDigits 2 (cs.drop 2) 0)
  else if cs.isEmpty then none else parseDigits 10 cs 0

def evalNumber (s : String) : Option Int := (evalNumberChars s.toList).map Int.ofNat

/-! ### evaluation of the reverse-polish queue -/

/-- what `resolver.current_scope.value_for(name)` gives the evaluator -/
inductive Look
  | int (v : Int)
  | notInt      -- a code block / `None` / a `str` given through `add_symbol`: `RuntimeError("Unable to resolve")`
  | undefined   -- `SymbolNotDefined`
  deriving DecidableEq, Repr, Inhabited

/-- `v.bit_length()` -/
def bitLength (v : Int) : Nat := if v = 0 then 0 else Nat.log2 v.natAbs + 1

/-- the `~` operator: complement within 8/16/32 bits chosen by `bit_length`; `none` = `RuntimeError` -/
def pyInvert (v : Int) : Option Int :=
  let bl := bitLength v
  if bl ≤ 8 then some ((-v - 1) % 256)
  else if bl ≤ 16 then some ((-v - 1) % 65536)
  else if bl ≤ 32 then some ((-v - 1) % 4294967296)
  else none

def applyBin (op : String) (a b : Int) : Except Err Int :=
  if op == "+" then .ok (a + b)
  else if op == "-" then .ok (a - b)
  else if op == "*" then .ok (a * b)
  else if op == "&" then .ok (intLand a b)
  else if op == "|" then .ok (intLor a b)
  else if op == ">>" then (if b < 0 then .error .value else .ok (a / ((2 ^ b.toNat : Nat) : Int)))
  else if op == "<<" then (if b < 0 then .error .value else .ok (a * ((2 ^ b.toNat : Nat) : Int)))
  else .error .runtime

def applyNode (look : String → Look) (vs : List Int) : ENode → Except Err (List Int)
  | .term .number v =>
    match evalNumber v with
    | some n => .ok (n :: vs)
    | none => .error .value
  | .term .identifier v =>
    match look v with
    | .int n => .ok (n :: vs)
    | .notInt => .error .runtime
    | .undefined => .error (.symbolNotDefined v)
  | .term .other _ => .ok vs
  | .unop v =>
    match vs with
    | [] => .error .index
    | a :: r =>
      if v == "-" then .ok (-a :: r)
      else if v == "~" then
        match pyInvert a with
        | some x => .ok (x :: r)
        | none => .error .runtime
      else .error .runtime
  | .binop v =>
    match vs with
    | b :: a :: r =>
      match applyBin v a b with
      | .ok x => .ok (x :: r)
      | .error e => .error e
    | _ => .error .index
  | .lparen => .ok vs
  | .rparen => .ok vs

def rpnRun (look : String → Look) : List Int → List ENode → Except Err (List Int)
  | vs, [] => .ok vs
  | vs, n :: ns =>
    match applyNode look vs n with
    | .error e => .error e
    | .ok vs' => rpnRun look vs' ns

/-- the loop of `eval_expression` over the ordered queue, then `values_stack.pop()` -/
def evalRPN (look : String → Look) (q : List ENode) : Except Err Int :=
  match rpnRun look [] q with
  | .error e => .error e
  | .ok [] => .error .index
  | .ok (v :: _) => .ok v

/-- `eval_expression(expression, resolver)` on the token list of an `ExpressionAstNode` -/
def evalTokens (prec : PrecTable) (look : String → Look) (ts : List ENode) : Except Err Int :=
  match shuntingYard prec ts with
  | .error e => .error e
  | .ok q => evalRPN look q

end A816
