import A816.Model.Nodes
/-!
# L5 — code generation (`a816/parse/codegen.py`)

`gen` follows `_code_gen` and every `generate_*` function.  State: the resolver (scopes are created
here), the macro table and the virtual file system.  The fuel bounds the Python call depth (macro
recursion); loop counts come from evaluated bounds.
-/
namespace A816

structure MacroDef where
  params : List String
  body : List Ast
  deriving Inhabited

structure GenState where
  r : Resolver
  macros : List (String × MacroDef)
  fs : FS
  deriving Inhabited

abbrev GM := StateT GenState (Except Err)

def liftOpt {α} (e : Err) : Option α → GM α
  | some a => pure a
  | none => throw e

def gEval (env : Env) (e : PExpr) : GM Int := do
  let st ← get
  match evalP env st.r e with
  | .ok v => pure v
  | .error er => throw er

def modR (f : Resolver → Resolver) : GM Unit := modify fun st => { st with r := f st.r }

def gUseNext : GM Unit := do
  let st ← get
  match st.r.useNextScope with
  | some r => set { st with r := r }
  | none => throw .index

def gRestore (exports : Bool) : GM Unit := do
  let st ← get
  match st.r.restoreScope exports with
  | some r => set { st with r := r }
  | none => throw .runtime

/-- `path.replace("/", "_").replace(".", "_")` -/
def symbolBase (path : String) : String :=
  String.ofList (path.toList.map fun c => if c == '/' || c == '.' then '_' else c)

def mapArg (args : List (String × MapVal)) (k : String) : Option MapVal :=
  -- dict: the last assignment of a key wins
  alookup k args.reverse

/-- `generate_map` as a function of the resolver (the statement order of the Python code is kept:
    the four mandatory keys, the `editable` check of `Bus.map`, the shapes of the values) -/
def genMapR (args : List (String × MapVal)) (r : Resolver) : Except Err Resolver :=
  match mapArg args "identifier", mapArg args "bank_range", mapArg args "addr_range", mapArg args "mask" with
  | none, _, _, _ => .error .key
  | some _, none, _, _ => .error .key
  | some _, some _, none, _ => .error .key
  | some _, some _, some _, none => .error .key
  | some ident, some bank, some _, some mask =>
    let identS := match ident with
      | .num n => toString n
      | .pair a b => s!"({a}, {b})"
    if !r.userBus.editable then .error .runtime
    else
      match bank with
      | .num _ => .error .type
      | .pair lo hi =>
        match mask with
        | .pair _ _ => .error .type
        | .num m =>
          let ram := (mapArg args "writable").isSome
          let mirror : Except Err (Option (Nat × Nat)) := match mapArg args "mirror_bank_range" with
            | none => .ok none
            | some (.pair a b) => .ok (some (a.toNat, b.toNat))
            | some (.num n) => if n == 0 then .ok none else .error .type
          match mirror with
          | .error e => .error e
          | .ok mirror =>
            match r.userBus.map identS lo.toNat hi.toNat m.toNat ram mirror with
            | some b => .ok { r with userBus := b }
            | none => .error .runtime

/-- `generate_map` -/
def genMap (args : List (String × MapVal)) : GM Unit := do
  let st ← get
  match genMapR args st.r with
  | .ok r => set { st with r := r }
  | .error e => throw e

/-- value of one macro argument at the call site -/
inductive Bound
  | int (v : Int)
  | code (b : List Ast)
  | deferred (e : PExpr)

/-- the first loop of `generate_macro_application` (F09 repair): every argument is evaluated in the
    caller's scope, before the macro scope exists; `SymbolNotDefined` defers the binding -/
def bindArgs (env : Env) (r : Resolver) : List String → List MArg → Except Err (List (String × Bound))
  | [], _ => .ok []
  | _ :: _, [] => .error .index
  | p :: ps, a :: as =>
    match a with
    | .block b _ =>
      match bindArgs env r ps as with
      | .error e => .error e
      | .ok rest => .ok ((p, .code b) :: rest)
    | .expr e =>
      match evalP env r e with
      | .ok v =>
        (match bindArgs env r ps as with
         | .error er => .error er
         | .ok rest => .ok ((p, .int v) :: rest))
      | .error (.symbolNotDefined _) =>
        (match bindArgs env r ps as with
         | .error er => .error er
         | .ok rest => .ok ((p, .deferred e) :: rest))
      | .error er => .error er

/-- the second loop: bind the evaluated parameters in the (new) current scope -/
def bindParams (r : Resolver) : List (String × Bound) → Resolver
  | [] => r
  | (p, .int v) :: rest => bindParams (r.addSymbol p v) rest
  | (p, .code b) :: rest => bindParams (r.addCodeSymbol p b) rest
  | (_, .deferred _) :: rest => bindParams r rest

/-- … and the `SymbolNode`s of the deferred ones -/
def deferredNodes : List (String × Bound) → List Node
  | [] => []
  | (p, .deferred e) :: rest => Node.argSymbol p e :: deferredNodes rest
  | _ :: rest => deferredNodes rest

/-- generate a statement list with a generator for single statements -/
def genListWith (g : Ast → GM (List Node)) (l : List Ast) : GM (List Node) := do
  let parts ← l.mapM g
  pure parts.flatten

/-- one iteration of `.for`: a fresh internal scope, entered, that binds the variable and holds the body -/
def iterationWith (g : Ast → GM (List Node)) (sym : String) (body : List Ast) (k : Int) : GM (List Node) := do
  modR fun r => r.appendScope .internal
  gUseNext
  let inner ← genListWith g body
  gRestore false
  pure (Node.scopeEnter :: Node.symbolConst sym k :: inner ++ [Node.scopePop])

/-- a scope-opening construct: append the scope, enter it, prepare it, generate the body, leave it -/
def withScope (kind : ScopeKind) (prep : Resolver → Resolver) (pre : List Node) (body : GM (List Node)) : GM (List Node) := do
  modR fun r => r.appendScope kind
  gUseNext
  modR prep
  let inner ← body
  gRestore false
  pure (Node.scopeEnter :: pre ++ inner ++ [Node.scopePop])

/-- one generator call (`generators[node.kind](…)`); the fuel bounds the nesting depth of the expansion -/
def gen (env : Env) : Nat → Ast → GM (List Node)
  | 0, _ => throw .recursion
  | fuel+1, ast => do
    match ast with
    | .block body _ => genListWith (gen env fuel) body
    | .scope name body _ => withScope (.named name) id [] (genListWith (gen env fuel) body)
    | .compound body _ => withScope .plain id [] (genListWith (gen env fuel) body)
    | .map args _ => do genMap args; pure []
    | .macro name params body _ => do
      modify fun st => { st with macros := ainsert name ⟨params, body⟩ st.macros }
      pure []
    | .macroApply name args _ => do
      let st ← get
      let md ← liftOpt .key (alookup name st.macros)
      match bindArgs env st.r md.params args with
      | .error er => throw er
      | .ok bound => withScope .plain (fun r => bindParams r bound) (deferredNodes bound) (genListWith (gen env fuel) md.body)
    | .codeLookup name info => do
      let st ← get
      match st.r.valueFor name with
      | .code body => genListWith (gen env fuel) body
      | .int _ => throw (nodeErr "not-a-code-block" info)
      | .undefined => throw (.symbolNotDefined name)
    | .ifNode cond thenB elseB _ => do
      let st ← get
      let c : Bool ← match evalP env st.r cond with
        | .ok v => pure (v != 0)
        | .error .key => pure false
        | .error (.symbolNotDefined _) => pure false
        | .error er => throw er
      if c then genListWith (gen env fuel) thenB
      else match elseB with
        | some eb => genListWith (gen env fuel) eb
        | none => pure []
    | .forNode sym lo hi body _ => do
      let a ← gEval env lo
      let b ← gEval env hi
      let parts ← (List.range (b - a).toNat).mapM fun (j : Nat) => iterationWith (gen env fuel) sym body (a + (j : Nat))
      pure parts.flatten
    | .atEq e info => pure [Node.reloc e info]
    | .starEq e info => pure [Node.codePos e info]
    | .table path _ => do
      let st ← get
      let src ← liftOpt .os (alookup path st.fs.text)
      match mkTable (readLines src.toList) with
      | .error er => throw er
      | .ok t => modR fun r => r.modifyCur fun s => { s with table := some t }
      pure [Node.table]
    | .text s info => do
      let st ← get
      pure [Node.text s st.r.getTable info]
    | .ascii s _ => pure [Node.ascii s]
    | .data kind es info =>
      let w := if kind == "db" then 1 else if kind == "dw" then 2 else 3
      pure (es.map fun e => Node.data w e info)
    | .symbol name e _ => pure [Node.symbol name e]
    | .assign name e _ => do
      let v ← gEval env e
      modR fun r => r.addSymbol name v
      pure []
    | .label name _ => pure [Node.label name]
    | .opcode mode mn size operand index info =>
      if mode == .none then pure [Node.opcode (asciiLower mn) none mode none none info]
      else
        match operand with
        | none => throw .assertion
        | some e =>
          let idx := if mode == .direct_indexed || mode == .indirect_indexed || mode == .indirect_indexed_long
              || mode == .dp_or_sr_indirect_indexed || mode == .stack_indexed_indirect_indexed then index else none
          pure [Node.opcode (asciiLower mn) size mode idx (some e) info]
    | .incbin path _ => do
      let st ← get
      let content ← liftOpt .os (alookup path st.fs.bin)
      pure [Node.binary content (symbolBase path)]
    | .includeIps path e _ => do
      let delta ← gEval env e
      let st ← get
      let content ← liftOpt .os (alookup path st.fs.bin)
      match ipsReadInclude content delta with
      | .ok blocks => pure [Node.includeIps blocks]
      | .error er => throw er
    | .struct _ _ => throw .runtime

/-- `_code_gen(ast_nodes, resolver, macro_definitions)` -/
def genList (env : Env) (fuel : Nat) (l : List Ast) : GM (List Node) := genListWith (gen env fuel) l


end A816
